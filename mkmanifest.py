#!/usr/bin/env python3
"""Regenerates MANIFEST.json from vlib/props/*.py (claimed) and the fixed property list."""
import importlib, json, os, sys
sys.path.insert(0, os.path.dirname(os.path.abspath(__file__)))
ids = [json.loads(l)["id"] for l in open("properties.jsonl")]
checks, na = [], []
for pid in ids:
    try:
        spec = importlib.import_module("vlib.props." + pid)
        if pid not in open("claimed.txt").read().split():
            raise ModuleNotFoundError
    except ModuleNotFoundError:
        na.append({"property_id": pid, "reason": "check not built yet (work in progress; see DESIGN.md §6 for the plan)"})
        continue
    checks.append({
        "property_id": pid,
        "quick_cmd": "./check %s --tier quick" % pid,
        "thorough_cmd": "./check %s --tier thorough" % pid,
        "evidence_file": "/verif/evidence/%s.json" % pid,
        "replay_cmd_template": "./check %s --replay {path}" % pid,
        "engine": "lean4-proof+correspondence",
        "level_claimed": {"category": spec.LEVEL, "text": spec.LEVEL_TEXT, "design_ref": "DESIGN.md §6 " + pid},
        "level_note": spec.LEVEL_NOTE,
        "technique": spec.TECHNIQUE,
    })
m = {
    "version": 1,
    "setup_cmd": "./setup.sh",
    "hooks": {
        "guard": "--cfg subjective_logic_verif",
        "enable": "RUSTFLAGS / .cargo/config.toml of /verif/harness: rustflags = [\"--cfg\", \"subjective_logic_verif\"]",
        "baseline_off_cmd": "cd /repo && cargo test --workspace --no-fail-fast --offline",
        "source_commits": [l.strip() for l in open("hooks_commits.txt")] if os.path.exists("hooks_commits.txt") else [],
        "add_only": True,
    },
    "engines": [{
        "name": "lean4-proof+correspondence", "path": "/verif/check",
        "serves_properties": [c["property_id"] for c in checks],
        "kind_free_text": "Lean 4 theorems about a hand-written executable model (lake build + axiom audit) tied to /repo by a differential correspondence check (Rust harness calling the real crate vs the exact-rational model) with the theorem's executable predicates evaluated on the implementation's outputs",
    }],
    "checks": checks,
    "not_applicable": na,
    "notes": "See DESIGN.md. known_findings.txt lists recorded findings and fix: commits.",
}
json.dump(m, open("MANIFEST.json", "w"), indent=1)
print("claimed:", [c["property_id"] for c in checks])
