#!/bin/sh
# Build the framework from files on disk only (offline): Lean model, drivers and every proof module, then the translation tie
# (regenerated from /repo's working tree) and the two Rust harnesses against /repo's working tree.
# Everything that depends only on /verif must build (set -e). What depends on /repo's CURRENT SOURCE -- the generated Lean text
# with its tie theorems, and the harnesses -- is attempted and, if it fails, left to the checks, which rebuild it on every run
# and report it (a changed /repo must not make the setup itself fail).
set -e
cd "$(dirname "$0")"
export CARGO_NET_OFFLINE=true
mkdir -p work evidence replays
MODS=$(sed -n 's/^import \(SLV\.[A-Za-z0-9_.]*\)$/\1/p' lean/SLV.lean | grep -v '^SLV\.Gen\.' | tr '\n' ' ')
(cd lean && lake build slvmodel slvarr $MODS)
tools/regen.sh >/dev/null 2>&1 || echo "setup: translator reported holes or failed (the checks report the affected tie theorems)"
(cd lean && lake build SLV.Gen.BiTie SLV.Gen.MulTie SLV) || echo "setup: the translation tie does not check against /repo's current source (reported by the checks)"
(cd harness && cargo build --release --offline) || echo "setup: harness does not build against /repo's current source (reported by the checks)"
(cd harness_arr && cargo build --release --offline) || echo "setup: array harness does not build against /repo's current source (reported by the checks)"
exit 0
