#!/bin/sh
# Build the framework from files on disk only (offline).
set -e
cd "$(dirname "$0")"
export CARGO_NET_OFFLINE=true
mkdir -p work evidence replays
(cd lean && lake build SLV slvmodel)
(cd harness && cargo build --release --offline)
