#!/bin/sh
# Build the framework from files on disk only (offline): Lean model, drivers and every proof module,
# then the two Rust harnesses against /repo's working tree.
set -e
cd "$(dirname "$0")"
export CARGO_NET_OFFLINE=true
mkdir -p work evidence replays
(cd lean && lake build SLV slvmodel slvarr)
(cd harness && cargo build --release --offline)
(cd harness_arr && cargo build --release --offline)
