#!/usr/bin/env python3
"""Regenerates lean/SLV.lean: imports the model, driver, oracle and the proof modules of the claimed properties."""
import glob, os
claimed = open("claimed.txt").read().split()
mods = []
for d in ("Num", "Model", "Oracle", "Driver"):
    for f in sorted(glob.glob("lean/SLV/%s/*.lean" % d)):
        mods.append("SLV.%s.%s" % (d, os.path.basename(f)[:-5]))
mods += ["SLV.Refine.Lift", "SLV.Refine.MinLemmas", "SLV.Props.Pinned", "SLV.Props.PinnedC05", "SLV.Props.Guards", "SLV.Props.FloatSpecials", "SLV.Props.OracleSpec", "SLV.Props.C05Scaled", "SLV.Props.C02Equal", "SLV.Gen.BiTie", "SLV.Gen.MulTie"]
for c in claimed:
    if os.path.exists("lean/SLV/Props/%s.lean" % c):
        mods.append("SLV.Props." + c)
open("lean/SLV.lean", "w").write("".join("import %s\n" % m for m in mods))
print(len(mods), "modules")
