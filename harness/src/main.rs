//! slharness: line-protocol test harness for the `subjective-logic` crate.
//! See /verif/PROTOCOL.md for the contract.  The operation code lives in `ops.rs`
//! and is included twice (once with `type V = f64`, once with `type V = f32`).
#![allow(dead_code, unused_imports, unused_macros, clippy::all)]

use std::fmt::Write as _;
use std::io::{BufWriter, Read, Write};
use std::panic::{catch_unwind, AssertUnwindSafe};

use subjective_logic::domain::{Domain, Keys};
use subjective_logic::mul::{OpinionBase, Simplex};
use subjective_logic::multi_array::labeled::{MArrD1, MArrD2, MArrD3};
use subjective_logic::multi_array::non_labeled::{MArr1, MArr2, MArr3};
use subjective_logic::{impl_domain, new_type_domain};

// ---------------------------------------------------------------------------------------------
// Outcome of one case (a panic is observed by `catch_unwind` in `main`).
pub enum Out {
    /// `ok` followed by the already formatted tokens (each preceded by one blank).
    Ok(String),
    /// `Err(InvalidValueError(msg))`: the raw message.
    Err(String),
    /// `Err` with the raw message, followed by extra result tokens (printed before `rej=`).
    ErrWith(String, String),
    NoneV,
    Unsup,
}

// ---------------------------------------------------------------------------------------------
// Scalars
pub trait Fl: Copy {
    fn from_hex(s: &str) -> Option<Self>;
    fn put(self, w: &mut String);
}

impl Fl for f64 {
    fn from_hex(s: &str) -> Option<Self> {
        if s.len() != 16 {
            return None;
        }
        u64::from_str_radix(s, 16).ok().map(f64::from_bits)
    }
    fn put(self, w: &mut String) {
        let _ = write!(w, " {:016x}", self.to_bits());
    }
}

impl Fl for f32 {
    fn from_hex(s: &str) -> Option<Self> {
        if s.len() != 8 {
            return None;
        }
        u32::from_str_radix(s, 16).ok().map(f32::from_bits)
    }
    fn put(self, w: &mut String) {
        let _ = write!(w, " {:08x}", self.to_bits());
    }
}

// ---------------------------------------------------------------------------------------------
// Dumping results: every scalar leaf in the container's own (row-major) iteration order.
pub trait Dump {
    fn dump(&self, w: &mut String);
}

impl Dump for f64 {
    fn dump(&self, w: &mut String) {
        self.put(w)
    }
}
impl Dump for f32 {
    fn dump(&self, w: &mut String) {
        self.put(w)
    }
}
impl Dump for bool {
    fn dump(&self, w: &mut String) {
        w.push_str(if *self { " T" } else { " F" });
    }
}
impl<T: Dump> Dump for &T {
    fn dump(&self, w: &mut String) {
        (**self).dump(w)
    }
}
impl<T: Dump, const N: usize> Dump for [T; N] {
    fn dump(&self, w: &mut String) {
        for e in self.iter() {
            e.dump(w)
        }
    }
}
impl<T: Dump, const K0: usize> Dump for MArr1<T, K0> {
    fn dump(&self, w: &mut String) {
        for e in self {
            e.dump(w)
        }
    }
}
impl<T: Dump, const K0: usize, const K1: usize> Dump for MArr2<T, K0, K1> {
    fn dump(&self, w: &mut String) {
        for e in self {
            e.dump(w)
        }
    }
}
impl<T: Dump, const K0: usize, const K1: usize, const K2: usize> Dump for MArr3<T, K0, K1, K2> {
    fn dump(&self, w: &mut String) {
        for e in self {
            e.dump(w)
        }
    }
}
impl<D0: Domain, T: Dump> Dump for MArrD1<D0, T> {
    fn dump(&self, w: &mut String) {
        for e in self {
            e.dump(w)
        }
    }
}
impl<D0: Domain, D1: Domain, T: Dump> Dump for MArrD2<D0, D1, T> {
    fn dump(&self, w: &mut String) {
        for e in self {
            e.dump(w)
        }
    }
}
impl<D0: Domain, D1: Domain, D2: Domain, T: Dump> Dump for MArrD3<D0, D1, D2, T> {
    fn dump(&self, w: &mut String) {
        for e in self {
            e.dump(w)
        }
    }
}
impl<T: Dump, V: Dump> Dump for Simplex<T, V> {
    fn dump(&self, w: &mut String) {
        self.belief.dump(w);
        self.uncertainty.dump(w);
    }
}
impl<S: Dump, T: Dump> Dump for OpinionBase<S, T> {
    fn dump(&self, w: &mut String) {
        self.simplex.dump(w);
        self.base_rate.dump(w);
    }
}

// ---------------------------------------------------------------------------------------------
// Building containers from a flat (row-major) vector, without any validation.
pub trait Mk<E>: Sized {
    fn mk(v: Vec<E>) -> Self;
}
impl<E, const N: usize> Mk<E> for [E; N] {
    fn mk(v: Vec<E>) -> Self {
        match v.try_into() {
            Ok(a) => a,
            Err(_) => panic!("harness: bad length"),
        }
    }
}
impl<E, const K0: usize> Mk<E> for MArr1<E, K0> {
    fn mk(v: Vec<E>) -> Self {
        assert!(v.len() == K0, "harness: bad length");
        Self::from_iter(v)
    }
}
impl<E, const K0: usize, const K1: usize> Mk<E> for MArr2<E, K0, K1> {
    fn mk(v: Vec<E>) -> Self {
        assert!(v.len() == K0 * K1, "harness: bad length");
        Self::from_iter(v)
    }
}
impl<E, const K0: usize, const K1: usize, const K2: usize> Mk<E> for MArr3<E, K0, K1, K2> {
    fn mk(v: Vec<E>) -> Self {
        assert!(v.len() == K0 * K1 * K2, "harness: bad length");
        Self::from_iter(v)
    }
}
impl<D0: Domain, E> Mk<E> for MArrD1<D0, E> {
    fn mk(v: Vec<E>) -> Self {
        Self::from_iter(v)
    }
}
impl<D0: Domain, D1: Domain, E> Mk<E> for MArrD2<D0, D1, E> {
    fn mk(v: Vec<E>) -> Self {
        assert!(v.len() == D0::LEN * D1::LEN, "harness: bad length");
        Self::from_iter(v)
    }
}
impl<D0: Domain, D1: Domain, D2: Domain, E> Mk<E> for MArrD3<D0, D1, D2, E> {
    fn mk(v: Vec<E>) -> Self {
        assert!(v.len() == D0::LEN * D1::LEN * D2::LEN, "harness: bad length");
        Self::from_iter(v)
    }
}

// ---------------------------------------------------------------------------------------------
// Multi-dimensional containers as opinion domains (families M2/M3, D2/D3, N2/N3): operands are
// built through the `new` constructors only (never `from_iter` / `from_fn`, which are the plumbing
// under observation) and results are read cell by cell THROUGH THE INDEX OPERATOR.
pub trait Nd<E>: Sized {
    /// from the row-major cells
    fn build(v: Vec<E>) -> Self;
    /// every cell through `Index`, in row-major index order
    fn cells(&self) -> Vec<&E>;
    /// every cell in the container's own iteration order
    fn iter_cells(&self) -> Vec<&E>;
}
impl<E, const K0: usize, const K1: usize> Nd<E> for MArr2<E, K0, K1> {
    fn build(v: Vec<E>) -> Self {
        assert!(v.len() == K0 * K1, "harness: bad length");
        let mut it = v.into_iter();
        MArr2::new(std::array::from_fn(|_| MArr1::new(std::array::from_fn(|_| it.next().unwrap()))))
    }
    fn cells(&self) -> Vec<&E> {
        let mut o = Vec::new();
        for i in 0..K0 {
            for j in 0..K1 {
                o.push(&self[[i, j]]);
            }
        }
        o
    }
    fn iter_cells(&self) -> Vec<&E> {
        self.into_iter().collect()
    }
}
impl<E, const K0: usize, const K1: usize, const K2: usize> Nd<E> for MArr3<E, K0, K1, K2> {
    fn build(v: Vec<E>) -> Self {
        assert!(v.len() == K0 * K1 * K2, "harness: bad length");
        let mut it = v.into_iter();
        MArr3::new(std::array::from_fn(|_| {
            MArr2::new(std::array::from_fn(|_| MArr1::new(std::array::from_fn(|_| it.next().unwrap()))))
        }))
    }
    fn cells(&self) -> Vec<&E> {
        let mut o = Vec::new();
        for i in 0..K0 {
            for j in 0..K1 {
                for k in 0..K2 {
                    o.push(&self[[i, j, k]]);
                }
            }
        }
        o
    }
    fn iter_cells(&self) -> Vec<&E> {
        self.into_iter().collect()
    }
}
impl<D0: Domain, D1: Domain, E> Nd<E> for MArrD2<D0, D1, E> {
    fn build(v: Vec<E>) -> Self {
        assert!(v.len() == D0::LEN * D1::LEN, "harness: bad length");
        let mut it = v.into_iter();
        MArrD2::new(
            (0..D0::LEN)
                .map(|_| MArrD1::new((0..D1::LEN).map(|_| it.next().unwrap()).collect::<Vec<E>>()))
                .collect::<Vec<_>>(),
        )
    }
    fn cells(&self) -> Vec<&E> {
        let mut o = Vec::new();
        for i in 0..D0::LEN {
            for j in 0..D1::LEN {
                o.push(&self[(D0::Idx::from(i), D1::Idx::from(j))]);
            }
        }
        o
    }
    fn iter_cells(&self) -> Vec<&E> {
        self.into_iter().collect()
    }
}
impl<D0: Domain, D1: Domain, D2: Domain, E> Nd<E> for MArrD3<D0, D1, D2, E> {
    fn build(v: Vec<E>) -> Self {
        assert!(v.len() == D0::LEN * D1::LEN * D2::LEN, "harness: bad length");
        let mut it = v.into_iter();
        MArrD3::new(
            (0..D0::LEN)
                .map(|_| {
                    MArrD2::new(
                        (0..D1::LEN)
                            .map(|_| MArrD1::new((0..D2::LEN).map(|_| it.next().unwrap()).collect::<Vec<E>>()))
                            .collect::<Vec<_>>(),
                    )
                })
                .collect::<Vec<_>>(),
        )
    }
    fn cells(&self) -> Vec<&E> {
        let mut o = Vec::new();
        for i in 0..D0::LEN {
            for j in 0..D1::LEN {
                for k in 0..D2::LEN {
                    o.push(&self[(D0::Idx::from(i), D1::Idx::from(j), D2::Idx::from(k))]);
                }
            }
        }
        o
    }
    fn iter_cells(&self) -> Vec<&E> {
        self.into_iter().collect()
    }
}

// ---------------------------------------------------------------------------------------------
// Borrowed views of conditional tables (style `r`): a table of `&Simplex`.
pub trait RefTab {
    type R<'a>
    where
        Self: 'a;
    fn rt<'a>(&'a self) -> Self::R<'a>;
}
impl<E, const N: usize> RefTab for [E; N] {
    type R<'a> = [&'a E; N] where Self: 'a;
    fn rt<'a>(&'a self) -> Self::R<'a> {
        self.each_ref()
    }
}
impl<E, const K0: usize> RefTab for MArr1<E, K0> {
    type R<'a> = MArr1<&'a E, K0> where Self: 'a;
    fn rt<'a>(&'a self) -> Self::R<'a> {
        MArr1::from_iter(self)
    }
}
impl<E, const K0: usize, const K1: usize> RefTab for MArr2<E, K0, K1> {
    type R<'a> = MArr2<&'a E, K0, K1> where Self: 'a;
    fn rt<'a>(&'a self) -> Self::R<'a> {
        MArr2::from_iter(self)
    }
}
impl<D0: Domain, E> RefTab for MArrD1<D0, E> {
    type R<'a> = MArrD1<D0, &'a E> where Self: 'a;
    fn rt<'a>(&'a self) -> Self::R<'a> {
        self.as_ref()
    }
}
impl<D0: Domain, D1: Domain, E> RefTab for MArrD2<D0, D1, E> {
    type R<'a> = MArrD2<D0, D1, &'a E> where Self: 'a;
    fn rt<'a>(&'a self) -> Self::R<'a> {
        // as in test_deduction_ref2: rows borrowed through `MArrD1::as_ref`
        MArrD2::new(D0::keys().map(|k| self.down(k).as_ref()).collect())
    }
}

/// By-reference tables with SHARED entries (variant token `shared`): entry `i` (row-major) refers
/// to the object stored at position `canon[i]` of `self`, so equal `canon` values alias ONE object.
pub trait SharedTab: RefTab {
    fn rt_shared<'a>(&'a self, canon: &[usize]) -> Self::R<'a>;
}
impl<E, const N: usize> SharedTab for [E; N] {
    fn rt_shared<'a>(&'a self, canon: &[usize]) -> Self::R<'a> {
        std::array::from_fn(|i| &self[canon[i]])
    }
}
impl<E, const K0: usize> SharedTab for MArr1<E, K0> {
    fn rt_shared<'a>(&'a self, canon: &[usize]) -> Self::R<'a> {
        MArr1::new(std::array::from_fn(|i| &self[[canon[i]]]))
    }
}
impl<E, const K0: usize, const K1: usize> SharedTab for MArr2<E, K0, K1> {
    fn rt_shared<'a>(&'a self, canon: &[usize]) -> Self::R<'a> {
        MArr2::new(std::array::from_fn(|i| {
            MArr1::new(std::array::from_fn(|j| {
                let c = canon[i * K1 + j];
                &self[[c / K1, c % K1]]
            }))
        }))
    }
}
impl<D0: Domain, E> SharedTab for MArrD1<D0, E> {
    fn rt_shared<'a>(&'a self, canon: &[usize]) -> Self::R<'a> {
        MArrD1::new((0..D0::LEN).map(|i| &self[D0::Idx::from(canon[i])]).collect::<Vec<&'a E>>())
    }
}
impl<D0: Domain, D1: Domain, E> SharedTab for MArrD2<D0, D1, E> {
    fn rt_shared<'a>(&'a self, canon: &[usize]) -> Self::R<'a> {
        MArrD2::new(
            (0..D0::LEN)
                .map(|i| {
                    MArrD1::new(
                        (0..D1::LEN)
                            .map(|j| {
                                let c = canon[i * D1::LEN + j];
                                &self[(D0::Idx::from(c / D1::LEN), D1::Idx::from(c % D1::LEN))]
                            })
                            .collect::<Vec<&'a E>>(),
                    )
                })
                .collect::<Vec<_>>(),
        )
    }
}

// ---------------------------------------------------------------------------------------------
// Domains.  `D*`: usize-indexed (`impl_domain!`), `N*`: newtype-indexed (`new_type_domain!`).
// Roles X, Y, Z are distinct types even for equal sizes.
pub mod dom {
    use super::*;
    macro_rules! ddef { ($($s:ident = $l:expr),* $(,)?) => { $(pub struct $s; impl_domain!($s = $l);)* } }
    macro_rules! ndef { ($($s:ident = $l:expr),* $(,)?) => { $(new_type_domain!(pub $s = $l);)* } }
    ddef!(DX1 = 1, DX2 = 2, DX3 = 3, DX4 = 4, DY1 = 1, DY2 = 2, DY3 = 3, DY4 = 4, DZ1 = 1, DZ2 = 2, DZ3 = 3, DZ4 = 4);
    ndef!(NX1 = 1, NX2 = 2, NX3 = 3, NX4 = 4, NY1 = 1, NY2 = 2, NY3 = 3, NY4 = 4, NZ1 = 1, NZ2 = 2, NZ3 = 3, NZ4 = 4);
}

macro_rules! dom {
    (D, X, 1) => { crate::dom::DX1 }; (D, X, 2) => { crate::dom::DX2 }; (D, X, 3) => { crate::dom::DX3 }; (D, X, 4) => { crate::dom::DX4 };
    (D, Y, 1) => { crate::dom::DY1 }; (D, Y, 2) => { crate::dom::DY2 }; (D, Y, 3) => { crate::dom::DY3 }; (D, Y, 4) => { crate::dom::DY4 };
    (D, Z, 1) => { crate::dom::DZ1 }; (D, Z, 2) => { crate::dom::DZ2 }; (D, Z, 3) => { crate::dom::DZ3 }; (D, Z, 4) => { crate::dom::DZ4 };
    (N, X, 1) => { crate::dom::NX1 }; (N, X, 2) => { crate::dom::NX2 }; (N, X, 3) => { crate::dom::NX3 }; (N, X, 4) => { crate::dom::NX4 };
    (N, Y, 1) => { crate::dom::NY1 }; (N, Y, 2) => { crate::dom::NY2 }; (N, Y, 3) => { crate::dom::NY3 }; (N, Y, 4) => { crate::dom::NY4 };
    (N, Z, 1) => { crate::dom::NZ1 }; (N, Z, 2) => { crate::dom::NZ2 }; (N, Z, 3) => { crate::dom::NZ3 }; (N, Z, 4) => { crate::dom::NZ4 };
}

/// 1-D container type of family `$F`, role `$r`, size `$n`, element `$e`.
macro_rules! c1 {
    (A, $r:ident, $n:tt, $e:ty) => { [$e; $n] };
    (M, $r:ident, $n:tt, $e:ty) => { MArr1<$e, $n> };
    (D, $r:ident, $n:tt, $e:ty) => { MArrD1<dom!(D, $r, $n), $e> };
    (N, $r:ident, $n:tt, $e:ty) => { MArrD1<dom!(N, $r, $n), $e> };
}
/// 2-D container type (families M, D, N).
macro_rules! c2 {
    (M, $r0:ident, $n0:tt, $r1:ident, $n1:tt, $e:ty) => { MArr2<$e, $n0, $n1> };
    (D, $r0:ident, $n0:tt, $r1:ident, $n1:tt, $e:ty) => { MArrD2<dom!(D, $r0, $n0), dom!(D, $r1, $n1), $e> };
    (N, $r0:ident, $n0:tt, $r1:ident, $n1:tt, $e:ty) => { MArrD2<dom!(N, $r0, $n0), dom!(N, $r1, $n1), $e> };
}
/// 3-D container type (families M, D, N).
macro_rules! c3 {
    (M, $n0:tt, $n1:tt, $n2:tt, $e:ty) => { MArr3<$e, $n0, $n1, $n2> };
    (D, $n0:tt, $n1:tt, $n2:tt, $e:ty) => { MArrD3<dom!(D, X, $n0), dom!(D, Y, $n1), dom!(D, Z, $n2), $e> };
    (N, $n0:tt, $n1:tt, $n2:tt, $e:ty) => { MArrD3<dom!(N, X, $n0), dom!(N, Y, $n1), dom!(N, Z, $n2), $e> };
}

/// Runtime → compile-time dispatch.  `chain!(@ [fam f; n14 n; n23 m;] body [args])` expands to
/// nested matches ending in `body!(args F n m)`; anything out of range yields `Out::Unsup`.
macro_rules! chain {
    (@ [] $cb:ident [$($acc:tt)*]) => { $cb!($($acc)*) };
    (@ [fam $f:expr; $($rest:tt)*] $cb:ident [$($acc:tt)*]) => {
        match $f {
            'A' => chain!(@ [$($rest)*] $cb [$($acc)* A]),
            'M' => chain!(@ [$($rest)*] $cb [$($acc)* M]),
            'D' => chain!(@ [$($rest)*] $cb [$($acc)* D]),
            'N' => chain!(@ [$($rest)*] $cb [$($acc)* N]),
            _ => Out::Unsup,
        }
    };
    (@ [n14 $n:expr; $($rest:tt)*] $cb:ident [$($acc:tt)*]) => {
        match $n {
            1 => chain!(@ [$($rest)*] $cb [$($acc)* 1]),
            2 => chain!(@ [$($rest)*] $cb [$($acc)* 2]),
            3 => chain!(@ [$($rest)*] $cb [$($acc)* 3]),
            4 => chain!(@ [$($rest)*] $cb [$($acc)* 4]),
            _ => Out::Unsup,
        }
    };
    (@ [n24 $n:expr; $($rest:tt)*] $cb:ident [$($acc:tt)*]) => {
        match $n {
            2 => chain!(@ [$($rest)*] $cb [$($acc)* 2]),
            3 => chain!(@ [$($rest)*] $cb [$($acc)* 3]),
            4 => chain!(@ [$($rest)*] $cb [$($acc)* 4]),
            _ => Out::Unsup,
        }
    };
    (@ [n13 $n:expr; $($rest:tt)*] $cb:ident [$($acc:tt)*]) => {
        match $n {
            1 => chain!(@ [$($rest)*] $cb [$($acc)* 1]),
            2 => chain!(@ [$($rest)*] $cb [$($acc)* 2]),
            3 => chain!(@ [$($rest)*] $cb [$($acc)* 3]),
            _ => Out::Unsup,
        }
    };
    (@ [n23 $n:expr; $($rest:tt)*] $cb:ident [$($acc:tt)*]) => {
        match $n {
            2 => chain!(@ [$($rest)*] $cb [$($acc)* 2]),
            3 => chain!(@ [$($rest)*] $cb [$($acc)* 3]),
            _ => Out::Unsup,
        }
    };
}

mod f64m {
    pub type V = f64;
    include!("ops.rs");
}
mod f32m {
    pub type V = f32;
    include!("ops.rs");
}

// ---------------------------------------------------------------------------------------------
// Label extraction

/// Normalises the rejected quantity of an `InvalidValueError` message:
/// `b[(0, 1)]` → `b[]`, `sum(b) + u` → `sum(b)+u`.  `None` when the message has another shape.
fn label_of(msg: &str) -> Option<String> {
    const M1: &str = " ∈ [0,1] is not satisfied";
    const M2: &str = " = 1 is not satisfied";
    let end = match (msg.find(M1), msg.find(M2)) {
        (Some(a), Some(b)) => a.min(b),
        (Some(a), None) => a,
        (None, Some(b)) => b,
        (None, None) => return None,
    };
    let head = &msg[..end];
    let mut start = 0;
    for pat in ["because ", "InvalidValueError(\""] {
        if let Some(p) = head.rfind(pat) {
            start = start.max(p + pat.len());
        }
    }
    let q = &head[start..];
    let mut out = String::new();
    let mut depth = 0usize;
    for c in q.chars() {
        match c {
            '[' => {
                if depth == 0 {
                    out.push('[');
                }
                depth += 1;
            }
            ']' => {
                if depth > 0 {
                    depth -= 1;
                }
                if depth == 0 {
                    out.push(']');
                }
            }
            ' ' => {}
            c if depth == 0 => out.push(c),
            _ => {}
        }
    }
    if out.is_empty() {
        None
    } else {
        Some(out)
    }
}

fn take_rej() -> Option<f64> {
    subjective_logic::errors::verif_hook::take()
}

fn push_rej(w: &mut String) {
    if let Some(v) = take_rej() {
        let _ = write!(w, " rej={:016x}", v.to_bits());
    }
}

fn parse_scalars<V: Fl>(toks: &[&str]) -> Option<Vec<V>> {
    toks.iter().map(|t| V::from_hex(t)).collect()
}

/// Runs one case line and returns the text after ` => `.
fn run_line(line: &str) -> String {
    let toks: Vec<&str> = line.split(' ').collect();
    if toks.len() < 5 || toks.iter().any(|t| t.is_empty()) {
        return "unsupported".into();
    }
    let (op, fmt, variant, ints_s) = (toks[1], toks[2], toks[3], toks[4]);
    let var: Vec<&str> = variant.split('.').collect();
    let ints: Vec<i64> = if ints_s == "-" {
        Vec::new()
    } else {
        match ints_s.split(',').map(|s| s.parse::<i64>().ok()).collect::<Option<Vec<_>>>() {
            Some(v) => v,
            None => return "unsupported".into(),
        }
    };
    let _ = take_rej();
    let res = match fmt {
        "f64" => match parse_scalars::<f64>(&toks[5..]) {
            Some(sc) => catch_unwind(AssertUnwindSafe(|| f64m::run(op, &var, &ints, &sc))),
            None => return "unsupported".into(),
        },
        "f32" => match parse_scalars::<f32>(&toks[5..]) {
            Some(sc) => catch_unwind(AssertUnwindSafe(|| f32m::run(op, &var, &ints, &sc))),
            None => return "unsupported".into(),
        },
        _ => return "unsupported".into(),
    };
    match res {
        Ok(Out::Ok(s)) => format!("ok{s}"),
        Ok(Out::NoneV) => "none".into(),
        Ok(Out::Unsup) => "unsupported".into(),
        Ok(Out::Err(msg)) => match label_of(&msg) {
            Some(l) => {
                let mut s = format!("err {l}");
                push_rej(&mut s);
                s
            }
            None => "err ?".into(),
        },
        Ok(Out::ErrWith(msg, toks)) => match label_of(&msg) {
            Some(l) => {
                let mut s = format!("err {l}{toks}");
                push_rej(&mut s);
                s
            }
            None => format!("err ?{toks}"),
        },
        Err(payload) => {
            let msg: Option<&str> = if let Some(s) = payload.downcast_ref::<String>() {
                Some(s.as_str())
            } else if let Some(s) = payload.downcast_ref::<&'static str>() {
                Some(*s)
            } else {
                None
            };
            match msg.and_then(label_of) {
                Some(l) => {
                    let mut s = format!("panic {l}");
                    push_rej(&mut s);
                    s
                }
                None => "panic ?".into(),
            }
        }
    }
}

fn main() {
    std::panic::set_hook(Box::new(|_| {}));
    let mut input = String::new();
    match std::env::args().nth(1) {
        Some(path) => {
            input = match std::fs::read_to_string(&path) {
                Ok(s) => s,
                Err(e) => {
                    eprintln!("slharness: cannot read {path}: {e}");
                    std::process::exit(2);
                }
            }
        }
        None => {
            if let Err(e) = std::io::stdin().lock().read_to_string(&mut input) {
                eprintln!("slharness: cannot read stdin: {e}");
                std::process::exit(2);
            }
        }
    }
    let stdout = std::io::stdout();
    let mut out = BufWriter::with_capacity(1 << 20, stdout.lock());
    for line in input.lines() {
        if line.trim().is_empty() || line.starts_with('#') {
            continue;
        }
        let r = run_line(line);
        let _ = out.write_all(line.as_bytes());
        let _ = out.write_all(b" => ");
        let _ = out.write_all(r.as_bytes());
        let _ = out.write_all(b"\n");
    }
    let _ = out.flush();
}
