// Operation code, written once; included with `type V = f64` and `type V = f32`.
use super::*;

use std::cell::Cell;

use approx::{AbsDiffEq, RelativeEq, UlpsEq};
use subjective_logic::bi::{BOpinion, BSimplex};
use subjective_logic::errors::InvalidValueError;
use subjective_logic::mul::labeled::{OpinionD1, SimplexD1};
use subjective_logic::mul::non_labeled::{Opinion1d, Simplex1d};
use subjective_logic::mul::{mbr, InverseCondition, MergeJointConditions2, Opinion, OpinionRef};
use subjective_logic::ops::{
    Abduction, Deduction, Discount, Fuse, FuseAssign, FuseOp, MaxUncertainty, Product2, Product3,
    Projection,
};

// ---------------------------------------------------------------------------------------------
// helpers

fn ok<D: Dump + ?Sized>(d: &D) -> Out {
    let mut w = String::new();
    d.dump(&mut w);
    Out::Ok(w)
}

fn opt<D: Dump>(r: Option<D>) -> Out {
    match r {
        Some(d) => ok(&d),
        None => Out::NoneV,
    }
}

/// `S(n)` = b[0..n] u  →  unchecked simplex.
fn mk_s<T: Mk<V>>(sc: &[V]) -> Simplex<T, V> {
    let n = sc.len() - 1;
    Simplex::new_unchecked(T::mk(sc[..n].to_vec()), sc[n])
}

/// `O(n)` = b[0..n] u a[0..n]  →  unchecked opinion (struct literal).
fn mk_o<T: Mk<V>>(sc: &[V]) -> Opinion<T, V> {
    let n = (sc.len() - 1) / 2;
    OpinionBase {
        simplex: mk_s(&sc[..n + 1]),
        base_rate: T::mk(sc[n + 1..].to_vec()),
    }
}

/// `C(k,m)` → table of `k` unchecked simplexes over a domain of size `m`.
fn mk_c<C: Mk<Simplex<U, V>>, U: Mk<V>>(sc: &[V], m: usize) -> C {
    C::mk(sc.chunks(m + 1).map(mk_s::<U>).collect())
}

fn mk_v<T: Mk<V>>(sc: &[V]) -> T {
    T::mk(sc.to_vec())
}

fn fuse_op(k: i64) -> Option<FuseOp> {
    Some(match k {
        0 => FuseOp::ACm,
        1 => FuseOp::ECm,
        2 => FuseOp::Avg,
        3 => FuseOp::Wgh,
        _ => return None,
    })
}

fn us(ints: &[i64], lo: i64, hi: i64) -> Option<Vec<usize>> {
    ints.iter()
        .map(|&i| if (lo..=hi).contains(&i) { Some(i as usize) } else { None })
        .collect()
}

macro_rules! need {
    ($c:expr) => {
        if !($c) {
            return Out::Unsup;
        }
    };
}

// ---------------------------------------------------------------------------------------------
// entry point

pub fn run(op: &str, var: &[&str], ints: &[i64], sc: &[V]) -> Out {
    let f = var.first().and_then(|s| {
        let mut c = s.chars();
        match (c.next(), c.next()) {
            (Some(ch), None) => Some(ch),
            _ => None,
        }
    });
    let f = f.unwrap_or('?');
    let st = var.get(1).copied().unwrap_or("o");
    // `acc` (position >= 3, `umax` / `fuse` / `deduce*` / `inverse` / `abduce*` / `merge`): also report whether the crate's checked constructors accept the operands and the result
    let acc = var.iter().skip(2).any(|t| *t == "acc");
    let t3 = var.iter().skip(2).copied().find(|t| *t != "acc").unwrap_or("");
    let alias = var.iter().skip(2).any(|t| *t == "alias");
    let asg = var.iter().skip(2).any(|t| *t == "asg");
    if alias && asg {
        // a `&mut` and a `&` cannot alias
        return Out::Unsup;
    }
    if var.first().map_or(false, |s| s.len() == 2) {
        // multi-dimensional container families M2/M3, D2/D3, N2/N3 (ops_nd.rs)
        return op_nd(op, var, st, t3, alias, acc, ints, sc);
    }
    let shared = var.iter().skip(2).any(|t| *t == "shared");
    match op {
        "simplex_new" => op_simplex_new(f, t3, ints, sc),
        "opinion_new" => op_opinion_new(f, t3, ints, sc),
        "proj" | "maxu" | "umax" => op_unary(op, f, st, t3, acc, ints, sc),
        "discount" => op_discount(f, st, t3, ints, sc),
        "discount_chain" => op_discount_chain(f, st, t3, ints, sc),
        "fuse" => op_fuse(f, st, t3, alias, acc, ints, sc),
        "fuse_os" => op_fuse_os(f, st, t3, ints, sc),
        "fuse_ss" => op_fuse_ss(f, t3, alias, ints, sc),
        "meq" if ints.len() == 2 => op_meq2(f, ints, sc),
        "meq" => op_meq(f, ints, sc),
        "fuse_fold" => op_fuse_fold(f, var, ints, sc),
        "mbr" | "deduce" | "deduce_with" | "inverse" => op_cond(op, f, st, shared, acc, ints, sc),
        "abduce" | "abduce_with" => op_abduce(op, f, st, t3, acc, ints, sc),
        "deduce2" => op_deduce2(f, st, shared, acc, ints, sc),
        "prod2" => op_prod2(f, st, ints, sc),
        "prod3" => op_prod3(f, st, ints, sc),
        "merge" => op_merge(f, st, acc, ints, sc),
        _ => op_bi(op, var, ints, sc),
    }
}

// ---------------------------------------------------------------------------------------------
// checked constructors

fn new_result<T: Dump>(r: Result<T, InvalidValueError>, vac_dog: impl Fn(&T) -> (bool, bool), views: impl Fn(&T, &mut String)) -> Out {
    match r {
        Ok(t) => {
            let mut w = String::new();
            t.dump(&mut w);
            let (v, d) = vac_dog(&t);
            v.dump(&mut w);
            d.dump(&mut w);
            views(&t, &mut w);
            Out::Ok(w)
        }
        Err(e) => Out::Err(e.0),
    }
}

/// The two predicates of ONE accepted opinion through every borrowed view the API offers, then the
/// views' round trips back to an owned opinion.  Tokens: `vac dog` for `w.as_ref()`,
/// `OpinionRef::from(&w)`, `OpinionRef::from((&w.simplex, &w.base_rate))`; then `vac dog same` for
/// `w.as_ref().cloned()` and `OpinionRef::from((&simplex, &base_rate)).into_opinion()`, where `same` =
/// the round trip stores the same numbers bit for bit (`key` = the stored numbers as text).
fn view_flags<T: Clone>(w: &Opinion<T, V>, key: impl Fn(&Opinion<T, V>) -> String, out: &mut String) {
    let k0 = key(w);
    let r1: OpinionRef<T, V> = w.as_ref();
    let r2: OpinionRef<T, V> = OpinionRef::from(w);
    let r3: OpinionRef<T, V> = OpinionRef::from((&w.simplex, &w.base_rate));
    for r in [&r1, &r2, &r3] {
        r.is_vacuous().dump(out);
        r.is_dogmatic().dump(out);
    }
    let c1: Opinion<T, V> = r1.cloned();
    let c2: Opinion<T, V> = r3.into_opinion();
    for c in [&c1, &c2] {
        c.is_vacuous().dump(out);
        c.is_dogmatic().dump(out);
        (key(c) == k0).dump(out);
    }
}

/// A bare simplex has one view: `OpinionRef::from((&s, &a))` over a uniform base rate `a`.  Tokens:
/// `vac dog` of the view, then `vac dog same` of `view.cloned()`.
fn view_flags_s<T: Clone>(s: &Simplex<T, V>, a: T, key: impl Fn(&Opinion<T, V>) -> String, out: &mut String) {
    let k0 = key(&OpinionBase { simplex: s.clone(), base_rate: a.clone() });
    let r: OpinionRef<T, V> = OpinionRef::from((s, &a));
    r.is_vacuous().dump(out);
    r.is_dogmatic().dump(out);
    let c: Opinion<T, V> = r.cloned();
    c.is_vacuous().dump(out);
    c.is_dogmatic().dump(out);
    (key(&c) == k0).dump(out);
}

fn dump_key<D: Dump>(d: &D) -> String {
    let mut w = String::new();
    d.dump(&mut w);
    w
}

fn op_simplex_new(f: char, t3: &str, ints: &[i64], sc: &[V]) -> Out {
    let Some(&[n]) = us(ints, 1, 4).as_deref() else { return Out::Unsup };
    need!(sc.len() == n + 1);
    macro_rules! tf {
        (A, $n:tt) => { Simplex1d::<V, $n>::try_from((mk_v::<[V; $n]>(&sc[..$n]), sc[$n])) };
        (M, $n:tt) => { return Out::Unsup };
        ($F:ident, $n:tt) => { SimplexD1::<dom!($F, X, $n), V>::try_from((sc[..$n].to_vec(), sc[$n])) };
    }
    macro_rules! body {
        ($F:ident $n:tt) => {{
            type T = c1!($F, X, $n, V);
            let r: Result<Simplex<T, V>, InvalidValueError> = match t3 {
                "try" => Simplex::try_new(mk_v::<T>(&sc[..$n]), sc[$n]),
                "new" => Ok(Simplex::new(mk_v::<T>(&sc[..$n]), sc[$n])),
                "tf" => tf!($F, $n),
                _ => return Out::Unsup,
            };
            new_result(r, |s| (s.is_vacuous(), s.is_dogmatic()), |s, out| {
                let a: T = mk_v(&vec![(1.0 as V) / ($n as V); $n]);
                view_flags_s(s, a, dump_key, out)
            })
        }};
    }
    chain!(@ [fam f; n14 n;] body [])
}

fn op_opinion_new(f: char, t3: &str, ints: &[i64], sc: &[V]) -> Out {
    let Some(&[n]) = us(ints, 1, 4).as_deref() else { return Out::Unsup };
    need!(sc.len() == 2 * n + 1);
    macro_rules! tf {
        // arrays have no TryFrom for opinions: TryFrom tuple for the simplex, then into_opinion
        (A, $n:tt) => {
            Simplex1d::<V, $n>::try_from((mk_v::<[V; $n]>(&sc[..$n]), sc[$n]))
                .and_then(|s| s.into_opinion(mk_v::<[V; $n]>(&sc[$n + 1..])))
        };
        (M, $n:tt) => { return Out::Unsup };
        ($F:ident, $n:tt) => {
            OpinionD1::<dom!($F, X, $n), V>::try_from((sc[..$n].to_vec(), sc[$n], sc[$n + 1..].to_vec()))
        };
    }
    macro_rules! up {
        (A, $n:tt) => {
            Simplex1d::<V, $n>::try_new(mk_v::<[V; $n]>(&sc[..$n]), sc[$n])
                .and_then(|s| s.into_opinion(mk_v::<[V; $n]>(&sc[$n + 1..])))
        };
        ($F:ident, $n:tt) => { return Out::Unsup };
    }
    macro_rules! body {
        ($F:ident $n:tt) => {{
            type T = c1!($F, X, $n, V);
            let r: Result<Opinion<T, V>, InvalidValueError> = match t3 {
                "try" => Opinion::try_new(mk_v::<T>(&sc[..$n]), sc[$n], mk_v::<T>(&sc[$n + 1..])),
                "new" => Ok(Opinion::new(mk_v::<T>(&sc[..$n]), sc[$n], mk_v::<T>(&sc[$n + 1..]))),
                "tf" => tf!($F, $n),
                "up" => up!($F, $n),
                _ => return Out::Unsup,
            };
            new_result(r, |w| (w.is_vacuous(), w.is_dogmatic()), |w, out| view_flags(w, dump_key, out))
        }};
    }
    chain!(@ [fam f; n14 n;] body [])
}

// ---------------------------------------------------------------------------------------------
// variant token `acc`: acceptance by the crate's own checked constructors (the values are cloned, nothing is changed)

/// does `Simplex::try_new` accept the values of this simplex?
macro_rules! acc_s {
    ($T:ty, $s:expr) => {{
        let r: Result<Simplex<$T, V>, InvalidValueError> = Simplex::try_new($s.belief.clone(), $s.uncertainty);
        r.is_ok()
    }};
}

/// does `Opinion::try_new` accept the values of this simplex with this base rate?
macro_rules! acc_o {
    ($T:ty, $s:expr, $a:expr) => {{
        let r: Result<Opinion<$T, V>, InvalidValueError> =
            Opinion::try_new($s.belief.clone(), $s.uncertainty, $a.clone());
        r.is_ok()
    }};
}

/// fused opinion; with `acc` followed by three flags: both operands accepted by `Opinion::try_new`, the result's
/// simplex accepted by `Simplex::try_new`, the whole result accepted by `Opinion::try_new`
macro_rules! fuse_out {
    ($T:ty, $acc:expr, $opnd:expr, $w:expr) => {{
        let w = $w;
        if $acc {
            let mut o = String::new();
            w.dump(&mut o);
            $opnd.dump(&mut o);
            acc_s!($T, w.simplex).dump(&mut o);
            acc_o!($T, w.simplex, w.base_rate).dump(&mut o);
            Out::Ok(o)
        } else {
            ok(w)
        }
    }};
}

// ---------------------------------------------------------------------------------------------
// proj / maxu / umax

fn op_unary(op: &str, f: char, st: &str, t3: &str, acc: bool, ints: &[i64], sc: &[V]) -> Out {
    let Some(&[n]) = us(ints, 1, 4).as_deref() else { return Out::Unsup };
    need!(sc.len() == 2 * n + 1);
    macro_rules! body {
        ($F:ident $n:tt) => {{
            type T = c1!($F, X, $n, V);
            let w: Opinion<T, V> = mk_o(sc);
            match op {
                "proj" => {
                    let p: T = match (t3, st) {
                        ("s", _) => w.simplex.projection(&w.base_rate),
                        ("", "o") => Projection::projection(&w),
                        ("", "r") => {
                            let r: OpinionRef<T, V> = w.as_ref();
                            Projection::projection(&r)
                        }
                        _ => return Out::Unsup,
                    };
                    ok(&p)
                }
                "maxu" => {
                    let u: V = w.simplex.max_uncertainty(&w.base_rate);
                    ok(&u)
                }
                _ => {
                    let s: Simplex<T, V> = w.simplex.uncertainty_maximized(&w.base_rate);
                    if acc {
                        // two more flags: operand accepted by `Opinion::try_new`, result accepted by `Simplex::try_new`
                        let mut o = String::new();
                        s.dump(&mut o);
                        acc_o!(T, w.simplex, w.base_rate).dump(&mut o);
                        acc_s!(T, s).dump(&mut o);
                        Out::Ok(o)
                    } else {
                        ok(&s)
                    }
                }
            }
        }};
    }
    chain!(@ [fam f; n14 n;] body [])
}

// ---------------------------------------------------------------------------------------------
// discount (not implemented for plain arrays: needs FromIterator)

fn op_discount(f: char, st: &str, t3: &str, ints: &[i64], sc: &[V]) -> Out {
    let Some(&[n]) = us(ints, 1, 4).as_deref() else { return Out::Unsup };
    need!(sc.len() == 2 * n + 2);
    macro_rules! body {
        (A $n:tt) => { Out::Unsup };
        ($F:ident $n:tt) => {{
            type T = c1!($F, X, $n, V);
            let w: Opinion<T, V> = mk_o(&sc[..2 * $n + 1]);
            let t = sc[2 * $n + 1];
            match (t3, st) {
                ("s", _) => {
                    let s: Simplex<T, V> = w.simplex.discount(t);
                    ok(&s)
                }
                ("", "o") => {
                    let r: Opinion<T, V> = Discount::discount(&w, t);
                    ok(&r)
                }
                ("", "r") => {
                    let wr: OpinionRef<T, V> = w.as_ref();
                    let r: Opinion<T, V> = Discount::discount(&wr, t);
                    ok(&r)
                }
                _ => Out::Unsup,
            }
        }};
    }
    chain!(@ [fam f; n14 n;] body [])
}

// discount_chain: ints n,k; scalars O(n) t1..tk; repeated discounting
fn op_discount_chain(f: char, st: &str, t3: &str, ints: &[i64], sc: &[V]) -> Out {
    need!(ints.len() == 2);
    let Some(&[n]) = us(&ints[..1], 1, 4).as_deref() else { return Out::Unsup };
    let Some(&[k]) = us(&ints[1..], 1, 4).as_deref() else { return Out::Unsup };
    need!(sc.len() == 2 * n + 1 + k);
    macro_rules! body {
        (A $n:tt) => { Out::Unsup };
        ($F:ident $n:tt) => {{
            type T = c1!($F, X, $n, V);
            let mut w: Opinion<T, V> = mk_o(&sc[..2 * $n + 1]);
            let ts = &sc[2 * $n + 1..];
            match (t3, st) {
                ("s", _) => {
                    let mut s: Simplex<T, V> = w.simplex;
                    for &t in ts {
                        s = Discount::discount(&s, t);
                    }
                    ok(&s)
                }
                ("", "o") => {
                    for &t in ts {
                        w = Discount::discount(&w, t);
                    }
                    ok(&w)
                }
                ("", "r") => {
                    for &t in ts {
                        let wr: OpinionRef<T, V> = w.as_ref();
                        let next: Opinion<T, V> = Discount::discount(&wr, t);
                        w = next;
                    }
                    ok(&w)
                }
                _ => Out::Unsup,
            }
        }};
    }
    chain!(@ [fam f; n14 n;] body [])
}

// ---------------------------------------------------------------------------------------------
// fusion

fn op_fuse(f: char, st: &str, t3: &str, alias: bool, acc: bool, ints: &[i64], sc: &[V]) -> Out {
    need!(ints.len() == 3);
    let Some(&[n]) = us(&ints[..1], 1, 4).as_deref() else { return Out::Unsup };
    let Some(fo) = fuse_op(ints[1]) else { return Out::Unsup };
    let same = match ints[2] {
        0 => false,
        1 => true,
        _ => return Out::Unsup,
    };
    need!(sc.len() == 4 * n + 2);
    macro_rules! body {
        ($F:ident $n:tt) => {{
            type T = c1!($F, X, $n, V);
            let mut l: Opinion<T, V> = mk_o(&sc[..2 * $n + 1]);
            let r: Opinion<T, V> = mk_o(&sc[2 * $n + 1..]);
            // `acc`: are the operands AS PASSED accepted by `Opinion::try_new` (shared: the right simplex over the left base rate)
            let opnd = acc && acc_o!(T, l.simplex, l.base_rate)
                && (alias
                    || if same { acc_o!(T, r.simplex, l.base_rate) } else { acc_o!(T, r.simplex, r.base_rate) });
            if alias {
                // the SAME object twice; the second operand's scalars are ignored
                return match st {
                    "o" => {
                        let w: Opinion<T, V> = fo.fuse(&l, &l);
                        fuse_out!(T, acc, opnd, &w)
                    }
                    "r" => {
                        let lr = OpinionRef::from((&l.simplex, &l.base_rate));
                        let w: Opinion<T, V> = fo.fuse(lr.clone(), lr);
                        fuse_out!(T, acc, opnd, &w)
                    }
                    _ => Out::Unsup,
                };
            }
            match (t3, st, same) {
                ("", "o", false) => {
                    let w: Opinion<T, V> = fo.fuse(&l, &r);
                    fuse_out!(T, acc, opnd, &w)
                }
                ("", "r", false) => {
                    let w: Opinion<T, V> = fo.fuse(l.as_ref(), r.as_ref());
                    fuse_out!(T, acc, opnd, &w)
                }
                ("", "r", true) => {
                    // ONE base-rate object (the left one's values) borrowed by both operands
                    let a: T = l.base_rate.clone();
                    let w: Opinion<T, V> =
                        fo.fuse(OpinionRef::from((&l.simplex, &a)), OpinionRef::from((&r.simplex, &a)));
                    fuse_out!(T, acc, opnd, &w)
                }
                ("asg", "o", false) => {
                    fo.fuse_assign(&mut l, &r);
                    fuse_out!(T, acc, opnd, &l)
                }
                ("asg", "r", false) => {
                    fo.fuse_assign(&mut l, r.as_ref());
                    fuse_out!(T, acc, opnd, &l)
                }
                // owned opinions cannot share a base-rate object; fuse_assign borrows lhs mutably
                _ => Out::Unsup,
            }
        }};
    }
    chain!(@ [fam f; n14 n;] body [])
}

fn op_fuse_os(f: char, st: &str, t3: &str, ints: &[i64], sc: &[V]) -> Out {
    need!(ints.len() == 2);
    let Some(&[n]) = us(&ints[..1], 1, 4).as_deref() else { return Out::Unsup };
    let Some(fo) = fuse_op(ints[1]) else { return Out::Unsup };
    need!(sc.len() == 3 * n + 2);
    macro_rules! body {
        ($F:ident $n:tt) => {{
            type T = c1!($F, X, $n, V);
            let mut l: Opinion<T, V> = mk_o(&sc[..2 * $n + 1]);
            let r: Simplex<T, V> = mk_s(&sc[2 * $n + 1..]);
            match (t3, st) {
                ("", "o") => {
                    let w: Opinion<T, V> = fo.fuse(&l, &r);
                    ok(&w)
                }
                ("", "r") => {
                    let w: Opinion<T, V> = fo.fuse(l.as_ref(), &r);
                    ok(&w)
                }
                ("asg", _) => {
                    fo.fuse_assign(&mut l, &r);
                    ok(&l)
                }
                _ => Out::Unsup,
            }
        }};
    }
    chain!(@ [fam f; n14 n;] body [])
}

fn op_fuse_ss(f: char, t3: &str, alias: bool, ints: &[i64], sc: &[V]) -> Out {
    need!(ints.len() == 2);
    let Some(&[n]) = us(&ints[..1], 1, 4).as_deref() else { return Out::Unsup };
    let Some(fo) = fuse_op(ints[1]) else { return Out::Unsup };
    need!(sc.len() == 2 * n + 2);
    macro_rules! body {
        ($F:ident $n:tt) => {{
            type T = c1!($F, X, $n, V);
            let mut l: Simplex<T, V> = mk_s(&sc[..$n + 1]);
            let r: Simplex<T, V> = mk_s(&sc[$n + 1..]);
            if alias {
                let w: Simplex<T, V> = fo.fuse(&l, &l);
                return ok(&w);
            }
            match t3 {
                "" => {
                    let w: Simplex<T, V> = fo.fuse(&l, &r);
                    ok(&w)
                }
                "asg" => {
                    fo.fuse_assign(&mut l, &r);
                    ok(&l)
                }
                _ => Out::Unsup,
            }
        }};
    }
    chain!(@ [fam f; n14 n;] body [])
}

fn op_meq(f: char, ints: &[i64], sc: &[V]) -> Out {
    let Some(&[n]) = us(ints, 1, 4).as_deref() else { return Out::Unsup };
    need!(sc.len() == 4 * n + 2);
    macro_rules! body {
        ($F:ident $n:tt) => {{
            type T = c1!($F, X, $n, V);
            let l: Opinion<T, V> = mk_o(&sc[..2 * $n + 1]);
            let r: Opinion<T, V> = mk_o(&sc[2 * $n + 1..]);
            ok(&[l.simplex == r.simplex, l == r])
        }};
    }
    chain!(@ [fam f; n14 n;] body [])
}

// meq over 2-D containers (M: MArr2, D/N: MArrD2 with roles X,Z); n0,n1 in 1..=3
fn op_meq2(f: char, ints: &[i64], sc: &[V]) -> Out {
    let Some(&[n0, n1]) = us(ints, 1, 3).as_deref() else { return Out::Unsup };
    need!(sc.len() == 4 * n0 * n1 + 2);
    macro_rules! body {
        (A $n0:tt $n1:tt) => { Out::Unsup };
        ($F:ident $n0:tt $n1:tt) => {{
            type T = c2!($F, X, $n0, Z, $n1, V);
            const K: usize = $n0 * $n1;
            let l: Opinion<T, V> = mk_o(&sc[..2 * K + 1]);
            let r: Opinion<T, V> = mk_o(&sc[2 * K + 1..]);
            ok(&[l.simplex == r.simplex, l == r])
        }};
    }
    chain!(@ [fam f; n13 n0; n13 n1;] body [])
}

// fuse_fold: ints n,op,k,style,p0..p(k-1); scalars k × O(n).  Fold in the order given by p.
fn op_fuse_fold(f: char, var: &[&str], ints: &[i64], sc: &[V]) -> Out {
    need!(ints.len() >= 4);
    let Some(&[n]) = us(&ints[..1], 1, 4).as_deref() else { return Out::Unsup };
    let Some(fo) = fuse_op(ints[1]) else { return Out::Unsup };
    let Some(&[k]) = us(&ints[2..3], 1, 6).as_deref() else { return Out::Unsup };
    let style = ints[3];
    need!((0..=3).contains(&style));
    need!(ints.len() == 4 + k);
    let Some(p) = us(&ints[4..], 0, k as i64 - 1) else { return Out::Unsup };
    let mut seen = [false; 6];
    for &i in &p {
        need!(!seen[i]);
        seen[i] = true;
    }
    need!(sc.len() == k * (2 * n + 1));
    let shared = var.iter().skip(2).any(|t| *t == "shared");
    let alias = var.iter().skip(2).any(|t| *t == "alias");
    macro_rules! body {
        ($F:ident $n:tt) => {{
            type T = c1!($F, X, $n, V);
            let w: Vec<Opinion<T, V>> = sc.chunks(2 * $n + 1).map(mk_o::<T>).collect();
            if alias {
                // w[p0] repeated k times, always THE SAME object; first step fuses it with itself
                let w0: &Opinion<T, V> = &w[p[0]];
                if k == 1 {
                    return ok(w0);
                }
                let mut acc: Opinion<T, V> = if style == 2 {
                    fo.fuse(w0.as_ref(), w0.as_ref())
                } else {
                    fo.fuse(w0, w0)
                };
                for _ in 2..k {
                    match style {
                        0 => acc = fo.fuse(&acc, w0),
                        1 => fo.fuse_assign(&mut acc, w0),
                        2 => fo.fuse_assign(&mut acc, w0.as_ref()),
                        _ => acc = fo.fuse(w0, &acc),
                    }
                }
                return ok(&acc);
            }
            let acc: Opinion<T, V> = match (style, shared) {
                (0, true) => {
                    // ONE base-rate object (w[0]'s values) borrowed by every operand; the
                    // accumulator owns a clone after the first step.
                    let a: T = w[0].base_rate.clone();
                    let mut acc: Opinion<T, V> = OpinionBase {
                        simplex: w[p[0]].simplex.clone(),
                        base_rate: a.clone(),
                    };
                    for (j, &pj) in p[1..].iter().enumerate() {
                        let wr = OpinionRef::from((&w[pj].simplex, &a));
                        acc = if j == 0 {
                            fo.fuse(OpinionRef::from((&w[p[0]].simplex, &a)), wr)
                        } else {
                            fo.fuse(acc.as_ref(), wr)
                        };
                    }
                    acc
                }
                (0, false) => {
                    let mut acc = w[p[0]].clone();
                    for &pj in &p[1..] {
                        acc = fo.fuse(&acc, &w[pj]);
                    }
                    acc
                }
                (1, _) => {
                    let mut acc = w[p[0]].clone();
                    for &pj in &p[1..] {
                        fo.fuse_assign(&mut acc, &w[pj]);
                    }
                    acc
                }
                (2, _) => {
                    let mut acc = w[p[0]].clone();
                    for &pj in &p[1..] {
                        fo.fuse_assign(&mut acc, w[pj].as_ref());
                    }
                    acc
                }
                _ => {
                    // right-nested: fuse(w[p0], fuse(w[p1], ... w[p(k-1)]))
                    let mut acc = w[p[k - 1]].clone();
                    for &pj in p[..k - 1].iter().rev() {
                        acc = fo.fuse(&w[pj], &acc);
                    }
                    acc
                }
            };
            ok(&acc)
        }};
    }
    chain!(@ [fam f; n14 n;] body [])
}

include!("ops_cond.rs");
include!("ops_nd.rs");
include!("ops_bi.rs");
