// Conditional reasoning, products and merging (included from ops.rs).

/// Formats `O(m) flag`.
fn with_flag<D: Dump>(d: &D, flag: bool) -> Out {
    let mut w = String::new();
    d.dump(&mut w);
    flag.dump(&mut w);
    Out::Ok(w)
}

/// Formats `O(m) [flag] acc`: the value, the fallback flag if any, then (variant token `acc`) whether the crate's own
/// checked constructor accepts the returned value.
fn with_acc<D: Dump>(d: &D, flag: Option<bool>, accepted: Option<bool>) -> Out {
    let mut w = String::new();
    d.dump(&mut w);
    if let Some(fl) = flag {
        fl.dump(&mut w);
    }
    if let Some(a) = accepted {
        a.dump(&mut w);
    }
    Out::Ok(w)
}

/// `canon[i]` = first position whose conditional has the same numbers (bit for bit) as entry `i`.
fn canon_of(sc: &[V], w: usize) -> Vec<usize> {
    let rows: Vec<String> = sc
        .chunks(w)
        .map(|c| {
            let mut k = String::new();
            c.iter().for_each(|v| v.put(&mut k));
            k
        })
        .collect();
    (0..rows.len()).map(|i| (0..=i).find(|&j| rows[j] == rows[i]).unwrap()).collect()
}

/// Result of a deduction through a by-reference table with shared entries (`r1`) next to the
/// ordinary by-value table (`r0`): `r1`'s tokens, the fallback flag if any, then `T|F`: same bits.
fn shared_out<D: Dump>(r1: Option<D>, r0: Option<D>, flag: Option<bool>) -> Out {
    match (r1, r0) {
        (None, None) => Out::NoneV,
        (None, Some(_)) => Out::Ok(" F".into()),
        (Some(d1), r0) => {
            let mut w = dump_key(&d1);
            if let Some(fl) = flag {
                fl.dump(&mut w);
            }
            r0.map_or(false, |d0| dump_key(&d0) == dump_key(&d1)).dump(&mut w);
            Out::Ok(w)
        }
    }
}

// mbr / deduce / deduce_with / inverse over a 1-D antecedent domain X (n) and consequent Y (m)
// variant token `acc` (not together with `shared`): one more flag at the end of an `ok` answer -- `deduce` / `deduce_with`:
// `Opinion::try_new` accepts (clones of) the returned values; `inverse`: `Simplex::try_new` accepts EVERY inverted conditional
fn op_cond(op: &str, f: char, st: &str, shared: bool, acc: bool, ints: &[i64], sc: &[V]) -> Out {
    need!(ints.len() == 2);
    let Some(&[n]) = us(&ints[..1], 2, 4).as_deref() else { return Out::Unsup };
    let Some(&[m]) = us(&ints[1..], 2, 3).as_deref() else { return Out::Unsup };
    let c = n * (m + 1);
    let expected = match op {
        "mbr" => n + c,
        "deduce" => 2 * n + 1 + c,
        "deduce_with" => 2 * n + 1 + c + m,
        _ => c + n + m,
    };
    need!(sc.len() == expected);
    need!(st == "o" || st == "r");
    need!(!shared || op == "deduce" || op == "deduce_with");
    need!(!(shared && acc));
    need!(!acc || op != "mbr");
    macro_rules! body {
        ($F:ident $n:tt $m:tt) => {{
            type T = c1!($F, X, $n, V);
            type U = c1!($F, Y, $m, V);
            type C = c1!($F, X, $n, Simplex<U, V>);
            const CL: usize = $n * ($m + 1);
            match op {
                "mbr" => {
                    let ax: T = mk_v(&sc[..$n]);
                    let conds: C = mk_c(&sc[$n..], $m);
                    let r: Option<U> = if st == "o" {
                        mbr(&ax, &conds)
                    } else {
                        let cr = conds.rt();
                        mbr(&ax, &cr)
                    };
                    opt(r)
                }
                "deduce" => {
                    let w: Opinion<T, V> = mk_o(&sc[..2 * $n + 1]);
                    let conds: C = mk_c(&sc[2 * $n + 1..], $m);
                    if shared {
                        // table of references in which entries with equal values are ONE object
                        let canon = canon_of(&sc[2 * $n + 1..], $m + 1);
                        let ct = conds.rt_shared(&canon);
                        let r1: Option<Opinion<U, V>> = if st == "o" {
                            Deduction::deduce(&w, &ct)
                        } else {
                            Deduction::deduce(w.as_ref(), &ct)
                        };
                        let r0: Option<Opinion<U, V>> = Deduction::deduce(&w, &conds);
                        return shared_out(r1, r0, None);
                    }
                    let r: Option<Opinion<U, V>> = if st == "o" {
                        Deduction::deduce(&w, &conds)
                    } else {
                        let cr = conds.rt();
                        Deduction::deduce(w.as_ref(), &cr)
                    };
                    match r {
                        Some(r) if acc => with_acc(&r, None, Some(acc_o!(U, r.simplex, r.base_rate))),
                        r => opt(r),
                    }
                }
                "deduce_with" => {
                    let w: Opinion<T, V> = mk_o(&sc[..2 * $n + 1]);
                    let conds: C = mk_c(&sc[2 * $n + 1..2 * $n + 1 + CL], $m);
                    let ay: U = mk_v(&sc[2 * $n + 1 + CL..]);
                    let flag = Cell::new(false);
                    let fb = || {
                        flag.set(true);
                        ay.clone()
                    };
                    if shared {
                        let canon = canon_of(&sc[2 * $n + 1..2 * $n + 1 + CL], $m + 1);
                        let ct = conds.rt_shared(&canon);
                        let r1: Opinion<U, V> = if st == "o" {
                            Deduction::deduce_with(&w, &ct, fb)
                        } else {
                            Deduction::deduce_with(w.as_ref(), &ct, fb)
                        };
                        let r0: Opinion<U, V> = Deduction::deduce_with(&w, &conds, || ay.clone());
                        return shared_out(Some(r1), Some(r0), Some(flag.get()));
                    }
                    let r: Opinion<U, V> = if st == "o" {
                        Deduction::deduce_with(&w, &conds, fb)
                    } else {
                        let cr = conds.rt();
                        Deduction::deduce_with(w.as_ref(), &cr, fb)
                    };
                    with_acc(&r, Some(flag.get()), if acc { Some(acc_o!(U, r.simplex, r.base_rate)) } else { None })
                }
                _ => {
                    let conds: C = mk_c(&sc[..CL], $m);
                    let ax: T = mk_v(&sc[CL..CL + $n]);
                    let ay: U = mk_v(&sc[CL + $n..]);
                    if st == "o" {
                        let inv = InverseCondition::inverse(&conds, &ax, &ay);
                        let a = if acc { Some((&inv).into_iter().all(|s| acc_s!(T, s))) } else { None };
                        with_acc(&inv, None, a)
                    } else {
                        let cr = conds.rt();
                        let inv = InverseCondition::inverse(&cr, &ax, &ay);
                        let a = if acc { Some((&inv).into_iter().all(|s| acc_s!(T, s))) } else { None };
                        with_acc(&inv, None, a)
                    }
                }
            }
        }};
    }
    chain!(@ [fam f; n24 n; n23 m;] body [])
}

// abduce / abduce_with: opinion on Y (m), conditionals X→Y, base rate on X (n); result on X
// variant token `acc`: one more flag at the end of an `ok` answer -- `Opinion::try_new` accepts (clones of) the returned values
fn op_abduce(op: &str, f: char, st: &str, t3: &str, acc: bool, ints: &[i64], sc: &[V]) -> Out {
    need!(ints.len() == 2);
    let Some(&[n]) = us(&ints[..1], 2, 4).as_deref() else { return Out::Unsup };
    let Some(&[m]) = us(&ints[1..], 2, 3).as_deref() else { return Out::Unsup };
    let with = op == "abduce_with";
    let c = n * (m + 1);
    need!(sc.len() == 2 * m + 1 + c + n + if with { m } else { 0 });
    let mode = match (t3, st) {
        ("s", _) => 's',
        ("", "o") => 'o',
        ("", "r") => 'r',
        _ => return Out::Unsup,
    };
    macro_rules! body {
        ($F:ident $n:tt $m:tt) => {{
            type T = c1!($F, X, $n, V);
            type U = c1!($F, Y, $m, V);
            type C = c1!($F, X, $n, Simplex<U, V>);
            const CL: usize = $n * ($m + 1);
            const O: usize = 2 * $m + 1;
            let wy: Opinion<U, V> = mk_o(&sc[..O]);
            let conds: C = mk_c(&sc[O..O + CL], $m);
            let ax: T = mk_v(&sc[O + CL..O + CL + $n]);
            if with {
                let ay: U = mk_v(&sc[O + CL + $n..]);
                let r: Opinion<T, V> = match mode {
                    's' => Abduction::abduce_with(&wy.simplex, &conds, ax, &ay),
                    'o' => Abduction::abduce_with(&wy, &conds, ax, &ay),
                    _ => Abduction::abduce_with(wy.as_ref(), &conds, ax, &ay),
                };
                with_acc(&r, None, if acc { Some(acc_o!(T, r.simplex, r.base_rate)) } else { None })
            } else {
                let r: Option<Opinion<T, V>> = match mode {
                    's' => Abduction::abduce(&wy.simplex, &conds, ax),
                    'o' => Abduction::abduce(&wy, &conds, ax),
                    _ => Abduction::abduce(wy.as_ref(), &conds, ax),
                };
                match r {
                    Some(r) if acc => with_acc(&r, None, Some(acc_o!(T, r.simplex, r.base_rate))),
                    r => opt(r),
                }
            }
        }};
    }
    chain!(@ [fam f; n24 n; n23 m;] body [])
}

// deduce_with over a 2-D antecedent (M: MArr2, D/N: MArrD2 with roles X,Z), consequent Y (m)
fn op_deduce2(f: char, st: &str, shared: bool, acc: bool, ints: &[i64], sc: &[V]) -> Out {
    let Some(&[n0, n1, m]) = us(ints, 2, 3).as_deref() else { return Out::Unsup };
    need!(!(shared && acc));
    let k = n0 * n1;
    need!(sc.len() == 2 * k + 1 + k * (m + 1) + m);
    need!(st == "o" || st == "r");
    macro_rules! body {
        (A $n0:tt $n1:tt $m:tt) => { Out::Unsup };
        ($F:ident $n0:tt $n1:tt $m:tt) => {{
            type T = c2!($F, X, $n0, Z, $n1, V);
            type U = c1!($F, Y, $m, V);
            type C = c2!($F, X, $n0, Z, $n1, Simplex<U, V>);
            const K: usize = $n0 * $n1;
            const CL: usize = K * ($m + 1);
            let w: Opinion<T, V> = mk_o(&sc[..2 * K + 1]);
            let conds: C = mk_c(&sc[2 * K + 1..2 * K + 1 + CL], $m);
            let ay: U = mk_v(&sc[2 * K + 1 + CL..]);
            let flag = Cell::new(false);
            let fb = || {
                flag.set(true);
                ay.clone()
            };
            if shared {
                let canon = canon_of(&sc[2 * K + 1..2 * K + 1 + CL], $m + 1);
                let ct = conds.rt_shared(&canon);
                let r1: Opinion<U, V> = if st == "o" {
                    Deduction::deduce_with(&w, &ct, fb)
                } else {
                    Deduction::deduce_with(w.as_ref(), &ct, fb)
                };
                let r0: Opinion<U, V> = Deduction::deduce_with(&w, &conds, || ay.clone());
                return shared_out(Some(r1), Some(r0), Some(flag.get()));
            }
            let r: Opinion<U, V> = if st == "o" {
                Deduction::deduce_with(&w, &conds, fb)
            } else {
                let cr = conds.rt();
                Deduction::deduce_with(w.as_ref(), &cr, fb)
            };
            with_acc(&r, Some(flag.get()), if acc { Some(acc_o!(U, r.simplex, r.base_rate)) } else { None })
        }};
    }
    chain!(@ [fam f; n23 n0; n23 n1; n23 m;] body [])
}

// product of two opinions.  M: plain-array opinions → Opinion<MArr2> (validated by Opinion::new);
// D/N: OpinionD1 × OpinionD1 → OpinionD2 (base rate renormalised).
fn op_prod2(f: char, st: &str, ints: &[i64], sc: &[V]) -> Out {
    let Some(&[n0, n1]) = us(ints, 2, 3).as_deref() else { return Out::Unsup };
    need!(sc.len() == 2 * n0 + 1 + 2 * n1 + 1);
    need!(st == "o" || st == "r");
    macro_rules! body {
        (A $n0:tt $n1:tt) => { Out::Unsup };
        (M $n0:tt $n1:tt) => {{
            let w0: Opinion1d<V, $n0> = mk_o(&sc[..2 * $n0 + 1]);
            let w1: Opinion1d<V, $n1> = mk_o(&sc[2 * $n0 + 1..]);
            let r = if st == "o" {
                Opinion::<MArr2<V, $n0, $n1>, V>::product2(&w0, &w1)
            } else {
                Opinion::<MArr2<V, $n0, $n1>, V>::product2(w0.as_ref(), w1.as_ref())
            };
            ok(&r)
        }};
        ($F:ident $n0:tt $n1:tt) => {{
            let w0: Opinion<c1!($F, X, $n0, V), V> = mk_o(&sc[..2 * $n0 + 1]);
            let w1: Opinion<c1!($F, Y, $n1, V), V> = mk_o(&sc[2 * $n0 + 1..]);
            let r = if st == "o" {
                Opinion::<c2!($F, X, $n0, Y, $n1, V), V>::product2(&w0, &w1)
            } else {
                Opinion::<c2!($F, X, $n0, Y, $n1, V), V>::product2(w0.as_ref(), w1.as_ref())
            };
            ok(&r)
        }};
    }
    chain!(@ [fam f; n23 n0; n23 n1;] body [])
}

fn op_prod3(f: char, st: &str, ints: &[i64], sc: &[V]) -> Out {
    let Some(&[n0, n1, n2]) = us(ints, 2, 3).as_deref() else { return Out::Unsup };
    need!(sc.len() == 2 * (n0 + n1 + n2) + 3);
    need!(st == "o" || st == "r");
    macro_rules! body {
        (A $n0:tt $n1:tt $n2:tt) => { Out::Unsup };
        (M $n0:tt $n1:tt $n2:tt) => {{
            const A: usize = 2 * $n0 + 1;
            const B: usize = A + 2 * $n1 + 1;
            let w0: Opinion1d<V, $n0> = mk_o(&sc[..A]);
            let w1: Opinion1d<V, $n1> = mk_o(&sc[A..B]);
            let w2: Opinion1d<V, $n2> = mk_o(&sc[B..]);
            let r = if st == "o" {
                Opinion::<MArr3<V, $n0, $n1, $n2>, V>::product3(&w0, &w1, &w2)
            } else {
                Opinion::<MArr3<V, $n0, $n1, $n2>, V>::product3(w0.as_ref(), w1.as_ref(), w2.as_ref())
            };
            ok(&r)
        }};
        ($F:ident $n0:tt $n1:tt $n2:tt) => {{
            const A: usize = 2 * $n0 + 1;
            const B: usize = A + 2 * $n1 + 1;
            let w0: Opinion<c1!($F, X, $n0, V), V> = mk_o(&sc[..A]);
            let w1: Opinion<c1!($F, Y, $n1, V), V> = mk_o(&sc[A..B]);
            let w2: Opinion<c1!($F, Z, $n2, V), V> = mk_o(&sc[B..]);
            let r = if st == "o" {
                Opinion::<c3!($F, $n0, $n1, $n2, V), V>::product3(&w0, &w1, &w2)
            } else {
                Opinion::<c3!($F, $n0, $n1, $n2, V), V>::product3(w0.as_ref(), w1.as_ref(), w2.as_ref())
            };
            ok(&r)
        }};
    }
    chain!(@ [fam f; n23 n0; n23 n1; n23 n2;] body [])
}

// merge_cond2: Y|X1 (n1×m), Y|X2 (n2×m) → Y|X1X2.
// Unlabelled (A and M alike): tables/base rates are plain arrays, the joint domain is MArr2
// (the only unlabelled instantiation: `MArr2: Product2<&[V;N1], &[V;N2]>`).
// variant token `acc`: one more flag -- `Simplex::try_new` accepts EVERY cell of the merged table
fn op_merge(f: char, st: &str, acc: bool, ints: &[i64], sc: &[V]) -> Out {
    let Some(&[n1, n2, m]) = us(ints, 2, 3).as_deref() else { return Out::Unsup };
    need!(sc.len() == (n1 + n2) * (m + 1) + n1 + n2 + m);
    need!(st == "o" || st == "r");
    macro_rules! run {
        ($TX1:ty, $TX2:ty, $TY:ty, $C1:ty, $C2:ty, $J:ty, $OUT:ty, $n1:tt, $n2:tt, $m:tt) => {{
            const L1: usize = $n1 * ($m + 1);
            const L2: usize = L1 + $n2 * ($m + 1);
            let c1: $C1 = mk_c(&sc[..L1], $m);
            let c2: $C2 = mk_c(&sc[L1..L2], $m);
            let ax1: $TX1 = mk_v(&sc[L2..L2 + $n1]);
            let ax2: $TX2 = mk_v(&sc[L2 + $n1..L2 + $n1 + $n2]);
            let ay: $TY = mk_v(&sc[L2 + $n1 + $n2..]);
            let out: $OUT = if st == "o" {
                <$J>::merge_cond2(&c1, &c2, &ax1, &ax2, &ay)
            } else {
                let (r1, r2) = (c1.rt(), c2.rt());
                <$J>::merge_cond2(&r1, &r2, &ax1, &ax2, &ay)
            };
            let a = if acc { Some((&out).into_iter().all(|s| acc_s!($TY, s))) } else { None };
            with_acc(&out, None, a)
        }};
    }
    macro_rules! unl {
        ($n1:tt $n2:tt $m:tt) => {
            run!(
                [V; $n1], [V; $n2], [V; $m],
                [Simplex<[V; $m], V>; $n1], [Simplex<[V; $m], V>; $n2],
                [Simplex<MArr2<V, $n1, $n2>, V>; $m],
                MArr2<Simplex<[V; $m], V>, $n1, $n2>,
                $n1, $n2, $m
            )
        };
    }
    macro_rules! body {
        (A $n1:tt $n2:tt $m:tt) => { unl!($n1 $n2 $m) };
        (M $n1:tt $n2:tt $m:tt) => { unl!($n1 $n2 $m) };
        ($F:ident $n1:tt $n2:tt $m:tt) => {
            run!(
                c1!($F, X, $n1, V), c1!($F, Z, $n2, V), c1!($F, Y, $m, V),
                c1!($F, X, $n1, Simplex<c1!($F, Y, $m, V), V>),
                c1!($F, Z, $n2, Simplex<c1!($F, Y, $m, V), V>),
                c1!($F, Y, $m, Simplex<c2!($F, X, $n1, Z, $n2, V), V>),
                c2!($F, X, $n1, Z, $n2, Simplex<c1!($F, Y, $m, V), V>),
                $n1, $n2, $m
            )
        };
    }
    chain!(@ [fam f; n23 n1; n23 n2; n23 m;] body [])
}
