// Binomial operators (included from ops.rs).

fn bop(sc: &[V]) -> BOpinion<V> {
    BOpinion::<V>::new_unchecked(sc[0], sc[1], sc[2], sc[3])
}

fn bsx(sc: &[V]) -> BSimplex<V> {
    BSimplex(Simplex1d::new_unchecked([sc[0], sc[1]], sc[2]))
}

fn bdump(w: &BOpinion<V>, s: &mut String) {
    w.b().dump(s);
    w.d().dump(s);
    w.u().dump(s);
    w.a().dump(s);
}

fn bok(w: &BOpinion<V>) -> Out {
    let mut s = String::new();
    bdump(w, &mut s);
    Out::Ok(s)
}

fn bres(r: Result<BOpinion<V>, InvalidValueError>) -> Out {
    match r {
        Ok(w) => bok(&w),
        Err(e) => Out::Err(e.0),
    }
}

/// Negation: belief and disbelief exchanged, base rate complemented (unchecked).
fn bneg(w: &BOpinion<V>) -> BOpinion<V> {
    BOpinion::<V>::new_unchecked(*w.d(), *w.b(), *w.u(), 1.0 - *w.a())
}

/// `ok L(4) R(4)`
fn bok2(l: &BOpinion<V>, r: &BOpinion<V>) -> Out {
    let mut s = String::new();
    bdump(l, &mut s);
    bdump(r, &mut s);
    Out::Ok(s)
}

/// Variant token `p`: after the result, `BOpinion::projection()` (the METHOD's own answer) of every operand and of the
/// result.  Nothing is appended to an `err`.
fn bres_p(r: Result<BOpinion<V>, InvalidValueError>, operands: &[&BOpinion<V>], with_p: bool) -> Out {
    match r {
        Ok(w) => {
            let mut s = String::new();
            bdump(&w, &mut s);
            if with_p {
                for o in operands {
                    o.projection().dump(&mut s);
                }
                w.projection().dump(&mut s);
            }
            Out::Ok(s)
        }
        Err(e) => Out::Err(e.0),
    }
}

fn op_blaw(ints: &[i64], sc: &[V], alias: bool) -> Out {
    need!(ints.len() == 1 && sc.len() == 12);
    let (x, y, z) = (bop(&sc[..4]), bop(&sc[4..8]), bop(&sc[8..]));
    if alias {
        // `alias`: y IS x (the same object on both sides of every call that takes x and y); y's scalars are ignored
        let (l, r) = match ints[0] {
            0 => (x.mul(&x), x.mul(&x)),
            1 => (x.mul(&x).mul(&z), x.mul(&x.mul(&z))),
            2 => (x.comul(&x), x.comul(&x)),
            3 => (x.comul(&x).comul(&z), x.comul(&x.comul(&z))),
            4 => {
                let nx = bneg(&x);
                (nx.comul(&nx), bneg(&x.mul(&x)))
            }
            5 => {
                let nx = bneg(&x);
                (nx.mul(&nx), bneg(&x.comul(&x)))
            }
            _ => return Out::Unsup,
        };
        return bok2(&l, &r);
    }
    let (l, r) = match ints[0] {
        0 => (x.mul(&y), y.mul(&x)),
        1 => (x.mul(&y).mul(&z), x.mul(&y.mul(&z))),
        2 => (x.comul(&y), y.comul(&x)),
        3 => (x.comul(&y).comul(&z), x.comul(&y.comul(&z))),
        4 => (bneg(&x).comul(&bneg(&y)), bneg(&x.mul(&y))),
        5 => (bneg(&x).mul(&bneg(&y)), bneg(&x.comul(&y))),
        _ => return Out::Unsup,
    };
    bok2(&l, &r)
}

fn op_bdeduce_sym(ints: &[i64], sc: &[V]) -> Out {
    need!(ints.len() == 1 && sc.len() == 11);
    let x = bop(&sc[..4]);
    let (c0, c1, ay) = (&sc[4..7], &sc[7..10], sc[10]);
    let (l, r) = match ints[0] {
        0 => (
            x.deduce(&[bsx(c0), bsx(c1)], ay),
            bneg(&x).deduce(&[bsx(c1), bsx(c0)], ay),
        ),
        1 => {
            let sw = |c: &[V]| bsx(&[c[1], c[0], c[2]]);
            (
                bneg(&x.deduce(&[bsx(c0), bsx(c1)], ay)),
                x.deduce(&[sw(c0), sw(c1)], 1.0 - ay),
            )
        }
        _ => return Out::Unsup,
    };
    bok2(&l, &r)
}

// binomial fusion operator vs the multinomial one on the converted operands
fn op_bvs(ints: &[i64], sc: &[V], alias: bool) -> Out {
    need!(ints.len() == 1 && sc.len() == 9);
    let fo = match ints[0] {
        0 => FuseOp::ACm,
        1 => FuseOp::Avg,
        2 => FuseOp::Wgh,
        _ => return Out::Unsup,
    };
    let g = sc[8];
    // multinomial side first (it never validates), so that a recorded `rej` belongs to L
    let mx = Opinion1d::<V, 2>::from(bop(&sc[..4]));
    let my = Opinion1d::<V, 2>::from(bop(&sc[4..8]));
    // `alias`: the SAME object twice on both sides (y's scalars are ignored)
    let mr: Opinion1d<V, 2> = if alias { fo.fuse(&mx, &mx) } else { fo.fuse(&mx, &my) };
    let r = BOpinion::<V>::from(mr);
    let (x, y) = (bop(&sc[..4]), bop(&sc[4..8]));
    let yr: &BOpinion<V> = if alias { &x } else { &y };
    let l = match ints[0] {
        0 => x.cfuse(yr),
        1 => x.afuse(yr, g),
        _ => x.wfuse(yr, g),
    };
    match l {
        Ok(l) => bok2(&l, &r),
        Err(e) => {
            let mut s = String::new();
            bdump(&r, &mut s);
            Out::ErrWith(e.0, s)
        }
    }
}

/// `bfold`: ints kind,k (kind 0 cfuse / 1 afuse / 2 wfuse; 1 <= k <= 64); scalars k x B(4), then the weight gamma for
/// afuse / wfuse.  Left fold `acc = acc.op(&w[j])?` for j = 1..k-1 starting from acc = w[0]: `ok B(4)` or, when step j
/// fails, `err l step=<j>` (then `rej=`).  Variant token `vs`: the multinomial fold of the converted operands
/// (`acc = fo.fuse(&acc, &w[j])` with ACm / Avg / Wgh, never validating), converted back, follows the binomial result:
/// `ok L(4) R(4)` / `err l R(4) step=<j>`; R is computed first so that `rej` belongs to the binomial fold.
fn op_bfold(ints: &[i64], sc: &[V], vs: bool) -> Out {
    need!(ints.len() == 2);
    let kind = ints[0];
    need!((0..=2).contains(&kind));
    need!((1..=64).contains(&ints[1]));
    let k = ints[1] as usize;
    need!(sc.len() == 4 * k + if kind == 0 { 0 } else { 1 });
    let g = if kind == 0 { 0.0 } else { sc[4 * k] };
    let ws: Vec<BOpinion<V>> = sc[..4 * k].chunks(4).map(bop).collect();
    let mut rt = String::new();
    if vs {
        let fo = match kind {
            0 => FuseOp::ACm,
            1 => FuseOp::Avg,
            _ => FuseOp::Wgh,
        };
        let mut macc = Opinion1d::<V, 2>::from(bop(&sc[..4]));
        for j in 1..k {
            let mw = Opinion1d::<V, 2>::from(bop(&sc[4 * j..4 * j + 4]));
            macc = fo.fuse(&macc, &mw);
        }
        bdump(&BOpinion::<V>::from(macc), &mut rt);
    }
    let mut acc = bop(&sc[..4]);
    for j in 1..k {
        let r = match kind {
            0 => acc.cfuse(&ws[j]),
            1 => acc.afuse(&ws[j], g),
            _ => acc.wfuse(&ws[j], g),
        };
        match r {
            Ok(w) => acc = w,
            Err(e) => return Out::ErrWith(e.0, format!("{rt} step={j}")),
        }
    }
    let mut s = String::new();
    bdump(&acc, &mut s);
    s.push_str(&rt);
    Out::Ok(s)
}

/// Every conversion path between `BOpinion` and `Opinion1d<_, 2>` (src/convert.rs) and the simplex view (src/bi.rs):
/// `ok O(2) O(2) B B B B S(2) O(2) p p[2] p`, see PROTOCOL.md.
fn op_bconv_all(ints: &[i64], sc: &[V]) -> Out {
    need!(ints.is_empty() && sc.len() == 4);
    let mut s = String::new();
    // binomial -> multinomial: From::from and Into::into
    let o_from = Opinion1d::<V, 2>::from(bop(sc));
    let o_into: Opinion1d<V, 2> = bop(sc).into();
    o_from.dump(&mut s);
    o_into.dump(&mut s);
    // multinomial -> binomial: by value (from / into) and by reference (from / into)
    let b_val = BOpinion::<V>::from(o_from.clone());
    let b_val_into: BOpinion<V> = o_from.clone().into();
    let b_ref = BOpinion::<V>::from(&o_from);
    let b_ref_into: BOpinion<V> = (&o_from).into();
    bdump(&b_val, &mut s);
    bdump(&b_val_into, &mut s);
    bdump(&b_ref, &mut s);
    bdump(&b_ref_into, &mut s);
    // the simplex of a binomial opinion seen as a binary multinomial simplex
    let x = bop(sc);
    let sv: &Simplex1d<V, 2> = <&Simplex1d<V, 2>>::from(&x.simplex);
    sv.dump(&mut s);
    // second trip: the by-reference result converted again
    let o_again = Opinion1d::<V, 2>::from(BOpinion::<V>::from(&o_from));
    o_again.dump(&mut s);
    // projections: the binomial method, the multinomial trait on the converted opinion, the method on the way back
    x.projection().dump(&mut s);
    let pm: [V; 2] = Projection::projection(&o_from);
    pm.dump(&mut s);
    b_ref.projection().dump(&mut s);
    Out::Ok(s)
}

/// Comparisons with the DEFAULT tolerances (approx's macros with arguments left out): the opinion-level answer and the
/// scalar type's own answer, with its own defaults, for b, d, u, a.  ints kind,maxulps; scalars x(4) y(4) t.
fn op_bcmpd(ints: &[i64], sc: &[V]) -> Out {
    need!(ints.len() == 2 && sc.len() == 9);
    need!((0..=u32::MAX as i64).contains(&ints[1]));
    let (x, y, t) = (bop(&sc[..4]), bop(&sc[4..8]), sc[8]);
    let k = ints[0];
    let mu = ints[1] as u32;
    need!((1..=7).contains(&k));
    macro_rules! cmp {
        ($p:expr, $q:expr) => {
            match k {
                1 => approx::abs_diff_eq!($p, $q),
                2 => approx::relative_eq!($p, $q),
                3 => approx::ulps_eq!($p, $q),
                4 => approx::relative_eq!($p, $q, max_relative = t),
                5 => approx::ulps_eq!($p, $q, max_ulps = mu),
                6 => approx::relative_eq!($p, $q, epsilon = t),
                _ => approx::ulps_eq!($p, $q, epsilon = t),
            }
        };
    }
    let mut s = String::new();
    let r: bool = cmp!(x, y);
    r.dump(&mut s);
    let cb: bool = cmp!(*x.b(), *y.b());
    let cd: bool = cmp!(*x.d(), *y.d());
    let cu: bool = cmp!(*x.u(), *y.u());
    let ca: bool = cmp!(*x.a(), *y.a());
    cb.dump(&mut s);
    cd.dump(&mut s);
    cu.dump(&mut s);
    ca.dump(&mut s);
    Out::Ok(s)
}

/// `==` of a multinomial opinion with ITSELF (the same object on both sides): `ok T|F x5` =
/// `w.simplex == w.simplex`, `w == w`, `w.as_ref() == w.as_ref()`, `w.base_rate == w.base_rate`, and two
/// `OpinionRef`s that borrow the same simplex and the same base-rate object.  One int: 1-D, n in 1..=4, families
/// A M D N; two ints: 2-D, n0,n1 in 1..=3, families M D N.
fn op_meq_alias(var: &[&str], ints: &[i64], sc: &[V]) -> Out {
    let f = match var.first().map(|s| s.chars().collect::<Vec<_>>()) {
        Some(c) if c.len() == 1 => c[0],
        _ => return Out::Unsup,
    };
    macro_rules! answers {
        ($w:ident, $T:ty) => {{
            let w1: &Opinion<$T, V> = &$w;
            let w2: &Opinion<$T, V> = &$w;
            let r1: OpinionRef<$T, V> = OpinionRef::from((&$w.simplex, &$w.base_rate));
            let r2: OpinionRef<$T, V> = OpinionRef::from((&$w.simplex, &$w.base_rate));
            ok(&[
                w1.simplex == w2.simplex,
                *w1 == *w2,
                w1.as_ref() == w2.as_ref(),
                w1.base_rate == w2.base_rate,
                r1 == r2,
            ])
        }};
    }
    if ints.len() == 2 {
        let Some(&[n0, n1]) = us(ints, 1, 3).as_deref() else { return Out::Unsup };
        need!(sc.len() == 2 * n0 * n1 + 1);
        macro_rules! body2 {
            (A $n0:tt $n1:tt) => { Out::Unsup };
            ($F:ident $n0:tt $n1:tt) => {{
                type T = c2!($F, X, $n0, Z, $n1, V);
                let w: Opinion<T, V> = mk_o(sc);
                answers!(w, T)
            }};
        }
        return chain!(@ [fam f; n13 n0; n13 n1;] body2 []);
    }
    let Some(&[n]) = us(ints, 1, 4).as_deref() else { return Out::Unsup };
    need!(sc.len() == 2 * n + 1);
    macro_rules! body {
        ($F:ident $n:tt) => {{
            type T = c1!($F, X, $n, V);
            let w: Opinion<T, V> = mk_o(sc);
            answers!(w, T)
        }};
    }
    chain!(@ [fam f; n14 n;] body [])
}

fn op_bi(op: &str, var: &[&str], ints: &[i64], sc: &[V]) -> Out {
    let has = |t: &str| var.iter().any(|v| *v == t);
    match op {
        "bvs" => op_bvs(ints, sc, has("alias")),
        "bfold" => op_bfold(ints, sc, has("vs")),
        "blaw" => op_blaw(ints, sc, has("alias")),
        "bconv_all" => op_bconv_all(ints, sc),
        "bcmpd" => op_bcmpd(ints, sc),
        "meq_alias" => op_meq_alias(var, ints, sc),
        "bdeduce_sym" => op_bdeduce_sym(ints, sc),
        "bsimplex_new" => {
            need!(ints.is_empty() && sc.len() == 3);
            let r = if has("try") {
                BSimplex::<V>::try_new(sc[0], sc[1], sc[2])
            } else if has("new") {
                Ok(BSimplex::<V>::new(sc[0], sc[1], sc[2]))
            } else {
                return Out::Unsup;
            };
            match r {
                Ok(s) => ok(&[s.0.belief[0], s.0.belief[1], s.0.uncertainty]),
                Err(e) => Out::Err(e.0),
            }
        }
        "bop_new" => {
            need!(ints.is_empty() && sc.len() == 4);
            if has("try") {
                bres(BOpinion::<V>::try_new(sc[0], sc[1], sc[2], sc[3]))
            } else if has("new") {
                bok(&BOpinion::<V>::new(sc[0], sc[1], sc[2], sc[3]))
            } else {
                Out::Unsup
            }
        }
        "bproj" => {
            need!(ints.is_empty() && sc.len() == 4);
            let p: V = bop(sc).projection();
            ok(&p)
        }
        // variant tokens (position >= 2): `alias` = the SAME object is passed as both operands (the second operand's
        // scalars are ignored); `p` = the projection() METHOD's answers for x, y and the result are appended
        "bmul" | "bcomul" | "bcfuse" => {
            need!(ints.is_empty() && sc.len() == 8);
            let (x, y) = (bop(&sc[..4]), bop(&sc[4..]));
            let yr: &BOpinion<V> = if has("alias") { &x } else { &y };
            let r = match op {
                "bmul" => Ok(x.mul(yr)),
                "bcomul" => Ok(x.comul(yr)),
                _ => x.cfuse(yr),
            };
            bres_p(r, &[&x, yr], has("p"))
        }
        "bafuse" | "bwfuse" => {
            need!(ints.is_empty() && sc.len() == 9);
            let (x, y, g) = (bop(&sc[..4]), bop(&sc[4..8]), sc[8]);
            let yr: &BOpinion<V> = if has("alias") { &x } else { &y };
            let r = if op == "bafuse" { x.afuse(yr, g) } else { x.wfuse(yr, g) };
            bres_p(r, &[&x, yr], has("p"))
        }
        "bdeduce" => {
            need!(ints.is_empty() && sc.len() == 11);
            let x = bop(&sc[..4]);
            let cond = [bsx(&sc[4..7]), bsx(&sc[7..10])];
            // `p`: x.projection() and the result's projection() are appended
            bres_p(Ok(x.deduce(&cond, sc[10])), &[&x], has("p"))
        }
        "btrans_unc" | "btrans_bsr" => {
            need!(ints.is_empty() && sc.len() == 5);
            let x = bop(&sc[..4]);
            if op == "btrans_unc" {
                bok(&x.trans_unc(sc[4]))
            } else {
                bok(&x.trans_bsr(sc[4]))
            }
        }
        "btrans_opp" => {
            need!(ints.is_empty() && sc.len() == 6);
            bok(&bop(&sc[..4]).trans_opp(sc[4], sc[5]))
        }
        "bconv" => {
            need!(ints.is_empty() && sc.len() == 4);
            let o = Opinion1d::<V, 2>::from(bop(sc));
            let mut s = String::new();
            o.dump(&mut s);
            let back = BOpinion::<V>::from(o);
            bdump(&back, &mut s);
            Out::Ok(s)
        }
        "bcmp" => {
            need!(ints.len() == 2 && sc.len() == 10);
            let (x, y, eps, maxrel) = (bop(&sc[..4]), bop(&sc[4..8]), sc[8], sc[9]);
            let r = match ints[0] {
                0 => x == y,
                1 => AbsDiffEq::abs_diff_eq(&x, &y, eps),
                2 => RelativeEq::relative_eq(&x, &y, eps, maxrel),
                3 => {
                    need!((0..=u32::MAX as i64).contains(&ints[1]));
                    UlpsEq::ulps_eq(&x, &y, eps, ints[1] as u32)
                }
                _ => return Out::Unsup,
            };
            ok(&r)
        }
        // the same comparison on the whole opinion AND on each of b, d, u, a through the scalar type's own impl:
        // "component-wise" is then checked exactly (no tolerance band around the comparison's boundary)
        "bcmpc" => {
            need!(ints.len() == 2 && sc.len() == 10);
            need!((0..=u32::MAX as i64).contains(&ints[1]));
            let (x, y, eps, maxrel) = (bop(&sc[..4]), bop(&sc[4..8]), sc[8], sc[9]);
            let k = ints[0];
            let mu = ints[1] as u32;
            let c = |p: &V, q: &V| -> bool {
                match k {
                    0 => p == q,
                    1 => AbsDiffEq::abs_diff_eq(p, q, eps),
                    2 => RelativeEq::relative_eq(p, q, eps, maxrel),
                    _ => UlpsEq::ulps_eq(p, q, eps, mu),
                }
            };
            let r = match k {
                0 => x == y,
                1 => AbsDiffEq::abs_diff_eq(&x, &y, eps),
                2 => RelativeEq::relative_eq(&x, &y, eps, maxrel),
                3 => UlpsEq::ulps_eq(&x, &y, eps, mu),
                _ => return Out::Unsup,
            };
            let mut s = String::new();
            r.dump(&mut s);
            c(x.b(), y.b()).dump(&mut s);
            c(x.d(), y.d()).dump(&mut s);
            c(x.u(), y.u()).dump(&mut s);
            c(x.a(), y.a()).dump(&mut s);
            Out::Ok(s)
        }
        _ => Out::Unsup,
    }
}
