// Binomial operators (included from ops.rs).

fn bop(sc: &[V]) -> BOpinion<V> {
    BOpinion::<V>::new_unchecked(sc[0], sc[1], sc[2], sc[3])
}

fn bsx(sc: &[V]) -> BSimplex<V> {
    BSimplex(Simplex1d::new_unchecked([sc[0], sc[1]], sc[2]))
}

fn bdump(w: &BOpinion<V>, s: &mut String) {
    w.b().dump(s);
    w.d().dump(s);
    w.u().dump(s);
    w.a().dump(s);
}

fn bok(w: &BOpinion<V>) -> Out {
    let mut s = String::new();
    bdump(w, &mut s);
    Out::Ok(s)
}

fn bres(r: Result<BOpinion<V>, InvalidValueError>) -> Out {
    match r {
        Ok(w) => bok(&w),
        Err(e) => Out::Err(e.0),
    }
}

/// Negation: belief and disbelief exchanged, base rate complemented (unchecked).
fn bneg(w: &BOpinion<V>) -> BOpinion<V> {
    BOpinion::<V>::new_unchecked(*w.d(), *w.b(), *w.u(), 1.0 - *w.a())
}

/// `ok L(4) R(4)`
fn bok2(l: &BOpinion<V>, r: &BOpinion<V>) -> Out {
    let mut s = String::new();
    bdump(l, &mut s);
    bdump(r, &mut s);
    Out::Ok(s)
}

fn op_blaw(ints: &[i64], sc: &[V]) -> Out {
    need!(ints.len() == 1 && sc.len() == 12);
    let (x, y, z) = (bop(&sc[..4]), bop(&sc[4..8]), bop(&sc[8..]));
    let (l, r) = match ints[0] {
        0 => (x.mul(&y), y.mul(&x)),
        1 => (x.mul(&y).mul(&z), x.mul(&y.mul(&z))),
        2 => (x.comul(&y), y.comul(&x)),
        3 => (x.comul(&y).comul(&z), x.comul(&y.comul(&z))),
        4 => (bneg(&x).comul(&bneg(&y)), bneg(&x.mul(&y))),
        5 => (bneg(&x).mul(&bneg(&y)), bneg(&x.comul(&y))),
        _ => return Out::Unsup,
    };
    bok2(&l, &r)
}

fn op_bdeduce_sym(ints: &[i64], sc: &[V]) -> Out {
    need!(ints.len() == 1 && sc.len() == 11);
    let x = bop(&sc[..4]);
    let (c0, c1, ay) = (&sc[4..7], &sc[7..10], sc[10]);
    let (l, r) = match ints[0] {
        0 => (
            x.deduce(&[bsx(c0), bsx(c1)], ay),
            bneg(&x).deduce(&[bsx(c1), bsx(c0)], ay),
        ),
        1 => {
            let sw = |c: &[V]| bsx(&[c[1], c[0], c[2]]);
            (
                bneg(&x.deduce(&[bsx(c0), bsx(c1)], ay)),
                x.deduce(&[sw(c0), sw(c1)], 1.0 - ay),
            )
        }
        _ => return Out::Unsup,
    };
    bok2(&l, &r)
}

// binomial fusion operator vs the multinomial one on the converted operands
fn op_bvs(ints: &[i64], sc: &[V]) -> Out {
    need!(ints.len() == 1 && sc.len() == 9);
    let fo = match ints[0] {
        0 => FuseOp::ACm,
        1 => FuseOp::Avg,
        2 => FuseOp::Wgh,
        _ => return Out::Unsup,
    };
    let g = sc[8];
    // multinomial side first (it never validates), so that a recorded `rej` belongs to L
    let mx = Opinion1d::<V, 2>::from(bop(&sc[..4]));
    let my = Opinion1d::<V, 2>::from(bop(&sc[4..8]));
    let mr: Opinion1d<V, 2> = fo.fuse(&mx, &my);
    let r = BOpinion::<V>::from(mr);
    let (x, y) = (bop(&sc[..4]), bop(&sc[4..8]));
    let l = match ints[0] {
        0 => x.cfuse(&y),
        1 => x.afuse(&y, g),
        _ => x.wfuse(&y, g),
    };
    match l {
        Ok(l) => bok2(&l, &r),
        Err(e) => {
            let mut s = String::new();
            bdump(&r, &mut s);
            Out::ErrWith(e.0, s)
        }
    }
}

fn op_bi(op: &str, var: &[&str], ints: &[i64], sc: &[V]) -> Out {
    let has = |t: &str| var.iter().any(|v| *v == t);
    match op {
        "bvs" => op_bvs(ints, sc),
        "blaw" => op_blaw(ints, sc),
        "bdeduce_sym" => op_bdeduce_sym(ints, sc),
        "bsimplex_new" => {
            need!(ints.is_empty() && sc.len() == 3);
            let r = if has("try") {
                BSimplex::<V>::try_new(sc[0], sc[1], sc[2])
            } else if has("new") {
                Ok(BSimplex::<V>::new(sc[0], sc[1], sc[2]))
            } else {
                return Out::Unsup;
            };
            match r {
                Ok(s) => ok(&[s.0.belief[0], s.0.belief[1], s.0.uncertainty]),
                Err(e) => Out::Err(e.0),
            }
        }
        "bop_new" => {
            need!(ints.is_empty() && sc.len() == 4);
            if has("try") {
                bres(BOpinion::<V>::try_new(sc[0], sc[1], sc[2], sc[3]))
            } else if has("new") {
                bok(&BOpinion::<V>::new(sc[0], sc[1], sc[2], sc[3]))
            } else {
                Out::Unsup
            }
        }
        "bproj" => {
            need!(ints.is_empty() && sc.len() == 4);
            let p: V = bop(sc).projection();
            ok(&p)
        }
        "bmul" | "bcomul" | "bcfuse" => {
            need!(ints.is_empty() && sc.len() == 8);
            let (x, y) = (bop(&sc[..4]), bop(&sc[4..]));
            match op {
                "bmul" => bok(&x.mul(&y)),
                "bcomul" => bok(&x.comul(&y)),
                _ => bres(x.cfuse(&y)),
            }
        }
        "bafuse" | "bwfuse" => {
            need!(ints.is_empty() && sc.len() == 9);
            let (x, y, g) = (bop(&sc[..4]), bop(&sc[4..8]), sc[8]);
            if op == "bafuse" {
                bres(x.afuse(&y, g))
            } else {
                bres(x.wfuse(&y, g))
            }
        }
        "bdeduce" => {
            need!(ints.is_empty() && sc.len() == 11);
            let x = bop(&sc[..4]);
            let cond = [bsx(&sc[4..7]), bsx(&sc[7..10])];
            bok(&x.deduce(&cond, sc[10]))
        }
        "btrans_unc" | "btrans_bsr" => {
            need!(ints.is_empty() && sc.len() == 5);
            let x = bop(&sc[..4]);
            if op == "btrans_unc" {
                bok(&x.trans_unc(sc[4]))
            } else {
                bok(&x.trans_bsr(sc[4]))
            }
        }
        "btrans_opp" => {
            need!(ints.is_empty() && sc.len() == 6);
            bok(&bop(&sc[..4]).trans_opp(sc[4], sc[5]))
        }
        "bconv" => {
            need!(ints.is_empty() && sc.len() == 4);
            let o = Opinion1d::<V, 2>::from(bop(sc));
            let mut s = String::new();
            o.dump(&mut s);
            let back = BOpinion::<V>::from(o);
            bdump(&back, &mut s);
            Out::Ok(s)
        }
        "bcmp" => {
            need!(ints.len() == 2 && sc.len() == 10);
            let (x, y, eps, maxrel) = (bop(&sc[..4]), bop(&sc[4..8]), sc[8], sc[9]);
            let r = match ints[0] {
                0 => x == y,
                1 => AbsDiffEq::abs_diff_eq(&x, &y, eps),
                2 => RelativeEq::relative_eq(&x, &y, eps, maxrel),
                3 => {
                    need!((0..=u32::MAX as i64).contains(&ints[1]));
                    UlpsEq::ulps_eq(&x, &y, eps, ints[1] as u32)
                }
                _ => return Out::Unsup,
            };
            ok(&r)
        }
        // the same comparison on the whole opinion AND on each of b, d, u, a through the scalar type's own impl:
        // "component-wise" is then checked exactly (no tolerance band around the comparison's boundary)
        "bcmpc" => {
            need!(ints.len() == 2 && sc.len() == 10);
            need!((0..=u32::MAX as i64).contains(&ints[1]));
            let (x, y, eps, maxrel) = (bop(&sc[..4]), bop(&sc[4..8]), sc[8], sc[9]);
            let k = ints[0];
            let mu = ints[1] as u32;
            let c = |p: &V, q: &V| -> bool {
                match k {
                    0 => p == q,
                    1 => AbsDiffEq::abs_diff_eq(p, q, eps),
                    2 => RelativeEq::relative_eq(p, q, eps, maxrel),
                    _ => UlpsEq::ulps_eq(p, q, eps, mu),
                }
            };
            let r = match k {
                0 => x == y,
                1 => AbsDiffEq::abs_diff_eq(&x, &y, eps),
                2 => RelativeEq::relative_eq(&x, &y, eps, maxrel),
                3 => UlpsEq::ulps_eq(&x, &y, eps, mu),
                _ => return Out::Unsup,
            };
            let mut s = String::new();
            r.dump(&mut s);
            c(x.b(), y.b()).dump(&mut s);
            c(x.d(), y.d()).dump(&mut s);
            c(x.u(), y.u()).dump(&mut s);
            c(x.a(), y.a()).dump(&mut s);
            Out::Ok(s)
        }
        _ => Out::Unsup,
    }
}
