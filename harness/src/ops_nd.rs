// Multi-dimensional domains for the generic operators (included from ops.rs).
//
// Container families `M2`/`M3` (unlabelled `MArr2`/`MArr3`), `D2`/`D3` (labelled `MArrD2`/`MArrD3`,
// usize index domains) and `N2`/`N3` (labelled, newtype index domains).  The shape follows the
// op's ordinary ints: `fuse` n,op,same,n0,n1[,n2]; `opinion_new` / `proj` / `maxu` / `umax` /
// `discount` n,n0,n1[,n2] with n = n0*n1[*n2]; the scalar layouts are those of the 1-D op over the
// row-major flattening.  Operands are built through the `new` constructors (`Nd::build`), results
// are read cell by cell through the index operator in row-major index order (`Nd::cells`), and two
// flags are appended to every `ok` result: `it` = iterating the containers of the result visits
// exactly the cells the index operator gives, same objects, same order; `eq` = every container of
// the result is `==` to a container built independently (`new`) from the values read.

/// `S(n)` → unchecked simplex over a multi-dimensional domain.
fn nd_s<T: Nd<V>>(sc: &[V]) -> Simplex<T, V> {
    let n = sc.len() - 1;
    Simplex::new_unchecked(T::build(sc[..n].to_vec()), sc[n])
}

/// `O(n)` → unchecked opinion over a multi-dimensional domain.
fn nd_o<T: Nd<V>>(sc: &[V]) -> Opinion<T, V> {
    let n = (sc.len() - 1) / 2;
    OpinionBase {
        simplex: nd_s(&sc[..n + 1]),
        base_rate: T::build(sc[n + 1..].to_vec()),
    }
}

/// Observation of a result over a multi-dimensional domain.
struct NdObs {
    w: String,
    it: bool,
    eq: bool,
}

impl NdObs {
    fn new() -> Self {
        NdObs { w: String::new(), it: true, eq: true }
    }
    fn tab<T: Nd<V> + PartialEq>(&mut self, t: &T) {
        let cells = t.cells();
        for c in &cells {
            c.put(&mut self.w);
        }
        let it = t.iter_cells();
        self.it &= it.len() == cells.len() && it.iter().zip(&cells).all(|(a, b)| std::ptr::eq(*a, *b));
        let vals: Vec<V> = cells.iter().map(|c| **c).collect();
        if !vals.iter().any(|v| v.is_nan()) {
            self.eq &= T::build(vals) == *t;
        }
    }
    fn scalar(&mut self, v: V) {
        v.put(&mut self.w);
    }
    fn flag(&mut self, b: bool) {
        b.dump(&mut self.w);
    }
    fn simplex<T: Nd<V> + PartialEq>(&mut self, s: &Simplex<T, V>) {
        self.tab(&s.belief);
        self.scalar(s.uncertainty);
    }
    fn opinion<T: Nd<V> + PartialEq>(&mut self, w: &Opinion<T, V>) {
        self.simplex(&w.simplex);
        self.tab(&w.base_rate);
    }
    fn finish(mut self) -> Out {
        let (it, eq) = (self.it, self.eq);
        self.flag(it);
        self.flag(eq);
        Out::Ok(self.w)
    }
}

fn nd_ok_o<T: Nd<V> + PartialEq>(w: &Opinion<T, V>) -> Out {
    let mut o = NdObs::new();
    o.opinion(w);
    o.finish()
}

/// fused opinion; `acc = Some(operands accepted)`: three more flags BEFORE `it eq` (operands accepted, the result's simplex
/// accepted by `Simplex::try_new`, the whole result accepted by `Opinion::try_new`)
macro_rules! nd_fuse_out {
    ($T:ty, $acc:expr, $opnd:expr, $w:expr) => {{
        let w = $w;
        let mut o = NdObs::new();
        o.opinion(w);
        if $acc {
            o.flag($opnd);
            o.flag(acc_s!($T, w.simplex));
            o.flag(acc_o!($T, w.simplex, w.base_rate));
        }
        o.finish()
    }};
}

fn nd_ok_s<T: Nd<V> + PartialEq>(s: &Simplex<T, V>) -> Out {
    let mut o = NdObs::new();
    o.simplex(s);
    o.finish()
}

fn nd_key<T: Nd<V> + PartialEq>(w: &Opinion<T, V>) -> String {
    let mut o = NdObs::new();
    o.opinion(w);
    o.w
}

/// family letter + shape → container type; `$cb!(<type>)` is expanded for the selected type.
macro_rules! nd_dispatch {
    ($f:expr, $sh:expr, $cb:ident) => {
        match $f {
            'M' => nd_dispatch!(@sh M, $sh, $cb),
            'D' => nd_dispatch!(@sh D, $sh, $cb),
            'N' => nd_dispatch!(@sh N, $sh, $cb),
            _ => Out::Unsup,
        }
    };
    (@sh $F:ident, $sh:expr, $cb:ident) => {
        match $sh {
            [1, 2] => $cb!(c2!($F, X, 1, Z, 2, V)),
            [2, 1] => $cb!(c2!($F, X, 2, Z, 1, V)),
            [2, 2] => $cb!(c2!($F, X, 2, Z, 2, V)),
            [1, 3] => $cb!(c2!($F, X, 1, Z, 3, V)),
            [3, 1] => $cb!(c2!($F, X, 3, Z, 1, V)),
            [2, 3] => $cb!(c2!($F, X, 2, Z, 3, V)),
            [3, 2] => $cb!(c2!($F, X, 3, Z, 2, V)),
            [1, 2, 2] => $cb!(c3!($F, 1, 2, 2, V)),
            [2, 2, 1] => $cb!(c3!($F, 2, 2, 1, V)),
            [2, 1, 2] => $cb!(c3!($F, 2, 1, 2, V)),
            [2, 2, 2] => $cb!(c3!($F, 2, 2, 2, V)),
            [1, 2, 3] => $cb!(c3!($F, 1, 2, 3, V)),
            [1, 3, 2] => $cb!(c3!($F, 1, 3, 2, V)),
            [2, 1, 3] => $cb!(c3!($F, 2, 1, 3, V)),
            [3, 1, 2] => $cb!(c3!($F, 3, 1, 2, V)),
            [2, 2, 3] => $cb!(c3!($F, 2, 2, 3, V)),
            _ => Out::Unsup,
        }
    };
}

fn op_nd(op: &str, var: &[&str], st: &str, t3: &str, alias: bool, acc: bool, ints: &[i64], sc: &[V]) -> Out {
    let mut ch = var[0].chars();
    let (f, rank) = match (ch.next(), ch.next(), ch.next()) {
        (Some(f), Some('2'), None) => (f, 2usize),
        (Some(f), Some('3'), None) => (f, 3usize),
        _ => return Out::Unsup,
    };
    let lead = match op {
        "fuse" => 3,
        "opinion_new" | "proj" | "maxu" | "umax" | "discount" => 1,
        _ => return Out::Unsup,
    };
    need!(ints.len() == lead + rank);
    let Some(shape) = us(&ints[lead..], 1, 4) else { return Out::Unsup };
    let n: usize = shape.iter().product();
    need!(ints[0] == n as i64);
    let shape = shape.as_slice();
    match op {
        "fuse" => nd_fuse(f, shape, n, st, t3, alias, acc, ints, sc),
        "opinion_new" => nd_opinion_new(f, shape, n, t3, sc),
        "discount" => nd_discount(f, shape, n, st, t3, sc),
        _ => nd_unary(op, f, shape, n, st, t3, acc, sc),
    }
}

fn nd_opinion_new(f: char, shape: &[usize], n: usize, t3: &str, sc: &[V]) -> Out {
    need!(sc.len() == 2 * n + 1);
    macro_rules! body {
        ($T:ty) => {{
            type T = $T;
            let (b, u, a): (T, V, T) = (T::build(sc[..n].to_vec()), sc[n], T::build(sc[n + 1..].to_vec()));
            let r: Result<Opinion<T, V>, InvalidValueError> = match t3 {
                "try" => Opinion::try_new(b, u, a),
                "new" => Ok(Opinion::new(b, u, a)),
                _ => return Out::Unsup,
            };
            match r {
                Ok(w) => {
                    let mut o = NdObs::new();
                    o.opinion(&w);
                    o.flag(w.is_vacuous());
                    o.flag(w.is_dogmatic());
                    view_flags(&w, nd_key, &mut o.w);
                    o.finish()
                }
                Err(e) => Out::Err(e.0),
            }
        }};
    }
    nd_dispatch!(f, shape, body)
}

fn nd_unary(op: &str, f: char, shape: &[usize], n: usize, st: &str, t3: &str, acc: bool, sc: &[V]) -> Out {
    need!(sc.len() == 2 * n + 1);
    macro_rules! body {
        ($T:ty) => {{
            type T = $T;
            let w: Opinion<T, V> = nd_o(sc);
            let mut o = NdObs::new();
            match op {
                "proj" => {
                    let p: T = match (t3, st) {
                        ("s", _) => w.simplex.projection(&w.base_rate),
                        ("", "o") => Projection::projection(&w),
                        ("", "r") => {
                            let r: OpinionRef<T, V> = w.as_ref();
                            Projection::projection(&r)
                        }
                        _ => return Out::Unsup,
                    };
                    o.tab(&p);
                }
                "maxu" => {
                    let u: V = w.simplex.max_uncertainty(&w.base_rate);
                    o.scalar(u);
                    // no container in the result: the flags are those of the operand
                    let mut chk = NdObs::new();
                    chk.opinion(&w);
                    o.it = chk.it;
                    o.eq = chk.eq;
                }
                _ => {
                    let s: Simplex<T, V> = w.simplex.uncertainty_maximized(&w.base_rate);
                    o.simplex(&s);
                    if acc {
                        // operand accepted by `Opinion::try_new`, result accepted by `Simplex::try_new` (before `it eq`)
                        o.flag(acc_o!(T, w.simplex, w.base_rate));
                        o.flag(acc_s!(T, s));
                    }
                }
            }
            o.finish()
        }};
    }
    nd_dispatch!(f, shape, body)
}

fn nd_discount(f: char, shape: &[usize], n: usize, st: &str, t3: &str, sc: &[V]) -> Out {
    need!(sc.len() == 2 * n + 2);
    macro_rules! body {
        ($T:ty) => {{
            type T = $T;
            let w: Opinion<T, V> = nd_o(&sc[..2 * n + 1]);
            let t = sc[2 * n + 1];
            match (t3, st) {
                ("s", _) => {
                    let s: Simplex<T, V> = w.simplex.discount(t);
                    nd_ok_s(&s)
                }
                ("", "o") => {
                    let r: Opinion<T, V> = Discount::discount(&w, t);
                    nd_ok_o(&r)
                }
                ("", "r") => {
                    let wr: OpinionRef<T, V> = w.as_ref();
                    let r: Opinion<T, V> = Discount::discount(&wr, t);
                    nd_ok_o(&r)
                }
                _ => Out::Unsup,
            }
        }};
    }
    nd_dispatch!(f, shape, body)
}

fn nd_fuse(f: char, shape: &[usize], n: usize, st: &str, t3: &str, alias: bool, acc: bool, ints: &[i64], sc: &[V]) -> Out {
    let Some(fo) = fuse_op(ints[1]) else { return Out::Unsup };
    let same = match ints[2] {
        0 => false,
        1 => true,
        _ => return Out::Unsup,
    };
    need!(sc.len() == 4 * n + 2);
    macro_rules! body {
        ($T:ty) => {{
            type T = $T;
            let mut l: Opinion<T, V> = nd_o(&sc[..2 * n + 1]);
            let r: Opinion<T, V> = nd_o(&sc[2 * n + 1..]);
            let opnd = acc && acc_o!(T, l.simplex, l.base_rate)
                && (alias
                    || if same { acc_o!(T, r.simplex, l.base_rate) } else { acc_o!(T, r.simplex, r.base_rate) });
            if alias {
                return match st {
                    "o" => {
                        let w: Opinion<T, V> = fo.fuse(&l, &l);
                        nd_fuse_out!(T, acc, opnd, &w)
                    }
                    "r" => {
                        let lr = OpinionRef::from((&l.simplex, &l.base_rate));
                        let w: Opinion<T, V> = fo.fuse(lr.clone(), lr);
                        nd_fuse_out!(T, acc, opnd, &w)
                    }
                    _ => Out::Unsup,
                };
            }
            match (t3, st, same) {
                ("", "o", false) => {
                    let w: Opinion<T, V> = fo.fuse(&l, &r);
                    nd_fuse_out!(T, acc, opnd, &w)
                }
                ("", "r", false) => {
                    let w: Opinion<T, V> = fo.fuse(l.as_ref(), r.as_ref());
                    nd_fuse_out!(T, acc, opnd, &w)
                }
                ("", "r", true) => {
                    let a: T = l.base_rate.clone();
                    let w: Opinion<T, V> =
                        fo.fuse(OpinionRef::from((&l.simplex, &a)), OpinionRef::from((&r.simplex, &a)));
                    nd_fuse_out!(T, acc, opnd, &w)
                }
                ("asg", "o", false) => {
                    fo.fuse_assign(&mut l, &r);
                    nd_fuse_out!(T, acc, opnd, &l)
                }
                ("asg", "r", false) => {
                    fo.fuse_assign(&mut l, r.as_ref());
                    nd_fuse_out!(T, acc, opnd, &l)
                }
                _ => Out::Unsup,
            }
        }};
    }
    nd_dispatch!(f, shape, body)
}
