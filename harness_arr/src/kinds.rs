//! The six array kinds (unlabelled MArr1/2/3 with const-generic shapes, labelled MArrD1/2/3 over a domain type per
//! size, usize and newtype index types) and the shape dispatch.
use super::*;

// ---------------------------------------------------------------------------------------------
// domains: one per size 0..=5, with a sibling domain (`from`) each

pub trait Dom: Domain + Sized + 'static {
    type Sib: Domain + From<Self> + 'static;
    fn sib_idx(i: Self::Idx) -> <Self::Sib as Domain>::Idx;
}

macro_rules! usize_dom {
    ($d:ident, $e:ident, $n:expr) => {
        pub struct $d;
        impl_domain!($d = $n);
        pub struct $e;
        impl_domain!($e from $d);
        impl Dom for $d {
            type Sib = $e;
            fn sib_idx(i: usize) -> usize {
                i
            }
        }
    };
}
usize_dom!(D0, E0, 0);
usize_dom!(D1, E1, 1);
usize_dom!(D2, E2, 2);
usize_dom!(D3, E3, 3);
usize_dom!(D4, E4, 4);
usize_dom!(D5, E5, 5);

macro_rules! newtype_dom {
    ($d:ident, $e:ident, $n:expr) => {
        new_type_domain!(pub $d = $n);
        new_type_domain!(pub $e from $d);
        impl NewT for $d {}
        impl Dom for $d {
            type Sib = $e;
            fn sib_idx(i: $d) -> $e {
                $e::from(i)
            }
        }
    };
}
newtype_dom!(N0, M0, 0);
newtype_dom!(N1, M1, 1);
newtype_dom!(N2, M2, 2);
newtype_dom!(N3, M3, 3);
newtype_dom!(N4, M4, 4);
newtype_dom!(N5, M5, 5);

#[inline]
fn ix<D: Domain>(i: usize) -> D::Idx {
    D::Idx::from(i)
}
#[inline]
fn un<D: Domain>(i: D::Idx) -> usize {
    i.into()
}

fn to_arr<T, const N: usize>(v: Vec<T>) -> Option<[T; N]> {
    v.try_into().ok()
}

// ---------------------------------------------------------------------------------------------
// unlabelled

pub struct U1<const K0: usize> {
    a: MArr1<u64, K0>,
    b: MArr1<u64, K0>,
}
pub struct U2<const K0: usize, const K1: usize> {
    a: MArr2<u64, K0, K1>,
    b: MArr2<u64, K0, K1>,
}
pub struct U3<const K0: usize, const K1: usize, const K2: usize> {
    a: MArr3<u64, K0, K1, K2>,
    b: MArr3<u64, K0, K1, K2>,
}

impl<const K0: usize> U1<K0> {
    pub fn new() -> Self {
        Self { a: MArr1::zeros(), b: MArr1::zeros() }
    }
}
impl<const K0: usize, const K1: usize> U2<K0, K1> {
    pub fn new() -> Self {
        Self { a: MArr2::zeros(), b: MArr2::zeros() }
    }
}
impl<const K0: usize, const K1: usize, const K2: usize> U3<K0, K1, K2> {
    pub fn new() -> Self {
        Self { a: MArr3::zeros(), b: MArr3::zeros() }
    }
}

/// methods that are the same text for the three unlabelled ranks
macro_rules! unlabelled_common {
    ($n:tt, $ty:ty) => {
        fn op_zeros(&mut self) -> Res {
            self.a = <$ty>::zeros();
            Res::Ok
        }
        fn op_default(&mut self) -> Res {
            self.a = <$ty>::default();
            Res::Ok
        }
        fn op_fn(&mut self, seed: u64) -> Res {
            self.a = <$ty>::from_fn(|k: [usize; $n]| cell_fn(seed, &k));
            Res::Ok
        }
        fn op_flat(&mut self, v: &[u64]) -> Res {
            self.a = <$ty>::from_iter(v.iter().copied());
            Res::Ok
        }
        fn get(&self, idx: &[usize], w: &mut String) -> Res {
            let k: [usize; $n] = match idx.try_into() {
                Ok(k) => k,
                Err(_) => return Res::Na,
            };
            let v = self.a[k];
            w.push_str(" v");
            put(w, v);
            Res::Ok
        }
        fn set(&mut self, idx: &[usize], v: u64) -> Res {
            let k: [usize; $n] = match idx.try_into() {
                Ok(k) => k,
                Err(_) => return Res::Na,
            };
            self.a[k] = v;
            Res::Ok
        }
        fn imadd(&mut self, _c: u64) -> Res {
            Res::Na
        }
        fn dmset(&mut self, _i: usize, _idx: &[usize], _v: u64) -> Res {
            Res::Na
        }
        fn dmfn(&mut self, _i: usize, _seed: u64) -> Res {
            Res::Na
        }
        fn down(&self, _i: usize, _w: &mut String) -> Res {
            Res::Na
        }
        fn clone_to_b(&mut self) {
            self.b = self.a.clone();
        }
        fn eq(&self) -> bool {
            self.a == self.b
        }
        fn swap(&mut self) {
            std::mem::swap(&mut self.a, &mut self.b);
        }
        fn conv(&self, _w: &mut String) -> Res {
            Res::Na
        }
        fn asref(&self, _w: &mut String) -> Res {
            Res::Na
        }
        fn prodit(&self, _ws: &[Vec<u64>], _w: &mut String) -> Res {
            Res::Na
        }
        fn dump_a(&self, w: &mut String) {
            dump_it(w, &mut (&self.a).into_iter().copied());
            dump_ix(w, &|| <$ty>::indexes().map(|k| self.a[k]).collect());
        }
        fn dump_b(&self, w: &mut String) {
            dump_it(w, &mut (&self.b).into_iter().copied());
            dump_ix(w, &|| <$ty>::indexes().map(|k| self.b[k]).collect());
        }
        fn iter(&self, w: &mut String) {
            dump_it(w, &mut (&self.a).into_iter().copied());
        }
        fn index(&self, w: &mut String) {
            dump_ix(w, &|| <$ty>::indexes().map(|k| self.a[k]).collect());
        }
        fn with(&self, w: &mut String) {
            w.push_str(" w");
            for (k, v) in self.a.iter_with() {
                w.push(' ');
                put_tup(w, &k);
                let _ = write!(w, "={}", v);
            }
        }
        fn len(&self, w: &mut String) -> Res {
            w.push_str(" v");
            put(w, self.a.len() as u64);
            Res::Ok
        }
    };
}

impl<const K0: usize> Kind for U1<K0>
where
    [u64; K0]: Default,
{
    unlabelled_common!(1, MArr1<u64, K0>);

    fn op_nest(&mut self, t: &Nested) -> Res {
        match t {
            Nested::N1(v) => {
                self.a = MArr1::from_iter(v.iter().copied());
                Res::Ok
            }
            _ => Res::Na,
        }
    }
    fn prod(&mut self, _ws: &[Vec<u64>]) -> Res {
        Res::Na
    }
    fn tryf(&self, t: &Nested, w: &mut String) -> Res {
        let arr: [u64; K0] = match t {
            Nested::N1(v) => match to_arr(v.clone()) {
                Some(a) => a,
                None => return Res::Na,
            },
            _ => return Res::Na,
        };
        match MArr1::<Ev, K0>::try_from(arr) {
            Ok(m) => {
                w.push_str(" ok");
                for x in &m {
                    put(w, x.0);
                }
                Res::Ok
            }
            Err(Odd(v)) => Res::Err(v),
        }
    }
}

impl<const K0: usize, const K1: usize> Kind for U2<K0, K1>
where
    [MArr1<u64, K1>; K0]: Default,
{
    unlabelled_common!(2, MArr2<u64, K0, K1>);

    fn op_nest(&mut self, t: &Nested) -> Res {
        match t {
            Nested::N2(rows) => {
                if rows.len() != K0 {
                    return Res::Na;
                }
                let rows: Vec<MArr1<u64, K1>> =
                    rows.iter().map(|r| MArr1::from_iter(r.iter().copied())).collect();
                match to_arr::<_, K0>(rows) {
                    Some(arr) => {
                        self.a = MArr2::new(arr);
                        Res::Ok
                    }
                    None => Res::Na,
                }
            }
            _ => Res::Na,
        }
    }
    fn prod(&mut self, ws: &[Vec<u64>]) -> Res {
        if ws.len() != 2 {
            return Res::Na;
        }
        let (w0, w1) = match (to_arr::<u64, K0>(ws[0].clone()), to_arr::<u64, K1>(ws[1].clone())) {
            (Some(a), Some(b)) => (a, b),
            _ => return Res::Na,
        };
        self.a = MArr2::product2(&w0, &w1);
        Res::Ok
    }
    fn tryf(&self, t: &Nested, w: &mut String) -> Res {
        let rows = match t {
            Nested::N2(v) => v,
            _ => return Res::Na,
        };
        let rows: Option<Vec<[u64; K1]>> = rows.iter().map(|r| to_arr(r.clone())).collect();
        let arr: [[u64; K1]; K0] = match rows.and_then(to_arr) {
            Some(a) => a,
            None => return Res::Na,
        };
        match MArr2::<Ev, K0, K1>::try_from(arr) {
            Ok(m) => {
                w.push_str(" ok");
                for x in &m {
                    put(w, x.0);
                }
                Res::Ok
            }
            Err(Odd(v)) => Res::Err(v),
        }
    }
}

impl<const K0: usize, const K1: usize, const K2: usize> Kind for U3<K0, K1, K2>
where
    [MArr2<u64, K1, K2>; K0]: Default,
{
    unlabelled_common!(3, MArr3<u64, K0, K1, K2>);

    fn op_nest(&mut self, t: &Nested) -> Res {
        match t {
            Nested::N3(planes) => {
                if planes.len() != K0 || planes.iter().any(|p| p.len() != K1) {
                    return Res::Na;
                }
                let mut ps: Vec<MArr2<u64, K1, K2>> = vec![];
                for p in planes {
                    let rows: Vec<MArr1<u64, K2>> =
                        p.iter().map(|r| MArr1::from_iter(r.iter().copied())).collect();
                    match to_arr::<_, K1>(rows) {
                        Some(arr) => ps.push(MArr2::new(arr)),
                        None => return Res::Na,
                    }
                }
                match to_arr::<_, K0>(ps) {
                    Some(arr) => {
                        self.a = MArr3::new(arr);
                        Res::Ok
                    }
                    None => Res::Na,
                }
            }
            _ => Res::Na,
        }
    }
    fn prod(&mut self, ws: &[Vec<u64>]) -> Res {
        if ws.len() != 3 {
            return Res::Na;
        }
        let (w0, w1, w2) = match (
            to_arr::<u64, K0>(ws[0].clone()),
            to_arr::<u64, K1>(ws[1].clone()),
            to_arr::<u64, K2>(ws[2].clone()),
        ) {
            (Some(a), Some(b), Some(c)) => (a, b, c),
            _ => return Res::Na,
        };
        self.a = MArr3::product3(&w0, &w1, &w2);
        Res::Ok
    }
    fn tryf(&self, t: &Nested, w: &mut String) -> Res {
        let planes = match t {
            Nested::N3(v) => v,
            _ => return Res::Na,
        };
        let ps: Option<Vec<[[u64; K2]; K1]>> = planes
            .iter()
            .map(|p| {
                let rows: Option<Vec<[u64; K2]>> = p.iter().map(|r| to_arr(r.clone())).collect();
                rows.and_then(to_arr)
            })
            .collect();
        let arr: [[[u64; K2]; K1]; K0] = match ps.and_then(to_arr) {
            Some(a) => a,
            None => return Res::Na,
        };
        match MArr3::<Ev, K0, K1, K2>::try_from(arr) {
            Ok(m) => {
                w.push_str(" ok");
                for x in &m {
                    put(w, x.0);
                }
                Res::Ok
            }
            Err(Odd(v)) => Res::Err(v),
        }
    }
}

// ---------------------------------------------------------------------------------------------
// labelled

pub struct L1<A: Dom> {
    a: MArrD1<A, u64>,
    b: MArrD1<A, u64>,
}
pub struct L2<A: Dom, B: Dom> {
    a: MArrD2<A, B, u64>,
    b: MArrD2<A, B, u64>,
}
pub struct L3<A: Dom, B: Dom, C: Dom> {
    a: MArrD3<A, B, C, u64>,
    b: MArrD3<A, B, C, u64>,
}

impl<A: Dom> L1<A> {
    pub fn new() -> Self {
        Self { a: MArrD1::zeros(), b: MArrD1::zeros() }
    }
}
impl<A: Dom, B: Dom> L2<A, B> {
    pub fn new() -> Self {
        Self { a: MArrD2::zeros(), b: MArrD2::zeros() }
    }
}
impl<A: Dom, B: Dom, C: Dom> L3<A, B, C> {
    pub fn new() -> Self {
        Self { a: MArrD3::zeros(), b: MArrD3::zeros() }
    }
}

fn dump_d1<A: Domain>(w: &mut String, m: &MArrD1<A, u64>) {
    dump_it(w, &mut m.iter().copied());
    dump_ix(w, &|| MArrD1::<A, u64>::indexes().map(|i| m[i]).collect());
}
fn dump_d2<A: Domain, B: Domain>(w: &mut String, m: &MArrD2<A, B, u64>) {
    dump_it(w, &mut m.iter().copied());
    dump_ix(w, &|| MArrD2::<A, B, u64>::indexes().map(|i| m[i]).collect());
}
fn dump_d3<A: Domain, B: Domain, C: Domain>(w: &mut String, m: &MArrD3<A, B, C, u64>) {
    dump_it(w, &mut m.iter().copied());
    dump_ix(w, &|| MArrD3::<A, B, C, u64>::indexes().map(|i| m[i]).collect());
}

fn dkeys_axis<A: Dom>(w: &mut String) {
    w.push_str(" ax");
    let mut it = A::keys();
    while let Some(k) = it.next() {
        let u = un::<A>(k.clone());
        let rt = un::<A>(ix::<A>(u));
        let sb = un::<A::Sib>(A::sib_idx(k));
        let _ = write!(w, " {}:{}:{}", u, rt, sb);
    }
    w.push_str(" end");
    for _ in 0..3 {
        match it.next() {
            None => w.push_str(" N"),
            Some(k) => {
                let _ = write!(w, " S{}", un::<A>(k));
            }
        }
    }
}

macro_rules! labelled_common {
    ($ty:ty, $dump:ident) => {
        fn op_zeros(&mut self) -> Res {
            self.a = <$ty>::zeros();
            Res::Ok
        }
        fn op_default(&mut self) -> Res {
            self.a = <$ty>::default();
            Res::Ok
        }
        fn op_flat(&mut self, v: &[u64]) -> Res {
            self.a = <$ty>::from_iter(v.iter().copied());
            Res::Ok
        }
        fn imadd(&mut self, c: u64) -> Res {
            for (p, x) in self.a.iter_mut().enumerate() {
                *x = x.wrapping_add(c.wrapping_mul(p as u64 + 1));
            }
            Res::Ok
        }
        fn clone_to_b(&mut self) {
            self.b = self.a.clone();
        }
        fn eq(&self) -> bool {
            self.a == self.b
        }
        fn swap(&mut self) {
            std::mem::swap(&mut self.a, &mut self.b);
        }
        fn dump_a(&self, w: &mut String) {
            $dump(w, &self.a);
        }
        fn dump_b(&self, w: &mut String) {
            $dump(w, &self.b);
        }
        fn iter(&self, w: &mut String) {
            dump_it(w, &mut self.a.iter().copied());
        }
        fn index(&self, w: &mut String) {
            dump_ix(w, &|| <$ty>::indexes().map(|i| self.a[i]).collect());
        }
        fn len(&self, _w: &mut String) -> Res {
            Res::Na
        }
    };
}

impl<A: Dom> Kind for L1<A> {
    labelled_common!(MArrD1<A, u64>, dump_d1);

    fn op_fn(&mut self, seed: u64) -> Res {
        self.a = MArrD1::<A, u64>::from_fn(|i| cell_fn(seed, &[un::<A>(i)]));
        Res::Ok
    }
    fn op_nest(&mut self, t: &Nested) -> Res {
        match t {
            Nested::N1(v) => {
                self.a = MArrD1::from_iter(v.iter().copied());
                Res::Ok
            }
            _ => Res::Na,
        }
    }
    fn get(&self, idx: &[usize], w: &mut String) -> Res {
        if idx.len() != 1 {
            return Res::Na;
        }
        let v = self.a[ix::<A>(idx[0])];
        w.push_str(" v");
        put(w, v);
        Res::Ok
    }
    fn set(&mut self, idx: &[usize], v: u64) -> Res {
        if idx.len() != 1 {
            return Res::Na;
        }
        self.a[ix::<A>(idx[0])] = v;
        Res::Ok
    }
    fn dmset(&mut self, _i: usize, _idx: &[usize], _v: u64) -> Res {
        Res::Na
    }
    fn dmfn(&mut self, _i: usize, _seed: u64) -> Res {
        Res::Na
    }
    fn down(&self, _i: usize, _w: &mut String) -> Res {
        Res::Na
    }
    fn conv(&self, w: &mut String) -> Res {
        let m: MArrD1<A::Sib, u64> = self.a.clone().conv();
        w.push_str(" ok");
        dump_d1(w, &m);
        Res::Ok
    }
    fn asref(&self, w: &mut String) -> Res {
        let r: MArrD1<A, &u64> = self.a.as_ref();
        w.push_str(" ok");
        dump_it(w, &mut r.iter().map(|x| **x));
        dump_ix(w, &|| MArrD1::<A, &u64>::indexes().map(|i| *r[i]).collect());
        Res::Ok
    }
    fn prod(&mut self, _ws: &[Vec<u64>]) -> Res {
        Res::Na
    }
    fn prodit(&self, _ws: &[Vec<u64>], _w: &mut String) -> Res {
        Res::Na
    }
    fn tryf(&self, t: &Nested, w: &mut String) -> Res {
        let v = match t {
            Nested::N1(v) => v.clone(),
            _ => return Res::Na,
        };
        match MArrD1::<A, Ev>::try_from(v) {
            Ok(m) => {
                w.push_str(" ok");
                for x in m.iter() {
                    put(w, x.0);
                }
                Res::Ok
            }
            Err(Odd(v)) => Res::Err(v),
        }
    }
    fn with(&self, w: &mut String) {
        w.push_str(" w");
        for (k, v) in self.a.iter_with() {
            let _ = write!(w, " {}={}", un::<A>(k), v);
        }
    }
}

impl<A: Dom, B: Dom> Kind for L2<A, B> {
    labelled_common!(MArrD2<A, B, u64>, dump_d2);

    fn op_fn(&mut self, seed: u64) -> Res {
        self.a = MArrD2::<A, B, u64>::from_fn(|(i, j)| cell_fn(seed, &[un::<A>(i), un::<B>(j)]));
        Res::Ok
    }
    fn op_nest(&mut self, t: &Nested) -> Res {
        match t {
            Nested::N2(v) => {
                self.a = MArrD2::from_multi_iter(v.clone());
                Res::Ok
            }
            _ => Res::Na,
        }
    }
    fn get(&self, idx: &[usize], w: &mut String) -> Res {
        if idx.len() != 2 {
            return Res::Na;
        }
        let v = self.a[(ix::<A>(idx[0]), ix::<B>(idx[1]))];
        w.push_str(" v");
        put(w, v);
        Res::Ok
    }
    fn set(&mut self, idx: &[usize], v: u64) -> Res {
        if idx.len() != 2 {
            return Res::Na;
        }
        self.a[(ix::<A>(idx[0]), ix::<B>(idx[1]))] = v;
        Res::Ok
    }
    fn dmset(&mut self, i: usize, idx: &[usize], v: u64) -> Res {
        if idx.len() != 1 {
            return Res::Na;
        }
        self.a.down_mut(ix::<A>(i))[ix::<B>(idx[0])] = v;
        Res::Ok
    }
    fn dmfn(&mut self, i: usize, seed: u64) -> Res {
        *self.a.down_mut(ix::<A>(i)) = MArrD1::<B, u64>::from_fn(|j| cell_fn(seed, &[un::<B>(j)]));
        Res::Ok
    }
    fn down(&self, i: usize, w: &mut String) -> Res {
        let sub = self.a.down(ix::<A>(i));
        w.push_str(" ok");
        dump_d1(w, sub);
        Res::Ok
    }
    fn conv(&self, _w: &mut String) -> Res {
        Res::Na
    }
    fn asref(&self, _w: &mut String) -> Res {
        Res::Na
    }
    fn prod(&mut self, ws: &[Vec<u64>]) -> Res {
        if ws.len() != 2 {
            return Res::Na;
        }
        let m0 = MArrD1::<A, u64>::from_iter(ws[0].iter().copied());
        let m1 = MArrD1::<B, u64>::from_iter(ws[1].iter().copied());
        self.a = MArrD2::product2(&m0, &m1);
        Res::Ok
    }
    fn prodit(&self, ws: &[Vec<u64>], w: &mut String) -> Res {
        if ws.len() != 2 {
            return Res::Na;
        }
        let m0 = MArrD1::<A, u64>::from_iter(ws[0].iter().copied());
        let m1 = MArrD1::<B, u64>::from_iter(ws[1].iter().copied());
        w.push_str(" ok");
        for x in product2_iter(&m0, &m1) {
            put(w, x);
        }
        Res::Ok
    }
    fn tryf(&self, t: &Nested, w: &mut String) -> Res {
        let v = match t {
            Nested::N2(v) => v.clone(),
            _ => return Res::Na,
        };
        match MArrD2::<A, B, Ev>::try_from(v) {
            Ok(m) => {
                w.push_str(" ok");
                for x in m.iter() {
                    put(w, x.0);
                }
                Res::Ok
            }
            Err(Odd(v)) => Res::Err(v),
        }
    }
    fn with(&self, w: &mut String) {
        w.push_str(" w");
        for ((i, j), v) in self.a.iter_with() {
            let _ = write!(w, " {}.{}={}", un::<A>(i), un::<B>(j), v);
        }
    }
}

impl<A: Dom, B: Dom, C: Dom> Kind for L3<A, B, C> {
    labelled_common!(MArrD3<A, B, C, u64>, dump_d3);

    fn op_fn(&mut self, seed: u64) -> Res {
        self.a = MArrD3::<A, B, C, u64>::from_fn(|(i, j, k)| {
            cell_fn(seed, &[un::<A>(i), un::<B>(j), un::<C>(k)])
        });
        Res::Ok
    }
    fn op_nest(&mut self, t: &Nested) -> Res {
        match t {
            Nested::N3(v) => {
                self.a = MArrD3::from_multi_iter(v.clone());
                Res::Ok
            }
            _ => Res::Na,
        }
    }
    fn get(&self, idx: &[usize], w: &mut String) -> Res {
        if idx.len() != 3 {
            return Res::Na;
        }
        let v = self.a[(ix::<A>(idx[0]), ix::<B>(idx[1]), ix::<C>(idx[2]))];
        w.push_str(" v");
        put(w, v);
        Res::Ok
    }
    fn set(&mut self, idx: &[usize], v: u64) -> Res {
        if idx.len() != 3 {
            return Res::Na;
        }
        self.a[(ix::<A>(idx[0]), ix::<B>(idx[1]), ix::<C>(idx[2]))] = v;
        Res::Ok
    }
    fn dmset(&mut self, i: usize, idx: &[usize], v: u64) -> Res {
        if idx.len() != 2 {
            return Res::Na;
        }
        self.a.down_mut(ix::<A>(i))[(ix::<B>(idx[0]), ix::<C>(idx[1]))] = v;
        Res::Ok
    }
    fn dmfn(&mut self, i: usize, seed: u64) -> Res {
        *self.a.down_mut(ix::<A>(i)) =
            MArrD2::<B, C, u64>::from_fn(|(j, k)| cell_fn(seed, &[un::<B>(j), un::<C>(k)]));
        Res::Ok
    }
    fn down(&self, i: usize, w: &mut String) -> Res {
        let sub = self.a.down(ix::<A>(i));
        w.push_str(" ok");
        dump_d2(w, sub);
        Res::Ok
    }
    fn conv(&self, _w: &mut String) -> Res {
        Res::Na
    }
    fn asref(&self, _w: &mut String) -> Res {
        Res::Na
    }
    fn prod(&mut self, ws: &[Vec<u64>]) -> Res {
        if ws.len() != 3 {
            return Res::Na;
        }
        let m0 = MArrD1::<A, u64>::from_iter(ws[0].iter().copied());
        let m1 = MArrD1::<B, u64>::from_iter(ws[1].iter().copied());
        let m2 = MArrD1::<C, u64>::from_iter(ws[2].iter().copied());
        self.a = MArrD3::product3(&m0, &m1, &m2);
        Res::Ok
    }
    fn prodit(&self, ws: &[Vec<u64>], w: &mut String) -> Res {
        if ws.len() != 3 {
            return Res::Na;
        }
        let m0 = MArrD1::<A, u64>::from_iter(ws[0].iter().copied());
        let m1 = MArrD1::<B, u64>::from_iter(ws[1].iter().copied());
        let m2 = MArrD1::<C, u64>::from_iter(ws[2].iter().copied());
        w.push_str(" ok");
        for x in product3_iter(&m0, &m1, &m2) {
            put(w, x);
        }
        Res::Ok
    }
    fn tryf(&self, t: &Nested, w: &mut String) -> Res {
        let v = match t {
            Nested::N3(v) => v.clone(),
            _ => return Res::Na,
        };
        match MArrD3::<A, B, C, Ev>::try_from(v) {
            Ok(m) => {
                w.push_str(" ok");
                for x in m.iter() {
                    put(w, x.0);
                }
                Res::Ok
            }
            Err(Odd(v)) => Res::Err(v),
        }
    }
    fn with(&self, w: &mut String) {
        w.push_str(" w");
        for ((i, j, k), v) in self.a.iter_with() {
            let _ = write!(w, " {}.{}.{}={}", un::<A>(i), un::<B>(j), un::<C>(k), v);
        }
    }
}

// ---------------------------------------------------------------------------------------------
// shape dispatch: every shape with dimensions 0..=5 and rank 1..=3

macro_rules! pick_c {
    ($n:expr, $k:ident => $body:expr) => {
        match $n {
            0 => { const $k: usize = 0; $body }
            1 => { const $k: usize = 1; $body }
            2 => { const $k: usize = 2; $body }
            3 => { const $k: usize = 3; $body }
            4 => { const $k: usize = 4; $body }
            5 => { const $k: usize = 5; $body }
            _ => None,
        }
    };
}

macro_rules! pick_d {
    ($n:expr, $k:ident => $body:expr) => {
        match $n {
            0 => { type $k = D0; $body }
            1 => { type $k = D1; $body }
            2 => { type $k = D2; $body }
            3 => { type $k = D3; $body }
            4 => { type $k = D4; $body }
            5 => { type $k = D5; $body }
            _ => None,
        }
    };
}

macro_rules! pick_n {
    ($n:expr, $k:ident => $body:expr) => {
        match $n {
            0 => { type $k = N0; $body }
            1 => { type $k = N1; $body }
            2 => { type $k = N2; $body }
            3 => { type $k = N3; $body }
            4 => { type $k = N4; $body }
            5 => { type $k = N5; $body }
            _ => None,
        }
    };
}


// ---------------------------------------------------------------------------------------------
// state-free operations (index enumerations): they are associated functions of the array / domain types, so they
// are run without constructing an array (a broken constructor must not disturb them)

use std::marker::PhantomData;

pub struct SU1<const K0: usize>;
pub struct SU2<const K0: usize, const K1: usize>;
pub struct SU3<const K0: usize, const K1: usize, const K2: usize>;
pub struct SL1<A: Dom>(PhantomData<A>);
pub struct SL2<A: Dom, B: Dom>(PhantomData<(A, B)>);
pub struct SL3<A: Dom, B: Dom, C: Dom>(PhantomData<(A, B, C)>);

impl<const K0: usize> StaticKind for SU1<K0> {
    fn indexes(&self, w: &mut String) {
        dump_enum(w, &mut MArr1::<u64, K0>::indexes().map(|k| k.to_vec()));
    }
    fn keys(&self, _w: &mut String) -> Res {
        Res::Na
    }
    fn dkeys(&self, _w: &mut String) -> Res {
        Res::Na
    }
    fn resume(&self, k: usize, w: &mut String) {
        w.push_str(" ix");
        dump_resume(w, k, &last_of(&[K0]), &|| MArr1::<u64, K0>::indexes());
        w.push_str(" ky na");
    }
}
impl<const K0: usize, const K1: usize> StaticKind for SU2<K0, K1> {
    fn indexes(&self, w: &mut String) {
        dump_enum(w, &mut MArr2::<u64, K0, K1>::indexes().map(|k| k.to_vec()));
    }
    fn keys(&self, _w: &mut String) -> Res {
        Res::Na
    }
    fn dkeys(&self, _w: &mut String) -> Res {
        Res::Na
    }
    fn resume(&self, k: usize, w: &mut String) {
        w.push_str(" ix");
        dump_resume(w, k, &last_of(&[K0, K1]), &|| MArr2::<u64, K0, K1>::indexes());
        w.push_str(" ky na");
    }
}
impl<const K0: usize, const K1: usize, const K2: usize> StaticKind for SU3<K0, K1, K2> {
    fn indexes(&self, w: &mut String) {
        dump_enum(w, &mut MArr3::<u64, K0, K1, K2>::indexes().map(|k| k.to_vec()));
    }
    fn keys(&self, _w: &mut String) -> Res {
        Res::Na
    }
    fn dkeys(&self, _w: &mut String) -> Res {
        Res::Na
    }
    fn resume(&self, k: usize, w: &mut String) {
        w.push_str(" ix");
        dump_resume(w, k, &last_of(&[K0, K1, K2]), &|| MArr3::<u64, K0, K1, K2>::indexes());
        w.push_str(" ky na");
    }
}
impl<A: Dom> StaticKind for SL1<A>
where
    A::Idx: Item,
{
    fn indexes(&self, w: &mut String) {
        dump_enum(w, &mut MArrD1::<A, u64>::indexes().map(|i| vec![un::<A>(i)]));
    }
    fn keys(&self, w: &mut String) -> Res {
        dump_enum(w, &mut <MArrD1<A, u64> as Keys<A::Idx>>::keys().map(|i| vec![un::<A>(i)]));
        Res::Ok
    }
    fn dkeys(&self, w: &mut String) -> Res {
        dkeys_axis::<A>(w);
        Res::Ok
    }    fn resume(&self, k: usize, w: &mut String) {
        let last = last_of(&[A::LEN]);
        w.push_str(" ix");
        dump_resume(w, k, &last, &|| MArrD1::<A, u64>::indexes());
        w.push_str(" ky");
        dump_resume(w, k, &last, &|| <MArrD1<A, u64> as Keys<A::Idx>>::keys());
    }
}
impl<A: Dom, B: Dom> StaticKind for SL2<A, B>
where
    (A::Idx, B::Idx): Item,
{
    fn indexes(&self, w: &mut String) {
        dump_enum(w, &mut MArrD2::<A, B, u64>::indexes().map(|(i, j)| vec![un::<A>(i), un::<B>(j)]));
    }
    fn keys(&self, w: &mut String) -> Res {
        dump_enum(
            w,
            &mut <MArrD2<A, B, u64> as Keys<(A::Idx, B::Idx)>>::keys().map(|(i, j)| vec![un::<A>(i), un::<B>(j)]),
        );
        Res::Ok
    }
    fn dkeys(&self, w: &mut String) -> Res {
        dkeys_axis::<A>(w);
        dkeys_axis::<B>(w);
        Res::Ok
    }    fn resume(&self, k: usize, w: &mut String) {
        let last = last_of(&[A::LEN, B::LEN]);
        w.push_str(" ix");
        dump_resume(w, k, &last, &|| MArrD2::<A, B, u64>::indexes());
        w.push_str(" ky");
        dump_resume(w, k, &last, &|| <MArrD2<A, B, u64> as Keys<(A::Idx, B::Idx)>>::keys());
    }
}
impl<A: Dom, B: Dom, C: Dom> StaticKind for SL3<A, B, C>
where
    (A::Idx, B::Idx, C::Idx): Item,
{
    fn indexes(&self, w: &mut String) {
        dump_enum(
            w,
            &mut MArrD3::<A, B, C, u64>::indexes().map(|(i, j, k)| vec![un::<A>(i), un::<B>(j), un::<C>(k)]),
        );
    }
    fn keys(&self, w: &mut String) -> Res {
        dump_enum(
            w,
            &mut <MArrD3<A, B, C, u64> as Keys<(A::Idx, B::Idx, C::Idx)>>::keys()
                .map(|(i, j, k)| vec![un::<A>(i), un::<B>(j), un::<C>(k)]),
        );
        Res::Ok
    }
    fn dkeys(&self, w: &mut String) -> Res {
        dkeys_axis::<A>(w);
        dkeys_axis::<B>(w);
        dkeys_axis::<C>(w);
        Res::Ok
    }    fn resume(&self, k: usize, w: &mut String) {
        let last = last_of(&[A::LEN, B::LEN, C::LEN]);
        w.push_str(" ix");
        dump_resume(w, k, &last, &|| MArrD3::<A, B, C, u64>::indexes());
        w.push_str(" ky");
        dump_resume(w, k, &last, &|| <MArrD3<A, B, C, u64> as Keys<(A::Idx, B::Idx, C::Idx)>>::keys());
    }
}

type BS = Box<dyn StaticKind>;

pub fn make_static(variant: &str, d: &[usize]) -> Option<BS> {
    match (variant, d) {
        ("U.u", [a]) => pick_c!(*a, A => Some(Box::new(SU1::<A>) as BS)),
        ("U.u", [a, b]) => pick_c!(*a, A => pick_c!(*b, B => Some(Box::new(SU2::<A, B>) as BS))),
        ("U.u", [a, b, c]) => {
            pick_c!(*a, A => pick_c!(*b, B => pick_c!(*c, C => Some(Box::new(SU3::<A, B, C>) as BS))))
        }
        ("L.u", [a]) => pick_d!(*a, A => Some(Box::new(SL1::<A>(PhantomData)) as BS)),
        ("L.u", [a, b]) => pick_d!(*a, A => pick_d!(*b, B => Some(Box::new(SL2::<A, B>(PhantomData)) as BS))),
        ("L.u", [a, b, c]) => {
            pick_d!(*a, A => pick_d!(*b, B => pick_d!(*c, C => Some(Box::new(SL3::<A, B, C>(PhantomData)) as BS))))
        }
        ("L.n", [a]) => pick_n!(*a, A => Some(Box::new(SL1::<A>(PhantomData)) as BS)),
        ("L.n", [a, b]) => pick_n!(*a, A => pick_n!(*b, B => Some(Box::new(SL2::<A, B>(PhantomData)) as BS))),
        ("L.n", [a, b, c]) => {
            pick_n!(*a, A => pick_n!(*b, B => pick_n!(*c, C => Some(Box::new(SL3::<A, B, C>(PhantomData)) as BS))))
        }
        _ => None,
    }
}

type BK = Box<dyn Kind>;

fn make_u(d: &[usize]) -> Option<BK> {
    match d {
        [a] => pick_c!(*a, A => Some(Box::new(U1::<A>::new()) as BK)),
        [a, b] => pick_c!(*a, A => pick_c!(*b, B => Some(Box::new(U2::<A, B>::new()) as BK))),
        [a, b, c] => {
            pick_c!(*a, A => pick_c!(*b, B => pick_c!(*c, C => Some(Box::new(U3::<A, B, C>::new()) as BK))))
        }
        _ => None,
    }
}

fn make_lu(d: &[usize]) -> Option<BK> {
    match d {
        [a] => pick_d!(*a, A => Some(Box::new(L1::<A>::new()) as BK)),
        [a, b] => pick_d!(*a, A => pick_d!(*b, B => Some(Box::new(L2::<A, B>::new()) as BK))),
        [a, b, c] => {
            pick_d!(*a, A => pick_d!(*b, B => pick_d!(*c, C => Some(Box::new(L3::<A, B, C>::new()) as BK))))
        }
        _ => None,
    }
}

fn make_ln(d: &[usize]) -> Option<BK> {
    match d {
        [a] => pick_n!(*a, A => Some(Box::new(L1::<A>::new()) as BK)),
        [a, b] => pick_n!(*a, A => pick_n!(*b, B => Some(Box::new(L2::<A, B>::new()) as BK))),
        [a, b, c] => {
            pick_n!(*a, A => pick_n!(*b, B => pick_n!(*c, C => Some(Box::new(L3::<A, B, C>::new()) as BK))))
        }
        _ => None,
    }
}

pub fn make(variant: &str, dims: &[usize]) -> Option<BK> {
    match variant {
        "U.u" => make_u(dims),
        "L.u" => make_lu(dims),
        "L.n" => make_ln(dims),
        _ => None,
    }
}
