//! slarr: executes array PROGRAMS on the real multi-array types of the `subjective-logic` crate.
//!
//! stdin : `<id> prog u64 <variant> <dims> <op> <op> ...`   variant = U.u | L.u | L.n, dims = `2x3`
//! stdout: the line echoed, ` => `, then one observation per op separated by ` | `.
//! The op language and the observation tokens are those of /verif/lean/SLV/Model/MArrProg.lean.
#![allow(dead_code, unused_imports, unused_macros, clippy::all)]

use std::fmt::Write as _;
use std::io::{BufWriter, Read, Write};
use std::panic::{catch_unwind, AssertUnwindSafe};

use subjective_logic::domain::{Domain, DomainConv, Keys};
use subjective_logic::iter::{Container, FromFn};
use subjective_logic::multi_array::labeled::{product2_iter, product3_iter, MArrD1, MArrD2, MArrD3};
use subjective_logic::multi_array::non_labeled::{MArr1, MArr2, MArr3};
use subjective_logic::ops::{Indexes, Product2, Product3, Zeros};
use subjective_logic::{impl_domain, new_type_domain};

mod kinds;
use kinds::{make, make_static};

// ---------------------------------------------------------------------------------------------
// op language

#[derive(Clone, Debug)]
pub enum Nested {
    N1(Vec<u64>),
    N2(Vec<Vec<u64>>),
    N3(Vec<Vec<Vec<u64>>>),
}

#[derive(Clone, Debug)]
pub enum Op {
    Zeros,
    Default,
    Fn(u64),
    Flat(Vec<u64>),
    Nest(Nested),
    Get(Vec<usize>),
    Set(Vec<usize>, u64),
    Imadd(u64),
    Dmset(usize, Vec<usize>, u64),
    Dmfn(usize, u64),
    Down(usize),
    Clone,
    Eq,
    Swap,
    Conv,
    Asref,
    Prod(Vec<Vec<u64>>),
    Prodit(Vec<Vec<u64>>),
    Tryf(Nested),
    Iter,
    Index,
    With,
    Indexes,
    Keys,
    Dkeys,
    Resume(usize),
    Len,
    Bad,
}

fn to_nat(s: &str) -> Option<u64> {
    if s.is_empty() || !s.bytes().all(|b| b.is_ascii_digit()) {
        return None;
    }
    s.parse::<u64>().ok()
}

fn nat_list(s: &str) -> Option<Vec<u64>> {
    if s.is_empty() {
        return Some(vec![]);
    }
    s.split(',').map(to_nat).collect()
}

fn idx_list(s: &str) -> Option<Vec<usize>> {
    nat_list(s).map(|v| v.into_iter().map(|x| x as usize).collect())
}

/// strip one pair of outer brackets and split at the commas of bracket depth 0
fn split_top(s: &str) -> Option<Vec<&str>> {
    let b = s.as_bytes();
    if b.len() < 2 || b[0] != b'[' || b[b.len() - 1] != b']' {
        return None;
    }
    let mid = &s[1..s.len() - 1];
    if mid.is_empty() {
        return Some(vec![]);
    }
    let mut out = vec![];
    let mut depth: i64 = 0;
    let mut start = 0usize;
    for (i, c) in mid.bytes().enumerate() {
        match c {
            b'[' => depth += 1,
            b']' => depth = (depth - 1).max(0),
            b',' if depth == 0 => {
                out.push(&mid[start..i]);
                start = i + 1;
            }
            _ => {}
        }
    }
    out.push(&mid[start..]);
    Some(out)
}

fn parse_n1(s: &str) -> Option<Vec<u64>> {
    split_top(s)?.into_iter().map(to_nat).collect()
}
fn parse_n2(s: &str) -> Option<Vec<Vec<u64>>> {
    split_top(s)?.into_iter().map(parse_n1).collect()
}
fn parse_n3(s: &str) -> Option<Vec<Vec<Vec<u64>>>> {
    split_top(s)?.into_iter().map(parse_n2).collect()
}
fn parse_nested(rank: usize, s: &str) -> Option<Nested> {
    match rank {
        1 => parse_n1(s).map(Nested::N1),
        2 => parse_n2(s).map(Nested::N2),
        3 => parse_n3(s).map(Nested::N3),
        _ => None,
    }
}

fn parse_op(rank: usize, tok: &str) -> Op {
    let p: Vec<&str> = tok.split(':').collect();
    let r: Option<Op> = match p.as_slice() {
        ["zeros"] => Some(Op::Zeros),
        ["default"] => Some(Op::Default),
        ["fn", s] => to_nat(s).map(Op::Fn),
        ["flat", v] => nat_list(v).map(Op::Flat),
        ["nest", t] => parse_nested(rank, t).map(Op::Nest),
        ["get", i] => idx_list(i).map(Op::Get),
        ["set", i, v] => idx_list(i).and_then(|i| to_nat(v).map(|v| Op::Set(i, v))),
        ["imadd", c] => to_nat(c).map(Op::Imadd),
        ["dmset", i, j, v] => to_nat(i)
            .and_then(|i| idx_list(j).and_then(|j| to_nat(v).map(|v| Op::Dmset(i as usize, j, v)))),
        ["dmfn", i, s] => to_nat(i).and_then(|i| to_nat(s).map(|s| Op::Dmfn(i as usize, s))),
        ["down", i] => to_nat(i).map(|i| Op::Down(i as usize)),
        ["clone"] => Some(Op::Clone),
        ["eq"] => Some(Op::Eq),
        ["swap"] => Some(Op::Swap),
        ["conv"] => Some(Op::Conv),
        ["asref"] => Some(Op::Asref),
        ["prod", ws @ ..] => ws.iter().map(|w| nat_list(w)).collect::<Option<Vec<_>>>().map(Op::Prod),
        ["prodit", ws @ ..] => ws.iter().map(|w| nat_list(w)).collect::<Option<Vec<_>>>().map(Op::Prodit),
        ["tryf", t] => parse_nested(rank, t).map(Op::Tryf),
        ["iter"] => Some(Op::Iter),
        ["index"] => Some(Op::Index),
        ["with"] => Some(Op::With),
        ["indexes"] => Some(Op::Indexes),
        ["keys"] => Some(Op::Keys),
        ["dkeys"] => Some(Op::Dkeys),
        ["resume", k] => to_nat(k).map(|k| Op::Resume(k as usize)),
        ["len"] => Some(Op::Len),
        _ => None,
    };
    r.unwrap_or(Op::Bad)
}

// ---------------------------------------------------------------------------------------------
// shared helpers

/// outcome of one call that did not panic
pub enum Res {
    Ok,
    Na,
    Err(u64),
}

/// cell written by `fn:<seed>` at multi-index `k`
pub fn cell_fn(seed: u64, k: &[usize]) -> u64 {
    let mut acc: u64 = 0;
    for &x in k {
        acc = acc * 7 + x as u64 + 1;
    }
    seed * 1000 + acc
}

/// fallible cell type for `try_from`
#[derive(Clone, Copy, Debug, PartialEq)]
pub struct Ev(pub u64);
#[derive(Clone, Copy, Debug, PartialEq)]
pub struct Odd(pub u64);
impl TryFrom<u64> for Ev {
    type Error = Odd;
    fn try_from(v: u64) -> Result<Self, Odd> {
        if v % 2 == 1 {
            Err(Odd(v))
        } else {
            Ok(Ev(v))
        }
    }
}

pub fn put(w: &mut String, v: u64) {
    let _ = write!(w, " {}", v);
}

pub fn put_tup(w: &mut String, k: &[usize]) {
    for (i, x) in k.iter().enumerate() {
        if i > 0 {
            w.push('.');
        }
        let _ = write!(w, "{}", x);
    }
}

/// `it <cells> x <2 further next()>` from a live iterator
pub fn dump_it(w: &mut String, it: &mut dyn Iterator<Item = u64>) {
    w.push_str(" it");
    while let Some(x) = it.next() {
        put(w, x);
    }
    w.push_str(" x");
    for _ in 0..2 {
        match it.next() {
            None => w.push_str(" N"),
            Some(v) => {
                let _ = write!(w, " S{}", v);
            }
        }
    }
}

/// `ix <cells>` or `ix panic`
pub fn dump_ix(w: &mut String, f: &dyn Fn() -> Vec<u64>) {
    w.push_str(" ix");
    match catch_unwind(AssertUnwindSafe(|| f())) {
        Ok(v) => {
            for x in v {
                put(w, x);
            }
        }
        Err(_) => w.push_str(" panic"),
    }
}

/// drained index enumeration, then `end` and three further `next()`
pub fn dump_enum(w: &mut String, it: &mut dyn Iterator<Item = Vec<usize>>) {
    while let Some(k) = it.next() {
        w.push(' ');
        put_tup(w, &k);
    }
    w.push_str(" end");
    for _ in 0..3 {
        match it.next() {
            None => w.push_str(" N"),
            Some(k) => {
                w.push_str(" S");
                put_tup(w, &k);
            }
        }
    }
}

/// an index tuple as the enumerations yield it
pub trait Item: Sized {
    fn to_vec(&self) -> Vec<usize>;
    /// `Iterator::min` / `Iterator::max` when the tuple type is `Ord` (arrays / tuples of usize), else `min_by` /
    /// `max_by` over the usize values (newtype indices are not `Ord`)
    fn it_min<I: Iterator<Item = Self>>(it: I) -> Option<Self>;
    fn it_max<I: Iterator<Item = Self>>(it: I) -> Option<Self>;
}

macro_rules! ord_item {
    () => {
        fn it_min<I: Iterator<Item = Self>>(it: I) -> Option<Self> {
            it.min()
        }
        fn it_max<I: Iterator<Item = Self>>(it: I) -> Option<Self> {
            it.max()
        }
    };
}
macro_rules! by_item {
    () => {
        fn it_min<I: Iterator<Item = Self>>(it: I) -> Option<Self> {
            it.min_by(|x, y| x.to_vec().cmp(&y.to_vec()))
        }
        fn it_max<I: Iterator<Item = Self>>(it: I) -> Option<Self> {
            it.max_by(|x, y| x.to_vec().cmp(&y.to_vec()))
        }
    };
}

impl<const N: usize> Item for [usize; N] {
    fn to_vec(&self) -> Vec<usize> {
        self.as_slice().to_vec()
    }
    ord_item!();
}
impl Item for usize {
    fn to_vec(&self) -> Vec<usize> {
        vec![*self]
    }
    ord_item!();
}
impl Item for (usize, usize) {
    fn to_vec(&self) -> Vec<usize> {
        vec![self.0, self.1]
    }
    ord_item!();
}
impl Item for (usize, usize, usize) {
    fn to_vec(&self) -> Vec<usize> {
        vec![self.0, self.1, self.2]
    }
    ord_item!();
}
/// newtype index (`new_type_domain!`): only `Debug, Clone, Copy` and the usize conversions
pub trait NewT: Clone + Into<usize> {
    fn us(&self) -> usize {
        self.clone().into()
    }
}
impl<A: NewT> Item for A {
    fn to_vec(&self) -> Vec<usize> {
        vec![self.us()]
    }
    by_item!();
}
impl<A: NewT, B: NewT> Item for (A, B) {
    fn to_vec(&self) -> Vec<usize> {
        vec![self.0.us(), self.1.us()]
    }
    by_item!();
}
impl<A: NewT, B: NewT, C: NewT> Item for (A, B, C) {
    fn to_vec(&self) -> Vec<usize> {
        vec![self.0.us(), self.1.us(), self.2.us()]
    }
    by_item!();
}

fn put_opt_tup(w: &mut String, o: Option<Vec<usize>>) {
    match o {
        None => w.push_str(" N"),
        Some(k) => {
            w.push_str(" S");
            put_tup(w, &k);
        }
    }
}

fn put_tups(w: &mut String, v: &[Vec<usize>]) {
    for k in v {
        w.push(' ');
        put_tup(w, k);
    }
}

/// the multi-index with every coordinate at its maximum (0 for an empty axis: then nothing is enumerated anyway)
pub fn last_of(dims: &[usize]) -> Vec<usize> {
    dims.iter().map(|d| d.saturating_sub(1)).collect()
}

/// `resume:<k>` on one enumeration.  `mk` makes a fresh iterator of the CONCRETE type the crate returns (no adaptor,
/// no `dyn`: a provided method overridden by that type must be the one that is called).  Every consumer gets its own
/// fresh iterator advanced by `k` calls of `next()`:
/// `adv <k results> sh:<lo>:<hi|N> col <..> fe <..> fo <..> cnt <n> last <o> nth0 <o> nth1 <o> <o> skip1 <o>
///  step2 <..> min <o> max <o> pos <N|Sn> all <T|F> <o>`      (`<o>` = `N` or `S<tuple>`)
pub fn dump_resume<T: Item, I: Iterator<Item = T>>(w: &mut String, k: usize, last: &[usize], mk: &dyn Fn() -> I) {
    let fresh = || {
        let mut it = mk();
        let adv: Vec<Option<Vec<usize>>> = (0..k).map(|_| it.next().map(|t| t.to_vec())).collect();
        (it, adv)
    };
    let (it, adv0) = fresh();
    w.push_str(" adv");
    for a in &adv0 {
        put_opt_tup(w, a.clone());
    }
    // the hint of the advanced iterator, as it is, before anything is consumed
    let (lo, hi) = it.size_hint();
    let _ = write!(w, " sh:{}:", lo);
    match hi {
        None => w.push('N'),
        Some(h) => {
            let _ = write!(w, "{}", h);
        }
    }
    drop(it);
    // a further fresh iterator; its `k` leading items must be the ones already printed
    let get = |w: &mut String| -> I {
        let (it, adv) = fresh();
        if adv != adv0 {
            w.push_str(" adv!");
        }
        it
    };
    let vecs = |v: Vec<T>| -> Vec<Vec<usize>> { v.iter().map(|t| t.to_vec()).collect() };

    let it = get(w);
    w.push_str(" col");
    put_tups(w, &vecs(it.collect::<Vec<_>>()));

    let it = get(w);
    w.push_str(" fe");
    let mut v: Vec<Vec<usize>> = vec![];
    it.for_each(|t| v.push(t.to_vec()));
    put_tups(w, &v);

    let it = get(w);
    w.push_str(" fo");
    let v = it.fold(Vec::new(), |mut acc: Vec<Vec<usize>>, t| {
        acc.push(t.to_vec());
        acc
    });
    put_tups(w, &v);

    let it = get(w);
    let _ = write!(w, " cnt {}", it.count());

    let it = get(w);
    w.push_str(" last");
    put_opt_tup(w, it.last().map(|t| t.to_vec()));

    let mut it = get(w);
    w.push_str(" nth0");
    put_opt_tup(w, it.nth(0).map(|t| t.to_vec()));

    let mut it = get(w);
    w.push_str(" nth1");
    put_opt_tup(w, it.nth(1).map(|t| t.to_vec()));
    put_opt_tup(w, it.next().map(|t| t.to_vec()));

    let it = get(w);
    w.push_str(" skip1");
    put_opt_tup(w, it.skip(1).next().map(|t| t.to_vec()));

    let it = get(w);
    w.push_str(" step2");
    put_tups(w, &vecs(it.step_by(2).collect::<Vec<_>>()));

    let it = get(w);
    w.push_str(" min");
    put_opt_tup(w, T::it_min(it).map(|t| t.to_vec()));

    let it = get(w);
    w.push_str(" max");
    put_opt_tup(w, T::it_max(it).map(|t| t.to_vec()));

    let mut it = get(w);
    w.push_str(" pos");
    match it.position(|t| t.to_vec() == last) {
        None => w.push_str(" N"),
        Some(p) => {
            let _ = write!(w, " S{}", p);
        }
    }

    let mut it = get(w);
    w.push_str(" all");
    w.push_str(if it.all(|_| true) { " T" } else { " F" });
    put_opt_tup(w, it.next().map(|t| t.to_vec()));

    // longer jumps (across several rows of the small shapes): `nth(j)` then `next()`, `skip(j).next()`, `step_by(3)`
    for j in [2usize, 3, 5, 7] {
        let mut it = get(w);
        let _ = write!(w, " nth{}", j);
        put_opt_tup(w, it.nth(j).map(|t| t.to_vec()));
        put_opt_tup(w, it.next().map(|t| t.to_vec()));
        let it = get(w);
        let _ = write!(w, " skip{}", j);
        put_opt_tup(w, it.skip(j).next().map(|t| t.to_vec()));
    }
    let it = get(w);
    w.push_str(" step3");
    put_tups(w, &vecs(it.step_by(3).collect::<Vec<_>>()));
}

/// the operations of one array kind (state: registers `a` and `b`); a panic unwinds to `step`
pub trait Kind {
    fn op_zeros(&mut self) -> Res;
    fn op_default(&mut self) -> Res;
    fn op_fn(&mut self, seed: u64) -> Res;
    fn op_flat(&mut self, v: &[u64]) -> Res;
    fn op_nest(&mut self, t: &Nested) -> Res;
    fn get(&self, idx: &[usize], w: &mut String) -> Res;
    fn set(&mut self, idx: &[usize], v: u64) -> Res;
    fn imadd(&mut self, c: u64) -> Res;
    fn dmset(&mut self, i: usize, idx: &[usize], v: u64) -> Res;
    fn dmfn(&mut self, i: usize, seed: u64) -> Res;
    fn down(&self, i: usize, w: &mut String) -> Res;
    fn clone_to_b(&mut self);
    fn eq(&self) -> bool;
    fn swap(&mut self);
    fn conv(&self, w: &mut String) -> Res;
    fn asref(&self, w: &mut String) -> Res;
    fn prod(&mut self, ws: &[Vec<u64>]) -> Res;
    fn prodit(&self, ws: &[Vec<u64>], w: &mut String) -> Res;
    fn tryf(&self, t: &Nested, w: &mut String) -> Res;
    fn dump_a(&self, w: &mut String);
    fn dump_b(&self, w: &mut String);
    fn iter(&self, w: &mut String);
    fn index(&self, w: &mut String);
    fn with(&self, w: &mut String);
    fn len(&self, w: &mut String) -> Res;
}

/// the state-free operations of one array kind
pub trait StaticKind {
    fn indexes(&self, w: &mut String);
    fn keys(&self, w: &mut String) -> Res;
    fn dkeys(&self, w: &mut String) -> Res;
    /// `ix <resume observations of indexes()> ky <those of keys() | na>`
    fn resume(&self, k: usize, w: &mut String);
}

fn is_static(op: &Op) -> bool {
    matches!(op, Op::Indexes | Op::Keys | Op::Dkeys | Op::Resume(_))
}

fn exec_static(k: &dyn StaticKind, op: &Op, w: &mut String) -> Res {
    match op {
        Op::Indexes => {
            k.indexes(w);
            Res::Ok
        }
        Op::Keys => k.keys(w),
        Op::Dkeys => k.dkeys(w),
        Op::Resume(n) => {
            k.resume(*n, w);
            Res::Ok
        }
        _ => Res::Na,
    }
}

fn step_static(k: &dyn StaticKind, op: &Op, out: &mut String) {
    let mut w = String::new();
    match catch_unwind(AssertUnwindSafe(|| exec_static(k, op, &mut w))) {
        Ok(Res::Ok) => out.push_str(w.trim_start()),
        Ok(Res::Na) => out.push_str("na"),
        Ok(Res::Err(v)) => {
            let _ = write!(out, "err {}", v);
        }
        Err(_) => out.push_str("panic"),
    }
}

fn exec(k: &mut dyn Kind, op: &Op, w: &mut String) -> Res {
    // a state-changing op prints `ok` and the dumps of the new `a`
    fn seta(k: &mut dyn Kind, r: Res, w: &mut String) -> Res {
        if let Res::Ok = r {
            w.push_str(" ok");
            k.dump_a(w);
        }
        r
    }
    match op {
        Op::Zeros => {
            let r = k.op_zeros();
            seta(k, r, w)
        }
        Op::Default => {
            let r = k.op_default();
            seta(k, r, w)
        }
        Op::Fn(s) => {
            let r = k.op_fn(*s);
            seta(k, r, w)
        }
        Op::Flat(v) => {
            let r = k.op_flat(v);
            seta(k, r, w)
        }
        Op::Nest(t) => {
            let r = k.op_nest(t);
            seta(k, r, w)
        }
        Op::Get(i) => k.get(i, w),
        Op::Set(i, v) => {
            let r = k.set(i, *v);
            seta(k, r, w)
        }
        Op::Imadd(c) => {
            let r = k.imadd(*c);
            seta(k, r, w)
        }
        Op::Dmset(i, j, v) => {
            let r = k.dmset(*i, j, *v);
            seta(k, r, w)
        }
        Op::Dmfn(i, s) => {
            let r = k.dmfn(*i, *s);
            seta(k, r, w)
        }
        Op::Down(i) => k.down(*i, w),
        Op::Clone => {
            k.clone_to_b();
            w.push_str(" ok");
            k.dump_b(w);
            Res::Ok
        }
        Op::Eq => {
            w.push_str(if k.eq() { " T" } else { " F" });
            Res::Ok
        }
        Op::Swap => {
            k.swap();
            w.push_str(" ok");
            Res::Ok
        }
        Op::Conv => k.conv(w),
        Op::Asref => k.asref(w),
        Op::Prod(ws) => {
            let r = k.prod(ws);
            seta(k, r, w)
        }
        Op::Prodit(ws) => k.prodit(ws, w),
        Op::Tryf(t) => k.tryf(t, w),
        Op::Iter => {
            k.iter(w);
            Res::Ok
        }
        Op::Index => {
            k.index(w);
            Res::Ok
        }
        Op::With => {
            k.with(w);
            Res::Ok
        }
        Op::Indexes | Op::Keys | Op::Dkeys | Op::Resume(_) => Res::Na, // state-free: handled by `step_static`
        Op::Len => k.len(w),
        Op::Bad => Res::Na,
    }
}

fn step(k: &mut dyn Kind, op: &Op, out: &mut String) {
    let mut w = String::new();
    match catch_unwind(AssertUnwindSafe(|| exec(k, op, &mut w))) {
        Ok(Res::Ok) => out.push_str(w.trim_start()),
        Ok(Res::Na) => out.push_str("na"),
        Ok(Res::Err(v)) => {
            let _ = write!(out, "err {}", v);
        }
        Err(_) => out.push_str("panic"),
    }
}

fn run_line(line: &str) -> String {
    let toks: Vec<&str> = line.split(' ').filter(|t| !t.is_empty()).collect();
    if toks.len() < 5 || toks[1] != "prog" {
        return "unsupported".into();
    }
    let variant = toks[3];
    let dims: Option<Vec<usize>> = toks[4].split('x').map(|t| to_nat(t).map(|x| x as usize)).collect();
    let dims = match dims {
        Some(d) if (1..=3).contains(&d.len()) => d,
        _ => return "unsupported".into(),
    };
    let ops: Vec<Op> = toks[5..].iter().map(|t| parse_op(dims.len(), t)).collect();
    let st = match make_static(variant, &dims) {
        Some(st) => st,
        None => return "unsupported".into(),
    };
    // both registers start as `zeros()`; if that already fails only the state-free ops are run
    let mut made = match catch_unwind(AssertUnwindSafe(|| make(variant, &dims))) {
        Ok(Some(k)) => Some(k),
        Ok(None) => return "unsupported".into(),
        Err(_) => None,
    };
    let mut out = String::new();
    for (i, op) in ops.iter().enumerate() {
        if i > 0 {
            out.push_str(" | ");
        }
        if is_static(op) {
            step_static(st.as_ref(), op, &mut out);
        } else {
            match made.as_mut() {
                Some(k) => step(k.as_mut(), op, &mut out),
                None => out.push_str("noinit"),
            }
        }
    }
    out
}

fn main() {
    std::panic::set_hook(Box::new(|_| {}));
    let mut input = String::new();
    match std::env::args().nth(1) {
        Some(path) => {
            input = match std::fs::read_to_string(&path) {
                Ok(s) => s,
                Err(e) => {
                    eprintln!("slarr: cannot read {path}: {e}");
                    std::process::exit(2);
                }
            }
        }
        None => {
            if let Err(e) = std::io::stdin().lock().read_to_string(&mut input) {
                eprintln!("slarr: cannot read stdin: {e}");
                std::process::exit(2);
            }
        }
    }
    let stdout = std::io::stdout();
    let mut out = BufWriter::with_capacity(1 << 20, stdout.lock());
    for line in input.lines() {
        if line.trim().is_empty() || line.starts_with('#') {
            continue;
        }
        let r = run_line(line);
        let _ = out.write_all(line.as_bytes());
        let _ = out.write_all(b" => ");
        let _ = out.write_all(r.as_bytes());
        let _ = out.write_all(b"\n");
    }
    let _ = out.flush();
}
