"""C18 — index enumeration is the lexicographic Cartesian product of the dimensions."""
from .. import arrgen as A
from .common import TRUSTED as _T, ASSUMPTIONS as _A, default_nontrivial, LEVEL_NOTE, TECHNIQUE  # noqa: F401

LEVEL = "proof"
HBIN = "/verif/harness_arr/target/release/slarr"
DRIVER = "/verif/lean/.lake/build/bin/slvarr"
THEOREMS = ["C18_multirange", "C18_exhausted", "C18_collect", "C18_zero_dim", "C18_length", "C18_nodup", "C18_mem_iff",
            "C18_lex_order", "C18_labelled", "C18_families_agree", "C18_keys", "C18_newtype_roundtrip",
            "C18_resume", "C18_resume_model", "C18_resume_list", "C18_sorted", "C18_resume_sorted", "C18_resume_length",
            "C18_resume_min_max", "C18_resume_items"]
RULE = ("EXHAUSTIVE: every shape with each dimension in 0..5 and rank 1..3 (6+36+216 shapes) x {unlabelled MArrN with "
        "[usize;N] indices, labelled MArrDN with usize index, labelled MArrDN with newtype index}: the full output of "
        "Indexes::indexes() (twice), Keys::keys() of the array type, Keys::keys() of every axis domain with the "
        "usize->Idx->usize round trip and the sibling-domain conversion of every key, each followed by three further "
        "next() calls after exhaustion; and RESUMED enumerations (op resume:<k>): for k in {0, 1, last dimension, last "
        "dimension + 1, every row/plane size and that + 1, total/2, total-1, total, total+1} (deduplicated, k <= total+1) "
        "both indexes() and keys() (the iterator types the crate returns, no adaptor in between) are advanced by k next() "
        "calls (results reported) and the remainder is consumed, each time on a freshly advanced iterator, through "
        "collect, for_each, fold, count, last, nth(0), nth(1) then next(), skip(1).next(), step_by(2).collect(), min, max, "
        "position(== last tuple of the shape), all(|_| true) then next(); size_hint() of the advanced iterator is reported "
        "as it is and must bracket the remaining length (lo <= remaining <= hi when hi is Some; contract check only, the "
        "hint is not compared with the model); everything compared token by token with the Lean model (MultiRange odometer "
        "run k steps then drained / iproduct item list behind a list iterator; count = length, last = getLast?, nth j = "
        "l[j]?, step_by 2 = every second item, min/max = lexicographic fold, position = findIdx?) and with lexList of the "
        "shape (drop k). non-trivial = the implementation produced an observation line")
EXHAUSTIVE = {"quick": True, "thorough": True}
nontrivial = default_nontrivial


def cases(rng, tier):
    out = []
    for dims in A.shapes(5):
        for v in A.VARIANTS:
            out.append(A.enum_case(v, dims))
    return out


def search(rng, ops, broken):
    return cases(rng, "thorough")


TRUSTED = [
    _T[0],
    "hand-written Lean model SLV/Model/MArr.lean (MultiRange odometer transcribed branch by branch; labelled keys as "
    "itertools::iproduct! = nested flatMap, third-party code modelled and tied exhaustively on this range, not verified); "
    "tied to /repo's working tree by the exhaustive correspondence run, not by translation",
    "Rust harness /verif/harness_arr (calls the real crate in-process on every shape via const generics / one domain type "
    "per size, catch_unwind), Lean driver MainArr.lean (parser + token comparison), python orchestrator and generators",
]
ASSUMPTIONS = [
    "the theorems cover every rank and size vector; the tie to the code is exhaustive for dimensions 0..5 and ranks 1..3 "
    "(the only ranks the crate implements)",
    "an index is identified with its usize value (newtype indices are observed through From<Idx> for usize)",
]
LEVEL_TEXT = ("Kernel-checked theorems for every rank and every size vector: iterating the model's MultiRange::next from "
              "MultiRange::new(size) yields exactly lexList size (the Cartesian product in lexicographic order, last coordinate "
              "fastest, length = product of the sizes, each tuple once, membership iff every coordinate is in range), nothing when "
              "a size is zero, and None forever after; the labelled iproduct! enumeration is the same list; keys = 0..n; newtype "
              "index conversions are identities; resumed enumerations: after k calls of next() (which return the first k tuples, None beyond "
              "the end) a draining consumer sees exactly (lexList size).drop k, which is strictly increasing lexicographically (so min = "
              "head, max = last), has length product - k truncated at 0, and whose j-th item is tuple k+j. The model is tied to the code by an exhaustive run over all 258 shapes x 3 "
              "families/index types, which also evaluates the lexList predicate on the implementation's own output.")


LEVEL_NOTE = ("Trusted: Lean kernel (leanchecker re-check in thorough); axioms propext/Classical.choice/Quot.sound only (audited every run); "
              "the hand-written model of the array types (SLV/Model/MArr*.lean: nested Vec storage, MultiRange odometer, Iter/IterMut state "
              "machines, constructors with panics as none) tied to /repo by the array-program correspondence check (harness_arr runs the "
              "real types for every shape/family/index kind and the Lean driver compares observation traces token by token); itertools' "
              "iproduct! and Vec are modelled, not verified; no translation tie for this part.")
TECHNIQUE = ("Lean 4 refinement theorems (nested model = flat-vector spec for every program; odometer = lexicographic product for every "
             "rank and size) + trace-level correspondence check against the Rust types")
