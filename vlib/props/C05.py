"""C05 — inverted conditionals obey Bayes' theorem and abduction deduces through them."""
from .. import gen as G
from .common import TRUSTED, ASSUMPTIONS, default_nontrivial, LEVEL_NOTE, TECHNIQUE
from .C04 import zb_simplex, zb_dist, zb_cond, hot_cases

LEVEL = "proof"
THEOREMS = ['C05_refines', 'C05_bayes', 'C05_wf', 'C05_u_bound', 'C05_irrelevant', 'C05_zero_column', 'C05_abduce_eq', 'C05_abduce_wf', 'C05_abduce_base_rate', 'C05_abduce_projection', 'C05_abduce_none_iff', 'C05_masses_nonneg_gen', 'C05_abduce_masses_nonneg_gen', 'C05_abduce_masses_nonneg_fin']
RULE = ("inverse / abduce / abduce_with on conditional tables (vacuous, dogmatic, partially informative, zero-likelihood columns, "
        "irrelevant outcomes) x strictly positive base rates (incl. base rates on Y inside the zero-tolerance band (0,eps]); |X|,|Y| in 2..3 (also 4x2); dyadic grids; families A/M/D/N, "
        "&Simplex / OpinionRef / &Opinion; f32+f64. Variant token `acc` (added with repair 9ec2d8b): the harness appends whether "
        "Simplex::try_new accepts EVERY inverted conditional (inverse) resp. Opinion::try_new accepts the abduced opinion; required "
        "(clauses C05.inverse_accepted_by_constructor, C05.abduce_accepted_by_constructor) whenever conditionals, base rates (a_X strictly "
        "positive) and the observation are EXACTLY well-formed as rationals; |X|, |Y| <= 4, far below the sizes (9+ cells) at which the "
        "validators' own re-summation residue could leave the 4-ulp band. Streams: zero-biased small grids (denominators 4, 8, 16; "
        "|X|, |Y| in 2..3; random supports; absolute / vacuous / uncertain observations; zero entries in a_Y), 2500 per precision in the "
        "quick tier, and the replay list gen/corpus/clamp_hot.txt (see C04). Uncertainty clauses on every inverted conditional: u <= uhat (largest value compatible with the posterior) and, outside the zero band, the SCALED bound u <= uhat * (w + Psi - w*Psi) with w = 1 when some conditional has min_y P(y|x)/a(y) > eps and w = 0 when every conditional excludes an outcome (clause u_scaled_bound; theorems C05_u_bound and, in SLV/Props/C05Scaled.lean, C05_wprop_zero_one, C05_phi_zero_one, C05_u_scaled). non-trivial = value returned")
EXHAUSTIVE = {}
# the closed form of the scaling factor used by the oracle clause u_scaled_bound (w in {0,1} outside the zero band)
EXTRA_MODULES = [("SLV.Props.C05Scaled", ("C05_wprop_zero_one", "C05_wprop_one_of_exists", "C05_wprop_zero_of_forall", "C05_phi_zero_one", "C05_u_scaled"))]
nontrivial = default_nontrivial
LEVEL_TEXT = ("Theorems over the exact model: inverted conditionals are well-formed, their projection is the Bayes posterior, their "
              "uncertainty never exceeds the largest value compatible with it, irrelevant and zero-likelihood outcomes invert to the "
              "vacuous opinion; abduce_with = deduce_of through the inverted table (hence C04 applies); abduce is None iff mbr is. "
              "Tied to InverseCondition::inverse / Abduction by the correspondence check; the Bayes identity, bounds and "
              "well-formedness are evaluated on the implementation's outputs.")


def table(rng, n, m, den):
    mode = rng.choice(["mixed", "mixed", "mixed", "zerocol", "irrelevant", "dog"])
    if mode == "irrelevant":
        b, u = G.rand_simplex(rng, m, den, "int")
        return (b + [u]) * n
    if mode == "dog":
        return G.rand_cond(rng, n, m, den, ["dog"] * n)
    conds = G.rand_cond(rng, n, m, den)
    if mode == "zerocol":
        # make outcome y0 impossible under every x: b(y0|x) = 0 needs u = 0 for zero projection (ay > 0)
        y0 = rng.randrange(m)
        out = []
        for x in range(n):
            c = G.composition(rng, den, m - 1)
            b = [G.Fr(0)] * m
            k = 0
            for y in range(m):
                if y != y0:
                    b[y] = G.Fr(c[k], den); k += 1
            out += b + [G.Fr(0)]
        return out
    return conds


def acc_case(rng, fmt):
    """inverse / abduce / abduce_with with the `acc` token on small grids (denominators 4, 8, 16; |X|, |Y| in 2..3): base rate on X
    strictly positive (the operators' domain).  An inverted belief mass b(x|y) = a(x) (L(y,x) - u) is EXACTLY zero for the x that
    attains the smallest likelihood ratio whenever the factor (wprop + irrelevance - wprop * irrelevance) is 1, which is the case
    when every P(y|x) is positive (wprop = 1): half of the cases use uncertain conditionals (u > 0) under a strictly positive base
    rate on Y; the other half is zero-biased (random supports, zero entries in a_Y, absolute / vacuous / uncertain observations)."""
    den = rng.choice([4, 4, 8, 8, 16])
    n, m = rng.choice([2, 2, 3]), rng.choice([2, 3, 3])
    ax = zb_dist(rng, n, den, positive=True)
    if rng.random() < 0.5:
        conds = []
        for _x in range(n):
            cb, cu = zb_simplex(rng, m, den, "unc")
            conds += cb + [cu]
        ay = zb_dist(rng, m, den, positive=True)
    else:
        conds = zb_cond(rng, n, m, den)
        ay = zb_dist(rng, m, den, positive=rng.random() < 0.5)
    fam = rng.choice(G.FAMS_1D)
    r = rng.random()
    if r < 0.3:
        return G.line("inverse", fmt, fam + "." + rng.choice(["o", "r"]) + ".acc", [n, m], conds + ax + ay)
    sb, su = zb_simplex(rng, m, den, rng.choice([None, None, "unc", "unc", "vac", "abs"]))
    aobs = zb_dist(rng, m, den)
    var = fam + "." + rng.choice(["o.acc", "r.acc", "o.s.acc"])
    if r < 0.55:
        return G.line("abduce_with", fmt, var, [n, m], sb + [su] + aobs + conds + ax + ay)
    return G.line("abduce", fmt, var, [n, m], sb + [su] + aobs + conds + ax)


def cases(rng, tier):
    out = []
    for fmt in ("f64", "f32"):
        out += hot_cases(fmt, ("inverse", "abduce", "abduce_with"))
        for _ in range(2500 if tier == "quick" else 60000):
            out.append(acc_case(rng, fmt))
    for fmt in ("f64", "f32"):
        N = 1200 if tier == "quick" else 40000
        for _ in range(N):
            n, m = rng.choice([(2, 2), (2, 3), (3, 2), (3, 3), (4, 2)])
            den = rng.choice([4, 8, 16])
            conds = table(rng, n, m, den)
            ax = G.rand_dist(rng, n, den, positive=True)
            ay = G.rand_dist(rng, m, den, positive=True)
            if rng.random() < 0.12:
                # base rate on Y strictly positive but inside the zero-tolerance band (0, eps]
                e = G.EPS[fmt]
                tiny = rng.choice([e / 2, e / 4, e, e * e, 2.0 ** -60 if fmt == "f64" else 2.0 ** -40])
                y0 = rng.randrange(m)
                ay = [float(v) for v in G.rand_dist(rng, m - 1, den, positive=True)] if m > 1 else []
                big = max(range(len(ay)), key=lambda i: ay[i])
                ay[big] = G.round_fmt(fmt, ay[big] - tiny)
                ay.insert(y0, tiny)
            z = rng.random()
            if z < 0.1:
                # rare hypothesis x rare outcome: tiny base rate on X and a tiny likelihood that every other x excludes
                ax = G.inject_tiny(rng, fmt, ax) or ax
                t = rng.choice(G.TINY[fmt])
                x0 = min(range(n), key=lambda i: ax[i]); y1 = rng.randrange(m)
                conds = []
                for x in range(n):
                    bb = [0.0] * m
                    if x == x0:
                        bb[y1] = t
                        bb[(y1 + 1) % m] = G.round_fmt(fmt, 1.0 - t)
                    else:
                        bb[(y1 + 1) % m] = 1.0
                    conds += bb + [0.0]
            elif z < 0.2:
                # nearly vacuous (but not vacuous by the guard) conditionals, all others vacuous
                conds = []
                for x in range(n):
                    if x == 0:
                        bb, uu = G.edge_simplex(rng, fmt, m, "vac_edge")
                    else:
                        bb, uu = [0.0] * m, 1.0
                    conds += bb + [uu]
            fam = rng.choice(G.FAMS_1D)
            r = rng.random()
            if r < 0.45:
                out.append(G.line("inverse", fmt, fam + "." + rng.choice(["o", "r"]), [n, m], conds + ax + ay))
            else:
                sb, su = G.rand_simplex(rng, m, den, G.rand_kind(rng))
                aobs = G.rand_dist(rng, m, den)
                var = fam + "." + rng.choice(["o", "r", "o.s"])
                if r < 0.75:
                    out.append(G.line("abduce_with", fmt, var, [n, m], sb + [su] + aobs + conds + ax + ay))
                else:
                    out.append(G.line("abduce", fmt, var, [n, m], sb + [su] + aobs + conds + ax))
    return out


def search(rng, ops, broken):
    return cases(rng, "quick")


# tie theorems (substrings of SLV.Gen.*Tie theorem names) this property's operators depend on
TIE = ['inverse', 'deduce_of', 'gen_mbr', 'max_uncertainty', 'abduce', 'projections', 'Simplex_vacuous', 'is_vacuous', 'is_dogmatic', 'normalize_prob_dist', 'Simplex_normalized', 'OpinionRef_projection', 'Simplex_projection', 'gen_is_in_range_eq', 'gen_in_unit_interval_eq', 'gen_is_one_eq', 'gen_is_zero_eq', 'gen_check_unit_interval_eq', 'gen_check_is_one_eq']
