"""C05 — inverted conditionals obey Bayes' theorem and abduction deduces through them."""
from .. import gen as G
from .common import TRUSTED, ASSUMPTIONS, default_nontrivial, LEVEL_NOTE, TECHNIQUE

LEVEL = "proof"
THEOREMS = ['C05_refines', 'C05_bayes', 'C05_wf', 'C05_u_bound', 'C05_irrelevant', 'C05_zero_column', 'C05_abduce_eq', 'C05_abduce_wf', 'C05_abduce_base_rate', 'C05_abduce_projection', 'C05_abduce_none_iff']
RULE = ("inverse / abduce / abduce_with on conditional tables (vacuous, dogmatic, partially informative, zero-likelihood columns, "
        "irrelevant outcomes) x strictly positive base rates (incl. base rates on Y inside the zero-tolerance band (0,eps]); |X|,|Y| in 2..3 (also 4x2); dyadic grids; families A/M/D/N, "
        "&Simplex / OpinionRef / &Opinion; f32+f64. non-trivial = value returned")
EXHAUSTIVE = {}
nontrivial = default_nontrivial
LEVEL_TEXT = ("Theorems over the exact model: inverted conditionals are well-formed, their projection is the Bayes posterior, their "
              "uncertainty never exceeds the largest value compatible with it, irrelevant and zero-likelihood outcomes invert to the "
              "vacuous opinion; abduce_with = deduce_of through the inverted table (hence C04 applies); abduce is None iff mbr is. "
              "Tied to InverseCondition::inverse / Abduction by the correspondence check; the Bayes identity, bounds and "
              "well-formedness are evaluated on the implementation's outputs.")


def table(rng, n, m, den):
    mode = rng.choice(["mixed", "mixed", "mixed", "zerocol", "irrelevant", "dog"])
    if mode == "irrelevant":
        b, u = G.rand_simplex(rng, m, den, "int")
        return (b + [u]) * n
    if mode == "dog":
        return G.rand_cond(rng, n, m, den, ["dog"] * n)
    conds = G.rand_cond(rng, n, m, den)
    if mode == "zerocol":
        # make outcome y0 impossible under every x: b(y0|x) = 0 needs u = 0 for zero projection (ay > 0)
        y0 = rng.randrange(m)
        out = []
        for x in range(n):
            c = G.composition(rng, den, m - 1)
            b = [G.Fr(0)] * m
            k = 0
            for y in range(m):
                if y != y0:
                    b[y] = G.Fr(c[k], den); k += 1
            out += b + [G.Fr(0)]
        return out
    return conds


def cases(rng, tier):
    out = []
    for fmt in ("f64", "f32"):
        N = 1200 if tier == "quick" else 40000
        for _ in range(N):
            n, m = rng.choice([(2, 2), (2, 3), (3, 2), (3, 3), (4, 2)])
            den = rng.choice([4, 8, 16])
            conds = table(rng, n, m, den)
            ax = G.rand_dist(rng, n, den, positive=True)
            ay = G.rand_dist(rng, m, den, positive=True)
            if rng.random() < 0.12:
                # base rate on Y strictly positive but inside the zero-tolerance band (0, eps]
                e = G.EPS[fmt]
                tiny = rng.choice([e / 2, e / 4, e, e * e, 2.0 ** -60 if fmt == "f64" else 2.0 ** -40])
                y0 = rng.randrange(m)
                ay = [float(v) for v in G.rand_dist(rng, m - 1, den, positive=True)] if m > 1 else []
                big = max(range(len(ay)), key=lambda i: ay[i])
                ay[big] = G.round_fmt(fmt, ay[big] - tiny)
                ay.insert(y0, tiny)
            z = rng.random()
            if z < 0.1:
                # rare hypothesis x rare outcome: tiny base rate on X and a tiny likelihood that every other x excludes
                ax = G.inject_tiny(rng, fmt, ax) or ax
                t = rng.choice(G.TINY[fmt])
                x0 = min(range(n), key=lambda i: ax[i]); y1 = rng.randrange(m)
                conds = []
                for x in range(n):
                    bb = [0.0] * m
                    if x == x0:
                        bb[y1] = t
                        bb[(y1 + 1) % m] = G.round_fmt(fmt, 1.0 - t)
                    else:
                        bb[(y1 + 1) % m] = 1.0
                    conds += bb + [0.0]
            elif z < 0.2:
                # nearly vacuous (but not vacuous by the guard) conditionals, all others vacuous
                conds = []
                for x in range(n):
                    if x == 0:
                        bb, uu = G.edge_simplex(rng, fmt, m, "vac_edge")
                    else:
                        bb, uu = [0.0] * m, 1.0
                    conds += bb + [uu]
            fam = rng.choice(G.FAMS_1D)
            r = rng.random()
            if r < 0.45:
                out.append(G.line("inverse", fmt, fam + "." + rng.choice(["o", "r"]), [n, m], conds + ax + ay))
            else:
                sb, su = G.rand_simplex(rng, m, den, G.rand_kind(rng))
                aobs = G.rand_dist(rng, m, den)
                var = fam + "." + rng.choice(["o", "r", "o.s"])
                if r < 0.75:
                    out.append(G.line("abduce_with", fmt, var, [n, m], sb + [su] + aobs + conds + ax + ay))
                else:
                    out.append(G.line("abduce", fmt, var, [n, m], sb + [su] + aobs + conds + ax))
    return out


def search(rng, ops, broken):
    return cases(rng, "quick")


# tie theorems (substrings of SLV.Gen.*Tie theorem names) this property's operators depend on
TIE = ['inverse', 'deduce_of', 'gen_mbr', 'max_uncertainty', 'abduce', 'projections', 'Simplex_vacuous', 'is_vacuous', 'is_dogmatic', 'normalize_prob_dist', 'Simplex_normalized', 'OpinionRef_projection', 'Simplex_projection', 'gen_is_in_range_eq', 'gen_in_unit_interval_eq', 'gen_is_one_eq', 'gen_is_zero_eq', 'gen_check_unit_interval_eq', 'gen_check_is_one_eq']
