"""C11 — merged joint conditionals are well-formed and independent of parent order."""
from fractions import Fraction as Fr
from .. import gen as G
from .common import TRUSTED, ASSUMPTIONS, default_nontrivial, LEVEL_NOTE, TECHNIQUE

LEVEL = "proof"
THEOREMS = ['C11_compose', 'C11_refines', 'C11_wf', 'C11_no_error', 'C11_families_agree', 'C11_impossible_cell_vacuous', 'C11_transpose', 'C11_deduce_order', 'C11_example_cell_vacuous']
RULE = ("merge on pairs of conditional tables x strictly positive base rates, |X1|,|X2| in 2..3, |Y| in 2..3, dyadic grids, including "
        "tables that make a joint value impossible under every y; each case is also run with the parents exchanged and the two "
        "outputs compared after transposition (cross-case check); families A/M (validated product) and D/N; f32+f64. Structured "
        "stream (|Y|=3): for some y one parent is irrelevant (equal u and equal b(y) in every row: constant likelihood column, its "
        "inverted opinion for y is vacuous) while every conditional of the other parent is dogmatic with an impossible outcome and "
        "y is possible and non-constant under it; both assignments of the roles to X1 / X2 (the exchanged pair), all families. "
        "Variant token `acc` (half of the pairs, added with repair 9ec2d8b): the harness appends whether Simplex::try_new accepts EVERY "
        "cell of the merged table; required (clause C11.cell_accepted_by_constructor) when tables and base rates are EXACTLY well-formed "
        "as rationals with strictly positive base rates (joint domains of at most 8 cells: 3x3 parents are not judged by this clause)")
EXHAUSTIVE = {}
nontrivial = default_nontrivial
CROSS_GROUPS = [0]
LEVEL_TEXT = ("The model of merge_cond2 is the composition inverse ∘ product2 ∘ (mbr, inverse) of the operators proved in C05/C06/C08; "
              "theorems give well-formedness of every cell and the transposition symmetry for the exact model. The implementation is "
              "compared cell by cell with that exact composition (including impossible joint cells, where exact arithmetic gives the "
              "vacuous opinion) and the parent-order symmetry is checked on implementation outputs.")


def transpose_cells(vals, n1, n2, m):
    """cells of an n1*n2 table of (m+1)-scalar simplexes -> transposed (n2*n1)"""
    w = m + 1
    out = []
    for j in range(n2):
        for i in range(n1):
            k = i * n2 + j
            out += vals[k * w:(k + 1) * w]
    return out


def irrelevant_parent_tables(rng, n1, n2, den):
    """|Y| = 3.  c1: every row has the same uncertainty and the same mass on y0 (P(y0|x1) constant: X1 is irrelevant for y0, the
    inverted opinion for y0 is vacuous); c2: every row dogmatic with at least one impossible outcome, y0 possible and non-constant."""
    m = 3
    y0 = rng.randrange(m)
    others = [y for y in range(m) if y != y0]
    for _ in range(100):
        u = rng.choice([0, 0, rng.randint(1, den // 2)])
        c = rng.randint(1, den - u - 1)
        rest = den - u - c
        rows1 = []
        for _x in range(n1):
            k = rng.randint(0, rest)
            row = [0] * m
            row[y0], row[others[0]], row[others[1]] = c, k, rest - k
            rows1.append(row + [u])
        if len({tuple(r) for r in rows1}) > 1:
            break
    for _ in range(100):
        rows2 = []
        for _x in range(n2):
            cx = rng.randint(1, den)
            z = rng.choice(others)
            row = [0] * m
            row[y0] = cx
            row[[y for y in others if y != z][0]] = den - cx
            rows2.append(row + [0])
        if len({r[y0] for r in rows2}) > 1:
            break
    fr = lambda rows: [Fr(v, den) for r in rows for v in r]  # noqa: E731
    return fr(rows1), fr(rows2)


def one(rng, fmt, n1, n2, m, den, fam, st, impossible=False, tables=None):
    if tables:
        c1, c2 = tables
    elif impossible:
        # X1 value 0 never occurs with y=0.. : make cond tables dogmatic with disjoint supports so some joint cell is impossible
        c1 = G.rand_cond(rng, n1, m, den, ["dog"] * n1)
        c2 = G.rand_cond(rng, n2, m, den, [rng.choice(["dog", "int"]) for _ in range(n2)])
    else:
        c1 = G.rand_cond(rng, n1, m, den)
        c2 = G.rand_cond(rng, n2, m, den)
    ax1 = G.rand_dist(rng, n1, den, positive=True)
    ax2 = G.rand_dist(rng, n2, den, positive=True)
    ay = G.rand_dist(rng, m, den, positive=True)
    if rng.random() < 0.15:     # rare values: small but strictly positive base rates (joint rates near the zero tolerance)
        ax1 = G.inject_tiny(rng, fmt, ax1, rng.choice(G.TINY[fmt][2:])) or ax1
        ax2 = G.inject_tiny(rng, fmt, ax2, rng.choice(G.TINY[fmt][2:])) or ax2
    # variant token `acc` (half of the pairs): the harness appends whether Simplex::try_new accepts EVERY cell of the merged table
    var = fam + "." + st + (".acc" if rng.random() < 0.5 else "")
    a = G.line("merge", fmt, var, [n1, n2, m], c1 + c2 + ax1 + ax2 + ay)
    b = G.line("merge", fmt, var, [n2, n1, m], c2 + c1 + ax2 + ax1 + ay)
    gid = CROSS_GROUPS[0]
    CROSS_GROUPS[0] += 1
    return [(a, ("pair", gid, 0, n1, n2, m)), (b, ("pair", gid, 1, n1, n2, m))]


def cases(rng, tier):
    CROSS_GROUPS[0] = 0
    out = []
    # the property's own example
    ex = [Fr(5, 16), 0, Fr(11, 16), 0, Fr(6, 16), Fr(6, 16), Fr(4, 16), 0,
          Fr(5, 16), Fr(5, 16), Fr(3, 16), Fr(3, 16), Fr(3, 16), Fr(13, 16), 0, 0,
          Fr(9, 16), Fr(7, 16), Fr(6, 16), Fr(10, 16), Fr(7, 16), Fr(5, 16), Fr(4, 16)]
    for fmt in ("f64", "f32"):
        out.append(G.line("merge", fmt, "D.o", [2, 2, 3], ex))
        out.append(G.line("merge", fmt, "A.o", [2, 2, 3], ex))
        N = 300 if tier == "quick" else 8000
        for _ in range(N):
            n1, n2, m = rng.choice([2, 3]), rng.choice([2, 3]), rng.choice([2, 3])
            den = rng.choice([4, 8, 16])
            fam = rng.choice(["A", "M", "D", "N"])
            out += one(rng, fmt, n1, n2, m, den, fam, rng.choice(["o", "r"]), impossible=rng.random() < 0.3)
        for _ in range(N // 3):
            # one parent irrelevant for some y, the other dogmatic with impossible outcomes (both role assignments: the pair)
            n1, n2 = rng.choice([2, 3]), rng.choice([2, 3])
            den = rng.choice([4, 8, 16])
            fam = rng.choice(["A", "M", "D", "N", "D", "N"])
            out += one(rng, fmt, n1, n2, 3, den, fam, rng.choice(["o", "r"]), tables=irrelevant_parent_tables(rng, n1, n2, den))
        # a base rate on Y with one SMALL entry (2^-k): a joint cell that is possible only under that y has a marginal base rate of the
        # order 2^-k, and the positive rounding residue that the products leave in exactly-zero joint masses (p - a*u, clamped only from
        # below) is a relative perturbation eps / 2^-k of it, which the final inversion divides through: values off by eps / min ay
        # (third bug hunt, C11 / C15 / C16 hunters; recorded finding `equals_composition`, not repaired: the remedy is a cancellation-free
        # form of the joint masses, b0*b1 + a*(c - u))
        for _ in range(N // 6):
            n1, n2, m = rng.choice([2, 3]), rng.choice([2, 3]), rng.choice([2, 3])
            den = rng.choice([4, 8, 16])
            fam = rng.choice(["A", "M", "D", "N"])
            pair = one(rng, fmt, n1, n2, m, den, fam, rng.choice(["o", "r"]), impossible=rng.random() < 0.3)
            k = rng.randint(10, 40) if fmt == "f64" else rng.randint(7, 20)
            fixed = []
            for ln, meta in pair:
                t = ln.split(" ")
                ay = [G.decode(fmt, x) for x in t[-m:]]
                j = max(range(m), key=lambda i: ay[i])
                i0 = (j + 1) % m
                ay2 = list(ay)
                ay2[j] = ay[j] + ay[i0] - Fr(1, 2 ** k)
                ay2[i0] = Fr(1, 2 ** k)
                # not a "pair" for the transposition relation: the two parent orders differ by the same eps / min ay
                fixed.append((" ".join(t[:-m] + [G.hx(fmt, v) for v in ay2]), ("small_ay",) + tuple(meta[1:])))
            out += fixed
    return out


def cross(res):
    fails = []
    groups = {}
    for i, r in enumerate(res):
        mt = r.get("meta")
        if mt and mt[0] == "pair":
            groups.setdefault(mt[1], {})[mt[2]] = i
    for gid, g in groups.items():
        if 0 not in g or 1 not in g:
            continue
        ra, rb = res[g[0]], res[g[1]]
        _, _, _, n1, n2, m = ra["meta"]
        ca, va, _ = G.impl_values(ra)
        cb, vb, _ = G.impl_values(rb)
        fmt = ra["case"].split(" ")[1]
        if ca != cb:
            fails.append({"name": "C11.transpose(class %s vs %s)" % (ca, cb), "indices": [g[0], g[1]]})
            continue
        if ca != "ok":
            continue
        if not G.close_lists(G.TAU_SPEC[fmt] * 256, transpose_cells(va, n1, n2, m), vb):
            fails.append({"name": "C11.transpose", "indices": [g[0], g[1]]})
    return fails


def search(rng, ops, broken):
    return cases(rng, "quick")


# tie theorems (substrings of SLV.Gen.*Tie theorem names) this property's operators depend on
TIE = ['inverse', 'gen_mbr', 'merge', 'product', 'max_uncertainty', 'Simplex_vacuous', 'is_vacuous', 'is_dogmatic', 'normalize_prob_dist', 'Simplex_normalized', 'OpinionRef_projection', 'Simplex_projection', 'gen_is_in_range_eq', 'gen_in_unit_interval_eq', 'gen_is_one_eq', 'gen_is_zero_eq', 'gen_check_unit_interval_eq', 'gen_check_is_one_eq']
