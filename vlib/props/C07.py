"""C07 — fusion obeys its algebraic laws, so evidence can be folded in any order."""
import itertools
from fractions import Fraction as Fr
from .. import gen as G
from .common import TRUSTED, ASSUMPTIONS, default_nontrivial, LEVEL_NOTE, TECHNIQUE

LEVEL = "proof"
THEOREMS = ['C07_comm_simplex', 'C07_comm_base_rate_unconditional', 'C07_comm', 'C07_comm_shared', 'C07_idem_avg', 'C07_idem_wgh', 'C07_vacuous_neutral', 'C07_acm_u_le_min', 'C07_avg_u_between', 'C07_wgh_u_between', 'C07_acm_assoc', 'C07_fold_perm', 'C07_tree_perm', 'C07_fold_grouping', 'C07_fold_assign']
RULE = ("fuse on operand pairs run in both orders (cross-case: commutativity; the two orders' fused base rates must be EQUAL bit for bit, the "
        "simplexes within the spec tolerance), incl. a stream of pairs whose base rates differ by less than ulps_eq! resolves -- a small entry "
        "(2^-8..2^-20 in f32, down to 2^-45 in f64, outside the (0,eps] band) differing by eps/4..eps absolutely, i.e. by up to 6 % of the entry, "
        "or an ordinary entry differing by 1..4 ulps; all four operators, ECm three times as often, grid simplexes and simplexes with a small "
        "uncertainty and a small mass --, self-fusion (idempotence), vacuous partners (neutrality), "
        "uncertainty bounds; fuse_fold on sequences of 2..6 non-dogmatic opinions sharing a base rate under all permutations (<=720, "
        "sampled 24 per sequence in quick) and the right-nested grouping, by value / fuse_assign / OpinionRef rhs; n=2..4; families "
        "A/M/D/N; f32+f64. non-trivial = value returned")
EXHAUSTIVE = {}
nontrivial = default_nontrivial
CROSS_GROUPS = [0]
LEVEL_TEXT = ("Theorems over the exact model: all four operators commutative on any two well-formed operands (the fused base rate for ALL "
              "operands of the model, finite or not); Avg/Wgh idempotent; ACm/Wgh return the other operand "
              "unchanged for a vacuous partner; uncertainty bounds; ACm associative for non-dogmatic operands sharing a base rate, hence "
              "List.Perm-invariance of folds of any length. The implementation is run in both operand orders and under all permutations "
              "and groupings of folds; results must agree with each other within a few ulps and with the exact canonical-order fold.")


def perms_sample(rng, k, limit):
    allp = list(itertools.permutations(range(k)))
    if len(allp) <= limit:
        return allp
    return [tuple(range(k))] + rng.sample(allp[1:], limit - 1)


def _exact(fmt, x):
    """x (a Fraction) is a value of format fmt"""
    return Fr(G.round_fmt(fmt, float(x))) == x


def close_base_rates(rng, fmt, n):
    """Two base-rate distributions over n states, each summing to exactly 1 in `fmt`, that differ in entry i0 (and, to compensate, in
    the largest other entry) by an amount `ulps_eq!` with default arguments does not see:
      mode "abs":  entry i0 is small -- m/16 * 2^-k, m = 16..31, k = 8..20 (f32) / 8..45 (f64): above eps, outside the (0, eps] band of
                   is_zero -- and the two operands' entries differ by eps/4, eps/2 or eps ABSOLUTELY, which is up to 6 % of the entry;
      mode "ulps": entry i0 has an ordinary magnitude (grid 1/8 .. 1/64) and the operands' entries differ by 1..4 ulps.
    Returns (a_left, a_right, mode, i0) as Fractions, or None when no exact pair was found."""
    e = Fr(1, 2 ** (23 if fmt == "f32" else 52))
    for _ in range(50):
        mode = rng.choice(["abs", "abs", "abs", "ulps"])
        i0 = rng.randrange(n)
        rest = [i for i in range(n) if i != i0]
        if not rest:
            return None
        if mode == "abs":
            hi = 20 if fmt == "f32" else 45
            k = rng.randint(hi - 3, hi) if rng.random() < 0.5 else rng.randint(8, hi)     # half of them: eps is per cents of the entry
            s = Fr(rng.randint(16, 31), 16) / 2 ** k
            d = e / rng.choice([1, 1, 2, 4])
        else:
            s = Fr(rng.randint(1, 7), rng.choice([8, 16, 64]))
            d = Fr(G.step(fmt, float(s), rng.randint(1, 4))) - s
        if rng.random() < 0.5:
            d = -d
        # the remaining mass 1 - s on a coarse grid over the other entries, the difference d taken from the largest of them
        c = G.composition(rng, 8, len(rest))
        if max(c) == 0:
            continue
        a1 = [Fr(0)] * n
        a1[i0] = s
        for j, cj in zip(rest, c):
            a1[j] = (1 - s) * Fr(cj, 8)
        big = max(rest, key=lambda j: a1[j])
        a2 = list(a1)
        a2[i0] = s + d
        a2[big] = a1[big] - d
        if a2[big] < 0 or a2[i0] <= e or a1[i0] <= e:
            continue
        if all(_exact(fmt, x) for x in a1 + a2) and sum(a1) == 1 and sum(a2) == 1 and a1[i0] != a2[i0] \
                and abs(a1[i0] - a2[i0]) <= (e if mode == "abs" else 4 * e):
            return (a1, a2, mode, i0) if rng.random() < 0.5 else (a2, a1, mode, i0)
    return None


def skew_simplex(rng, fmt, n, den, i0, s0):
    """a simplex on the grid 1/den, or one with a small uncertainty and a small mass (the operands on which epistemic fusion's
    maximisation divides a small projection by a small base rate): u = m/16 * 2^-j, one mass m'/16 * 2^-k -- half of the time the
    mass of state i0 and of the magnitude of s0 (the base-rate entry of that state), so that the state decides the maximal
    uncertainty --, the rest exact"""
    if rng.random() < 0.5:
        return G.rand_simplex(rng, n, den, rng.choice(["int", "int", "int", "any", "vac"]))
    lim = 20 if fmt == "f32" else 40
    for _ in range(20):
        u = Fr(rng.randint(16, 31), 16) / 2 ** rng.randint(2, lim - 6)
        b = [Fr(0)] * n
        if rng.random() < 0.5:
            i = i0
            b[i] = s0 * Fr(rng.randint(2, 14), 16)         # b_i0 / a_i0 below the other states' ratios: state i0 attains the minimum
        else:
            i = rng.randrange(n)
            b[i] = Fr(rng.randint(16, 31), 16) / 2 ** rng.randint(6, lim)
        j = (i + 1 + rng.randrange(n - 1)) % n if n > 1 else i
        b[j] = b[j] + 1 - u - sum(b)
        if min(b) >= 0 and all(_exact(fmt, x) for x in b + [u]) and sum(b) + u == 1:
            return b, u
    return G.rand_simplex(rng, n, den, "int")


def targeted_simplex(rng, fmt, n, i0, s0):
    """a simplex whose state i0 carries a mass of 0, 1/4, 1/2 or 3/4 of the binade of s0 (the base-rate entry of that state) and whose other
    mass sits on one other state: b_i0 / a_i0 is below the other states' ratios, so state i0 decides ECm's maximal uncertainty"""
    top = Fr(1)
    while top > s0:
        top /= 2
    for _ in range(20):
        u = Fr(rng.randint(1, 7), 8) if rng.random() < 0.6 else Fr(rng.randint(16, 31), 16) / 2 ** rng.randint(2, 12)
        b = [Fr(0)] * n
        b[i0] = top * Fr(rng.randint(0, 3), 4)
        j = (i0 + 1 + rng.randrange(n - 1)) % n
        b[j] = 1 - u - b[i0]
        if min(b) >= 0 and all(_exact(fmt, x) for x in b + [u]):
            return b, u
    return None


def close_pair(rng, fmt):
    """(n, op, w1, w2): two well-formed operands (exact in fmt) whose base rates differ by less than `ulps_eq!` with default arguments
    resolves (`close_base_rates`); all four operators, ECm three times as often and then mostly on simplexes that let the state with
    the close entries decide the maximal uncertainty.  None when no exact pair was found."""
    n = rng.choice([2, 2, 3, 4])
    pr = close_base_rates(rng, fmt, n)
    if pr is None:
        return None
    a1, a2, _mode, i0 = pr
    den = rng.choice([4, 8, 16, 64])
    b1, u1 = skew_simplex(rng, fmt, n, den, i0, a1[i0])
    b2, u2 = skew_simplex(rng, fmt, n, den, i0, a2[i0])
    op = rng.choice([1, 1, 1, 0, 2, 3])
    if op == 1 and rng.random() < 0.6:
        t1, t2 = targeted_simplex(rng, fmt, n, i0, a1[i0]), targeted_simplex(rng, fmt, n, i0, a2[i0])
        if t1 and t2:
            (b1, u1), (b2, u2) = t1, t2
    return n, op, b1 + [u1] + a1, b2 + [u2] + a2


def close_pair_lines(rng, fmt, count):
    """`fuse` cases on `close_pair` operands, one operand order each (streams of C02 / C03)"""
    out = []
    for _ in range(count):
        cp = close_pair(rng, fmt)
        if cp is None:
            continue
        n, op, w1, w2 = cp
        var = rng.choice(G.FAMS_1D) + rng.choice([".o", ".r", ".o.asg", ".r.asg"])
        out.append(G.line("fuse", fmt, var, [n, op, 0], w1 + w2))
    return out


def cases(rng, tier):
    CROSS_GROUPS[0] = 0
    out = []
    for fmt in ("f64", "f32"):
        N = 800 if tier == "quick" else 20000
        # base rates that differ by less than `ulps_eq!` resolves (at most eps absolutely on small entries: per cents of the entry;
        # 1..4 ulps at ordinary magnitudes), both operand orders in one group, all four operators with emphasis on ECm: the two orders'
        # base rates must be EQUAL, bit for bit (kind "commx")
        for _ in range(N // 2):
            cp = close_pair(rng, fmt)
            if cp is None:
                continue
            n, op, w1, w2 = cp
            fam = rng.choice(G.FAMS_1D)
            gid = CROSS_GROUPS[0]; CROSS_GROUPS[0] += 1
            var = fam + rng.choice([".o", ".r", ".o.asg"])
            out.append((G.line("fuse", fmt, var, [n, op, 0], w1 + w2), ("commx", gid, 0, n)))
            out.append((G.line("fuse", fmt, var, [n, op, 0], w2 + w1), ("commx", gid, 1, n)))
        for _ in range(N):
            n = rng.choice([2, 3, 4])
            den = rng.choice([4, 8, 16, 64])
            op = rng.randint(0, 3)
            k1 = rng.choice(["int", "int", "any", "vac", "dog"])
            w1 = G.rand_opinion(rng, n, den, k1)
            r = rng.random()
            if r < 0.2:
                w2 = list(w1)
            elif r < 0.4:
                w2 = G.rand_opinion(rng, n, den, "vac")
            else:
                w2 = G.rand_opinion(rng, n, den, rng.choice(["int", "any", "dog"]))
            if rng.random() < 0.4:
                w2 = w2[:n + 1] + w1[n + 1:]
            fam = rng.choice(G.FAMS_1D)
            gid = CROSS_GROUPS[0]; CROSS_GROUPS[0] += 1
            var = fam + rng.choice([".o", ".r", ".o.asg"])
            out.append((G.line("fuse", fmt, var, [n, op, 0], w1 + w2), ("comm", gid, 0, n)))
            out.append((G.line("fuse", fmt, var, [n, op, 0], w2 + w1), ("comm", gid, 1, n)))
        # simplex-only fusion (by value and in place), both orders: the in-place entry points have their own forwarding code
        for _ in range(N // 4):
            n = rng.choice([1, 2, 3, 4])
            den = rng.choice([4, 8, 16, 64])
            op = rng.choice([0, 2, 2, 3])
            b1, u1 = G.rand_simplex(rng, n, den, rng.choice(["int", "int", "any", "vac", "dog"]))
            b2, u2 = G.rand_simplex(rng, n, den, rng.choice(["int", "int", "any", "vac", "dog"]))
            fam = rng.choice(G.FAMS_1D)
            gid = CROSS_GROUPS[0]; CROSS_GROUPS[0] += 1
            var = fam + rng.choice([".o", ".o.asg", ".o.asg"])
            out.append((G.line("fuse_ss", fmt, var, [n, op], b1 + [u1] + b2 + [u2]), ("comm", gid, 0, n)))
            out.append((G.line("fuse_ss", fmt, var, [n, op], b2 + [u2] + b1 + [u1]), ("comm", gid, 1, n)))
        # aliased operands: the very same object passed twice (self-fusion by reference), and folds that repeat one object
        for _ in range(N // 8):
            n = rng.choice([2, 3, 4])
            den = rng.choice([4, 8, 16, 64])
            w = G.rand_opinion(rng, n, den, rng.choice(["int", "int", "any", "dog", "vac"]))
            fam = rng.choice(G.FAMS_1D)
            op = rng.randint(0, 3)
            if rng.random() < 0.5:
                out.append(G.line("fuse", fmt, fam + "." + rng.choice(["o", "r"]) + ".alias", [n, op, 0], w + w))
            else:
                k = rng.choice([2, 3, 4])
                wi = G.rand_opinion(rng, n, den, "int")
                out.append(G.line("fuse_fold", fmt, fam + ".o.alias", [n, 0, k, rng.choice([0, 1, 2, 3])] + list(range(k)), wi * k))
        M = 25 if tier == "quick" else 300
        for _ in range(M):
            n = rng.choice([2, 3, 4])
            k = rng.choice([2, 3, 4, 5, 6] if tier == "thorough" else [2, 3, 4, 5])
            den = rng.choice([8, 16, 64])
            a = G.rand_dist(rng, n, den)
            ws = []
            for _ in range(k):
                b, u = G.rand_simplex(rng, n, den, "int")
                ws += b + [u] + a
            fam = rng.choice(G.FAMS_1D)
            gid = CROSS_GROUPS[0]; CROSS_GROUPS[0] += 1
            lim = 24 if tier == "quick" else 720
            for j, p in enumerate(perms_sample(rng, k, lim)):
                style = rng.choice([0, 1, 2, 3])
                var = fam + ".o" + (".shared" if style == 0 and rng.random() < 0.3 else "")
                out.append((G.line("fuse_fold", fmt, var, [n, 0, k, style] + list(p), ws), ("fold", gid, j, n)))
        # near-dogmatic, non-dyadic operands over a shared base rate: the fused uncertainty is a quotient of products of small numbers
        # and has to be carried with RELATIVE accuracy -- an error of one ulp of 1 on u ~ 50 eps misweights the next step of the
        # fold by per cents (seeded C07_r4A: `normalized` returning u = 1 - sum(b/s)).  u_i in [16, 4096] eps and at most three
        # operands keep every partial result clear of the dogmatic band (0, eps].
        for _ in range(M * 2):
            n = rng.choice([2, 3])
            k = 3
            a = G.float_dist(rng, fmt, n)
            ws = []
            for _ in range(k):
                u = G.round_fmt(fmt, G.EPS[fmt] * rng.uniform(16, 4096))
                xs = [0.05 + rng.random() for _ in range(n)]
                sx = sum(xs)
                b = [G.round_fmt(fmt, x / sx * (1.0 - u)) for x in xs]
                ws += b + [u] + a
            fam = rng.choice(G.FAMS_1D)
            gid = CROSS_GROUPS[0]; CROSS_GROUPS[0] += 1
            for j, p in enumerate(perms_sample(rng, k, 6)):
                style = rng.choice([0, 1, 2, 3])
                out.append((G.line("fuse_fold", fmt, fam + ".o", [n, 0, k, style] + list(p), ws), ("fold", gid, j, n)))
    return out


def cross(res):
    fails = []
    groups = {}
    for i, r in enumerate(res):
        mt = r.get("meta")
        if mt:
            groups.setdefault((mt[0], mt[1]), []).append(i)
    for (kind, gid), idx in groups.items():
        vals = []
        for i in idx:
            cls, v, _ = G.impl_values(res[i])
            if cls == "ok":
                vals.append((i, v))
        if len(vals) < 2:
            continue
        fmt = res[idx[0]]["case"].split(" ")[1]
        tol = G.TAU_SPEC[fmt] * (1 if kind in ("comm", "commx") else 8)
        ref = vals[0][1]
        for i, v in vals[1:]:
            ok = G.close_lists(tol, ref, v)
            if ok and kind in ("comm", "commx") and res[i]["case"].startswith("fuse "):
                # the fused BASE RATE of the two orders must be the same value, exactly: every arm of compute_base_rate is symmetric in
                # the operands up to the order of the operands of one IEEE `+` (theorem C07_comm_base_rate_unconditional)
                n = res[i]["meta"][3]
                ok = len(v) >= 2 * n + 1 and ref[n + 1:2 * n + 1] == v[n + 1:2 * n + 1]
            if not ok:
                fails.append({"name": "C07.commutative" if kind in ("comm", "commx") else "C07.fold_order_independent(impl-vs-impl)",
                              "indices": [vals[0][0], i]})
                break
    return fails


def search(rng, ops, broken):
    return cases(rng, "quick")


# tie theorems (substrings of SLV.Gen.*Tie theorem names) this property's operators depend on
TIE = ['compute_simlex', 'compute_base_rate', 'gen_fuse', 'fuseSimplex', 'fuseSS', 'fuse_assign', 'max_uncertainty', 'uncertainty_maximized', 'Simplex_vacuous', 'is_vacuous', 'is_dogmatic', 'normalize_prob_dist', 'Simplex_normalized', 'OpinionRef_projection', 'Simplex_projection', 'gen_is_in_range_eq', 'gen_in_unit_interval_eq', 'gen_is_one_eq', 'gen_is_zero_eq', 'gen_check_unit_interval_eq', 'gen_check_is_one_eq']
