"""C07 — fusion obeys its algebraic laws, so evidence can be folded in any order."""
import itertools
from fractions import Fraction as Fr
from .. import gen as G
from .common import TRUSTED, ASSUMPTIONS, default_nontrivial, LEVEL_NOTE, TECHNIQUE

LEVEL = "proof"
THEOREMS = ['C07_comm_simplex', 'C07_comm', 'C07_comm_shared', 'C07_idem_avg', 'C07_idem_wgh', 'C07_vacuous_neutral', 'C07_acm_u_le_min', 'C07_avg_u_between', 'C07_wgh_u_between', 'C07_acm_assoc', 'C07_fold_perm', 'C07_tree_perm', 'C07_fold_grouping', 'C07_fold_assign']
RULE = ("fuse on operand pairs run in both orders (cross-case: commutativity), self-fusion (idempotence), vacuous partners (neutrality), "
        "uncertainty bounds; fuse_fold on sequences of 2..6 non-dogmatic opinions sharing a base rate under all permutations (<=720, "
        "sampled 24 per sequence in quick) and the right-nested grouping, by value / fuse_assign / OpinionRef rhs; n=2..4; families "
        "A/M/D/N; f32+f64. non-trivial = value returned")
EXHAUSTIVE = {}
nontrivial = default_nontrivial
CROSS_GROUPS = [0]
LEVEL_TEXT = ("Theorems over the exact model: all four operators commutative; Avg/Wgh idempotent; ACm/Wgh return the other operand "
              "unchanged for a vacuous partner; uncertainty bounds; ACm associative for non-dogmatic operands sharing a base rate, hence "
              "List.Perm-invariance of folds of any length. The implementation is run in both operand orders and under all permutations "
              "and groupings of folds; results must agree with each other within a few ulps and with the exact canonical-order fold.")


def perms_sample(rng, k, limit):
    allp = list(itertools.permutations(range(k)))
    if len(allp) <= limit:
        return allp
    return [tuple(range(k))] + rng.sample(allp[1:], limit - 1)


def cases(rng, tier):
    CROSS_GROUPS[0] = 0
    out = []
    for fmt in ("f64", "f32"):
        N = 800 if tier == "quick" else 20000
        for _ in range(N):
            n = rng.choice([2, 3, 4])
            den = rng.choice([4, 8, 16, 64])
            op = rng.randint(0, 3)
            k1 = rng.choice(["int", "int", "any", "vac", "dog"])
            w1 = G.rand_opinion(rng, n, den, k1)
            r = rng.random()
            if r < 0.2:
                w2 = list(w1)
            elif r < 0.4:
                w2 = G.rand_opinion(rng, n, den, "vac")
            else:
                w2 = G.rand_opinion(rng, n, den, rng.choice(["int", "any", "dog"]))
            if rng.random() < 0.4:
                w2 = w2[:n + 1] + w1[n + 1:]
            fam = rng.choice(G.FAMS_1D)
            gid = CROSS_GROUPS[0]; CROSS_GROUPS[0] += 1
            var = fam + rng.choice([".o", ".r", ".o.asg"])
            out.append((G.line("fuse", fmt, var, [n, op, 0], w1 + w2), ("comm", gid, 0, n)))
            out.append((G.line("fuse", fmt, var, [n, op, 0], w2 + w1), ("comm", gid, 1, n)))
        # simplex-only fusion (by value and in place), both orders: the in-place entry points have their own forwarding code
        for _ in range(N // 4):
            n = rng.choice([1, 2, 3, 4])
            den = rng.choice([4, 8, 16, 64])
            op = rng.choice([0, 2, 2, 3])
            b1, u1 = G.rand_simplex(rng, n, den, rng.choice(["int", "int", "any", "vac", "dog"]))
            b2, u2 = G.rand_simplex(rng, n, den, rng.choice(["int", "int", "any", "vac", "dog"]))
            fam = rng.choice(G.FAMS_1D)
            gid = CROSS_GROUPS[0]; CROSS_GROUPS[0] += 1
            var = fam + rng.choice([".o", ".o.asg", ".o.asg"])
            out.append((G.line("fuse_ss", fmt, var, [n, op], b1 + [u1] + b2 + [u2]), ("comm", gid, 0, n)))
            out.append((G.line("fuse_ss", fmt, var, [n, op], b2 + [u2] + b1 + [u1]), ("comm", gid, 1, n)))
        # aliased operands: the very same object passed twice (self-fusion by reference), and folds that repeat one object
        for _ in range(N // 8):
            n = rng.choice([2, 3, 4])
            den = rng.choice([4, 8, 16, 64])
            w = G.rand_opinion(rng, n, den, rng.choice(["int", "int", "any", "dog", "vac"]))
            fam = rng.choice(G.FAMS_1D)
            op = rng.randint(0, 3)
            if rng.random() < 0.5:
                out.append(G.line("fuse", fmt, fam + "." + rng.choice(["o", "r"]) + ".alias", [n, op, 0], w + w))
            else:
                k = rng.choice([2, 3, 4])
                wi = G.rand_opinion(rng, n, den, "int")
                out.append(G.line("fuse_fold", fmt, fam + ".o.alias", [n, 0, k, rng.choice([0, 1, 2, 3])] + list(range(k)), wi * k))
        M = 25 if tier == "quick" else 300
        for _ in range(M):
            n = rng.choice([2, 3, 4])
            k = rng.choice([2, 3, 4, 5, 6] if tier == "thorough" else [2, 3, 4, 5])
            den = rng.choice([8, 16, 64])
            a = G.rand_dist(rng, n, den)
            ws = []
            for _ in range(k):
                b, u = G.rand_simplex(rng, n, den, "int")
                ws += b + [u] + a
            fam = rng.choice(G.FAMS_1D)
            gid = CROSS_GROUPS[0]; CROSS_GROUPS[0] += 1
            lim = 24 if tier == "quick" else 720
            for j, p in enumerate(perms_sample(rng, k, lim)):
                style = rng.choice([0, 1, 2, 3])
                var = fam + ".o" + (".shared" if style == 0 and rng.random() < 0.3 else "")
                out.append((G.line("fuse_fold", fmt, var, [n, 0, k, style] + list(p), ws), ("fold", gid, j, n)))
    return out


def cross(res):
    fails = []
    groups = {}
    for i, r in enumerate(res):
        mt = r.get("meta")
        if mt:
            groups.setdefault((mt[0], mt[1]), []).append(i)
    for (kind, gid), idx in groups.items():
        vals = []
        for i in idx:
            cls, v, _ = G.impl_values(res[i])
            if cls == "ok":
                vals.append((i, v))
        if len(vals) < 2:
            continue
        fmt = res[idx[0]]["case"].split(" ")[1]
        tol = G.TAU_SPEC[fmt] * (1 if kind == "comm" else 8)
        ref = vals[0][1]
        for i, v in vals[1:]:
            if not G.close_lists(tol, ref, v):
                fails.append({"name": "C07.commutative" if kind == "comm" else "C07.fold_order_independent(impl-vs-impl)",
                              "indices": [vals[0][0], i]})
                break
    return fails


def search(rng, ops, broken):
    return cases(rng, "quick")


# tie theorems (substrings of SLV.Gen.*Tie theorem names) this property's operators depend on
TIE = ['compute_simlex', 'compute_base_rate', 'gen_fuse', 'fuseSimplex', 'fuseSS', 'fuse_assign', 'max_uncertainty', 'uncertainty_maximized', 'Simplex_vacuous', 'is_vacuous', 'is_dogmatic', 'normalize_prob_dist', 'Simplex_normalized', 'OpinionRef_projection', 'Simplex_projection', 'gen_is_in_range_eq', 'gen_in_unit_interval_eq', 'gen_is_one_eq', 'gen_is_zero_eq', 'gen_check_unit_interval_eq', 'gen_check_is_one_eq']
