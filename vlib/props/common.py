TRUSTED = [
    "Lean 4.33 kernel (lake build); axioms allowed in property theorems: propext, Classical.choice, Quot.sound (audited every run)",
    "hand-written Lean model SLV/Model/*.lean of the Rust operators; tied to /repo's working tree twice: (a) tools/rs2lean.py translates the arithmetic core of src/bi.rs and src/mul.rs to Lean on every run and kernel-checked theorems (SLV.Gen.BiTie/MulTie) show the translation equals the model - trusted: the translator's parser and its naming conventions (accessor bodies are pinned token for token); (b) the sampled correspondence check (Rust harness vs exact model) covers everything, including what the translator does not (constructors' check loops, trait plumbing, products, merge, containers)",
    "theorems are about the exact-rational reading (XQ) of the model: rounding is not modelled; the gap is measured per case against tolerance tau (2^-36 f64, 2^-13 f32)",
    "value-level meaning of approx::ulps_eq (is_zero: |v|<=eps, is_one: 1-2eps<=v<=1+4eps) used by the exact model",
    "Rust harness /verif/harness (calls the real crate in-process, catch_unwind), Lean driver parser, python orchestrator and generators",
    "Lean's compiled Float/Float32 arithmetic = IEEE binary64/binary32 (the bit-level twin is diagnostic only)",
]
ASSUMPTIONS = [
    "correspondence is sampled: domain sizes 1..4 (joint up to 3x3x3), dyadic grids up to 1/64 plus boundary sweeps and arbitrary floats",
    "signed zero is not distinguished by the exact model",
]


def default_nontrivial(r):
    return r.get("icls") == "ok"

LEVEL_NOTE = ("Trusted: Lean kernel (leanchecker re-check in thorough); axioms propext/Classical.choice/Quot.sound only (audited every run); "
              "the hand-written model, tied to /repo on every run by (a) the translation tie for the arithmetic core (rs2lean.py parser and "
              "naming conventions trusted) and (b) the sampled correspondence check (harness + driver + generators trusted); rounding is not "
              "modelled by the general theorems (deviation from the exact model is measured per case and bounded by tau); see DESIGN.md §4.")
TECHNIQUE = ("Lean 4 theorems over an executable model; model tied to the code by a Rust-to-Lean translation checked by rfl-style "
             "theorems plus a differential correspondence check; theorem predicates evaluated on the implementation's outputs")
