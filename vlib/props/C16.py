"""C16 — results do not depend on how operands are stored or passed."""
from fractions import Fraction as Fr
from .. import gen as G
from .common import TRUSTED, ASSUMPTIONS, default_nontrivial, LEVEL_NOTE, TECHNIQUE
from .C08 import table

LEVEL = "proof"
THEOREMS = ['C16_simplex_fuse', 'C16_ecm_simplex_refused', 'C16_bare_simplex', 'C16_ptr_eq_redundant', 'C16_assign', 'C16_fuse_ptr_eq']
RULE = ("each base case (fuse/fuse_os/fuse_ss x 4 operators, proj, umax, discount, mbr, deduce, deduce_with, inverse, abduce_with, prod2, "
        "merge on dyadic operands; prod2 / prod3 also on the SMALL-BASE-RATE stream of C06 restricted to dyadic factors that are exact "
        "in binary32: one base-rate entry 2^-k, k = 8..20, under a heavy mass, uncertainties 2^-j, other factors (nearly) dogmatic, 60% "
        "steered to operands on which a cancelling binary32 evaluation of the joint uncertainty is visibly wrong) is run in every container family {[V;N], MArr1, MArrD1 usize, MArrD1 newtype} x {Opinion, OpinionRef} x "
        "{owned, borrowed tables} x {fuse, fuse_assign} x {f32, f64}; cross-case: all variants of one precision must agree within 4 ulps "
        "(identical bits are counted), f32 vs f64 within single-precision accuracy (64*2^-23; merge excluded as the property says); "
        "fuse_os must equal fuse with the shared left base rate and fuse_ss the belief part; ECm on bare simplexes must be refused; plus a deliberate guard lattice of the fusion overloads (4 operators x {vacuous, dogmatic}^2 operands with independent base rates, value and in-place forms, all families and styles); the relations are also evaluated on the search stream that runs after a broken tie")
EXHAUSTIVE = {}
nontrivial = default_nontrivial
CROSS_GROUPS = [0]
LEVEL_TEXT = ("PARTIAL. The model has one denotation per operator, so storage and passing style do not exist in it; proved model facts: "
              "simplex-with-simplex fusion is the belief part of opinion fusion, fusing with a bare simplex = fusing with the left base "
              "rate shared and leaves it unchanged, equal-valued base rates are returned unchanged without pointer equality, ECm on bare "
              "simplexes is refused, fuse_assign = fuse. The substance is the tie: every operator is executed in every family x style x "
              "precision and all variants are compared with the single model value and with each other. The f32-vs-f64 clause is a "
              "statement about rounding: explored (bounded by measurement), not proved.")


def variants_1d(op, ints, scal, fams=G.FAMS_1D, styles=("o", "r"), extra=("",)):
    out = []
    for fam in fams:
        for st in styles:
            for ex in extra:
                var = fam + "." + st + ("." + ex if ex else "")
                out.append((op, var, ints, scal))
    return out


def base_case(rng):
    den = rng.choice([4, 8, 16])
    op = rng.choice(["fuse", "fuse", "fuse", "fuse_os", "fuse_os", "fuse_os", "fuse_ss", "fuse_ss", "proj", "umax", "discount",
                     "mbr", "deduce", "deduce_with", "inverse", "abduce_with", "prod2", "merge"])
    if op in ("fuse", "fuse_os", "fuse_ss", "proj", "umax", "discount"):
        n = rng.choice([1, 2, 3, 4])
        # the fusion overloads have guard arms for vacuous / dogmatic operands: draw those kinds as often as interior ones
        kinds = ["int", "vac", "dog", "any"] if op.startswith("fuse") else None
        w1 = G.rand_opinion(rng, n, den, rng.choice(kinds) if kinds else G.rand_kind(rng))
        w2 = G.rand_opinion(rng, n, den, rng.choice(kinds) if kinds else G.rand_kind(rng))
        fo = rng.randint(0, 3)
        if op == "fuse" and rng.random() < 0.2:
            # self-fusion: by value with two equal objects, and by reference with the very same object
            vs = variants_1d("fuse", [n, fo, 0], w1 + w1, extra=("", "alias"))
            return vs, ("plain", n)
        if op == "fuse":
            vs = variants_1d("fuse", [n, fo, 0], w1 + w2, extra=("", "asg"))
            # related forms: bare simplex on the right with the left base rate shared
            return vs, ("fuse", n)
        if op == "fuse_os":
            vs = variants_1d("fuse_os", [n, fo], w1 + w2[:n + 1], extra=("", "asg"))
            vs += [("fuse", fam + ".r", [n, fo, 1], w1 + w2[:n + 1] + w1[n + 1:]) for fam in G.FAMS_1D]
            return vs, ("fuse_os", n)
        if op == "fuse_ss":
            fo = rng.choice([0, 1, 2, 3])      # 1 = ECm: must be refused in every form, in place too
            if fo == 1:
                vs = variants_1d("fuse_ss", [n, fo], w1[:n + 1] + w2[:n + 1], styles=("o",), extra=("", "asg"))
                return vs, ("plain", n)
            vs = variants_1d("fuse_ss", [n, fo], w1[:n + 1] + w2[:n + 1], styles=("o",), extra=("", "asg"))
            vs += [("fuse", fam + ".o", [n, fo, 0], w1 + w2[:n + 1] + w1[n + 1:]) for fam in G.FAMS_1D]
            return vs, ("fuse_ss", n)
        if op == "proj":
            return variants_1d("proj", [n], w1, extra=("", "s")), ("plain", n)
        if op == "umax":
            return variants_1d("umax", [n], w1, styles=("o",)), ("plain", n)
        t = Fr(rng.randint(0, den), den)
        return variants_1d("discount", [n], w1 + [t], fams=("M", "D", "N")), ("plain", n)
    if op in ("mbr", "deduce", "deduce_with", "inverse", "abduce_with"):
        n, m = rng.choice([(2, 2), (2, 3), (3, 2), (3, 3), (4, 2)])
        ax, conds = table(rng, n, m, den)
        axp = G.rand_dist(rng, n, den, positive=True)
        ay = G.rand_dist(rng, m, den, positive=True)
        b, u = G.rand_simplex(rng, n, den, G.rand_kind(rng))
        sb, su = G.rand_simplex(rng, m, den, G.rand_kind(rng))
        if op == "mbr":
            return variants_1d("mbr", [n, m], ax + conds), ("plain", n)
        if op == "deduce":
            return variants_1d("deduce", [n, m], b + [u] + ax + conds), ("plain", n)
        if op == "deduce_with":
            return variants_1d("deduce_with", [n, m], b + [u] + ax + conds + ay), ("plain", n)
        if op == "inverse":
            return variants_1d("inverse", [n, m], conds + axp + ay), ("plain", n)
        return variants_1d("abduce_with", [n, m], sb + [su] + ay + conds + axp + ay, extra=("", "s")), ("plain", n)
    if op == "prod2":
        n0, n1 = rng.choice([2, 3]), rng.choice([2, 3])
        w0 = G.rand_opinion(rng, n0, den, G.rand_kind(rng))
        w1 = G.rand_opinion(rng, n1, den, G.rand_kind(rng))
        return variants_1d("prod2", [n0, n1], w0 + w1, fams=("M", "D", "N")), ("plain", 0)
    n1, n2, m = rng.choice([(2, 2, 2), (2, 3, 2), (3, 2, 3)])
    c1 = G.rand_cond(rng, n1, m, den)
    c2 = G.rand_cond(rng, n2, m, den)
    ax1 = G.rand_dist(rng, n1, den, positive=True)
    ax2 = G.rand_dist(rng, n2, den, positive=True)
    ay = G.rand_dist(rng, m, den, positive=True)
    return variants_1d("merge", [n1, n2, m], c1 + c2 + ax1 + ax2 + ay, fams=("A", "D", "N")), ("merge", 0)


def small_rate_case(rng):
    """a product with one small joint base rate on exactly well-formed dyadic factors that are exact in binary32 (hence in both
    precisions): before repair abca806 the binary32 result was rounding noise divided by the small base rate, up to 0.1 away from the
    binary64 one"""
    from fractions import Fraction
    arity = rng.choice([2, 2, 3])
    while True:
        ns, ws = G.small_rate_factors(rng, "f32", arity, hazard=rng.random() < 0.6)
        if all(isinstance(x, Fraction) for w in ws for x in w):
            break
    sc = [x for w in ws for x in w]
    return variants_1d("prod2" if arity == 2 else "prod3", ns, sc, fams=("M", "D", "N")), ("plain", 0)


def cases(rng, tier):
    CROSS_GROUPS[0] = 0
    out = []
    N = 220 if tier == "quick" else 4000
    # guard lattice of the fusion overloads, drawn deliberately (seeded variant C16_r5A: an early return of fuse_assign that is wrong
    # only when BOTH operands are vacuous and carry different base rates): every operator x {vacuous, dogmatic}^2, value and in-place forms
    lattice = []
    for fo in range(4):
        for k1 in ("vac", "dog"):
            for k2 in ("vac", "dog"):
                n = rng.choice([2, 3, 4])
                den = rng.choice([4, 8])
                w1 = G.rand_opinion(rng, n, den, k1)
                w2 = G.rand_opinion(rng, n, den, k2)
                lattice.append((variants_1d("fuse", [n, fo, 0], w1 + w2, extra=("", "asg")), ("fuse", n)))
    for t in range(N + N // 6 + len(lattice)):
        if t >= N + N // 6:
            vs, info = lattice[t - N - N // 6]
        else:
            vs, info = small_rate_case(rng) if t >= N else base_case(rng)
        gid = CROSS_GROUPS[0]; CROSS_GROUPS[0] += 1
        for fmt in ("f64", "f32"):
            for (op, var, ints, scal) in vs:
                out.append((G.line(op, fmt, var, ints, scal), ("stor", gid, fmt, info, op)))
    return out


def cross(res):
    fails = []
    groups = {}
    stats = {"groups": 0, "bit_identical_groups": 0}
    for i, r in enumerate(res):
        mt = r.get("meta")
        if mt:
            groups.setdefault(mt[1], []).append(i)
    for gid, idx in groups.items():
        info = res[idx[0]]["meta"][3]
        per = {"f64": [], "f32": []}
        for i in idx:
            cls, v, fl = G.impl_values(res[i])
            if cls == "unsupported":
                continue
            mt = res[i]["meta"]
            n = info[1]
            # normalise related forms to a comparable value
            if info[0] == "fuse_ss" and mt[4] == "fuse" and cls == "ok":
                v = v[:n + 1]                       # belief part of opinion fusion
            per[mt[2]].append((i, cls, v, fl, res[i]["impl"]))
        stats["groups"] += 1
        ident = True
        for fmt in ("f64", "f32"):
            lst = per[fmt]
            if len(lst) < 2:
                continue
            ref = lst[0]
            for cur in lst[1:]:
                if cur[4] != ref[4]:
                    ident = False
                same = ref[1] == cur[1] and ref[3] == cur[3] and (ref[1] != "ok" or G.close_lists(Fr(G.EPS[fmt]) * 4, ref[2], cur[2]))
                if not same:
                    fails.append({"name": "C16.storage_independent(%s,%s)" % (res[cur[0]]["case"].split(" ")[0], fmt),
                                  "indices": [ref[0], cur[0]]})
                    break
        if ident:
            stats["bit_identical_groups"] += 1
        if info[0] != "merge" and per["f64"] and per["f32"]:
            a, b = per["f64"][0], per["f32"][0]
            if a[1] != b[1] or (a[1] == "ok" and not G.close_lists(Fr(64, 2 ** 23), a[2], b[2])):
                fails.append({"name": "C16.f32_vs_f64", "indices": [a[0], b[0]]})
    CROSS_GROUPS[0] = stats["groups"]
    return fails


def search(rng, ops, broken):
    return cases(rng, "quick")


# tie theorems (substrings of SLV.Gen.*Tie theorem names) this property's operators depend on
TIE = ['compute_simlex', 'compute_base_rate', 'gen_fuse', 'fuseSimplex', 'fuseSS', 'fuse_assign', 'max_uncertainty', 'uncertainty_maximized', 'Simplex_vacuous', 'is_vacuous', 'is_dogmatic', 'normalize_prob_dist', 'Simplex_normalized', 'OpinionRef_projection', 'Simplex_projection', 'discount', 'deduce', 'abduce', 'product', 'merge', 'mbr', 'inverse', 'gen_is_in_range_eq', 'gen_in_unit_interval_eq', 'gen_is_one_eq', 'gen_is_zero_eq', 'gen_check_unit_interval_eq', 'gen_check_is_one_eq', 'OpinionRef_deduce', 'Opinion_deduce']
