"""C15 — renaming the values of a domain only renames the result."""
import itertools
from fractions import Fraction as Fr
from .. import gen as G
from .common import TRUSTED, ASSUMPTIONS, default_nontrivial, LEVEL_NOTE, TECHNIQUE
from .C08 import table

LEVEL = "proof"
THEOREMS = ['C15_projection','C15_maxUncertainty','C15_uncertaintyMaximized','C15_discount','C15_fuse','C15_mbr','C15_deduceOf','C15_deduce','C15_deduceWith','C15_inverse','C15_abduceWith','C15_abduce','C15_product2Raw','C15_product2U','C15_product2L','C15_product3Raw','C15_mergeCond2_ok','C15_mergeCond2_labelled']
RULE = ("fuse, discount, proj, umax, mbr, deduce_with, inverse, abduce_with, prod2, prod3, merge on well-formed dyadic operands (prod2 / "
        "prod3 also on the SMALL-BASE-RATE stream of C06: one base-rate entry 2^-k under a heavy mass, uncertainties 2^-j, other factors "
        "(nearly) dogmatic, 60% steered to operands on which a cancelling evaluation of the joint uncertainty is visibly wrong, and the "
        "recorded f64 witness of repair abca806 under all relabellings); every "
        "case is re-run with the value order of each variable permuted consistently in all operands, for ALL permutations of domains of "
        "size 2..4 in thorough (a sample of 6 per case in quick), independently per variable; asymmetric shapes (|X| != |Y|, 2x3, 3x2) "
        "are mandatory in the mix; the implementation's outputs are un-permuted and compared (cross-case); families A/M/D/N; f32+f64")
EXHAUSTIVE = {}
nontrivial = default_nontrivial
CROSS_GROUPS = [0]
LEVEL_TEXT = ("Theorems: the exact model of every listed operator is equivariant under permutations of each domain (sums, min/max "
              "reductions and guards are permutation-invariant incl. the inf/NaN-skipping semantics; row-major joint domains permute "
              "factor-wise). The implementation is run on the permuted operands for every permutation and the un-permuted results are "
              "compared with each other (<= a few ulps: sums are re-ordered) and with the single exact model value.")


def pS(s, n, p):      # simplex b[n] u
    return [s[p[i]] for i in range(n)] + [s[n]]


def pO(w, n, p):      # opinion b[n] u a[n]
    return [w[p[i]] for i in range(n)] + [w[n]] + [w[n + 1 + p[i]] for i in range(n)]


def pV(v, p):
    return [v[p[i]] for i in range(len(p))]


def pC(c, n, m, px, py):   # table n x (m+1): rows by px, entries by py
    rows = [c[x * (m + 1):(x + 1) * (m + 1)] for x in range(n)]
    out = []
    for i in range(n):
        out += pS(rows[px[i]], m, py)
    return out


def pJ(v, dims, perms):    # joint table flat row-major over dims, permute each axis
    import itertools as it
    out = []
    strides = []
    s = 1
    for d in reversed(dims):
        strides.insert(0, s); s *= d
    for idx in it.product(*[range(d) for d in dims]):
        src = sum(perms[a][idx[a]] * strides[a] for a in range(len(dims)))
        out.append(v[src])
    return out


def perm_choices(rng, n, tier):
    allp = list(itertools.permutations(range(n)))
    if tier == "thorough":
        return allp
    return [allp[0]] + rng.sample(allp[1:], min(len(allp) - 1, 2))


def build(rng, fmt, tier):
    """one base case -> list of (line, meta) for a set of permutations. meta = (op, gid, unperm_fn_key, data)"""
    den = rng.choice([4, 8, 16])
    op = rng.choice(["fuse", "discount", "proj", "umax", "mbr", "deduce_with", "inverse", "abduce_with", "prod2", "prod3", "merge"])
    fam = rng.choice(G.FAMS_1D)
    gid = CROSS_GROUPS[0]; CROSS_GROUPS[0] += 1
    out = []
    if op in ("fuse", "discount", "proj", "umax"):
        n = rng.choice([2, 3, 4])
        w1 = G.rand_opinion(rng, n, den, G.rand_kind(rng))
        w2 = G.rand_opinion(rng, n, den, G.rand_kind(rng))
        fo = rng.randint(0, 3)
        t = Fr(rng.randint(0, den), den)
        if op == "discount" and fam == "A":
            fam = "M"
        for p in perm_choices(rng, n, tier):
            if op == "fuse":
                ln = G.line("fuse", fmt, fam + ".o", [n, fo, 0], pO(w1, n, p) + pO(w2, n, p)); kind = "O"
            elif op == "discount":
                ln = G.line("discount", fmt, fam + ".o", [n], pO(w1, n, p) + [t]); kind = "O"
            elif op == "proj":
                ln = G.line("proj", fmt, fam + ".o", [n], pO(w1, n, p)); kind = "V"
            else:
                ln = G.line("umax", fmt, fam + ".o", [n], pO(w1, n, p)); kind = "S"
            out.append((ln, ("perm", gid, kind, (n, p))))
        return out
    if op in ("mbr", "deduce_with", "inverse", "abduce_with"):
        n, m = rng.choice([(2, 3), (3, 2), (2, 2), (3, 3), (4, 2), (4, 3)])
        ax, conds = table(rng, n, m, den)
        axp = G.rand_dist(rng, n, den, positive=True)
        ay = G.rand_dist(rng, m, den, positive=True)
        b, u = G.rand_simplex(rng, n, den, G.rand_kind(rng))
        sb, su = G.rand_simplex(rng, m, den, G.rand_kind(rng))
        px_all = perm_choices(rng, n, tier)
        py_all = perm_choices(rng, m, tier)
        combos = [(px, py) for px in px_all for py in py_all]
        if tier != "thorough":
            combos = combos[:1] + rng.sample(combos[1:], min(5, len(combos) - 1))
        for px, py in combos:
            if op == "mbr":
                ln = G.line("mbr", fmt, fam + ".o", [n, m], pV(ax, px) + pC(conds, n, m, px, py)); meta = ("V", (m, py))
            elif op == "deduce_with":
                ln = G.line("deduce_with", fmt, fam + ".o", [n, m], pO(b + [u] + ax, n, px) + pC(conds, n, m, px, py) + pV(ay, py))
                meta = ("O", (m, py))
            elif op == "inverse":
                ln = G.line("inverse", fmt, fam + ".o", [n, m], pC(conds, n, m, px, py) + pV(axp, px) + pV(ay, py))
                meta = ("C", (m, n, py, px))
            else:
                ln = G.line("abduce_with", fmt, fam + ".o", [n, m], pS(sb + [su], m, py) + pV(ay, py) + pC(conds, n, m, px, py) + pV(axp, px) + pV(ay, py))
                meta = ("O", (n, px))
            out.append((ln, ("perm", gid) + meta))
        return out
    if op in ("prod2", "prod3"):
        k = 2 if op == "prod2" else 3
        fam = rng.choice(["M", "D", "N"])
        ns = [rng.choice([2, 3]) for _ in range(k)]
        if k == 2 and ns[0] == ns[1] and rng.random() < 0.7:
            ns[1] = 5 - ns[0]
        ws = [G.rand_opinion(rng, n, den, G.rand_kind(rng)) for n in ns]
        plists = [perm_choices(rng, n, tier) for n in ns]
        combos = list(itertools.product(*plists))
        if tier != "thorough":
            combos = combos[:1] + rng.sample(combos[1:], min(5, len(combos) - 1))
        for ps in combos:
            sc = []
            for w, n, p in zip(ws, ns, ps):
                sc += pO(w, n, p)
            out.append((G.line(op, fmt, fam + ".o", ns, sc), ("perm", gid, "J", (ns, ps))))
        return out
    # merge
    n1, n2, m = rng.choice([(2, 3, 2), (3, 2, 3), (2, 2, 3), (2, 3, 3), (3, 2, 2)])
    fam = rng.choice(["A", "D", "N"])
    c1 = G.rand_cond(rng, n1, m, den)
    c2 = G.rand_cond(rng, n2, m, den)
    ax1 = G.rand_dist(rng, n1, den, positive=True)
    ax2 = G.rand_dist(rng, n2, den, positive=True)
    ay = G.rand_dist(rng, m, den, positive=True)
    combos = list(itertools.product(perm_choices(rng, n1, tier), perm_choices(rng, n2, tier), perm_choices(rng, m, tier)))
    if tier != "thorough":
        combos = combos[:1] + rng.sample(combos[1:], min(5, len(combos) - 1))
    for p1, p2, py in combos:
        ln = G.line("merge", fmt, fam + ".o", [n1, n2, m],
                    pC(c1, n1, m, p1, py) + pC(c2, n2, m, p2, py) + pV(ax1, p1) + pV(ax2, p2) + pV(ay, py))
        out.append((ln, ("perm", gid, "M", (n1, n2, m, p1, p2, py))))
    return out


def product_group(op, fmt, fam, ns, ws, combos):
    gid = CROSS_GROUPS[0]; CROSS_GROUPS[0] += 1
    out = []
    for ps in combos:
        sc = []
        for w, n, p in zip(ws, ns, ps):
            sc += pO(w, n, p)
        out.append((G.line(op, fmt, fam + ".o", ns, sc), ("perm", gid, "J", (ns, ps))))
    return out


def build_small(rng, fmt, tier):
    """products with one small joint base rate (G.small_rate_factors), re-run under relabellings of every factor's domain: before
    repair abca806 the noisiest cell won the min, and WHICH cell is noisiest depends on the order of the values"""
    arity = rng.choice([2, 2, 3])
    ns, ws = G.small_rate_factors(rng, fmt, arity, hazard=rng.random() < 0.6)
    combos = list(itertools.product(*[perm_choices(rng, n, tier) for n in ns]))
    if tier != "thorough":
        combos = combos[:1] + rng.sample(combos[1:], min(5, len(combos) - 1))
    return product_group("prod2" if arity == 2 else "prod3", fmt, rng.choice(["M", "D", "N"]), ns, ws, combos)


def witness_groups(fmt):
    out = []
    for wfmt, ns, ws, _ in G.PRODUCT_WITNESSES:
        if wfmt == fmt:
            combos = list(itertools.product(*[list(itertools.permutations(range(n))) for n in ns]))
            for fam in ("M", "D"):
                out += product_group("prod2", fmt, fam, ns, ws, combos)
    return out


def inv(p):
    q = [0] * len(p)
    for i, v in enumerate(p):
        q[v] = i
    return q


def unpermute(kind, data, v):
    """map implementation output on permuted operands back to the canonical labelling"""
    if kind == "V":
        n, p = data
        return pV(v, inv(p))
    if kind == "S":
        n, p = data
        return pS(v, n, inv(p))
    if kind == "O":
        n, p = data
        return pO(v, n, inv(p))
    if kind == "C":     # table over Y (rows) of simplex over X
        rows, cols, prow, pcol = data
        return pC(v, rows, cols, inv(prow), inv(pcol))
    if kind == "J":
        ns, ps = data
        N = 1
        for n in ns:
            N *= n
        ips = [inv(p) for p in ps]
        return pJ(v[:N], ns, ips) + [v[N]] + pJ(v[N + 1:], ns, ips)
    if kind == "M":
        n1, n2, m, p1, p2, py = data
        w = m + 1
        cells = [v[k * w:(k + 1) * w] for k in range(n1 * n2)]
        ip1, ip2, ipy = inv(p1), inv(p2), inv(py)
        out = []
        for i in range(n1):
            for j in range(n2):
                cell = cells[ip1[i] * n2 + ip2[j]]
                out += pS(cell, m, ipy)
        return out
    raise ValueError(kind)


def cases(rng, tier):
    CROSS_GROUPS[0] = 0
    out = []
    for fmt in ("f64", "f32"):
        N = 250 if tier == "quick" else 1500
        out += witness_groups(fmt)
        for _ in range(N // 5):
            out += build_small(rng, fmt, tier)
        for _ in range(N):
            out += build(rng, fmt, tier)
    return out


def cross(res):
    fails = []
    groups = {}
    for i, r in enumerate(res):
        mt = r.get("meta")
        if mt:
            groups.setdefault(mt[1], []).append(i)
    for gid, idx in groups.items():
        ref = None
        for i in idx:
            mt = res[i]["meta"]
            cls, v, flags = G.impl_values(res[i])
            if cls != "ok":
                cur = (cls, None)
            else:
                try:
                    cur = (cls, unpermute(mt[2], mt[3], v))
                except IndexError:
                    fails.append({"name": "C15.shape", "indices": [i]}); break
            if ref is None:
                ref = (i, cur)
                continue
            fmt = res[i]["case"].split(" ")[1]
            ok = ref[1][0] == cur[0] and (cur[1] is None or G.close_lists(G.TAU_SPEC[fmt] * 64, ref[1][1], cur[1]))
            if not ok:
                fails.append({"name": "C15.permutation_equivariance(%s)" % res[i]["case"].split(" ")[0], "indices": [ref[0], i]})
                break
    return fails


def search(rng, ops, broken):
    return cases(rng, "quick")


# tie theorems (substrings of SLV.Gen.*Tie theorem names) this property's operators depend on
TIE = ['compute_simlex', 'compute_base_rate', 'gen_fuse', 'discount', 'projection', 'max_uncertainty', 'uncertainty_maximized', 'gen_mbr', 'deduce_of', 'inverse', 'abduce', 'product', 'merge', 'normalize', 'Simplex_normalized', 'projections', 'gen_is_in_range_eq', 'gen_in_unit_interval_eq', 'gen_is_one_eq', 'gen_is_zero_eq', 'gen_check_unit_interval_eq', 'gen_check_is_one_eq']
