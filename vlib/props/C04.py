"""C04 — deduction is well-formed and obeys the law of total probability."""
from .. import gen as G
from .common import TRUSTED, ASSUMPTIONS, default_nontrivial, LEVEL_NOTE, TECHNIQUE
from .C08 import table

LEVEL = "proof"
THEOREMS = ["C04_refines", "C04_wf", "C04_total_probability", "C04_base_rate", "C04_mixture_form", "C04_apex",
            "C04_absolute", "C04_vacuous_antecedent", "C04_masses_nonneg_gen", "C04_masses_nonneg_fin", "C04_deduce_masses_nonneg_gen"]
EXTRA_MODULES = [("SLV.Props.OracleSpec", ("OS_pyhx", "OS_bmin", "OS_apexU", "OS_deduce", "OS_totalProb", "OS_mbr", "OS_allVac", "OS_projQ"))]
RULE = ("deduce / deduce_with / deduce2 on well-formed antecedents (zero base rates, vacuous, dogmatic, absolute) x conditional "
        "tables (vacuous/dogmatic/mixed, zero entries in the fallback base rate), |X| 2..4, 2-D antecedents 2x2,2x3,3x2,3x3, |Y| 2..3; "
        "dyadic grids; families A/M/D/N, OpinionRef/&Opinion, owned/borrowed tables; f32+f64. Variant token `shared`: the table "
        "holds its conditionals BY REFERENCE ([&Simplex;N], MArr1/MArrD1/MArr2/MArrD2 of &Simplex) and entries with equal values are "
        "ONE object; stream with |X| 3..4 (and 2x2, 2x3, 3x2) where the first conditional (or another one) is repeated at later "
        "positions next to at least one different entry, antecedents absolute on each x / vacuous / dogmatic / interior; the harness "
        "runs the by-value table next to it and the oracle additionally requires bit-equal answers. Variant token `acc` (added with repair "
        "9ec2d8b): the harness appends whether Opinion::try_new accepts (clones of) the returned values; required (clause "
        "C04.result_accepted_by_constructor) whenever antecedent, conditionals and fallback base rate are EXACTLY well-formed as "
        "rationals; the harness' domain sizes (|Y| <= 3, |X| <= 4 resp. 3x3) are far below the sizes (9+ cells) at which the validators' "
        "own re-summation residue could leave the 4-ulp band. Streams: zero-biased small grids (denominators 4, 8, 16; |X|, |Y| in 2..3; "
        "random supports, so many zero masses and zero base-rate entries; absolute / vacuous / uncertain antecedents), 2500 per precision "
        "in the quick tier, and the replay list gen/corpus/clamp_hot.txt (inputs on which the un-repaired crate returned an opinion its own "
        "constructor rejects, collected by tools/scan/clamp_scan.py). non-trivial = value returned")
EXHAUSTIVE = {}
nontrivial = default_nontrivial
LEVEL_TEXT = ("Theorems for every |X|,|Y| and all rational well-formed inputs (zero base rates allowed): the model's deduce_of equals an "
              "explicit closed form, is well-formed, carries the given base rate, satisfies P(y)=sum_x P(x)P(y|x), is the belief-weighted "
              "mixture plus u_X times the most uncertain apex opinion (maximality proved), and reduces to the conditional for an absolute "
              "antecedent. Tied to Deduction::deduce/deduce_with by the correspondence check; WF, base rate, total probability and the "
              "absolute case are evaluated on the implementation's outputs.")


def shared_case(rng, fmt):
    """by-reference table with shared (aliased) entries: some conditional occurs at several positions, at least one entry differs"""
    den = rng.choice([4, 8, 16])
    m = rng.choice([2, 3])
    two_d = rng.random() < 0.25
    if two_d:
        n0, n1 = rng.choice([(2, 2), (2, 3), (3, 2)])
        n = n0 * n1
    else:
        n = rng.choice([3, 3, 4])
    # distinct conditionals, then a pattern of positions with repeats
    for _ in range(50):
        k = rng.randint(2, n - 1)
        rows = [G.rand_cond(rng, 1, m, den, [rng.choice(["int", "int", "dog", "any", "vac"])]) for _ in range(k)]
        if len({tuple(r) for r in rows}) == k and not all(r[m] == 1 for r in rows):
            break
    z = rng.random()
    while True:
        if z < 0.6:
            # the FIRST conditional again at a later position
            pat = [0] + [rng.randrange(k) for _ in range(n - 1)]
            if 0 not in pat[1:]:
                pat[rng.randrange(1, n)] = 0
        else:
            pat = [rng.randrange(k) for _ in range(n)]
        if len(set(pat)) >= 2 and any(pat.count(q) >= 2 for q in pat):
            break
    conds = sum((rows[p] for p in pat), [])
    ax = G.rand_dist(rng, n, den, positive=rng.random() < 0.7)
    kind = rng.choice(["abs", "abs", "vac", "dog", "int", "any"])
    b, u = G.rand_simplex(rng, n, den, "dog" if kind == "abs" else kind)
    if kind == "abs":
        b = [G.Fr(0)] * n; b[rng.randrange(n)] = G.Fr(1)
    ay = G.rand_dist(rng, m, den)
    st = rng.choice(["o", "r"])
    if two_d:
        return G.line("deduce2", fmt, rng.choice(["M", "D", "N"]) + "." + st + ".shared", [n0, n1, m], b + [u] + ax + conds + ay)
    fam = rng.choice(G.FAMS_1D)
    if rng.random() < 0.6:
        return G.line("deduce_with", fmt, fam + "." + st + ".shared", [n, m], b + [u] + ax + conds + ay)
    return G.line("deduce", fmt, fam + "." + st + ".shared", [n, m], b + [u] + ax + conds)


# ---- acceptance by the crate's own checked constructors (variant token `acc`, added with repair 9ec2d8b): before it a belief
# mass whose exact value is 0 came out as a rounding residue down to -2.5 eps and `Opinion::try_new` rejected the returned opinion.
# The residue needs a result mass that is exactly 0 (the antecedent's vacuous part sits on the boundary of the sub-simplex of the
# conditionals): zeros in the operands make that far more likely.

def zb_simplex(rng, n, den, kind=None):
    """zero-biased (b[n], u) on the grid 1/den: a random support, then a composition with positive parts on it.
    kind: None (any), 'vac', 'abs' (all mass on one value), 'dog' (u = 0), 'unc' (u > 0)"""
    if kind == "vac":
        return [G.Fr(0)] * n, G.Fr(1)
    if kind == "abs":
        b = [G.Fr(0)] * n
        b[rng.randrange(n)] = G.Fr(1)
        return b, G.Fr(0)
    for _ in range(100):
        supp = [i for i in range(n + 1) if rng.random() < 0.55]
        if kind == "dog":
            supp = [i for i in supp if i != n]
        if kind == "unc" and n not in supp:
            supp.append(n)
        if supp and len(supp) <= den:
            break
    else:
        supp = [0]
    c = G.composition(rng, den - len(supp), len(supp))
    v = [G.Fr(0)] * (n + 1)
    for i, k in zip(supp, c):
        v[i] = G.Fr(k + 1, den)
    return v[:n], v[n]


def zb_dist(rng, n, den, positive=False):
    """zero-biased distribution on the grid 1/den (positive: no zero entry)"""
    if positive:
        return G.rand_dist(rng, n, den, positive=True)
    for _ in range(100):
        supp = [i for i in range(n) if rng.random() < 0.6]
        if supp and len(supp) <= den:
            break
    else:
        supp = [0]
    c = G.composition(rng, den - len(supp), len(supp))
    v = [G.Fr(0)] * n
    for i, k in zip(supp, c):
        v[i] = G.Fr(k + 1, den)
    return v


def zb_cond(rng, n, m, den):
    out = []
    for _x in range(n):
        b, u = zb_simplex(rng, m, den, rng.choice([None, None, None, "unc", "dog", "vac"]))
        out += b + [u]
    return out


def acc_case(rng, fmt):
    """deduce / deduce_with with the `acc` token on a zero-biased small grid (denominators 4, 8, 16; |X|, |Y| in 2..3).
    Half of the cases are built so that a result mass is likely to be EXACTLY zero: the result is
    b(y) = sum_x b_X(x) b(y|x) + u_X (P(y||a_X) - a_Y(y) u^) and the bracket equals min_x b(y|x) at the value y that attains the apex
    uncertainty u^; so for a chosen y0 every conditional that carries antecedent belief gets b(y0|x) = 0 (and at least one does),
    with an uncertain antecedent.  `deduce` (marginal base rate, typically thirds / fifths: not dyadic) is where the float residue
    of that exact zero appears."""
    den = rng.choice([4, 4, 8, 8, 16])
    n, m = rng.choice([2, 3, 3]), rng.choice([2, 3])
    var = rng.choice(G.FAMS_1D) + "." + rng.choice(["o", "r"]) + ".acc"
    if rng.random() < 0.5:
        y0 = rng.randrange(m)
        b, u = zb_simplex(rng, n, den, rng.choice(["unc", "unc", "unc", "vac"]))
        ax = zb_dist(rng, n, den)
        conds = []
        forced = rng.randrange(n)
        for x in range(n):
            for _ in range(50):
                cb, cu = zb_simplex(rng, m, den, rng.choice([None, None, "unc", "unc", "dog"]))
                if not (b[x] > 0 or x == forced or rng.random() < 0.5) or cb[y0] == 0:
                    break
            else:
                cb, cu = [G.Fr(0)] * m, G.Fr(1)
            conds += cb + [cu]
        if rng.random() < 0.2:
            ay = zb_dist(rng, m, den, positive=rng.random() < 0.5)
            return G.line("deduce_with", fmt, var, [n, m], b + [u] + ax + conds + ay)
        return G.line("deduce", fmt, var, [n, m], b + [u] + ax + conds)
    b, u = zb_simplex(rng, n, den, rng.choice([None, None, "unc", "unc", "vac", "abs"]))
    ax = zb_dist(rng, n, den)
    conds = zb_cond(rng, n, m, den)
    if rng.random() < 0.35:
        ay = zb_dist(rng, m, den, positive=rng.random() < 0.5)
        return G.line("deduce_with", fmt, var, [n, m], b + [u] + ax + conds + ay)
    return G.line("deduce", fmt, var, [n, m], b + [u] + ax + conds)


_HOT = None


def hot_cases(fmt, ops):
    """the operand tuples (gen/corpus/clamp_hot.txt) on which deduce / deduce_with / inverse / abduce / abduce_with returned a value
    that the crate's own checked constructor rejected BEFORE repair 9ec2d8b, collected by tools/scan/clamp_scan.py: whole small dyadic
    grids (denominators 4 / 8 / 16) enumerated or sampled against a harness built on the un-repaired crate.  The failure needs a result
    mass that is exactly zero AND a non-dyadic intermediate (the marginal base rate, a Bayes quotient); its rate on such grids is
    3e-6 .. 2e-4 per call, so only the enumerated hits give the quick tier teeth against a regression."""
    global _HOT
    if _HOT is None:
        _HOT = []
        import os
        fp = os.path.join(os.path.dirname(os.path.dirname(os.path.dirname(os.path.abspath(__file__)))), "gen", "corpus", "clamp_hot.txt")
        if os.path.exists(fp):
            with open(fp) as fh:
                _HOT = [ln.strip() for ln in fh if ln.strip() and not ln.startswith("#")]
    return [c for c in _HOT if c.split(" ")[1] == fmt and c.split(" ")[0] in ops]


def cases(rng, tier):
    out = []
    for fmt in ("f64", "f32"):
        out += hot_cases(fmt, ("deduce", "deduce_with"))
        for _ in range(2500 if tier == "quick" else 60000):
            out.append(acc_case(rng, fmt))
    for fmt in ("f64", "f32"):
        N = 1200 if tier == "quick" else 40000
        for _ in range(N // 3):
            out.append(shared_case(rng, fmt))
        for _ in range(N):
            den = rng.choice([4, 8, 16])
            r = rng.random()
            m = rng.choice([2, 3])
            if r < 0.25:
                n0, n1 = rng.choice([(2, 2), (2, 3), (3, 2), (3, 3)])
                n = n0 * n1
                ax, conds = table(rng, n, m, den)
                kind = rng.choice(["int", "int", "vac", "dog", "abs"])
                b, u = G.rand_simplex(rng, n, den, "dog" if kind == "abs" else kind)
                if kind == "abs":
                    b = [G.Fr(0)] * n; b[rng.randrange(n)] = G.Fr(1)
                ay = G.rand_dist(rng, m, den)
                fam = rng.choice(["M", "D", "N"])
                out.append(G.line("deduce2", fmt, fam + "." + rng.choice(["o", "r"]), [n0, n1, m], b + [u] + ax + conds + ay))
                continue
            n = rng.choice([2, 3, 4])
            ax, conds = table(rng, n, m, den)
            bden = den
            if r > 0.88:
                # a column of tiny (equal) belief masses: the marginal base rate of that y is tiny but positive
                t = rng.choice(G.TINY[fmt])
                y0 = rng.randrange(m)
                conds = []
                for x in range(n):
                    bb, uu = G.rand_simplex(rng, m, den, "int")
                    bb = [float(v) for v in bb]; uu = float(uu)
                    uu = G.round_fmt(fmt, uu + bb[y0] - t); bb[y0] = t
                    conds += bb + [uu]
                ax = G.rand_dist(rng, n, den, positive=True)
            elif r > 0.8:
                # non-dyadic rationals (thirds, fifths, tenths): results on the simplex boundary up to rounding
                bden = rng.choice([3, 5, 10, 6])
                ax = [float(v) for v in G.rand_dist(rng, n, bden, positive=True)]
                conds = [float(v) for v in G.rand_cond(rng, n, m, bden, [rng.choice(["dog", "int", "any"]) for _ in range(n)])]
            kind = rng.choice(["int", "int", "any", "vac", "dog", "abs"])
            b, u = G.rand_simplex(rng, n, bden, "dog" if kind == "abs" else kind)
            if kind == "abs":
                b = [G.Fr(0)] * n; b[rng.randrange(n)] = G.Fr(1)
            fam = rng.choice(G.FAMS_1D)
            st = rng.choice(["o", "r"])
            if r < 0.7:
                ay = G.rand_dist(rng, m, den)
                out.append(G.line("deduce_with", fmt, fam + "." + st, [n, m], b + [u] + ax + conds + ay))
            else:
                out.append(G.line("deduce", fmt, fam + "." + st, [n, m], b + [u] + ax + conds))
    return out


def search(rng, ops, broken):
    """only runs when a proof obligation or the correspondence broke: besides a fresh quick batch, a large batch of `deduce` on
    non-dyadic rationals (thirds, fifths, tenths, quarters at 3x3), where results sit on the simplex boundary up to rounding"""
    out = cases(rng, "quick")
    for _ in range(120000):
        fmt = rng.choice(["f32", "f32", "f64"])
        n, m = rng.choice([(2, 2), (3, 3), (3, 3), (2, 3), (3, 2)])
        q = rng.choice([3, 3, 5, 10, 4])
        ax = [float(v) for v in G.rand_dist(rng, n, q, positive=True)]
        conds = [float(v) for v in G.rand_cond(rng, n, m, q, [rng.choice(["dog", "dog", "int", "any"]) for _ in range(n)])]
        b, u = G.rand_simplex(rng, n, q, rng.choice(["int", "any", "dog", "vac"]))
        out.append(G.line("deduce", fmt, rng.choice(["A", "M", "D"]) + "." + rng.choice(["o", "r"]), [n, m], b + [u] + ax + conds))
    return out


# tie theorems (substrings of SLV.Gen.*Tie theorem names) this property's operators depend on
TIE = ['deduce_of', 'projections', 'gen_deduce_eq_mul', 'Deduction', 'gen_mbr', 'Simplex_vacuous', 'is_vacuous', 'is_dogmatic', 'normalize_prob_dist', 'Simplex_normalized', 'OpinionRef_projection', 'Simplex_projection', 'gen_is_in_range_eq', 'gen_in_unit_interval_eq', 'gen_is_one_eq', 'gen_is_zero_eq', 'gen_check_unit_interval_eq', 'gen_check_is_one_eq', 'OpinionRef_deduce', 'Opinion_deduce']
