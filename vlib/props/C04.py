"""C04 — deduction is well-formed and obeys the law of total probability."""
from .. import gen as G
from .common import TRUSTED, ASSUMPTIONS, default_nontrivial, LEVEL_NOTE, TECHNIQUE
from .C08 import table

LEVEL = "proof"
THEOREMS = ["C04_refines", "C04_wf", "C04_total_probability", "C04_base_rate", "C04_mixture_form", "C04_apex",
            "C04_absolute", "C04_vacuous_antecedent"]
EXTRA_MODULES = [("SLV.Props.OracleSpec", ("OS_pyhx", "OS_bmin", "OS_apexU", "OS_deduce", "OS_totalProb", "OS_mbr", "OS_allVac", "OS_projQ"))]
RULE = ("deduce / deduce_with / deduce2 on well-formed antecedents (zero base rates, vacuous, dogmatic, absolute) x conditional "
        "tables (vacuous/dogmatic/mixed, zero entries in the fallback base rate), |X| 2..4, 2-D antecedents 2x2,2x3,3x2,3x3, |Y| 2..3; "
        "dyadic grids; families A/M/D/N, OpinionRef/&Opinion, owned/borrowed tables; f32+f64. Variant token `shared`: the table "
        "holds its conditionals BY REFERENCE ([&Simplex;N], MArr1/MArrD1/MArr2/MArrD2 of &Simplex) and entries with equal values are "
        "ONE object; stream with |X| 3..4 (and 2x2, 2x3, 3x2) where the first conditional (or another one) is repeated at later "
        "positions next to at least one different entry, antecedents absolute on each x / vacuous / dogmatic / interior; the harness "
        "runs the by-value table next to it and the oracle additionally requires bit-equal answers. non-trivial = value returned")
EXHAUSTIVE = {}
nontrivial = default_nontrivial
LEVEL_TEXT = ("Theorems for every |X|,|Y| and all rational well-formed inputs (zero base rates allowed): the model's deduce_of equals an "
              "explicit closed form, is well-formed, carries the given base rate, satisfies P(y)=sum_x P(x)P(y|x), is the belief-weighted "
              "mixture plus u_X times the most uncertain apex opinion (maximality proved), and reduces to the conditional for an absolute "
              "antecedent. Tied to Deduction::deduce/deduce_with by the correspondence check; WF, base rate, total probability and the "
              "absolute case are evaluated on the implementation's outputs.")


def shared_case(rng, fmt):
    """by-reference table with shared (aliased) entries: some conditional occurs at several positions, at least one entry differs"""
    den = rng.choice([4, 8, 16])
    m = rng.choice([2, 3])
    two_d = rng.random() < 0.25
    if two_d:
        n0, n1 = rng.choice([(2, 2), (2, 3), (3, 2)])
        n = n0 * n1
    else:
        n = rng.choice([3, 3, 4])
    # distinct conditionals, then a pattern of positions with repeats
    for _ in range(50):
        k = rng.randint(2, n - 1)
        rows = [G.rand_cond(rng, 1, m, den, [rng.choice(["int", "int", "dog", "any", "vac"])]) for _ in range(k)]
        if len({tuple(r) for r in rows}) == k and not all(r[m] == 1 for r in rows):
            break
    z = rng.random()
    while True:
        if z < 0.6:
            # the FIRST conditional again at a later position
            pat = [0] + [rng.randrange(k) for _ in range(n - 1)]
            if 0 not in pat[1:]:
                pat[rng.randrange(1, n)] = 0
        else:
            pat = [rng.randrange(k) for _ in range(n)]
        if len(set(pat)) >= 2 and any(pat.count(q) >= 2 for q in pat):
            break
    conds = sum((rows[p] for p in pat), [])
    ax = G.rand_dist(rng, n, den, positive=rng.random() < 0.7)
    kind = rng.choice(["abs", "abs", "vac", "dog", "int", "any"])
    b, u = G.rand_simplex(rng, n, den, "dog" if kind == "abs" else kind)
    if kind == "abs":
        b = [G.Fr(0)] * n; b[rng.randrange(n)] = G.Fr(1)
    ay = G.rand_dist(rng, m, den)
    st = rng.choice(["o", "r"])
    if two_d:
        return G.line("deduce2", fmt, rng.choice(["M", "D", "N"]) + "." + st + ".shared", [n0, n1, m], b + [u] + ax + conds + ay)
    fam = rng.choice(G.FAMS_1D)
    if rng.random() < 0.6:
        return G.line("deduce_with", fmt, fam + "." + st + ".shared", [n, m], b + [u] + ax + conds + ay)
    return G.line("deduce", fmt, fam + "." + st + ".shared", [n, m], b + [u] + ax + conds)


def cases(rng, tier):
    out = []
    for fmt in ("f64", "f32"):
        N = 1200 if tier == "quick" else 40000
        for _ in range(N // 3):
            out.append(shared_case(rng, fmt))
        for _ in range(N):
            den = rng.choice([4, 8, 16])
            r = rng.random()
            m = rng.choice([2, 3])
            if r < 0.25:
                n0, n1 = rng.choice([(2, 2), (2, 3), (3, 2), (3, 3)])
                n = n0 * n1
                ax, conds = table(rng, n, m, den)
                kind = rng.choice(["int", "int", "vac", "dog", "abs"])
                b, u = G.rand_simplex(rng, n, den, "dog" if kind == "abs" else kind)
                if kind == "abs":
                    b = [G.Fr(0)] * n; b[rng.randrange(n)] = G.Fr(1)
                ay = G.rand_dist(rng, m, den)
                fam = rng.choice(["M", "D", "N"])
                out.append(G.line("deduce2", fmt, fam + "." + rng.choice(["o", "r"]), [n0, n1, m], b + [u] + ax + conds + ay))
                continue
            n = rng.choice([2, 3, 4])
            ax, conds = table(rng, n, m, den)
            bden = den
            if r > 0.88:
                # a column of tiny (equal) belief masses: the marginal base rate of that y is tiny but positive
                t = rng.choice(G.TINY[fmt])
                y0 = rng.randrange(m)
                conds = []
                for x in range(n):
                    bb, uu = G.rand_simplex(rng, m, den, "int")
                    bb = [float(v) for v in bb]; uu = float(uu)
                    uu = G.round_fmt(fmt, uu + bb[y0] - t); bb[y0] = t
                    conds += bb + [uu]
                ax = G.rand_dist(rng, n, den, positive=True)
            elif r > 0.8:
                # non-dyadic rationals (thirds, fifths, tenths): results on the simplex boundary up to rounding
                bden = rng.choice([3, 5, 10, 6])
                ax = [float(v) for v in G.rand_dist(rng, n, bden, positive=True)]
                conds = [float(v) for v in G.rand_cond(rng, n, m, bden, [rng.choice(["dog", "int", "any"]) for _ in range(n)])]
            kind = rng.choice(["int", "int", "any", "vac", "dog", "abs"])
            b, u = G.rand_simplex(rng, n, bden, "dog" if kind == "abs" else kind)
            if kind == "abs":
                b = [G.Fr(0)] * n; b[rng.randrange(n)] = G.Fr(1)
            fam = rng.choice(G.FAMS_1D)
            st = rng.choice(["o", "r"])
            if r < 0.7:
                ay = G.rand_dist(rng, m, den)
                out.append(G.line("deduce_with", fmt, fam + "." + st, [n, m], b + [u] + ax + conds + ay))
            else:
                out.append(G.line("deduce", fmt, fam + "." + st, [n, m], b + [u] + ax + conds))
    return out


def search(rng, ops, broken):
    """only runs when a proof obligation or the correspondence broke: besides a fresh quick batch, a large batch of `deduce` on
    non-dyadic rationals (thirds, fifths, tenths, quarters at 3x3), where results sit on the simplex boundary up to rounding"""
    out = cases(rng, "quick")
    for _ in range(120000):
        fmt = rng.choice(["f32", "f32", "f64"])
        n, m = rng.choice([(2, 2), (3, 3), (3, 3), (2, 3), (3, 2)])
        q = rng.choice([3, 3, 5, 10, 4])
        ax = [float(v) for v in G.rand_dist(rng, n, q, positive=True)]
        conds = [float(v) for v in G.rand_cond(rng, n, m, q, [rng.choice(["dog", "dog", "int", "any"]) for _ in range(n)])]
        b, u = G.rand_simplex(rng, n, q, rng.choice(["int", "any", "dog", "vac"]))
        out.append(G.line("deduce", fmt, rng.choice(["A", "M", "D"]) + "." + rng.choice(["o", "r"]), [n, m], b + [u] + ax + conds))
    return out


# tie theorems (substrings of SLV.Gen.*Tie theorem names) this property's operators depend on
TIE = ['deduce_of', 'projections', 'gen_deduce_eq_mul', 'Deduction', 'gen_mbr', 'Simplex_vacuous', 'is_vacuous', 'is_dogmatic', 'normalize_prob_dist', 'Simplex_normalized', 'OpinionRef_projection', 'Simplex_projection', 'gen_is_in_range_eq', 'gen_in_unit_interval_eq', 'gen_is_one_eq', 'gen_is_zero_eq', 'gen_check_unit_interval_eq', 'gen_check_is_one_eq', 'OpinionRef_deduce', 'Opinion_deduce']
