"""C17 — multi-arrays store, iterate and index the same cells in the same order."""
from .. import arrgen as A
from .common import TRUSTED as _T, ASSUMPTIONS as _A, default_nontrivial, LEVEL_NOTE, TECHNIQUE  # noqa: F401

LEVEL = "proof"
HBIN = "/verif/harness_arr/target/release/slarr"
DRIVER = "/verif/lean/.lake/build/bin/slvarr"
THEOREMS = ["C17_index", "C17_index_labelled", "C17_oob_refused", "C17_write_frame", "C17_write_frame_labelled",
            "C17_from_iter", "C17_from_iter_labelled", "C17_from_fn", "C17_from_fn_labelled",
            "C17_iter_complete", "C17_iter_complete_labelled", "C17_iter_mut", "C17_ragged_observation",
            "C17_iter_with", "C17_iter_with_labelled", "C17_down", "C17_clone_eq",
            "C17_conv_asref_zeros_default", "C17_product", "C17_try_from_first_error", "C17_labelled_shape",
            "C17_programs", "C17_programs_defined"]
RULE = ("array programs (build from fn / flat / nested, get, set via index_mut, iter_mut, down/down_mut, clone, ==, swap, "
        "conv, as_ref, zeros/default, product2/3(_iter), try_from with failing cells, iter / iter_with / index dumps, "
        "indexes/keys) on every shape with each dimension in 0..3 (quick) / 0..4 (thorough), ranks 1..3, unlabelled + "
        "labelled(usize) + labelled(newtype): 3 hand-written programs per shape and random programs (out-of-shape "
        "indices, short/long iterators, wrong nested counts included); after every step the harness dumps the array by "
        "shared iteration (+2 next() after the end) and by indexing; compared with the nested Lean model (correspondence) "
        "and with the flat row-major specification (oracle). non-trivial = the implementation produced an observation line")
EXHAUSTIVE = {}
nontrivial = default_nontrivial


def cases(rng, tier):
    maxdim = 3 if tier == "quick" else 4
    per = 20 if tier == "quick" else 150
    out = []
    for dims in A.shapes(maxdim):
        for v in A.VARIANTS:
            out += A.fixed_programs(v, dims)
            for _ in range(per):
                out.append(A.rand_program(rng, v, dims))
    return out


def search(rng, ops, broken):
    return cases(rng, "thorough")


TRUSTED = [
    _T[0],
    "hand-written Lean model SLV/Model/MArr.lean + MArrProg.lean (nested Vec storage, Iter/IterMut state machines, "
    "constructors with their panics as `none`); tied to /repo's working tree by the sampled correspondence check "
    "(Rust harness vs model, identical observation trace after every step), not by translation",
    "a mutable reference yielded by iter_mut is modelled by the storage address of its cell; a shared reference by the value",
    "itertools::iproduct! is third-party code: modelled as nested flatMap, tied on all shapes, not verified",
    "Rust harness /verif/harness_arr (real crate in-process, const-generic shapes and one domain type per size, "
    "catch_unwind per step), Lean driver MainArr.lean, python orchestrator and generators",
]
ASSUMPTIONS = [
    "correspondence is sampled: random programs over every shape with dimensions 0..3 (quick) / 0..4 (thorough); cell type u64 "
    "(arithmetic mod 2^64), fallible cell conversion = even numbers only",
    "unlabelled MArr1::from_iter does not check its length (the property claims shape safety for labelled constructors only): "
    "programs that build ragged unlabelled storage are compared with the model but leave the flat specification (oracle stops)",
]
LEVEL_TEXT = ("Kernel-checked refinement of the nested model (both families, ranks 1..3, every shape and cell content) to a flat "
              "row-major list: from_fn stores f(k) at k, from_iter / nested construction fill row-major (with the exact panic "
              "conditions), index = cell at the row-major position, out-of-shape indices are refused, a write changes exactly one "
              "position, the Iter / IterMut state machines yield every cell once in order and are fused (under the shape "
              "invariant, which every labelled constructor establishes), iter_with pairs lexList with the cells, down / down_mut "
              "are slices, clone / == / conv / as_ref / zeros / products / try_from (first error wins) preserve contents and "
              "order; lifted by induction over the op list to EVERY program of the harness' op language (C17_programs: nested "
              "model trace = flat specification trace). The model is tied to the code by executing random and hand-written "
              "programs on the real types for every shape with a dump after every step; the flat specification is also "
              "evaluated directly against the implementation's observations.")


LEVEL_NOTE = ("Trusted: Lean kernel (leanchecker re-check in thorough); axioms propext/Classical.choice/Quot.sound only (audited every run); "
              "the hand-written model of the array types (SLV/Model/MArr*.lean: nested Vec storage, MultiRange odometer, Iter/IterMut state "
              "machines, constructors with panics as none) tied to /repo by the array-program correspondence check (harness_arr runs the "
              "real types for every shape/family/index kind and the Lean driver compares observation traces token by token); itertools' "
              "iproduct! and Vec are modelled, not verified; no translation tie for this part.")
TECHNIQUE = ("Lean 4 refinement theorems (nested model = flat-vector spec for every program; odometer = lexicographic product for every "
             "rank and size) + trace-level correspondence check against the Rust types")
