"""C08 — the marginal base rate is a fixed-point distribution or absent, never NaN."""
from .. import gen as G
from .common import TRUSTED, ASSUMPTIONS, default_nontrivial, LEVEL_NOTE, TECHNIQUE

LEVEL = "proof"
THEOREMS = ['C08_lift','C08_some_dist','C08_never_nan','C08_fixed_point','C08_none_iff','C08_none_iff_general','C08_none_iff_no_informative','C08_deduce_none_iff','C08_fallback_lazy','C08_fallback_some','C08_abduce_none_iff']
RULE = ("mbr / deduce / deduce_with / abduce on base rates with zero entries x conditional tables mixing vacuous, dogmatic and "
        "partially informative conditionals (incl. 'informative only where the base rate is zero', 'informative only where the base rate is tiny or subnormal' and all-vacuous); |X| 2..4, "
        "|Y| 2..3; dyadic grids; families A/M/D/N, owned/borrowed tables; f32+f64. non-trivial = distinct case with a value or None")
EXHAUSTIVE = {}
LEVEL_TEXT = ("Theorems over the exact model for all sizes: mbr returns None or a NaN-free distribution satisfying the fixed point "
              "a(y)=sum_x a(x)P(y|x); None iff no conditional carrying belief mass has positive base rate; deduce/abduce return None "
              "exactly then; the deduce_with fallback is forced exactly then. Tied to mul::mbr / Deduction / Abduction by the "
              "correspondence check (the harness passes a flag-setting closure), predicates evaluated on the implementation's outputs.")


def nontrivial(r):
    return r.get("icls") in ("ok", "none")


def table(rng, n, m, den):
    """conditional table + base rate with a deliberate relation between informative rows and zero base rates"""
    mode = rng.choice(["mixed", "mixed", "mixed", "allvac", "info_at_zero", "one_info"])
    ax = G.rand_dist(rng, n, den)
    kinds = []
    if mode == "allvac":
        kinds = ["vac"] * n
    elif mode == "info_at_zero":
        z = rng.randrange(n)
        ax = [G.Fr(0)] * n
        rest = [i for i in range(n) if i != z]
        c = G.composition(rng, den, len(rest))
        for i, k in zip(rest, c):
            ax[i] = G.Fr(k, den)
        if all(a == 0 for a in ax):
            ax[rest[0]] = G.Fr(1)
        kinds = ["vac" if ax[i] > 0 else rng.choice(["int", "dog"]) for i in range(n)]
    elif mode == "one_info":
        kinds = ["vac"] * n
        kinds[rng.randrange(n)] = rng.choice(["int", "dog"])
    else:
        kinds = [G.rand_kind(rng) for _ in range(n)]
    return ax, G.rand_cond(rng, n, m, den, kinds)


def cases(rng, tier):
    out = []
    for fmt in ("f64", "f32"):
        N = 1200 if tier == "quick" else 40000
        for _ in range(N):
            n, m = rng.choice([2, 2, 3, 4]), rng.choice([2, 3])
            den = rng.choice([4, 8, 16])
            ax, conds = table(rng, n, m, den)
            if rng.random() < 0.12:
                # one nearly vacuous (not vacuous by the guard) conditional with a small base rate, all others vacuous:
                # the normaliser is positive but tiny
                conds = []
                for x in range(n):
                    if x == 0:
                        bb, uu = G.edge_simplex(rng, fmt, m, "vac_edge")
                    else:
                        bb, uu = [0.0] * m, 1.0
                    conds += bb + [uu]
                ax = [float(v) for v in G.rand_dist(rng, n, 8, positive=True)]
            elif rng.random() < 0.1:
                # belief-carrying conditionals only at base rates that are positive but tiny, down to the subnormals (the
                # normaliser sum_x a(x)(1-u_x) is then subnormal: reciprocals overflow, products underflow); the other base
                # rates are dyadic and sum to 1 (the tiny entry is absorbed by the float sum)
                z = rng.randrange(n)
                tiny = rng.choice([5e-324, 1e-310, 3e-309, 1e-300, 2.0 ** -200, G.EPS[fmt] ** 2, G.EPS[fmt] / 2] if fmt == "f64"
                                  else [1e-45, 1e-40, 3e-39, 1e-38, 2.0 ** -60, G.EPS[fmt] ** 2, G.EPS[fmt] / 2])
                rest = [i for i in range(n) if i != z]
                c = G.composition(rng, den, len(rest))
                ax = [0.0] * n
                for i, k in zip(rest, c):
                    ax[i] = k / den
                ax[z] = G.round_fmt(fmt, tiny)
                kinds = ["vac"] * n
                kinds[z] = rng.choice(["int", "dog"])
                conds = [float(v) for v in G.rand_cond(rng, n, m, den, kinds)]
            fam = rng.choice(G.FAMS_1D)
            st = rng.choice(["o", "r"])
            r = rng.random()
            if r < 0.35:
                out.append(G.line("mbr", fmt, fam + "." + st, [n, m], ax + conds))
            elif r < 0.55:
                b, u = G.rand_simplex(rng, n, den, G.rand_kind(rng))
                out.append(G.line("deduce", fmt, fam + "." + st, [n, m], b + [u] + ax + conds))
            elif r < 0.8:
                b, u = G.rand_simplex(rng, n, den, G.rand_kind(rng))
                ay = G.rand_dist(rng, m, den, positive=True)
                out.append(G.line("deduce_with", fmt, fam + "." + st, [n, m], b + [u] + ax + conds + ay))
            else:
                sb, su = G.rand_simplex(rng, m, den, G.rand_kind(rng))
                aobs = G.rand_dist(rng, m, den)
                axp = G.rand_dist(rng, n, den, positive=True) if rng.random() < 0.6 else ax
                out.append(G.line("abduce", fmt, fam + "." + rng.choice(["o", "r", "o.s"]), [n, m],
                                  sb + [su] + aobs + conds + axp))
    return out


def search(rng, ops, broken):
    return cases(rng, "quick")


# tie theorems (substrings of SLV.Gen.*Tie theorem names) this property's operators depend on
TIE = ['gen_mbr', 'deduce_of', 'Deduction', 'abduce', 'gen_is_in_range_eq', 'gen_in_unit_interval_eq', 'gen_is_one_eq', 'gen_is_zero_eq', 'gen_check_unit_interval_eq', 'gen_check_is_one_eq', 'OpinionRef_deduce', 'Opinion_deduce']
