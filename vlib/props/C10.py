"""C10 — trust discounting scales belief, raises uncertainty, composes multiplicatively."""
from fractions import Fraction as Fr
from .. import gen as G
from .common import TRUSTED, ASSUMPTIONS, default_nontrivial, LEVEL_NOTE, TECHNIQUE

LEVEL = "proof"
THEOREMS = ["C10_formula", "C10_vacuous_guard", "C10_wf", "C10_projection", "C10_one", "C10_zero", "C10_compose",
            "C10_compose_chain", "C10_compose_within", "C10_trans_unc_ok", "C10_trans_bsr_ok", "C10_trans_unc_eq",
            "C10_trans_bsr_eq", "C10_trans_opp_ok", "C10_trans_panics"]
RULE = ("discount / discount_chain (chains of 1..4) on well-formed opinions and simplexes x t in {0, 1, dyadic, arbitrary}, vacuous and "
        "near-vacuous inputs, n=1..4, families M/D/N, Opinion/OpinionRef/Simplex; discount also over 2-D / 3-D domains (families "
        "M2/M3/D2/D3/N2/N3 = MArr2/MArr3/MArrD2/MArrD3 with usize and newtype indices, shapes 1x2 .. 2x2x3 incl. every asymmetric "
        "one; operands built with `new`, results read cell by cell through the index operator and compared with an independently "
        "built container); btrans_unc, btrans_bsr, btrans_opp on the binomial "
        "grid incl. arguments slightly outside [0,1] (must panic); single discounts by trust levels at and below the zero tolerance (eps/4 .. 3 eps, tiny values) through every receiver form, with the belief formula also read RELATIVELY (clause formula_belief_relative: |b' - t b| <= 4 eps t b for an operand that is not vacuous by the guard); f32+f64. non-trivial = value returned")
EXHAUSTIVE = {}
nontrivial = default_nontrivial
LEVEL_TEXT = ("Theorems for every n and all rational inputs: discount formula, vacuous guard arm, well-formedness, projection "
              "tP+(1-t)a, t=1 / t=0 limits, composition law for chains of any length (exact when no intermediate falls into the vacuity "
              "guard band, within 2*eps otherwise, with a kernel-checked witness that exact composition fails inside the band), binomial "
              "trans_unc/trans_bsr equal the binary multinomial discount, trans_opp formula and well-formedness, and the panics for "
              "out-of-range arguments. Tied to Discount and BOpinion::trans_* by the correspondence check; formulas evaluated on outputs.")


def cases(rng, tier):
    out = []
    for fmt in ("f64", "f32"):
        N = 1200 if tier == "quick" else 40000
        for _ in range(N):
            r = rng.random()
            den = rng.choice([4, 8, 16, 64])
            if r < 0.55:
                n = rng.choice([1, 2, 3, 4])
                kind = rng.choice(["int", "int", "any", "vac", "dog"])
                if rng.random() < 0.12:
                    b, u = G.edge_simplex(rng, fmt, n, "vac_edge")
                    w = b + [u] + [float(x) for x in G.rand_dist(rng, n, den)]
                elif rng.random() < 0.3:
                    # arbitrary floats; non-dyadic base rates whose float sum is 1 only within a few ulps ("unchanged" is bit-exact)
                    if rng.random() < 0.5:
                        b, u = G.float_simplex(rng, fmt, n)
                        b = list(b)
                    else:
                        bb, uu = G.rand_simplex(rng, n, den, kind)
                        b, u = [float(v) for v in bb], float(uu)
                    w = b + [u] + G.float_dist(rng, fmt, n)
                else:
                    w = G.rand_opinion(rng, n, den, kind)
                k = rng.choice([1, 1, 2, 3, 4])
                ts = [rng.choice([Fr(0), Fr(1), Fr(1, 2), Fr(rng.randint(0, den), den), rng.random(),
                                  G.near_one(rng, fmt), rng.choice(G.TINY[fmt]), Fr(1, 64)]) for _ in range(k)]
                fam = rng.choice(["M", "D", "N"])
                var = fam + "." + rng.choice(["o", "r", "o.s"])
                if k == 1 and rng.random() < 0.5:
                    out.append(G.line("discount", fmt, var, [n], w + ts))
                else:
                    out.append(G.line("discount_chain", fmt, var, [n, k], w + ts))
            else:
                x = G.rand_bop(rng, den, rng.choice(["int", "any", "vac", "dog"]))
                e = G.EPS[fmt]
                t = rng.choice([Fr(0), Fr(1), Fr(rng.randint(0, den), den), rng.random(), -e, -3 * e, 1 + 4 * e, 1 + 6 * e, 1.5, -0.25])
                op = rng.choice(["btrans_unc", "btrans_bsr", "btrans_opp"])
                if op == "btrans_opp":
                    tb = Fr(rng.randint(0, den), den)
                    td = Fr(rng.randint(0, den - tb.numerator * (den // tb.denominator) if tb.denominator else den), den) if rng.random() < 0.8 else Fr(rng.randint(0, den), den)
                    out.append(G.line(op, fmt, "B.o", [], x + [tb, td]))
                else:
                    out.append(G.line(op, fmt, "B.o", [], x + [t]))
        for _ in range(N // 10):
            # single discount by a trust level at or below the zero tolerance (positive): every receiver form must still scale the
            # masses (clause formula_belief_relative; seeded variant C10_r5B: is_zero(t) fast path on the owned receiver only)
            n = rng.choice([1, 2, 3, 4])
            den = rng.choice([4, 8, 16])
            w = G.rand_opinion(rng, n, den, rng.choice(["int", "int", "any", "dog"]))
            e = G.EPS[fmt]
            t = rng.choice(list(G.TINY[fmt]) + [e / 2, e, e / 4, 2 * e, 3 * e])
            for st in ("o", "r", "o.s"):
                out.append(G.line("discount", fmt, rng.choice(["M", "D", "N"]) + "." + st, [n], w + [t]))
        for _ in range(N // 3):
            # 2-D / 3-D domains
            fam, sh, n = G.nd_family(rng)
            den = rng.choice([4, 8, 16, 64])
            z = rng.random()
            if z < 0.1:
                b, u = G.edge_simplex(rng, fmt, n, "vac_edge")
                w = b + [u] + [float(x) for x in G.rand_dist(rng, n, den)]
            elif z < 0.3:
                b, u = G.float_simplex(rng, fmt, n)
                w = list(b) + [u] + G.float_dist(rng, fmt, n)
            else:
                w = G.rand_opinion(rng, n, den, rng.choice(["int", "int", "any", "vac", "dog"]))
            t = rng.choice([Fr(0), Fr(1), Fr(1, 2), Fr(rng.randint(0, den), den), rng.random(), G.near_one(rng, fmt), Fr(1, 64)])
            out.append(G.line("discount", fmt, fam + "." + rng.choice(["o", "r", "o.s"]), [n] + sh, w + [t]))
    return out


def search(rng, ops, broken):
    return cases(rng, "quick")


# tie theorems (substrings of SLV.Gen.*Tie theorem names) this property's operators depend on
TIE = ['discount', 'trans_unc', 'trans_opp', 'trans_bsr', 'gen_check_simplex_eq', 'gen_check_base_rate_eq', 'BSimplex_try_new', 'gen_try_new_eq', 'gen_new_eq', 'gen_is_in_range_eq', 'gen_in_unit_interval_eq', 'gen_is_one_eq', 'gen_is_zero_eq', 'gen_check_unit_interval_eq', 'gen_check_is_one_eq']
