"""C20 — equality and approximate equality of opinions are component-wise."""
from fractions import Fraction as Fr
from .. import gen as G
from .common import TRUSTED, ASSUMPTIONS, LEVEL_NOTE, TECHNIQUE

LEVEL = "proof"
THEOREMS = ['C20_bop_iff','C20_single_component','C20_refl','C20_symm','C20_mul_eq_iff','C20_mul_single_cell','C20_beyond_tolerance','C20_absDiffEq_fin','C20_relativeEq_fin','C20_ulpsEq_fin']
RULE = ("bcmpc (the same comparisons plus the scalar impl's answer per component; opinion answer = conjunction, checked exactly: components equal through different branches -- absolute tolerance vs ulps/relative --, tolerances equal to a rounded component difference and its float neighbours, NaN/inf components); bcmp (==, abs_diff_eq, relative_eq, ulps_eq) on pairs of binomial opinions differing in every subset of the four components by "
        "{0, 1 ulp, tol/2, 2*tol, large} x tolerances {0, default, 1e-6, huge} x maxulps {0,1,4}; each pair also reversed (symmetry) and "
        "paired with itself (reflexivity) as cross-case checks; meq on multinomial opinions differing in one cell, sizes 1..4 and 2-D, "
        "families A/M/D/N; bcmpd: the DEFAULT-tolerance forms abs_diff_eq!(x,y), relative_eq!(x,y), ulps_eq!(x,y) and the forms with "
        "only max_relative / max_ulps / epsilon given, opinion answer vs the scalar type's own answers with its own defaults, on pairs whose "
        "components differ by 0, 1..9 ulps, and (f64) amounts between 4 ulps and 1e-7 (between 4 ulps and 1e-3 in f32), at values near 0 "
        "and in [0.5,1]; meq_alias: a multinomial opinion compared with ITSELF (w == w, w.as_ref() == w.as_ref(), OpinionRefs borrowing the "
        "same simplex and base-rate object) with NaN / infinite cells in the belief, the uncertainty or the base rate, all families, "
        "1-D and 2-D: false iff a cell is NaN; f32+f64. non-trivial = distinct case line")
EXHAUSTIVE = {}
CROSS_GROUPS = [0]
LEVEL_TEXT = ("Theorems: each of the four comparisons on BOpinion is the conjunction of the same scalar comparison on b, d, u and a; "
              "reflexive (NaN-free) and symmetric; a single-component difference beyond tolerance makes the opinions unequal; multinomial "
              "== is cell-wise. Tied to the approx trait impls and derived/manual PartialEq by Boolean agreement with the bit-level twin "
              "and the value-level model; component-wise verdicts, symmetry and reflexivity are evaluated on the implementation's answers.")


def nontrivial(r):
    return r.get("icls") == "ok"


def perturb(rng, fmt, v, tol, mode):
    e = G.EPS[fmt]
    if mode == 0:
        return v
    if mode == 1:
        return G.step(fmt, v, rng.choice([1, -1]) if v > 0 else 1)
    if mode == 2:
        return G.round_fmt(fmt, v + (tol if tol > 0 else e) / 2 * rng.choice([1, -1]))
    if mode == 3:
        return G.round_fmt(fmt, v + 2.5 * (tol if tol > 0 else e) * rng.choice([1, -1]))
    return G.round_fmt(fmt, v + rng.choice([0.1, -0.1, 0.3]))


def cases(rng, tier):
    CROSS_GROUPS[0] = 0
    out = []
    for fmt in ("f64", "f32"):
        e = G.EPS[fmt]
        N = 800 if tier == "quick" else 20000
        for _ in range(N):
            x = [float(v) for v in G.rand_bop(rng, rng.choice([8, 16, 64]))]
            if rng.random() < 0.3:
                x = G.float_bop(rng, fmt)
            kind = rng.randint(0, 3)
            tol = rng.choice([0.0, e, 1e-6 if fmt == "f64" else 1e-3, 0.5])
            maxrel = rng.choice([e, 1e-6 if fmt == "f64" else 1e-3, 0.0])
            maxulps = rng.choice([0, 1, 4])
            subset = rng.randint(0, 15)
            y = list(x)
            for i in range(4):
                if subset >> i & 1:
                    y[i] = perturb(rng, fmt, x[i], tol if kind != 0 else 0.0, rng.randint(1, 4))
            gid = CROSS_GROUPS[0]
            CROSS_GROUPS[0] += 1
            ints = [kind, maxulps]
            out.append((G.line("bcmp", fmt, "B.o", ints, x + y + [tol, maxrel]), ("sym", gid, 0)))
            out.append((G.line("bcmp", fmt, "B.o", ints, y + x + [tol, maxrel]), ("sym", gid, 1)))
            out.append((G.line("bcmp", fmt, "B.o", ints, x + x + [tol, maxrel]), ("refl", gid, 2)))
            out.append(G.line("bcmpc", fmt, "B.o", ints, x + y + [tol, maxrel]))
        # the same comparison with the per-component answers of the scalar type's own impl (op bcmpc; checked exactly):
        # (a) components that are equal through DIFFERENT branches of the scalar comparison (one only within the absolute
        #     tolerance -- tiny values, huge ulps distance --, another only within max_ulps / max_relative -- a few ulps apart
        #     at a value in [0.5, 1], beyond the absolute tolerance), and near misses of either kind;
        # (b) a tolerance that equals the rounded difference of a component exactly, or its float neighbours (operands more
        #     than a factor 2 apart, so that the subtraction rounds);  (c) NaN / infinities in single components
        f32 = fmt == "f32"
        for _ in range(N):
            kind = rng.choice([1, 2, 3, 3])
            x = [float(v) for v in G.rand_bop(rng, rng.choice([8, 16, 64]))]
            if rng.random() < 0.5:
                x = G.float_bop(rng, fmt)
            y = list(x)
            z = rng.random()
            tol, maxrel, maxulps = e, e, 4
            if z < 0.55:        # (a)
                tol = rng.choice([e, e / 2, 2 * e, 1e-12 if not f32 else 1e-6, 0.0])
                maxulps = rng.choice([1, 2, 4, 4, 8])
                maxrel = rng.choice([e, 4 * e, 1e-9 if not f32 else 1e-4])
                idx = list(range(4)); rng.shuffle(idx)
                i_abs, i_ulp = idx[0], idx[1]
                # abs-only component: value 0 (or tiny) against a tiny value within (or just beyond) the absolute tolerance
                x[i_abs] = rng.choice([0.0, 0.0, G.round_fmt(fmt, tol * rng.random() / 4)])
                y[i_abs] = G.round_fmt(fmt, x[i_abs] + (tol if tol > 0 else e) * rng.choice([0.05, 0.5, 0.99, 1.0, 1.01, 3.0]))
                # ulps/relative-only component: a value in [0.5, 1) a few ulps away (beyond the absolute tolerance when tol <= e)
                x[i_ulp] = G.round_fmt(fmt, 0.5 + rng.random() * 0.49)
                y[i_ulp] = G.step(fmt, x[i_ulp], rng.choice([1, 2, 3, 4, 5, 8, 9]) * rng.choice([1, -1]))
                if rng.random() < 0.3:
                    j = idx[2]
                    y[j] = perturb(rng, fmt, x[j], tol, rng.randint(0, 4))
            elif z < 0.85:      # (b)
                i = rng.randrange(4)
                x[i] = G.round_fmt(fmt, rng.choice([0.6, 0.8, 0.7, 0.9, 0.55 + 0.4 * rng.random()]))
                y[i] = G.round_fmt(fmt, rng.choice([0.1, 0.05, 0.2, 0.3 * rng.random()]))
                if rng.random() < 0.5:
                    x[i], y[i] = y[i], x[i]
                import struct as _st
                d = abs(x[i] - y[i])
                if f32:
                    d = _st.unpack(">f", _st.pack(">f", d))[0]      # the f32 subtraction (exact in f64, then rounded once)
                tol = G.step(fmt, d, rng.choice([0, 0, 0, 1, -1]))
                maxrel = rng.choice([0.0, e])
                maxulps = rng.choice([0, 4])
            else:               # (c)
                i = rng.randrange(4)
                sp = rng.choice([float("nan"), float("inf"), float("-inf")])
                x[i] = sp
                y[i] = rng.choice([sp, sp, y[i], float("inf")])
                tol = rng.choice([e, 0.5, float("inf")])
            out.append(G.line("bcmpc", fmt, "B.o", [kind, maxulps], x + y + [tol, maxrel]))
            out.append(G.line("bcmpc", fmt, "B.o", [kind, maxulps], y + x + [tol, maxrel]))
        for _ in range(N // 2):
            if rng.random() < 0.7:
                n = rng.choice([1, 2, 3, 4]); ints = [n]
                fam = rng.choice(G.FAMS_1D)
            else:
                n0, n1 = rng.choice([1, 2, 3]), rng.choice([1, 2, 3]); n = n0 * n1; ints = [n0, n1]
                fam = rng.choice(["M", "D", "N"])
            w = [float(v) for v in G.rand_opinion(rng, n, 16)]
            z = list(w)
            if rng.random() < 0.75:
                i = rng.randrange(len(z))
                z[i] = perturb(rng, fmt, z[i], 0.0, rng.choice([1, 1, 4]))
            out.append(G.line("meq", fmt, fam + ".o", ints, w + z))
        # default tolerances (op bcmpd): differences below, at and far above the scalar type's default epsilon / 4 ulps
        for _ in range(N // 2):
            kind = rng.choice([1, 2, 3, 1, 2, 3, 4, 5, 6, 7])
            x = [float(v) for v in G.rand_bop(rng, rng.choice([8, 16, 64]))]
            if rng.random() < 0.5:
                x = G.float_bop(rng, fmt)
            y = list(x)
            hi = 1e-7 if not f32 else 1e-3
            for i in range(4):
                z = rng.random()
                if z < 0.45:
                    continue
                if z < 0.6:
                    y[i] = G.step(fmt, x[i], rng.choice([1, 2, 3, 4, 5, 8, 9]) * (rng.choice([1, -1]) if x[i] > 0 else 1))
                elif z < 0.9:
                    # between 4 ulps of 1 and `hi`, log-uniform
                    import math as _m
                    dlt = _m.exp(rng.uniform(_m.log(5 * e), _m.log(hi)))
                    y[i] = G.round_fmt(fmt, x[i] + dlt * (rng.choice([1, -1]) if x[i] > dlt else 1))
                else:
                    y[i] = perturb(rng, fmt, x[i], e, rng.randint(1, 4))
            t = rng.choice([0.0, e, 4 * e, 1e-9 if not f32 else 1e-5, hi, 0.5])
            maxulps = rng.choice([0, 1, 4, 8, 1000])
            out.append(G.line("bcmpd", fmt, "B.o", [kind, maxulps], x + y + [t]))
            if rng.random() < 0.3:
                out.append(G.line("bcmpd", fmt, "B.o", [kind, maxulps], y + x + [t]))
        # the same object on both sides of == (op meq_alias), with NaN / infinite cells
        for _ in range(N // 4):
            if rng.random() < 0.7:
                n = rng.choice([1, 2, 3, 4]); ints = [n]
                fam = rng.choice(G.FAMS_1D)
            else:
                n0, n1 = rng.choice([1, 2, 3]), rng.choice([1, 2, 3]); n = n0 * n1; ints = [n0, n1]
                fam = rng.choice(["M", "D", "N"])
            w = [float(v) for v in G.rand_opinion(rng, n, 16)]
            z = rng.random()
            if z < 0.75:
                # one special cell: anywhere, or aimed at the belief / the uncertainty / the base rate
                where = rng.choice(["any", "b", "u", "a"])
                i = {"any": rng.randrange(len(w)), "b": rng.randrange(n), "u": n, "a": n + 1 + rng.randrange(n)}[where]
                w[i] = rng.choice([float("nan")] * 4 + [float("inf"), float("-inf")])
                if rng.random() < 0.2:
                    w[rng.randrange(len(w))] = float("nan")
            out.append(G.line("meq_alias", fmt, fam + ".o", ints, w))
    return out


def cross(res):
    fails = []
    groups = {}
    for i, r in enumerate(res):
        mt = r.get("meta")
        if mt:
            groups.setdefault(mt[1], {})[mt[2]] = i
    for gid, g in groups.items():
        if 0 in g and 1 in g:
            fa = G.impl_values(res[g[0]])[2]
            fb = G.impl_values(res[g[1]])[2]
            if fa != fb:
                fails.append({"name": "C20.symmetric", "indices": [g[0], g[1]]})
        if 2 in g:
            cls, _, fl = G.impl_values(res[g[2]])
            if fl != [True]:
                fails.append({"name": "C20.reflexive", "indices": [g[2]]})
    return fails


def search(rng, ops, broken):
    return cases(rng, "quick")


# tie theorems (substrings of SLV.Gen.*Tie theorem names) this property's operators depend on
TIE = ['gen_BOpinion_abs_diff_eq_eq', 'gen_BOpinion_relative_eq_eq', 'gen_BOpinion_ulps_eq_eq', 'gen_eq_']
