"""C06 — opinion product is the well-formed, maximally uncertain independent joint."""
from .. import gen as G
from .common import TRUSTED, ASSUMPTIONS, default_nontrivial, LEVEL_NOTE, TECHNIQUE

LEVEL = "proof"
THEOREMS = ["C06_refines", "C06_wf", "C06_outer", "C06_max_u", "C06_transpose", "C06_vacuous", "C06_dogmatic",
            "C06_unlabelled_accepts", "C06_labelled", "C06_refines3", "C06_wf3",
            "C06_candidate", "C06_candidate3", "C06_uncertainty_nonneg_gen", "C06_uncertainty_nonneg_gen3",
            "C06_clamp_idle", "C06_clamp_idle3", "C06_product_masses_nonneg_gen", "C06_product_masses_nonneg_gen3",
            "C06_product_negative_mass_before", "C06_product_negative_mass_repaired"]
EXTRA_MODULES = [("SLV.Props.OracleSpec", ("OS_outer", "OS_product", "OS_projQ"))]
RULE = ("prod2 / prod3 on pairs/triples of well-formed opinions (zero base rates, vacuous, dogmatic), factor sizes 2..3, dyadic grids "
        "(denominators 4..16), unlabelled (validated) and labelled (normalised) implementations, owned and OpinionRef; each pair also "
        "with factors exchanged (cross-case: transposition); SMALL-BASE-RATE stream: exactly well-formed dyadic factors with one "
        "base-rate entry 2^-k (k = 8..20 in f32, 8..45 in f64; every positive joint base rate stays above machine epsilon) under a "
        "heavy belief mass, uncertainties 2^-j or 0, the other factors dogmatic / nearly dogmatic / ordinary (sometimes with a small "
        "base-rate entry of their own), plus non-dyadic 3-entry factors that are well-formed within the constructors' tolerance "
        "(projection summing to 1 +- 1 ulp) and the recorded witnesses of repair abca806, both families, both arities, pairs also "
        "exchanged; 60% of that stream is steered (rejection sampling against an emulation, in the case's precision, of the cancelling "
        "quotient (P0*P1 - b0*b1)/(a0*a1)) to operands on which that evaluation misses the exact joint uncertainty by more than the "
        "oracle tolerance; VACUOUS-FACTOR stream (repair b817f74: the joint masses p - a*u are clamped at zero): products with at least "
        "one vacuous or nearly vacuous factor (zero belief on its dominant base-rate element) times arbitrary float factors, all three "
        "families, plus the 140 enumerated operand tuples on which the unlabelled products panicked before that repair "
        "(gen/corpus/prodclamp_hot.txt) replayed in every family; STRICT sign clause C06.masses_nonneg on every ok, finite result with "
        "finite operands: every joint belief mass >= 0 exactly (no tolerance; for the labelled families the only clause that sees the "
        "residue of -1.5 .. -4.5 eps), and joint uncertainty >= 0 when all operand scalars are >= 0; f32+f64. non-trivial = value "
        "returned")
EXHAUSTIVE = {}
nontrivial = default_nontrivial
CROSS_GROUPS = [0]
LEVEL_TEXT = ("Theorems for all factor sizes and rational well-formed factors (zero base rates allowed): the raw product equals an "
              "explicit closed form with u = min over cells of positive base rate of (P-B)/A, is well-formed, has outer-product base rate "
              "and projection, is maximal, transposes under exchange of factors, vacuous/dogmatic limits; the unlabelled validation "
              "accepts the exact result and the labelled renormalisation is the identity; same for three factors. The code evaluates "
              "each candidate in the expanded form u0(r1+u1) + r0 u1, r = b/a (three factors likewise; repair abca806): proved equal to "
              "(P-B)/A on every cell of non-zero joint base rate (lifting lemma, no well-formedness needed), and >= 0 for all non-negative "
              "operands whatever their sums (the cancelling form is negative on tolerance-well-formed operands: Pinned witnesses). "
              "Every joint mass is clamped at zero (repair b817f74): idle on well-formed rational operands (the un-clamped text computes "
              "the same opinion), and for ALL operands of the exact semantics (no well-formedness, infinities and NaN included) no joint "
              "mass of either family compares below zero; a remaining b[] rejection of the unlabelled constructor means a NaN, infinite "
              "or > 1+4eps mass (the un-clamped text returns a finite negative mass on tolerance-well-formed rationals, and -1.5 eps on "
              "decimal binary64 operands: kernel-checked float witnesses). "
              "Tied to Product2/3 of "
              "both families by the correspondence check; predicates evaluated on the implementation's outputs.")


def cases(rng, tier):
    CROSS_GROUPS[0] = 0
    out = []
    for fmt in ("f64", "f32"):
        N = 600 if tier == "quick" else 20000
        out += small_rate_cases(rng, fmt, N // 4)
        # products with a vacuous / nearly vacuous factor (repair R14: joint masses clamped at zero): enumerated pre-repair hits in
        # all three container families, and a random stream of the same shape
        out += G.prodclamp_hot(fmt, ("M", "D", "N"))
        for _ in range(N // 2):
            op, ns, ws = G.vacuous_factor_product(rng, fmt)
            out.append(G.line(op, fmt, rng.choice(["M", "D", "N"]) + "." + rng.choice(["o", "r"]), ns, ws))
        for _ in range(N):
            den = rng.choice([4, 8, 16])
            fam = rng.choice(["M", "D", "N"])
            st = rng.choice(["o", "r"])
            if rng.random() < 0.12:
                # arbitrary float operands incl. dogmatic factors with non-dyadic masses and zero base-rate entries:
                # the result must at least be a well-formed opinion (no NaN / inf / negative masses)
                k = rng.choice([2, 2, 3])
                ns = [rng.choice([2, 3]) for _ in range(k)]
                sc = []
                for n in ns:
                    sc += G.float_opinion_kind(rng, fmt, n)
                out.append(G.line("prod2" if k == 2 else "prod3", fmt, rng.choice(["D", "N", "M"]) + "." + st, ns, sc))
                continue
            if rng.random() < 0.65:
                n0, n1 = rng.choice([2, 3]), rng.choice([2, 3])
                w0 = G.rand_opinion(rng, n0, den, G.rand_kind(rng))
                w1 = G.rand_opinion(rng, n1, den, G.rand_kind(rng))
                if rng.random() < 0.15:     # tiny positive base-rate entries: joint base rates below machine epsilon but not zero
                    w0 = G.tiny_opinion(rng, fmt, w0, n0, "a"); w1 = G.tiny_opinion(rng, fmt, w1, n1, "a")
                gid = CROSS_GROUPS[0]; CROSS_GROUPS[0] += 1
                out.append((G.line("prod2", fmt, fam + "." + st, [n0, n1], w0 + w1), ("tr", gid, 0, n0, n1)))
                out.append((G.line("prod2", fmt, fam + "." + st, [n1, n0], w1 + w0), ("tr", gid, 1, n0, n1)))
            else:
                ns = [rng.choice([2, 3]) for _ in range(3)]
                ws = [G.rand_opinion(rng, n, den, G.rand_kind(rng)) for n in ns]
                if rng.random() < 0.15:
                    ws = [G.tiny_opinion(rng, fmt, w, n, "a") for w, n in zip(ws, ns)]
                out.append(G.line("prod3", fmt, fam + "." + st, ns, ws[0] + ws[1] + ws[2]))
    return out


def small_rate_cases(rng, fmt, count):
    """products with one small joint base rate (G.small_rate_factors) and the witnesses of repair abca806; pairs are also run with the
    factors exchanged (transposition cross-check)"""
    out = []
    for wfmt, ns, ws, _ in G.PRODUCT_WITNESSES:
        if wfmt == fmt:
            for fam in ("M", "D", "N"):
                out.append(G.line("prod2", fmt, fam + ".o", ns, ws[0] + ws[1]))
    for _ in range(count):
        arity = rng.choice([2, 2, 3])
        # 60%: draws on which the cancelling evaluation of (P - B)/A in this precision is visibly wrong (G.cancellation_hazard)
        ns, ws = G.small_rate_factors(rng, fmt, arity, hazard=rng.random() < 0.6)
        fam = rng.choice(["M", "M", "D", "N"])
        st = rng.choice(["o", "r"])
        if arity == 2:
            gid = CROSS_GROUPS[0]; CROSS_GROUPS[0] += 1
            out.append((G.line("prod2", fmt, fam + "." + st, ns, ws[0] + ws[1]), ("tr", gid, 0, ns[0], ns[1])))
            out.append((G.line("prod2", fmt, fam + "." + st, [ns[1], ns[0]], ws[1] + ws[0]), ("tr", gid, 1, ns[0], ns[1])))
        else:
            out.append(G.line("prod3", fmt, fam + "." + st, ns, ws[0] + ws[1] + ws[2]))
    return out


def cross(res):
    fails = []
    groups = {}
    for i, r in enumerate(res):
        mt = r.get("meta")
        if mt:
            groups.setdefault(mt[1], {})[mt[2]] = i
    for gid, g in groups.items():
        if 0 not in g or 1 not in g:
            continue
        ra, rb = res[g[0]], res[g[1]]
        n0, n1 = ra["meta"][3], ra["meta"][4]
        ca, va, _ = G.impl_values(ra)
        cb, vb, _ = G.impl_values(rb)
        if ca != "ok" or cb != "ok":
            continue
        N = n0 * n1
        def tr(v):   # n0 x n1 row-major -> n1 x n0
            return [v[i * n1 + j] for j in range(n1) for i in range(n0)]
        fmt = ra["case"].split(" ")[1]
        ta = tr(va[:N]) + [va[N]] + tr(va[N + 1:])
        if not G.close_lists(G.TAU_SPEC[fmt] * 16, ta, vb):
            fails.append({"name": "C06.transpose", "indices": [g[0], g[1]]})
    return fails


def search(rng, ops, broken):
    return cases(rng, "quick")


# tie theorems (substrings of SLV.Gen.*Tie theorem names) this property's operators depend on
TIE = ['product', 'outer', 'Simplex_vacuous', 'is_vacuous', 'is_dogmatic', 'normalize_prob_dist', 'Simplex_normalized', 'OpinionRef_projection', 'Simplex_projection', 'gen_is_in_range_eq', 'gen_in_unit_interval_eq', 'gen_is_one_eq', 'gen_is_zero_eq', 'gen_check_unit_interval_eq', 'gen_check_is_one_eq']
