"""C03 — fusion operators compute the evidence combination they are defined as."""
from .. import gen as G
from .C07 import close_pair_lines
from .common import TRUSTED, ASSUMPTIONS, default_nontrivial, LEVEL_NOTE, TECHNIQUE

LEVEL = "proof"
THEOREMS = ['C03_refines_spec', 'C03_acm_evidence', 'C03_avg_evidence', 'C03_wgh_evidence', 'C03_ecm_def', 'C03_one_dogmatic', 'C03_two_dogmatic', 'C03_two_vacuous', 'C03_base_rates']
RULE = ("fuse / fuse_os / fuse_ss for the 4 operators: guard lattice (vacuous, dogmatic, tolerance-edge vacuous u=1-k*eps/2, "
        "tolerance-edge dogmatic, interior; base rates different / equal / within a few ulps / one shared object), dyadic grids "
        "(exhaustive den 4 for n=2,3 in thorough; random up to 1/64), uncertainty sweeps 1e-300..1e-3 and 1-1e-3..1-2^-52, "
        "arbitrary floats; base rates closer than ulps_eq! resolves (a small entry differing by eps/4..eps absolutely = up to 6 % of the entry, "
        "or an ordinary entry differing by 1..4 ulps; ECm mostly on operands where that state decides the maximal uncertainty, so that a "
        "base rate off by per cents shows in the uncertainty); n=1..4; families A/M/D/N, styles o/r/asg; f32+f64; ECm with base rates whose float sum is 1+k*eps, k=-2..4 "
        "(shared / aliased / equal / different base rates, 1-D and 2-D / 3-D families up to 8 cells, variant token acc). "
        "STRICT sign clause C03.ecm_masses_nonneg (repair 8520ade: uncertainty_maximized clamps the rounding residue of the zero mass): every "
        "ok, finite ECm result of operands whose entries are all >= 0 exactly (u1, u2 <= 1) has masses >= 0 and u in [0, 1] exactly. "
        "non-trivial = value returned, not both operands vacuous")
EXHAUSTIVE = {}
LEVEL_TEXT = ("Theorem: on well-formed rational operands outside the tolerance bands the model's fuse equals the executable evidence-space "
              "specification SLV.Oracle.fuseSpec (Dirichlet evidence added / averaged / confidence-weighted; one dogmatic operand decides; "
              "two dogmatic -> mean; two vacuous -> vacuous; base rates confidence-weighted or averaged; ECm = uncertainty-maximised ACm). "
              "The same specification is evaluated in exact rationals on the inputs of every generated case and compared with the "
              "implementation's output (independent oracle), over the guard lattice, grids and floats.")


def nontrivial(r):
    return r.get("icls") == "ok"


def fuse_case(rng, fmt, n=None, op=None):
    n = n or rng.choice([2, 2, 3, 3, 4, 1])
    op = rng.randint(0, 3) if op is None else op
    b1, u1, _ = G.guard_operand(rng, fmt, n)
    b2, u2, _ = G.guard_operand(rng, fmt, n)
    a1, a2, rel = G.base_rate_pair(rng, fmt, n)
    fam = rng.choice(G.FAMS_1D)
    r = rng.random()
    if r < 0.2:
        return G.line("fuse", fmt, fam + ".r", [n, op, 1], b1 + [u1] + a1 + b2 + [u2] + a1)
    if r < 0.3:
        var = fam + rng.choice([".o", ".r", ".o.asg"])
        return G.line("fuse_os", fmt, var, [n, op], b1 + [u1] + a1 + b2 + [u2])
    var = fam + rng.choice([".o", ".r", ".o.asg", ".r.asg"])
    return G.line("fuse", fmt, var, [n, op, 0], b1 + [u1] + a1 + b2 + [u2] + a2)


def cases(rng, tier):
    out = []
    for fmt in ("f64", "f32"):
        N = 1500 if tier == "quick" else 40000
        for _ in range(N):
            out.append(fuse_case(rng, fmt))
        # dyadic grids
        if tier == "thorough":
            for n in (2, 3):
                sims = G.grid_simplexes(n, 4)
                dists = G.grid_dists(n, 4)
                for op in range(4):
                    for (b1, u1) in sims:
                        for (b2, u2) in sims:
                            a1, a2 = rng.choice(dists), rng.choice(dists)
                            out.append(G.line("fuse", fmt, "A.o", [n, op, 0], b1 + [u1] + a1 + b2 + [u2] + a2))
        for _ in range(N // 2):
            n = rng.choice([2, 3, 4])
            den = rng.choice([4, 8, 16, 64])
            w1 = G.rand_opinion(rng, n, den, G.rand_kind(rng))
            w2 = G.rand_opinion(rng, n, den, G.rand_kind(rng))
            out.append(G.line("fuse", fmt, rng.choice(G.FAMS_1D) + rng.choice([".o", ".r"]), [n, rng.randint(0, 3), 0], w1 + w2))
        for _ in range(N // 4):
            n = rng.choice([2, 3, 4])
            b1, u1 = G.float_simplex(rng, fmt, n)
            b2, u2 = G.float_simplex(rng, fmt, n)
            out.append(G.line("fuse", fmt, rng.choice(G.FAMS_1D) + ".o", [n, rng.randint(0, 3), 0],
                              b1 + [u1] + G.float_dist(rng, fmt, n) + b2 + [u2] + G.float_dist(rng, fmt, n)))
        for _ in range(N // 5):
            # tiny positive base-rate entries (ECm maximisation guards), and both operands at the last subnormals
            n = rng.choice([2, 3, 4])
            den = rng.choice([4, 8, 16])
            if rng.random() < 0.75:
                w1 = G.tiny_opinion(rng, fmt, G.rand_opinion(rng, n, den, rng.choice(["int", "any", "dog"])), n, "a")
                w2 = G.rand_opinion(rng, n, den, rng.choice(["int", "any", "dog"]))
                if rng.random() < 0.5:
                    w2 = G.tiny_opinion(rng, fmt, w2, n, "a")
                opn = rng.choice([0, 1, 1, 1, 2, 3])
            else:
                sub = 2.0 ** -1074 if fmt == "f64" else 2.0 ** -149
                def subn():
                    k = rng.choice([2, 4]) if n >= 4 else 2
                    b = [0.0] * n
                    for j in rng.sample(range(n), min(k, n)):
                        b[j] = 1.0 / min(k, n)
                    return b + [sub * rng.choice([1, 2])] + [float(x) for x in G.rand_dist(rng, n, den)]
                w1, w2 = subn(), subn()
                opn = rng.randint(0, 3)
            out.append(G.line("fuse", fmt, rng.choice(G.FAMS_1D) + rng.choice([".o", ".r", ".o.asg"]), [n, opn, 0], list(w1) + list(w2)))
        # aliased operands: the very same object passed as both operands (self-fusion adds the evidence to itself for the
        # cumulative operators; only reference identity distinguishes this from fusing two equal opinions)
        for _ in range(N // 10):
            n = rng.choice([2, 3, 4])
            w = G.rand_opinion(rng, n, rng.choice([4, 8, 16, 64]), rng.choice(["int", "int", "any", "dog", "vac"]))
            out.append(G.line("fuse", fmt, rng.choice(G.FAMS_1D) + "." + rng.choice(["o", "r"]) + ".alias", [n, rng.randint(0, 3), 0], w + w))
        # base rates closer than `ulps_eq!` resolves: a small entry (outside the (0, eps] band) differing by at most eps absolutely, i.e. by
        # per cents of the entry, or an ordinary entry differing by 1..4 ulps (the per-entry shortcut of compute_base_rate before
        # repairs c0b2ed5 / c8a7116 fired on these); ECm mostly on operands where that state decides the maximal uncertainty
        out += close_pair_lines(rng, fmt, N // 6)
        for _ in range(N // 10):
            n = rng.choice([1, 2, 3])
            b1, u1, _ = G.guard_operand(rng, fmt, n)
            b2, u2, _ = G.guard_operand(rng, fmt, n)
            out.append(G.line("fuse_ss", fmt, rng.choice(G.FAMS_1D) + rng.choice([".o", ".o.asg"]),
                              [n, rng.randint(0, 3)], b1 + [u1] + b2 + [u2]))
    # ECm under base rates whose float sum is 1 + k*eps, k in -2..4 (accepted by the constructors; the maximised simplex is
    # renormalised since repair f029db5), compared with the evidence-space specification like every other case
    for fmt in ("f64", "f32"):
        out += G.band_ecm_cases(rng, fmt, (1500 if tier == "quick" else 40000) // 10)
    return out


def search(rng, ops, broken):
    return cases(rng, "quick")


# tie theorems (substrings of SLV.Gen.*Tie theorem names) this property's operators depend on
TIE = ['compute_simlex', 'compute_base_rate', 'gen_fuse', 'fuseSimplex', 'fuseSS', 'fuse_assign', 'max_uncertainty', 'uncertainty_maximized', 'Simplex_vacuous', 'is_vacuous', 'is_dogmatic', 'normalize_prob_dist', 'Simplex_normalized', 'OpinionRef_projection', 'Simplex_projection', 'gen_is_in_range_eq', 'gen_in_unit_interval_eq', 'gen_is_one_eq', 'gen_is_zero_eq', 'gen_check_unit_interval_eq', 'gen_check_is_one_eq']
