"""C09 — projection is b + a*u; uncertainty maximisation preserves it."""
from .. import gen as G
from .common import TRUSTED, ASSUMPTIONS, default_nontrivial

LEVEL = "proof"
THEOREMS = ["C09_projection", "C09_projection_dist", "C09_max_lift", "C09_max_u_ge", "C09_max_u_formula",
            "C09_max_keeps_projection", "C09_max_wf", "C09_zero_mass", "C09_idempotent",
            "C09_maximized_sums_to_one", "C09_maximized_sums_to_one_of_card", "C09_maximized_sums_to_one_of_sum_lt_two",
            "C09_maximized_gen_lift", "C09_max_lift_clamped", "C09_max_lift_of_band", "C09_maximized_gen_unit",
            "C09_maximized_masses_nonneg_gen", "C09_maximized_masses_nonneg_of_operands"]
EXTRA_MODULES = [("SLV.Props.OracleSpec", ("OS_projQ", "OS_maxUQ"))]
RULE = ("ops proj/maxu/umax on well-formed opinions: random dyadic grids (1/4..1/64) with zero base rates, "
        "vacuous/dogmatic/zero-mass opinions, arbitrary floats; n=1..4; "
        "families A/M/D/N, styles o/r/s, f32+f64; the same opinions over 2-D / 3-D domains (families M2/M3/D2/D3/N2/N3 = "
        "MArr2/MArr3/MArrD2/MArrD3 with usize and newtype indices, shapes 1x2 .. 2x2x3, operands built with `new`, results read cell "
        "by cell through the index operator and compared with an independently built container). umax with the variant token acc (the "
        "harness also asks the crate's own checked constructors): base rates summing to exactly 1+k*eps for k=-2..4 (the band "
        "check_base_rate accepts; k=-3, 5 as rejected controls) under the vacuous simplex for every k and n=1..4, the witness "
        "a=[1/2, 1/2+3eps], random exact dyadic simplexes (vacuous, u=1-1/den, interior) over the 1-D and the 2-D / 3-D families up to "
        "8 cells, and non-dyadic normalised 4-cell base rates (1-D and 2x2; float sums of 1+2eps occur naturally): whenever "
        "Opinion::try_new accepts the operand, Simplex::try_new must accept the maximised simplex (clause "
        "C09.maximized_accepted_by_constructor, claimed for at most 8 cells: for 12 cells the re-summed normalised masses miss the "
        "4-ulp band by plain rounding, sum = 1-2.5eps, in 20-60 cases per million; 8 cells about 2 per million; fewer cells none in "
        "2 million). STRICT sign clause C09.max_masses_nonneg (repair 8520ade: the rounding residue of the zero mass is clamped): on "
        "every ok, finite umax result whose operand entries are all >= 0 exactly (no condition on sums or bands) every mass is >= 0 "
        "exactly and u' is in [0, 1] exactly, values decoded from the output bits; before the repair the dyadic / decimal / arbitrary-float "
        "umax streams returned a negative mass in 27 of the 2253 quick-tier cases. Replay lines: the band witnesses ([0,1],0,[eps - k ulps, 1]), "
        "k=0..3, f64 and f32 (k=0 was rejected by Simplex::try_new: b'=-eps(1+2^-52), u'=1+2^-52), with acc. "
        "non-trivial = implementation returned a value and the case line is distinct")
EXHAUSTIVE = {}
nontrivial = default_nontrivial


def cases(rng, tier):
    N = 300 if tier == "quick" else 6000
    out = []
    for fmt in ("f64", "f32"):
        # exhaustive small grid n=2, den=4
        if tier == "thorough":
            for (b, u) in G.grid_simplexes(2, 4):
                for a in G.grid_dists(2, 4):
                    for op, var in (("proj", "A.o"), ("maxu", "M.o"), ("umax", "D.o")):
                        out.append(G.line(op, fmt, var, [2], b + [u] + a))
        for _ in range(N):
            n = rng.choice([1, 2, 2, 3, 3, 4])
            den = rng.choice([4, 8, 16, 64])
            kind = G.rand_kind(rng)
            w = G.rand_opinion(rng, n, den, kind)
            fam = rng.choice(G.FAMS_1D)
            op = rng.choice(["proj", "maxu", "umax"])
            if op == "proj":
                var = fam + "." + rng.choice(["o", "r", "o.s"])
            else:
                var = fam + ".o"
            out.append(G.line(op, fmt, var, [n], w))
        for _ in range(N // 3):
            # tiny but positive base-rate entries or belief masses (thresholds other than machine epsilon)
            n = rng.choice([2, 3, 4])
            w = G.tiny_opinion(rng, fmt, G.rand_opinion(rng, n, rng.choice([4, 8, 16]), rng.choice(["int", "int", "dog", "any"])), n)
            if rng.random() < 0.4:
                w = G.tiny_opinion(rng, fmt, w, n)
            if rng.random() < 0.3 and n >= 2:
                # a belief mass within machine epsilon of 0 (but not 0) on a state with a small base rate
                b, u = G.rand_simplex(rng, n, rng.choice([4, 8, 16]), "int")
                a = G.rand_dist(rng, n, rng.choice([4, 8, 16]), positive=True)
                i = rng.randrange(n)
                tb = rng.choice(G.TINY[fmt][:2]); ta = rng.choice(G.TINY[fmt][2:])
                bu = [float(v) for v in b] + [float(u)]
                j = max((k for k in range(n + 1) if k != i), key=lambda k: bu[k])
                bu[j] = G.round_fmt(fmt, bu[j] + bu[i] - tb); bu[i] = tb
                aa = [float(v) for v in a]
                k2 = max((k for k in range(n) if k != i), key=lambda k: aa[k])
                aa[k2] = G.round_fmt(fmt, aa[k2] + aa[i] - ta); aa[i] = ta
                w = bu + aa
            op = rng.choice(["proj", "maxu", "umax", "umax"])
            out.append(G.line(op, fmt, rng.choice(G.FAMS_1D) + ".o", [n], w))
        for _ in range(N // 4):
            n = rng.choice([2, 3, 4])
            b, u = G.float_simplex(rng, fmt, n)
            a = G.float_dist(rng, fmt, n)
            op = rng.choice(["proj", "maxu", "umax"])
            out.append(G.line(op, fmt, rng.choice(G.FAMS_1D) + ".o", [n], b + [u] + a))
        for _ in range(N):
            # 2-D / 3-D domains
            fam, sh, n = G.nd_family(rng)
            if rng.random() < 0.75:
                w = G.rand_opinion(rng, n, rng.choice([4, 8, 16, 64]), G.rand_kind(rng))
            else:
                b, u = G.float_simplex(rng, fmt, n)
                w = b + [u] + G.float_dist(rng, fmt, n)
            op = rng.choice(["proj", "proj", "maxu", "umax"])
            var = fam + "." + (rng.choice(["o", "r", "o.s"]) if op == "proj" else "o")
            out.append(G.line(op, fmt, var, [n] + sh, w))
    # base rates whose float sum is 1 + k*eps (the band the checked constructors accept); variant token `acc`: the crate's own
    # constructors judge the operand and the maximised simplex (repair f029db5: uncertainty_maximized renormalises)
    for fmt in ("f64", "f32"):
        out += G.band_umax_cases(rng, fmt, (300 if tier == "quick" else 6000) // 2)
    return out


def search(rng, ops, broken):
    return cases(rng, "thorough")[:4000]

from .common import LEVEL_NOTE, TECHNIQUE  # noqa: E402
LEVEL_TEXT = ("Kernel-checked theorems for every domain size and every rational well-formed opinion: the model's projection is "
              "b+a*u (a distribution), uncertainty_maximized returns a well-formed simplex with the same projection, u'>=u, "
              "u' = min(1, min_{a>eps} P/a), a zero mass unless vacuous, idempotent; for ANY non-negative simplex / base rate whose projection exists "
              "(no condition on sum(a)) the maximised simplex sums to exactly 1 (false before repair f029db5); for ALL operands of the exact semantics "
              "(ill-formed, infinities, NaN) whose max_uncertainty does not compare below zero no mass of the maximised simplex compares below zero and "
              "u' does not compare above one (false before repair 8520ade; the model clamps p - a*u_max at zero like the code; with a base-rate entry "
              "inside the guard band (0, eps] the closed form is the clamped, renormalised one, C09_max_lift_clamped). The model is tied to the code by running "
              "proj/maxu/umax of the real crate in all container families and both precisions against the exact model, and the "
              "theorem predicates are evaluated on the implementation's outputs.")


# tie theorems (substrings of SLV.Gen.*Tie theorem names) this property's operators depend on
TIE = ['OpinionRef_projection', 'Simplex_projection', 'normalize_prob_dist', 'max_uncertainty', 'uncertainty_maximized', 'Simplex_normalized', 'gen_is_in_range_eq', 'gen_in_unit_interval_eq', 'gen_is_one_eq', 'gen_is_zero_eq', 'gen_check_unit_interval_eq', 'gen_check_is_one_eq']
