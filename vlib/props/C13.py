"""C13 — binomial opinions are the binary case of multinomial ones."""
from fractions import Fraction as Fr
from .. import gen as G
from .common import TRUSTED, ASSUMPTIONS, default_nontrivial, LEVEL_NOTE, TECHNIQUE
from . import C19 as _C19

LEVEL = "proof"
THEOREMS = ['C13_roundtrip', 'C13_projection', 'C13_cfuse_eq_acm', 'C13_afuse_eq_avg', 'C13_wfuse_eq_wgh', 'C13_cfuse_err_iff', 'C13_two_dogmatic_mean', 'C13_vacuous_band_within', 'C13_both_vacuous_band_base_rate_cfuse', 'C13_both_vacuous_band_base_rate_wfuse']
RULE = ("bconv (round trip) and bvs (cfuse/afuse/wfuse vs FuseOp on converted operands, both computed by the implementation) on pairs "
        "of well-formed binomial opinions: 1/8 grid incl. vacuous/dogmatic/zero-one base rates (exhaustive in thorough), random dyadic "
        "up to 1/64, nearly vacuous (1-u in 1e-3..1e-15) and nearly dogmatic (u in 1e-3..1e-12) operands; u in (0,eps] excluded; a single operand in the vacuity band [1-2eps,1) excluded, BOTH operands vacuous by the guard: base rates of the two families must agree (clause both_vacuous_band_base_rate, theorems C13_both_vacuous_band_base_rate_cfuse/_wfuse); "
        "bconv_all: EVERY conversion path (Opinion1d::from / .into(), BOpinion::from / .into() by value and BY REFERENCE, the "
        "&BSimplex -> &Simplex1d view, a second trip) with the projections of both representations, on the grid, dyadic, arbitrary "
        "non-dyadic floats and nearly dogmatic / nearly vacuous opinions (u resp. 1-u in 1e-3..1e-15), base rates other than 1/2: "
        "lossless bit for bit, by-reference = by-value; bvs with variant `alias` (the same object fused with itself on both sides); "
        "bfold with variant `vs`: the LEFT FOLD of cfuse / afuse / wfuse over k = 3..10 non-dogmatic, non-vacuous operands against the "
        "multinomial fold (ACm / Avg / Wgh) of the converted operands, converted back; "
        "f32+f64. non-trivial = value or legitimate error")
EXHAUSTIVE = {}
LEVEL_TEXT = ("Theorems over the exact model: conversion round trip is the identity and preserves the projection; on operands whose "
              "uncertainties avoid the tolerance bands the binomial cfuse/afuse/wfuse return exactly the conversion of the multinomial "
              "ACm/Avg/Wgh result (arm by arm); with BOTH operands in the vacuity band both families return the mean of the base rates; cfuse errs iff both operands are dogmatic. Tied by the correspondence check; the equality "
              "of the two families is evaluated directly on the implementation's two results.")


def nontrivial(r):
    return r.get("icls") in ("ok", "err")


def near(rng, fmt, kind):
    e = G.EPS[fmt]
    if kind == "nvac" and rng.random() < 0.3:
        u = G.near_one(rng, fmt, rng.randint(1, 9))          # inside / just outside the 4-ulp vacuity band
        rest = G.round_fmt(fmt, 1.0 - u)
        return [rest, 0.0, u, float(Fr(rng.randint(0, 8), 8))]
    if kind == "nvac" and rng.random() < 0.4:
        # tiny masses at their own (fine) resolution, u = fl(1 - (b + d)) at the coarse resolution below 1: b + d and 1 - u then
        # differ by up to eps/2 absolutely, i.e. by per cents of either (seeded C13_r4A: confidence weights taken from b + d
        # in the binomial operator, from 1 - u in the multinomial one); b + d + u = 1 within eps/2, accepted by the constructors
        s = 10.0 ** (-rng.uniform(3, 15.5 if fmt == "f64" else 6.8))
        b = G.round_fmt(fmt, s * rng.random())
        d = G.round_fmt(fmt, s - b)
        u = G.round_fmt(fmt, 1.0 - (b + d))
        if u < 1.0 - 4 * e:
            return [b, d, u, float(Fr(rng.randint(0, 8), 8))]
    if kind == "nvac":
        u = G.round_fmt(fmt, 1.0 - 10.0 ** (-rng.uniform(3, 15 if fmt == "f64" else 6.5)))
    else:
        u = G.round_fmt(fmt, 10.0 ** (-rng.uniform(3, 12 if fmt == "f64" else 6)))
    rest = G.round_fmt(fmt, 1.0 - u)
    b = rest / 2 if rng.random() < 0.5 else rest
    d = rest - b
    return [b, d, u, float(Fr(rng.randint(0, 8), 8))]


def cases(rng, tier):
    out = []
    grid = G.grid_bops(8)
    for fmt in ("f64", "f32"):
        N = 1500 if tier == "quick" else 30000
        for x in (grid if tier == "thorough" else rng.sample(grid, 60)):
            out.append(G.line("bconv", fmt, "B.o", [], x))
        if tier == "thorough" and fmt == "f64":
            for x in grid:
                for y in grid:
                    out.append(G.line("bvs", fmt, "B.o", [rng.randint(0, 2)], x + y + [Fr(1, 2)]))
        for _ in range(N):
            r = rng.random()
            if r < 0.1:
                # guard lattice on exact operands: both vacuous / both dogmatic / one of each, different base rates
                def lat(kind):
                    a = Fr(rng.randint(0, 8), 8)
                    if kind == "vac":
                        return [Fr(0), Fr(0), Fr(1), a]
                    b = Fr(rng.randint(0, 8), 8)
                    return [b, 1 - b, Fr(0), a]
                x, y = lat(rng.choice(["vac", "vac", "dog"])), lat(rng.choice(["vac", "vac", "dog"]))
            elif r < 0.45:
                x, y = rng.choice(grid), rng.choice(grid)
            elif r < 0.65:
                den = rng.choice([16, 32, 64])
                x, y = G.rand_bop(rng, den), G.rand_bop(rng, den)
            else:
                x = near(rng, fmt, rng.choice(["nvac", "ndog"])) if rng.random() < 0.8 else [float(v) for v in rng.choice(grid)]
                y = near(rng, fmt, rng.choice(["nvac", "ndog"])) if rng.random() < 0.8 else [float(v) for v in rng.choice(grid)]
            out.append(G.line("bvs", fmt, "B.o", [rng.randint(0, 2)], list(x) + list(y) + [Fr(1, 2)]))

        def one():
            z = rng.random()
            if z < 0.25:
                return list(rng.choice(grid))
            if z < 0.45:
                return G.rand_bop(rng, rng.choice([16, 32, 64]))
            if z < 0.7:
                return G.float_bop(rng, fmt)
            w = near(rng, fmt, rng.choice(["nvac", "ndog"]))
            if rng.random() < 0.7:
                w[3] = G.round_fmt(fmt, rng.choice([rng.random(), 0.1, 0.9, 1.0 / 3.0, 1e-3, 1.0 - 1e-3]))
            return w
        # every conversion path, by value and by reference
        for _ in range(N // 3):
            out.append(G.line("bconv_all", fmt, "B.o", [], one()))
        # the same object fused with itself, binomial operator vs multinomial operator
        for _ in range(N // 6):
            x = one()
            out.append(G.line("bvs", fmt, "B.o.alias", [rng.randint(0, 2)], list(x) + list(x) + [Fr(1, 2)]))
        # folds: the binomial fold of cfuse / afuse / wfuse vs the multinomial fold of the converted operands (k = 3..10)
        out += _C19.fold_cases(rng, fmt, N // 4, "B.o.vs", (0, 1, 2))
    return out


def search(rng, ops, broken):
    return cases(rng, "quick")


# tie theorems (substrings of SLV.Gen.*Tie theorem names) this property's operators depend on
TIE = ['cfuse', 'afuse', 'wfuse', 'convert', 'toOpinion', 'ofOpinion', 'compute_simlex', 'compute_base_rate', 'gen_fuse', 'gen_check_simplex_eq', 'gen_check_base_rate_eq', 'BSimplex_try_new', 'gen_try_new_eq', 'gen_new_eq', 'gen_is_in_range_eq', 'gen_in_unit_interval_eq', 'gen_is_one_eq', 'gen_is_zero_eq', 'gen_check_unit_interval_eq', 'gen_check_is_one_eq', 'Opinion1d']
