"""C14 — binomial deduction is well-formed, total-probability consistent, label-symmetric."""
from fractions import Fraction as Fr
from .. import gen as G
from .common import TRUSTED, ASSUMPTIONS, default_nontrivial, LEVEL_NOTE, TECHNIQUE

LEVEL = "proof"
THEOREMS = ['C14_closed_form', 'C14_wf', 'C14_base_rate', 'C14_sum', 'C14_projection', 'C14_case1', 'C14_dogmatic', 'C14_nonneg', 'C14_swap_x', 'C14_swap_y']
RULE = ("bdeduce / bdeduce_sym on the open domain 0<P(x)<1, 0<ax<1, 0<ay<1: 1/8 grid sample (exhaustive over antecedents x a "
        "sample of conditionals), random dyadic grids up to 1/64, dogmatic antecedents, arbitrary floats; f32+f64; all nine "
        "case branches counted from the model's branch tag. non-trivial = implementation returned a value")
EXHAUSTIVE = {}
nontrivial = default_nontrivial
LEVEL_TEXT = ("Theorems over the exact model on the open domain: sum/projection identities, base rate, label symmetries and the "
              "dogmatic mixture; non-negativity per case. Tied to BOpinion::deduce by the correspondence check with the predicates "
              "evaluated on the implementation's outputs; all nine branches are exercised.")


def _case(rng, den):
    while True:
        x = G.rand_bop(rng, den, rng.choice(["int", "int", "any", "dog"]))
        px = x[0] + x[3] * x[2]
        if 0 < px < 1 and 0 < x[3] < 1:
            break
    c0, c1 = G.rand_tri(rng, den, "any"), G.rand_tri(rng, den, "any")
    ay = Fr(rng.randint(1, den - 1), den)
    return x + c0 + c1 + [ay]


def cases(rng, tier):
    out = []
    for fmt in ("f64", "f32"):
        N = 1500 if tier == "quick" else 60000
        for _ in range(N):
            den = rng.choice([8, 8, 16, 64])
            sc = _case(rng, den)
            r = rng.random()
            if r < 0.7:
                out.append(G.line("bdeduce", fmt, "B.o", [], sc))
            else:
                out.append(G.line("bdeduce_sym", fmt, "B.o", [rng.randint(0, 1)], sc))
        for _ in range(N // 5):
            x = G.float_bop(rng, fmt)
            c0b, c0u = G.float_simplex(rng, fmt, 2)
            c1b, c1u = G.float_simplex(rng, fmt, 2)
            ay = 0.05 + 0.9 * rng.random()
            out.append(G.line("bdeduce", fmt, "B.o", [], x + c0b + [c0u] + c1b + [c1u] + [ay]))
    return out


def search(rng, ops, broken):
    return cases(rng, "quick")


# tie theorems (substrings of SLV.Gen.*Tie theorem names) this property's operators depend on
TIE = ['gen_deduce_eq', 'gen_projection_eq', 'gen_check_simplex_eq', 'gen_check_base_rate_eq', 'BSimplex_try_new', 'gen_try_new_eq', 'gen_new_eq', 'gen_is_in_range_eq', 'gen_in_unit_interval_eq', 'gen_is_one_eq', 'gen_is_zero_eq', 'gen_check_unit_interval_eq', 'gen_check_is_one_eq']
