"""C14 — binomial deduction is well-formed, total-probability consistent, label-symmetric."""
from fractions import Fraction as Fr
from .. import gen as G
from .common import TRUSTED, ASSUMPTIONS, default_nontrivial, LEVEL_NOTE, TECHNIQUE

LEVEL = "proof"
THEOREMS = ['C14_closed_form', 'C14_wf', 'C14_base_rate', 'C14_sum', 'C14_projection', 'C14_case1', 'C14_dogmatic', 'C14_nonneg', 'C14_swap_x', 'C14_swap_y', 'C14_tie', 'C14_K_eq_nine_branch', 'C14_eq_unnormalised', 'C14_masses_nonneg_gen']
RULE = ("bdeduce / bdeduce_sym on the open domain 0<P(x)<1, 0<ax<1, 0<ay<1: 1/8 grid sample (exhaustive over antecedents x a "
        "sample of conditionals), random dyadic grids up to 1/64, dogmatic antecedents, conditionals whose beliefs/disbeliefs differ by 2^-10..2^-45, consequent base rates 2^-k and 1-2^-k (k up to 50), arbitrary floats; "
        "a DECIMAL-GRID stream (4000 per precision in the quick tier: antecedent vacuous / b = 0 / d = 0 / general with masses on the 0.1 and 0.01 "
        "grids, base rates and ay from {0.001, 0.01, 0.1, 0.3, 0.5, 0.9, 0.99, 0.999} and the 0.1 grid, conditionals on the 0.1 grid with and "
        "without zero components, absolute conditionals) and a SMALL-RATE stream (2000 per precision: rates log-uniform down to 1e-8 or that "
        "close to 1, conditionals that differ by 10^-k in belief and/or disbelief); f32+f64; the five "
        "tags I, II.A, II.B, III.A, III.B (case and active bound of min(ka,kb)) counted from the model's tag; results with an EXACT zero mass (antecedent and conditionals with b = 0 or d = 0, "
        "absolute conditionals: the computed mass is 0 or a rounding residue on either side of 0, which must be accepted); a STRUCTURAL-ZERO stream "
        "(3000 per precision in the quick tier: Case II / III with a non-zero correction term whose exact belief or disbelief is 0 -- b_x = 0 and b1 = 0, "
        "d0 = 0 and d_x d1 = 0, mirrored in Case III -- on the 1/16, 1/32 grids and decimals) judged by the STRICT clause C14.masses_nonneg "
        "(b >= 0, d >= 0, 0 <= u <= 1 exactly on every returned result whenever every operand mass is >= 0 exactly, 0 <= ax <= 1, 0 < ay < 1; "
        "no condition on sums or on P(x); repair cf81fd9); variant `p` "
        "(x.projection() and the result's projection() as answered by the method, total probability on those); a panic on exactly "
        "well-formed operands is reported here (no hand-over to C19); on operands that are well-formed within the constructors' tolerance "
        "(4 eps: plain decimals) the clauses value / well-formed / base rate / total probability / symmetry are checked within their "
        "tolerances and a rejection by rounding residue is C19's. non-trivial = implementation returned a value")
EXHAUSTIVE = {}
nontrivial = default_nontrivial
LEVEL_TEXT = ("Theorems over the exact model on the open domain: sum/projection identities, base rate, label symmetries and the "
              "dogmatic mixture; non-negativity per case. Tied to BOpinion::deduce by the correspondence check with the predicates "
              "evaluated on the implementation's outputs; Case I and both bounds of Case II / III are exercised; the correction term equals the one "
              "of the nine-branch operator it replaced (C14_K_eq_nine_branch).")


def _case(rng, den):
    while True:
        x = G.rand_bop(rng, den, rng.choice(["int", "int", "any", "dog"]))
        px = x[0] + x[3] * x[2]
        if 0 < px < 1 and 0 < x[3] < 1:
            break
    c0, c1 = G.rand_tri(rng, den, "any"), G.rand_tri(rng, den, "any")
    ay = Fr(rng.randint(1, den - 1), den)
    return x + c0 + c1 + [ay]


def _zero_tri(rng, den):
    z = rng.random()
    if z < 0.12:
        return rng.choice([[Fr(1), Fr(0), Fr(0)], [Fr(0), Fr(1), Fr(0)]])
    k = rng.randint(0, den)
    if z < 0.56:
        return [Fr(0), Fr(k, den), Fr(den - k, den)]
    return [Fr(k, den), Fr(0), Fr(den - k, den)]


def _zero_case(rng, den):
    while True:
        t = _zero_tri(rng, den) if rng.random() < 0.85 else G.rand_tri(rng, den, "any")
        x = t + [Fr(rng.randint(1, den - 1), den)]
        px = x[0] + x[3] * x[2]
        if 0 < px < 1:
            break
    c0 = _zero_tri(rng, den)
    c1 = _zero_tri(rng, den) if rng.random() < 0.85 else G.rand_tri(rng, den, "any")
    if rng.random() < 0.5:
        c0, c1 = c1, c0
    return x + c0 + c1 + [Fr(rng.randint(1, den - 1), den)]


# ---- plain decimal operands (not dyadic): every mass, rate and conditional is a decimal fraction rounded to the format, so the
# operands are well-formed within the constructors' tolerance only (0.1 + 0.2 + 0.7 is not 1 in binary) -- or exactly, when
# the decimals happen to be dyadic (0, 0.5, 1) -- and every product / difference in the operator is rounded
DEC_RATES = [Fr(1, 1000), Fr(1, 100), Fr(1, 10), Fr(3, 10), Fr(1, 2), Fr(9, 10), Fr(99, 100), Fr(999, 1000)]


def _dec_rate(rng):
    return rng.choice(DEC_RATES) if rng.random() < 0.6 else Fr(rng.randint(1, 9), 10)


def _dec_tri(rng, den, kind):
    """(b, d, u) on the grid 1/den; kind: vac | b0 | d0 | abs | any"""
    if kind == "vac":
        return [Fr(0), Fr(0), Fr(1)]
    if kind == "abs":
        return rng.choice([[Fr(1), Fr(0), Fr(0)], [Fr(0), Fr(1), Fr(0)]])
    if kind in ("b0", "d0"):
        k = rng.randint(0, den)
        t = [Fr(0), Fr(k, den), Fr(den - k, den)]
        return t if kind == "b0" else [t[1], t[0], t[2]]
    return [Fr(v, den) for v in G.composition(rng, den, 3)]


def _decimal_case(rng):
    """antecedent vacuous / b = 0 / d = 0 / general with masses on the 0.1 or 0.01 grid, base rates and ay from DEC_RATES and
    the 0.1 grid, conditionals on the 0.1 grid with and without zero components, absolute conditionals"""
    while True:
        den = 10 if rng.random() < 0.75 else 100
        x = _dec_tri(rng, den, rng.choice(["vac", "vac", "vac", "b0", "d0", "any", "any"])) + [_dec_rate(rng)]
        px = x[0] + x[3] * x[2]
        if 0 < px < 1:
            break
    # one conditional with a zero (or absolute) component more often than not: the exact belief or disbelief of the result is
    # then 0 for a vacuous antecedent, and the computed one a residue of either sign
    kinds = ["abs", "b0", "d0", "b0", "d0", "any"]
    c0 = _dec_tri(rng, 10, rng.choice(kinds))
    c1 = _dec_tri(rng, 10, rng.choice(["abs", "b0", "d0", "any", "any", "any", "any"]))
    if rng.random() < 0.5:
        c0, c1 = c1, c0
    ay = rng.choice(DEC_RATES) if rng.random() < 0.8 else Fr(rng.randint(1, 9), 10)
    return x + c0 + c1 + [ay]


def _dec_zero_u_case(rng):
    """results whose exact uncertainty is 0, on decimal / non-dyadic grids: equal dogmatic conditionals under any antecedent
    (Case I, K = 0), or a dogmatic antecedent with two dogmatic conditionals (the correction term vanishes with u_x).  The
    computed u is then pure rounding residue of the three mixtures (seeded C14_r4A: u taken as the remainder 1 - b - d)."""
    den = rng.choice([10, 10, 100, 11, 7, 20, 3])

    def dog():
        k = rng.randint(0, den)
        return [Fr(k, den), Fr(den - k, den), Fr(0)]
    while True:
        if rng.random() < 0.5:
            x = _dec_tri(rng, den, rng.choice(["vac", "b0", "d0", "any", "any"])) + [_dec_rate(rng)]
            c0 = dog()
            c1 = list(c0)
        else:
            x = dog() + [_dec_rate(rng)]
            c0, c1 = dog(), dog()
        px = x[0] + x[3] * x[2]
        if 0 < px < 1:
            break
    ay = rng.choice(DEC_RATES) if rng.random() < 0.5 else Fr(rng.randint(1, den - 1), den)
    return x + c0 + c1 + [ay]


def _dec_zero_u_hot(rng, fmt, want, tries=120000):
    """cases of `_dec_zero_u_case` whose COMPUTED belief and disbelief mixtures overshoot 1 by more than eps (the three
    mixtures are evaluated here in the format, operation by operation, as `deduce` does): there the exact u = 0 is the most
    ill-conditioned quantity of the result -- a remainder `1 - b - d` is below -eps, the independent mixture of the u's is 0"""
    R = lambda v: G.round_fmt(fmt, v)
    e = G.EPS[fmt]
    out = []
    for _ in range(tries):
        sc = _dec_zero_u_case(rng)
        bx, dx, ux, a, b0, d0, _u0, b1, d1, _u1, _ay = [R(float(v)) for v in sc]
        rv = R(1.0 - a)
        bi = R(R(R(bx * b0) + R(dx * b1)) + R(ux * R(R(b0 * a) + R(b1 * rv))))
        di = R(R(R(bx * d0) + R(dx * d1)) + R(ux * R(R(d0 * a) + R(d1 * rv))))
        if R(R(1.0 - bi) - di) < -e:
            out.append(sc)
            if len(out) >= want:
                break
    return out


def _small_rate_case(rng, fmt):
    """base rates log-uniform down to 1e-8 (or that close to 1), conditionals that differ by 10^-k in belief and / or
    disbelief (near ties, on either side), masses on the decimal grid or arbitrary"""
    def rate():
        z = rng.random()
        r = 10.0 ** (-rng.uniform(0.3, 8.0))
        return r if z < 0.6 else 1.0 - r if z < 0.75 else float(_dec_rate(rng))
    while True:
        if rng.random() < 0.6:
            x = [float(v) for v in _dec_tri(rng, 10, rng.choice(["vac", "b0", "d0", "any", "any"]))]
        else:
            x = G.float_bop(rng, fmt)[:3]
        x = x + [rate()]
        px = x[0] + x[3] * x[2]
        if 0 < px < 1 and 0 < x[3] < 1:
            break
    c1 = [float(v) for v in _dec_tri(rng, 10, rng.choice(["b0", "d0", "any", "any", "any"]))]
    c0 = list(c1)
    kmax = 12 if fmt == "f64" else 6
    for i in rng.choice([[0], [1], [0, 1], [0, 1]]):
        dl = rng.choice([1, -1]) * 10.0 ** (-rng.randint(1, kmax))
        j = 2 if rng.random() < 0.7 else 1 - i                 # taken from / given to the uncertainty or the other mass
        if 0 <= c0[i] + dl <= 1 and 0 <= c0[j] - dl <= 1:
            c0[i] += dl
            c0[j] -= dl
    if rng.random() < 0.5:
        c0, c1 = c1, c0
    ay = rate()
    return x + c0 + c1 + [ay]


def _struct_zero_case(rng, den):
    """STRUCTURAL zeros in Case II / III (repair cf81fd9): the exact belief or disbelief of the result is 0 while the correction
    term is NOT (u_x > 0, a clear difference between the conditionals), so the computed mass is `bi - ay*k` (`di - (1-ay)*k`)
    with `bi = ay*k` exactly: two differently rounded evaluations of one product, a residue of either sign unless clamped.
      Case II  (b0 > b1, d0 <= d1), K = ka (belief bound active):     b = b_x b0 + (d_x + u_x) b1          = 0  <=>  b_x = 0, b1 = 0
      Case II,                      K = kb (disbelief bound active):  d = (b_x + u_x) d0 + d_x d1          = 0  <=>  d0 = 0, d_x d1 = 0
      Case III (b0 <= b1, d0 > d1), K = ka:                           b = (b_x + u_x) b0 + d_x b1          = 0  <=>  b0 = 0, d_x b1 = 0
      Case III,                     K = kb:                           d = b_x d0 + (d_x + u_x) d1          = 0  <=>  b_x = 0, d1 = 0
    Which bound is active depends on the remaining free masses and the two rates; all four patterns are drawn, on the grid
    1/den (16, 32: exactly well-formed operands; 10, 100: plain decimals, well-formed within the tolerance)."""
    def comp(total, parts):
        return G.composition(rng, total, parts)
    while True:
        pat = rng.randint(0, 3)
        # antecedent
        if pat in (0, 3):                       # b_x = 0
            k = rng.randint(0, den - 1)         # d_x; u_x = den - k > 0
            x = [0, k, den - k]
        elif rng.random() < 0.5:                # d_x = 0 (patterns 1, 2 with the first alternative)
            k = rng.randint(0, den - 1)
            x = [k, 0, den - k]
        else:
            x = comp(den, 3)
        if x[2] == 0:
            continue
        dx0 = x[1] == 0
        if pat == 0:      # Case II: b1 = 0 < b0, d0 <= d1
            b0 = rng.randint(1, den)
            d0 = rng.randint(0, den - b0)
            d1 = rng.randint(d0, den)
            c0, c1 = [b0, d0, den - b0 - d0], [0, d1, den - d1]
        elif pat == 1:    # Case II: d0 = 0, (d_x = 0 or d1 = 0), b0 > b1
            b0 = rng.randint(1, den)
            b1 = rng.randint(0, b0 - 1)
            d1 = rng.randint(0, den - b1) if dx0 else 0
            c0, c1 = [b0, 0, den - b0], [b1, d1, den - b1 - d1]
        elif pat == 2:    # Case III: b0 = 0, (d_x = 0 or b1 = 0), d0 > d1
            d0 = rng.randint(1, den)
            d1 = rng.randint(0, d0 - 1)
            b1 = rng.randint(0, den - d1) if dx0 else 0
            c0, c1 = [0, d0, den - d0], [b1, d1, den - b1 - d1]
        else:             # Case III: d1 = 0 < d0, b0 <= b1
            d0 = rng.randint(1, den)
            b0 = rng.randint(0, den - d0)
            b1 = rng.randint(b0, den)
            c0, c1 = [b0, d0, den - b0 - d0], [b1, 0, den - b1]
        a = Fr(rng.randint(1, den - 1), den) if rng.random() < 0.8 else _dec_rate(rng)
        ay = Fr(rng.randint(1, den - 1), den) if rng.random() < 0.8 else _dec_rate(rng)
        xs = [Fr(v, den) for v in x]
        px = xs[0] + a * xs[2]
        if not (0 < px < 1):
            continue
        return xs + [a] + [Fr(v, den) for v in c0] + [Fr(v, den) for v in c1] + [ay]


def struct_zero_stream(rng, fmt, n):
    """`n` structural-zero cases as case lines (shared with C19): 1/16 and 1/32 grids and decimals"""
    out = []
    for _ in range(n):
        sc = _struct_zero_case(rng, rng.choice([16, 16, 32, 32, 10, 10, 100]))
        if rng.random() < 0.75:
            out.append(G.line("bdeduce", fmt, rng.choice(["B.o", "B.o", "B.o.p"]), [], sc))
        else:
            out.append(G.line("bdeduce_sym", fmt, "B.o", [rng.randint(0, 1)], sc))
    return out


def decimal_streams(rng, fmt, n_dec, n_small):
    """the two streams as case lines (shared with C19)"""
    out = []
    for _ in range(n_dec):
        sc = _decimal_case(rng)
        if rng.random() < 0.7:
            out.append(G.line("bdeduce", fmt, rng.choice(["B.o", "B.o", "B.o.p"]), [], sc))
        else:
            out.append(G.line("bdeduce_sym", fmt, "B.o", [rng.randint(0, 1)], sc))
    for _ in range(n_dec // 8):
        out.append(G.line("bdeduce", fmt, "B.o", [], _dec_zero_u_case(rng)))
    for sc in _dec_zero_u_hot(rng, fmt, max(20, n_dec // 100)):
        out.append(G.line("bdeduce", fmt, "B.o", [], sc))
    for _ in range(n_small):
        sc = _small_rate_case(rng, fmt)
        if rng.random() < 0.7:
            out.append(G.line("bdeduce", fmt, "B.o", [], sc))
        else:
            out.append(G.line("bdeduce_sym", fmt, "B.o", [rng.randint(0, 1)], sc))
    return out


def cases(rng, tier):
    out = []
    for fmt in ("f64", "f32"):
        N = 1500 if tier == "quick" else 60000
        out += decimal_streams(rng, fmt, 4000 if tier == "quick" else 60000, 2000 if tier == "quick" else 30000)
        out += struct_zero_stream(rng, fmt, 3000 if tier == "quick" else 60000)
        for _ in range(N):
            den = rng.choice([8, 8, 16, 64])
            sc = _case(rng, den)
            r = rng.random()
            if r < 0.7:
                out.append(G.line("bdeduce", fmt, "B.o", [], sc))
            else:
                out.append(G.line("bdeduce_sym", fmt, "B.o", [rng.randint(0, 1)], sc))
        # near-ties between the two conditionals (their beliefs or disbeliefs differ by a dyadic amount far below any grid step:
        # the case selection compares them exactly) and consequent base rates next to the end points of (0,1); dyadic, so exact
        kmax = 45 if fmt == "f64" else 20
        for _ in range(N // 3):
            den = rng.choice([8, 16, 64])
            sc = _case(rng, den)
            x, c0, c1, ay = sc[:4], [Fr(v) for v in sc[4:7]], [Fr(v) for v in sc[7:10]], sc[10]
            z = rng.random()
            if z < 0.65:
                dl = Fr(1, 2 ** rng.randint(10, kmax)) * rng.choice([1, 1, 3])
                which = rng.choice(["b", "d", "bd"])
                c0 = list(c1)
                moved = False
                for comp, i in (("b", 0), ("d", 1)):
                    if comp in which:
                        sgn = rng.choice([1, -1])
                        # move c0[i] by sgn*dl, taking it from / giving it to the uncertainty (or the other mass)
                        j = 2 if c0[2] >= dl and c0[2] + dl <= 1 else 1 - i
                        if c0[i] + sgn * dl >= 0 and c0[j] - sgn * dl >= 0:
                            c0[i] += sgn * dl; c0[j] -= sgn * dl; moved = True
                if not moved:
                    continue
                if rng.random() < 0.6:
                    # ... and a CLEAR difference of the opposite sign in the other mass (Case II / III proper, not a tie):
                    # move a grid amount between the other mass and the uncertainty of c0
                    i = 1 if which == "b" else 0 if which == "d" else rng.randint(0, 1)
                    g = Fr(rng.randint(1, den // 2), den)
                    sg = 1 if c0[1 - i] < c1[1 - i] else -1
                    if c0[i] + sg * g >= 0 and c0[2] - sg * g >= 0 and c0[i] + sg * g <= 1 and c0[2] - sg * g <= 1:
                        c0[i] += sg * g; c0[2] -= sg * g
                if rng.random() < 0.5:
                    c0, c1 = c1, c0
                if rng.random() < 0.6:
                    ay = Fr(1, 2 ** rng.randint(3, 12)) if rng.random() < 0.5 else 1 - Fr(1, 2 ** rng.randint(3, 12))
            else:
                k = rng.randint(10, 50 if fmt == "f64" else 23)
                ay = Fr(1, 2 ** k) if rng.random() < 0.5 else 1 - Fr(1, 2 ** k)
            sc = x + c0 + c1 + [ay]
            if rng.random() < 0.5:
                out.append(G.line("bdeduce", fmt, "B.o", [], sc))
            else:
                out.append(G.line("bdeduce_sym", fmt, "B.o", [rng.randint(0, 1)], sc))
        for _ in range(N // 5):
            x = G.float_bop(rng, fmt)
            c0b, c0u = G.float_simplex(rng, fmt, 2)
            c1b, c1u = G.float_simplex(rng, fmt, 2)
            ay = 0.05 + 0.9 * rng.random()
            out.append(G.line("bdeduce", fmt, "B.o", [], x + c0b + [c0u] + c1b + [c1u] + [ay]))
        # exact zeros in the result: antecedent with b = 0 or d = 0, conditionals with b = 0 or d = 0 (or absolute); the exact
        # belief or disbelief of the consequent is then 0 and the computed one 0 or a residue of either sign
        for _ in range(N):
            sc = _zero_case(rng, rng.choice([16, 16, 32, 64]))
            if rng.random() < 0.8:
                out.append(G.line("bdeduce", fmt, rng.choice(["B.o", "B.o.p"]), [], sc))
            else:
                out.append(G.line("bdeduce_sym", fmt, "B.o", [rng.randint(0, 1)], sc))
        # the projection() method on ordinary cases
        for _ in range(N // 3):
            out.append(G.line("bdeduce", fmt, "B.o.p", [], _case(rng, rng.choice([8, 16, 64]))))
    return out


def search(rng, ops, broken):
    return cases(rng, "quick")


# tie theorems (substrings of SLV.Gen.*Tie theorem names) this property's operators depend on
TIE = ['gen_deduce_eq', 'gen_projection_eq', 'gen_check_simplex_eq', 'gen_check_base_rate_eq', 'BSimplex_try_new', 'gen_try_new_eq', 'gen_new_eq', 'gen_is_in_range_eq', 'gen_in_unit_interval_eq', 'gen_is_one_eq', 'gen_is_zero_eq', 'gen_check_unit_interval_eq', 'gen_check_is_one_eq']
