"""C12 — binomial AND/OR multiply probabilities and are De Morgan duals."""
import os
from decimal import Decimal
from fractions import Fraction as Fr
from .. import gen as G
from .common import TRUSTED, ASSUMPTIONS, default_nontrivial, LEVEL_NOTE, TECHNIQUE

LEVEL = "proof"
THEOREMS = ['C12_mul_ok', 'C12_mul_wf', 'C12_mul_base_rate', 'C12_mul_projection', 'C12_comul_ok', 'C12_comul_wf', 'C12_comul_base_rate', 'C12_comul_projection', 'C12_mul_comm', 'C12_comul_comm', 'C12_de_morgan', 'C12_de_morgan_dual', 'C12_mul_assoc', 'C12_comul_assoc', 'C12_defined_iff', 'C12_mul_lift', 'C12_comul_lift', 'C12_mul_sum', 'C12_comul_sum', 'C12_eq_unnormalised', 'C12_comul_eq_numer_first']
RULE = ("bmul/bcomul on pairs of well-formed binomial opinions: 1/8 grid (exhaustive in thorough, sampled in quick), "
        "random dyadic grids up to 1/64, arbitrary floats; blaw kinds 0..5 (commutativity, associativity, De Morgan) on "
        "pairs/triples; variant `p` (bmul/bcomul also report BOpinion::projection() of both operands and of the result: the method must "
        "answer b+a*u and obey the product/coproduct law itself) on grid, dyadic and float operands incl. d>b with base rates away from 1/2, "
        "and bproj on single opinions; variant `alias` (the SAME object as both operands: x.mul(&x), x.comul(&x), and blaw with y aliased "
        "to x); plain DECIMAL operands (masses (1-p, 0, p) in the four placements with the zero on b or d, p in {1,2,5}*10^-k, k = 1..5, or "
        "j/100; the literals themselves when their float sum is 1.0, or the small mass the exact complement of the large one; base rates "
        "j/100) for bmul/bcomul, CHAINS (blaw, mostly the associativity kinds) on the ninths / tenths / twelfths grids (masses and rates "
        "the rounded quotients k/9.0 ..), and the enumerated members of both families on which mul / comul rejected their own result before "
        "repair d46c983 (gen/corpus/binorm_hot.txt, exhaustive scan tools/scan/binorm_scan.rs; the exactly well-formed ones here, all of "
        "them in C19); a panic of any call -- also inside a blaw chain -- on exactly well-formed operands inside the domain is reported "
        "here (no hand-over to C19); f32+f64. "
        "non-trivial = implementation returned a value")
EXHAUSTIVE = {}
nontrivial = default_nontrivial
LEVEL_TEXT = ("Theorems over the exact model for all rational well-formed operands: mul/comul are well-formed, have base rate "
              "ax*ay / ax+ay-ax*ay and projection P(x)P(y) / P(x)+P(y)-P(x)P(y), are commutative and associative and De Morgan duals; "
              "tied to BOpinion::mul/comul by the correspondence check, with the same predicates evaluated on the implementation's outputs.")


# ---- plain DECIMAL operands and CHAINS on non-dyadic grids (added with repair d46c983: before it mul / comul passed the
# un-normalised masses to the self-check and panicked on such operands; see known_findings.txt)

def _fsum3(fmt, b, d, u):
    """b + d + u as the crate evaluates it in `fmt`"""
    return G.round_fmt(fmt, G.round_fmt(fmt, b + d) + u)


def _dec_pair(rng, fmt):
    """(hi, lo): the decimal literals 1 - p and p, p in {1,2,5}*10^-k (k = 1..5) or p = j/100, rounded to `fmt`"""
    if rng.random() < 0.75:
        m, k = rng.choice([1, 2, 5]), rng.randint(1, 5)
    else:
        m, k = rng.randint(1, 50), 2
    p = Decimal(m).scaleb(-k)
    return G.round_fmt(fmt, float(Decimal(1) - p)), G.round_fmt(fmt, float(p))


def decimal_operand(rng, fmt):
    """a binomial opinion with masses (1-p, 0, p) in one of the four placements with the zero on b or d, base rate j/100.
    Two flavours: the decimal LITERALS themselves when their sum is exactly 1.0 in `fmt` arithmetic (well-formed for the
    constructor, usually not as rationals), or the large mass a literal and the small one its exact complement 1 - hi
    (exactly well-formed as rationals: this property's oracle judges those, C19's the others)"""
    while True:
        hi, lo = _dec_pair(rng, fmt)
        if rng.random() < 0.5:
            lo = G.round_fmt(fmt, 1.0 - hi)            # exact (Sterbenz for hi >= 1/2; checked below)
            if Fr(hi) + Fr(lo) != 1:
                continue
        b, d, u = rng.choice([(hi, 0.0, lo), (lo, 0.0, hi), (0.0, hi, lo), (0.0, lo, hi)])
        if _fsum3(fmt, b, d, u) != 1.0:
            continue
        return [b, d, u, G.round_fmt(fmt, float(Decimal(rng.randint(1, 99)).scaleb(-2)))]


def decimal_cases(rng, fmt, n):
    """bmul / bcomul on pairs of plain decimal operands"""
    out = []
    for _ in range(n):
        x, y = decimal_operand(rng, fmt), decimal_operand(rng, fmt)
        out.append(G.line(rng.choice(["bmul", "bcomul"]), fmt, rng.choice(["B.o", "B.o", "B.o.p"]), [], x + y))
    return out


_COMPS = {g: list(G.all_compositions(g, 3)) for g in (9, 10, 12)}


def chain_operand(rng, fmt, g):
    """masses i/g, j/g, k/g (i + j + k = g) and base rate r/g (0 < r < g), each the quotient rounded to `fmt` (what k as V / g as V
    gives); g = 9, 10, 12: not dyadic, the sum of the masses is 1 only up to rounding"""
    c = rng.choice(_COMPS[g]) if rng.random() < 0.5 else rng.choice(
        [(0, 0, g), (g - 1, 0, 1), (1, 0, g - 1), (0, g - 1, 1), (0, 1, g - 1), (g - 2, 1, 1), (1, 1, g - 2)])
    return [G.round_fmt(fmt, v / g) for v in c] + [G.round_fmt(fmt, rng.randint(1, g - 1) / g)]


def chain_cases(rng, fmt, n):
    """blaw, mostly the associativity kinds 1 and 3: (x*y)*z against x*(y*z) -- the value of one call is an operand of the next"""
    out = []
    for _ in range(n):
        g = rng.choice([9, 9, 10, 12])
        x, y, z = chain_operand(rng, fmt, g), chain_operand(rng, fmt, g), chain_operand(rng, fmt, g)
        out.append(G.line("blaw", fmt, "B.o", [rng.choice([1, 1, 1, 3, 3, 3, 0, 2, 4, 5])], x + y + z))
    return out


_HOT = None


def hot_cases(fmt, exact_only):
    """the operand tuples on which mul / comul rejected their own result before repair d46c983 (gen/corpus/binorm_hot.txt, from the
    exhaustive scan tools/scan/binorm_scan.rs over the two families above: the failure rate of a random member is 1e-7 .. 1e-5, so
    only the enumerated hits give these streams teeth against a regression).  `exact_only`: the operands that are exactly well-formed
    as rationals (families `*-cmp`), which this property's oracle judges; C19 replays all of them."""
    global _HOT
    if _HOT is None:
        _HOT = []
        with open(os.path.join(os.path.dirname(os.path.dirname(os.path.dirname(os.path.abspath(__file__)))), "gen", "corpus",
                               "binorm_hot.txt")) as fh:
            for ln in fh:
                if ln.strip() and not ln.startswith("#"):
                    case, fam = ln.split("#")
                    _HOT.append((case.strip(), fam.strip()))
    return [c for c, fam in _HOT if c.split(" ")[1] == fmt and (not exact_only or "-cmp" in fam)]


def cases(rng, tier):
    out = []
    grid = G.grid_bops(8)
    for fmt in ("f64", "f32"):
        n = 1500 if tier == "quick" else 40000
        out += hot_cases(fmt, True) + decimal_cases(rng, fmt, n) + chain_cases(rng, fmt, n)
    for fmt in ("f64", "f32"):
        if tier == "thorough" and fmt == "f64":
            for x in grid:
                for y in grid:
                    out.append(G.line("bmul", fmt, "B.o", [], x + y))
                    out.append(G.line("bcomul", fmt, "B.o", [], x + y))
        else:
            for _ in range(700 if tier == "quick" else 20000):
                x, y = rng.choice(grid), rng.choice(grid)
                out.append(G.line(rng.choice(["bmul", "bcomul"]), fmt, "B.o", [], x + y))
        N = 400 if tier == "quick" else 20000
        for _ in range(N):
            den = rng.choice([16, 32, 64])
            x, y, z = G.rand_bop(rng, den), G.rand_bop(rng, den), G.rand_bop(rng, den)
            r = rng.random()
            if r < 0.35:
                out.append(G.line(rng.choice(["bmul", "bcomul"]), fmt, "B.o", [], x + y))
            else:
                out.append(G.line("blaw", fmt, "B.o", [rng.randint(0, 5)], x + y + z))
        # dyadic masses with base rates at the ends of [0,1]: 0, 2^-k and 3*2^-k far below eps, 1-2^-k up to the last ulp
        # below 1, and 1 (all exactly representable, so the laws are checked exactly where 1-ax*ay or ax+ay-ax*ay is tiny)
        kmax_lo, kmax_hi = (300, 52) if fmt == "f64" else (100, 23)

        def end_rate():
            z = rng.random()
            if z < 0.12:
                return Fr(0)
            if z < 0.24:
                return Fr(1)
            if z < 0.62:
                return Fr(rng.choice([1, 3]), 2 ** rng.randint(8, kmax_lo))
            return 1 - Fr(1, 2 ** rng.randint(8, kmax_hi))
        for _ in range(N):
            den = rng.choice([8, 16, 64])
            ops3 = []
            for _k in range(3):
                w = G.rand_bop(rng, den)
                if rng.random() < 0.8:
                    w[3] = end_rate()
                ops3.append(w)
            x, y, z = ops3
            if rng.random() < 0.35:
                out.append(G.line(rng.choice(["bmul", "bcomul"]), fmt, "B.o", [], x + y))
            else:
                out.append(G.line("blaw", fmt, "B.o", [rng.randint(0, 5)], x + y + z))
        for _ in range(N // 2):
            x, y, z = G.float_bop(rng, fmt), G.float_bop(rng, fmt), G.float_bop(rng, fmt)
            if rng.random() < 0.4:
                out.append(G.line(rng.choice(["bmul", "bcomul"]), fmt, "B.o", [], x + y))
            else:
                out.append(G.line("blaw", fmt, "B.o", [rng.randint(0, 5)], x + y + z))

        # SUBNORMAL base rates (comul divides by a = ax + ay - ax*ay, which is then subnormal too): with the base rates as
        # factors of the numerators their bits are lost before the division restores the scale, and the renormalisation
        # turns the garbage into a well-formed opinion with a wrong belief mass (0.52 for 0.34; found by the second bug
        # hunt, repaired in comul by forming ax/a, ay/a first).  Dyadic masses, exactly well-formed operands.
        smax = 1074 if fmt == "f64" else 149
        smin = 1022 if fmt == "f64" else 126
        for _ in range(N // 4):
            den = rng.choice([8, 16, 64])
            x, y = G.rand_bop(rng, den), G.rand_bop(rng, den)
            x[3] = Fr(rng.choice([1, 1, 3]), 2 ** rng.randint(smin - 8, smax))
            z = rng.random()
            y[3] = Fr(0) if z < 0.25 else Fr(rng.choice([1, 1, 3, 5]), 2 ** rng.randint(smin - 8, smax))
            if G.round_fmt(fmt, float(x[3])) != float(x[3]) or G.round_fmt(fmt, float(y[3])) != float(y[3]):
                continue
            if rng.random() < 0.5:
                x, y = y, x
            r = rng.random()
            if r < 0.6:
                out.append(G.line("bcomul", fmt, "B.o", [], x + y))
            elif r < 0.8:
                out.append(G.line("bmul", fmt, "B.o", [], x + y))
            else:
                out.append(G.line("blaw", fmt, "B.o", [rng.choice([2, 3])], x + y + G.rand_bop(rng, den)))
        # BOTH base rates near 1 at non-dyadic values: mul divides by 1 - ax*ay, which must not be taken from the rounded product
        # (repair 003f05d; seeded C12_r4A re-introduces `1.0 - a` behind the renormalisation, which hides the panic but not the
        # error eps / (1 - ax*ay) of the quotient terms); dually both near 0 for comul
        for _ in range(N // 2):
            x, y = G.float_bop(rng, fmt), G.float_bop(rng, fmt)
            hi = 12 if fmt == "f64" else 5
            for w in (x, y):
                w[3] = G.round_fmt(fmt, 1.0 - 10.0 ** (-rng.uniform(2, hi)))
            if rng.random() < 0.3:
                x[3], y[3] = G.round_fmt(fmt, 1.0 - x[3]), G.round_fmt(fmt, 1.0 - y[3])
                out.append(G.line("bcomul", fmt, "B.o", [], x + y))
            else:
                out.append(G.line("bmul", fmt, "B.o", [], x + y))

        def operand():
            z = rng.random()
            if z < 0.35:
                return list(rng.choice(grid))
            if z < 0.7:
                return G.rand_bop(rng, rng.choice([16, 32, 64]))
            if z < 0.8:
                # disbelief above belief, base rate away from 1/2, uncertainty present (dyadic: exactly well-formed)
                den = rng.choice([8, 16, 64])
                u = rng.randint(1, den - 2)
                d = rng.randint((den - u) // 2 + 1, den - u)
                return [Fr(den - u - d, den), Fr(d, den), Fr(u, den), Fr(rng.choice([1, 2, 3, den - 3, den - 2, den - 1]), den)]
            return G.float_bop(rng, fmt)
        # the projection() METHOD (variant `p`; bproj for single opinions, also the nearly dogmatic / nearly vacuous ones)
        for _ in range(N):
            x, y = operand(), operand()
            out.append(G.line(rng.choice(["bmul", "bcomul"]), fmt, "B.o.p", [], x + y))
        for _ in range(N // 2):
            x = operand()
            if rng.random() < 0.25:
                u = G.round_fmt(fmt, 10.0 ** (-rng.uniform(3, 15 if fmt == "f64" else 6.5)))
                if rng.random() < 0.5:
                    u = G.round_fmt(fmt, 1.0 - u)
                rest = G.round_fmt(fmt, 1.0 - u)
                b = G.round_fmt(fmt, rest * rng.choice([0.0, 0.25, 0.5, 1.0, rng.random()]))
                x = [b, G.round_fmt(fmt, rest - b), u, x[3]]
            out.append(G.line("bproj", fmt, "B.o", [], x))
        # aliased operands: the very same object on both sides
        for _ in range(N):
            x, z = operand(), operand()
            r = rng.random()
            if r < 0.5:
                out.append(G.line(rng.choice(["bmul", "bcomul"]), fmt, rng.choice(["B.o.alias", "B.o.p.alias"]), [], x + x))
            else:
                out.append(G.line("blaw", fmt, "B.o.alias", [rng.randint(0, 5)], x + x + z))
    return out


def search(rng, ops, broken):
    return cases(rng, "quick") * 1


# tie theorems (substrings of SLV.Gen.*Tie theorem names) this property's operators depend on
TIE = ['gen_mul_eq', 'gen_comul_eq', 'gen_projection_eq', 'gen_check_simplex_eq', 'gen_check_base_rate_eq', 'BSimplex_try_new', 'gen_try_new_eq', 'gen_new_eq', 'gen_is_in_range_eq', 'gen_in_unit_interval_eq', 'gen_is_one_eq', 'gen_is_zero_eq', 'gen_check_unit_interval_eq', 'gen_check_is_one_eq']
