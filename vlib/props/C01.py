"""C01 — checked constructors admit exactly the well-formed opinions."""
from fractions import Fraction as Fr
from .. import gen as G
from .common import TRUSTED, ASSUMPTIONS, LEVEL_NOTE, TECHNIQUE

LEVEL = "proof"
THEOREMS = ["C01_inUnit_iff", "C01_simplex_accept_iff", "C01_opinion_accept_iff", "C01_bop_accept_iff", "C01_accepts_wf",
            "C01_rejects_special", "C01_vacuous_iff", "C01_dogmatic_iff",
            "F_tryNew_rejects_special", "F32_tryNew_rejects_special", "F_bop_tryNew_rejects_special",
            "Guards_isZero_eq_ulpsEq", "Guards_isOne_eq_ulpsEq", "Guards_inUnit_eq_isInRange"]
EXTRA_MODULES = [("SLV.Props.FloatSpecials", "F"), ("SLV.Props.Guards", "Guards_")]
RULE = ("simplex_new / opinion_new / bsimplex_new / bop_new through try_new, new, TryFrom tuples and into_opinion: well-formed dyadic "
        "and float tuples; each constraint violated singly (±k ulps k=0..8 around 0 and 1 for every component and for the sums, and by "
        "visible margins) and jointly; NaN, ±inf, -0.0, subnormals; n=1..4; families A/M/D/N; f32+f64; each tuple is run through "
        "try_new AND new (cross-case: new panics iff try_new errs). Every accepted simplex / opinion also reports is_vacuous / "
        "is_dogmatic through each borrowed view (as_ref, OpinionRef::from(&w), OpinionRef::from((&simplex,&base_rate))) and through "
        "the views' round trips (cloned, into_opinion), which must answer as the owner and store the same numbers; a dedicated "
        "stream puts the uncertainty within a few ulps of 0 and of 1 (k*eps/2, subnormals, -eps/2, 1-k*eps/2, 1+k*eps) in every "
        "family and entry point. opinion_new also over 2-D / 3-D containers (families M2/M3/D2/D3/N2/N3, shapes 1x2..2x2x3, cells "
        "read through the index operator). non-trivial = distinct tuple, accepted or rejected")
EXHAUSTIVE = {}
CROSS_GROUPS = [0]
LEVEL_TEXT = ("Kernel-checked iff-characterisation of acceptance for every n and every extended-rational tuple (finite, ±inf, NaN): "
              "accepted ⇔ all components finite, in [-eps, 1+4eps], sums in [1-2eps, 1+4eps]; stored unchanged; label of the first failing "
              "check; vacuous/dogmatic predicates. Tied to the real constructors (all entry points, families, precisions) by exact "
              "Boolean agreement of accept/reject with the bit-level twin and the value-level model, plus the theorem's predicates on the "
              "implementation's answers. In addition, at the bit-level float semantics (Lean's kernel-visible IEEE model of Float/Float32, "
              "the twin of the Rust f64/f32 code) every NaN or infinity in any position is rejected, for every n (FloatSpecials), and the "
              "closed-form guards of the exact model are proved equal to the generic ulps_eq definition (Guards). Rounding of the float sum "
              "inside the ±n·eps band is covered by the tie only.")


def nontrivial(r):
    return r.get("icls") in ("ok", "err", "panic")


SPECIALS = [float("nan"), float("inf"), float("-inf"), -0.0]


def tuple_case(rng, fmt, n, hasA):
    """returns list of floats b[n] u (a[n])"""
    e = G.EPS[fmt]
    den = rng.choice([4, 8, 16, 64])
    b, u = G.rand_simplex(rng, n, den, rng.choice([None, "int", "vac", "dog"]))
    a = G.rand_dist(rng, n, den)
    vals = [float(x) for x in b] + [float(u)] + ([float(x) for x in a] if hasA else [])
    mode = rng.random()
    if mode < 0.25:
        return vals
    if mode < 0.35:
        bb, uu = G.float_simplex(rng, fmt, n)
        return bb + [uu] + (G.float_dist(rng, fmt, n) if hasA else [])
    k = rng.randrange(len(vals))
    if mode < 0.6:      # +-k ulps on one component (changes the sum by k ulps as well)
        steps = rng.randint(-8, 8)
        v = vals[k]
        vals[k] = G.step(fmt, v, steps) if v != 0 else (steps * 2.0 ** (-1074 if fmt == "f64" else -149) if rng.random() < 0.5 else steps * e / 2)
        return vals
    if mode < 0.75:     # visible margin on one component
        vals[k] = vals[k] + rng.choice([0.1, -0.1, 1e-6, -1e-6, 1e-3, 0.5, -0.5, 1.0])
        return vals
    if mode < 0.87:     # special value
        vals[k] = rng.choice(SPECIALS + [5e-324, 1e-310] if fmt == "f64" else SPECIALS + [1e-45, 1e-40])
        return vals
    # joint violations
    for _ in range(rng.randint(2, 3)):
        vals[rng.randrange(len(vals))] += rng.choice([0.25, -0.25, 2 * e, -2 * e, 6 * e])
    return vals


def edge_u_tuple(rng, fmt, n, hasA):
    """accepted tuples whose uncertainty sits within a few ulps of 0 or of 1: inside the predicates' tolerance bands and just outside"""
    e = G.EPS[fmt]
    tiny = 2.0 ** -1074 if fmt == "f64" else 2.0 ** -149
    den = rng.choice([4, 8, 16])
    if rng.random() < 0.5:
        u = rng.choice([1.0 - k * e / 2 for k in range(0, 9)] + [1.0 + e, 1.0 + 2 * e, 1.0 + 4 * e])
        b = [0.0] * n
        if u < 1.0:
            b[rng.randrange(n)] = 1.0 - u          # exact: a multiple of eps/2
    else:
        u = rng.choice([k * e / 2 for k in range(0, 7)] + [tiny, 2 * tiny, e * e, -e / 2, -e, 1e-30])
        b = [float(x) for x in G.rand_simplex(rng, n, den, "dog")[0]]
    return b + [u] + ([float(x) for x in G.rand_dist(rng, n, den)] if hasA else [])


def cases(rng, tier):
    CROSS_GROUPS[0] = 0
    out = []
    for fmt in ("f64", "f32"):
        N = 1500 if tier == "quick" else 40000
        # uncertainty within a few ulps of 0 / 1, through every family and entry point (predicates on borrowed views)
        for _ in range(N // 8):
            gid = CROSS_GROUPS[0]; CROSS_GROUPS[0] += 1
            r = rng.random()
            if r < 0.3:
                fam, sh, n = G.nd_family(rng, 8)
                vals = edge_u_tuple(rng, fmt, n, True)
                for k, ent in enumerate(("try", "new")):
                    out.append((G.line("opinion_new", fmt, "%s.o.%s" % (fam, ent), [n] + sh, vals), ("tn", gid, k)))
                continue
            n = rng.choice([1, 2, 3, 4])
            fam = rng.choice(G.FAMS_1D)
            if r < 0.5:
                vals = edge_u_tuple(rng, fmt, n, False)
                ents = ["try", "new"] + (["tf"] if fam in ("A", "D", "N") else [])
                for k, ent in enumerate(ents):
                    out.append((G.line("simplex_new", fmt, "%s.o.%s" % (fam, ent), [n], vals), ("tn", gid, k)))
            else:
                vals = edge_u_tuple(rng, fmt, n, True)
                ents = ["try", "new"] + (["tf"] if fam in ("A", "D", "N") else []) + (["up"] if fam == "A" else [])
                for k, ent in enumerate(ents):
                    out.append((G.line("opinion_new", fmt, "%s.o.%s" % (fam, ent), [n], vals), ("tn", gid, k)))
        # checked constructors over 2-D / 3-D containers
        for _ in range(N // 8):
            gid = CROSS_GROUPS[0]; CROSS_GROUPS[0] += 1
            fam, sh, n = G.nd_family(rng)
            vals = tuple_case(rng, fmt, n, True)
            for k, ent in enumerate(("try", "new")):
                out.append((G.line("opinion_new", fmt, "%s.o.%s" % (fam, ent), [n] + sh, vals), ("tn", gid, k)))
        for _ in range(N):
            r = rng.random()
            gid = CROSS_GROUPS[0]; CROSS_GROUPS[0] += 1
            if r < 0.25:
                op = rng.choice(["bsimplex_new", "bop_new"])
                vals = tuple_case(rng, fmt, 2, False)
                if op == "bop_new":
                    vals = vals + [rng.choice([0.0, 1.0, 0.5, -0.1, 1.1, float("nan"), 1 + 4 * G.EPS[fmt], 1 + 6 * G.EPS[fmt], -G.EPS[fmt], -2 * G.EPS[fmt]])]
                for k, ent in enumerate(("try", "new")):
                    out.append((G.line(op, fmt, "B.o." + ent, [], vals), ("tn", gid, k)))
                continue
            n = rng.choice([1, 2, 3, 4])
            fam = rng.choice(G.FAMS_1D)
            if r < 0.55:
                vals = tuple_case(rng, fmt, n, False)
                ents = ["try", "new"] + (["tf"] if fam in ("A", "D", "N") else [])
                for k, ent in enumerate(ents):
                    out.append((G.line("simplex_new", fmt, "%s.o.%s" % (fam, ent), [n], vals), ("tn", gid, k)))
            else:
                vals = tuple_case(rng, fmt, n, True)
                ents = ["try", "new"] + (["tf"] if fam in ("A", "D", "N") else []) + (["up"] if fam == "A" else [])
                for k, ent in enumerate(ents):
                    out.append((G.line("opinion_new", fmt, "%s.o.%s" % (fam, ent), [n], vals), ("tn", gid, k)))
    return out


def cross(res):
    fails = []
    groups = {}
    for i, r in enumerate(res):
        mt = r.get("meta")
        if mt:
            groups.setdefault(mt[1], []).append(i)
    for gid, idx in groups.items():
        accepted = set()
        for i in idx:
            cls = res[i]["impl"].split(" ")[0]
            if cls == "unsupported":
                continue
            accepted.add(cls == "ok")
        if len(accepted) > 1:
            fails.append({"name": "C01.new_panics_iff_try_new_errs", "indices": idx})
    return fails


def search(rng, ops, broken):
    return cases(rng, "quick")


# tie theorems (substrings of SLV.Gen.*Tie theorem names) this property's operators depend on
TIE = ['gen_check_simplex_eq', 'gen_check_base_rate_eq', 'BSimplex_try_new', 'gen_try_new_eq', 'gen_new_eq', 'is_vacuous', 'is_dogmatic', 'check_simplex', 'check_base_rate', 'try_new', 'into_opinion', 'is_in_range', 'in_unit_interval', 'is_one', 'is_zero', 'check_unit_interval', 'check_is_one', 'gen_is_in_range_eq', 'gen_in_unit_interval_eq', 'gen_is_one_eq', 'gen_is_zero_eq', 'gen_check_unit_interval_eq', 'gen_check_is_one_eq']
