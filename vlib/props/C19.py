"""C19 — self-validating operators never reject a correctly rounded result."""
from fractions import Fraction as Fr
from .. import gen as G
from .common import TRUSTED, ASSUMPTIONS, LEVEL_NOTE, TECHNIQUE
from . import C14 as _C14
from . import C12 as _C12

LEVEL = "proof"
THEOREMS = ['C19_mul_exact_ok', 'C19_comul_exact_ok', 'C19_mul_tolerated_ok', 'C19_comul_tolerated_ok', 'C19_deduce_exact_ok', 'C19_trans_exact_ok', 'C19_product_exact_ok', 'C19_cfuse_exact_ok', 'C19_afuse_exact_ok', 'C19_wfuse_exact_ok', 'C19_legit_failures', 'C19_exact_wf']
RULE = ("bmul/bcomul on plain DECIMAL operands and blaw CHAINS on the ninths / tenths / twelfths grids (streams of C12, incl. the enumerated "
        "operand tuples that mul / comul rejected before repair d46c983: gen/corpus/binorm_hot.txt), and bmul/bcomul/blaw on operands whose "
        "masses add up to 1 + k*eps/2 for every k the constructors accept (-4 .. +8: the operands' deviation must not be passed on to the "
        "self-check); blaw (both sides of a law of mul / comul, base rates in [2^-10, 1 - 2^-10]) must not fail on operands that are "
        "well-formed within the constructors' tolerance; "
        "bdeduce on plain DECIMAL operands (0.1 / 0.01 grids, rates 0.001 .. 0.999) and with small rates (down to 1e-8) / conditionals "
        "10^-k apart; bfold: LEFT FOLDS acc = acc.op(next)? of cfuse / afuse / wfuse over k = 3..10 non-dogmatic operands (dyadic 1/8 .. 1/64 "
        "and arbitrary floats; the result of one call is the operand of the next: a failure at any step is legitimate only if two operands "
        "are exactly dogmatic, for cfuse); "
        "unlabelled Product2/3 on the small-base-rate stream of C06 (one base-rate entry 2^-k under a heavy mass, uncertainties 2^-j, other "
        "factors (nearly) dogmatic; must never fail); "
        "unlabelled Product2/3 with a vacuous or nearly vacuous factor (zero belief on its dominant base-rate element) times arbitrary float "
        "factors, plus the 140 enumerated operand tuples on which they panicked with a belief-mass residue of -1.5 .. -4.5 eps before "
        "repair b817f74 (gen/corpus/prodclamp_hot.txt; must never fail; strict clause C19.prod_masses_nonneg on every ok result); "
        "the nine binomial operators and the unlabelled Product2/3 on well-formed operands inside their documented domains: 1/8 grid "
        "(exhaustive pairs in thorough) and random dyadic grids (must never fail), arbitrary non-dyadic floats (every failure is "
        "classified through the hook by rejected label and distance from the admissible set: rounding residue <= 1e-9 vs ill-formed "
        "result); the five binary binomial operators also with variant `alias` (the same object as both operands); f32+f64. "
        "non-trivial = distinct operand tuple inside the domain")
EXHAUSTIVE = {}
LEVEL_TEXT = ("PARTIAL. Proved (Lean): for every self-validating operator the EXACT result is well-formed on the documented domain "
              "(theorems of C06, C10, C12, C13, C14 re-used), so every failure of the implementation other than the listed legitimate "
              "ones (cfuse of two dogmatic opinions, mul with ax*ay=1, comul with ax=ay=0, arguments outside [0,1]) is illegitimate - that "
              "classification is the theorem. Not proved: that floating-point residue stays inside the 4-ulp self-check; that clause is "
              "explored on grids and random floats, every failure classified with the hook, and listed in known_findings.txt when it is "
              "a genuine rounding rejection.")


def nontrivial(r):
    return r.get("oracle", "skip") != "skip"


# fold lengths: SHORT folds only.  The exact model evaluates every fold in rational arithmetic, where the base rate of a
# cumulative fold grows quadratically in size with the number of steps; many short folds give the statistical power
FOLD_K = [3, 5, 8, 10, 10, 10, 10]


def fold_operand(rng, fmt):
    """a non-dogmatic, non-vacuous binomial opinion: dyadic (1/8 .. 1/64) or arbitrary floats with u in (0.02, 0.98)"""
    if rng.random() < 0.6:
        return G.rand_bop(rng, rng.choice([8, 8, 16, 32, 64]), "int")
    while True:
        w = G.float_bop(rng, fmt)
        if 0.02 < w[2] < 0.98:
            return w


def fold_cases(rng, fmt, n, variant="B.o", kinds=(0, 0, 0, 1, 2)):
    """`bfold`: left fold of cfuse / afuse / wfuse over k = 3..10 operands (shared with C13, variant B.o.vs)"""
    out = []
    for _ in range(n):
        kind = rng.choice(kinds)
        k = rng.choice(FOLD_K)
        z = rng.random()
        if z < 0.15:                      # the same few operands over and over (x, x, z, s, ..)
            pool = [fold_operand(rng, fmt) for _ in range(rng.randint(1, 3))]
            ws = [rng.choice(pool) for _ in range(k)]
        else:
            ws = [fold_operand(rng, fmt) for _ in range(k)]
        sc = [v for w in ws for v in w]
        if kind != 0:
            sc.append(rng.choice([Fr(1, 2), Fr(1, 4), rng.random()]))
        out.append(G.line("bfold", fmt, variant, [kind, k], sc))
    return out


def band_operand(rng, fmt):
    """a binomial opinion whose masses add up to 1 + k*eps/2 EXACTLY (k = -4 .. -1, or +2, +4, +6, +8: the whole window
    [1 - 2 eps, 1 + 4 eps] that the constructors accept): a dyadic or plain decimal operand with one non-zero mass moved by k
    half-ulps of 1; base rate inside [1/64, 63/64] or j/100"""
    e = Fr(G.EPS[fmt])
    while True:
        if rng.random() < 0.6:
            w = G.rand_bop(rng, rng.choice([8, 16, 64]))
            w[3] = Fr(rng.randint(1, 63), 64)
        else:
            w = [Fr(v) for v in _C12.decimal_operand(rng, fmt)]
            if sum(w[:3]) != 1:
                continue
        k = rng.choice([-4, -4, -3, -3, -2, -1, 2, 4, 6, 8])
        idx = [i for i in range(3) if w[i] > 0]
        i = rng.choice(idx)
        w = list(w)
        w[i] = w[i] + k * e / 2
        if w[i] < 0 or any(Fr(G.round_fmt(fmt, float(v))) != v for v in w):
            continue
        b, d, u = (G.round_fmt(fmt, float(v)) for v in w[:3])
        if Fr(_C12._fsum3(fmt, b, d, u)) != 1 + k * e / 2:
            continue
        return w


def band_cases(rng, fmt, n):
    """bmul / bcomul / blaw on operands at the edges of (and inside) the window of the self-check: before repair d46c983 the operands'
    deviation from 1 was passed on to the result almost undamped"""
    out = []
    for _ in range(n):
        x, y, z = band_operand(rng, fmt), band_operand(rng, fmt), band_operand(rng, fmt)
        if rng.random() < 0.7:
            out.append(G.line(rng.choice(["bmul", "bcomul"]), fmt, "B.o", [], x + y))
        else:
            out.append(G.line("blaw", fmt, "B.o", [rng.choice([0, 1, 1, 2, 3, 3, 4, 5])], x + y + z))
    return out


def cases(rng, tier):
    out = []
    grid = G.grid_bops(8)
    for fmt in ("f64", "f32"):
        N = 2500 if tier == "quick" else 60000
        # mul / comul on plain decimal operands, chains on non-dyadic grids, the enumerated pre-repair rejections of both families, and
        # operands anywhere in the constructors' window (streams added with repair d46c983)
        out += _C12.hot_cases(fmt, False) + _C12.decimal_cases(rng, fmt, N // 5) + _C12.chain_cases(rng, fmt, N // 5)
        out += band_cases(rng, fmt, N * 2 // 5)
        # plain decimal operands and small rates for deduce (streams of C14; here every operand tuple that is well-formed within
        # the constructors' tolerance counts, and a rejection by rounding residue is this property's finding)
        out += [ln for ln in _C14.decimal_streams(rng, fmt, N, N // 2) if ln.startswith("bdeduce ")]
        # folds of the binomial fusions: the result of one call is the operand of the next
        out += fold_cases(rng, fmt, N * 2 // 5 if tier == "quick" else N // 4)
        # unlabelled (self-validating) products with one small joint base rate: the stream of C06 (G.small_rate_factors; exactly
        # well-formed dyadic factors, non-dyadic ones within the constructors' tolerance; 60% steered to operands on which the
        # cancelling quotient of the products before repair abca806 came out visibly wrong, there: negative, and Opinion::new panicked)
        for _ in range(N // 10):
            ar = rng.choice([2, 2, 3])
            ns, ws = G.small_rate_factors(rng, fmt, ar, hazard=rng.random() < 0.6)
            out.append(G.line("prod2" if ar == 2 else "prod3", fmt, "M." + rng.choice(["o", "r"]), ns, [x for w in ws for x in w]))
        # products with a vacuous / nearly vacuous factor: the enumerated pre-repair rejections (belief-mass residue below -eps) and a
        # random stream of the same shape (repair R14)
        out += G.prodclamp_hot(fmt)
        for _ in range(N // 5):
            op, ns, ws = G.vacuous_factor_product(rng, fmt)
            out.append(G.line(op, fmt, "M." + rng.choice(["o", "r"]), ns, ws))
        if tier == "thorough" and fmt == "f64":
            for x in grid:
                for y in rng.sample(grid, 40):
                    for op in ("bmul", "bcomul", "bcfuse"):
                        out.append(G.line(op, fmt, "B.o", [], x + y))
                    for op in ("bafuse", "bwfuse"):
                        out.append(G.line(op, fmt, "B.o", [], x + y + [Fr(1, 2)]))
        for _ in range(N):
            r = rng.random()
            if r < 0.3:
                x, y = rng.choice(grid), rng.choice(grid)
            elif r < 0.5:
                den = rng.choice([16, 32, 64])
                x, y = G.rand_bop(rng, den), G.rand_bop(rng, den)
            else:
                x, y = G.float_bop(rng, fmt), G.float_bop(rng, fmt)
            op = rng.choice(["bmul", "bcomul", "bcfuse", "bafuse", "bwfuse", "bdeduce", "btrans_unc", "btrans_bsr",
                             "btrans_opp", "prod2", "prod2", "prod3"])
            if op in ("bmul", "bcomul", "bcfuse"):
                out.append(G.line(op, fmt, "B.o", [], list(x) + list(y)))
            elif op in ("bafuse", "bwfuse"):
                out.append(G.line(op, fmt, "B.o", [], list(x) + list(y) + [rng.choice([Fr(1, 2), Fr(1, 4), rng.random()])]))
            elif op == "bdeduce":
                if r < 0.5:
                    out.append(G.line(op, fmt, "B.o", [], _C14._case(rng, rng.choice([8, 16, 64]))))
                else:
                    c0b, c0u = G.float_simplex(rng, fmt, 2)
                    c1b, c1u = G.float_simplex(rng, fmt, 2)
                    out.append(G.line(op, fmt, "B.o", [], list(x) + c0b + [c0u] + c1b + [c1u] + [0.05 + 0.9 * rng.random()]))
            elif op in ("btrans_unc", "btrans_bsr"):
                out.append(G.line(op, fmt, "B.o", [], list(x) + [rng.choice([Fr(0), Fr(1), Fr(rng.randint(0, 8), 8), rng.random()])]))
            elif op == "btrans_opp":
                tb = rng.random(); td = (1 - tb) * rng.random()
                if r < 0.5:
                    tb = Fr(rng.randint(0, 8), 8); td = Fr(rng.randint(0, 8 - tb.numerator * (8 // tb.denominator)), 8)
                out.append(G.line(op, fmt, "B.o", [], list(x) + [tb, td]))
            else:
                k = 2 if op == "prod2" else 3
                ns = [rng.choice([2, 3]) for _ in range(k)]
                ws = []
                for n in ns:
                    if r < 0.5:
                        ws += G.rand_opinion(rng, n, rng.choice([4, 8, 16]), G.rand_kind(rng))
                    elif r < 0.75:
                        b, u = G.float_simplex(rng, fmt, n)
                        ws += b + [u] + G.float_dist(rng, fmt, n)
                    else:   # dogmatic / vacuous float operands and zero base-rate entries (where the product used to yield -inf)
                        ws += G.float_opinion_kind(rng, fmt, n)
                out.append(G.line(op, fmt, "M." + rng.choice(["o", "r"]), ns, ws))
        # aliased operands: x op x with the very same object
        for _ in range(N // 8):
            r = rng.random()
            x = rng.choice(grid) if r < 0.3 else G.rand_bop(rng, rng.choice([16, 32, 64])) if r < 0.5 else G.float_bop(rng, fmt)
            op = rng.choice(["bmul", "bcomul", "bcfuse", "bafuse", "bwfuse"])
            extra = [rng.choice([Fr(1, 2), Fr(1, 4), rng.random()])] if op in ("bafuse", "bwfuse") else []
            out.append(G.line(op, fmt, "B.o.alias", [], list(x) + list(x) + extra))
    return out


def search(rng, ops, broken):
    return cases(rng, "quick")


# tie theorems (substrings of SLV.Gen.*Tie theorem names) this property's operators depend on
TIE = ['gen_mul_eq', 'gen_comul_eq', 'cfuse', 'afuse', 'wfuse', 'gen_deduce_eq', 'trans_', 'product', 'gen_check_simplex_eq', 'gen_check_base_rate_eq', 'BSimplex_try_new', 'gen_try_new_eq', 'gen_new_eq', 'gen_is_in_range_eq', 'gen_in_unit_interval_eq', 'gen_is_one_eq', 'gen_is_zero_eq', 'gen_check_unit_interval_eq', 'gen_check_is_one_eq']
