"""C19 — self-validating operators never reject a correctly rounded result."""
from fractions import Fraction as Fr
from .. import gen as G
from .common import TRUSTED, ASSUMPTIONS, LEVEL_NOTE, TECHNIQUE
from . import C14 as _C14

LEVEL = "proof"
THEOREMS = ['C19_mul_exact_ok', 'C19_comul_exact_ok', 'C19_deduce_exact_ok', 'C19_trans_exact_ok', 'C19_product_exact_ok', 'C19_cfuse_exact_ok', 'C19_afuse_exact_ok', 'C19_wfuse_exact_ok', 'C19_legit_failures', 'C19_exact_wf']
RULE = ("the nine binomial operators and the unlabelled Product2/3 on well-formed operands inside their documented domains: 1/8 grid "
        "(exhaustive pairs in thorough) and random dyadic grids (must never fail), arbitrary non-dyadic floats (every failure is "
        "classified through the hook by rejected label and distance from the admissible set: rounding residue <= 1e-9 vs ill-formed "
        "result); the five binary binomial operators also with variant `alias` (the same object as both operands); f32+f64. "
        "non-trivial = distinct operand tuple inside the domain")
EXHAUSTIVE = {}
LEVEL_TEXT = ("PARTIAL. Proved (Lean): for every self-validating operator the EXACT result is well-formed on the documented domain "
              "(theorems of C06, C10, C12, C13, C14 re-used), so every failure of the implementation other than the listed legitimate "
              "ones (cfuse of two dogmatic opinions, mul with ax*ay=1, comul with ax=ay=0, arguments outside [0,1]) is illegitimate - that "
              "classification is the theorem. Not proved: that floating-point residue stays inside the 4-ulp self-check; that clause is "
              "explored on grids and random floats, every failure classified with the hook, and listed in known_findings.txt when it is "
              "a genuine rounding rejection.")


def nontrivial(r):
    return r.get("oracle", "skip") != "skip"


def cases(rng, tier):
    out = []
    grid = G.grid_bops(8)
    for fmt in ("f64", "f32"):
        N = 2500 if tier == "quick" else 60000
        if tier == "thorough" and fmt == "f64":
            for x in grid:
                for y in rng.sample(grid, 40):
                    for op in ("bmul", "bcomul", "bcfuse"):
                        out.append(G.line(op, fmt, "B.o", [], x + y))
                    for op in ("bafuse", "bwfuse"):
                        out.append(G.line(op, fmt, "B.o", [], x + y + [Fr(1, 2)]))
        for _ in range(N):
            r = rng.random()
            if r < 0.3:
                x, y = rng.choice(grid), rng.choice(grid)
            elif r < 0.5:
                den = rng.choice([16, 32, 64])
                x, y = G.rand_bop(rng, den), G.rand_bop(rng, den)
            else:
                x, y = G.float_bop(rng, fmt), G.float_bop(rng, fmt)
            op = rng.choice(["bmul", "bcomul", "bcfuse", "bafuse", "bwfuse", "bdeduce", "btrans_unc", "btrans_bsr",
                             "btrans_opp", "prod2", "prod2", "prod3"])
            if op in ("bmul", "bcomul", "bcfuse"):
                out.append(G.line(op, fmt, "B.o", [], list(x) + list(y)))
            elif op in ("bafuse", "bwfuse"):
                out.append(G.line(op, fmt, "B.o", [], list(x) + list(y) + [rng.choice([Fr(1, 2), Fr(1, 4), rng.random()])]))
            elif op == "bdeduce":
                if r < 0.5:
                    out.append(G.line(op, fmt, "B.o", [], _C14._case(rng, rng.choice([8, 16, 64]))))
                else:
                    c0b, c0u = G.float_simplex(rng, fmt, 2)
                    c1b, c1u = G.float_simplex(rng, fmt, 2)
                    out.append(G.line(op, fmt, "B.o", [], list(x) + c0b + [c0u] + c1b + [c1u] + [0.05 + 0.9 * rng.random()]))
            elif op in ("btrans_unc", "btrans_bsr"):
                out.append(G.line(op, fmt, "B.o", [], list(x) + [rng.choice([Fr(0), Fr(1), Fr(rng.randint(0, 8), 8), rng.random()])]))
            elif op == "btrans_opp":
                tb = rng.random(); td = (1 - tb) * rng.random()
                if r < 0.5:
                    tb = Fr(rng.randint(0, 8), 8); td = Fr(rng.randint(0, 8 - tb.numerator * (8 // tb.denominator)), 8)
                out.append(G.line(op, fmt, "B.o", [], list(x) + [tb, td]))
            else:
                k = 2 if op == "prod2" else 3
                ns = [rng.choice([2, 3]) for _ in range(k)]
                ws = []
                for n in ns:
                    if r < 0.5:
                        ws += G.rand_opinion(rng, n, rng.choice([4, 8, 16]), G.rand_kind(rng))
                    elif r < 0.75:
                        b, u = G.float_simplex(rng, fmt, n)
                        ws += b + [u] + G.float_dist(rng, fmt, n)
                    else:   # dogmatic / vacuous float operands and zero base-rate entries (where the product used to yield -inf)
                        ws += G.float_opinion_kind(rng, fmt, n)
                out.append(G.line(op, fmt, "M." + rng.choice(["o", "r"]), ns, ws))
        # aliased operands: x op x with the very same object
        for _ in range(N // 8):
            r = rng.random()
            x = rng.choice(grid) if r < 0.3 else G.rand_bop(rng, rng.choice([16, 32, 64])) if r < 0.5 else G.float_bop(rng, fmt)
            op = rng.choice(["bmul", "bcomul", "bcfuse", "bafuse", "bwfuse"])
            extra = [rng.choice([Fr(1, 2), Fr(1, 4), rng.random()])] if op in ("bafuse", "bwfuse") else []
            out.append(G.line(op, fmt, "B.o.alias", [], list(x) + list(x) + extra))
    return out


def search(rng, ops, broken):
    return cases(rng, "quick")


# tie theorems (substrings of SLV.Gen.*Tie theorem names) this property's operators depend on
TIE = ['gen_mul_eq', 'gen_comul_eq', 'cfuse', 'afuse', 'wfuse', 'gen_deduce_eq', 'trans_', 'product', 'gen_check_simplex_eq', 'gen_check_base_rate_eq', 'BSimplex_try_new', 'gen_try_new_eq', 'gen_new_eq', 'gen_is_in_range_eq', 'gen_in_unit_interval_eq', 'gen_is_one_eq', 'gen_is_zero_eq', 'gen_check_unit_interval_eq', 'gen_check_is_one_eq']
