"""C02 — belief fusion is closed over well-formed opinions and never panics."""
from .. import gen as G
from .C07 import close_pair_lines
from .common import TRUSTED, ASSUMPTIONS, default_nontrivial, LEVEL_NOTE, TECHNIQUE

LEVEL = "proof"
THEOREMS = ['C02_total', 'C02_simplex_wf', 'C02_simplex_wf_ecm', 'C02_base_rate_between', 'C02_base_rate_between_unconditional', 'C02_base_rate_shared', 'C02_base_rate_sum', 'C02_base_rate_sum_bound', 'C02_wf', 'C02_wf_ecm', 'C02_fuse_os', 'C02_fuse_ss',
            'C02_ecm_masses_nonneg', 'C02_ecm_masses_nonneg_gen', 'C02_wf_ecm_unconditional']
EXTRA_MODULES = [("SLV.Props.Guards", "C02_"), ("SLV.Props.C02Equal", ("C02_equal_entry_unchanged",))]
RULE = ("fuse / fuse_os / fuse_ss for the 4 operators (clauses: simplex well-formed, base rate sums to 1, every entry between the operands' entries, a shared base-rate object returned unchanged, and an entry on which the operands agree exactly BY VALUE returned exactly -- equal_entries_unchanged, with a stream of equal-valued non-dyadic base rates held in separate vectors): guard lattice (vacuous, dogmatic, tolerance-edge vacuous u=1-k*eps/2, "
        "tolerance-edge dogmatic, interior; base rates different / equal / within a few ulps / one shared object), dyadic grids "
        "(exhaustive den 4 for n=2,3 in thorough; random up to 1/64), uncertainty sweeps 1e-300..1e-3 and 1-1e-3..1-2^-52, "
        "arbitrary floats; base rates closer than ulps_eq! resolves (a small entry, 2^-8..2^-20 in f32 / ..2^-45 in f64, differing by "
        "eps/4..eps absolutely = up to 6 % of the entry, or an ordinary entry differing by 1..4 ulps; ECm mostly on operands where that "
        "state decides the maximal uncertainty); n=1..4; families A/M/D/N, styles o/r/asg; f32+f64. The same guard lattice and dyadic operands over "
        "2-D / 3-D domains: families M2/M3 (MArr2/MArr3), D2/D3 and N2/N3 (MArrD2/MArrD3, usize / newtype indices), shapes 1x2, 2x1, "
        "2x2, 1x3, 3x1, 2x3, 3x2, 1x2x2, 2x2x1, 2x1x2, 2x2x2, 1x2x3, 1x3x2, 2x1x3, 3x1x2, 2x2x3, styles o/r/asg/shared base rate; "
        "operands built with the containers' `new`, results read cell by cell through the index operator and compared (==) with an "
        "independently built container. ECm with the variant token acc (the harness also asks the crate's own checked constructors): "
        "operands whose base rates sum to exactly 1+k*eps, k=-2..4 (the band check_base_rate accepts; exact dyadic simplexes incl. "
        "vacuous; one shared base-rate object / the same object twice / equal values / different base rates; n=1..4 and the 2-D / 3-D "
        "families up to 8 cells) and non-dyadic normalised 4-cell shared base rates: whenever Opinion::try_new accepts both operands, "
        "Simplex::try_new must accept the fused simplex, and Opinion::try_new the fused opinion when the operands' base-rate values "
        "are equal (clause C02.ecm_result_accepted_by_constructor; with different base rates the un-normalised fused base rate may "
        "leave the band by rounding, e.g. sums 1+3eps and 1-2eps give 1-2.5eps: reported by the correspondence check as ill-conditioned, "
        "not required). STRICT sign clause C02.ecm_masses_nonneg (repair 8520ade): on every ok, finite ECm result whose operand entries are "
        "all >= 0 exactly and u1, u2 <= 1 every fused mass is >= 0 exactly and the fused u is in [0, 1] exactly (before the repair 0.4-3 % of "
        "ECm fusions on the dyadic / decimal grids returned a mass of about -eps/4); replay lines: ECm of ([0,0],1,[0,1]) and "
        "([1/8,1/2],3/8,[7/8,1/8]) in both orders, and two dogmatic operands sharing a = [eps, 1]. "
        "non-trivial = value returned, not both operands vacuous")
EXHAUSTIVE = {}
LEVEL_TEXT = ("Theorems over the exact model for every n and rational well-formed operands: fusion is total, the fused simplex is "
              "well-formed, every fused base-rate entry lies between the operands' entries and the base rate sums to 1 (no hypothesis "
              "on the base rates since the per-entry shortcut is taken at exactly equal entries only, repair c8a7116); every belief mass of an ECm "
              "fusion is >= 0 and the whole ECm result is a well-formed opinion without any hypothesis on the guard band (repair 8520ade: clamp), and on ALL "
              "operands of the exact semantics no ECm mass compares below zero when the un-clamped max_uncertainty does not. Tied to FuseOp::fuse / fuse_assign by the correspondence check over the guard lattice; "
              "well-formedness and betweenness are evaluated on the implementation's outputs (catch_unwind observes panics).")


def nontrivial(r):
    return r.get("icls") == "ok"


def fuse_case(rng, fmt, n=None, op=None):
    n = n or rng.choice([2, 2, 3, 3, 4, 1])
    op = rng.randint(0, 3) if op is None else op
    b1, u1, _ = G.guard_operand(rng, fmt, n)
    b2, u2, _ = G.guard_operand(rng, fmt, n)
    a1, a2, rel = G.base_rate_pair(rng, fmt, n)
    fam = rng.choice(G.FAMS_1D)
    r = rng.random()
    if r < 0.2:
        return G.line("fuse", fmt, fam + ".r", [n, op, 1], b1 + [u1] + a1 + b2 + [u2] + a1)
    if r < 0.3:
        var = fam + rng.choice([".o", ".r", ".o.asg"])
        return G.line("fuse_os", fmt, var, [n, op], b1 + [u1] + a1 + b2 + [u2])
    var = fam + rng.choice([".o", ".r", ".o.asg", ".r.asg"])
    return G.line("fuse", fmt, var, [n, op, 0], b1 + [u1] + a1 + b2 + [u2] + a2)


def fuse_case_nd(rng, fmt):
    """fusion over a 2-D / 3-D domain: guard-lattice or dyadic operands, every passing style"""
    fam, sh, n = G.nd_family(rng)
    op = rng.randint(0, 3)
    if rng.random() < 0.6:
        b1, u1, _ = G.guard_operand(rng, fmt, n)
        b2, u2, _ = G.guard_operand(rng, fmt, n)
        a1, a2, _ = G.base_rate_pair(rng, fmt, n)
        w1, w2 = b1 + [u1] + a1, b2 + [u2] + a2
    else:
        den = rng.choice([4, 8, 16, 64])
        w1 = G.rand_opinion(rng, n, den, G.rand_kind(rng))
        w2 = G.rand_opinion(rng, n, den, G.rand_kind(rng))
    if rng.random() < 0.15:
        return G.line("fuse", fmt, fam + ".r", [n, op, 1] + sh, w1 + w2[:n + 1] + w1[n + 1:])
    var = fam + rng.choice([".o", ".r", ".o.asg", ".r.asg"])
    return G.line("fuse", fmt, var, [n, op, 0] + sh, w1 + w2)


def cases(rng, tier):
    out = []
    for fmt in ("f64", "f32"):
        N = 1500 if tier == "quick" else 40000
        for _ in range(N):
            out.append(fuse_case(rng, fmt))
        for _ in range(N // 3):
            out.append(fuse_case_nd(rng, fmt))
        # dyadic grids
        if tier == "thorough":
            for n in (2, 3):
                sims = G.grid_simplexes(n, 4)
                dists = G.grid_dists(n, 4)
                for op in range(4):
                    for (b1, u1) in sims:
                        for (b2, u2) in sims:
                            a1, a2 = rng.choice(dists), rng.choice(dists)
                            out.append(G.line("fuse", fmt, "A.o", [n, op, 0], b1 + [u1] + a1 + b2 + [u2] + a2))
        for _ in range(N // 2):
            n = rng.choice([2, 3, 4])
            den = rng.choice([4, 8, 16, 64])
            w1 = G.rand_opinion(rng, n, den, G.rand_kind(rng))
            w2 = G.rand_opinion(rng, n, den, G.rand_kind(rng))
            out.append(G.line("fuse", fmt, rng.choice(G.FAMS_1D) + rng.choice([".o", ".r"]), [n, rng.randint(0, 3), 0], w1 + w2))
        for _ in range(N // 4):
            n = rng.choice([2, 3, 4])
            b1, u1 = G.float_simplex(rng, fmt, n)
            b2, u2 = G.float_simplex(rng, fmt, n)
            out.append(G.line("fuse", fmt, rng.choice(G.FAMS_1D) + ".o", [n, rng.randint(0, 3), 0],
                              b1 + [u1] + G.float_dist(rng, fmt, n) + b2 + [u2] + G.float_dist(rng, fmt, n)))
        for _ in range(N // 5):
            # tiny positive base-rate entries (ECm maximisation guards), and both operands at the last subnormals
            n = rng.choice([2, 3, 4])
            den = rng.choice([4, 8, 16])
            if rng.random() < 0.75:
                w1 = G.tiny_opinion(rng, fmt, G.rand_opinion(rng, n, den, rng.choice(["int", "any", "dog"])), n, "a")
                w2 = G.rand_opinion(rng, n, den, rng.choice(["int", "any", "dog"]))
                if rng.random() < 0.5:
                    w2 = G.tiny_opinion(rng, fmt, w2, n, "a")
                opn = rng.choice([0, 1, 1, 1, 2, 3])
            else:
                sub = 2.0 ** -1074 if fmt == "f64" else 2.0 ** -149
                def subn():
                    k = rng.choice([2, 4]) if n >= 4 else 2
                    b = [0.0] * n
                    for j in rng.sample(range(n), min(k, n)):
                        b[j] = 1.0 / min(k, n)
                    return b + [sub * rng.choice([1, 2])] + [float(x) for x in G.rand_dist(rng, n, den)]
                w1, w2 = subn(), subn()
                opn = rng.randint(0, 3)
            out.append(G.line("fuse", fmt, rng.choice(G.FAMS_1D) + rng.choice([".o", ".r", ".o.asg"]), [n, opn, 0], list(w1) + list(w2)))
        # base rates closer than `ulps_eq!` resolves: a small entry (outside the (0, eps] band) differing by at most eps absolutely, i.e. by
        # per cents of the entry, or an ordinary entry differing by 1..4 ulps (the per-entry shortcut of compute_base_rate before
        # repairs c0b2ed5 / c8a7116 fired on these); ECm mostly on operands where that state decides the maximal uncertainty
        out += close_pair_lines(rng, fmt, N // 6)
        for _ in range(N // 8):
            # EQUAL base-rate values held in two separate vectors (flag same = 0), non-dyadic entries, dyadic and arbitrary uncertainties:
            # every entry must be taken over exactly (clause equal_entries_unchanged; seeded variant C02_r5B)
            n = rng.choice([2, 3, 4])
            den = rng.choice([4, 8, 16])
            if rng.random() < 0.5:
                b1, u1 = G.float_simplex(rng, fmt, n)
                b2, u2 = G.float_simplex(rng, fmt, n)
                b1, b2 = list(b1), list(b2)
            else:
                bb1, u1 = G.rand_simplex(rng, n, den, rng.choice(["int", "int", "any", "dog"]))
                bb2, u2 = G.rand_simplex(rng, n, den, rng.choice(["int", "int", "any", "dog"]))
                b1, b2 = list(bb1), list(bb2)
            a = G.float_dist(rng, fmt, n)
            if rng.random() < 0.3:           # only some entries equal
                a2 = G.float_dist(rng, fmt, n)
                j = rng.randrange(n)
                a2 = list(a2); a2[j] = a[j]
            else:
                a2 = list(a)
            out.append(G.line("fuse", fmt, rng.choice(G.FAMS_1D) + rng.choice([".o", ".r", ".o.asg"]), [n, rng.choice([0, 1, 2, 3, 3]), 0],
                              b1 + [u1] + list(a) + b2 + [u2] + list(a2)))
        for _ in range(N // 10):
            n = rng.choice([1, 2, 3])
            b1, u1, _ = G.guard_operand(rng, fmt, n)
            b2, u2, _ = G.guard_operand(rng, fmt, n)
            out.append(G.line("fuse_ss", fmt, rng.choice(G.FAMS_1D) + rng.choice([".o", ".o.asg"]),
                              [n, rng.randint(0, 3)], b1 + [u1] + b2 + [u2]))
    # ECm under base rates whose float sum is 1 + k*eps (accepted by the constructors); variant token `acc`: the crate's own
    # constructors judge the operands and the fused opinion (repair f029db5: the maximised simplex is renormalised)
    for fmt in ("f64", "f32"):
        out += G.band_ecm_cases(rng, fmt, (1500 if tier == "quick" else 40000) // 6)
    return out


def search(rng, ops, broken):
    return cases(rng, "quick")


# tie theorems (substrings of SLV.Gen.*Tie theorem names) this property's operators depend on
TIE = ['compute_simlex', 'compute_base_rate', 'gen_fuse', 'fuseSimplex', 'fuseSS', 'fuse_assign', 'max_uncertainty', 'uncertainty_maximized', 'Simplex_vacuous', 'is_vacuous', 'is_dogmatic', 'normalize_prob_dist', 'Simplex_normalized', 'OpinionRef_projection', 'Simplex_projection', 'gen_is_in_range_eq', 'gen_in_unit_interval_eq', 'gen_is_one_eq', 'gen_is_zero_eq', 'gen_check_unit_interval_eq', 'gen_check_is_one_eq']
