"""Case generators. Every random choice derives from one random.Random(seed).

A case is a string `<op> <fmt> <variant> <ints> <hex...>` (the id is prepended by the runner).
Scalars are produced as exact Fractions / floats and printed as IEEE bit patterns.
"""
import itertools
import math
import random
import struct
from fractions import Fraction as Fr

EPS = {"f64": 2.0 ** -52, "f32": 2.0 ** -23}


def hx(fmt, x):
    x = float(x)
    if fmt == "f64":
        return struct.pack(">d", x).hex()
    return struct.pack(">f", x).hex()


def bits_to_float(fmt, bits):
    if fmt == "f64":
        return struct.unpack(">d", struct.pack(">Q", bits))[0]
    return struct.unpack(">f", struct.pack(">I", bits))[0]


def float_to_bits(fmt, x):
    if fmt == "f64":
        return struct.unpack(">Q", struct.pack(">d", x))[0]
    return struct.unpack(">I", struct.pack(">f", x))[0]


def step(fmt, x, k):
    """x moved by k representable steps (x >= 0 finite)"""
    b = float_to_bits(fmt, float(x))
    neg = b >> (63 if fmt == "f64" else 31)
    if neg:
        return -step(fmt, -x, -k)
    b2 = b + k
    if b2 < 0:
        return -bits_to_float(fmt, -b2)
    return bits_to_float(fmt, b2)


def line(op, fmt, variant, ints, scalars):
    return "%s %s %s %s %s" % (
        op, fmt, variant, ",".join(map(str, ints)) if ints else "-",
        " ".join(hx(fmt, s) for s in scalars))


# ---------------------------------------------------------------- random structures

def composition(rng, total, parts):
    """uniform random composition of `total` into `parts` non-negative integers"""
    if parts == 1:
        return [total]
    cuts = sorted(rng.randint(0, total) for _ in range(parts - 1))
    out, prev = [], 0
    for c in cuts:
        out.append(c - prev)
        prev = c
    out.append(total - prev)
    return out


def rand_simplex(rng, n, den, kind=None):
    """(b[n], u) on the grid 1/den. kind: None/'int' interior-ish, 'vac', 'dog', 'any'"""
    if kind == "vac":
        return [Fr(0)] * n, Fr(1)
    if kind == "dog":
        c = composition(rng, den, n)
        return [Fr(x, den) for x in c], Fr(0)
    if kind == "int":
        # u strictly between 0 and 1
        for _ in range(100):
            c = composition(rng, den, n + 1)
            if 0 < c[n] < den:
                return [Fr(x, den) for x in c[:n]], Fr(c[n], den)
        return [Fr(den - 1, den)] + [Fr(0)] * (n - 1), Fr(1, den)
    c = composition(rng, den, n + 1)
    return [Fr(x, den) for x in c[:n]], Fr(c[n], den)


def rand_dist(rng, n, den, positive=False):
    if positive:
        if den < n:
            den = n
        c = composition(rng, den - n, n)
        return [Fr(x + 1, den) for x in c]
    c = composition(rng, den, n)
    return [Fr(x, den) for x in c]


def rand_kind(rng, weights=(("int", 6), ("vac", 1), ("dog", 1), ("any", 2))):
    tot = sum(w for _, w in weights)
    r = rng.uniform(0, tot)
    for k, w in weights:
        r -= w
        if r <= 0:
            return k
    return weights[-1][0]


def rand_opinion(rng, n, den, kind=None, positive_a=False):
    b, u = rand_simplex(rng, n, den, kind)
    a = rand_dist(rng, n, den, positive_a)
    return b + [u] + a


def rand_cond(rng, n, m, den, kinds=None):
    out = []
    for x in range(n):
        k = kinds[x] if kinds else rand_kind(rng)
        b, u = rand_simplex(rng, m, den, k)
        out += b + [u]
    return out


def all_compositions(total, parts):
    if parts == 1:
        yield (total,)
        return
    for first in range(total + 1):
        for rest in all_compositions(total - first, parts - 1):
            yield (first,) + rest


def grid_simplexes(n, den):
    return [([Fr(x, den) for x in c[:n]], Fr(c[n], den)) for c in all_compositions(den, n + 1)]


def grid_dists(n, den):
    return [[Fr(x, den) for x in c] for c in all_compositions(den, n)]


def float_simplex(rng, fmt, n):
    """arbitrary (non-dyadic) floats normalised to sum ~1 in format fmt"""
    xs = [rng.random() ** 2 for _ in range(n + 1)]
    s = sum(xs)
    xs = [x / s for x in xs]
    if fmt == "f32":
        xs = [struct.unpack(">f", struct.pack(">f", x))[0] for x in xs]
    return xs[:n], xs[n]


def float_dist(rng, fmt, n):
    xs = [rng.random() for _ in range(n)]
    s = sum(xs)
    xs = [x / s for x in xs]
    if fmt == "f32":
        xs = [struct.unpack(">f", struct.pack(">f", x))[0] for x in xs]
    return xs


FAMS_1D = ["A", "M", "D", "N"]

# multi-dimensional container families: `M2`/`M3` unlabelled MArr2/MArr3, `D2`/`D3` labelled MArrD2/MArrD3 with usize index domains,
# `N2`/`N3` labelled with newtype index domains.  The shape is appended to the op's ordinary ints (first int = number of cells);
# the scalar layout is the 1-D one over the row-major flattening.  Asymmetric shapes on purpose (wrong-axis plumbing faults).
ND_SHAPES = [(1, 2), (2, 1), (2, 2), (1, 3), (3, 1), (2, 3), (3, 2),
             (1, 2, 2), (2, 2, 1), (2, 1, 2), (2, 2, 2), (1, 2, 3), (1, 3, 2), (2, 1, 3), (3, 1, 2), (2, 2, 3)]


def nd_family(rng, max_cells=12):
    """(family token, shape, number of cells) of a random multi-dimensional container family"""
    shapes = [s for s in ND_SHAPES if math.prod(s) <= max_cells]
    sh = rng.choice(shapes)
    return rng.choice("MDN") + str(len(sh)), list(sh), math.prod(sh)


# ---------------------------------------------------------------- binomial
def rand_bop(rng, den, kind=None, a_den=None):
    """(b, d, u, a) on the grid"""
    b, u = rand_simplex(rng, 2, den, kind)
    ad = a_den or den
    return [b[0], b[1], u, Fr(rng.randint(0, ad), ad)]


def grid_bops(den, a_den=None):
    ad = a_den or den
    out = []
    for c in all_compositions(den, 3):
        for k in range(ad + 1):
            out.append([Fr(c[0], den), Fr(c[1], den), Fr(c[2], den), Fr(k, ad)])
    return out


def float_bop(rng, fmt):
    b, u = float_simplex(rng, fmt, 2)
    a = rng.random()
    z = rng.random()
    hi = 15.5 if fmt == "f64" else 6.8
    if z < 0.15:            # small base rates (cancellation in 1-(1-a)(1-a') style rewrites)
        a = 10.0 ** (-rng.uniform(1.3, rng.choice([4, 4, hi, 30]))) if rng.random() < 0.9 else 0.0
    elif z < 0.3:           # base rates near 1 (1 - ax*ay by cancellation), down to the last ulps below 1
        a = 1.0 - 10.0 ** (-rng.uniform(1.3, rng.choice([4, 4, hi]))) if rng.random() < 0.9 else 1.0
    if fmt == "f32":
        a = struct.unpack(">f", struct.pack(">f", a))[0]
    return [b[0], b[1], u, a]


def rand_tri(rng, den, kind=None):
    b, u = rand_simplex(rng, 2, den, kind)
    return [b[0], b[1], u]


# ---------------------------------------------------------------- boundary opinions (floats)
def edge_u(rng, fmt, kind):
    """uncertainty values around the guards, as floats of format fmt"""
    e = EPS[fmt]
    if kind == "vac_edge":      # 1 - k*eps/2, k = 1..12 (the guard fires for k <= 4)
        return 1.0 - rng.randint(1, 12) * e / 2
    if kind == "dog_edge":      # k*eps/2 and tiny values
        return rng.choice([rng.randint(1, 6) * e / 2, 2.0 ** -1074 if fmt == "f64" else 2.0 ** -149,
                           1e-300 if fmt == "f64" else 1e-38, 1e-30, e * e])
    if kind == "vac_sweep":     # 1 - 10^-k
        return 1.0 - 10.0 ** (-rng.uniform(3, 15.5 if fmt == "f64" else 6.8))
    if kind == "dog_sweep":
        return 10.0 ** (-rng.uniform(3, 300 if fmt == "f64" else 37))
    raise ValueError(kind)


def round_fmt(fmt, x):
    if fmt == "f32":
        return struct.unpack(">f", struct.pack(">f", x))[0]
    return float(x)


def edge_simplex(rng, fmt, n, kind):
    """simplex whose uncertainty sits at a guard edge; belief = exact remainder split on up to 2 entries"""
    u = round_fmt(fmt, edge_u(rng, fmt, kind))
    rest = round_fmt(fmt, 1.0 - u)
    b = [0.0] * n
    i = rng.randrange(n)
    if n > 1 and rng.random() < 0.5:
        j = (i + 1 + rng.randrange(n - 1)) % n
        b[i] = rest / 2
        b[j] = rest - rest / 2
    else:
        b[i] = rest
    return b, u


def guard_operand(rng, fmt, n, den=16):
    """one operand from the guard lattice: (b, u) with a tag"""
    k = rng.choice(["vac", "dog", "vac_edge", "dog_edge", "int", "int", "vac_sweep", "dog_sweep"])
    if k in ("vac", "dog", "int"):
        b, u = rand_simplex(rng, n, den, k)
        return [float(x) for x in b], float(u), k
    b, u = edge_simplex(rng, fmt, n, k)
    return b, u, k


def base_rate_pair(rng, fmt, n, den=16):
    """(a_left, a_right, relation) : different / equal values / within 4 ulps"""
    a1 = [float(x) for x in rand_dist(rng, n, den)]
    r = rng.random()
    if r < 0.5:
        return a1, [float(x) for x in rand_dist(rng, n, den)], "diff"
    if r < 0.75:
        return a1, list(a1), "equal"
    a2 = list(a1)
    i = rng.randrange(n)
    a2[i] = step(fmt, a2[i], rng.choice([1, 2, 4, 5, 8])) if a2[i] > 0 else a2[i]
    return a1, a2, "ulps"


# ---------------------------------------------------------------- exact decoding of implementation outputs (cross-case checks)
def decode(fmt, tok):
    """hex token -> Fraction (exact) or None for NaN/inf"""
    bits = int(tok, 16)
    x = bits_to_float(fmt, bits)
    if x != x or x in (float("inf"), float("-inf")):
        return None
    return Fr(x)


def impl_values(r):
    """(class, [Fraction|None ...], [flags]) from a result dict"""
    toks = r["impl"].split(" ")
    fmt = r["case"].split(" ")[1]
    cls = toks[0]
    vals, flags = [], []
    for t in toks[1:]:
        if t in ("T", "F"):
            flags.append(t == "T")
        elif t.startswith("rej="):
            continue
        elif cls == "ok":
            vals.append(decode(fmt, t))
    return cls, vals, flags


def close_lists(tol, xs, ys):
    if len(xs) != len(ys):
        return False
    for x, y in zip(xs, ys):
        if x is None or y is None:
            if x is not y:
                return False
        elif abs(x - y) > tol:
            return False
    return True


TAU_SPEC = {"f64": Fr(1, 2 ** 40), "f32": Fr(1, 2 ** 14)}


def float_opinion_kind(rng, fmt, n):
    """float opinion with a random kind: interior, dogmatic (non-dyadic masses), vacuous, with or without a zero base-rate entry"""
    kind = rng.choice(["int", "dog", "dog", "vac", "zero_a"])
    if kind == "vac":
        b, u = [0.0] * n, 1.0
    else:
        b, u = float_simplex(rng, fmt, n)
        if kind == "dog":
            xs = [rng.random() for _ in range(n)]
            t = sum(xs)
            b, u = [round_fmt(fmt, x / t) for x in xs], 0.0
    a = float_dist(rng, fmt, n)
    if kind == "zero_a" or rng.random() < 0.2:
        i = rng.randrange(n)
        a[i] = 0.0
        t = sum(a)
        a = [round_fmt(fmt, x / t) for x in a]
    return b + [u] + a


# ---------------------------------------------------------------- tiny-value injection (tolerance thresholds other than machine epsilon)
TINY = {"f64": [2.0 ** -k for k in (53, 51, 45, 36, 30, 27, 20, 14, 10)],
        "f32": [2.0 ** -k for k in (24, 22, 18, 14, 12, 10)]}


def inject_tiny(rng, fmt, vals, t=None):
    """vals: list of numbers summing to S (grid values). One entry becomes the tiny value t (or is raised by t when it is 0) and the largest
    other entry is lowered by t, which is exact in `fmt` for t >= 2^-53 / 2^-24 and values < 1; the sum is preserved exactly."""
    vals = [float(v) for v in vals]
    if len(vals) < 2:
        return vals
    t = t if t is not None else rng.choice(TINY[fmt])
    big = max(range(len(vals)), key=lambda i: vals[i])
    cand = [i for i in range(len(vals)) if i != big]
    i = rng.choice(cand)
    old = vals[i]
    vals[i] = t
    vals[big] = round_fmt(fmt, vals[big] + old - t)
    if vals[big] < 0:
        return None
    return vals


def tiny_opinion(rng, fmt, w, n, where=None):
    """w = b[n] u a[n] (grid values). Injects a tiny value into the simplex part (b,u) or into the base rate."""
    w = [float(v) for v in w]
    where = where or rng.choice(["a", "a", "bu"])
    if where == "a":
        a = inject_tiny(rng, fmt, w[n + 1:])
        return w[:n + 1] + a if a else w
    bu = inject_tiny(rng, fmt, w[:n + 1])
    return bu + w[n + 1:] if bu else w


def near_one(rng, fmt, k=None):
    """1 - k ulps (k = 1..12 by default)"""
    k = k or rng.randint(1, 12)
    return step(fmt, 1.0, -k)


# ---------------------------------------------------------------- base rates whose float sum sits in the constructors' band
BAND_K = [-2, -1, 0, 1, 2, 3, 4]          # check_base_rate / check_simplex accept a sum 1 + k*eps for exactly these k


def band_dist(rng, fmt, n, k, den=None):
    """base rate on the grid 1/den (den <= 64) with ONE positive entry moved by k*eps: every entry, every partial sum in every
    summation order and the total 1 + k*eps are exact in `fmt` (entries and partial sums below 1 have spacing <= eps/2)."""
    den = den or rng.choice([2, 4, 8, 16, 64])
    a = [float(x) for x in rand_dist(rng, n, den)]
    i = rng.choice([j for j in range(n) if a[j] > 0])
    a[i] = a[i] + k * EPS[fmt]
    assert round_fmt(fmt, a[i]) == a[i] and a[i] > 0
    return a


def band_opinion(rng, fmt, n, k, kind=None, den=None):
    """exact dyadic simplex (kind as in rand_simplex; default: mostly vacuous / high uncertainty) over a band base rate"""
    kind = kind or rng.choice(["vac", "vac", "int", "any", "hi"])
    if kind == "hi":
        # one small mass, uncertainty 1 - 1/den
        d = rng.choice([4, 8, 16, 64])
        b = [0.0] * n
        b[rng.randrange(n)] = 1.0 / d
        u = 1.0 - 1.0 / d
    else:
        b, u = rand_simplex(rng, n, den or rng.choice([4, 8, 16, 64]), kind)
        b, u = [float(x) for x in b], float(u)
    return b + [u] + band_dist(rng, fmt, n, k, den)


def band_umax_cases(rng, fmt, count):
    """`umax` with the variant token `acc` under base rates summing to 1 + k*eps (k in -2..4, plus the rejected neighbours -3 and 5
    as controls): a deterministic part (the vacuous simplex for every k and n = 1..4, every 1-D family; the two-cell witness
    a = [1/2, 1/2 + 3 eps]) and `count` random cases over the 1-D and the 2-D / 3-D families; then normalised NON-dyadic base
    rates with 4 cells, where float sums of 1 + 2 eps occur naturally."""
    out = []
    e = EPS[fmt]
    out.append(line("umax", fmt, "A.o.acc", [2], [0.0, 0.0, 1.0, 0.5, 0.5 + 3 * e]))
    for k in BAND_K + [-3, 5]:
        for n in (1, 2, 3, 4):
            w = [0.0] * n + [1.0] + band_dist(rng, fmt, n, k)
            out.append(line("umax", fmt, rng.choice(FAMS_1D) + ".o.acc", [n], w))
    for _ in range(count):
        k = rng.choice(BAND_K + [2, 3, 3, 4, 4])
        if rng.random() < 0.5:
            n = rng.choice([1, 2, 2, 3, 3, 4, 4])
            out.append(line("umax", fmt, rng.choice(FAMS_1D) + ".o.acc", [n], band_opinion(rng, fmt, n, k)))
        else:
            fam, sh, n = nd_family(rng, 8)      # the acceptance clause is claimed for at most 8 cells (rounding residue beyond)
            out.append(line("umax", fmt, fam + ".o.acc", [n] + sh, band_opinion(rng, fmt, n, k)))
    for _ in range(count):
        # non-dyadic normalised base rates, 4 cells (1-D and 2x2)
        a = float_dist(rng, fmt, 4)
        r = rng.random()
        if r < 0.4:
            b, u = [0.0] * 4, 1.0
        elif r < 0.7:
            b, u = rand_simplex(rng, 4, rng.choice([4, 8, 16, 64]), rng.choice(["int", "any"]))
        else:
            b, u = float_simplex(rng, fmt, 4)
        w = [float(x) for x in b] + [float(u)] + a
        if rng.random() < 0.6:
            out.append(line("umax", fmt, rng.choice(FAMS_1D) + ".o.acc", [4], w))
        else:
            out.append(line("umax", fmt, rng.choice("MDN") + "2.o.acc", [4, 2, 2], w))
    return out


def band_ecm_cases(rng, fmt, count):
    """ECm fusion (`fuse` op 1) with the variant token `acc` of operands whose base rates sum to 1 + k*eps: ONE shared base-rate object,
    the same object passed twice (`alias`), equal values in two objects, and different base rates; 1-D and 2-D / 3-D families;
    plus non-dyadic normalised 4-cell base rates (shared)."""
    out = []
    for _ in range(count):
        k = rng.choice(BAND_K + [2, 3, 3, 4, 4])
        nd = rng.random() < 0.35
        if nd:
            fam, sh, n = nd_family(rng, 8)
        else:
            fam, sh, n = rng.choice(FAMS_1D), [], rng.choice([1, 2, 2, 3, 3, 4, 4])
        w1 = band_opinion(rng, fmt, n, k)
        w2 = band_opinion(rng, fmt, n, rng.choice(BAND_K))
        r = rng.random()
        if r < 0.35:
            out.append(line("fuse", fmt, fam + ".r.acc", [n, 1, 1] + sh, w1 + w2[:n + 1] + w1[n + 1:]))
        elif r < 0.5:
            out.append(line("fuse", fmt, fam + "." + rng.choice(["o", "r"]) + ".alias.acc", [n, 1, 0] + sh, w1 + w1))
        elif r < 0.75:
            var = fam + rng.choice([".o", ".r", ".o.asg", ".r.asg"]) + ".acc"
            out.append(line("fuse", fmt, var, [n, 1, 0] + sh, w1 + w2[:n + 1] + w1[n + 1:]))
        else:
            var = fam + rng.choice([".o", ".r", ".o.asg", ".r.asg"]) + ".acc"
            out.append(line("fuse", fmt, var, [n, 1, 0] + sh, w1 + w2))
    for _ in range(count // 2):
        a = float_dist(rng, fmt, 4)
        def sx():
            r = rng.random()
            if r < 0.4:
                return [0.0] * 4 + [1.0]
            b, u = rand_simplex(rng, 4, rng.choice([4, 8, 16, 64]), rng.choice(["int", "any"]))
            return [float(x) for x in b] + [float(u)]
        out.append(line("fuse", fmt, rng.choice(FAMS_1D) + ".r.acc", [4, 1, 1], sx() + a + sx() + a))
    return out


# ---------------------------------------------------------------- products: one small joint base rate (repair abca806)
# Exactly well-formed dyadic factors with ONE base-rate entry 2^-k and small uncertainties 2^-j.  The candidates
# (P0*P1 - b0*b1)/(a0*a1) of the products before repair abca806 were differences of two rounded products of order P divided by the
# joint base rate: rounding noise of relative size eps * P / (a0*a1), of either sign, and min() picked the noisiest cell.
SMALL_K = {"f32": (8, 20), "f64": (8, 45)}      # exponent range of the small base-rate entry (joint rates stay outside (0, eps])
SMALL_J = {"f32": (6, 20), "f64": (6, 45)}      # exponent range of the small uncertainties


def small_rate_dist(rng, n, k, pos):
    """exact dyadic base rate: entry `pos` is 2^-k, the others are dyadic and positive, total exactly 1 (every entry a multiple of 2^-k)"""
    t = Fr(1, 2 ** k)
    rest = []
    left = 1 - t
    for _ in range(n - 2):
        c = rng.choice([Fr(1, 2), Fr(1, 4), Fr(1, 8), Fr(1, 2 ** rng.randint(3, max(3, min(k, 12))))])
        while c >= left:
            c /= 2
        rest.append(c)
        left -= c
    rest.append(left)
    rng.shuffle(rest)
    return rest[:pos] + [t] + rest[pos:]


def small_u_simplex(rng, n, j, pos, heavy=True):
    """exact dyadic simplex on the grid 1/8 with u = 2^-j (j = None: dogmatic) taken out of one mass; with `heavy` the entry `pos`
    (the one the small base rate sits on: r = b/a is large there) carries at least half of the mass"""
    for _ in range(100):
        c = composition(rng, 8, n)
        if heavy and c[pos] < 4:
            continue
        if j is None:
            return [Fr(x, 8) for x in c], Fr(0)
        donors = [i for i in range(n) if c[i] > 0 and (i != pos or n == 1)] or [i for i in range(n) if c[i] > 0]
        i = rng.choice(donors)
        b = [Fr(x, 8) for x in c]
        u = Fr(1, 2 ** j)
        b[i] -= u
        return b, u
    b = [Fr(0)] * n
    b[pos] = Fr(1)
    return b, Fr(0)


def small_rate_factor(rng, fmt, n, kmax=None):
    """one factor `b[n] u a[n]` (exact Fractions) with a small base-rate entry 2^-k under a heavy mass and a small uncertainty"""
    kmax = kmax or SMALL_K[fmt][1]
    k = rng.randint(max(SMALL_K[fmt][0], kmax - 6), kmax) if rng.random() < 0.5 else rng.randint(SMALL_K[fmt][0], kmax)
    pos = rng.randrange(n)
    z = rng.random()
    j = None if z < 0.1 else rng.randint(SMALL_J[fmt][0], 12) if z < 0.4 else rng.randint(SMALL_J[fmt][0], SMALL_J[fmt][1])
    if z >= 0.7:
        # a*u = 2^-(k+j) at or just below the last bit of the heavy mass: the projection b + a*u loses it (or rounds it up)
        mant = 24 if fmt == "f32" else 53
        j = rng.randint(SMALL_J[fmt][0], 10 if fmt == "f32" else 30)
        k = min(kmax, max(SMALL_K[fmt][0], mant - j + rng.randint(-2, 3)))
    b, u = small_u_simplex(rng, n, j, pos, heavy=rng.random() < 0.8)
    return b + [u] + small_rate_dist(rng, n, k, pos), k


def ulp_factor(rng, fmt, n=3):
    """NON-dyadic factor, well-formed within the constructors' tolerance: small uncertainty 2^-j (1 + r), one base-rate entry 2^-k under
    a heavy mass; the float sum of its projection is 1 +- 1 ulp for a good part of the draws (then the normalised projections of the
    old products were all shifted by one ulp, more than the whole numerator a*u of the small cell)"""
    k = rng.randint(SMALL_K[fmt][0] + 4, min(SMALL_K[fmt][1], 20 if fmt == "f32" else 44))
    j = rng.randint(SMALL_J[fmt][0], min(SMALL_J[fmt][1], 14 if fmt == "f32" else 40))
    u = round_fmt(fmt, 2.0 ** -j * (1 + rng.randint(0, 31) / 32.0))
    xs = [rng.random() for _ in range(n)]
    pos = rng.randrange(n)
    xs[pos] += 1.5
    t = sum(xs)
    b = [round_fmt(fmt, x / t * (1.0 - u)) for x in xs]
    a = [rng.random() + 0.05 for _ in range(n)]
    a[pos] = 0.0
    t = sum(a)
    a = [round_fmt(fmt, x / t * (1.0 - 2.0 ** -k)) for x in a]
    a[pos] = 2.0 ** -k
    big = max(range(n), key=lambda i: a[i])
    a[big] = round_fmt(fmt, 1.0 - sum(a[i] for i in range(n) if i != big))
    return b + [u] + a, k


def cancelling_u(fmt, ns, ws):
    """the joint uncertainty as the products computed it BEFORE repair abca806, evaluated in precision `fmt` (every operation rounded):
    min over the cells of positive joint base rate of (P - B)/A, P the product of the NORMALISED projections"""
    ws = [[float(x) for x in w] for w in ws]
    ps = []
    for w, n in zip(ws, ns):
        p = [round_fmt(fmt, w[i] + round_fmt(fmt, w[n + 1 + i] * w[n])) for i in range(n)]
        t = 0.0
        for x in p:
            t = round_fmt(fmt, t + x)
        ps.append([round_fmt(fmt, x / t) for x in p])
    best = None
    for idx in itertools.product(*[range(n) for n in ns]):
        P = B = A = None
        for f, i in enumerate(idx):
            n = ns[f]
            if P is None:
                P, B, A = ps[f][i], ws[f][i], ws[f][n + 1 + i]
            else:
                P, B, A = round_fmt(fmt, P * ps[f][i]), round_fmt(fmt, B * ws[f][i]), round_fmt(fmt, A * ws[f][n + 1 + i])
        if A > 0:
            c = round_fmt(fmt, round_fmt(fmt, P - B) / A)
            best = c if best is None or c < best else best
    return best


def exact_u(ns, ws):
    """the same minimum in exact arithmetic, from the un-normalised projections b + a*u"""
    best = None
    for idx in itertools.product(*[range(n) for n in ns]):
        P = B = A = Fr(1)
        for f, i in enumerate(idx):
            n, w = ns[f], ws[f]
            P *= Fr(w[i]) + Fr(w[n + 1 + i]) * Fr(w[n])
            B *= Fr(w[i])
            A *= Fr(w[n + 1 + i])
        if A > 0:
            c = (P - B) / A
            best = c if best is None or c < best else best
    return best


def cancellation_hazard(fmt, ns, ws):
    """does the cancelling evaluation of (P - B)/A in precision `fmt` miss the exact joint uncertainty by more than the oracles'
    tolerance (16 tau) on these factors?  (emulation of the formula of the products before repair abca806; used to steer the
    small-base-rate stream towards the operands on which a cancelling re-implementation is visibly wrong)"""
    c = cancelling_u(fmt, ns, ws)
    return c is not None and c == c and abs(Fr(c) - exact_u(ns, ws)) > 16 * TAU_SPEC[fmt]


def small_rate_factors(rng, fmt, arity, hazard=False):
    """(ns, [factor ...]) for a product of `arity` factors: ONE small-rate factor (dyadic, or the non-dyadic `ulp_factor`), the others
    dogmatic / nearly dogmatic (u within a few powers of two of machine epsilon: the noise of the small cell competes with r0*u1) /
    ordinary dyadic factors with positive base rates (sometimes with a small entry of their own); every positive joint base rate is
    larger than machine epsilon (the oracles judge the exact identities outside the (0, eps] band only).  With `hazard` the draw is
    repeated (at most 40 times) until `cancellation_hazard` holds."""
    for _ in range(40 if hazard else 1):
        ns, ws = _small_rate_factors(rng, fmt, arity)
        if not hazard or cancellation_hazard(fmt, ns, ws):
            break
    return ns, ws


def _small_rate_factors(rng, fmt, arity):
    eps = Fr(EPS[fmt])
    for _ in range(200):
        ns = [rng.choice([2, 2, 3]) for _ in range(arity)]
        lead = rng.randrange(arity)
        ws = [None] * arity
        if rng.random() < 0.25:
            ns[lead] = 3
            ws[lead], k = ulp_factor(rng, fmt, 3)
        else:
            ws[lead], k = small_rate_factor(rng, fmt, ns[lead])
        for i in range(arity):
            if i == lead:
                continue
            n = ns[i]
            z = rng.random() * (0.7 if arity > 2 else 1.0)      # three factors: both others (nearly) dogmatic more often
            if z < 0.5:         # dogmatic, dyadic masses
                b, u = rand_simplex(rng, n, rng.choice([2, 4, 8, 16]), "dog")
            elif z < 0.8:       # nearly dogmatic: u = 2^-j within a few powers of two of machine epsilon
                b, u = small_u_simplex(rng, n, rng.randint(SMALL_J[fmt][1] - 4, SMALL_J[fmt][1] + 2), rng.randrange(n), heavy=False)
            else:
                b, u = rand_simplex(rng, n, rng.choice([4, 8, 16]), rand_kind(rng))
            z = rng.random() * (0.6 if arity > 2 else 1.0)
            if z < 0.3:
                a = [Fr(1, n)] * n if n == 2 else [Fr(1, 2), Fr(1, 4), Fr(1, 4)]
            elif z < 0.5:
                room = SMALL_K[fmt][1] + (2 if fmt == "f32" else 6) - k
                if room >= 4:
                    a = small_rate_dist(rng, n, rng.randint(2, min(room, 12)), rng.randrange(n))
                else:
                    a = rand_dist(rng, n, 8, positive=True)
            else:
                a = rand_dist(rng, n, rng.choice([4, 8, 16]), positive=rng.random() < 0.85)
            ws[i] = list(b) + [u] + list(a)
        joint = [Fr(1)]
        for w, n in zip(ws, ns):
            joint = [x * Fr(y) for x in joint for y in w[n + 1:]]
        if all(x == 0 or x > eps for x in joint) and any(x > 0 for x in joint):
            return ns, ws
    ns = [2] * arity
    return ns, [[Fr(7, 8), Fr(1, 8) - Fr(1, 4096), Fr(1, 4096), Fr(1, 8192), 1 - Fr(1, 8192)]] + \
        [[Fr(1, 2), Fr(1, 2), Fr(0), Fr(1, 2), Fr(1, 2)]] * (arity - 1)


# witnesses of the products before repair abca806 (git log of /repo abca806): (fmt, ns, [factor ...], what the old code returned)
def _f32(*bits):
    return [bits_to_float("f32", x) for x in bits]


PRODUCT_WITNESSES = [
    ("f32", [2, 2], [[0.875, 0.125 - 2.0 ** -12, 2.0 ** -12, 2.0 ** -13, 1 - 2.0 ** -13], [0.5, 0.5, 0.0, 0.5, 0.5]],
     "u = 0, required 2^-12"),
    ("f32", [3, 2], [_f32(0x3f44eeea, 0x3e02c788, 0x3dd275a0, 0x39840000, 0x39000000, 0x3f484440, 0x3e5ecf00),
                     [0.5, 0.5, 0.0, 2.0 ** -8, 1 - 2.0 ** -8]], "labelled u = -1/16, unlabelled panic"),
    ("f64", [3, 3], [[0.5, 0.25, 0.25, 0.0, 0.5, 0.25, 0.25],
                     [0.68505859375, 0.0, 0.3125, 0.00244140625, 2.0 ** -31, 1 - 2.0 ** -31 - 2.0 ** -45, 2.0 ** -45]],
     "u depends on the order in which the values of the second domain are listed"),
]


# ---------------------------------------------------------------- products with a (nearly) vacuous factor (repair R14)
_PRODCLAMP_HOT = None


def prodclamp_hot(fmt, families=("M",)):
    """operand tuples on which the unlabelled products panicked with a belief-mass residue below -eps before the joint masses were
    clamped (gen/corpus/prodclamp_hot.txt, enumerated by tools/scan/prodclamp_hot.rs against the un-repaired crate: 1e-4 .. 3e-4
    of such products); replayed for every container family given"""
    global _PRODCLAMP_HOT
    import os
    if _PRODCLAMP_HOT is None:
        fp = os.path.join(os.path.dirname(os.path.dirname(os.path.abspath(__file__))), "gen", "corpus", "prodclamp_hot.txt")
        _PRODCLAMP_HOT = [ln.strip() for ln in open(fp) if ln.strip() and not ln.startswith("#")]
    out = []
    for ln in _PRODCLAMP_HOT:
        t = ln.split(" ")
        if t[1] != fmt:
            continue
        for fam in families:
            out.append(" ".join(t[:2] + [fam + "." + ("o" if fam == "M" else "r")] + t[3:]))
    return out


def vacuous_factor_product(rng, fmt):
    """(op, ns, scalars): product of 2 or 3 factors of which at least one is vacuous or nearly vacuous with zero belief on its
    dominant base-rate element, the others arbitrary floats -- the minimising cell then has an exactly-zero joint mass whose
    computed value p - a*u is a residue of either sign"""
    k = rng.choice([2, 2, 3])
    ns = [rng.choice([2, 3]) for _ in range(k)]
    shapes = [rng.choice([0, 1, 2]) for _ in range(k)]
    if all(sh == 0 for sh in shapes):
        shapes[rng.randrange(k)] = rng.choice([1, 2])
    ws = []
    for n, sh in zip(ns, shapes):
        av = [rng.random() + 1e-3 for _ in range(n)]
        if sh == 2:
            av[n - 1] += 4 * sum(av)
        sa = sum(av)
        a = [round_fmt(fmt, v / sa) for v in av[:-1]]
        a.append(round_fmt(fmt, 1.0 - sum(a)))
        if sh == 0:
            b, u = float_simplex(rng, fmt, n)
        elif sh == 1:
            b, u = [0.0] * n, 1.0
        else:
            e = round_fmt(fmt, rng.random() * 0.1)
            b = [e] + [0.0] * (n - 1)
            u = round_fmt(fmt, 1.0 - e)
        ws += b + [u] + a
    return ("prod2" if k == 2 else "prod3"), ns, ws
