"""Case generators. Every random choice derives from one random.Random(seed).

A case is a string `<op> <fmt> <variant> <ints> <hex...>` (the id is prepended by the runner).
Scalars are produced as exact Fractions / floats and printed as IEEE bit patterns.
"""
import itertools
import math
import random
import struct
from fractions import Fraction as Fr

EPS = {"f64": 2.0 ** -52, "f32": 2.0 ** -23}


def hx(fmt, x):
    x = float(x)
    if fmt == "f64":
        return struct.pack(">d", x).hex()
    return struct.pack(">f", x).hex()


def bits_to_float(fmt, bits):
    if fmt == "f64":
        return struct.unpack(">d", struct.pack(">Q", bits))[0]
    return struct.unpack(">f", struct.pack(">I", bits))[0]


def float_to_bits(fmt, x):
    if fmt == "f64":
        return struct.unpack(">Q", struct.pack(">d", x))[0]
    return struct.unpack(">I", struct.pack(">f", x))[0]


def step(fmt, x, k):
    """x moved by k representable steps (x >= 0 finite)"""
    b = float_to_bits(fmt, float(x))
    neg = b >> (63 if fmt == "f64" else 31)
    if neg:
        return -step(fmt, -x, -k)
    b2 = b + k
    if b2 < 0:
        return -bits_to_float(fmt, -b2)
    return bits_to_float(fmt, b2)


def line(op, fmt, variant, ints, scalars):
    return "%s %s %s %s %s" % (
        op, fmt, variant, ",".join(map(str, ints)) if ints else "-",
        " ".join(hx(fmt, s) for s in scalars))


# ---------------------------------------------------------------- random structures

def composition(rng, total, parts):
    """uniform random composition of `total` into `parts` non-negative integers"""
    if parts == 1:
        return [total]
    cuts = sorted(rng.randint(0, total) for _ in range(parts - 1))
    out, prev = [], 0
    for c in cuts:
        out.append(c - prev)
        prev = c
    out.append(total - prev)
    return out


def rand_simplex(rng, n, den, kind=None):
    """(b[n], u) on the grid 1/den. kind: None/'int' interior-ish, 'vac', 'dog', 'any'"""
    if kind == "vac":
        return [Fr(0)] * n, Fr(1)
    if kind == "dog":
        c = composition(rng, den, n)
        return [Fr(x, den) for x in c], Fr(0)
    if kind == "int":
        # u strictly between 0 and 1
        for _ in range(100):
            c = composition(rng, den, n + 1)
            if 0 < c[n] < den:
                return [Fr(x, den) for x in c[:n]], Fr(c[n], den)
        return [Fr(den - 1, den)] + [Fr(0)] * (n - 1), Fr(1, den)
    c = composition(rng, den, n + 1)
    return [Fr(x, den) for x in c[:n]], Fr(c[n], den)


def rand_dist(rng, n, den, positive=False):
    if positive:
        if den < n:
            den = n
        c = composition(rng, den - n, n)
        return [Fr(x + 1, den) for x in c]
    c = composition(rng, den, n)
    return [Fr(x, den) for x in c]


def rand_kind(rng, weights=(("int", 6), ("vac", 1), ("dog", 1), ("any", 2))):
    tot = sum(w for _, w in weights)
    r = rng.uniform(0, tot)
    for k, w in weights:
        r -= w
        if r <= 0:
            return k
    return weights[-1][0]


def rand_opinion(rng, n, den, kind=None, positive_a=False):
    b, u = rand_simplex(rng, n, den, kind)
    a = rand_dist(rng, n, den, positive_a)
    return b + [u] + a


def rand_cond(rng, n, m, den, kinds=None):
    out = []
    for x in range(n):
        k = kinds[x] if kinds else rand_kind(rng)
        b, u = rand_simplex(rng, m, den, k)
        out += b + [u]
    return out


def all_compositions(total, parts):
    if parts == 1:
        yield (total,)
        return
    for first in range(total + 1):
        for rest in all_compositions(total - first, parts - 1):
            yield (first,) + rest


def grid_simplexes(n, den):
    return [([Fr(x, den) for x in c[:n]], Fr(c[n], den)) for c in all_compositions(den, n + 1)]


def grid_dists(n, den):
    return [[Fr(x, den) for x in c] for c in all_compositions(den, n)]


def float_simplex(rng, fmt, n):
    """arbitrary (non-dyadic) floats normalised to sum ~1 in format fmt"""
    xs = [rng.random() ** 2 for _ in range(n + 1)]
    s = sum(xs)
    xs = [x / s for x in xs]
    if fmt == "f32":
        xs = [struct.unpack(">f", struct.pack(">f", x))[0] for x in xs]
    return xs[:n], xs[n]


def float_dist(rng, fmt, n):
    xs = [rng.random() for _ in range(n)]
    s = sum(xs)
    xs = [x / s for x in xs]
    if fmt == "f32":
        xs = [struct.unpack(">f", struct.pack(">f", x))[0] for x in xs]
    return xs


FAMS_1D = ["A", "M", "D", "N"]

# multi-dimensional container families: `M2`/`M3` unlabelled MArr2/MArr3, `D2`/`D3` labelled MArrD2/MArrD3 with usize index domains,
# `N2`/`N3` labelled with newtype index domains.  The shape is appended to the op's ordinary ints (first int = number of cells);
# the scalar layout is the 1-D one over the row-major flattening.  Asymmetric shapes on purpose (wrong-axis plumbing faults).
ND_SHAPES = [(1, 2), (2, 1), (2, 2), (1, 3), (3, 1), (2, 3), (3, 2),
             (1, 2, 2), (2, 2, 1), (2, 1, 2), (2, 2, 2), (1, 2, 3), (1, 3, 2), (2, 1, 3), (3, 1, 2), (2, 2, 3)]


def nd_family(rng, max_cells=12):
    """(family token, shape, number of cells) of a random multi-dimensional container family"""
    shapes = [s for s in ND_SHAPES if math.prod(s) <= max_cells]
    sh = rng.choice(shapes)
    return rng.choice("MDN") + str(len(sh)), list(sh), math.prod(sh)


# ---------------------------------------------------------------- binomial
def rand_bop(rng, den, kind=None, a_den=None):
    """(b, d, u, a) on the grid"""
    b, u = rand_simplex(rng, 2, den, kind)
    ad = a_den or den
    return [b[0], b[1], u, Fr(rng.randint(0, ad), ad)]


def grid_bops(den, a_den=None):
    ad = a_den or den
    out = []
    for c in all_compositions(den, 3):
        for k in range(ad + 1):
            out.append([Fr(c[0], den), Fr(c[1], den), Fr(c[2], den), Fr(k, ad)])
    return out


def float_bop(rng, fmt):
    b, u = float_simplex(rng, fmt, 2)
    a = rng.random()
    z = rng.random()
    hi = 15.5 if fmt == "f64" else 6.8
    if z < 0.15:            # small base rates (cancellation in 1-(1-a)(1-a') style rewrites)
        a = 10.0 ** (-rng.uniform(1.3, rng.choice([4, 4, hi, 30]))) if rng.random() < 0.9 else 0.0
    elif z < 0.3:           # base rates near 1 (1 - ax*ay by cancellation), down to the last ulps below 1
        a = 1.0 - 10.0 ** (-rng.uniform(1.3, rng.choice([4, 4, hi]))) if rng.random() < 0.9 else 1.0
    if fmt == "f32":
        a = struct.unpack(">f", struct.pack(">f", a))[0]
    return [b[0], b[1], u, a]


def rand_tri(rng, den, kind=None):
    b, u = rand_simplex(rng, 2, den, kind)
    return [b[0], b[1], u]


# ---------------------------------------------------------------- boundary opinions (floats)
def edge_u(rng, fmt, kind):
    """uncertainty values around the guards, as floats of format fmt"""
    e = EPS[fmt]
    if kind == "vac_edge":      # 1 - k*eps/2, k = 1..12 (the guard fires for k <= 4)
        return 1.0 - rng.randint(1, 12) * e / 2
    if kind == "dog_edge":      # k*eps/2 and tiny values
        return rng.choice([rng.randint(1, 6) * e / 2, 2.0 ** -1074 if fmt == "f64" else 2.0 ** -149,
                           1e-300 if fmt == "f64" else 1e-38, 1e-30, e * e])
    if kind == "vac_sweep":     # 1 - 10^-k
        return 1.0 - 10.0 ** (-rng.uniform(3, 15.5 if fmt == "f64" else 6.8))
    if kind == "dog_sweep":
        return 10.0 ** (-rng.uniform(3, 300 if fmt == "f64" else 37))
    raise ValueError(kind)


def round_fmt(fmt, x):
    if fmt == "f32":
        return struct.unpack(">f", struct.pack(">f", x))[0]
    return float(x)


def edge_simplex(rng, fmt, n, kind):
    """simplex whose uncertainty sits at a guard edge; belief = exact remainder split on up to 2 entries"""
    u = round_fmt(fmt, edge_u(rng, fmt, kind))
    rest = round_fmt(fmt, 1.0 - u)
    b = [0.0] * n
    i = rng.randrange(n)
    if n > 1 and rng.random() < 0.5:
        j = (i + 1 + rng.randrange(n - 1)) % n
        b[i] = rest / 2
        b[j] = rest - rest / 2
    else:
        b[i] = rest
    return b, u


def guard_operand(rng, fmt, n, den=16):
    """one operand from the guard lattice: (b, u) with a tag"""
    k = rng.choice(["vac", "dog", "vac_edge", "dog_edge", "int", "int", "vac_sweep", "dog_sweep"])
    if k in ("vac", "dog", "int"):
        b, u = rand_simplex(rng, n, den, k)
        return [float(x) for x in b], float(u), k
    b, u = edge_simplex(rng, fmt, n, k)
    return b, u, k


def base_rate_pair(rng, fmt, n, den=16):
    """(a_left, a_right, relation) : different / equal values / within 4 ulps"""
    a1 = [float(x) for x in rand_dist(rng, n, den)]
    r = rng.random()
    if r < 0.5:
        return a1, [float(x) for x in rand_dist(rng, n, den)], "diff"
    if r < 0.75:
        return a1, list(a1), "equal"
    a2 = list(a1)
    i = rng.randrange(n)
    a2[i] = step(fmt, a2[i], rng.choice([1, 2, 4, 5, 8])) if a2[i] > 0 else a2[i]
    return a1, a2, "ulps"


# ---------------------------------------------------------------- exact decoding of implementation outputs (cross-case checks)
def decode(fmt, tok):
    """hex token -> Fraction (exact) or None for NaN/inf"""
    bits = int(tok, 16)
    x = bits_to_float(fmt, bits)
    if x != x or x in (float("inf"), float("-inf")):
        return None
    return Fr(x)


def impl_values(r):
    """(class, [Fraction|None ...], [flags]) from a result dict"""
    toks = r["impl"].split(" ")
    fmt = r["case"].split(" ")[1]
    cls = toks[0]
    vals, flags = [], []
    for t in toks[1:]:
        if t in ("T", "F"):
            flags.append(t == "T")
        elif t.startswith("rej="):
            continue
        elif cls == "ok":
            vals.append(decode(fmt, t))
    return cls, vals, flags


def close_lists(tol, xs, ys):
    if len(xs) != len(ys):
        return False
    for x, y in zip(xs, ys):
        if x is None or y is None:
            if x is not y:
                return False
        elif abs(x - y) > tol:
            return False
    return True


TAU_SPEC = {"f64": Fr(1, 2 ** 40), "f32": Fr(1, 2 ** 14)}


def float_opinion_kind(rng, fmt, n):
    """float opinion with a random kind: interior, dogmatic (non-dyadic masses), vacuous, with or without a zero base-rate entry"""
    kind = rng.choice(["int", "dog", "dog", "vac", "zero_a"])
    if kind == "vac":
        b, u = [0.0] * n, 1.0
    else:
        b, u = float_simplex(rng, fmt, n)
        if kind == "dog":
            xs = [rng.random() for _ in range(n)]
            t = sum(xs)
            b, u = [round_fmt(fmt, x / t) for x in xs], 0.0
    a = float_dist(rng, fmt, n)
    if kind == "zero_a" or rng.random() < 0.2:
        i = rng.randrange(n)
        a[i] = 0.0
        t = sum(a)
        a = [round_fmt(fmt, x / t) for x in a]
    return b + [u] + a


# ---------------------------------------------------------------- tiny-value injection (tolerance thresholds other than machine epsilon)
TINY = {"f64": [2.0 ** -k for k in (53, 51, 45, 36, 30, 27, 20, 14, 10)],
        "f32": [2.0 ** -k for k in (24, 22, 18, 14, 12, 10)]}


def inject_tiny(rng, fmt, vals, t=None):
    """vals: list of numbers summing to S (grid values). One entry becomes the tiny value t (or is raised by t when it is 0) and the largest
    other entry is lowered by t, which is exact in `fmt` for t >= 2^-53 / 2^-24 and values < 1; the sum is preserved exactly."""
    vals = [float(v) for v in vals]
    if len(vals) < 2:
        return vals
    t = t if t is not None else rng.choice(TINY[fmt])
    big = max(range(len(vals)), key=lambda i: vals[i])
    cand = [i for i in range(len(vals)) if i != big]
    i = rng.choice(cand)
    old = vals[i]
    vals[i] = t
    vals[big] = round_fmt(fmt, vals[big] + old - t)
    if vals[big] < 0:
        return None
    return vals


def tiny_opinion(rng, fmt, w, n, where=None):
    """w = b[n] u a[n] (grid values). Injects a tiny value into the simplex part (b,u) or into the base rate."""
    w = [float(v) for v in w]
    where = where or rng.choice(["a", "a", "bu"])
    if where == "a":
        a = inject_tiny(rng, fmt, w[n + 1:])
        return w[:n + 1] + a if a else w
    bu = inject_tiny(rng, fmt, w[:n + 1])
    return bu + w[n + 1:] if bu else w


def near_one(rng, fmt, k=None):
    """1 - k ulps (k = 1..12 by default)"""
    k = k or rng.randint(1, 12)
    return step(fmt, 1.0, -k)
