"""Orchestration shared by all property checks: build, run harness + Lean driver, decide, write evidence."""
import fcntl
import hashlib
import json
import os
import re
import subprocess
import sys
import time

ROOT = os.path.dirname(os.path.dirname(os.path.abspath(__file__)))
LEAN = os.path.join(ROOT, "lean")
HARNESS = os.path.join(ROOT, "harness")
WORK = os.path.join(ROOT, "work")
EVID = os.path.join(ROOT, "evidence")
REPLAYS = os.path.join(ROOT, "replays")
DRIVER = os.path.join(LEAN, ".lake", "build", "bin", "slvmodel")
HBIN = os.path.join(HARNESS, "target", "release", "slharness")
HARNESS_ARR = os.path.join(ROOT, "harness_arr")
HBIN_ARR = os.path.join(HARNESS_ARR, "target", "release", "slarr")
DRIVER_ARR = os.path.join(LEAN, ".lake", "build", "bin", "slvarr")
ALLOWED_AXIOMS = {"propext", "Classical.choice", "Quot.sound"}
FORBIDDEN = re.compile(r"\b(sorry|admit|native_decide|bv_decide|implemented_by|unsafe)\b|^axiom |maxHeartbeats 0")

ENV = dict(os.environ, CARGO_NET_OFFLINE="true")


class Lock:
    def __init__(self, name):
        os.makedirs(WORK, exist_ok=True)
        self.path = os.path.join(ROOT, name)

    def __enter__(self):
        self.f = open(self.path, "w")
        fcntl.flock(self.f, fcntl.LOCK_EX)
        return self

    def __exit__(self, *a):
        fcntl.flock(self.f, fcntl.LOCK_UN)
        self.f.close()


def sh(cmd, cwd=None, timeout=None):
    p = subprocess.run(cmd, cwd=cwd, env=ENV, stdout=subprocess.PIPE, stderr=subprocess.STDOUT,
                       text=True, timeout=timeout)
    return p.returncode, p.stdout


def build_all(prop_modules, arr=False):
    """(re)build the Lean model/driver/proof modules and the Rust harness from /repo's working tree."""
    notes = {}
    with Lock(".build.lock"):
        t0 = time.time()
        targets = ["slvarr"] if arr else ["slvmodel"]
        rc, out = sh(["lake", "build"] + targets + prop_modules, cwd=LEAN)
        notes["lake_build_rc"] = rc
        notes["lake_build_s"] = round(time.time() - t0, 1)
        if rc != 0:
            notes["lake_build_tail"] = out[-3000:]
        if not arr:
            # translation tie: regenerate SLV/Gen/*.lean from /repo's current source text and re-check, in the kernel,
            # that the generated definitions equal the hand-written model. Failing tie theorems are collected by name so
            # that each property only answers for the functions it depends on.
            t0 = time.time()
            rc_g, out_g = sh([os.path.join(ROOT, "tools", "regen.sh")], cwd=ROOT)
            notes["tie_regen_rc"] = rc_g
            failing = set()
            import re as _re
            for mname in _re.findall(r"UNTRANSLATABLE \S+ fn (\S+?):", out_g):
                failing.add("gen_%s_eq" % mname.replace("::", "_"))
            if rc_g not in (0, 3):
                notes["tie_problem"] = "translator failed (rc=%d): %s" % (rc_g, out_g[-600:])
                failing.add("*")
            else:
                for tm in ("SLV.Gen.BiTie", "SLV.Gen.MulTie"):
                    rc_t, out_t = sh(["lake", "build", tm], cwd=LEAN)
                    if rc_t != 0:
                        fp = os.path.join(LEAN, *tm.split(".")) + ".lean"
                        lines = open(fp).read().split("\n")
                        for m in _re.finditer(r"error: \S*SLV/Gen/\w+\.lean:(\d+):\d+", out_t):
                            ln = int(m.group(1))
                            name = None
                            for k in range(min(ln, len(lines)) - 1, -1, -1):
                                mm = _re.match(r"\s*theorem\s+(\S+)", lines[k])
                                if mm:
                                    name = mm.group(1); break
                            failing.add(name or ("%s:%d" % (tm, ln)))
                        if not _re.search(r"error: \S*SLV/Gen/\w+\.lean:\d+:\d+", out_t):
                            failing.add("*")
                            notes["tie_tail"] = out_t[-1200:]
            notes["tie_failing"] = sorted(failing)
            if failing:
                notes["tie_problem"] = notes.get("tie_problem", "") + " tie theorems that no longer check: " + ", ".join(sorted(failing))
            notes["tie_s"] = round(time.time() - t0, 1)
        t0 = time.time()
        rc2, out2 = sh(["cargo", "build", "--release", "--offline"], cwd=HARNESS_ARR if arr else HARNESS)
        notes["cargo_build_rc"] = rc2
        notes["cargo_build_s"] = round(time.time() - t0, 1)
        if rc2 != 0:
            notes["cargo_build_tail"] = out2[-3000:]
    return notes


AUDIT_TMPL = """import {mod}
import Lean
open Lean Elab Command
run_cmd do
  let env ← getEnv
  let some idx := env.getModuleIdx? `{mod} | throwError "no module"
  for c in env.header.moduleData[idx]!.constNames do
    if let some (.thmInfo ti) := env.find? c then
      if !c.isInternalDetail then
        let ax ← liftCoreM (collectAxioms c)
        let ty ← liftTermElabM (Meta.ppExpr ti.type)
        let tys := ((toString ty).replace "\\n" " ")
        IO.println s!"THEOREM\\t{{c}}\\t{{",".intercalate (ax.toList.map toString)}}\\t{{tys}}"
"""


def audit(mod):
    """returns list of {name, axioms, statement} for the theorems declared in module `mod`"""
    os.makedirs(WORK, exist_ok=True)
    path = os.path.join(WORK, "audit_%s_%d.lean" % (mod.replace(".", "_"), os.getpid()))
    with open(path, "w") as f:
        f.write(AUDIT_TMPL.format(mod=mod))
    rc, out = sh(["lake", "env", "lean", path], cwd=LEAN)
    os.unlink(path)
    thms = []
    for ln in out.split("\n"):
        if ln.startswith("THEOREM\t"):
            parts = ln.split("\t")
            if len(parts) >= 4:
                axs = [a for a in parts[2].split(",") if a]
                thms.append({"name": parts[1], "axioms": axs, "statement": " ".join(parts[3].split())})
    return rc, out, thms


def grep_forbidden(files):
    hits = []
    for fp in files:
        try:
            txt = open(fp).read()
        except OSError:
            continue
        # strip comments (block and line)
        txt2 = re.sub(r"/-.*?-/", lambda m: "\n" * m.group(0).count("\n"), txt, flags=re.S)
        for i, ln in enumerate(txt2.split("\n"), 1):
            ln2 = ln.split("--")[0]
            if FORBIDDEN.search(ln2):
                hits.append("%s:%d: %s" % (os.path.relpath(fp, ROOT), i, ln.strip()))
    return hits


def import_closure(mod):
    """Lean source files of this project that module `mod` depends on (transitively), plus the driver."""
    seen, todo = set(), [mod]
    while todo:
        m = todo.pop()
        if m in seen or not m.startswith("SLV"):
            continue
        fp = os.path.join(LEAN, *m.split(".")) + ".lean"
        if not os.path.exists(fp):
            continue
        seen.add(m)
        for ln in open(fp):
            ln = ln.strip()
            if ln.startswith("import "):
                todo += ln[len("import "):].split()
    files = [os.path.join(LEAN, *m.split(".")) + ".lean" for m in seen]
    return files


def lean_sources():
    out = []
    for d, _, fs in os.walk(os.path.join(LEAN, "SLV")):
        for f in fs:
            if f.endswith(".lean"):
                out.append(os.path.join(d, f))
    out.append(os.path.join(LEAN, "Main.lean"))
    return out


def _harness(hb, lines, timeout=None):
    """run the harness on `lines`; -> (ok, stdout_text, problem). Not ok = non-zero exit (abort, stack overflow, signal) or
    no answer within the time limit (default 60 s + 10 ms per case: the unchanged tree needs about 0.1 ms per case)."""
    if timeout is None:
        timeout = float(os.environ.get("VERIF_HARNESS_TIMEOUT", "60")) + 0.01 * len(lines)
    try:
        p = subprocess.run([hb], input="".join(lines).encode(), stdout=subprocess.PIPE, stderr=subprocess.PIPE, env=ENV,
                           timeout=timeout)
    except subprocess.TimeoutExpired:
        return False, "", "no answer within %.0f s (hang)" % timeout
    if p.returncode != 0:
        return False, "", "harness process died rc=%d: %s" % (p.returncode, p.stderr.decode(errors="replace")[-400:])
    return True, p.stdout.decode(errors="replace"), ""


def run_cases(prop, cases, tag="main", hbin=None, driver=None):
    """cases: list of case strings without ids. Returns list of dict(verdict fields) aligned with cases.
    A case on which the harness process dies or hangs (catch_unwind cannot contain aborts, stack overflows or loops) is found
    by bisection over prefixes, reported with status `harness-crash`, and the remaining cases are run without it."""
    os.makedirs(WORK, exist_ok=True)
    base = os.path.join(WORK, "%s.%d.%s" % (prop, os.getpid(), tag))
    rf, vf = base + ".impl", base + ".verdict"
    hb = hbin or HBIN
    lines = ["%d %s\n" % (i, c) for i, c in enumerate(cases)]
    crashed = {}
    live = list(range(len(cases)))
    while True:
        ok, out, problem = _harness(hb, [lines[i] for i in live])
        if ok:
            break
        if len(crashed) >= 5:
            for i in live:
                crashed[i] = "not run: more than five cases kill the harness (" + problem + ")"
            live, out = [], ""
            break
        lo, hi = 0, len(live)          # invariant: prefix of length hi fails, prefix of length lo succeeds
        while hi - lo > 1:
            mid = (lo + hi) // 2
            ok2, _, pr2 = _harness(hb, [lines[i] for i in live[:mid]])
            if ok2:
                lo = mid
            else:
                hi, problem = mid, pr2
        crashed[live[hi - 1]] = problem
        del live[hi - 1]
    with open(rf, "w") as fout:
        fout.write(out)
    with open(rf) as fin, open(vf, "w") as fout:
        try:
            p = subprocess.run([driver or DRIVER, prop], stdin=fin, stdout=fout, stderr=subprocess.PIPE, env=ENV,
                               timeout=float(os.environ.get("VERIF_DRIVER_TIMEOUT", "3600")))
        except subprocess.TimeoutExpired:
            raise RuntimeError("model driver did not finish within the time limit (exact arithmetic blow-up?)")
    if p.returncode != 0:
        raise RuntimeError("driver failed rc=%d: %s" % (p.returncode, p.stderr.decode()[-2000:]))
    impl = open(rf).read().split("\n")
    verd = open(vf).read().split("\n")
    res = [None] * len(cases)
    for k, i in enumerate(live):
        c = cases[i]
        il = impl[k] if k < len(impl) else ""
        vl = verd[k] if k < len(verd) else ""
        d = {"case": c, "impl": il.split(" => ", 1)[1] if " => " in il else "", "raw": vl}
        toks = vl.split(" ")
        d["status"] = toks[1] if len(toks) > 1 and "=" not in toks[1] else "verdict"
        for t in toks[1:]:
            if "=" in t:
                k2, v = t.split("=", 1)
                d[k2] = v
        res[i] = d
    for i, problem in crashed.items():
        res[i] = {"case": cases[i], "impl": "CRASH", "raw": "%d harness-crash %s" % (i, problem), "status": "harness-crash",
                  "crash": problem}
    for fpath in (rf, vf):
        try:
            os.unlink(fpath)
        except OSError:
            pass
    return res


def load_known():
    finds, fixed = [], []
    p = os.path.join(ROOT, "known_findings.txt")
    if os.path.exists(p):
        for ln in open(p):
            ln = ln.strip()
            if not ln or ln.startswith("#"):
                continue
            if ln.startswith("finding:"):
                body = ln[len("finding:"):]
                what = ""
                if " what=" in body:
                    body, what = body.split(" what=", 1)
                kv = dict(t.split("=", 1) for t in body.split() if "=" in t)
                if what:
                    kv["what"] = what
                kv["_line"] = ln
                finds.append(kv)
            elif ln.startswith("fixed:"):
                fixed.append(ln)
    return finds, fixed


def write_replay(prop, kind, payload):
    os.makedirs(REPLAYS, exist_ok=True)
    h = hashlib.sha1(json.dumps(payload, sort_keys=True).encode()).hexdigest()[:10]
    path = os.path.join(REPLAYS, "%s_%s_%s.json" % (prop, kind, h))
    with open(path, "w") as f:
        json.dump(payload, f, indent=1)
    return path


def write_evidence(prop, ev):
    os.makedirs(EVID, exist_ok=True)
    with open(os.path.join(EVID, prop + ".json"), "w") as f:
        json.dump(ev, f, indent=1)
