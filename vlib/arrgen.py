"""Generators for array PROGRAMS (properties C17 / C18).

Case line (without id):  prog u64 <variant> <dims> <op> <op> ...
  variant: U.u (unlabelled, [usize; N] indices), L.u (labelled, usize index), L.n (labelled, newtype index)
  dims   : 2x3
The op language is defined in /verif/lean/SLV/Model/MArrProg.lean (Lean model) and /verif/harness_arr (Rust).
"""
import copy
import itertools

VARIANTS = ("U.u", "L.u", "L.n")


def shapes(maxdim, ranks=(1, 2, 3)):
    out = []
    for r in ranks:
        out += [list(t) for t in itertools.product(range(maxdim + 1), repeat=r)]
    return out


def prod(dims):
    p = 1
    for d in dims:
        p *= d
    return p


def line(variant, dims, ops):
    return "prog u64 %s %s %s" % (variant, "x".join(map(str, dims)), " ".join(ops))


def lit(x):
    """nested python list -> bracket literal without blanks"""
    if isinstance(x, list):
        return "[" + ",".join(lit(y) for y in x) + "]"
    return str(x)


def nested(dims, vals):
    """row-major values -> nested list of the given shape"""
    it = iter(vals)

    def go(ds):
        if len(ds) == 1:
            return [next(it) for _ in range(ds[0])]
        return [go(ds[1:]) for _ in range(ds[0])]
    return go(list(dims))


def all_idx(dims):
    return [list(t) for t in itertools.product(*[range(d) for d in dims])]


def csv(xs):
    return ",".join(map(str, xs))


# ------------------------------------------------------------------------------------------------
# C18: index enumeration

def resume_ks(dims):
    """numbers of leading next() calls after which an enumeration is resumed through the provided Iterator methods:
    start, inside the first row, on / just after every row and plane boundary, the middle, the last item, the end and
    one past the end (deduplicated, 0 <= k <= total + 1)"""
    total = prod(dims)
    ks = {0, 1, dims[-1], dims[-1] + 1, total // 2, total - 1, total, total + 1}
    for i in range(1, len(dims)):
        p = prod(dims[i:])
        ks |= {p, p + 1}
    return sorted(k for k in ks if 0 <= k <= total + 1)


def enum_case(variant, dims):
    return line(variant, dims, ["indexes", "keys", "dkeys", "indexes"] + ["resume:%d" % k for k in resume_ks(dims)])


# ------------------------------------------------------------------------------------------------
# C17: fixed programs per shape

def fixed_programs(variant, dims):
    n = prod(dims)
    lab = variant.startswith("L")
    idx = all_idx(dims)
    p1 = ["fn:3", "iter", "index", "with", "indexes", "len", "keys", "dkeys", "clone", "eq"]
    for k in ([idx[0], idx[-1]] if idx else []):
        p1.append("get:" + csv(k))
    # one out-of-shape read per axis: the coordinate equal to the dimension (would alias the next row in a flat layout)
    for ax in range(len(dims)):
        k = [0] * len(dims)
        k[ax] = dims[ax]
        p1.append("get:" + csv(k))
        p1.append("set:" + csv(k) + ":5")
    p2 = ["zeros", "default", "eq", "clone"]
    if idx:
        p2 += ["set:%s:11" % csv(idx[-1]), "eq", "set:%s:12" % csv(idx[0]), "index", "swap", "eq", "swap"]
    p2 += ["flat:" + csv(range(10, 10 + n)), "iter", "with", "imadd:1", "imadd:100", "down:0",
           "down:%d" % dims[0], "dmfn:0:4", "dmset:0:%s:9" % csv([0] * (len(dims) - 1)), "conv", "asref"]
    p2 += ["flat:" + csv(range(max(n - 1, 0))), "flat:" + csv(range(n + 2)), "iter"]
    ev = [2 * i for i in range(n)]
    p3 = ["nest:" + lit(nested(dims, range(1, n + 1))), "index", "tryf:" + lit(nested(dims, ev))]
    if n >= 2:
        bad = list(ev)
        bad[n - 1] = 7
        bad[n // 2] = 5
        p3.append("tryf:" + lit(nested(dims, bad)))
    if len(dims) >= 2:
        ws = [[2 + j + 5 * a for j in range(d)] for a, d in enumerate(dims)]
        p3 += ["prod:" + ":".join(csv(w) for w in ws), "with", "prodit:" + ":".join(csv(w) for w in ws)]
        ws2 = [w + [1] for w in ws]
        p3 += ["prod:" + ":".join(csv(w) for w in ws2)]
    p3 += ["clone", "fn:9", "eq", "swap", "iter"]
    return [line(variant, dims, p) for p in (p1, p2, p3)]


# ------------------------------------------------------------------------------------------------
# C17: random programs

def rand_idx(rng, dims, oob=False):
    k = [rng.randrange(d) if d > 0 else 0 for d in dims]
    if oob or any(d == 0 for d in dims):
        ax = rng.randrange(len(dims))
        k[ax] = dims[ax] + rng.choice([0, 0, 1, 3])
    return k


def rand_vals(rng, n, even=False):
    if even:
        return [2 * rng.randrange(500) for _ in range(n)]
    return [rng.randrange(1000) for _ in range(n)]


def perturb_nested(rng, t, depth):
    """change one count somewhere in the nested list (depth = rank)"""
    t = copy.deepcopy(t)
    level = rng.randrange(depth)
    cur, lv = t, 0
    while lv < level and cur:
        cur = cur[rng.randrange(len(cur))]
        lv += 1
    if cur and rng.random() < 0.5:
        cur.pop()
    elif cur:
        cur.append(copy.deepcopy(cur[0]))
    else:
        cur.append(0 if lv == depth - 1 else [])
    return t


def rand_op(rng, variant, dims):
    lab = variant.startswith("L")
    rank = len(dims)
    n = prod(dims)
    r = rng.random()
    kinds = ["fn", "flat", "nest", "get", "set", "iter", "index", "with", "clone", "eq", "swap", "zeros", "default",
             "tryf", "indexes", "len"]
    weights = [3, 3, 2, 4, 5, 2, 2, 2, 2, 2, 1, 1, 1, 2, 1, 1]
    if lab:
        kinds += ["imadd", "keys", "dkeys"]
        weights += [4, 1, 1]
        if rank == 1:
            kinds += ["conv", "asref"]
            weights += [2, 2]
        else:
            kinds += ["down", "dmset", "dmfn"]
            weights += [3, 4, 2]
    else:
        # the ops that do not exist for the family are still sent now and then (both sides must say `na`)
        kinds += ["imadd", "down", "keys"]
        weights += [0.3, 0.3, 0.3]
    if rank >= 2:
        kinds += ["prod", "prodit"]
        weights += [2, 1 if lab else 0.3]
    k = rng.choices(kinds, weights)[0]
    if k in ("iter", "index", "with", "clone", "eq", "swap", "zeros", "default", "indexes", "len", "keys", "dkeys",
             "conv", "asref"):
        return k
    if k == "fn":
        return "fn:%d" % rng.randrange(1, 50)
    if k == "flat":
        m = n
        if r < 0.12:
            m = max(n - rng.choice([1, 2]), 0)
        elif r < 0.24:
            m = n + rng.choice([1, 3])
        if not lab and rank == 1 and m != n and rng.random() < 0.7:
            m = n  # ragged unlabelled rank-1 storage ends the oracle's view of the program: keep it rare
        return "flat:" + csv(rand_vals(rng, m))
    if k in ("nest", "tryf"):
        vals = rand_vals(rng, n, even=(k == "tryf"))
        if k == "tryf" and n > 0 and r < 0.5:
            for _ in range(rng.choice([1, 2, 3])):
                vals[rng.randrange(n)] = 2 * rng.randrange(500) + 1
        t = nested(dims, vals)
        q = rng.random()
        if q < (0.15 if lab else 0.06):
            t = perturb_nested(rng, t, rank)
        return k + ":" + lit(t)
    if k == "get":
        return "get:" + csv(rand_idx(rng, dims, oob=r < 0.25))
    if k == "set":
        return "set:%s:%d" % (csv(rand_idx(rng, dims, oob=r < 0.2)), rng.randrange(1000))
    if k == "imadd":
        return "imadd:%d" % rng.randrange(1, 20)
    if k == "down":
        return "down:%d" % (rng.randrange(dims[0]) if dims[0] > 0 and r > 0.2 else dims[0] + rng.choice([0, 1]))
    if k == "dmset":
        i = rng.randrange(dims[0]) if dims[0] > 0 and r > 0.15 else dims[0] + rng.choice([0, 1])
        sub = rand_idx(rng, dims[1:], oob=rng.random() < 0.15) if rank >= 2 else []
        return "dmset:%d:%s:%d" % (i, csv(sub), rng.randrange(1000))
    if k == "dmfn":
        i = rng.randrange(dims[0]) if dims[0] > 0 and r > 0.15 else dims[0] + rng.choice([0, 1])
        return "dmfn:%d:%d" % (i, rng.randrange(1, 50))
    if k in ("prod", "prodit"):
        ws = [[rng.randrange(1, 30) for _ in range(d)] for d in dims]
        if r < 0.12:
            ax = rng.randrange(rank)
            if ws[ax] and rng.random() < 0.5:
                ws[ax].pop()
            else:
                ws[ax].append(3)
        return k + ":" + ":".join(csv(w) for w in ws)
    return k


def rand_program(rng, variant, dims):
    ops = [rng.choice(["fn:%d" % rng.randrange(1, 50), "flat:" + csv(rand_vals(rng, prod(dims)))])]
    for _ in range(rng.randrange(6, 15)):
        ops.append(rand_op(rng, variant, dims))
    ops += ["iter", "index"]
    return line(variant, dims, ops)
