import SLV.Driver.Run
import SLV.Oracle.All
open SLV

def hexVal (c : Char) : Option Nat :=
  if '0' ≤ c ∧ c ≤ '9' then some (c.toNat - '0'.toNat)
  else if 'a' ≤ c ∧ c ≤ 'f' then some (c.toNat - 'a'.toNat + 10)
  else if 'A' ≤ c ∧ c ≤ 'F' then some (c.toNat - 'A'.toNat + 10)
  else none

def parseHex (s : String) : Option Nat :=
  if s.isEmpty then none else
  s.toList.foldl (fun acc c => match acc, hexVal c with
    | some a, some v => some (a * 16 + v)
    | _, _ => none) (some 0)

def ratToFloat (q : Rat) : Float :=
  let s : Rat := q * ((2 ^ 90 : Nat) : Rat)
  Float.ofInt s.floor / Float.ofNat (2 ^ 90)

def absQ (q : Rat) : Rat := if q < 0 then -q else q

/-- scientific notation with 3 significant digits (informational only) -/
def sci (x : Float) : String :=
  if x == 0 then "0" else if x.isNaN then "nan" else
  let e := (Float.log10 x.abs).floor
  let m := x / Float.pow 10 e
  let mi := (m * 100).round.toInt64.toInt
  s!"{mi}e{(e - 2).toInt64.toInt}"

structure ImplRes where
  cls : String
  label : String
  bits : List Nat
  flags : List Bool
  rej : Option Nat

def parseImpl (toks : List String) : ImplRes :=
  match toks with
  | [] => { cls := "missing", label := "", bits := [], flags := [], rej := none }
  | cls :: rest =>
    let (label, rest) :=
      if cls == "err" || cls == "panic" then (rest.headD "?", rest.drop 1) else ("", rest)
    let init : List Nat × List Bool × Option Nat := ([], [], none)
    let r := rest.foldl (fun (acc : List Nat × List Bool × Option Nat) t =>
      if t == "T" then (acc.1, acc.2.1 ++ [true], acc.2.2)
      else if t == "F" then (acc.1, acc.2.1 ++ [false], acc.2.2)
      else if t.startsWith "rej=" then (acc.1, acc.2.1, parseHex (t.drop 4).toString)
      else match parseHex t with
        | some n => (acc.1 ++ [n], acc.2.1, acc.2.2)
        | none => acc) init
    { cls, label, bits := r.1, flags := r.2.1, rej := r.2.2 }

def xqToOpt {f : Fmt} : XQ f → Option Rat | .fin q => some q | _ => none

def xqClass {f : Fmt} : XQ f → Nat | .fin _ => 0 | .pinf => 1 | .ninf => 2 | .nan => 3

/-- compare implementation scalars with the exact model: (same shape, max deviation, all within τ) -/
def cmpExact {f : Fmt} (τ : Rat) (impl exact : List (XQ f)) : Bool × Rat × Bool :=
  if impl.length != exact.length then (false, 0, false) else
  (List.zip impl exact).foldl (fun (acc : Bool × Rat × Bool) p =>
    match p.1, p.2 with
    | .fin a, .fin b =>
      let d := absQ (a - b)
      (acc.1, if d > acc.2.1 then d else acc.2.1, acc.2.2 && decide (d ≤ τ))
    | x, y => if xqClass x == xqClass y then acc else (acc.1, acc.2.1, false)) (true, 0, true)

def cmpTwin {β} [IOScalar β] (implBits : List Nat) (twin : List β) : Bool :=
  implBits.length == twin.length &&
  (List.zip implBits twin).all fun p =>
    let t := p.2
    let tb := IOScalar.toBits t
    if IOScalar.isNaNBits t then IOScalar.isNaNBits (IOScalar.ofBits p.1 : β) else tb == p.1

def tau (f : Fmt) : Rat := match f with
  | .f64 => 1 / ((2 ^ 36 : Nat) : Rat)
  | .f32 => 1 / ((2 ^ 13 : Nat) : Rat)

def expectedCls (op : String) (variant : List String) (modelCls : String) : String :=
  if modelCls == "err" && errIsPanic op variant then "panic" else modelCls

def processLine (prop : String) (line : String) : String := Id.run do
  let parts := line.splitOn " => "
  let lhs := (parts.getD 0 "").trimAscii.toString.splitOn " "
  let rhs := ((parts.getD 1 "").trimAscii.toString.splitOn " ").filter (· ≠ "")
  match lhs with
  | id :: op :: fmtS :: variantS :: intsS :: scal =>
    let variant := variantS.splitOn "."
    let ints := if intsS == "-" then [] else (intsS.splitOn ",").filterMap String.toNat?
    let bits := scal.filterMap parseHex
    if bits.length != scal.length then return s!"{id} bad-input"
    let impl := parseImpl rhs
    if impl.cls == "unsupported" then return s!"{id} unsupported"
    if impl.cls == "missing" then return s!"{id} missing"
    let fmt : Fmt := if fmtS == "f32" then .f32 else .f64
    -- exact model
    let run (f : Fmt) : String := Id.run do
      let xin : Array (XQ f) := (bits.map (decodeBits f)).toArray
      let ex := runOpV op variant ints xin
      if ex.cls == "unsupported" then return s!"{id} model-unsupported"
      let implVals : List (XQ f) := impl.bits.map (decodeBits f)
      let wantCls := expectedCls op variant ex.cls
      let clsOk := wantCls == impl.cls
      let labelOk := !(impl.cls == "err" || impl.cls == "panic") || ex.label == impl.label
        || ex.label == "" || impl.label == "?"
      let (shapeOk, maxdev, within) :=
        if clsOk && impl.cls == "ok" then cmpExact (tau f) implVals ex.vals else (true, 0, true)
      let flagsOk := !(clsOk && impl.cls == "ok") || impl.flags == ex.flags
      -- twin
      let (twinCls, twinEq) : String × Bool :=
        match f with
        | .f64 =>
          let tin : Array Float := (bits.map (IOScalar.ofBits (α := Float))).toArray
          let tw := runOpV op variant ints tin
          let c := expectedCls op variant tw.cls
          (c, c == impl.cls && (impl.cls != "ok" || (cmpTwin impl.bits tw.vals && tw.flags == impl.flags))
                && (!(impl.cls == "err" || impl.cls == "panic") || tw.label == impl.label || impl.label == "?"))
        | .f32 =>
          let tin : Array Float32 := (bits.map (IOScalar.ofBits (α := Float32))).toArray
          let tw := runOpV op variant ints tin
          let c := expectedCls op variant tw.cls
          (c, c == impl.cls && (impl.cls != "ok" || (cmpTwin impl.bits tw.vals && tw.flags == impl.flags))
                && (!(impl.cls == "err" || impl.cls == "panic") || tw.label == impl.label || impl.label == "?"))
      let corr :=
        if !clsOk then s!"class:{wantCls}/{impl.cls}"
        else if !labelOk then s!"label:{ex.label}/{impl.label}"
        else if !shapeOk then "shape"
        else if !flagsOk then "flags"
        else if !within then "dev"
        else "ok"
      -- oracle on the implementation's outputs
      let oc : Oracle.Case := {
        prop, op, variant, ints, fmt := f,
        inp := xin.map xqToOpt, inpClass := xin.map xqClass, cls := impl.cls, label := impl.label,
        out := (implVals.map xqToOpt).toArray, flags := impl.flags,
        exact := (ex.vals.map xqToOpt).toArray, exactCls := ex.cls,
        rej := (match impl.rej with | some r => xqToOpt (decodeBits .f64 r) | none => none),
        rejSpecial := (match impl.rej with | some r => (xqToOpt (decodeBits .f64 r)).isNone | none => false) }
      let orc := match Oracle.oracle oc with
        | none => "skip"
        | some [] => "pass"
        | some fs => "fail:" ++ ",".intercalate fs
      let tags := if ex.tags.isEmpty then "-" else ",".intercalate ex.tags
      let rej := match impl.rej with
        | some r => match decodeBits .f64 r with
          | .fin q => s!" rej={sci (ratToFloat q)}"
          | _ => " rej=special"
        | none => ""
      -- size of the miss in units of the format's ε (= ulps of 1): distance of the rejected value from the admissible set
      let miss := match impl.rej with
        | some r => match decodeBits .f64 r with
          | .fin q => s!" miss={(Oracle.rejDistance impl.label q / f.eps).ceil}"
          | _ => ""
        | none => ""
      return s!"{id} corr={corr} twin={if twinEq then "eq" else "ne:" ++ twinCls} maxdev={sci (ratToFloat maxdev)} oracle={orc} mcls={ex.cls} icls={impl.cls} tags={tags}{rej}{miss}"
    return run fmt
  | _ => return "? bad-line"

partial def loop (prop : String) (hin : IO.FS.Stream) (hout : IO.FS.Stream) : IO Unit := do
  let line ← hin.getLine
  if line.isEmpty then return ()
  let l := line.trimAscii.toString
  if !l.isEmpty then hout.putStrLn (processLine prop l)
  loop prop hin hout

def main (args : List String) : IO Unit := do
  let prop := args.getD 0 "-"
  let hin ← IO.getStdin
  let hout ← IO.getStdout
  loop prop hin hout
