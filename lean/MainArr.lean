/-
  Driver for the multi-array properties C17 / C18 (executable `slvarr`).
  stdin : lines `<id> prog u64 <variant> <dims> <op> <op> ... => <obs step 1> | <obs step 2> | ...`
          (as echoed by the Rust harness /verif/harness_arr), variant ∈ {U.u, L.u, L.n}, dims = `2x3`
  stdout: one verdict line per case in the format of Main.lean.
-/
import SLV.Model.MArrProg
open SLV.MArr

def natList? (s : String) : Option (List Nat) :=
  if s.isEmpty then some [] else (s.splitOn ",").mapM String.toNat?

/-- strip one pair of outer brackets and split at the commas of bracket depth 0 -/
def splitTop (s : List Char) : Option (List (List Char)) :=
  match s with
  | '[' :: rest =>
    match rest.reverse with
    | ']' :: midR =>
      let mid := midR.reverse
      if mid.isEmpty then some [] else
      let r := mid.foldl (fun (acc : Nat × List Char × List (List Char)) c =>
        let (d, cur, out) := acc
        if c == '[' then (d + 1, c :: cur, out)
        else if c == ']' then (d - 1, c :: cur, out)
        else if c == ',' && d == 0 then (d, [], cur.reverse :: out)
        else (d, c :: cur, out)) (0, [], [])
      some (r.2.2.reverse ++ [r.2.1.reverse])
    | _ => none
  | _ => none

def parseN1 (s : List Char) : Option (List Nat) :=
  match splitTop s with
  | none => none
  | some parts => parts.mapM fun p => (String.ofList p).toNat?

def parseN2 (s : List Char) : Option (List (List Nat)) :=
  match splitTop s with | none => none | some parts => parts.mapM parseN1

def parseN3 (s : List Char) : Option (List (List (List Nat))) :=
  match splitTop s with | none => none | some parts => parts.mapM parseN2

def parseNested (rank : Nat) (s : String) : Option Nested :=
  match rank with
  | 1 => (parseN1 s.toList).map .n1
  | 2 => (parseN2 s.toList).map .n2
  | 3 => (parseN3 s.toList).map .n3
  | _ => none

def parseOp (rank : Nat) (tok : String) : Op :=
  let parts := tok.splitOn ":"
  let o (x : Option Op) : Op := x.getD .bad
  match parts with
  | ["zeros"] => .zeros
  | ["default"] => .dflt
  | ["fn", s] => o (s.toNat?.map .fn)
  | ["flat", v] => o ((natList? v).map .flat)
  | ["nest", t] => o ((parseNested rank t).map .nest)
  | ["get", i] => o ((natList? i).map .get)
  | ["set", i, v] => o (do let i ← natList? i; let v ← v.toNat?; pure (.set i v))
  | ["imadd", c] => o (c.toNat?.map .imadd)
  | ["dmset", i, j, v] => o (do let i ← i.toNat?; let j ← natList? j; let v ← v.toNat?; pure (.dmset i j v))
  | ["dmfn", i, s] => o (do let i ← i.toNat?; let s ← s.toNat?; pure (.dmfn i s))
  | ["down", i] => o (i.toNat?.map .down)
  | ["clone"] => .clone
  | ["eq"] => .eq
  | ["swap"] => .swap
  | ["conv"] => .conv
  | ["asref"] => .asref
  | "prod" :: ws => o ((ws.mapM natList?).map .prod)
  | "prodit" :: ws => o ((ws.mapM natList?).map .prodit)
  | ["tryf", t] => o ((parseNested rank t).map .tryf)
  | ["iter"] => .iter
  | ["index"] => .index
  | ["with"] => .iterWith
  | ["indexes"] => .indexes
  | ["keys"] => .keys
  | ["dkeys"] => .dkeys
  | ["len"] => .len
  | ["resume", k] => o (k.toNat?.map .resume)
  | _ => .bad

def opName (tok : String) : String := (tok.splitOn ":").headD "?"

/-- split the token list of the implementation's observations at the `|` separators -/
def splitSteps (toks : List String) : List (List String) :=
  let r := toks.foldl (fun (acc : List String × List (List String)) t =>
    if t == "|" then ([], acc.1.reverse :: acc.2) else (t :: acc.1, acc.2)) ([], [])
  (r.1.reverse :: r.2).reverse

/-- `size_hint()` contract: the implementation prints its hint as `sh:<lo>:<hi|N>`, the model prints the number of
    remaining items as `sh=<n>`.  The hint is not compared with the model; it only has to bracket the remaining
    length: `lo ≤ n` and `n ≤ hi` when `hi` is given.  A hint that keeps the contract is replaced by the model's token,
    a hint that breaks it (or cannot be parsed) is left as it is and so shows up as a token-level disagreement. -/
def hintOk (m x : String) : Bool :=
  match (m.drop 3).toString.toNat?, (x.drop 3).toString.splitOn ":" with
  | some n, [lo, hi] =>
    match lo.toNat? with
    | none => false
    | some lo => lo ≤ n && (hi == "N" || (match hi.toNat? with | some h => n ≤ h | none => false))
  | _, _ => false

def normHints : List String → List String → List String
  | m :: ms, x :: xs =>
    (if m.startsWith "sh=" && x.startsWith "sh:" && hintOk m x then m else x) :: normHints ms xs
  | _, xs => xs

def normTrace : List (List String) → List (List String) → List (List String)
  | m :: ms, x :: xs => normHints m x :: normTrace ms xs
  | _, xs => xs

/-- first step where two traces differ: (index, model token, impl token) -/
def firstDiff (model impl : List (List String)) : Option (Nat × String × String) :=
  let rec go (i : Nat) : List (List String) → List (List String) → Option (Nat × String × String)
    | [], [] => none
    | m :: _, [] => some (i, m.headD "-", "missing")
    | [], x :: _ => some (i, "missing", x.headD "-")
    | m :: ms, x :: xs =>
      if m == x then go (i + 1) ms xs else
      let rec tk : List String → List String → String × String
        | [], [] => ("-", "-")
        | a :: _, [] => (a, "end")
        | [], b :: _ => ("end", b)
        | a :: as, b :: bs => if a == b then tk as bs else (a, b)
      let d := tk m x
      some (i, d.1, d.2)
  go 0 model impl

/-- oracle: the flat specification against the implementation's observations, step by step, until the
    specification leaves its domain (`unspec`) -/
def oracleFails (spec impl : List (List String)) (names : List String) : List String :=
  let rec go (i : Nat) : List (List String) → List (List String) → List String → List String
    | [], _, _ => []
    | s :: ss, xs, ns =>
      if s == ["unspec"] then [] else
      let x := xs.headD []
      let rest := go (i + 1) ss (xs.drop 1) (ns.drop 1)
      if s == x then rest else (ns.headD "?" ++ "@" ++ toString i) :: rest
  go 0 spec impl names

def processLine (prop : String) (line : String) : String := Id.run do
  let parts := line.splitOn " => "
  let lhs := ((parts.getD 0 "").trimAscii.toString.splitOn " ").filter (· ≠ "")
  let rhs := ((parts.getD 1 "").trimAscii.toString.splitOn " ").filter (· ≠ "")
  match lhs with
  | id :: _op :: _cell :: variant :: dimsS :: progToks =>
    if parts.length < 2 then return s!"{id} missing"
    if rhs == ["unsupported"] then return s!"{id} unsupported"
    let dims? := (dimsS.splitOn "x").mapM String.toNat?
    match dims? with
    | none => return s!"{id} bad-input"
    | some dims =>
      let (labelled, newtype, okVar) :=
        if variant == "U.u" then (false, false, true)
        else if variant == "L.u" then (true, false, true)
        else if variant == "L.n" then (true, true, true)
        else (false, false, false)
      if !okVar then return s!"{id} bad-input"
      let prog := progToks.map (parseOp dims.length)
      let names := progToks.map opName
      match runNested labelled newtype dims prog with
      | none => return s!"{id} model-unsupported"
      | some model =>
        let impl := if progToks.isEmpty then [] else splitSteps rhs
        let corr := match firstDiff model (normTrace model impl) with
          | none => "ok"
          | some (i, m, x) => s!"class:step{i}.{names.getD i "?"}:{m}/{x}"
        let spec := runSpec labelled newtype dims prog
        let fails := oracleFails spec (normTrace spec impl) names
        let relevant := if prop == "C18" then
            names.any (fun n => n == "indexes" || n == "keys" || n == "dkeys" || n == "resume")
          else true
        let orc := if !relevant || progToks.isEmpty then "skip"
          else if fails.isEmpty then "pass" else "fail:" ++ ",".intercalate (fails.take 4)
        let npanic := (impl.filter (· == ["panic"])).length
        let nunspec := (spec.filter (· == ["unspec"])).length
        let zero := dims.any (· == 0)
        let tags := s!"{variant}:r{dims.length}:{if zero then "empty" else "cells"}:{if npanic > 0 then "panics" else "nopanic"}" ++
          (if nunspec > 0 then ":ragged" else "")
        return s!"{id} corr={corr} twin={if corr == "ok" then "eq" else "ne:x"} maxdev=0 oracle={orc} mcls=ok icls=ok tags={tags}"
  | _ => return "? bad-line"

partial def loop (prop : String) (hin : IO.FS.Stream) (hout : IO.FS.Stream) : IO Unit := do
  let line ← hin.getLine
  if line.isEmpty then return ()
  let l := line.trimAscii.toString
  if !l.isEmpty then hout.putStrLn (processLine prop l)
  loop prop hin hout

def main (args : List String) : IO Unit := do
  let prop := args.getD 0 "-"
  let hin ← IO.getStdin
  let hout ← IO.getStdout
  loop prop hin hout
