/-
  Tie between the Lean text GENERATED from src/mul.rs (SLV/Gen/Mul.lean, rewritten by
  /verif/tools/rs2lean.py on every run) and the hand-written model SLV/Model/{Basic,Fuse,Cond}.lean.

  Every theorem says: the generated definition IS the model definition.  The Rust text speaks about
  containers through indexes (`T::from_fn(|i| ..)`, `for i in T::indexes()`, `T::indexes().map(..)`) where the
  model uses `Vector.map`, `Vector.foldl`, `Vector.replicate`, `toList.all`; the five structural lemmas below
  move the model's combinators into index form.  Apart from them the proofs only unfold definitions, rewrite
  with the earlier ties (generated functions call generated functions), split on the `FuseOp` value and close
  with `rfl`.  No arithmetic fact about `Scalar` is used, so any edit of a formula in the Rust text -- even a
  harmless `a * b` ↦ `b * a` -- breaks the theorem of that function.

  Error positions: every theorem starts on its own line with the keyword `theorem` (comments before a theorem
  are plain comments, not doc comments), so `<file>:<line>` of a build error lies between that line and the next
  `theorem` line.

  `==` (property C20; model SLV/Model/Eq.lean), section "equality" at the end: `gen_eq_Simplex_eq`,
  `gen_eq_OpinionBase_eq` (derived `PartialEq` of src/mul.rs = `Cmp.simplexEq` / `Cmp.opinionEq`), `gen_eq_MArr1_eq`,
  `gen_eq_MArr2_eq`, `gen_eq_MArr3_eq` (derived, src/multi_array/non_labeled.rs), `gen_eq_MArrD1_eq`, `gen_eq_MArrD2_eq`,
  `gen_eq_MArrD3_eq` (hand-written `impl cmp::PartialEq`, body `self.inner == other.inner`, src/multi_array/labeled.rs)
  = the cell-wise `Cmp.tabEq` of the row-major flattened table.  The marker definitions `eq_<Type>` exist only under
  their convention guard (derived: the `#[derive(..)]` line still contains `PartialEq`, no hand-written impl besides it,
  every field has a convention; hand-written: the body is the `&&` of `self.f == other.f` over all non-marker fields, no
  `ne`); a violated guard makes the marker -- and the markers of the types nesting it: MArr2/MArr3, MArrD2/MArrD3,
  OpinionBase -- a hole, i.e. the theorem fails with an unknown identifier.

  Hand-written once; never regenerated.
-/
import SLV.Gen.Mul
namespace SLV.Gen.Tie
open Scalar
variable {α : Type} [Scalar α] {n m : Nat}

theorem ofFn_getElem' {β : Type} (v : Vector β n) : (Vector.ofFn fun i : Fin n => v[i]) = v := by
  apply Vector.ext; intro i h; simp

/- index form of `map` (oriented towards the shape the translator produces) -/
theorem map_eq_ofFn {β γ : Type} (v : Vector β n) (f : β → γ) :
    v.map f = Vector.ofFn fun i : Fin n => f v[i] := by
  apply Vector.ext; intro i h; simp

theorem replicate_eq_ofFn {β : Type} (c : β) : Vector.replicate n c = Vector.ofFn fun _ : Fin n => c := by
  apply Vector.ext; intro i h; simp

theorem toList_eq_finRange_map {β : Type} (v : Vector β n) :
    v.toList = (List.finRange n).map (fun i => v[i]) := by
  apply List.ext_getElem <;> simp

theorem foldl_eq_finRange {β γ : Type} (v : Vector β n) (f : γ → β → γ) (z : γ) :
    v.foldl f z = (List.finRange n).foldl (fun a i => f a v[i]) z := by
  rw [← Vector.foldl_toList, toList_eq_finRange_map v, List.foldl_map]

theorem all_eq_finRange {β : Type} (v : Vector β n) (p : β → Bool) :
    v.toList.all p = (List.finRange n).all fun i => p v[i] := by
  rw [toList_eq_finRange_map v, List.all_map]; rfl

/- the accumulate-and-check loop of `check_simplex` / `check_base_rate` as a fold in the `Except` monad -/
theorem checkEntries_map_eq_foldlM {β : Type} (l : Label) (g : β → α) (xs : List β) (z : α) :
    checkEntries l (xs.map g) z = xs.foldlM (m := Except Label)
      (fun (acc : α) (i : β) => Except.bind (checkUnit (g i) l) fun _ => Except.ok (acc + g i)) z := by
  induction xs generalizing z with
  | nil => rfl
  | cons x xs ih =>
    rw [List.map_cons, List.foldlM_cons]
    unfold checkEntries checkUnit
    cases Scalar.inUnit (g x)
    · rfl
    · exact ih _

theorem checkEntries_eq_foldlM (l : Label) (v : Vector α n) (z : α) :
    checkEntries l v.toList z = (List.finRange n).foldlM (m := Except Label)
      (fun (acc : α) (i : Fin n) => Except.bind (checkUnit v[i] l) fun _ => Except.ok (acc + v[i])) z := by
  rw [toList_eq_finRange_map v]
  exact checkEntries_map_eq_foldlM l (fun i => v[i]) (List.finRange n) z

theorem gen_Simplex_vacuous_eq : @SLV.Gen.Mul.Simplex_vacuous = @SLV.Simplex.vacuous := rfl
theorem gen_Simplex_is_vacuous_eq : @SLV.Gen.Mul.Simplex_is_vacuous = @SLV.Simplex.isVacuous := rfl
theorem gen_Simplex_is_dogmatic_eq : @SLV.Gen.Mul.Simplex_is_dogmatic = @SLV.Simplex.isDogmatic := rfl
theorem gen_OpinionRef_is_vacuous_eq : @SLV.Gen.Mul.OpinionRef_is_vacuous = @SLV.Opinion.isVacuous := rfl
theorem gen_OpinionRef_is_dogmatic_eq : @SLV.Gen.Mul.OpinionRef_is_dogmatic = @SLV.Opinion.isDogmatic := rfl

theorem gen_normalize_prob_dist_eq : @SLV.Gen.Mul.normalize_prob_dist = @SLV.normalizeProbDist := by
  funext α _ n p
  unfold SLV.Gen.Mul.normalize_prob_dist SLV.normalizeProbDist Tab.sumLoop
  simp only [foldl_eq_finRange, map_eq_ofFn]
  rfl

theorem gen_Simplex_normalized_eq : @SLV.Gen.Mul.Simplex_normalized = @SLV.Simplex.normalized := by
  funext α _ n b u
  unfold SLV.Gen.Mul.Simplex_normalized SLV.Simplex.normalized
  simp only [ofFn_getElem', map_eq_ofFn]

theorem gen_OpinionRef_projection_eq : @SLV.Gen.Mul.OpinionRef_projection = @SLV.Opinion.projection := by
  funext α _ n w
  unfold SLV.Gen.Mul.OpinionRef_projection
  rw [gen_normalize_prob_dist_eq]
  rfl

theorem gen_Simplex_projection_eq : @SLV.Gen.Mul.Simplex_projection = @SLV.Simplex.projection := by
  funext α _ n s a
  unfold SLV.Gen.Mul.Simplex_projection
  rw [gen_OpinionRef_projection_eq]
  rfl

theorem gen_max_uncertainty_eq : @SLV.Gen.Mul.max_uncertainty = @SLV.Simplex.maxUncertainty := by
  funext α _ n s a
  unfold SLV.Gen.Mul.max_uncertainty
  rw [gen_Simplex_projection_eq]
  rfl

theorem gen_uncertainty_maximized_eq : @SLV.Gen.Mul.uncertainty_maximized = @SLV.Simplex.uncertaintyMaximized := by
  funext α _ n s a
  unfold SLV.Gen.Mul.uncertainty_maximized
  rw [gen_Simplex_projection_eq, gen_max_uncertainty_eq, gen_Simplex_normalized_eq]
  rfl

theorem gen_Simplex_discount_eq : @SLV.Gen.Mul.Simplex_discount = @SLV.Simplex.discount := rfl

/- multinomial `check_simplex` (src/mul.rs) -/
theorem gen_multi_check_simplex_eq : @SLV.Gen.Mul.multi_check_simplex = @SLV.checkSimplex := by
  funext α _ n b u
  unfold SLV.Gen.Mul.multi_check_simplex SLV.checkSimplex
  simp only [checkEntries_eq_foldlM]
  generalize List.foldlM (m := Except Label) _ _ _ = r
  cases r <;> try rfl
  cases checkUnit u Label.u <;> try rfl
  dsimp only
  generalize checkOne (α := α) _ Label.sumBU = c
  cases c <;> rfl

theorem gen_multi_check_base_rate_eq : @SLV.Gen.Mul.multi_check_base_rate = @SLV.checkBaseRate := by
  funext α _ n a
  unfold SLV.Gen.Mul.multi_check_base_rate SLV.checkBaseRate
  simp only [checkEntries_eq_foldlM]
  generalize List.foldlM (m := Except Label) _ _ _ = r
  cases r <;> try rfl
  dsimp only
  generalize checkOne (α := α) _ Label.sumA = c
  cases c <;> rfl

theorem gen_Simplex_try_new_eq : @SLV.Gen.Mul.Simplex_try_new = @SLV.Simplex.tryNew := by
  funext α _ n b u
  unfold SLV.Gen.Mul.Simplex_try_new
  rw [gen_multi_check_simplex_eq]
  rfl

theorem gen_Simplex_new_eq : @SLV.Gen.Mul.Simplex_new = @SLV.Simplex.tryNew := by
  funext α _ n b u
  unfold SLV.Gen.Mul.Simplex_new
  rw [gen_Simplex_try_new_eq]

theorem gen_Opinion_try_new_eq : @SLV.Gen.Mul.Opinion_try_new = @SLV.Opinion.tryNew := by
  funext α _ n b u a
  unfold SLV.Gen.Mul.Opinion_try_new
  rw [gen_multi_check_simplex_eq, gen_multi_check_base_rate_eq]
  rfl

theorem gen_Opinion_new_eq : @SLV.Gen.Mul.Opinion_new = @SLV.Opinion.tryNew := by
  funext α _ n b u a
  unfold SLV.Gen.Mul.Opinion_new
  rw [gen_Opinion_try_new_eq]

/- `Opinion::normalized` (used by the labelled products): only the base rate is renormalised -/
theorem gen_Opinion_normalized_eq :
    @SLV.Gen.Mul.Opinion_normalized = fun (α : Type) (_ : Scalar α) (n : Nat) (b : Tab α n) (u : α) (a : Tab α n) =>
      (⟨b, u, normalizeProbDist a⟩ : Opinion α n) := by
  funext α _ n b u a
  unfold SLV.Gen.Mul.Opinion_normalized
  rw [gen_normalize_prob_dist_eq]
  rfl

theorem gen_compute_simlex_eq : @SLV.Gen.Mul.compute_simlex = @SLV.computeSimplex := by
  funext α _ n op l r
  unfold SLV.Gen.Mul.compute_simlex
  simp only [gen_Simplex_normalized_eq, gen_Simplex_is_vacuous_eq, gen_Simplex_is_dogmatic_eq,
    gen_Simplex_vacuous_eq]
  cases op <;> rfl

theorem gen_compute_base_rate_eq : @SLV.Gen.Mul.compute_base_rate = @SLV.computeBaseRate := by
  funext α _ n op same l r
  unfold SLV.Gen.Mul.compute_base_rate
  simp only [gen_OpinionRef_is_vacuous_eq, gen_OpinionRef_is_dogmatic_eq]
  cases op <;> rfl

/- `Fuse<OpinionRef, OpinionRef>::fuse`; `same` is handed to `compute_base_rate` -/
theorem gen_fuse_eq : @SLV.Gen.Mul.fuse = @SLV.fuse := by
  funext α _ n op same l r
  unfold SLV.Gen.Mul.fuse SLV.fuse
  rw [gen_compute_simlex_eq, gen_compute_base_rate_eq, gen_uncertainty_maximized_eq]
  cases op <;> rfl

theorem gen_OpinionRef_discount_eq : @SLV.Gen.Mul.OpinionRef_discount = @SLV.Opinion.discount := by
  funext α _ n w t
  unfold SLV.Gen.Mul.OpinionRef_discount
  rw [gen_Simplex_discount_eq]
  rfl

theorem gen_Opinion_discount_eq : @SLV.Gen.Mul.Opinion_discount = @SLV.Opinion.discount := by
  funext α _ n w t
  unfold SLV.Gen.Mul.Opinion_discount
  rw [gen_OpinionRef_discount_eq]

/- `Fuse<OpinionRef, &Simplex>`: the right operand borrows the left operand's base-rate object (`same = true`) -/
theorem gen_fuse_ref_simplex_eq : @SLV.Gen.Mul.fuse_ref_simplex = @SLV.fuseSimplex := by
  funext α _ n op l r
  unfold SLV.Gen.Mul.fuse_ref_simplex
  rw [gen_fuse_eq]
  rfl

theorem gen_fuse_opinion_simplex_eq : @SLV.Gen.Mul.fuse_opinion_simplex = @SLV.fuseSimplex := by
  funext α _ n op l r
  unfold SLV.Gen.Mul.fuse_opinion_simplex
  rw [gen_fuse_ref_simplex_eq]

theorem gen_fuse_opinion_opinion_eq : @SLV.Gen.Mul.fuse_opinion_opinion = @SLV.fuse := by
  funext α _ n op same l r
  unfold SLV.Gen.Mul.fuse_opinion_opinion
  rw [gen_fuse_eq]

/- `Fuse<&Simplex, &Simplex>`: the `panic!` for ECm is the value `none` -/
theorem gen_fuse_simplex_simplex_eq : @SLV.Gen.Mul.fuse_simplex_simplex = @SLV.fuseSS := by
  funext α _ n op l r
  unfold SLV.Gen.Mul.fuse_simplex_simplex
  rw [gen_compute_simlex_eq]
  cases op <;> rfl

/- `fuse_assign` is `*lhs = fuse(lhs, rhs)`: the new value of `lhs` is returned -/
theorem gen_fuse_assign_opinion_ref_eq : @SLV.Gen.Mul.fuse_assign_opinion_ref = @SLV.fuseAssign := by
  funext α _ n op same l r
  unfold SLV.Gen.Mul.fuse_assign_opinion_ref
  rw [gen_fuse_eq]
  rfl

theorem gen_fuse_assign_opinion_opinion_eq : @SLV.Gen.Mul.fuse_assign_opinion_opinion = @SLV.fuseAssign := by
  funext α _ n op same l r
  unfold SLV.Gen.Mul.fuse_assign_opinion_opinion
  rw [gen_fuse_assign_opinion_ref_eq]

theorem gen_fuse_assign_opinion_simplex_eq : @SLV.Gen.Mul.fuse_assign_opinion_simplex = @SLV.fuseSimplex := by
  funext α _ n op l r
  unfold SLV.Gen.Mul.fuse_assign_opinion_simplex
  rw [gen_fuse_ref_simplex_eq]

theorem gen_fuse_assign_simplex_simplex_eq : @SLV.Gen.Mul.fuse_assign_simplex_simplex = @SLV.fuseSS := by
  funext α _ n op l r
  unfold SLV.Gen.Mul.fuse_assign_simplex_simplex
  rw [gen_fuse_simplex_simplex_eq]
  cases SLV.fuseSS op l r <;> rfl

theorem gen_projections_eq : @SLV.Gen.Mul.projections = @SLV.projections := by
  funext α _ n m conds ay
  unfold SLV.Gen.Mul.projections SLV.projections
  simp only [gen_Simplex_projection_eq, map_eq_ofFn]

theorem gen_mbr_eq : @SLV.Gen.Mul.mbr = @SLV.mbr := by
  funext α _ n m ax conds
  unfold SLV.Gen.Mul.mbr SLV.mbr Tab.sumLoop
  simp only [gen_Simplex_is_vacuous_eq, all_eq_finRange, foldl_eq_finRange, map_eq_ofFn]
  rfl

theorem gen_deduce_of_eq : @SLV.Gen.Mul.deduce_of = @SLV.deduceOf := by
  funext α _ n m wx conds ay
  unfold SLV.Gen.Mul.deduce_of
  rw [gen_projections_eq, gen_OpinionRef_projection_eq, gen_Simplex_normalized_eq]
  rfl

theorem gen_inverse_eq : @SLV.Gen.Mul.inverse = @SLV.inverse := by
  funext α _ n m conds ax ay
  unfold SLV.Gen.Mul.inverse SLV.inverse
  simp only [gen_Simplex_projection_eq, gen_max_uncertainty_eq, gen_Simplex_normalized_eq,
    map_eq_ofFn, replicate_eq_ofFn, ofFn_getElem']

/-! ### Deduction / Abduction wrappers -/

theorem gen_OpinionRef_deduce_eq : @SLV.Gen.Mul.OpinionRef_deduce = @SLV.deduce := by
  funext α _ n m wx conds
  unfold SLV.Gen.Mul.OpinionRef_deduce
  rw [gen_mbr_eq, gen_deduce_of_eq]
  rfl

/- `deduce_with(conds, f)`: the model also reports whether the fallback closure was called -/
theorem gen_OpinionRef_deduce_with_eq :
    @SLV.Gen.Mul.OpinionRef_deduce_with = fun (α : Type) (_ : Scalar α) (n m : Nat) (wx : Opinion α n) (conds : CondTab α n m)
      (f : Unit → Tab α m) => (SLV.deduceWith wx conds f).1 := by
  funext α _ n m wx conds f
  unfold SLV.Gen.Mul.OpinionRef_deduce_with SLV.deduceWith
  rw [gen_mbr_eq, gen_deduce_of_eq]
  cases SLV.mbr wx.a conds <;> rfl

/- the flag of the model's `deduceWith` is `true` exactly when `mbr` gives `none` (i.e. when `f` is called) -/
theorem deduceWith_flag (wx : Opinion α n) (conds : CondTab α n m) (f : Unit → Tab α m) :
    (SLV.deduceWith wx conds f).2 = (SLV.mbr wx.a conds).isNone := by
  unfold SLV.deduceWith
  cases SLV.mbr wx.a conds <;> rfl

theorem gen_Opinion_deduce_eq : @SLV.Gen.Mul.Opinion_deduce = @SLV.deduce := by
  funext α _ n m wx conds
  unfold SLV.Gen.Mul.Opinion_deduce
  rw [gen_OpinionRef_deduce_eq]

theorem gen_Opinion_deduce_with_eq :
    @SLV.Gen.Mul.Opinion_deduce_with = fun (α : Type) (_ : Scalar α) (n m : Nat) (wx : Opinion α n)
      (conds : CondTab α n m) (f : Unit → Tab α m) => (SLV.deduceWith wx conds f).1 := by
  funext α _ n m wx conds f
  unfold SLV.Gen.Mul.Opinion_deduce_with
  rw [gen_OpinionRef_deduce_with_eq]

theorem gen_abduce_with_eq : @SLV.Gen.Mul.abduce_with = @SLV.abduceWith := by
  funext α _ n m wy conds ax ay
  unfold SLV.Gen.Mul.abduce_with
  rw [gen_inverse_eq, gen_deduce_of_eq]
  rfl

theorem gen_abduce_eq : @SLV.Gen.Mul.abduce = @SLV.abduce := by
  funext α _ n m wy conds ax
  unfold SLV.Gen.Mul.abduce
  rw [gen_mbr_eq, gen_abduce_with_eq]
  rfl

/- `Abduction for OpinionRef / &Opinion`: only the simplex of `self` is used -/
theorem gen_OpinionRef_abduce_with_eq :
    @SLV.Gen.Mul.OpinionRef_abduce_with = fun (α : Type) (_ : Scalar α) (n m : Nat) (w : Opinion α m)
      (conds : CondTab α n m) (ax : Tab α n) (ay : Tab α m) => SLV.abduceWith w.simplex conds ax ay := by
  funext α _ n m w conds ax ay
  unfold SLV.Gen.Mul.OpinionRef_abduce_with
  rw [gen_abduce_with_eq]

theorem gen_OpinionRef_abduce_eq :
    @SLV.Gen.Mul.OpinionRef_abduce = fun (α : Type) (_ : Scalar α) (n m : Nat) (w : Opinion α m)
      (conds : CondTab α n m) (ax : Tab α n) => SLV.abduce w.simplex conds ax := by
  funext α _ n m w conds ax
  unfold SLV.Gen.Mul.OpinionRef_abduce
  rw [gen_abduce_eq]

theorem gen_Opinion_abduce_with_eq :
    @SLV.Gen.Mul.Opinion_abduce_with = fun (α : Type) (_ : Scalar α) (n m : Nat) (w : Opinion α m)
      (conds : CondTab α n m) (ax : Tab α n) (ay : Tab α m) => SLV.abduceWith w.simplex conds ax ay := by
  funext α _ n m w conds ax ay
  unfold SLV.Gen.Mul.Opinion_abduce_with
  rw [gen_OpinionRef_abduce_with_eq]

theorem gen_Opinion_abduce_eq :
    @SLV.Gen.Mul.Opinion_abduce = fun (α : Type) (_ : Scalar α) (n m : Nat) (w : Opinion α m)
      (conds : CondTab α n m) (ax : Tab α n) => SLV.abduce w.simplex conds ax := by
  funext α _ n m w conds ax
  unfold SLV.Gen.Mul.Opinion_abduce
  rw [gen_OpinionRef_abduce_eq]

/-! ### src/mul/non_labeled.rs -/

/- unlabelled `Product2` (`Opinion<MArr2<V, D0, D1>, V>`): the joint domain is flattened row-major, the
    multi-index `d` of the Rust text is the flat index and `d[0]`, `d[1]` are `(idx2 d).1`, `(idx2 d).2`;
    `MArr2::product2` is `outer2`; `Opinion::new` validates (panic ≙ error).  Since repair b817f74 the closure of
    `from_fn` is the block `{ let b = p[d] - a[d] * u; if b < V::zero() { V::zero() } else { b } }`, generated and modelled
    literally (a `let` and an `if` inside `Vector.ofFn`); proofs unchanged. -/
theorem gen_product2_eq : @SLV.Gen.Mul.product2 = @SLV.product2U := by
  funext α _ n0 n1 w0 w1
  unfold SLV.Gen.Mul.product2 SLV.product2U SLV.product2Raw SLV.prodCand2
  rw [gen_OpinionRef_projection_eq, gen_Opinion_new_eq]
  simp only [outer2, Vector.getElem_ofFn, Fin.getElem_fin, Fin.eta]

theorem gen_product3_eq : @SLV.Gen.Mul.product3 = @SLV.product3U := by
  funext α _ n0 n1 n2 w0 w1 w2
  unfold SLV.Gen.Mul.product3 SLV.product3U SLV.product3Raw SLV.prodCand3
  rw [gen_OpinionRef_projection_eq, gen_Opinion_new_eq]
  simp only [outer3, Vector.getElem_ofFn, Fin.getElem_fin, Fin.eta]

theorem gen_Simplex1d_into_opinion_eq : @SLV.Gen.Mul.Simplex1d_into_opinion = @SLV.Simplex.intoOpinion := by
  funext α _ n s a
  unfold SLV.Gen.Mul.Simplex1d_into_opinion
  rw [gen_multi_check_base_rate_eq]
  rfl

/-! ### src/mul/labeled.rs -/

/- labelled `Product2` (`OpinionD2`): `product2_iter(&x, &y)` yields the entries of `outer2 x y` in row-major
    order, `izip!` / `zip` pair entries of equal flat index; `Opinion::normalized` renormalises the base rate.
    The quotients `r = b / a` are lazily mapped iterators (generated as the tables of their items), `iproduct!(r0, r1)`
    runs over them in the same row-major order: the item of flat index `k` is `(r0[(idx2 k).1], r1[(idx2 k).2])`.
    Since repair b817f74 the closure `|(p, &a)| { let b = p - a * u; if b < V::zero() { V::zero() } else { b } }` over
    `p_iter.zip(&a)` carries the same clamp (the closure parameter `a` shadows the table `a` inside the block only). -/
theorem gen_product2_labeled_eq : @SLV.Gen.Mul.product2_labeled = @SLV.product2L := by
  funext α _ n0 n1 w0 w1
  unfold SLV.Gen.Mul.product2_labeled SLV.product2L SLV.product2Raw SLV.prodCand2
  rw [gen_OpinionRef_projection_eq, gen_Opinion_normalized_eq]
  simp only [Vector.getElem_ofFn, Fin.getElem_fin]
  rfl

theorem gen_product3_labeled_eq : @SLV.Gen.Mul.product3_labeled = @SLV.product3L := by
  funext α _ n0 n1 n2 w0 w1 w2
  unfold SLV.Gen.Mul.product3_labeled SLV.product3L SLV.product3Raw SLV.prodCand3
  rw [gen_OpinionRef_projection_eq, gen_Opinion_normalized_eq]
  simp only [Vector.getElem_ofFn, Fin.getElem_fin]
  rfl

/-! ### `MergeJointConditions2::merge_cond2` (src/mul.rs), instantiated for the two product families -/

/- collecting a container of `ok` cells -/
theorem sequenceE_ofFn_ok {ε β : Type} {k : Nat} (g : Fin k → β) :
    sequenceE (Vector.ofFn fun y => (Except.ok (g y) : Except ε β)) = .ok (Vector.ofFn g) := by
  unfold sequenceE
  have h1 : (Vector.ofFn fun y => (Except.ok (g y) : Except ε β)) = (Vector.ofFn g).map (fun x => pure x) := by
    apply Vector.ext; intro i h; simp [pure, Except.pure]
  have h2 : (id ∘ fun x : β => (pure x : Except ε β)) = fun x => pure (id x) := rfl
  rw [h1, Vector.mapM_map, h2, Vector.mapM_pure]
  simp [pure, Except.pure]

/- unlabelled family: `Product2::product2` on opinions validates (`Opinion::new`), a panic inside the `from_fn`
   closure is the first error in index order (`sequenceE`); `Product2::product2(ax1, ax2)` on tables is `outer2`. -/
theorem gen_merge_cond2_unlabeled_eq :
    @SLV.Gen.Mul.merge_cond2_unlabeled = fun (α : Type) (_ : Scalar α) (m n1 n2 : Nat) (yx1 : CondTab α n1 m)
      (yx2 : CondTab α n2 m) (ax1 : Tab α n1) (ax2 : Tab α n2) (ay : Tab α m) =>
      SLV.mergeCond2 true yx1 yx2 ax1 ax2 ay := by
  funext α _ m n1 n2 yx1 yx2 ax1 ax2 ay
  unfold SLV.Gen.Mul.merge_cond2_unlabeled SLV.mergeCond2
  rw [gen_mbr_eq, gen_inverse_eq, gen_product2_eq]
  simp only [if_true]
  generalize SLV.mbr ax1 yx1 = o1
  generalize SLV.mbr ax2 yx2 = o2
  cases o1 <;> cases o2 <;> dsimp only [Option.getD] <;> generalize sequenceE _ = r <;> cases r <;> rfl

/- labelled family: `Product2::product2` on opinions is the normalising product, nothing can panic -/
theorem gen_merge_cond2_labeled_eq :
    (fun (α : Type) (_ : Scalar α) (m n1 n2 : Nat) (yx1 : CondTab α n1 m) (yx2 : CondTab α n2 m) (ax1 : Tab α n1)
      (ax2 : Tab α n2) (ay : Tab α m) =>
      (Except.ok (SLV.Gen.Mul.merge_cond2_labeled yx1 yx2 ax1 ax2 ay) : Except Label (CondTab α (n1 * n2) m))) =
    fun (α : Type) (_ : Scalar α) (m n1 n2 : Nat) (yx1 : CondTab α n1 m) (yx2 : CondTab α n2 m) (ax1 : Tab α n1)
      (ax2 : Tab α n2) (ay : Tab α m) => SLV.mergeCond2 false yx1 yx2 ax1 ax2 ay := by
  funext α _ m n1 n2 yx1 yx2 ax1 ax2 ay
  unfold SLV.Gen.Mul.merge_cond2_labeled SLV.mergeCond2
  rw [gen_mbr_eq, gen_inverse_eq, gen_product2_labeled_eq]
  simp only [Bool.false_eq_true, if_false, sequenceE_ofFn_ok]
  generalize SLV.mbr ax1 yx1 = o1
  generalize SLV.mbr ax2 yx2 = o2
  cases o1 <;> cases o2 <;> rfl

/-! ### equality: derived `PartialEq` of Simplex / OpinionBase / MArr1-3, hand-written `PartialEq` of MArrD1-3 -/

/- `#[derive(PartialEq)] struct Simplex { belief, uncertainty }` -/
theorem gen_eq_Simplex_eq : @SLV.Gen.Mul.eq_Simplex = @Cmp.simplexEq := rfl
/- `#[derive(PartialEq)] struct OpinionBase { simplex, base_rate }` at `Opinion<T, V> = OpinionBase<Simplex<T, V>, T>` -/
theorem gen_eq_OpinionBase_eq : @SLV.Gen.Mul.eq_OpinionBase = @Cmp.opinionEq := rfl
/- `#[derive(PartialEq)] struct MArr1(Vec<V>)`, `MArr2(Vec<MArr1>)`, `MArr3(Vec<MArr2>)`: cell-wise on the flattened table -/
theorem gen_eq_MArr1_eq :
    @SLV.Gen.Mul.eq_MArr1 = fun (β : Type) (_ : CmpScalar β) (n : Nat) (x y : Tab β n) => Cmp.tabEq x y := rfl
theorem gen_eq_MArr2_eq :
    @SLV.Gen.Mul.eq_MArr2 =
      fun (β : Type) (_ : CmpScalar β) (n0 n1 : Nat) (x y : Tab β (n0 * n1)) => Cmp.tabEq x y := rfl
theorem gen_eq_MArr3_eq :
    @SLV.Gen.Mul.eq_MArr3 =
      fun (β : Type) (_ : CmpScalar β) (n0 n1 n2 : Nat) (x y : Tab β (n0 * n1 * n2)) => Cmp.tabEq x y := rfl
/- `impl cmp::PartialEq for MArrD1 / MArrD2 / MArrD3 { fn eq(&self, other) -> bool { self.inner == other.inner } }` -/
theorem gen_eq_MArrD1_eq :
    @SLV.Gen.Mul.eq_MArrD1 = fun (β : Type) (_ : CmpScalar β) (n : Nat) (x y : Tab β n) => Cmp.tabEq x y := rfl
theorem gen_eq_MArrD2_eq :
    @SLV.Gen.Mul.eq_MArrD2 =
      fun (β : Type) (_ : CmpScalar β) (n0 n1 : Nat) (x y : Tab β (n0 * n1)) => Cmp.tabEq x y := rfl
theorem gen_eq_MArrD3_eq :
    @SLV.Gen.Mul.eq_MArrD3 =
      fun (β : Type) (_ : CmpScalar β) (n0 n1 n2 : Nat) (x y : Tab β (n0 * n1 * n2)) => Cmp.tabEq x y := rfl

end SLV.Gen.Tie
