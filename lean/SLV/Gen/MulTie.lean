/-
  Tie between the Lean text GENERATED from src/mul.rs (SLV/Gen/Mul.lean, rewritten by
  /verif/tools/rs2lean.py on every run) and the hand-written model SLV/Model/{Basic,Fuse,Cond}.lean.

  Every theorem says: the generated definition IS the model definition.  The Rust text speaks about
  containers through indexes (`T::from_fn(|i| ..)`, `for i in T::indexes()`, `T::indexes().map(..)`) where the
  model uses `Vector.map`, `Vector.foldl`, `Vector.replicate`, `toList.all`; the five structural lemmas below
  move the model's combinators into index form.  Apart from them the proofs only unfold definitions, rewrite
  with the earlier ties (generated functions call generated functions), split on the `FuseOp` value and close
  with `rfl`.  No arithmetic fact about `Scalar` is used, so any edit of a formula in the Rust text -- even a
  harmless `a * b` ↦ `b * a` -- breaks the theorem of that function.

  Hand-written once; never regenerated.
-/
import SLV.Gen.Mul
namespace SLV.Gen.Tie
open Scalar
variable {α : Type} [Scalar α] {n m : Nat}

theorem ofFn_getElem' {β : Type} (v : Vector β n) : (Vector.ofFn fun i : Fin n => v[i]) = v := by
  apply Vector.ext; intro i h; simp

/-- index form of `map` (oriented towards the shape the translator produces) -/
theorem map_eq_ofFn {β γ : Type} (v : Vector β n) (f : β → γ) :
    v.map f = Vector.ofFn fun i : Fin n => f v[i] := by
  apply Vector.ext; intro i h; simp

theorem replicate_eq_ofFn {β : Type} (c : β) : Vector.replicate n c = Vector.ofFn fun _ : Fin n => c := by
  apply Vector.ext; intro i h; simp

theorem toList_eq_finRange_map {β : Type} (v : Vector β n) :
    v.toList = (List.finRange n).map (fun i => v[i]) := by
  apply List.ext_getElem <;> simp

theorem foldl_eq_finRange {β γ : Type} (v : Vector β n) (f : γ → β → γ) (z : γ) :
    v.foldl f z = (List.finRange n).foldl (fun a i => f a v[i]) z := by
  rw [← Vector.foldl_toList, toList_eq_finRange_map v, List.foldl_map]

theorem all_eq_finRange {β : Type} (v : Vector β n) (p : β → Bool) :
    v.toList.all p = (List.finRange n).all fun i => p v[i] := by
  rw [toList_eq_finRange_map v, List.all_map]; rfl

theorem gen_Simplex_vacuous_eq : @SLV.Gen.Mul.Simplex_vacuous = @SLV.Simplex.vacuous := rfl
theorem gen_Simplex_is_vacuous_eq : @SLV.Gen.Mul.Simplex_is_vacuous = @SLV.Simplex.isVacuous := rfl
theorem gen_Simplex_is_dogmatic_eq : @SLV.Gen.Mul.Simplex_is_dogmatic = @SLV.Simplex.isDogmatic := rfl
theorem gen_OpinionRef_is_vacuous_eq : @SLV.Gen.Mul.OpinionRef_is_vacuous = @SLV.Opinion.isVacuous := rfl
theorem gen_OpinionRef_is_dogmatic_eq : @SLV.Gen.Mul.OpinionRef_is_dogmatic = @SLV.Opinion.isDogmatic := rfl

theorem gen_normalize_prob_dist_eq : @SLV.Gen.Mul.normalize_prob_dist = @SLV.normalizeProbDist := by
  funext α _ n p
  unfold SLV.Gen.Mul.normalize_prob_dist SLV.normalizeProbDist Tab.sumLoop
  simp only [foldl_eq_finRange, map_eq_ofFn]
  rfl

theorem gen_Simplex_normalized_eq : @SLV.Gen.Mul.Simplex_normalized = @SLV.Simplex.normalized := by
  funext α _ n b u
  unfold SLV.Gen.Mul.Simplex_normalized SLV.Simplex.normalized
  simp only [ofFn_getElem', map_eq_ofFn]

theorem gen_OpinionRef_projection_eq : @SLV.Gen.Mul.OpinionRef_projection = @SLV.Opinion.projection := by
  funext α _ n w
  unfold SLV.Gen.Mul.OpinionRef_projection
  rw [gen_normalize_prob_dist_eq]
  rfl

theorem gen_Simplex_projection_eq : @SLV.Gen.Mul.Simplex_projection = @SLV.Simplex.projection := by
  funext α _ n s a
  unfold SLV.Gen.Mul.Simplex_projection
  rw [gen_OpinionRef_projection_eq]
  rfl

theorem gen_max_uncertainty_eq : @SLV.Gen.Mul.max_uncertainty = @SLV.Simplex.maxUncertainty := by
  funext α _ n s a
  unfold SLV.Gen.Mul.max_uncertainty
  rw [gen_Simplex_projection_eq]
  rfl

theorem gen_uncertainty_maximized_eq : @SLV.Gen.Mul.uncertainty_maximized = @SLV.Simplex.uncertaintyMaximized := by
  funext α _ n s a
  unfold SLV.Gen.Mul.uncertainty_maximized
  rw [gen_Simplex_projection_eq, gen_max_uncertainty_eq]
  rfl

theorem gen_Simplex_discount_eq : @SLV.Gen.Mul.Simplex_discount = @SLV.Simplex.discount := rfl

theorem gen_compute_simlex_eq : @SLV.Gen.Mul.compute_simlex = @SLV.computeSimplex := by
  funext α _ n op l r
  unfold SLV.Gen.Mul.compute_simlex
  simp only [gen_Simplex_normalized_eq, gen_Simplex_is_vacuous_eq, gen_Simplex_is_dogmatic_eq,
    gen_Simplex_vacuous_eq]
  cases op <;> rfl

theorem gen_compute_base_rate_eq : @SLV.Gen.Mul.compute_base_rate = @SLV.computeBaseRate := by
  funext α _ n op same l r
  unfold SLV.Gen.Mul.compute_base_rate
  simp only [gen_OpinionRef_is_vacuous_eq, gen_OpinionRef_is_dogmatic_eq]
  cases op <;> rfl

/-- `Fuse<OpinionRef, OpinionRef>::fuse`; `same` is handed to `compute_base_rate` -/
theorem gen_fuse_eq : @SLV.Gen.Mul.fuse = @SLV.fuse := by
  funext α _ n op same l r
  unfold SLV.Gen.Mul.fuse SLV.fuse
  rw [gen_compute_simlex_eq, gen_compute_base_rate_eq, gen_uncertainty_maximized_eq]
  cases op <;> rfl

theorem gen_projections_eq : @SLV.Gen.Mul.projections = @SLV.projections := by
  funext α _ n m conds ay
  unfold SLV.Gen.Mul.projections SLV.projections
  simp only [gen_Simplex_projection_eq, map_eq_ofFn]

theorem gen_mbr_eq : @SLV.Gen.Mul.mbr = @SLV.mbr := by
  funext α _ n m ax conds
  unfold SLV.Gen.Mul.mbr SLV.mbr Tab.sumLoop
  simp only [gen_Simplex_is_vacuous_eq, all_eq_finRange, foldl_eq_finRange, map_eq_ofFn]
  rfl

theorem gen_deduce_of_eq : @SLV.Gen.Mul.deduce_of = @SLV.deduceOf := by
  funext α _ n m wx conds ay
  unfold SLV.Gen.Mul.deduce_of
  rw [gen_projections_eq, gen_OpinionRef_projection_eq, gen_Simplex_normalized_eq]
  rfl

theorem gen_inverse_eq : @SLV.Gen.Mul.inverse = @SLV.inverse := by
  funext α _ n m conds ax ay
  unfold SLV.Gen.Mul.inverse SLV.inverse
  simp only [gen_Simplex_projection_eq, gen_max_uncertainty_eq, gen_Simplex_normalized_eq,
    map_eq_ofFn, replicate_eq_ofFn, ofFn_getElem']

end SLV.Gen.Tie
