/-
  Tie between the Lean text GENERATED from src/bi.rs (SLV/Gen/Bi.lean, rewritten by
  /verif/tools/rs2lean.py on every run) and the hand-written model SLV/Model/Bi.lean.

  Every theorem says: the generated definition IS the model definition.  The proofs are `rfl`
  (definitional unfolding: `let`, parameter names and the placement of `BOp.tryNew` inside the
  branches of an `if` are transparent) or a case split on the Booleans / `Except` results that the
  two texts inspect in a different syntactic form.  They use no arithmetic fact about `Scalar`, so
  any edit of a formula in the Rust text -- even a harmless `a * b` ↦ `b * a` -- breaks the
  theorem of that operator.

  Error positions: every theorem starts on its own line with the keyword `theorem` (comments before a theorem
  are plain comments, not doc comments), so `<file>:<line>` of a build error lies between that line and the next
  `theorem` line.

  Comparisons (property C20; model SLV/Model/Eq.lean, class `CmpScalar`), section "comparisons" at the end:
  * `gen_BOpinion_abs_diff_eq_eq`, `gen_BOpinion_relative_eq_eq`, `gen_BOpinion_ulps_eq_eq`: the bodies of
    `impl AbsDiffEq / RelativeEq / UlpsEq for BOpinion<$ft>` (translated: `self.b().abs_diff_eq(other.b(), epsilon)` ↦
    `Cmp.absDiffEq x.b y.b epsilon`, .., argument order preserved) ARE `Cmp.bopCmp 1 / 2 / 3`, whatever the arguments
    that the kind does not use; `bopCmp_abs_diff_eq` / `bopCmp_relative_eq` / `bopCmp_ulps_eq` / `bopCmp_eq` unfold
    `Cmp.bopCmp k` into the conjunction over b, d, u, a.  By `rfl`: a swapped argument, a dropped or reordered
    conjunct, `||` for `&&` break them.  `default_epsilon` / `default_max_relative` / `default_max_ulps` and
    `type Epsilon` are text pins (guard groups `bop_cmp_epsilon` -> all three functions become holes,
    `bop_cmp_max_relative` -> relative_eq, `bop_cmp_max_ulps` -> ulps_eq).
  * `gen_eq_BSimplex_eq`, `gen_eq_BOpinion_eq`: `==` is DERIVED.  The marker definitions `eq_BSimplex`, `eq_BOpinion`
    are generated from the field lists of the structs (`&&` of the fields' `==` in declaration order) under the
    convention guard "the `#[derive(..)]` line still contains `PartialEq`, no hand-written `impl PartialEq` for the
    type in the file" (for BSimplex also: `Simplex` of src/mul.rs is still derived with fields belief, uncertainty, and
    `Simplex1d<V, N> = Simplex<[V; N], V>`); a violated guard makes the marker a hole, i.e. the theorem fails with an
    unknown identifier (`eq_BOpinion` calls `eq_BSimplex`: a hole there is a hole here).

  Hand-written once; never regenerated.
-/
import SLV.Gen.Bi
namespace SLV.Gen.Tie
open Scalar

variable {α : Type} [Scalar α]

/-! ### src/approx_ext.rs, src/errors.rs -/

theorem gen_is_in_range_eq : @SLV.Gen.is_in_range = @Scalar.isInRange := rfl
/- `in_unit_interval(v) = is_in_range(v, 0, 1)` with `is_in_range` inlined; `ulps_eq!(v, V::zero())` is
    `Scalar.isZero v` and `ulps_eq!(v, V::one())` is `Scalar.isOne v` (the convention of the `Scalar` class) -/
theorem gen_in_unit_interval_eq : @SLV.Gen.in_unit_interval = @Scalar.inUnit := rfl
theorem gen_is_one_eq : @SLV.Gen.is_one = @Scalar.isOne := rfl
theorem gen_is_zero_eq : @SLV.Gen.is_zero = @Scalar.isZero := rfl
/- `errors::check_unit_interval`; the error value is identified with its label -/
theorem gen_check_unit_interval_eq : @SLV.Gen.check_unit_interval = @SLV.checkUnit := rfl
theorem gen_check_is_one_eq : @SLV.Gen.check_is_one = @SLV.checkOne := rfl

/-! ### src/bi.rs -/

/- `bi::check_simplex` -/
theorem gen_check_simplex_eq : @SLV.Gen.check_simplex = @SLV.BOp.checkSimplex := by
  funext α _ b d u
  unfold SLV.Gen.check_simplex SLV.BOp.checkSimplex
  cases checkOne (b + d + u) Label.bdu <;> try rfl
  cases checkUnit b Label.bb <;> try rfl
  cases checkUnit d Label.dd <;> try rfl
  cases checkUnit u Label.u <;> rfl

/- `bi::check_base_rate` is `check_unit_interval(a, "a")` -/
theorem gen_check_base_rate_eq :
    @SLV.Gen.check_base_rate = fun (α : Type) (_ : Scalar α) (a : α) => checkUnit a Label.ba := rfl

/- `BSimplex::try_new` -/
theorem gen_BSimplex_try_new_eq : @SLV.Gen.BSimplex_try_new = @SLV.BOp.simplexTryNew := by
  funext α _ b d u
  unfold SLV.Gen.BSimplex_try_new SLV.BOp.simplexTryNew
  rw [gen_check_simplex_eq]
  rfl

/- `BOpinion::try_new` -/
theorem gen_try_new_eq : @SLV.Gen.try_new = @SLV.BOp.tryNew := by
  funext α _ b d u a
  unfold SLV.Gen.try_new SLV.Gen.check_base_rate SLV.Gen.BSimplex_try_new SLV.BOp.tryNew
  rw [gen_check_simplex_eq]
  cases checkUnit a Label.ba <;> try rfl
  cases SLV.BOp.checkSimplex b d u <;> rfl

/- `BOpinion::new` = `try_new(..).unwrap()` (panic ≙ error) -/
theorem gen_new_eq : @SLV.Gen.new = @SLV.BOp.tryNew := by
  funext α _ b d u a
  unfold SLV.Gen.new
  rw [gen_try_new_eq]

theorem gen_projection_eq : @SLV.Gen.projection = @SLV.BOp.projection := rfl
theorem gen_mul_eq : @SLV.Gen.mul = @SLV.BOp.mul := rfl
/- repair a66cfd4: `let wx = self.base_rate / a; let wy = rhs.base_rate / a;` before the `d` and `u` sums; same operation order
   in the model, so `rfl` (the earlier text, equal over ℚ, is NOT accepted: selftest "comul: the pre-repair text") -/
theorem gen_comul_eq : @SLV.Gen.comul = @SLV.BOp.comul := rfl
theorem gen_cfuse_eq : @SLV.Gen.cfuse = @SLV.BOp.cfuse := rfl
theorem gen_afuse_eq : @SLV.Gen.afuse = @SLV.BOp.afuse := rfl
theorem gen_wfuse_eq : @SLV.Gen.wfuse = @SLV.BOp.wfuse := rfl
theorem gen_trans_unc_eq : @SLV.Gen.trans_unc = @SLV.BOp.transUnc := rfl
theorem gen_trans_opp_eq : @SLV.Gen.trans_opp = @SLV.BOp.transOpp := rfl
theorem gen_trans_bsr_eq : @SLV.Gen.trans_bsr = @SLV.BOp.transBsr := rfl

/- `BOpinion::deduce` (repair b163717).  The model returns the opinion together with a coverage tag (`DCase`, not part of
    the Rust code) and computes `k` in the separate function `deduceK`, which returns the pair (k, tag); the Rust text has
    one function with `let k = match (b0 > b1, d0 > d1) { (true, true) | (false, false) => 0.0,
    (true, false) => { let ka = ..; let kb = ..; ka.min(kb) }, (false, true) => { .. } }` (`r.min(s)` on `$ft` operands
    ↦ `Scalar.min r s`, the NaN-skipping `f64::min`).  Case split on the two Booleans of the selector, then `rfl`.
    Repair cf81fd9: `let b = if b < 0.0 { 0.0 } else { b };` (same for `d`) ↦ `if Scalar.lt b Scalar.zero then Scalar.zero else b`,
    the shape already translated for the multinomial `deduce_of` (9ec2d8b); float literals on `$ft` ↦ `Scalar.zero`. -/
theorem gen_deduce_eq :
    @SLV.Gen.deduce = fun (α : Type) (_ : Scalar α) (x : BOp α) (c0 c1 : α × α × α) (ay : α) =>
      (SLV.BOp.deduce x c0 c1 ay).1 := by
  funext α _ x c0 c1 ay
  unfold SLV.Gen.deduce SLV.BOp.deduce SLV.BOp.deduceK
  dsimp only
  generalize gt c0.1 c1.1 = bp
  generalize gt c0.2.1 c1.2.1 = dp
  cases bp <;> cases dp <;> rfl

/-! ### src/convert.rs -/

theorem gen_BOpinion_into_Opinion1d_eq : @SLV.Gen.BOpinion_into_Opinion1d = @SLV.BOp.toOpinion := rfl
/- (`ofOpinion` uses no arithmetic, hence no `Scalar` instance argument) -/
theorem gen_Opinion1d_into_BOpinion_eq :
    @SLV.Gen.Opinion1d_into_BOpinion = fun (α : Type) (_ : Scalar α) (w : Opinion α 2) => SLV.BOp.ofOpinion w := rfl
theorem gen_Opinion1d_ref_into_BOpinion_eq :
    @SLV.Gen.Opinion1d_ref_into_BOpinion = fun (α : Type) (_ : Scalar α) (w : Opinion α 2) => SLV.BOp.ofOpinion w := rfl

/-! ### comparisons: src/bi.rs `impl AbsDiffEq / RelativeEq / UlpsEq for BOpinion<$ft>` and the derived `==`
     (`β` with `[CmpScalar β]`: the section variable `[Scalar α]` must not provide a second `Scalar` instance) -/

/- `Cmp.bopCmp k` unfolded: the conjunction, over b, d, u, a in this order, of the scalar comparison of kind k -/
theorem bopCmp_eq {β : Type} [CmpScalar β] (eps maxRel : β) (maxUlps : Nat) (x y : BOp β) :
    Cmp.bopCmp 0 eps maxRel maxUlps x y =
      (Scalar.eq x.b y.b && Scalar.eq x.d y.d && Scalar.eq x.u y.u && Scalar.eq x.a y.a) := rfl
theorem bopCmp_abs_diff_eq {β : Type} [CmpScalar β] (eps maxRel : β) (maxUlps : Nat) (x y : BOp β) :
    Cmp.bopCmp 1 eps maxRel maxUlps x y =
      (Cmp.absDiffEq x.b y.b eps && Cmp.absDiffEq x.d y.d eps && Cmp.absDiffEq x.u y.u eps
        && Cmp.absDiffEq x.a y.a eps) := rfl
theorem bopCmp_relative_eq {β : Type} [CmpScalar β] (eps maxRel : β) (maxUlps : Nat) (x y : BOp β) :
    Cmp.bopCmp 2 eps maxRel maxUlps x y =
      (Cmp.relativeEq x.b y.b eps maxRel && Cmp.relativeEq x.d y.d eps maxRel && Cmp.relativeEq x.u y.u eps maxRel
        && Cmp.relativeEq x.a y.a eps maxRel) := rfl
theorem bopCmp_ulps_eq {β : Type} [CmpScalar β] (eps maxRel : β) (maxUlps : Nat) (x y : BOp β) :
    Cmp.bopCmp 3 eps maxRel maxUlps x y =
      (Cmp.ulpsEq x.b y.b eps maxUlps && Cmp.ulpsEq x.d y.d eps maxUlps && Cmp.ulpsEq x.u y.u eps maxUlps
        && Cmp.ulpsEq x.a y.a eps maxUlps) := rfl

/- `<BOpinion<$ft> as AbsDiffEq>::abs_diff_eq(&self, other, epsilon)` is `Cmp.bopCmp 1` (max_relative, max_ulps unused) -/
theorem gen_BOpinion_abs_diff_eq_eq {β : Type} [CmpScalar β] (maxRel : β) (maxUlps : Nat) :
    @SLV.Gen.BOpinion_abs_diff_eq β _ = fun (x y : BOp β) (eps : β) => Cmp.bopCmp 1 eps maxRel maxUlps x y := rfl
/- `<BOpinion<$ft> as RelativeEq>::relative_eq(&self, other, epsilon, max_relative)` is `Cmp.bopCmp 2` (max_ulps unused) -/
theorem gen_BOpinion_relative_eq_eq {β : Type} [CmpScalar β] (maxUlps : Nat) :
    @SLV.Gen.BOpinion_relative_eq β _ =
      fun (x y : BOp β) (eps maxRel : β) => Cmp.bopCmp 2 eps maxRel maxUlps x y := rfl
/- `<BOpinion<$ft> as UlpsEq>::ulps_eq(&self, other, epsilon, max_ulps)` is `Cmp.bopCmp 3` (max_relative unused) -/
theorem gen_BOpinion_ulps_eq_eq {β : Type} [CmpScalar β] (maxRel : β) :
    @SLV.Gen.BOpinion_ulps_eq β _ =
      fun (x y : BOp β) (eps : β) (maxUlps : Nat) => Cmp.bopCmp 3 eps maxRel maxUlps x y := rfl

/- derived `==` of `BSimplex<T>(Simplex1d<T, 2>)` on the triple (b, d, u): belief cell-wise, then uncertainty -/
theorem gen_eq_BSimplex_eq {β : Type} [CmpScalar β] :
    @SLV.Gen.eq_BSimplex β _ =
      fun (x y : β × β × β) => Scalar.eq x.1 y.1 && Scalar.eq x.2.1 y.2.1 && Scalar.eq x.2.2 y.2.2 := rfl
/- derived `==` of `BOpinion<T> { simplex, base_rate }` is `Cmp.bopCmp 0` (eps, max_relative, max_ulps unused) -/
theorem gen_eq_BOpinion_eq {β : Type} [CmpScalar β] (eps maxRel : β) (maxUlps : Nat) :
    @SLV.Gen.eq_BOpinion β _ = fun (x y : BOp β) => Cmp.bopCmp 0 eps maxRel maxUlps x y := rfl

end SLV.Gen.Tie
