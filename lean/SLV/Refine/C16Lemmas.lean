/-
  Helper lemmas for C16 (storage / passing style independence): the per-entry facts behind
  "`std::ptr::eq` in `compute_base_rate` is an optimisation": on two EQUAL entries the both-dogmatic mean,
  the per-entry shortcut and its fall-back all return the entry, for every extended value.
  No property statements here.
-/
import SLV.Refine.Lift
import SLV.Model.Fuse

namespace SLV.C16
open SLV Scalar

variable {f : Fmt} {n : Nat}

/-- `(x + x) / 2 = x` for every extended value (finite, `±inf`, NaN) -/
theorem mean_self (x : XQ f) : (x + x) / (two : XQ f) = x := by
  rw [XQ.two_def]
  cases x with
  | fin q =>
    rw [XQ.add_fin, XQ.div_fin _ _ (by norm_num)]
    congr 1; ring
  | pinf => show XQ.div (XQ.add .pinf .pinf) (.fin 2) = .pinf; simp [XQ.add, XQ.div]
  | ninf => show XQ.div (XQ.add .ninf .ninf) (.fin 2) = .ninf; simp [XQ.add, XQ.div]
  | nan => rfl

/-- `ulps_eq!(x, x)` holds for every value except NaN -/
theorem ulpsEq_self {x : XQ f} (hx : x ≠ .nan) : Scalar.ulpsEq x x = true := by
  show XQ.ulpsEq x x = true
  cases x with
  | fin q =>
    have h0 : XQ.absQ (0 : ℚ) ≤ f.eps := by
      rw [XQ.absQ_eq_abs, abs_zero]; exact (XQ.eps_pos f).le
    simp [XQ.ulpsEq, h0]
  | pinf => rfl
  | ninf => rfl
  | nan => exact absurd rfl hx

/-- `x == x` holds for every value except NaN -/
theorem eq_self {x : XQ f} (hx : x ≠ .nan) : Scalar.eq x x = true := by
  show XQ.eq x x = true
  cases x with
  | fin q => simp [XQ.eq]
  | pinf => rfl
  | ninf => rfl
  | nan => exact absurd rfl hx

/-- the per-entry shortcut on two equal entries returns the entry: by the reflexive `==` test (`ulps_eq!` before
    repair c8a7116), or — for a NaN entry, which fails it — because the fall-back expression is NaN too -/
theorem brEntry_self (x g : XQ f) (hg : x = .nan → g = .nan) : brEntry x x g = x := by
  unfold brEntry
  by_cases hx : x = .nan
  · subst hx
    have : Scalar.eq (XQ.nan : XQ f) .nan = false := rfl
    rw [this, hg rfl]; rfl
  · rw [eq_self hx, if_pos rfl]

theorem nan_mul (y : XQ f) : (XQ.nan : XQ f) * y = .nan := by
  show XQ.mul .nan y = .nan
  simp [XQ.mul]
theorem nan_add (y : XQ f) : (XQ.nan : XQ f) + y = .nan := by
  show XQ.add .nan y = .nan
  simp [XQ.add]
theorem nan_div (y : XQ f) : (XQ.nan : XQ f) / y = .nan := by
  show XQ.div .nan y = .nan
  simp [XQ.div]

theorem ofFn_get (a : Tab (XQ f) n) (g : Fin n → XQ f) (h : ∀ i : Fin n, g i = a[i]) :
    (Vector.ofFn g : Tab (XQ f) n) = a := by
  apply Vector.ext
  intro i hi
  rw [Vector.getElem_ofFn]
  exact h ⟨i, hi⟩

end SLV.C16
