/-
  Helper lemmas for C08 (marginal base rate, `mbr`): rational closed forms, their algebra, and the
  lift of the model's `mbr` on a lifted conditional table.  No property statements here.
  Reuses `condTab`, `Hyp`, `Pc` of SLV/Refine/C04Lemmas.lean.
-/
import SLV.Refine.Lift
import SLV.Refine.C04Lemmas

namespace SLV.C08
open SLV Scalar SLV.C04

variable {f : Fmt} {n m : Nat}

/-! ### rational data -/

/-- well-formedness of the rational inputs of `mbr`: a base rate on X (zeros allowed) and one
    well-formed simplex per value of X -/
structure HypM (ax : Fin n → ℚ) (cb : Fin n → Fin m → ℚ) (cu : Fin n → ℚ) : Prop where
  hax0 : ∀ x, 0 ≤ ax x
  hax : ∑ x, ax x = 1
  hcb : ∀ x y, 0 ≤ cb x y
  hcu : ∀ x, 0 ≤ cu x
  hcs : ∀ x, ∑ y, cb x y + cu x = 1

section defs
variable (f : Fmt) (ax : Fin n → ℚ) (cb : Fin n → Fin m → ℚ) (cu : Fin n → ℚ)

/-- un-normalised marginal base rate `Σ_x a(x) b_{y|x}` -/
def raw (y : Fin m) : ℚ := ∑ x, ax x * cb x y

/-- total weight of belief carried by conditionals of positive base rate `Σ_x a(x) (1 - u_{Y|x})` -/
def S : ℚ := ∑ x, ax x * (1 - cu x)

/-- the marginal base rate, closed form -/
def may (y : Fin m) : ℚ := raw ax cb y / S ax cu

/-- every conditional passes the tolerance guard `is_vacuous` (`1-2ε ≤ u`; `u ≤ 1+4ε` is implied) -/
def AllVac : Prop := ∀ x : Fin n, 1 - 2 * f.eps ≤ cu x

/-- no conditional is vacuous merely by tolerance -/
def Plain : Prop := ∀ x : Fin n, cu x = 1 ∨ cu x < 1 - 2 * f.eps

instance : Decidable (AllVac f cu) := by unfold AllVac; infer_instance
instance : Decidable (Plain f cu) := by unfold Plain; infer_instance

end defs

variable {ax : Fin n → ℚ} {cb : Fin n → Fin m → ℚ} {cu : Fin n → ℚ}

theorem HypM.of_hyp {bx : Fin n → ℚ} {ux : ℚ} {ay : Fin m → ℚ} (h : Hyp bx ax ux cb cu ay) :
    HypM ax cb cu :=
  ⟨h.hax0, h.hax, h.hcb, h.hcu, h.hcs⟩

/-! ### algebra -/

theorem cu_le_one (h : HypM ax cb cu) (x : Fin n) : cu x ≤ 1 := by
  have := Finset.sum_nonneg (fun y (_ : y ∈ Finset.univ) => h.hcb x y)
  linarith [h.hcs x]

theorem sum_raw (h : HypM ax cb cu) : ∑ y, raw ax cb y = S ax cu := by
  unfold raw S
  rw [Finset.sum_comm]
  apply Finset.sum_congr rfl
  intro x _
  rw [← Finset.mul_sum]
  congr 1
  linarith [h.hcs x]

theorem raw_nonneg (h : HypM ax cb cu) (y : Fin m) : 0 ≤ raw ax cb y :=
  Finset.sum_nonneg fun x _ => mul_nonneg (h.hax0 x) (h.hcb x y)

theorem term_nonneg (h : HypM ax cb cu) (x : Fin n) : 0 ≤ ax x * (1 - cu x) :=
  mul_nonneg (h.hax0 x) (by linarith [cu_le_one h x])

theorem S_nonneg (h : HypM ax cb cu) : 0 ≤ S ax cu :=
  Finset.sum_nonneg fun x _ => term_nonneg h x

theorem S_le_one (h : HypM ax cb cu) : S ax cu ≤ 1 := by
  have h1 : S ax cu ≤ ∑ x, ax x := by
    unfold S
    apply Finset.sum_le_sum
    intro x _
    have := mul_nonneg (h.hax0 x) (h.hcu x)
    linarith
  rw [h.hax] at h1
  exact h1

theorem sum_ax_cu (h : HypM ax cb cu) : ∑ x, ax x * cu x = 1 - S ax cu := by
  have e : S ax cu = ∑ x, ax x - ∑ x, ax x * cu x := by
    unfold S
    rw [← Finset.sum_sub_distrib]
    apply Finset.sum_congr rfl; intro x _; ring
  rw [h.hax] at e
  linarith

theorem S_eq_zero_iff (h : HypM ax cb cu) : S ax cu = 0 ↔ ∀ x, 0 < ax x → cu x = 1 := by
  unfold S
  rw [Finset.sum_eq_zero_iff_of_nonneg fun x _ => term_nonneg h x]
  constructor
  · intro hz x hx
    have := hz x (Finset.mem_univ x)
    rcases mul_eq_zero.mp this with h0 | h1
    · exact absurd h0 (ne_of_gt hx)
    · linarith
  · intro hz x _
    rcases lt_or_eq_of_le (h.hax0 x) with hpos | h0
    · rw [hz x hpos]; ring
    · rw [← h0]; ring

theorem S_le_of_allVac (h : HypM ax cb cu) (hv : AllVac f cu) : S ax cu ≤ 2 * f.eps := by
  have h1 : S ax cu ≤ ∑ x, ax x * (2 * f.eps) := by
    unfold S
    apply Finset.sum_le_sum
    intro x _
    apply mul_le_mul_of_nonneg_left _ (h.hax0 x)
    linarith [hv x]
  rw [← Finset.sum_mul, h.hax, one_mul] at h1
  exact h1

theorem allVac_plain (hp : Plain f cu) (hv : AllVac f cu) : ∀ x, cu x = 1 := by
  intro x
  rcases hp x with h1 | h2
  · exact h1
  · exact absurd (hv x) (not_le.mpr h2)

theorem S_zero_of_all_one (h1 : ∀ x, cu x = 1) : S ax cu = 0 := by
  unfold S
  apply Finset.sum_eq_zero
  intro x _
  rw [h1 x]; ring

theorem may_nonneg (h : HypM ax cb cu) (y : Fin m) : 0 ≤ may ax cb cu y :=
  div_nonneg (raw_nonneg h y) (S_nonneg h)

theorem sum_may (h : HypM ax cb cu) (hS : S ax cu ≠ 0) : ∑ y, may ax cb cu y = 1 := by
  unfold may
  simp only [div_eq_mul_inv]
  rw [← Finset.sum_mul, sum_raw h, mul_inv_cancel₀ hS]

theorem may_fixed (h : HypM ax cb cu) (hS : S ax cu ≠ 0) (y : Fin m) :
    may ax cb cu y = ∑ x, ax x * (cb x y + may ax cb cu y * cu x) := by
  have e : ∑ x, ax x * (cb x y + may ax cb cu y * cu x)
      = raw ax cb y + may ax cb cu y * ∑ x, ax x * cu x := by
    unfold raw
    rw [Finset.mul_sum, ← Finset.sum_add_distrib]
    apply Finset.sum_congr rfl; intro x _; ring
  rw [e, sum_ax_cu h]
  unfold may
  field_simp
  ring

theorem fixed_unique (h : HypM ax cb cu) (hS : S ax cu ≠ 0) (a' : Fin m → ℚ)
    (hfix : ∀ y, a' y = ∑ x, ax x * (cb x y + a' y * cu x)) : a' = may ax cb cu := by
  funext y
  have e : ∑ x, ax x * (cb x y + a' y * cu x) = raw ax cb y + a' y * ∑ x, ax x * cu x := by
    unfold raw
    rw [Finset.mul_sum, ← Finset.sum_add_distrib]
    apply Finset.sum_congr rfl; intro x _; ring
  have hy := hfix y
  rw [e, sum_ax_cu h] at hy
  unfold may
  rw [eq_div_iff hS]
  linarith

/-- the marginal base rate completes a well-formed antecedent and table to C04's hypothesis bundle -/
theorem hyp_of_may {bx : Fin n → ℚ} {ux : ℚ} (hbx : ∀ x, 0 ≤ bx x) (hux : 0 ≤ ux)
    (hsx : ∑ x, bx x + ux = 1) (h : HypM ax cb cu) (hS : S ax cu ≠ 0) :
    Hyp bx ax ux cb cu (may ax cb cu) :=
  ⟨hbx, hux, hsx, h.hax0, h.hax, h.hcb, h.hcu, h.hcs, may_nonneg h, sum_may h hS⟩

/-! ### lift of `mbr` -/

/-- the guard `conds.all(is_vacuous)` on a lifted table -/
theorem allVac_iff (h : HypM ax cb cu) :
    ((condTab cb cu f).toList.all fun c => c.isVacuous) = true ↔ AllVac f cu := by
  unfold condTab AllVac
  rw [Vector.toList_ofFn, List.all_eq_true]
  constructor
  · intro hall x
    have := hall _ (List.mem_ofFn.mpr ⟨x, rfl⟩)
    simp only [Simplex.isVacuous, XQ.isOne_fin, decide_eq_true_eq] at this
    exact this.1
  · intro hv c hc
    obtain ⟨x, rfl⟩ := List.mem_ofFn.mp hc
    simp only [Simplex.isVacuous, XQ.isOne_fin, decide_eq_true_eq]
    exact ⟨hv x, by linarith [cu_le_one h x, XQ.eps_pos f]⟩

/-- the un-normalised vector -/
theorem raw_lift :
    (Vector.ofFn fun y : Fin m => Tab.sumIter (Vector.ofFn fun x : Fin n =>
        (liftT ax : Tab (XQ f) n)[x] * ((condTab cb cu f)[x]).b[y])) = liftT (raw ax cb) := by
  apply Vector.ext; intro i hi
  simp only [Vector.getElem_ofFn, condTab_get, liftT_getElem, liftT_getElem', XQ.mul_fin,
    sumIter_ofFn_fin, raw]

/-- stated for an arbitrary decidability instance of the condition -/
theorem mbr_lift (h : HypM ax cb cu) [Decidable (AllVac f cu ∨ S ax cu = 0)] :
    mbr (liftT ax : Tab (XQ f) n) (condTab cb cu f)
      = if AllVac f cu ∨ S ax cu = 0 then none else some (liftT (may ax cb cu)) := by
  unfold mbr
  by_cases hv : AllVac f cu
  · rw [if_pos ((allVac_iff h).mpr hv), if_pos (Or.inl hv)]
  · rw [if_neg (fun hc => hv ((allVac_iff h).mp hc))]
    simp only [raw_lift, sumLoop_liftT, sum_raw h, XQ.zero_def, XQ.eq_fin, decide_eq_true_eq]
    by_cases hS : S ax cu = 0
    · rw [if_pos hS, if_pos (Or.inr hS)]
    · rw [if_neg hS, if_neg (by rintro (hc | hc); exact hv hc; exact hS hc)]
      congr 1
      exact liftT_map _ _ (fun q => q / S ax cu) (fun q => XQ.div_fin _ _ hS)

theorem liftT_injective {k : Nat} {g g' : Fin k → ℚ}
    (e : (liftT g : Tab (XQ f) k) = liftT g') : g = g' := by
  funext i
  have := congrArg (fun v : Tab (XQ f) k => v[i]) e
  simp only [liftT_getElem] at this
  exact XQ.fin.inj this

end SLV.C08
