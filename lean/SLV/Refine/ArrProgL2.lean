/-
  C17 programs: the labelled rank-2 kind (usize or newtype index) refines the flat specification.
-/
import SLV.Refine.ArrProg3

namespace SLV.MArr

def RL2 (d0 d1 : Nat) (a : MArrD2 Nat) (fl : List Nat) : Prop := Shape2 d0 d1 a.toU ∧ flat2 a.toU = fl

theorem L2.indexMut_ref {d0 d1 : Nat} (nt : Bool) {a : MArrD2 Nat} {fl : List Nat} (h : RL2 d0 d1 a fl)
    (i j v : Nat) :
    OutR (RL2 d0 d1) (Out.ofOpt (a.indexMut i j v)) ((kindSpec true nt [d0, d1]).indexMut fl [i, j] v) := by
  obtain ⟨hs, hf⟩ := h
  by_cases hij : i < d0 ∧ j < d1
  · obtain ⟨a', h1, h2, h3⟩ := L2.write hs i j hij.1 hij.2 v
    have hS : (kindSpec true nt [d0, d1]).indexMut fl [i, j] v = .ok (fl.set (i * d1 + j) v) := by
      simp [kindSpec, inShape, hij.1, hij.2]
    rw [hS]
    exact OutR.ofOpt_some h1 ⟨h2, by rw [h3, hf]⟩
  · have hsh : inShape [d0, d1] [i, j] = false := by simp [inShape]; omega
    have hS : (kindSpec true nt [d0, d1]).indexMut fl [i, j] v = .panic := by simp [kindSpec, hsh]
    rw [hS]
    exact OutR.ofOpt_none (L2.oob hs i j hij v).2

theorem refinesL2 (nt : Bool) (d0 d1 : Nat) : Refines (kindL2 nt d0 d1) (kindSpec true nt [d0, d1]) (RL2 d0 d1) where
  labelled := rfl
  newtype := rfl
  dims := rfl
  zeros := by
    obtain ⟨a, h1, h2, h3⟩ := L2.zeros_ok (0 : Nat) d0 d1
    exact OutR.ofOpt_some h1 ⟨h2, by rw [h3]; simp [prodDims]⟩
  dflt := by
    obtain ⟨a, h1, h2, h3⟩ := L2.zeros_ok (0 : Nat) d0 d1
    exact OutR.ofOpt_some h1 ⟨h2, by rw [h3]; simp [prodDims]⟩
  fromFn f := by
    obtain ⟨a, h1, h2, h3⟩ := L2.fromFn_ok d0 d1 (fn2 f)
    exact OutR.ofOpt_some h1 ⟨h2, by rw [h3, fn2_map]⟩
  fromIter v _ := by
    have hS : (kindSpec true nt [d0, d1]).fromIter v =
        if d0 * d1 ≤ v.length then .ok (v.take (d0 * d1)) else .panic := by simp [kindSpec, prodDims]
    rw [hS]
    by_cases h : d0 * d1 ≤ v.length
    · obtain ⟨a, h1, h2, h3⟩ := L2.fromIter_ok d0 d1 v h
      rw [if_pos h]; exact OutR.ofOpt_some h1 ⟨h2, h3⟩
    · rw [if_neg h]; exact OutR.ofOpt_none (L2.fromIter_short d0 d1 v (by omega))
  fromNested t _ := by
    cases t with
    | n1 v => simp [kindSpec, kindL2, Nested.rank, OutR]
    | n3 v => simp [kindSpec, kindL2, Nested.rank, OutR]
    | n2 v =>
      by_cases hsh : Shape2 d0 d1 v
      · have hS : (kindSpec true nt [d0, d1]).fromNested (.n2 v) = .ok (flatten2 v) := by
          simp [kindSpec, Nested.rank, Nested.shapeOk, Nested.outerOk, Nested.innerOk, hsh.1, Nested.flat]
          intro x hx; exact hsh.2 x hx
        rw [hS]
        exact OutR.ofOpt_some (L2.fromMultiIter_ok hsh) ⟨by rw [toU_mk2]; exact hsh, by rw [toU_mk2]; rfl⟩
      · have hS : (kindSpec true nt [d0, d1]).fromNested (.n2 v) = .panic := by
          simp [kindSpec, Nested.rank, Nested.shapeOk, Nested.outerOk, Nested.innerOk]
          intro h0; by_contra hc; exact hsh ⟨h0, fun x hx => by_contra fun hn => hc ⟨x, hx, hn⟩⟩
        rw [hS]
        exact OutR.ofOpt_none (L2.fromMultiIter_none hsh)
  index a fl idx h := by
    obtain ⟨hs, hf⟩ := h
    match idx with
    | [] => simp [kindSpec, kindL2]
    | [_] => simp [kindSpec, kindL2]
    | _ :: _ :: _ :: _ => simp [kindSpec, kindL2]
    | [i, j] =>
      by_cases hij : i < d0 ∧ j < d1
      · simp [kindSpec, kindL2, inShape, hij.1, hij.2, L2.index_toU, U2.index_eq hs i j hij.2, hf]
      · have := (L2.oob hs i j hij 0).1
        have hsh : inShape [d0, d1] [i, j] = false := by simp [inShape]; omega
        simp [kindSpec, kindL2, this, hsh, Out.ofOpt]
  indexMut a fl idx v h := by
    match idx with
    | [] => simp [kindSpec, kindL2, OutR]
    | [_] => simp [kindSpec, kindL2, OutR]
    | _ :: _ :: _ :: _ => simp [kindSpec, kindL2, OutR]
    | [i, j] => exact L2.indexMut_ref nt h i j v
  dump a fl h := by rw [← h.2]; exact L2.dump_eq h.1
  iterMutAdd a fl c h := by
    obtain ⟨h1, h2⟩ := L2.iterMutApply_ok (imaddFn c) h.1
    exact ⟨h1, by rw [h2, h.2]⟩
  downDump a fl i h := by
    obtain ⟨hs, hf⟩ := h
    by_cases hi : i < d0
    · obtain ⟨r, h1, h2, h3⟩ := L2.down_ok hs i hi
      simp [kindSpec, kindL2, hi, h1, Out.ofOpt, Out.map, L1.dump_eq h2, h3, hf, prodDims]
    · simp [kindSpec, kindL2, hi, (L2.down_oob hs i hi ⟨[]⟩).1, Out.ofOpt, Out.map]
  downMutSet a fl i idx v h := by
    match idx with
    | [] => simp [kindSpec, kindL2, OutR]
    | _ :: _ :: _ => simp [kindSpec, kindL2, OutR]
    | [j] =>
      have hK : (kindL2 nt d0 d1).downMutSet a i [j] v = Out.ofOpt (a.indexMut i j v) := by
        simp only [kindL2, MArrD2.indexMut, MArrD2.down, MArrD2.downMutSet]
        cases a.inner.index i with
        | none => rfl
        | some r => cases hr : r.indexMut j v <;> simp [hr]
      have hS : (kindSpec true nt [d0, d1]).downMutSet fl i [j] v =
          (kindSpec true nt [d0, d1]).indexMut fl [i, j] v := by simp [kindSpec]
      rw [hK, hS]
      exact L2.indexMut_ref nt h i j v
  downMutFn a fl i f h := by
    obtain ⟨hs, hf⟩ := h
    obtain ⟨sub, g1, g2, g3⟩ := L1.fromFn_ok d1 (fn1 f)
    rw [fn1_map] at g3
    by_cases hi : i < d0
    · obtain ⟨a', h1, h2, h3⟩ := L2.downMutSet_ok hs i hi sub g2
      have hS : (kindSpec true nt [d0, d1]).downMutFn fl i f =
          .ok (fl.take (i * d1) ++ (lexList [d1]).map f ++ fl.drop ((i + 1) * d1)) := by
        simp [kindSpec, hi, prodDims]
      rw [hS]
      have hK : (kindL2 nt d0 d1).downMutFn a i f = Out.ofOpt (a.downMutSet i sub) := by
        simp [kindL2, g1]
      rw [hK]
      exact OutR.ofOpt_some h1 ⟨h2, by rw [h3, g3, hf]⟩
    · have hS : (kindSpec true nt [d0, d1]).downMutFn fl i f = .panic := by simp [kindSpec, hi]
      rw [hS]
      have hK : (kindL2 nt d0 d1).downMutFn a i f = Out.ofOpt (a.downMutSet i sub) := by
        simp [kindL2, g1]
      rw [hK]
      exact OutR.ofOpt_none (L2.down_oob hs i hi sub).2
  beq a fl b fl' ha hb := by
    show (a == b) = (fl == fl')
    rw [Bool.eq_iff_iff, beq_iff_eq, beq_iff_eq, ← ha.2, ← hb.2]
    exact ⟨fun h => h ▸ rfl, fun h => toU2_inj (ha.1.eq_of_flat hb.1 h)⟩
  clone a fl h := by show RL2 d0 d1 a.clone fl; rw [L2.clone_eq]; exact h
  conv a fl _ := by simp [kindSpec, kindL2]
  asRef a fl _ := by simp [kindSpec, kindL2]
  product ws := by
    match ws with
    | [] => simp [kindSpec, kindL2, specProduct, OutR]
    | [_] => simp [kindSpec, kindL2, specProduct, OutR]
    | _ :: _ :: _ :: _ => simp [kindSpec, kindL2, specProduct, OutR]
    | [w0, w1] =>
      by_cases hl : w0.length = d0 ∧ w1.length = d1
      · have hS : (kindSpec true nt [d0, d1]).product [w0, w1] = .ok (outerList [w0, w1]) := by
          simp [kindSpec, specProduct, hl.1, hl.2]
        rw [hS]
        obtain ⟨a, h1, h2, h3⟩ := L2.product_ok mulU (d0 := d0) (d1 := d1) ⟨w0⟩ ⟨w1⟩ hl.1 hl.2
        have hK : (kindL2 nt d0 d1).product [w0, w1] = Out.ofOpt (MArrD2.product2 mulU d0 d1 ⟨w0⟩ ⟨w1⟩) := by
          simp [kindL2, MArrD1.fromIter, MArrD1.new, hl.1, hl.2]
        rw [hK]
        exact OutR.ofOpt_some h1 ⟨h2, by rw [h3]; rfl⟩
      · have hS : (kindSpec true nt [d0, d1]).product [w0, w1] = .panic := by
          simp [kindSpec, specProduct]; intro h0 h1; exact absurd ⟨h0, h1⟩ hl
        rw [hS]
        have hK : (kindL2 nt d0 d1).product [w0, w1] = .panic := by
          by_cases h0 : w0.length = d0
          · have h1 : ¬ w1.length = d1 := fun h1 => hl ⟨h0, h1⟩
            simp [kindL2, MArrD1.fromIter, MArrD1.new, h0, h1, Out.ofOpt]
          · simp [kindL2, MArrD1.fromIter, MArrD1.new, h0, Out.ofOpt]
        rw [hK]; trivial
  productIter ws := by
    match ws with
    | [] => simp [kindSpec, kindL2, specProduct]
    | [_] => simp [kindSpec, kindL2, specProduct]
    | _ :: _ :: _ :: _ => simp [kindSpec, kindL2, specProduct]
    | [w0, w1] =>
      by_cases hl : w0.length = d0 ∧ w1.length = d1
      · simp [kindSpec, kindL2, specProduct, MArrD1.fromIter, MArrD1.new, hl.1, hl.2, Out.ofOpt, product2Iter_eq,
          outerList]
      · have hS : (kindSpec true nt [d0, d1]).productIter [w0, w1] = .panic := by
          simp [kindSpec, specProduct]; intro h0 h1; exact absurd ⟨h0, h1⟩ hl
        rw [hS]
        by_cases h0 : w0.length = d0
        · have h1 : ¬ w1.length = d1 := fun h1 => hl ⟨h0, h1⟩
          simp [kindL2, MArrD1.fromIter, MArrD1.new, h0, h1, Out.ofOpt]
        · simp [kindL2, MArrD1.fromIter, MArrD1.new, h0, Out.ofOpt]
  tryFrom t := by
    cases t with
    | n1 v => simp [kindSpec, kindL2, Nested.rank]
    | n3 v => simp [kindSpec, kindL2, Nested.rank]
    | n2 v =>
      have hS : (kindSpec true nt [d0, d1]).tryFrom (.n2 v) =
          (tresOut (MArrD2.tryFrom cvEven d0 d1 v)).map fun a => (a.inner.inner.map (·.inner)).flatten := by
        simp [kindSpec, Nested.rank, specTryLabelled]
      rw [hS]
      show (tresOut (MArrD2.tryFrom cvEven d0 d1 v)).map (fun a => (L2.dump d0 d1 a).it) = _
      cases ht : MArrD2.tryFrom cvEven d0 d1 v with
      | err e => rfl
      | panic => rfl
      | ok a => simp [tresOut, Out.map, L2.dump_it (L2.tryFrom_ok_shape ht)]
  iterWith a fl h := by
    obtain ⟨hs, hf⟩ := h
    have hl : (lexList [d0, d1]).length = (flat2 a.toU).length := by rw [flat2_length hs]; simp [lexList_length]
    have := iterWith_of _ _ _ hl (U2.idx_lex hs)
    simp [kindL2, kindSpec, mkIterWith, idx2_eq, L2.idx_eq, L2.idx'_toU, this, Out.ofOpt, hf]
  indexes := by simp [kindL2, kindSpec, idx2_eq]
  keys := by simp [kindL2, kindSpec, idx2_eq]
  len := rfl
  resumeIdx := by simp [kindL2, kindSpec, idx2_eq, listResume_eq]
  resumeKeys := by simp [kindL2, kindSpec, idx2_eq, listResume_eq]

end SLV.MArr
