/-
  Helper lemmas for C17 (part 2): the nested storage refines a flat row-major list.
  Labelled arrays are related to the unlabelled ones by erasing the wrappers (`toU`).
-/
import SLV.Refine.ArrLemmas

namespace SLV.MArr

variable {V : Type}

/-! ### shape invariants and the abstraction to a flat list -/

def Shape1 (k0 : Nat) (a : MArr1 V) : Prop := a.length = k0
def Shape2 (k0 k1 : Nat) (a : MArr2 V) : Prop := a.length = k0 ∧ ∀ r ∈ a, r.length = k1
def Shape3 (k0 k1 k2 : Nat) (a : MArr3 V) : Prop := a.length = k0 ∧ ∀ p ∈ a, Shape2 k1 k2 p

def flat1 (a : MArr1 V) : List V := a
def flat2 (a : MArr2 V) : List V := a.flatten
def flat3 (a : MArr3 V) : List V := (a.map List.flatten).flatten

/-- erasure of the labelled wrappers -/
def MArrD1.toU (a : MArrD1 V) : MArr1 V := a.inner
def MArrD2.toU (a : MArrD2 V) : MArr2 V := a.inner.inner.map MArrD1.toU
def MArrD3.toU (a : MArrD3 V) : MArr3 V := a.inner.inner.map MArrD2.toU

/-! ### A. indexing a flattened list of equally long rows -/

theorem flatten_length_uniform (n : Nat) : ∀ rows : List (List V), (∀ r ∈ rows, r.length = n) →
    rows.flatten.length = rows.length * n := by
  intro rows
  induction rows with
  | nil => intro _; simp
  | cons r rs ih =>
    intro h
    simp [ih (fun r hr => h r (List.mem_cons_of_mem _ hr)), h r (by simp), Nat.add_mul, Nat.add_comm]

theorem flatten_getElem? (n : Nat) : ∀ rows : List (List V), (∀ r ∈ rows, r.length = n) →
    ∀ i j, j < n → rows.flatten[i * n + j]? = (rows[i]?).bind (·[j]?) := by
  intro rows
  induction rows with
  | nil => intro _ i j _; simp
  | cons r rs ih =>
    intro h i j hj
    have hr : r.length = n := h r (by simp)
    cases i with
    | zero => simp [List.getElem?_append_left (show j < r.length by omega)]
    | succ i =>
      have : (i + 1) * n + j = r.length + (i * n + j) := by rw [hr]; ring
      rw [List.flatten_cons, this, List.getElem?_append_right (by omega)]
      simp [ih (fun r hr => h r (List.mem_cons_of_mem _ hr)) i j hj]

theorem flatten_set (n : Nat) : ∀ rows : List (List V), (∀ r ∈ rows, r.length = n) →
    ∀ i j r, rows[i]? = some r → j < n → ∀ v,
    (rows.set i (r.set j v)).flatten = rows.flatten.set (i * n + j) v := by
  intro rows
  induction rows with
  | nil => intro _ i j r hr; simp at hr
  | cons r0 rs ih =>
    intro h i j r hr hj v
    have hr0 : r0.length = n := h r0 (by simp)
    cases i with
    | zero =>
      simp at hr; subst hr
      simp [List.set_append, show j < r0.length by omega]
    | succ i =>
      simp at hr
      have e : (i + 1) * n + j = r0.length + (i * n + j) := by rw [hr0]; ring
      simp only [List.set_cons_succ, List.flatten_cons]
      rw [ih (fun r hr => h r (List.mem_cons_of_mem _ hr)) i j r hr hj v, e, List.set_append]
      simp

/-! ### B. index / index_mut, unlabelled -/

theorem U1.index_eq (a : MArr1 V) (i : Nat) : MArr1.index a i = (flat1 a)[i]? := rfl

theorem U2.index_eq {k0 k1 : Nat} {a : MArr2 V} (h : Shape2 k0 k1 a) (i j : Nat) (hj : j < k1) :
    MArr2.index a i j = (flat2 a)[i * k1 + j]? := by
  unfold MArr2.index flat2 MArr1.index
  rw [flatten_getElem? k1 a h.2 i j hj]
  cases a[i]? <;> rfl

theorem Shape3.flatten {k0 k1 k2 : Nat} {a : MArr3 V} (h : Shape3 k0 k1 k2 a) :
    Shape2 (k0 * k1) k2 a.flatten := by
  refine ⟨?_, ?_⟩
  · rw [flatten_length_uniform k1 a (fun p hp => (h.2 p hp).1), h.1]
  · intro r hr
    obtain ⟨p, hp, hrp⟩ := List.mem_flatten.mp hr
    exact (h.2 p hp).2 r hrp

theorem flat3_eq (a : MArr3 V) : flat3 a = flat2 a.flatten := by
  simp [flat3, flat2, List.flatten_flatten]

theorem U3.index_eq {k0 k1 k2 : Nat} {a : MArr3 V} (h : Shape3 k0 k1 k2 a) (i j k : Nat)
    (hj : j < k1) (hk : k < k2) :
    MArr3.index a i j k = (flat3 a)[(i * k1 + j) * k2 + k]? := by
  rw [flat3_eq, ← U2.index_eq h.flatten _ _ hk]
  unfold MArr3.index MArr2.index
  rw [flatten_getElem? k1 a (fun p hp => (h.2 p hp).1) i j hj]
  cases a[i]? <;> rfl

theorem flat1_length {k0 : Nat} {a : MArr1 V} (h : Shape1 k0 a) : (flat1 a).length = k0 := h
theorem flat2_length {k0 k1 : Nat} {a : MArr2 V} (h : Shape2 k0 k1 a) : (flat2 a).length = k0 * k1 := by
  rw [flat2, flatten_length_uniform k1 a h.2, h.1]
theorem flat3_length {k0 k1 k2 : Nat} {a : MArr3 V} (h : Shape3 k0 k1 k2 a) :
    (flat3 a).length = k0 * k1 * k2 := by
  rw [flat3_eq, flat2_length h.flatten]

/-- out of shape: refused, never another cell -/
theorem U1.oob {k0 : Nat} {a : MArr1 V} (h : Shape1 k0 a) (i : Nat) (hi : ¬ i < k0) (v : V) :
    MArr1.index a i = none ∧ MArr1.indexMut a i v = none := by
  unfold Shape1 at h
  simp [MArr1.index, MArr1.indexMut, h]; omega

theorem U2.oob {k0 k1 : Nat} {a : MArr2 V} (h : Shape2 k0 k1 a) (i j : Nat) (hij : ¬ (i < k0 ∧ j < k1)) (v : V) :
    MArr2.index a i j = none ∧ MArr2.indexMut a i j v = none := by
  unfold MArr2.index MArr2.indexMut
  by_cases hi : i < k0
  · have hia : i < a.length := by rw [h.1]; exact hi
    have hr : Shape1 k1 a[i] := h.2 _ (List.getElem_mem hia)
    have := U1.oob hr j (fun hj => hij ⟨hi, hj⟩) v
    simp [List.getElem?_eq_getElem hia, this]
  · have : a[i]? = none := by simp [h.1]; omega
    simp [this]

theorem U3.oob {k0 k1 k2 : Nat} {a : MArr3 V} (h : Shape3 k0 k1 k2 a) (i j k : Nat)
    (hijk : ¬ (i < k0 ∧ j < k1 ∧ k < k2)) (v : V) :
    MArr3.index a i j k = none ∧ MArr3.indexMut a i j k v = none := by
  unfold MArr3.index MArr3.indexMut
  by_cases hi : i < k0
  · have hia : i < a.length := by rw [h.1]; exact hi
    have hr : Shape2 k1 k2 a[i] := h.2 _ (List.getElem_mem hia)
    have := U2.oob hr j k (fun hjk => hijk ⟨hi, hjk⟩) v
    simp [List.getElem?_eq_getElem hia, this]
  · have : a[i]? = none := by simp [h.1]; omega
    simp [this]

/-- in shape: the write succeeds, keeps the shape, and is `List.set` at the row-major position -/
theorem U1.write {k0 : Nat} {a : MArr1 V} (h : Shape1 k0 a) (i : Nat) (hi : i < k0) (v : V) :
    ∃ a', MArr1.indexMut a i v = some a' ∧ Shape1 k0 a' ∧ flat1 a' = (flat1 a).set i v := by
  unfold Shape1 at h
  exact ⟨a.set i v, by simp [MArr1.indexMut, h, hi], by simp [Shape1, h], rfl⟩

theorem Shape2.set_row {k0 k1 : Nat} {a : MArr2 V} (h : Shape2 k0 k1 a) (i : Nat) (r : MArr1 V)
    (hr : r.length = k1) : Shape2 k0 k1 (a.set i r) := by
  refine ⟨by simp [h.1], fun x hx => ?_⟩
  rcases List.mem_or_eq_of_mem_set hx with hx | hx
  · exact h.2 x hx
  · rw [hx]; exact hr

theorem U2.write {k0 k1 : Nat} {a : MArr2 V} (h : Shape2 k0 k1 a) (i j : Nat) (hi : i < k0) (hj : j < k1) (v : V) :
    ∃ a', MArr2.indexMut a i j v = some a' ∧ Shape2 k0 k1 a' ∧ flat2 a' = (flat2 a).set (i * k1 + j) v := by
  have hia : i < a.length := by rw [h.1]; exact hi
  have hr : a[i].length = k1 := h.2 _ (List.getElem_mem hia)
  refine ⟨a.set i (a[i].set j v), ?_, h.set_row i _ (by simp [hr]), ?_⟩
  · simp [MArr2.indexMut, MArr1.indexMut, List.getElem?_eq_getElem hia, hr, hj]
  · exact flatten_set k1 a h.2 i j a[i] (List.getElem?_eq_getElem hia) hj v

theorem U3.write {k0 k1 k2 : Nat} {a : MArr3 V} (h : Shape3 k0 k1 k2 a) (i j k : Nat)
    (hi : i < k0) (hj : j < k1) (hk : k < k2) (v : V) :
    ∃ a', MArr3.indexMut a i j k v = some a' ∧ Shape3 k0 k1 k2 a' ∧
      flat3 a' = (flat3 a).set ((i * k1 + j) * k2 + k) v := by
  have hia : i < a.length := by rw [h.1]; exact hi
  have hp : Shape2 k1 k2 a[i] := h.2 _ (List.getElem_mem hia)
  obtain ⟨p', hw, hs', hf'⟩ := U2.write hp j k hj hk v
  refine ⟨a.set i p', ?_, ⟨by simp [h.1], fun x hx => ?_⟩, ?_⟩
  · simp [MArr3.indexMut, List.getElem?_eq_getElem hia, hw]
  · rcases List.mem_or_eq_of_mem_set hx with hx | hx
    · exact h.2 x hx
    · rw [hx]; exact hs'
  · -- flat3 = flatten of the list of planes' flats (all of length k1*k2)
    have hu : ∀ r ∈ a.map List.flatten, r.length = k1 * k2 := by
      intro r hr
      obtain ⟨p, hp, rfl⟩ := List.mem_map.mp hr
      exact flat2_length (h.2 p hp)
    have hrow : (a.map List.flatten)[i]? = some (flat2 a[i]) := by
      simp [List.getElem?_eq_getElem hia, flat2]
    have := flatten_set (k1 * k2) (a.map List.flatten) hu i (j * k2 + k) (flat2 a[i]) hrow
      (by nlinarith) v
    unfold flat3
    rw [List.map_set, show List.flatten p' = (flat2 a[i]).set (j * k2 + k) v from hf', this]
    congr 1; ring

end SLV.MArr
