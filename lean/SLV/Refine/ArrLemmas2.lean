/-
  Helper lemmas for C17 (part 2): the nested storage refines a flat row-major list.
  Labelled arrays are related to the unlabelled ones by erasing the wrappers (`toU`).
-/
import SLV.Refine.ArrLemmas

namespace SLV.MArr

variable {V : Type}

/-! ### shape invariants and the abstraction to a flat list -/

def Shape1 (k0 : Nat) (a : MArr1 V) : Prop := a.length = k0
def Shape2 (k0 k1 : Nat) (a : MArr2 V) : Prop := a.length = k0 ∧ ∀ r ∈ a, r.length = k1
def Shape3 (k0 k1 k2 : Nat) (a : MArr3 V) : Prop := a.length = k0 ∧ ∀ p ∈ a, Shape2 k1 k2 p

def flat1 (a : MArr1 V) : List V := a
def flat2 (a : MArr2 V) : List V := a.flatten
def flat3 (a : MArr3 V) : List V := (a.map List.flatten).flatten

/-- erasure of the labelled wrappers -/
def MArrD1.toU (a : MArrD1 V) : MArr1 V := a.inner
def MArrD2.toU (a : MArrD2 V) : MArr2 V := a.inner.inner.map MArrD1.toU
def MArrD3.toU (a : MArrD3 V) : MArr3 V := a.inner.inner.map MArrD2.toU

/-! ### A. indexing a flattened list of equally long rows -/

theorem flatten_length_uniform (n : Nat) : ∀ rows : List (List V), (∀ r ∈ rows, r.length = n) →
    rows.flatten.length = rows.length * n := by
  intro rows
  induction rows with
  | nil => intro _; simp
  | cons r rs ih =>
    intro h
    simp [ih (fun r hr => h r (List.mem_cons_of_mem _ hr)), h r (by simp), Nat.add_mul, Nat.add_comm]

theorem flatten_getElem? (n : Nat) : ∀ rows : List (List V), (∀ r ∈ rows, r.length = n) →
    ∀ i j, j < n → rows.flatten[i * n + j]? = (rows[i]?).bind (·[j]?) := by
  intro rows
  induction rows with
  | nil => intro _ i j _; simp
  | cons r rs ih =>
    intro h i j hj
    have hr : r.length = n := h r (by simp)
    cases i with
    | zero => simp [List.getElem?_append_left (show j < r.length by omega)]
    | succ i =>
      have : (i + 1) * n + j = r.length + (i * n + j) := by rw [hr]; ring
      rw [List.flatten_cons, this, List.getElem?_append_right (by omega)]
      simp [ih (fun r hr => h r (List.mem_cons_of_mem _ hr)) i j hj]

theorem flatten_set (n : Nat) : ∀ rows : List (List V), (∀ r ∈ rows, r.length = n) →
    ∀ i j r, rows[i]? = some r → j < n → ∀ v,
    (rows.set i (r.set j v)).flatten = rows.flatten.set (i * n + j) v := by
  intro rows
  induction rows with
  | nil => intro _ i j r hr; simp at hr
  | cons r0 rs ih =>
    intro h i j r hr hj v
    have hr0 : r0.length = n := h r0 (by simp)
    cases i with
    | zero =>
      simp at hr; subst hr
      simp [show j < r0.length by omega]
    | succ i =>
      simp at hr
      have e : (i + 1) * n + j = r0.length + (i * n + j) := by rw [hr0]; ring
      simp only [List.set_cons_succ, List.flatten_cons]
      rw [ih (fun r hr => h r (List.mem_cons_of_mem _ hr)) i j r hr hj v, e, List.set_append]
      simp

/-! ### B. index / index_mut, unlabelled -/

theorem U1.index_eq (a : MArr1 V) (i : Nat) : MArr1.index a i = (flat1 a)[i]? := rfl

theorem U2.index_eq {k0 k1 : Nat} {a : MArr2 V} (h : Shape2 k0 k1 a) (i j : Nat) (hj : j < k1) :
    MArr2.index a i j = (flat2 a)[i * k1 + j]? := by
  unfold MArr2.index flat2 MArr1.index
  rw [flatten_getElem? k1 a h.2 i j hj]
  cases a[i]? <;> rfl

theorem Shape3.flatten {k0 k1 k2 : Nat} {a : MArr3 V} (h : Shape3 k0 k1 k2 a) :
    Shape2 (k0 * k1) k2 a.flatten := by
  refine ⟨?_, ?_⟩
  · rw [flatten_length_uniform k1 a (fun p hp => (h.2 p hp).1), h.1]
  · intro r hr
    obtain ⟨p, hp, hrp⟩ := List.mem_flatten.mp hr
    exact (h.2 p hp).2 r hrp

theorem flat3_eq (a : MArr3 V) : flat3 a = flat2 a.flatten := by
  simp [flat3, flat2, List.flatten_flatten]

theorem U3.index_eq {k0 k1 k2 : Nat} {a : MArr3 V} (h : Shape3 k0 k1 k2 a) (i j k : Nat)
    (hj : j < k1) (hk : k < k2) :
    MArr3.index a i j k = (flat3 a)[(i * k1 + j) * k2 + k]? := by
  rw [flat3_eq, ← U2.index_eq h.flatten _ _ hk]
  unfold MArr3.index MArr2.index
  rw [flatten_getElem? k1 a (fun p hp => (h.2 p hp).1) i j hj]
  cases a[i]? <;> rfl

theorem flat1_length {k0 : Nat} {a : MArr1 V} (h : Shape1 k0 a) : (flat1 a).length = k0 := h
theorem flat2_length {k0 k1 : Nat} {a : MArr2 V} (h : Shape2 k0 k1 a) : (flat2 a).length = k0 * k1 := by
  rw [flat2, flatten_length_uniform k1 a h.2, h.1]
theorem flat3_length {k0 k1 k2 : Nat} {a : MArr3 V} (h : Shape3 k0 k1 k2 a) :
    (flat3 a).length = k0 * k1 * k2 := by
  rw [flat3_eq, flat2_length h.flatten]

/-- out of shape: refused, never another cell -/
theorem U1.oob {k0 : Nat} {a : MArr1 V} (h : Shape1 k0 a) (i : Nat) (hi : ¬ i < k0) (v : V) :
    MArr1.index a i = none ∧ MArr1.indexMut a i v = none := by
  unfold Shape1 at h
  simp [MArr1.index, MArr1.indexMut, h]; omega

theorem U2.oob {k0 k1 : Nat} {a : MArr2 V} (h : Shape2 k0 k1 a) (i j : Nat) (hij : ¬ (i < k0 ∧ j < k1)) (v : V) :
    MArr2.index a i j = none ∧ MArr2.indexMut a i j v = none := by
  unfold MArr2.index MArr2.indexMut
  by_cases hi : i < k0
  · have hia : i < a.length := by rw [h.1]; exact hi
    have hr : Shape1 k1 a[i] := h.2 _ (List.getElem_mem hia)
    have := U1.oob hr j (fun hj => hij ⟨hi, hj⟩) v
    simp [List.getElem?_eq_getElem hia, this]
  · have : a[i]? = none := by simp [h.1]; omega
    simp [this]

theorem U3.oob {k0 k1 k2 : Nat} {a : MArr3 V} (h : Shape3 k0 k1 k2 a) (i j k : Nat)
    (hijk : ¬ (i < k0 ∧ j < k1 ∧ k < k2)) (v : V) :
    MArr3.index a i j k = none ∧ MArr3.indexMut a i j k v = none := by
  unfold MArr3.index MArr3.indexMut
  by_cases hi : i < k0
  · have hia : i < a.length := by rw [h.1]; exact hi
    have hr : Shape2 k1 k2 a[i] := h.2 _ (List.getElem_mem hia)
    have := U2.oob hr j k (fun hjk => hijk ⟨hi, hjk⟩) v
    simp [List.getElem?_eq_getElem hia, this]
  · have : a[i]? = none := by simp [h.1]; omega
    simp [this]

/-- in shape: the write succeeds, keeps the shape, and is `List.set` at the row-major position -/
theorem U1.write {k0 : Nat} {a : MArr1 V} (h : Shape1 k0 a) (i : Nat) (hi : i < k0) (v : V) :
    ∃ a', MArr1.indexMut a i v = some a' ∧ Shape1 k0 a' ∧ flat1 a' = (flat1 a).set i v := by
  unfold Shape1 at h
  exact ⟨a.set i v, by simp [MArr1.indexMut, h, hi], by simp [Shape1, h], rfl⟩

theorem Shape2.set_row {k0 k1 : Nat} {a : MArr2 V} (h : Shape2 k0 k1 a) (i : Nat) (r : MArr1 V)
    (hr : r.length = k1) : Shape2 k0 k1 (a.set i r) := by
  refine ⟨by simp [h.1], fun x hx => ?_⟩
  rcases List.mem_or_eq_of_mem_set hx with hx | hx
  · exact h.2 x hx
  · rw [hx]; exact hr

theorem U2.write {k0 k1 : Nat} {a : MArr2 V} (h : Shape2 k0 k1 a) (i j : Nat) (hi : i < k0) (hj : j < k1) (v : V) :
    ∃ a', MArr2.indexMut a i j v = some a' ∧ Shape2 k0 k1 a' ∧ flat2 a' = (flat2 a).set (i * k1 + j) v := by
  have hia : i < a.length := by rw [h.1]; exact hi
  have hr : a[i].length = k1 := h.2 _ (List.getElem_mem hia)
  refine ⟨a.set i (a[i].set j v), ?_, h.set_row i _ (by simp [hr]), ?_⟩
  · simp [MArr2.indexMut, MArr1.indexMut, List.getElem?_eq_getElem hia, hr, hj]
  · exact flatten_set k1 a h.2 i j a[i] (List.getElem?_eq_getElem hia) hj v

theorem U3.write {k0 k1 k2 : Nat} {a : MArr3 V} (h : Shape3 k0 k1 k2 a) (i j k : Nat)
    (hi : i < k0) (hj : j < k1) (hk : k < k2) (v : V) :
    ∃ a', MArr3.indexMut a i j k v = some a' ∧ Shape3 k0 k1 k2 a' ∧
      flat3 a' = (flat3 a).set ((i * k1 + j) * k2 + k) v := by
  have hia : i < a.length := by rw [h.1]; exact hi
  have hp : Shape2 k1 k2 a[i] := h.2 _ (List.getElem_mem hia)
  obtain ⟨p', hw, hs', hf'⟩ := U2.write hp j k hj hk v
  refine ⟨a.set i p', ?_, ⟨by simp [h.1], fun x hx => ?_⟩, ?_⟩
  · simp [MArr3.indexMut, List.getElem?_eq_getElem hia, hw]
  · rcases List.mem_or_eq_of_mem_set hx with hx | hx
    · exact h.2 x hx
    · rw [hx]; exact hs'
  · -- flat3 = flatten of the list of planes' flats (all of length k1*k2)
    have hu : ∀ r ∈ a.map List.flatten, r.length = k1 * k2 := by
      intro r hr
      obtain ⟨p, hp, rfl⟩ := List.mem_map.mp hr
      exact flat2_length (h.2 p hp)
    have hrow : (a.map List.flatten)[i]? = some (flat2 a[i]) := by
      simp [List.getElem?_eq_getElem hia, flat2]
    have := flatten_set (k1 * k2) (a.map List.flatten) hu i (j * k2 + k) (flat2 a[i]) hrow
      (by nlinarith) v
    unfold flat3
    rw [List.map_set, show List.flatten p' = (flat2 a[i]).set (j * k2 + k) v from hf', this]
    congr 1; ring

/-! ### C. constructors from a flat sequence -/

/-- `body` takes exactly `c` items from the front of the input, yields `a` with `P a` whose cells `fl a` are the
    consumed items, and panics when fewer than `c` items are left -/
structure Consumes {A : Type} (body : List V → Option (A × List V)) (c : Nat) (P : A → Prop) (fl : A → List V) :
    Prop where
  ok : ∀ l, c ≤ l.length → ∃ a, body l = some (a, l.drop c) ∧ P a ∧ fl a = l.take c
  short : ∀ l, l.length < c → body l = none

theorem Consumes.congr {A : Type} {body : List V → Option (A × List V)} {c c' : Nat} {P P' : A → Prop}
    {fl fl' : A → List V} (h : Consumes body c P fl) (hc : c = c') (hP : ∀ a, P a → P' a)
    (hfl : ∀ a, P a → fl a = fl' a) : Consumes body c' P' fl' := by
  subst hc
  refine ⟨fun l hl => ?_, h.short⟩
  obtain ⟨a, h1, h2, h3⟩ := h.ok l hl
  exact ⟨a, h1, hP a h2, by rw [← hfl a h2, h3]⟩

theorem repeatM_consumes {A : Type} {body : List V → Option (A × List V)} {c : Nat} {P : A → Prop}
    {fl : A → List V} (h : Consumes body c P fl) : ∀ m,
    Consumes (repeatM body m) (m * c) (fun as => as.length = m ∧ ∀ a ∈ as, P a)
      (fun as => (as.map fl).flatten) := by
  intro m
  induction m with
  | zero => exact ⟨fun l _ => ⟨[], by simp [repeatM]⟩, fun l hl => by simp at hl⟩
  | succ m ih =>
    refine ⟨fun l hl => ?_, fun l hl => ?_⟩
    · have hc : c ≤ l.length := by nlinarith
      obtain ⟨a, h1, h2, h3⟩ := h.ok l hc
      have hm : m * c ≤ (l.drop c).length := by simp; rw [Nat.succ_mul] at hl; omega
      obtain ⟨as, g1, g2, g3⟩ := ih.ok (l.drop c) hm
      refine ⟨a :: as, ?_, ⟨by simp [g2.1], ?_⟩, ?_⟩
      · simp only [repeatM, h1, g1, Option.map_some, List.drop_drop]
        congr 3; ring
      · intro x hx
        rcases List.mem_cons.mp hx with rfl | hx
        · exact h2
        · exact g2.2 x hx
      · simp only [List.map_cons, List.flatten_cons, h3, g3]
        rw [show (m + 1) * c = c + m * c by ring, List.take_add]
    · by_cases hc : c ≤ l.length
      · obtain ⟨a, h1, _, _⟩ := h.ok l hc
        have : (l.drop c).length < m * c := by simp; rw [Nat.succ_mul] at hl; omega
        simp [repeatM, h1, ih.short _ this]
      · simp [repeatM, h.short l (by omega)]

theorem takeUnwrap_consumes : ∀ n, Consumes (V := V) (takeUnwrap n) n (fun r => r.length = n) id := by
  intro n
  induction n with
  | zero => exact ⟨fun l _ => ⟨[], by simp [takeUnwrap]⟩, fun l hl => by simp at hl⟩
  | succ n ih =>
    refine ⟨fun l hl => ?_, fun l hl => ?_⟩
    · cases l with
      | nil => simp at hl
      | cons x xs =>
        obtain ⟨r, h1, h2, h3⟩ := ih.ok xs (by simpa using hl)
        exact ⟨x :: r, by simp [takeUnwrap, h1], by simp [h2], by simp at h3 ⊢; exact h3⟩
    · cases l with
      | nil => rfl
      | cons x xs => simp [takeUnwrap, ih.short xs (by simpa using hl)]

theorem rows_consumes (k0 k1 : Nat) :
    Consumes (V := V) (repeatM (takeUnwrap k1) k0) (k0 * k1) (Shape2 k0 k1) flat2 :=
  (repeatM_consumes (takeUnwrap_consumes k1) k0).congr rfl (fun _ h => h) (fun _ _ => by simp [flat2])

theorem planes_consumes (k0 k1 k2 : Nat) :
    Consumes (V := V) (repeatM (repeatM (takeUnwrap k2) k1) k0) (k0 * k1 * k2) (Shape3 k0 k1 k2) flat3 :=
  (repeatM_consumes (rows_consumes k1 k2) k0).congr (by ring) (fun _ h => h) (fun _ _ => rfl)

theorem U2.fromIter_ok (k0 k1 : Nat) (l : List V) (h : k0 * k1 ≤ l.length) :
    ∃ a, MArr2.fromIter k0 k1 l = some a ∧ Shape2 k0 k1 a ∧ flat2 a = l.take (k0 * k1) := by
  obtain ⟨a, h1, h2, h3⟩ := (rows_consumes k0 k1).ok l h
  exact ⟨a, by simp [MArr2.fromIter, h1], h2, h3⟩

theorem U2.fromIter_short (k0 k1 : Nat) (l : List V) (h : l.length < k0 * k1) : MArr2.fromIter k0 k1 l = none := by
  simp [MArr2.fromIter, (rows_consumes k0 k1).short l h]

theorem U3.fromIter_ok (k0 k1 k2 : Nat) (l : List V) (h : k0 * k1 * k2 ≤ l.length) :
    ∃ a, MArr3.fromIter k0 k1 k2 l = some a ∧ Shape3 k0 k1 k2 a ∧ flat3 a = l.take (k0 * k1 * k2) := by
  obtain ⟨a, h1, h2, h3⟩ := (planes_consumes k0 k1 k2).ok l h
  exact ⟨a, by simp [MArr3.fromIter, h1], h2, h3⟩

theorem U3.fromIter_short (k0 k1 k2 : Nat) (l : List V) (h : l.length < k0 * k1 * k2) :
    MArr3.fromIter k0 k1 k2 l = none := by
  simp [MArr3.fromIter, (planes_consumes k0 k1 k2).short l h]

/-- labelled rows: `MArrD1::from_iter(v.drain(0..d))` -/
theorem drainRow_consumes (d : Nat) :
    Consumes (V := V) (drainRow d) d (fun r => Shape1 d r.toU) (fun r => flat1 r.toU) := by
  refine ⟨fun l hl => ?_, fun l hl => ?_⟩
  · refine ⟨⟨l.take d⟩, ?_, by simp [Shape1, MArrD1.toU, hl], rfl⟩
    simp [drainRow, vecDrain, hl, MArrD1.fromIter, MArrD1.new]
  · simp [drainRow, vecDrain, Nat.not_le.mpr hl]

theorem toU2_mk (rows : List (MArrD1 V)) : (MArrD2.mk ⟨rows⟩).toU = rows.map MArrD1.toU := rfl
theorem toU3_mk (planes : List (MArrD2 V)) : (MArrD3.mk ⟨planes⟩).toU = planes.map MArrD2.toU := rfl

theorem shape2_of_rows {d0 d1 : Nat} {rows : List (MArrD1 V)} (h : rows.length = d0 ∧ ∀ r ∈ rows, Shape1 d1 r.toU) :
    Shape2 d0 d1 (rows.map MArrD1.toU) := by
  refine ⟨by simp [h.1], fun r hr => ?_⟩
  obtain ⟨x, hx, rfl⟩ := List.mem_map.mp hr
  exact h.2 x hx

theorem shape3_of_planes {d0 d1 d2 : Nat} {ps : List (MArrD2 V)}
    (h : ps.length = d0 ∧ ∀ p ∈ ps, Shape2 d1 d2 p.toU) : Shape3 d0 d1 d2 (ps.map MArrD2.toU) := by
  refine ⟨by simp [h.1], fun r hr => ?_⟩
  obtain ⟨x, hx, rfl⟩ := List.mem_map.mp hr
  exact h.2 x hx

theorem drainPlane_consumes (d1 d2 : Nat) :
    Consumes (V := V) (drainPlane d1 d2) (d1 * d2) (fun p => Shape2 d1 d2 p.toU) (fun p => flat2 p.toU) := by
  have hc := repeatM_consumes (drainRow_consumes (V := V) d2) d1
  refine ⟨fun l hl => ?_, fun l hl => ?_⟩
  · obtain ⟨rows, h1, h2, h3⟩ := hc.ok l hl
    refine ⟨⟨⟨rows⟩⟩, ?_, ?_, ?_⟩
    · simp [drainPlane, h1, MArrD2.new, MArrD1.new, h2.1]
    · rw [toU2_mk]; exact shape2_of_rows h2
    · rw [toU2_mk, ← h3]; simp [flat2, flat1]
  · simp [drainPlane, hc.short l hl]

theorem L2.fromIter_ok (d0 d1 : Nat) (l : List V) (h : d0 * d1 ≤ l.length) :
    ∃ a, MArrD2.fromIter d0 d1 l = some a ∧ Shape2 d0 d1 a.toU ∧ flat2 a.toU = l.take (d0 * d1) := by
  obtain ⟨a, h1, h2, h3⟩ := (drainPlane_consumes d0 d1).ok l h
  refine ⟨a, ?_, h2, h3⟩
  simp only [drainPlane] at h1
  unfold MArrD2.fromIter
  cases hr : repeatM (drainRow d1) d0 l with
  | none => simp [hr] at h1
  | some pr =>
    obtain ⟨rows, rest⟩ := pr
    simp only [hr] at h1
    cases hn : MArrD2.new d0 rows with
    | none => simp [hn] at h1
    | some p => simp [hn] at h1; show MArrD2.new d0 rows = some a; rw [hn, h1.1]

theorem L2.fromIter_short (d0 d1 : Nat) (l : List V) (h : l.length < d0 * d1) : MArrD2.fromIter d0 d1 l = none := by
  have := (repeatM_consumes (drainRow_consumes (V := V) d1) d0).short l h
  simp [MArrD2.fromIter, this]

theorem L3.fromIter_ok (d0 d1 d2 : Nat) (l : List V) (h : d0 * d1 * d2 ≤ l.length) :
    ∃ a, MArrD3.fromIter d0 d1 d2 l = some a ∧ Shape3 d0 d1 d2 a.toU ∧ flat3 a.toU = l.take (d0 * d1 * d2) := by
  have hc := repeatM_consumes (drainPlane_consumes (V := V) d1 d2) d0
  obtain ⟨ps, h1, h2, h3⟩ := hc.ok l (by rw [← Nat.mul_assoc]; exact h)
  refine ⟨⟨⟨ps⟩⟩, ?_, ?_, ?_⟩
  · simp [MArrD3.fromIter, h1, MArrD3.new, MArrD1.new, h2.1]
  · rw [toU3_mk]; exact shape3_of_planes h2
  · rw [toU3_mk, ← Nat.mul_assoc] at *
    rw [← h3]; simp [flat3, flat2, Function.comp_def]

theorem L3.fromIter_short (d0 d1 d2 : Nat) (l : List V) (h : l.length < d0 * d1 * d2) :
    MArrD3.fromIter d0 d1 d2 l = none := by
  have := (repeatM_consumes (drainPlane_consumes (V := V) d1 d2) d0).short l (by rw [← Nat.mul_assoc]; exact h)
  simp [MArrD3.fromIter, this]

end SLV.MArr
