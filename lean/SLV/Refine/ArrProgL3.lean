/-
  C17 programs: the labelled rank-3 kind (usize or newtype index) refines the flat specification.
-/
import SLV.Refine.ArrProg3

namespace SLV.MArr

def RL3 (d0 d1 d2 : Nat) (a : MArrD3 Nat) (fl : List Nat) : Prop := Shape3 d0 d1 d2 a.toU ∧ flat3 a.toU = fl

theorem L3.flatten3_eq (v : List (List (List Nat))) : flatten3 v = flat3 v := by
  rw [flat3_eq, flat2, flatten3]

theorem L3.indexMut_ref {d0 d1 d2 : Nat} (nt : Bool) {a : MArrD3 Nat} {fl : List Nat} (h : RL3 d0 d1 d2 a fl)
    (i j k v : Nat) :
    OutR (RL3 d0 d1 d2) (Out.ofOpt (a.indexMut i j k v))
      ((kindSpec true nt [d0, d1, d2]).indexMut fl [i, j, k] v) := by
  obtain ⟨hs, hf⟩ := h
  by_cases hij : i < d0 ∧ j < d1 ∧ k < d2
  · obtain ⟨a', h1, h2, h3⟩ := L3.write hs i j k hij.1 hij.2.1 hij.2.2 v
    have hS : (kindSpec true nt [d0, d1, d2]).indexMut fl [i, j, k] v =
        .ok (fl.set ((i * d1 + j) * d2 + k) v) := by
      simp [kindSpec, inShape, hij.1, hij.2.1, hij.2.2]
    rw [hS]
    exact OutR.ofOpt_some h1 ⟨h2, by rw [h3, hf]⟩
  · have hsh : inShape [d0, d1, d2] [i, j, k] = false := by simp [inShape]; omega
    have hS : (kindSpec true nt [d0, d1, d2]).indexMut fl [i, j, k] v = .panic := by simp [kindSpec, hsh]
    rw [hS]
    exact OutR.ofOpt_none (L3.oob hs i j k hij v).2

theorem refinesL3 (nt : Bool) (d0 d1 d2 : Nat) :
    Refines (kindL3 nt d0 d1 d2) (kindSpec true nt [d0, d1, d2]) (RL3 d0 d1 d2) where
  labelled := rfl
  newtype := rfl
  dims := rfl
  zeros := by
    obtain ⟨a, h1, h2, h3⟩ := L3.zeros_ok (0 : Nat) d0 d1 d2
    exact OutR.ofOpt_some h1 ⟨h2, by rw [h3]; simp [prodDims]⟩
  dflt := by
    obtain ⟨a, h1, h2, h3⟩ := L3.zeros_ok (0 : Nat) d0 d1 d2
    exact OutR.ofOpt_some h1 ⟨h2, by rw [h3]; simp [prodDims]⟩
  fromFn f := by
    obtain ⟨a, h1, h2, h3⟩ := L3.fromFn_ok d0 d1 d2 (fn3 f)
    exact OutR.ofOpt_some h1 ⟨h2, by rw [h3, fn3_map]⟩
  fromIter v _ := by
    have hS : (kindSpec true nt [d0, d1, d2]).fromIter v =
        if d0 * d1 * d2 ≤ v.length then .ok (v.take (d0 * d1 * d2)) else .panic := by simp [kindSpec, prodDims]
    rw [hS]
    by_cases h : d0 * d1 * d2 ≤ v.length
    · obtain ⟨a, h1, h2, h3⟩ := L3.fromIter_ok d0 d1 d2 v h
      rw [if_pos h]; exact OutR.ofOpt_some h1 ⟨h2, h3⟩
    · rw [if_neg h]; exact OutR.ofOpt_none (L3.fromIter_short d0 d1 d2 v (by omega))
  fromNested t _ := by
    cases t with
    | n1 v => simp [kindSpec, kindL3, Nested.rank, OutR]
    | n2 v => simp [kindSpec, kindL3, Nested.rank, OutR]
    | n3 v =>
      by_cases hsh : Shape3 d0 d1 d2 v
      · have hS : (kindSpec true nt [d0, d1, d2]).fromNested (.n3 v) = .ok (flatten3 v) := by
          simp [kindSpec, Nested.rank, Nested.shapeOk, Nested.outerOk, Nested.innerOk, hsh.1, Nested.flat]
          exact ⟨fun x hx => (hsh.2 x hx).1, fun x hx => (hsh.2 x hx).2⟩
        rw [hS]
        exact OutR.ofOpt_some (L3.fromMultiIter_ok hsh)
          ⟨by rw [toU_mk3]; exact hsh, by rw [toU_mk3]; exact (L3.flatten3_eq v).symm⟩
      · have hS : (kindSpec true nt [d0, d1, d2]).fromNested (.n3 v) = .panic := by
          simp [kindSpec, Nested.rank, Nested.shapeOk, Nested.outerOk, Nested.innerOk]
          intro h0 h1; by_contra hc
          exact hsh ⟨h0, fun p hp => ⟨h1 p hp, fun r hr => by_contra fun hn => hc ⟨p, hp, r, hr, hn⟩⟩⟩
        rw [hS]
        exact OutR.ofOpt_none (L3.fromMultiIter_none hsh)
  index a fl idx h := by
    obtain ⟨hs, hf⟩ := h
    match idx with
    | [] => simp [kindSpec, kindL3]
    | [_] => simp [kindSpec, kindL3]
    | [_, _] => simp [kindSpec, kindL3]
    | _ :: _ :: _ :: _ :: _ => simp [kindSpec, kindL3]
    | [i, j, k] =>
      by_cases hij : i < d0 ∧ j < d1 ∧ k < d2
      · simp [kindSpec, kindL3, inShape, hij.1, hij.2.1, hij.2.2, L3.index_toU,
          U3.index_eq hs i j k hij.2.1 hij.2.2, hf]
      · have := (L3.oob hs i j k hij 0).1
        have hsh : inShape [d0, d1, d2] [i, j, k] = false := by simp [inShape]; omega
        simp [kindSpec, kindL3, this, hsh, Out.ofOpt]
  indexMut a fl idx v h := by
    match idx with
    | [] => simp [kindSpec, kindL3, OutR]
    | [_] => simp [kindSpec, kindL3, OutR]
    | [_, _] => simp [kindSpec, kindL3, OutR]
    | _ :: _ :: _ :: _ :: _ => simp [kindSpec, kindL3, OutR]
    | [i, j, k] => exact L3.indexMut_ref nt h i j k v
  dump a fl h := by rw [← h.2]; exact L3.dump_eq h.1
  iterMutAdd a fl c h := by
    obtain ⟨h1, h2⟩ := L3.iterMutApply_ok (imaddFn c) h.1
    exact ⟨h1, by rw [h2, h.2]⟩
  downDump a fl i h := by
    obtain ⟨hs, hf⟩ := h
    by_cases hi : i < d0
    · obtain ⟨r, h1, h2, h3⟩ := L3.down_ok hs i hi
      simp [kindSpec, kindL3, hi, h1, Out.ofOpt, Out.map, L2.dump_eq h2, h3, hf, prodDims]
    · simp [kindSpec, kindL3, hi, (L3.down_oob hs i hi ⟨⟨[]⟩⟩).1, Out.ofOpt, Out.map]
  downMutSet a fl i idx v h := by
    match idx with
    | [] => simp [kindSpec, kindL3, OutR]
    | [_] => simp [kindSpec, kindL3, OutR]
    | _ :: _ :: _ :: _ => simp [kindSpec, kindL3, OutR]
    | [j, k] =>
      have hK : (kindL3 nt d0 d1 d2).downMutSet a i [j, k] v = Out.ofOpt (a.indexMut i j k v) := by
        simp only [kindL3, MArrD3.indexMut, MArrD3.down, MArrD3.downMutSet]
        cases a.inner.index i with
        | none => rfl
        | some r => cases hr : r.indexMut j k v <;> simp [hr]
      have hS : (kindSpec true nt [d0, d1, d2]).downMutSet fl i [j, k] v =
          (kindSpec true nt [d0, d1, d2]).indexMut fl [i, j, k] v := by simp [kindSpec]
      rw [hK, hS]
      exact L3.indexMut_ref nt h i j k v
  downMutFn a fl i f h := by
    obtain ⟨hs, hf⟩ := h
    obtain ⟨sub, g1, g2, g3⟩ := L2.fromFn_ok d1 d2 (fn2 f)
    rw [fn2_map] at g3
    have hK : (kindL3 nt d0 d1 d2).downMutFn a i f = Out.ofOpt (a.downMutSet i sub) := by
      simp [kindL3, g1]
    rw [hK]
    by_cases hi : i < d0
    · obtain ⟨a', h1, h2, h3⟩ := L3.downMutSet_ok hs i hi sub g2
      have hS : (kindSpec true nt [d0, d1, d2]).downMutFn fl i f =
          .ok (fl.take (i * (d1 * d2)) ++ (lexList [d1, d2]).map f ++ fl.drop ((i + 1) * (d1 * d2))) := by
        simp [kindSpec, hi, prodDims]
      rw [hS]
      exact OutR.ofOpt_some h1 ⟨h2, by rw [h3, g3, hf]⟩
    · have hS : (kindSpec true nt [d0, d1, d2]).downMutFn fl i f = .panic := by simp [kindSpec, hi]
      rw [hS]
      exact OutR.ofOpt_none (L3.down_oob hs i hi sub).2
  beq a fl b fl' ha hb := by
    show (a == b) = (fl == fl')
    rw [Bool.eq_iff_iff, beq_iff_eq, beq_iff_eq, ← ha.2, ← hb.2]
    exact ⟨fun h => h ▸ rfl, fun h => toU3_inj (ha.1.eq_of_flat hb.1 h)⟩
  clone a fl h := by show RL3 d0 d1 d2 a.clone fl; rw [L3.clone_eq]; exact h
  conv a fl _ := by simp [kindSpec, kindL3]
  asRef a fl _ := by simp [kindSpec, kindL3]
  product ws := by
    match ws with
    | [] => simp [kindSpec, kindL3, specProduct, OutR]
    | [_] => simp [kindSpec, kindL3, specProduct, OutR]
    | [_, _] => simp [kindSpec, kindL3, specProduct, OutR]
    | _ :: _ :: _ :: _ :: _ => simp [kindSpec, kindL3, specProduct, OutR]
    | [w0, w1, w2] =>
      by_cases hl : w0.length = d0 ∧ w1.length = d1 ∧ w2.length = d2
      · have hS : (kindSpec true nt [d0, d1, d2]).product [w0, w1, w2] = .ok (outerList [w0, w1, w2]) := by
          simp [kindSpec, specProduct, hl.1, hl.2.1, hl.2.2]
        rw [hS]
        obtain ⟨a, h1, h2, h3⟩ := L3.product_ok mulU (d0 := d0) (d1 := d1) (d2 := d2) ⟨w0⟩ ⟨w1⟩ ⟨w2⟩
          hl.1 hl.2.1 hl.2.2
        have hK : (kindL3 nt d0 d1 d2).product [w0, w1, w2] =
            Out.ofOpt (MArrD3.product3 mulU d0 d1 d2 ⟨w0⟩ ⟨w1⟩ ⟨w2⟩) := by
          simp [kindL3, MArrD1.fromIter, MArrD1.new, hl.1, hl.2.1, hl.2.2]
        rw [hK]
        exact OutR.ofOpt_some h1 ⟨h2, by rw [h3]; rfl⟩
      · have hS : (kindSpec true nt [d0, d1, d2]).product [w0, w1, w2] = .panic := by
          simp [kindSpec, specProduct]; intro h0 h1 h2; exact absurd ⟨h0, h1, h2⟩ hl
        rw [hS]
        have hK : (kindL3 nt d0 d1 d2).product [w0, w1, w2] = .panic := by
          by_cases h0 : w0.length = d0
          · by_cases h1 : w1.length = d1
            · have h2 : ¬ w2.length = d2 := fun h2 => hl ⟨h0, h1, h2⟩
              simp [kindL3, MArrD1.fromIter, MArrD1.new, h0, h1, h2, Out.ofOpt]
            · simp [kindL3, MArrD1.fromIter, MArrD1.new, h0, h1, Out.ofOpt]
          · simp [kindL3, MArrD1.fromIter, MArrD1.new, h0, Out.ofOpt]
        rw [hK]; trivial
  productIter ws := by
    match ws with
    | [] => simp [kindSpec, kindL3, specProduct]
    | [_] => simp [kindSpec, kindL3, specProduct]
    | [_, _] => simp [kindSpec, kindL3, specProduct]
    | _ :: _ :: _ :: _ :: _ => simp [kindSpec, kindL3, specProduct]
    | [w0, w1, w2] =>
      by_cases hl : w0.length = d0 ∧ w1.length = d1 ∧ w2.length = d2
      · simp [kindSpec, kindL3, specProduct, MArrD1.fromIter, MArrD1.new, hl.1, hl.2.1, hl.2.2, Out.ofOpt,
          product3Iter_eq, outerList]
      · have hS : (kindSpec true nt [d0, d1, d2]).productIter [w0, w1, w2] = .panic := by
          simp [kindSpec, specProduct]; intro h0 h1 h2; exact absurd ⟨h0, h1, h2⟩ hl
        rw [hS]
        by_cases h0 : w0.length = d0
        · by_cases h1 : w1.length = d1
          · have h2 : ¬ w2.length = d2 := fun h2 => hl ⟨h0, h1, h2⟩
            simp [kindL3, MArrD1.fromIter, MArrD1.new, h0, h1, h2, Out.ofOpt]
          · simp [kindL3, MArrD1.fromIter, MArrD1.new, h0, h1, Out.ofOpt]
        · simp [kindL3, MArrD1.fromIter, MArrD1.new, h0, Out.ofOpt]
  tryFrom t := by
    cases t with
    | n1 v => simp [kindSpec, kindL3, Nested.rank]
    | n2 v => simp [kindSpec, kindL3, Nested.rank]
    | n3 v =>
      have hS : (kindSpec true nt [d0, d1, d2]).tryFrom (.n3 v) =
          (tresOut (MArrD3.tryFrom cvEven d0 d1 d2 v)).map fun a =>
            ((a.inner.inner.map fun p => p.inner.inner.map (·.inner)).flatten).flatten := by
        simp [kindSpec, Nested.rank, specTryLabelled]
      rw [hS]
      show (tresOut (MArrD3.tryFrom cvEven d0 d1 d2 v)).map (fun a => (L3.dump d0 d1 d2 a).it) = _
      cases ht : MArrD3.tryFrom cvEven d0 d1 d2 v with
      | err e => rfl
      | panic => rfl
      | ok a => simp [tresOut, Out.map, L3.dump_it (L3.tryFrom_ok_shape ht)]
  iterWith a fl h := by
    obtain ⟨hs, hf⟩ := h
    have hl : (lexList [d0, d1, d2]).length = (flat3 a.toU).length := by
      rw [flat3_length hs]; simp [lexList_length, Nat.mul_assoc]
    have := iterWith_of _ _ _ hl (U3.idx_lex hs)
    simp [kindL3, kindSpec, mkIterWith, idx3_eq, L3.idx_eq, L3.idx'_toU, this, Out.ofOpt, hf]
  indexes := by simp [kindL3, kindSpec, idx3_eq]
  keys := by simp [kindL3, kindSpec, idx3_eq]
  len := rfl
  resumeIdx := by simp [kindL3, kindSpec, idx3_eq, listResume_eq]
  resumeKeys := by simp [kindL3, kindSpec, idx3_eq, listResume_eq]

end SLV.MArr
