/-
  Helper lemmas for C17 (part 6): fallible element-wise conversion, labelled constructors keep the shape, sub-arrays.
-/
import SLV.Refine.ArrLemmas5

namespace SLV.MArr

variable {V T U E : Type}

/-! ### try_from: first error wins -/

def errOf : Except E U → Option E | .error e => some e | .ok _ => none

theorem tryCells_err (cv : T → Except E U) : ∀ l : List T,
    errOf (tryCells cv l) = l.findSome? fun x => errOf (cv x) := by
  intro l
  induction l with
  | nil => rfl
  | cons x xs ih =>
    simp only [tryCells, List.findSome?_cons]
    cases hx : cv x with
    | error e => simp [errOf]
    | ok u =>
      show errOf (match tryCells cv xs with | .error e => .error e | .ok us => .ok (u :: us)) =
        List.findSome? (fun x => errOf (cv x)) xs
      rw [← ih]
      cases tryCells cv xs <;> rfl

theorem tryCells_ok (cv : T → Except E U) : ∀ (l : List T) (us : List U),
    tryCells cv l = .ok us → List.Forall₂ (fun x u => cv x = .ok u) l us := by
  intro l
  induction l with
  | nil => intro us h; simp [tryCells] at h; subst h; exact List.Forall₂.nil
  | cons x xs ih =>
    intro us h
    simp only [tryCells] at h
    cases hx : cv x with
    | error e => simp [hx] at h
    | ok u =>
      simp only [hx] at h
      cases hr : tryCells cv xs with
      | error e => simp [hr] at h
      | ok us' =>
        simp only [hr] at h
        cases h
        exact List.Forall₂.cons hx (ih us' hr)

theorem tryCells_all_ok (cv : T → Except E U) (g : T → U) : ∀ l : List T,
    (∀ x ∈ l, cv x = .ok (g x)) → tryCells cv l = .ok (l.map g) := by
  intro l
  induction l with
  | nil => intro _; rfl
  | cons x xs ih =>
    intro h
    simp [tryCells, h x (by simp), ih (fun y hy => h y (List.mem_cons_of_mem _ hy))]

theorem findSome?_flatten' {α β : Type} (f : α → Option β) : ∀ rows : List (List α),
    rows.flatten.findSome? f = rows.findSome? fun r => r.findSome? f := by
  intro rows
  induction rows with
  | nil => rfl
  | cons r rs ih =>
    simp only [List.flatten_cons, List.findSome?_append, List.findSome?_cons, ih]
    cases r.findSome? f <;> rfl

/-- unlabelled rank 2 / 3: the reported error is that of the first failing cell in row-major order -/
theorem U2.tryFrom_err (cv : T → Except E U) (v : List (List T)) :
    errOf (MArr2.tryFrom cv v) = (flat2 v).findSome? fun x => errOf (cv x) := by
  rw [MArr2.tryFrom, tryCells_err, flat2, findSome?_flatten']
  congr 1; funext r; exact tryCells_err cv r

theorem U3.tryFrom_err (cv : T → Except E U) (v : List (List (List T))) :
    errOf (MArr3.tryFrom cv v) = (flat3 v).findSome? fun x => errOf (cv x) := by
  rw [MArr3.tryFrom, tryCells_err, flat3_eq, flat2, findSome?_flatten', findSome?_flatten']
  congr 1; funext p
  rw [U2.tryFrom_err, flat2, findSome?_flatten']

theorem U2.tryFrom_ok (cv : T → Except E U) (v : List (List T)) (a : MArr2 U) (h : MArr2.tryFrom cv v = .ok a) :
    List.Forall₂ (List.Forall₂ fun x u => cv x = .ok u) v a :=
  (tryCells_ok _ v a h).imp fun _ _ hr => tryCells_ok cv _ _ hr

theorem U3.tryFrom_ok (cv : T → Except E U) (v : List (List (List T))) (a : MArr3 U)
    (h : MArr3.tryFrom cv v = .ok a) :
    List.Forall₂ (List.Forall₂ (List.Forall₂ fun x u => cv x = .ok u)) v a :=
  (tryCells_ok _ v a h).imp fun _ _ hr => U2.tryFrom_ok cv _ _ hr

/-! labelled: with the declared shape there is no panic and the outcome is the unlabelled one -/

/-- an unlabelled outcome seen as a labelled one (no panic) -/
def liftRes {W : Type} (w : U → W) : Except E U → TRes E W
  | .error e => .err e
  | .ok a => .ok (w a)

theorem L1.tryFrom_shape (cv : T → Except E U) (d0 : Nat) (v : List T) (hv : v.length = d0) :
    MArrD1.tryFrom cv d0 v = liftRes MArrD1.mk (MArr1.tryFrom cv v) := by
  unfold MArrD1.tryFrom MArr1.tryFrom liftRes
  cases h : tryCells cv v with
  | error e => rfl
  | ok us =>
    have := (tryCells_ok cv v us h).length_eq
    simp [MArrD1.new, ← this, hv]

theorem collectT_shape (f : T → TRes E V) (g : T → Except E U) (w : U → V) (P : T → Prop)
    (hf : ∀ x, P x → f x = liftRes w (g x)) :
    ∀ l : List T, (∀ x ∈ l, P x) → collectT f l = liftRes (List.map w) (tryCells g l) := by
  intro l
  induction l with
  | nil => intro _; rfl
  | cons x xs ih =>
    intro h
    simp only [collectT, tryCells, hf x (h x (by simp)), ih (fun y hy => h y (List.mem_cons_of_mem _ hy))]
    cases g x with
    | error e => rfl
    | ok a => cases tryCells g xs <;> rfl


theorem L2.tryFrom_shape (cv : T → Except E U) (d0 d1 : Nat) (v : List (List T)) (hv : Shape2 d0 d1 v) :
    MArrD2.tryFrom cv d0 d1 v = liftRes (fun a => ⟨⟨a.map MArrD1.mk⟩⟩) (MArr2.tryFrom cv v) := by
  unfold MArrD2.tryFrom MArr2.tryFrom
  rw [collectT_shape (MArrD1.tryFrom cv d1) (MArr1.tryFrom cv) MArrD1.mk (fun r => r.length = d1)
    (fun r hr => L1.tryFrom_shape cv d1 r hr) v hv.2]
  cases h : tryCells (MArr1.tryFrom cv) v with
  | error e => rfl
  | ok as =>
    have := (tryCells_ok _ v as h).length_eq
    simp [liftRes, MArrD2.new, MArrD1.new, ← this, hv.1]

theorem L3.tryFrom_shape (cv : T → Except E U) (d0 d1 d2 : Nat) (v : List (List (List T)))
    (hv : Shape3 d0 d1 d2 v) :
    MArrD3.tryFrom cv d0 d1 d2 v =
      liftRes (fun a => ⟨⟨a.map fun p => ⟨⟨p.map MArrD1.mk⟩⟩⟩⟩) (MArr3.tryFrom cv v) := by
  unfold MArrD3.tryFrom MArr3.tryFrom
  rw [collectT_shape (MArrD2.tryFrom cv d1 d2) (MArr2.tryFrom cv) (fun p => ⟨⟨p.map MArrD1.mk⟩⟩)
    (fun p => Shape2 d1 d2 p) (fun p hp => L2.tryFrom_shape cv d1 d2 p hp) v hv.2]
  cases h : tryCells (MArr2.tryFrom cv) v with
  | error e => rfl
  | ok as =>
    have := (tryCells_ok _ v as h).length_eq
    simp [liftRes, MArrD3.new, MArrD1.new, ← this, hv.1]

/-! ### every labelled constructor that returns an array returns one of the declared shape -/

theorem L1.new_shape {d0 : Nat} {l : List V} {a : MArrD1 V} (h : MArrD1.new d0 l = some a) :
    Shape1 d0 a.toU ∧ a.inner = l := by
  unfold MArrD1.new at h
  split at h
  · cases h; exact ⟨by assumption, rfl⟩
  · cases h

theorem L2.new_shape {d0 d1 : Nat} {rows : List (MArrD1 V)} {a : MArrD2 V}
    (hr : ∀ r ∈ rows, Shape1 d1 r.toU) (h : MArrD2.new d0 rows = some a) : Shape2 d0 d1 a.toU := by
  unfold MArrD2.new at h
  cases hn : MArrD1.new d0 rows with
  | none => simp [hn] at h
  | some i =>
    simp [hn] at h; subst h
    obtain ⟨h1, h2⟩ := L1.new_shape hn
    show Shape2 d0 d1 (i.inner.map MArrD1.toU)
    rw [h2]
    exact shape2_of_rows ⟨by rw [← h2]; exact h1, hr⟩

theorem L3.new_shape {d0 d1 d2 : Nat} {ps : List (MArrD2 V)} {a : MArrD3 V}
    (hr : ∀ p ∈ ps, Shape2 d1 d2 p.toU) (h : MArrD3.new d0 ps = some a) : Shape3 d0 d1 d2 a.toU := by
  unfold MArrD3.new at h
  cases hn : MArrD1.new d0 ps with
  | none => simp [hn] at h
  | some i =>
    simp [hn] at h; subst h
    obtain ⟨h1, h2⟩ := L1.new_shape hn
    show Shape3 d0 d1 d2 (i.inner.map MArrD2.toU)
    rw [h2]
    exact shape3_of_planes ⟨by rw [← h2]; exact h1, hr⟩

theorem L2.fromIter_shape {d0 d1 : Nat} {l : List V} {a : MArrD2 V} (h : MArrD2.fromIter d0 d1 l = some a) :
    Shape2 d0 d1 a.toU ∧ flat2 a.toU = l.take (d0 * d1) := by
  by_cases hl : d0 * d1 ≤ l.length
  · obtain ⟨a', h1, h2, h3⟩ := L2.fromIter_ok d0 d1 l hl
    rw [h1] at h; cases h; exact ⟨h2, h3⟩
  · rw [L2.fromIter_short d0 d1 l (by omega)] at h; cases h

theorem L3.fromIter_shape {d0 d1 d2 : Nat} {l : List V} {a : MArrD3 V} (h : MArrD3.fromIter d0 d1 d2 l = some a) :
    Shape3 d0 d1 d2 a.toU ∧ flat3 a.toU = l.take (d0 * d1 * d2) := by
  by_cases hl : d0 * d1 * d2 ≤ l.length
  · obtain ⟨a', h1, h2, h3⟩ := L3.fromIter_ok d0 d1 d2 l hl
    rw [h1] at h; cases h; exact ⟨h2, h3⟩
  · rw [L3.fromIter_short d0 d1 d2 l (by omega)] at h; cases h

theorem mapPanic_spec {A B : Type} (f : A → Option B) : ∀ (l : List A) (bs : List B),
    mapPanic f l = some bs → List.Forall₂ (fun a b => f a = some b) l bs := by
  intro l
  induction l with
  | nil => intro bs h; simp [mapPanic] at h; subst h; exact List.Forall₂.nil
  | cons x xs ih =>
    intro bs h
    simp only [mapPanic] at h
    cases hx : f x with
    | none => simp [hx] at h
    | some b =>
      simp only [hx] at h
      cases hr : mapPanic f xs with
      | none => simp [hr] at h
      | some bs' =>
        simp [hr] at h; subst h
        exact List.Forall₂.cons hx (ih bs' hr)

theorem forall₂_right {A B : Type} {R : A → B → Prop} {P : B → Prop} (h : ∀ a b, R a b → P b) :
    ∀ {l : List A} {bs : List B}, List.Forall₂ R l bs → ∀ b ∈ bs, P b := by
  intro l bs hf
  induction hf with
  | nil => intro b hb; simp at hb
  | cons hab _ ih =>
    intro b hb
    rcases List.mem_cons.mp hb with rfl | hb
    · exact h _ _ hab
    · exact ih b hb

theorem forall₂_map_eq {A B C : Type} {R : A → B → Prop} {f : B → C} {g : A → C} (h : ∀ a b, R a b → f b = g a) :
    ∀ {l : List A} {bs : List B}, List.Forall₂ R l bs → bs.map f = l.map g := by
  intro l bs hf
  induction hf with
  | nil => rfl
  | cons hab _ ih => simp [h _ _ hab, ih]

/-- `from_multi_iter`: a returned array has the declared shape and holds the nested input unchanged -/
theorem L2.fromMultiIter_shape {d0 d1 : Nat} {it : List (List V)} {a : MArrD2 V}
    (h : MArrD2.fromMultiIter d0 d1 it = some a) : Shape2 d0 d1 a.toU ∧ a.toU = it := by
  unfold MArrD2.fromMultiIter at h
  cases hm : mapPanic (MArrD1.fromIter d1) it with
  | none => simp [hm] at h
  | some rows =>
    simp only [hm] at h
    cases hn : MArrD1.fromIter d0 rows with
    | none => simp [hn] at h
    | some i =>
      simp [hn] at h; subst h
      obtain ⟨h1, h2⟩ := L1.new_shape hn
      have hf := mapPanic_spec _ it rows hm
      have hr : ∀ r ∈ rows, Shape1 d1 r.toU :=
        forall₂_right (fun l r (hlr : MArrD1.fromIter d1 l = some r) => (L1.new_shape hlr).1) hf
      have he : rows.map MArrD1.toU = it.map id :=
        forall₂_map_eq (fun l r (hlr : MArrD1.fromIter d1 l = some r) => (L1.new_shape hlr).2) hf
      show Shape2 d0 d1 (i.inner.map MArrD1.toU) ∧ i.inner.map MArrD1.toU = it
      rw [h2, he, List.map_id]
      refine ⟨?_, rfl⟩
      rw [← List.map_id it, ← he]
      exact shape2_of_rows ⟨by rw [← h2]; exact h1, hr⟩

theorem L3.fromMultiIter_shape {d0 d1 d2 : Nat} {it : List (List (List V))} {a : MArrD3 V}
    (h : MArrD3.fromMultiIter d0 d1 d2 it = some a) : Shape3 d0 d1 d2 a.toU ∧ a.toU = it := by
  unfold MArrD3.fromMultiIter at h
  cases hm : mapPanic (MArrD2.fromMultiIter d1 d2) it with
  | none => simp [hm] at h
  | some ps =>
    simp only [hm] at h
    cases hn : MArrD1.fromIter d0 ps with
    | none => simp [hn] at h
    | some i =>
      simp [hn] at h; subst h
      obtain ⟨h1, h2⟩ := L1.new_shape hn
      have hf := mapPanic_spec _ it ps hm
      have hr : ∀ p ∈ ps, Shape2 d1 d2 p.toU :=
        forall₂_right (fun l p (hlp : MArrD2.fromMultiIter d1 d2 l = some p) =>
          (L2.fromMultiIter_shape hlp).1) hf
      have he : ps.map MArrD2.toU = it.map id :=
        forall₂_map_eq (fun l p (hlp : MArrD2.fromMultiIter d1 d2 l = some p) =>
          (L2.fromMultiIter_shape hlp).2) hf
      show Shape3 d0 d1 d2 (i.inner.map MArrD2.toU) ∧ i.inner.map MArrD2.toU = it
      rw [h2, he, List.map_id]
      refine ⟨?_, rfl⟩
      rw [← List.map_id it, ← he]
      exact shape3_of_planes ⟨by rw [← h2]; exact h1, hr⟩

/-! ### sub-arrays -/

theorem L2.down_ok {d0 d1 : Nat} {a : MArrD2 V} (h : Shape2 d0 d1 a.toU) (i : Nat) (hi : i < d0) :
    ∃ r, a.down i = some r ∧ Shape1 d1 r.toU ∧ flat1 r.toU = ((flat2 a.toU).drop (i * d1)).take d1 := by
  have hil : i < a.inner.inner.length := by have := h.1; simp [MArrD2.toU] at this; omega
  refine ⟨a.inner.inner[i], by simp [MArrD2.down, MArrD1.index, List.getElem?_eq_getElem hil],
    h.2 _ (List.mem_map_of_mem (List.getElem_mem hil)), ?_⟩
  exact (flatten_slice d1 a.toU h.2 i (a.inner.inner[i].toU)
    (by simp [MArrD2.toU, List.getElem?_eq_getElem hil])).symm

theorem L2.down_oob {d0 d1 : Nat} {a : MArrD2 V} (h : Shape2 d0 d1 a.toU) (i : Nat) (hi : ¬ i < d0)
    (sub : MArrD1 V) : a.down i = none ∧ a.downMutSet i sub = none := by
  have hl : a.inner.inner.length = d0 := by have := h.1; simpa [MArrD2.toU] using this
  simp [MArrD2.down, MArrD2.downMutSet, MArrD1.index, MArrD1.indexMut, hl, hi]

theorem L3.down_ok {d0 d1 d2 : Nat} {a : MArrD3 V} (h : Shape3 d0 d1 d2 a.toU) (i : Nat) (hi : i < d0) :
    ∃ p, a.down i = some p ∧ Shape2 d1 d2 p.toU ∧
      flat2 p.toU = ((flat3 a.toU).drop (i * (d1 * d2))).take (d1 * d2) := by
  have hil : i < a.inner.inner.length := by have := h.1; simp [MArrD3.toU] at this; omega
  have hp : Shape2 d1 d2 a.inner.inner[i].toU := h.2 _ (List.mem_map_of_mem (List.getElem_mem hil))
  refine ⟨a.inner.inner[i], by simp [MArrD3.down, MArrD1.index, List.getElem?_eq_getElem hil], hp, ?_⟩
  have hu : ∀ r ∈ a.toU.map List.flatten, r.length = d1 * d2 := by
    intro r hr
    obtain ⟨p, hp, rfl⟩ := List.mem_map.mp hr
    exact flat2_length (h.2 p hp)
  exact (flatten_slice (d1 * d2) (a.toU.map List.flatten) hu i _
    (by simp [MArrD3.toU, List.getElem?_eq_getElem hil, flat2])).symm

theorem L3.down_oob {d0 d1 d2 : Nat} {a : MArrD3 V} (h : Shape3 d0 d1 d2 a.toU) (i : Nat) (hi : ¬ i < d0)
    (sub : MArrD2 V) : a.down i = none ∧ a.downMutSet i sub = none := by
  have hl : a.inner.inner.length = d0 := by have := h.1; simpa [MArrD3.toU] using this
  simp [MArrD3.down, MArrD3.downMutSet, MArrD1.index, MArrD1.indexMut, hl, hi]

/-- `*a.down_mut(i) = sub`: replaces exactly the slice of the sub-array -/
theorem L2.downMutSet_ok {d0 d1 : Nat} {a : MArrD2 V} (h : Shape2 d0 d1 a.toU) (i : Nat) (hi : i < d0)
    (sub : MArrD1 V) (hs : Shape1 d1 sub.toU) :
    ∃ a', a.downMutSet i sub = some a' ∧ Shape2 d0 d1 a'.toU ∧
      flat2 a'.toU = (flat2 a.toU).take (i * d1) ++ flat1 sub.toU ++ (flat2 a.toU).drop ((i + 1) * d1) := by
  have hil : i < a.inner.inner.length := by have := h.1; simp [MArrD2.toU] at this; omega
  refine ⟨⟨⟨a.inner.inner.set i sub⟩⟩, by simp [MArrD2.downMutSet, MArrD1.indexMut, hil], ?_, ?_⟩
  · show Shape2 d0 d1 ((a.inner.inner.set i sub).map MArrD1.toU)
    rw [List.map_set]; exact h.set_row i _ hs
  · show flat2 ((a.inner.inner.set i sub).map MArrD1.toU) = _
    rw [List.map_set]
    exact flatten_set_row d1 a.toU h.2 i sub.toU (by rw [h.1]; exact hi)

theorem L3.downMutSet_ok {d0 d1 d2 : Nat} {a : MArrD3 V} (h : Shape3 d0 d1 d2 a.toU) (i : Nat) (hi : i < d0)
    (sub : MArrD2 V) (hs : Shape2 d1 d2 sub.toU) :
    ∃ a', a.downMutSet i sub = some a' ∧ Shape3 d0 d1 d2 a'.toU ∧
      flat3 a'.toU = (flat3 a.toU).take (i * (d1 * d2)) ++ flat2 sub.toU ++
        (flat3 a.toU).drop ((i + 1) * (d1 * d2)) := by
  have hil : i < a.inner.inner.length := by have := h.1; simp [MArrD3.toU] at this; omega
  refine ⟨⟨⟨a.inner.inner.set i sub⟩⟩, by simp [MArrD3.downMutSet, MArrD1.indexMut, hil], ?_, ?_⟩
  · show Shape3 d0 d1 d2 ((a.inner.inner.set i sub).map MArrD2.toU)
    rw [List.map_set]
    refine ⟨by simpa [MArrD3.toU] using h.1, fun x hx => ?_⟩
    rcases List.mem_or_eq_of_mem_set hx with hx | hx
    · exact h.2 x hx
    · rw [hx]; exact hs
  · show flat3 ((a.inner.inner.set i sub).map MArrD2.toU) = _
    have hu : ∀ r ∈ a.toU.map List.flatten, r.length = d1 * d2 := by
      intro r hr
      obtain ⟨p, hp, rfl⟩ := List.mem_map.mp hr
      exact flat2_length (h.2 p hp)
    have := flatten_set_row (d1 * d2) (a.toU.map List.flatten) hu i (flat2 sub.toU)
      (by simp; rw [h.1]; exact hi)
    simp only [flat3, List.map_set] at this ⊢
    exact this

end SLV.MArr
