/-
  Helper lemmas for C06 (products of opinions on independent variables, `product2Raw` /
  `product3Raw` and their wrappers): index bookkeeping for the row-major flattening (`idx2`, `idx3`),
  the abstract "cell" lemma (rational tables `P A B` over `Fin N` with `0 ≤ B ≤ P`, `A ≥ 0`,
  `Σ A = 1`, `Σ P = 1`: the raw product is `(P - A û, û, A)` with `û` the least `(P - B)/A` over
  cells with `A > 0`; the model filters the cells with `A > 0` before the `min` reduction) and its
  two instances.  Since repair abca806 the code evaluates the candidate of a cell as
  `u0 (r1 + u1) + r0 u1` (three factors: `u0 (r1 + u1)(r2 + u2) + r0 (u1 (r2 + u2) + r1 u2)`), `r = b / a`;
  the lifting lemmas `prodCand2_lift` / `prodCand3_lift` show that on every cell with a positive joint base
  rate this IS `(P - B)/A` (no well-formedness needed, only `a0 i ≠ 0`, `a1 j ≠ 0`), so the abstract cell
  lemma is stated for an arbitrary candidate function that agrees with `(P - B)/A` on those cells.
  Since repair b817f74 every joint mass `P - A û` is clamped at zero; under `Cell` it is `≥ B ≥ 0` (`bJ_nonneg`;
  the filter is the exact test `A > 0`, no guard band is involved), so the clamp is the identity in `rawOf_lift`.
  No property statements here.
-/
import SLV.Refine.Lift
import SLV.Refine.MinLemmas
import SLV.Refine.ClampLemmas
import SLV.Refine.C01Lemmas
import SLV.Model.Prod
import SLV.Props.C09
import Mathlib.Data.Finset.Max
import Mathlib.Data.Finset.Image
import Mathlib.Algebra.Order.Field.Basic
import Mathlib.Logic.Equiv.Fin.Basic
import Mathlib.Data.Fintype.BigOperators

namespace SLV.C06
open SLV Scalar SLV.Props.C09

variable {f : Fmt}

/-! ### row-major index bookkeeping -/

/-- the flat index of cell `(i, j)` of an `n0 × n1` table: `i * n1 + j` -/
def flat2 {n0 n1 : Nat} (i : Fin n0) (j : Fin n1) : Fin (n0 * n1) := finProdFinEquiv (i, j)

theorem flat2_val {n0 n1 : Nat} (i : Fin n0) (j : Fin n1) :
    (flat2 i j).val = i.val * n1 + j.val := by
  show j.val + n1 * i.val = _
  rw [Nat.mul_comm, Nat.add_comm]

theorem idx2_eq_symm {n0 n1 : Nat} (k : Fin (n0 * n1)) : idx2 k = finProdFinEquiv.symm k := rfl

@[simp] theorem idx2_flat2 {n0 n1 : Nat} (i : Fin n0) (j : Fin n1) : idx2 (flat2 i j) = (i, j) := by
  rw [idx2_eq_symm, flat2, Equiv.symm_apply_apply]

@[simp] theorem flat2_idx2 {n0 n1 : Nat} (k : Fin (n0 * n1)) : flat2 (idx2 k).1 (idx2 k).2 = k := by
  rw [idx2_eq_symm, flat2, Prod.mk.eta, Equiv.apply_symm_apply]

/-- the flat index of cell `(i, j, l)` of an `n0 × n1 × n2` table: `(i * n1 + j) * n2 + l` -/
def flat3 {n0 n1 n2 : Nat} (i : Fin n0) (j : Fin n1) (l : Fin n2) : Fin (n0 * n1 * n2) :=
  flat2 (flat2 i j) l

theorem flat3_val {n0 n1 n2 : Nat} (i : Fin n0) (j : Fin n1) (l : Fin n2) :
    (flat3 i j l).val = (i.val * n1 + j.val) * n2 + l.val := by
  unfold flat3
  rw [flat2_val, flat2_val]

@[simp] theorem idx3_flat3 {n0 n1 n2 : Nat} (i : Fin n0) (j : Fin n1) (l : Fin n2) :
    idx3 (flat3 i j l) = (i, j, l) := by
  unfold idx3 flat3
  simp

@[simp] theorem flat3_idx3 {n0 n1 n2 : Nat} (k : Fin (n0 * n1 * n2)) :
    flat3 (idx3 k).1 (idx3 k).2.1 (idx3 k).2.2 = k := by
  unfold idx3 flat3
  simp

/-- a sum over the flattened joint domain is the double sum -/
theorem sum_idx2 {n0 n1 : Nat} (g : Fin n0 → Fin n1 → ℚ) :
    ∑ k : Fin (n0 * n1), g (idx2 k).1 (idx2 k).2 = ∑ i, ∑ j, g i j := by
  have e : ∀ k : Fin (n0 * n1), g (idx2 k).1 (idx2 k).2
      = (fun p : Fin n0 × Fin n1 => g p.1 p.2) (finProdFinEquiv.symm k) := fun k => rfl
  simp only [e]
  rw [Equiv.sum_comp finProdFinEquiv.symm (fun p : Fin n0 × Fin n1 => g p.1 p.2)]
  exact Fintype.sum_prod_type' g

theorem sum_idx3 {n0 n1 n2 : Nat} (g : Fin n0 → Fin n1 → Fin n2 → ℚ) :
    ∑ k : Fin (n0 * n1 * n2), g (idx3 k).1 (idx3 k).2.1 (idx3 k).2.2 = ∑ i, ∑ j, ∑ l, g i j l := by
  have s1 := sum_idx2 (n0 := n0 * n1) (n1 := n2) (fun m l => g (idx2 m).1 (idx2 m).2 l)
  refine Eq.trans s1 ?_
  rw [Finset.sum_comm]
  have e2 : ∀ l : Fin n2, ∑ m : Fin (n0 * n1), g (idx2 m).1 (idx2 m).2 l = ∑ i, ∑ j, g i j l :=
    fun l => sum_idx2 (fun i j => g i j l)
  simp only [e2]
  rw [Finset.sum_comm]
  apply Finset.sum_congr rfl
  intro i _
  rw [Finset.sum_comm]

/-- product of sums, over the flattened joint domain -/
theorem sum_outer2 {n0 n1 : Nat} (g0 : Fin n0 → ℚ) (g1 : Fin n1 → ℚ) :
    ∑ k : Fin (n0 * n1), g0 (idx2 k).1 * g1 (idx2 k).2 = (∑ i, g0 i) * ∑ j, g1 j := by
  rw [sum_idx2 (fun i j => g0 i * g1 j), Finset.sum_mul_sum]

theorem sum_outer3 {n0 n1 n2 : Nat} (g0 : Fin n0 → ℚ) (g1 : Fin n1 → ℚ) (g2 : Fin n2 → ℚ) :
    ∑ k : Fin (n0 * n1 * n2), g0 (idx3 k).1 * g1 (idx3 k).2.1 * g2 (idx3 k).2.2
      = (∑ i, g0 i) * (∑ j, g1 j) * ∑ l, g2 l := by
  rw [sum_idx3 (fun i j l => g0 i * g1 j * g2 l)]
  simp only [← Finset.mul_sum, ← Finset.sum_mul]

/-! ### the abstract cell data -/

section cell
variable {N : Nat}

/-- hypotheses on the cell-indexed rational tables: `P` joint projected probability, `A` joint base
    rate, `B` product of the factors' belief masses -/
structure Cell (P A B : Fin N → ℚ) : Prop where
  hB : ∀ k, 0 ≤ B k
  hBP : ∀ k, B k ≤ P k
  hA : ∀ k, 0 ≤ A k
  sA : ∑ k, A k = 1
  sP : ∑ k, P k = 1

/-- the cells with a positive base rate -/
def supp (A : Fin N → ℚ) : Finset (Fin N) := Finset.univ.filter fun k => 0 < A k

/-- candidate uncertainty contributed by cell `k` -/
def ucand (P A B : Fin N → ℚ) (k : Fin N) : ℚ := (P k - B k) / A k

/-- joint uncertainty: the least candidate over cells with positive base rate -/
def uhat (P A B : Fin N → ℚ) : ℚ :=
  if h : (supp A).Nonempty then ((supp A).image (ucand P A B)).min' (h.image _) else 0

/-- joint belief mass -/
def bJ (P A B : Fin N → ℚ) (k : Fin N) : ℚ := P k - A k * uhat P A B

variable {P A B : Fin N → ℚ}

theorem supp_nonempty (h : Cell P A B) : (supp A).Nonempty := by
  by_contra hne
  rw [Finset.not_nonempty_iff_eq_empty] at hne
  have : ∑ k, A k = 0 := by
    apply Finset.sum_eq_zero
    intro k _
    have hk : k ∉ supp A := by rw [hne]; exact Finset.notMem_empty k
    unfold supp at hk
    simp only [Finset.mem_filter, Finset.mem_univ, true_and, not_lt] at hk
    exact le_antisymm hk (h.hA k)
  rw [h.sA] at this
  exact one_ne_zero this

theorem uhat_spec (h : Cell P A B) :
    (∀ k, 0 < A k → uhat P A B ≤ ucand P A B k) ∧ ∃ k, 0 < A k ∧ uhat P A B = ucand P A B k := by
  have hne := supp_nonempty h
  unfold uhat
  rw [dif_pos hne]
  constructor
  · intro k hk
    apply Finset.min'_le
    apply Finset.mem_image_of_mem
    simp [supp, hk]
  · have := Finset.min'_mem ((supp A).image (ucand P A B)) (hne.image _)
    obtain ⟨k, hk, e⟩ := Finset.mem_image.mp this
    refine ⟨k, ?_, e.symm⟩
    simpa [supp] using hk

theorem uhat_unique (h : Cell P A B) (q : ℚ)
    (h1 : ∀ k, 0 < A k → q ≤ ucand P A B k) (h2 : ∃ k, 0 < A k ∧ q = ucand P A B k) :
    q = uhat P A B := by
  obtain ⟨s1, k1, p1, s2⟩ := uhat_spec h
  obtain ⟨k2, p2, e2⟩ := h2
  apply le_antisymm
  · rw [s2]; exact h1 k1 p1
  · rw [e2]; exact s1 k2 p2

/-- two cell tables related by index maps in both directions have the same joint uncertainty -/
theorem uhat_congr {N' : Nat} {P' A' B' : Fin N' → ℚ} (h : Cell P A B) (h' : Cell P' A' B')
    (σ : Fin N → Fin N') (τ : Fin N' → Fin N)
    (hσ : ∀ k, P' (σ k) = P k ∧ A' (σ k) = A k ∧ B' (σ k) = B k)
    (hτ : ∀ k, P (τ k) = P' k ∧ A (τ k) = A' k ∧ B (τ k) = B' k) :
    uhat P' A' B' = uhat P A B := by
  obtain ⟨s1, k1, p1, s2⟩ := uhat_spec h'
  apply uhat_unique h
  · intro k hk
    obtain ⟨e1, e2, e3⟩ := hσ k
    have := s1 (σ k) (by rw [e2]; exact hk)
    unfold ucand at this ⊢
    rw [e1, e2, e3] at this
    exact this
  · obtain ⟨e1, e2, e3⟩ := hτ k1
    refine ⟨τ k1, by rw [e2]; exact p1, ?_⟩
    rw [s2]; unfold ucand
    rw [e1, e2, e3]

theorem Cell.Npos (h : Cell P A B) : 0 < N := by
  obtain ⟨k, _⟩ := supp_nonempty h
  exact k.pos

/-- every joint belief mass is at least the product of the factors' belief masses -/
theorem bJ_ge (h : Cell P A B) (k : Fin N) : B k ≤ bJ P A B k := by
  unfold bJ
  rcases lt_or_eq_of_le (h.hA k) with hpos | hz
  · have := (uhat_spec h).1 k hpos
    unfold ucand at this
    rw [le_div_iff₀ hpos] at this
    linarith
  · rw [← hz, zero_mul, sub_zero]
    exact h.hBP k

theorem bJ_nonneg (h : Cell P A B) (k : Fin N) : 0 ≤ bJ P A B k :=
  le_trans (h.hB k) (bJ_ge h k)

theorem uhat_nonneg (h : Cell P A B) : 0 ≤ uhat P A B := by
  obtain ⟨k, hk, e⟩ := (uhat_spec h).2
  rw [e]
  unfold ucand
  apply div_nonneg _ (le_of_lt hk)
  linarith [h.hBP k]

theorem uhat_le_one (h : Cell P A B) : uhat P A B ≤ 1 := by
  have h1 : ∑ k, A k * uhat P A B ≤ ∑ k, P k := by
    apply Finset.sum_le_sum
    intro k _
    have := bJ_ge h k
    unfold bJ at this
    linarith [h.hB k]
  rw [← Finset.sum_mul, h.sA, one_mul, h.sP] at h1
  exact h1

theorem sum_bJ (h : Cell P A B) : ∑ k, bJ P A B k + uhat P A B = 1 := by
  unfold bJ
  rw [Finset.sum_sub_distrib, h.sP, ← Finset.sum_mul, h.sA]; ring

theorem Cell.wf (h : Cell P A B) : WF (bJ P A B) (uhat P A B) A :=
  ⟨bJ_nonneg h, uhat_nonneg h, sum_bJ h, h.hA, h.sA⟩

/-- maximality: a larger uncertainty (same projection) pushes some joint mass below `B` -/
theorem max_u (h : Cell P A B) (u' : ℚ) (hu : uhat P A B < u') : ∃ k, P k - A k * u' < B k := by
  obtain ⟨k, hk, e⟩ := (uhat_spec h).2
  refine ⟨k, ?_⟩
  have e' : A k * uhat P A B = P k - B k := by
    rw [e]; unfold ucand; field_simp
  have := mul_lt_mul_of_pos_left hu hk
  linarith

/-- all numerators zero (`P = B`): the joint uncertainty is 0 -/
theorem uhat_eq_zero (h : Cell P A B) (hPB : ∀ k, P k = B k) : uhat P A B = 0 := by
  obtain ⟨k, _, e⟩ := (uhat_spec h).2
  rw [e]; unfold ucand; rw [hPB k, sub_self, zero_div]

/-- `P = A`, `B = 0`: the joint uncertainty is 1 -/
theorem uhat_eq_one (h : Cell P A B) (hPA : ∀ k, P k = A k) (hB0 : ∀ k, B k = 0) :
    uhat P A B = 1 := by
  obtain ⟨k, hk, e⟩ := (uhat_spec h).2
  rw [e]; unfold ucand; rw [hPA k, hB0 k, sub_zero, div_self (ne_of_gt hk)]

/-! ### the raw product on lifted cell tables -/

/-- the computation shared by `product2Raw` and `product3Raw` once the cell tables are built: the joint
    uncertainty is `reduce(min)` of the candidates `c k` over the cells with base rate `> 0` only -/
def rawOf {α : Type} [Scalar α] (p a : Tab α N) (c : Fin N → α) : Opinion α N :=
  let u := Tab.reduceL Scalar.min
    (((List.finRange N).filter fun k => Scalar.gt a[k] Scalar.zero).map c)
    (Tab.nanOf α)
  let b : Tab α N := Vector.ofFn fun k =>
    let b := p[k] - a[k] * u
    if Scalar.lt b Scalar.zero then Scalar.zero else b
  ⟨b, u, a⟩

/-- the candidate entry of a cell with `A > 0` is finite -/
theorem cand_entry (k : Fin N) (hpos : 0 < A k) :
    (XQ.fin (P k) - XQ.fin (B k)) / (XQ.fin (A k) : XQ f) = XQ.fin (ucand P A B k) := by
  rw [XQ.sub_fin, XQ.div_fin _ _ (ne_of_gt hpos)]; rfl

/-- the filter keeps exactly the cells with a positive base rate; a zero-base-rate cell is skipped -/
theorem mem_cells_iff (A : Fin N → ℚ) (k : Fin N) :
    k ∈ ((List.finRange N).filter fun k => Scalar.gt (liftT A : Tab (XQ f) N)[k] Scalar.zero)
      ↔ 0 < A k := by
  rw [List.mem_filter, liftT_getElem]
  have : Scalar.gt (XQ.fin (A k) : XQ f) Scalar.zero = decide (0 < A k) := rfl
  rw [this, decide_eq_true_eq]
  exact ⟨fun h => h.2, fun h => ⟨List.mem_finRange k, h⟩⟩

/-- `reduce(min)` over a non-empty list of finite entries (the `unwrap_or` default is not used):
    the result is the least entry -/
theorem reduceL_min_fin_spec {ι : Type} (l : List ι) (g : ι → ℚ) (hne : l ≠ []) (d : XQ f) :
    ∃ m, Tab.reduceL Scalar.min (l.map fun k => (XQ.fin (g k) : XQ f)) d = XQ.fin m ∧
      (∀ k ∈ l, m ≤ g k) ∧ ∃ k ∈ l, m = g k := by
  cases l with
  | nil => exact absurd rfl hne
  | cons x xs =>
    show ∃ m, (xs.map fun k => (XQ.fin (g k) : XQ f)).foldl Scalar.min (XQ.fin (g x)) = XQ.fin m ∧ _
    obtain ⟨_, r2, r3, r4⟩ := foldl_min_skip (xs.map fun k => (XQ.fin (g k) : XQ f))
      (by
        intro y hy
        obtain ⟨k, _, rfl⟩ := List.mem_map.mp hy
        exact Skippable.fin _)
      (XQ.fin (g x)) (Skippable.fin _)
    obtain ⟨m, hm, hle⟩ := r2 (g x) rfl
    refine ⟨m, hm, ?_, ?_⟩
    · intro k hk
      rcases List.mem_cons.mp hk with e | e
      · rw [e]; exact hle
      · obtain ⟨m', hm', hle'⟩ := r3 (g k) (List.mem_map.mpr ⟨k, e, rfl⟩)
        rw [hm] at hm'; cases hm'; exact hle'
    · rcases r4 m hm with e | e
      · cases e; exact ⟨x, by simp, rfl⟩
      · obtain ⟨k, hk, e'⟩ := List.mem_map.mp e
        cases e'
        exact ⟨k, by simp [hk], rfl⟩

/-- `c` is any candidate function that, on the cells with a positive base rate, evaluates to `(P - B)/A`
    (the cancelling form of the code before repair abca806: `cand_entry`; the expanded form of the current
    code: `prodCand2_lift`, `prodCand3_lift`); the other cells are filtered out before `c` is looked at -/
theorem reduceL_cell (h : Cell P A B) (c : Fin N → XQ f)
    (hc : ∀ k, 0 < A k → c k = XQ.fin (ucand P A B k)) :
    Tab.reduceL Scalar.min
        (((List.finRange N).filter fun k => Scalar.gt (liftT A : Tab (XQ f) N)[k] Scalar.zero).map c)
        (Tab.nanOf (XQ f))
      = XQ.fin (uhat P A B) := by
  set L := (List.finRange N).filter fun k => Scalar.gt (liftT A : Tab (XQ f) N)[k] Scalar.zero
    with hL
  have hmem : ∀ k, k ∈ L ↔ 0 < A k := mem_cells_iff A
  have hmap : (L.map c) = L.map fun k => (XQ.fin (ucand P A B k) : XQ f) := by
    apply List.map_congr_left
    intro k hk
    exact hc k ((hmem k).1 hk)
  obtain ⟨k0, hk0, _⟩ := (uhat_spec h).2
  have hne : L ≠ [] := List.ne_nil_of_mem ((hmem k0).2 hk0)
  obtain ⟨m, r1, r2, k1, hk1, r3⟩ :=
    reduceL_min_fin_spec (f := f) L (ucand P A B) hne (Tab.nanOf (XQ f))
  rw [hmap, r1]
  congr 1
  apply uhat_unique h
  · intro k hk; exact r2 k ((hmem k).2 hk)
  · exact ⟨k1, (hmem k1).1 hk1, r3⟩

/-- the abstract cell lemma -/
theorem rawOf_lift (h : Cell P A B) (c : Fin N → XQ f)
    (hc : ∀ k, 0 < A k → c k = XQ.fin (ucand P A B k)) :
    rawOf (liftT P : Tab (XQ f) N) (liftT A) c
      = ⟨liftT (bJ P A B), XQ.fin (uhat P A B), liftT A⟩ := by
  unfold rawOf
  have e := reduceL_cell (f := f) h c hc
  simp only [liftT_getElem] at e ⊢
  rw [e]
  simp only [XQ.mul_fin, XQ.sub_fin]
  -- every un-clamped joint mass is `bJ k ≥ 0` (`bJ_nonneg`): the clamp of repair b817f74 is the identity here
  have hcl : ∀ k : Fin N, (if Scalar.lt (XQ.fin (P k - A k * uhat P A B) : XQ f) Scalar.zero then Scalar.zero
      else XQ.fin (P k - A k * uhat P A B)) = (XQ.fin (bJ P A B k) : XQ f) :=
    fun k => XQ.clamp_fin_nonneg _ (bJ_nonneg h k)
  simp only [hcl]
  rfl

/-- the shared computation as it was before repair b817f74 (`Pinned.product2NoClamp` / `product3NoClamp`): the joint
    masses `p - a * u` are not clamped -/
def rawOfNoClamp {α : Type} [Scalar α] (p a : Tab α N) (c : Fin N → α) : Opinion α N :=
  let u := Tab.reduceL Scalar.min
    (((List.finRange N).filter fun k => Scalar.gt a[k] Scalar.zero).map c)
    (Tab.nanOf α)
  let b : Tab α N := Vector.ofFn fun k => p[k] - a[k] * u
  ⟨b, u, a⟩

/-- the abstract cell lemma for the un-clamped text: the same closed form -/
theorem rawOfNoClamp_lift (h : Cell P A B) (c : Fin N → XQ f)
    (hc : ∀ k, 0 < A k → c k = XQ.fin (ucand P A B k)) :
    rawOfNoClamp (liftT P : Tab (XQ f) N) (liftT A) c
      = ⟨liftT (bJ P A B), XQ.fin (uhat P A B), liftT A⟩ := by
  unfold rawOfNoClamp
  have e := reduceL_cell (f := f) h c hc
  simp only [liftT_getElem] at e ⊢
  rw [e]
  simp only [XQ.mul_fin, XQ.sub_fin]
  rfl

/-- under `Cell` the clamp of repair b817f74 is idle -/
theorem rawOf_eq_noClamp (h : Cell P A B) (c : Fin N → XQ f)
    (hc : ∀ k, 0 < A k → c k = XQ.fin (ucand P A B k)) :
    rawOf (liftT P : Tab (XQ f) N) (liftT A) c = rawOfNoClamp (liftT P) (liftT A) c := by
  rw [rawOf_lift h c hc, rawOfNoClamp_lift h c hc]

/-- every joint mass of the shared computation is a clamped value: it never compares below zero, whatever the
    tables and candidates (no well-formedness; `±∞` and NaN included) -/
theorem rawOf_b_notNeg (p a : Tab (XQ f) N) (c : Fin N → XQ f) (k : Fin N) :
    XQ.NotNeg (rawOf p a c).b[k] := by
  unfold rawOf
  simp only [Fin.getElem_fin, Vector.getElem_ofFn]
  exact XQ.notNeg_clamp _

/-- without any well-formedness: if some cell has a positive base rate and the candidates of those cells are
    finite, the uncertainty of the raw product is the least of them -/
theorem rawOf_u_gen (p : Tab (XQ f) N) (A : Fin N → ℚ) (c : Fin N → XQ f) (g : Fin N → ℚ)
    (hc : ∀ k, 0 < A k → c k = XQ.fin (g k)) (hne : ∃ k, 0 < A k) :
    ∃ m : ℚ, (rawOf p (liftT A) c).u = XQ.fin m ∧ (∀ k, 0 < A k → m ≤ g k) ∧ ∃ k, 0 < A k ∧ m = g k := by
  show ∃ m : ℚ, Tab.reduceL Scalar.min
      (((List.finRange N).filter fun k => Scalar.gt (liftT A : Tab (XQ f) N)[k] Scalar.zero).map c)
      (Tab.nanOf (XQ f)) = XQ.fin m ∧ _
  set L := (List.finRange N).filter fun k => Scalar.gt (liftT A : Tab (XQ f) N)[k] Scalar.zero
    with hL
  have hmem : ∀ k, k ∈ L ↔ 0 < A k := mem_cells_iff A
  have hmap : (L.map c) = L.map fun k => (XQ.fin (g k) : XQ f) := by
    apply List.map_congr_left
    intro k hk
    exact hc k ((hmem k).1 hk)
  obtain ⟨k0, hk0⟩ := hne
  have hneL : L ≠ [] := List.ne_nil_of_mem ((hmem k0).2 hk0)
  obtain ⟨m, r1, r2, k1, hk1, r3⟩ := reduceL_min_fin_spec (f := f) L g hneL (Tab.nanOf (XQ f))
  refine ⟨m, ?_, fun k hk => r2 k ((hmem k).2 hk), k1, (hmem k1).1 hk1, r3⟩
  rw [hmap, r1]

/-- renormalising a base rate whose sum is exactly 1 changes nothing -/
theorem normalize_id (h : Cell P A B) :
    normalizeProbDist (liftT A : Tab (XQ f) N) = liftT A := by
  unfold normalizeProbDist
  simp only [sumLoop_liftT, h.sA]
  rw [liftT_map _ _ (fun q => q) (by intro q; simp)]

end cell

/-! ### two factors -/

section two
variable {n0 n1 : Nat}

theorem outer2_lift (g0 : Fin n0 → ℚ) (g1 : Fin n1 → ℚ) :
    outer2 (liftT g0 : Tab (XQ f) n0) (liftT g1)
      = liftT (fun k : Fin (n0 * n1) => g0 (idx2 k).1 * g1 (idx2 k).2) := by
  apply Vector.ext; intro i hi
  simp [outer2, liftT]

variable (b0 : Fin n0 → ℚ) (u0 : ℚ) (a0 : Fin n0 → ℚ) (b1 : Fin n1 → ℚ) (u1 : ℚ) (a1 : Fin n1 → ℚ)

/-- joint projected probability `P(i,j) = P0 i * P1 j` -/
def P2 (k : Fin (n0 * n1)) : ℚ :=
  (b0 (idx2 k).1 + a0 (idx2 k).1 * u0) * (b1 (idx2 k).2 + a1 (idx2 k).2 * u1)

/-- joint base rate `A(i,j) = a0 i * a1 j` -/
def A2 (k : Fin (n0 * n1)) : ℚ := a0 (idx2 k).1 * a1 (idx2 k).2

/-- product of the factors' belief masses `B(i,j) = b0 i * b1 j` -/
def B2 (k : Fin (n0 * n1)) : ℚ := b0 (idx2 k).1 * b1 (idx2 k).2

/-- joint uncertainty of the product of two opinions -/
def uhat2 : ℚ := uhat (P2 b0 u0 a0 b1 u1 a1) (A2 a0 a1) (B2 b0 b1)

/-- joint belief masses of the product of two opinions -/
def bJ2 (k : Fin (n0 * n1)) : ℚ := bJ (P2 b0 u0 a0 b1 u1 a1) (A2 a0 a1) (B2 b0 b1) k

variable {b0 u0 a0 b1 u1 a1}

theorem cell2 (h0 : WF b0 u0 a0) (h1 : WF b1 u1 a1) :
    Cell (P2 b0 u0 a0 b1 u1 a1) (A2 a0 a1) (B2 b0 b1) := by
  refine ⟨?_, ?_, ?_, ?_, ?_⟩
  · intro k; exact mul_nonneg (h0.hb _) (h1.hb _)
  · intro k
    unfold B2 P2
    have e0 := mul_nonneg (h0.ha0 (idx2 k).1) h0.hu
    have e1 := mul_nonneg (h1.ha0 (idx2 k).2) h1.hu
    apply mul_le_mul (by linarith) (by linarith) (h1.hb _)
    linarith [h0.hb (idx2 k).1]
  · intro k; exact mul_nonneg (h0.ha0 _) (h1.ha0 _)
  · unfold A2; rw [sum_outer2, h0.ha, h1.ha, one_mul]
  · unfold P2
    rw [sum_outer2 (fun i => b0 i + a0 i * u0) (fun j => b1 j + a1 j * u1), sum_proj h0,
      sum_proj h1, one_mul]

/-- rational value of the expanded candidate of cell `k = (i, j)`: `u0 (b1 j / a1 j + u1) + b0 i / a0 i * u1` -/
def cand2 (b0 : Fin n0 → ℚ) (u0 : ℚ) (a0 : Fin n0 → ℚ) (b1 : Fin n1 → ℚ) (u1 : ℚ) (a1 : Fin n1 → ℚ)
    (k : Fin (n0 * n1)) : ℚ :=
  u0 * (b1 (idx2 k).2 / a1 (idx2 k).2 + u1) + b0 (idx2 k).1 / a0 (idx2 k).1 * u1

/-- every term of the expanded candidate is non-negative as soon as the entries are (no sum condition) -/
theorem cand2_nonneg (b0 : Fin n0 → ℚ) (u0 : ℚ) (a0 : Fin n0 → ℚ) (b1 : Fin n1 → ℚ) (u1 : ℚ)
    (a1 : Fin n1 → ℚ) (hb0 : ∀ i, 0 ≤ b0 i) (hu0 : 0 ≤ u0) (ha0 : ∀ i, 0 ≤ a0 i)
    (hb1 : ∀ j, 0 ≤ b1 j) (hu1 : 0 ≤ u1) (ha1 : ∀ j, 0 ≤ a1 j) (k : Fin (n0 * n1)) :
    0 ≤ cand2 b0 u0 a0 b1 u1 a1 k := by
  unfold cand2
  have r0 := div_nonneg (hb0 (idx2 k).1) (ha0 (idx2 k).1)
  have r1 := div_nonneg (hb1 (idx2 k).2) (ha1 (idx2 k).2)
  exact add_nonneg (mul_nonneg hu0 (add_nonneg r1 hu1)) (mul_nonneg r0 hu1)

/-- the model's candidate on lifted rational operands, on a cell whose joint base rate is not zero -/
theorem prodCand2_fin (b0 : Fin n0 → ℚ) (u0 : ℚ) (a0 : Fin n0 → ℚ) (b1 : Fin n1 → ℚ) (u1 : ℚ)
    (a1 : Fin n1 → ℚ) (k : Fin (n0 * n1)) (hk : A2 a0 a1 k ≠ 0) :
    prodCand2 (⟨liftT b0, XQ.fin u0, liftT a0⟩ : Opinion (XQ f) n0) ⟨liftT b1, XQ.fin u1, liftT a1⟩ (idx2 k)
      = XQ.fin (cand2 b0 u0 a0 b1 u1 a1 k) := by
  unfold A2 at hk
  have h0 : a0 (idx2 k).1 ≠ 0 := left_ne_zero_of_mul hk
  have h1 : a1 (idx2 k).2 ≠ 0 := right_ne_zero_of_mul hk
  unfold prodCand2 cand2
  simp only [liftT_getElem, XQ.div_fin _ _ h0, XQ.div_fin _ _ h1, XQ.add_fin, XQ.mul_fin]

/-- the lifting lemma of repair abca806, two factors: on a cell whose joint base rate is not zero the expanded
    candidate `u0 (r1 + u1) + r0 u1`, `r = b / a`, of the current code is the quotient `(P - B)/A` that the code
    evaluated before (with cancellation in floating point; in exact arithmetic the two coincide).  No
    well-formedness is needed: `P2` is the product of the un-normalised projections `b + a u`. -/
theorem prodCand2_lift (b0 : Fin n0 → ℚ) (u0 : ℚ) (a0 : Fin n0 → ℚ) (b1 : Fin n1 → ℚ) (u1 : ℚ)
    (a1 : Fin n1 → ℚ) (k : Fin (n0 * n1)) (hk : A2 a0 a1 k ≠ 0) :
    prodCand2 (⟨liftT b0, XQ.fin u0, liftT a0⟩ : Opinion (XQ f) n0) ⟨liftT b1, XQ.fin u1, liftT a1⟩ (idx2 k)
      = XQ.fin (ucand (P2 b0 u0 a0 b1 u1 a1) (A2 a0 a1) (B2 b0 b1) k) := by
  unfold A2 at hk
  have h0 : a0 (idx2 k).1 ≠ 0 := left_ne_zero_of_mul hk
  have h1 : a1 (idx2 k).2 ≠ 0 := right_ne_zero_of_mul hk
  unfold prodCand2
  simp only [liftT_getElem, XQ.div_fin _ _ h0, XQ.div_fin _ _ h1, XQ.add_fin, XQ.mul_fin]
  congr 1
  unfold ucand P2 A2 B2
  field_simp
  ring

theorem product2Raw_lift (h0 : WF b0 u0 a0) (h1 : WF b1 u1 a1) :
    product2Raw (⟨liftT b0, XQ.fin u0, liftT a0⟩ : Opinion (XQ f) n0) ⟨liftT b1, XQ.fin u1, liftT a1⟩
      = ⟨liftT (bJ2 b0 u0 a0 b1 u1 a1), XQ.fin (uhat2 b0 u0 a0 b1 u1 a1), liftT (A2 a0 a1)⟩ := by
  show rawOf (outer2 (SLV.projection _ _ _) (SLV.projection _ _ _)) (outer2 _ _)
    (fun k => prodCand2 _ _ (idx2 k)) = _
  rw [C09_projection h0, C09_projection h1, outer2_lift, outer2_lift]
  exact rawOf_lift (cell2 h0 h1) _ (fun k hk => prodCand2_lift b0 u0 a0 b1 u1 a1 k (ne_of_gt hk))

/-- the un-clamped text of before repair b817f74 has the same closed form on well-formed operands -/
theorem product2NoClamp_lift (h0 : WF b0 u0 a0) (h1 : WF b1 u1 a1) :
    Pinned.product2NoClamp (⟨liftT b0, XQ.fin u0, liftT a0⟩ : Opinion (XQ f) n0) ⟨liftT b1, XQ.fin u1, liftT a1⟩
      = ⟨liftT (bJ2 b0 u0 a0 b1 u1 a1), XQ.fin (uhat2 b0 u0 a0 b1 u1 a1), liftT (A2 a0 a1)⟩ := by
  show rawOfNoClamp (outer2 (SLV.projection _ _ _) (SLV.projection _ _ _)) (outer2 _ _)
    (fun k => prodCand2 _ _ (idx2 k)) = _
  rw [C09_projection h0, C09_projection h1, outer2_lift, outer2_lift]
  exact rawOfNoClamp_lift (cell2 h0 h1) _ (fun k hk => prodCand2_lift b0 u0 a0 b1 u1 a1 k (ne_of_gt hk))

end two

/-! ### three factors -/

section three
variable {n0 n1 n2 : Nat}

theorem outer3_lift (g0 : Fin n0 → ℚ) (g1 : Fin n1 → ℚ) (g2 : Fin n2 → ℚ) :
    outer3 (liftT g0 : Tab (XQ f) n0) (liftT g1) (liftT g2)
      = liftT (fun k : Fin (n0 * n1 * n2) =>
          g0 (idx3 k).1 * g1 (idx3 k).2.1 * g2 (idx3 k).2.2) := by
  apply Vector.ext; intro i hi
  simp [outer3, liftT]

variable (b0 : Fin n0 → ℚ) (u0 : ℚ) (a0 : Fin n0 → ℚ) (b1 : Fin n1 → ℚ) (u1 : ℚ) (a1 : Fin n1 → ℚ)
  (b2 : Fin n2 → ℚ) (u2 : ℚ) (a2 : Fin n2 → ℚ)

def P3 (k : Fin (n0 * n1 * n2)) : ℚ :=
  (b0 (idx3 k).1 + a0 (idx3 k).1 * u0) * (b1 (idx3 k).2.1 + a1 (idx3 k).2.1 * u1)
    * (b2 (idx3 k).2.2 + a2 (idx3 k).2.2 * u2)

def A3 (k : Fin (n0 * n1 * n2)) : ℚ := a0 (idx3 k).1 * a1 (idx3 k).2.1 * a2 (idx3 k).2.2

def B3 (k : Fin (n0 * n1 * n2)) : ℚ := b0 (idx3 k).1 * b1 (idx3 k).2.1 * b2 (idx3 k).2.2

def uhat3 : ℚ := uhat (P3 b0 u0 a0 b1 u1 a1 b2 u2 a2) (A3 a0 a1 a2) (B3 b0 b1 b2)

def bJ3 (k : Fin (n0 * n1 * n2)) : ℚ :=
  bJ (P3 b0 u0 a0 b1 u1 a1 b2 u2 a2) (A3 a0 a1 a2) (B3 b0 b1 b2) k

variable {b0 u0 a0 b1 u1 a1 b2 u2 a2}

theorem cell3 (h0 : WF b0 u0 a0) (h1 : WF b1 u1 a1) (h2 : WF b2 u2 a2) :
    Cell (P3 b0 u0 a0 b1 u1 a1 b2 u2 a2) (A3 a0 a1 a2) (B3 b0 b1 b2) := by
  refine ⟨?_, ?_, ?_, ?_, ?_⟩
  · intro k; exact mul_nonneg (mul_nonneg (h0.hb _) (h1.hb _)) (h2.hb _)
  · intro k
    unfold B3 P3
    have e0 := mul_nonneg (h0.ha0 (idx3 k).1) h0.hu
    have e1 := mul_nonneg (h1.ha0 (idx3 k).2.1) h1.hu
    have e2 := mul_nonneg (h2.ha0 (idx3 k).2.2) h2.hu
    have hb0 := h0.hb (idx3 k).1
    have hb1 := h1.hb (idx3 k).2.1
    have hb2 := h2.hb (idx3 k).2.2
    apply mul_le_mul _ (by linarith) hb2
    · exact mul_nonneg (by linarith) (by linarith)
    · apply mul_le_mul (by linarith) (by linarith) hb1
      linarith
  · intro k; exact mul_nonneg (mul_nonneg (h0.ha0 _) (h1.ha0 _)) (h2.ha0 _)
  · unfold A3; rw [sum_outer3, h0.ha, h1.ha, h2.ha, one_mul, one_mul]
  · unfold P3
    rw [sum_outer3 (fun i => b0 i + a0 i * u0) (fun j => b1 j + a1 j * u1)
      (fun l => b2 l + a2 l * u2), sum_proj h0, sum_proj h1, sum_proj h2, one_mul, one_mul]

/-- rational value of the expanded candidate of cell `k = (i, j, l)` -/
def cand3 (b0 : Fin n0 → ℚ) (u0 : ℚ) (a0 : Fin n0 → ℚ) (b1 : Fin n1 → ℚ) (u1 : ℚ) (a1 : Fin n1 → ℚ)
    (b2 : Fin n2 → ℚ) (u2 : ℚ) (a2 : Fin n2 → ℚ) (k : Fin (n0 * n1 * n2)) : ℚ :=
  u0 * (b1 (idx3 k).2.1 / a1 (idx3 k).2.1 + u1) * (b2 (idx3 k).2.2 / a2 (idx3 k).2.2 + u2)
    + b0 (idx3 k).1 / a0 (idx3 k).1
      * (u1 * (b2 (idx3 k).2.2 / a2 (idx3 k).2.2 + u2) + b1 (idx3 k).2.1 / a1 (idx3 k).2.1 * u2)

theorem cand3_nonneg (b0 : Fin n0 → ℚ) (u0 : ℚ) (a0 : Fin n0 → ℚ) (b1 : Fin n1 → ℚ) (u1 : ℚ)
    (a1 : Fin n1 → ℚ) (b2 : Fin n2 → ℚ) (u2 : ℚ) (a2 : Fin n2 → ℚ)
    (hb0 : ∀ i, 0 ≤ b0 i) (hu0 : 0 ≤ u0) (ha0 : ∀ i, 0 ≤ a0 i)
    (hb1 : ∀ j, 0 ≤ b1 j) (hu1 : 0 ≤ u1) (ha1 : ∀ j, 0 ≤ a1 j)
    (hb2 : ∀ l, 0 ≤ b2 l) (hu2 : 0 ≤ u2) (ha2 : ∀ l, 0 ≤ a2 l) (k : Fin (n0 * n1 * n2)) :
    0 ≤ cand3 b0 u0 a0 b1 u1 a1 b2 u2 a2 k := by
  unfold cand3
  have r0 := div_nonneg (hb0 (idx3 k).1) (ha0 (idx3 k).1)
  have r1 := div_nonneg (hb1 (idx3 k).2.1) (ha1 (idx3 k).2.1)
  have r2 := div_nonneg (hb2 (idx3 k).2.2) (ha2 (idx3 k).2.2)
  exact add_nonneg (mul_nonneg (mul_nonneg hu0 (add_nonneg r1 hu1)) (add_nonneg r2 hu2))
    (mul_nonneg r0 (add_nonneg (mul_nonneg hu1 (add_nonneg r2 hu2)) (mul_nonneg r1 hu2)))

theorem prodCand3_fin (b0 : Fin n0 → ℚ) (u0 : ℚ) (a0 : Fin n0 → ℚ) (b1 : Fin n1 → ℚ) (u1 : ℚ)
    (a1 : Fin n1 → ℚ) (b2 : Fin n2 → ℚ) (u2 : ℚ) (a2 : Fin n2 → ℚ) (k : Fin (n0 * n1 * n2))
    (hk : A3 a0 a1 a2 k ≠ 0) :
    prodCand3 (⟨liftT b0, XQ.fin u0, liftT a0⟩ : Opinion (XQ f) n0) ⟨liftT b1, XQ.fin u1, liftT a1⟩
        ⟨liftT b2, XQ.fin u2, liftT a2⟩ (idx3 k)
      = XQ.fin (cand3 b0 u0 a0 b1 u1 a1 b2 u2 a2 k) := by
  unfold A3 at hk
  have h01 := left_ne_zero_of_mul hk
  have h0 : a0 (idx3 k).1 ≠ 0 := left_ne_zero_of_mul h01
  have h1 : a1 (idx3 k).2.1 ≠ 0 := right_ne_zero_of_mul h01
  have h2 : a2 (idx3 k).2.2 ≠ 0 := right_ne_zero_of_mul hk
  unfold prodCand3 cand3
  simp only [liftT_getElem, XQ.div_fin _ _ h0, XQ.div_fin _ _ h1, XQ.div_fin _ _ h2, XQ.add_fin,
    XQ.mul_fin]

/-- the lifting lemma of repair abca806, three factors: on a cell whose joint base rate is not zero the
    expanded candidate `u0 (r1 + u1)(r2 + u2) + r0 (u1 (r2 + u2) + r1 u2)` is `(P - B)/A` -/
theorem prodCand3_lift (b0 : Fin n0 → ℚ) (u0 : ℚ) (a0 : Fin n0 → ℚ) (b1 : Fin n1 → ℚ) (u1 : ℚ)
    (a1 : Fin n1 → ℚ) (b2 : Fin n2 → ℚ) (u2 : ℚ) (a2 : Fin n2 → ℚ) (k : Fin (n0 * n1 * n2))
    (hk : A3 a0 a1 a2 k ≠ 0) :
    prodCand3 (⟨liftT b0, XQ.fin u0, liftT a0⟩ : Opinion (XQ f) n0) ⟨liftT b1, XQ.fin u1, liftT a1⟩
        ⟨liftT b2, XQ.fin u2, liftT a2⟩ (idx3 k)
      = XQ.fin (ucand (P3 b0 u0 a0 b1 u1 a1 b2 u2 a2) (A3 a0 a1 a2) (B3 b0 b1 b2) k) := by
  unfold A3 at hk
  have h01 := left_ne_zero_of_mul hk
  have h0 : a0 (idx3 k).1 ≠ 0 := left_ne_zero_of_mul h01
  have h1 : a1 (idx3 k).2.1 ≠ 0 := right_ne_zero_of_mul h01
  have h2 : a2 (idx3 k).2.2 ≠ 0 := right_ne_zero_of_mul hk
  unfold prodCand3
  simp only [liftT_getElem, XQ.div_fin _ _ h0, XQ.div_fin _ _ h1, XQ.div_fin _ _ h2, XQ.add_fin,
    XQ.mul_fin]
  congr 1
  unfold ucand P3 A3 B3
  field_simp
  ring

theorem product3Raw_lift (h0 : WF b0 u0 a0) (h1 : WF b1 u1 a1) (h2 : WF b2 u2 a2) :
    product3Raw (⟨liftT b0, XQ.fin u0, liftT a0⟩ : Opinion (XQ f) n0) ⟨liftT b1, XQ.fin u1, liftT a1⟩
        ⟨liftT b2, XQ.fin u2, liftT a2⟩
      = ⟨liftT (bJ3 b0 u0 a0 b1 u1 a1 b2 u2 a2), XQ.fin (uhat3 b0 u0 a0 b1 u1 a1 b2 u2 a2),
          liftT (A3 a0 a1 a2)⟩ := by
  show rawOf (outer3 (SLV.projection _ _ _) (SLV.projection _ _ _) (SLV.projection _ _ _))
    (outer3 _ _ _) (fun k => prodCand3 _ _ _ (idx3 k)) = _
  rw [C09_projection h0, C09_projection h1, C09_projection h2, outer3_lift, outer3_lift]
  exact rawOf_lift (cell3 h0 h1 h2) _
    (fun k hk => prodCand3_lift b0 u0 a0 b1 u1 a1 b2 u2 a2 k (ne_of_gt hk))

theorem product3NoClamp_lift (h0 : WF b0 u0 a0) (h1 : WF b1 u1 a1) (h2 : WF b2 u2 a2) :
    Pinned.product3NoClamp (⟨liftT b0, XQ.fin u0, liftT a0⟩ : Opinion (XQ f) n0) ⟨liftT b1, XQ.fin u1, liftT a1⟩
        ⟨liftT b2, XQ.fin u2, liftT a2⟩
      = ⟨liftT (bJ3 b0 u0 a0 b1 u1 a1 b2 u2 a2), XQ.fin (uhat3 b0 u0 a0 b1 u1 a1 b2 u2 a2),
          liftT (A3 a0 a1 a2)⟩ := by
  show rawOfNoClamp (outer3 (SLV.projection _ _ _) (SLV.projection _ _ _) (SLV.projection _ _ _))
    (outer3 _ _ _) (fun k => prodCand3 _ _ _ (idx3 k)) = _
  rw [C09_projection h0, C09_projection h1, C09_projection h2, outer3_lift, outer3_lift]
  exact rawOfNoClamp_lift (cell3 h0 h1 h2) _
    (fun k hk => prodCand3_lift b0 u0 a0 b1 u1 a1 b2 u2 a2 k (ne_of_gt hk))

end three

/-! ### the checked constructor on masses none of which compares below zero (repair b817f74) -/

open SLV.Props.C01 in
/-- `check_simplex` answers `b[]` exactly when some mass is not a finite value of the band `[-ε, 1+4ε]` -/
theorem checkSimplex_b_iff {n : Nat} (b : Tab (XQ f) n) (u : XQ f) :
    checkSimplex b u = .error .b ↔ ¬ ∀ i : Fin n, inBand b[i] := by
  constructor
  · intro h hb
    obtain ⟨bq, rfl, hbq⟩ := (all_inBand_iff b).1 hb
    by_cases hu : inBand u
    · obtain ⟨uq, rfl, huq⟩ := hu
      by_cases hs : oneBand f (∑ i, bq i + uq)
      · rw [checkSimplex_ok bq uq hbq huq hs] at h; cases h
      · rw [checkSimplex_sum bq uq hbq huq hs] at h; cases h
    · rw [checkSimplex_u bq u hbq hu] at h; cases h
  · exact checkSimplex_b b u

open SLV.Props.C01 in
/-- what `Opinion::new` can still answer with the label `b[]` when no mass compares below zero: a NaN mass, an
    infinite one, or one above `1 + 4ε` -/
theorem tryNew_b_of_notNeg {n : Nat} (b a : Tab (XQ f) n) (u : XQ f) (hb : ∀ i : Fin n, XQ.NotNeg b[i])
    (h : Opinion.tryNew b u a = .error .b) :
    ∃ i : Fin n, b[i] = XQ.nan ∨ b[i] = XQ.pinf ∨ ∃ q : ℚ, 1 + 4 * f.eps < q ∧ b[i] = XQ.fin q := by
  have hcs : checkSimplex b u = .error .b := by
    rcases unit_ok_or_error (checkSimplex b u) with e | ⟨l, e⟩
    · rcases unit_ok_or_error (checkBaseRate a) with e2 | ⟨l2, e2⟩
      · rw [opinionTryNew_ok e e2] at h; cases h
      · rw [opinionTryNew_err2 e e2] at h
        cases h
        rcases checkBaseRate_label a _ e2 with h' | h' <;> cases h'
    · rw [opinionTryNew_err1 e] at h; cases h; exact e
  have hne := (checkSimplex_b_iff b u).1 hcs
  obtain ⟨i, hi⟩ := not_forall.mp hne
  refine ⟨i, ?_⟩
  rcases (XQ.notNeg_iff _).1 (hb i) with e | e | ⟨q, hq, e⟩
  · exact Or.inl e
  · exact Or.inr (Or.inl e)
  · refine Or.inr (Or.inr ⟨q, ?_, e⟩)
    by_contra hle
    have he := XQ.eps_pos f
    exact hi ⟨q, e, by linarith, not_lt.mp hle⟩

/-- a checked constructor that accepts returns its arguments -/
theorem tryNew_ok_eq {n : Nat} {b a : Tab (XQ f) n} {u : XQ f} {w : Opinion (XQ f) n}
    (h : Opinion.tryNew b u a = .ok w) : w = ⟨b, u, a⟩ := by
  unfold Opinion.tryNew at h
  split at h
  · cases h
  · split at h
    · cases h
    · cases h; rfl

end SLV.C06
