/-
  Helper lemmas for C05 (inversion of conditionals `inverse`, abduction `abduceWith` / `abduce`):
  rational closed forms of every intermediate table of `inverse`, their algebra, and the staged lift
  of the model's `let` chain.  No property statements here.
-/
import SLV.Refine.Lift
import SLV.Refine.ClampLemmas
import SLV.Refine.MinLemmas
import SLV.Model.Cond
import SLV.Props.C09
import SLV.Refine.C04Lemmas
import Mathlib.Data.Finset.Max
import Mathlib.Data.Finset.Image
import Mathlib.Algebra.Order.Field.Basic
import Mathlib.Algebra.BigOperators.Field
import Mathlib.Data.Fin.VecNotation
import Mathlib.Tactic.NormNum.Basic

namespace SLV.C05
open SLV Scalar SLV.Props.C09
open SLV.C04 (Pc condTab condTab_get)

variable {f : Fmt} {n m : Nat}

/-! ### least / greatest entry of a finite family -/

/-- least entry of a non-empty family (0 on the empty one) -/
def vmin {k : Nat} (g : Fin k → ℚ) : ℚ :=
  if h : 0 < k then
    (Finset.univ.image g).min' (Finset.image_nonempty.mpr ⟨⟨0, h⟩, Finset.mem_univ _⟩)
  else 0

/-- greatest entry of a non-empty family (0 on the empty one) -/
def vmax {k : Nat} (g : Fin k → ℚ) : ℚ :=
  if h : 0 < k then
    (Finset.univ.image g).max' (Finset.image_nonempty.mpr ⟨⟨0, h⟩, Finset.mem_univ _⟩)
  else 0

theorem vmin_spec {k : Nat} (hk : 0 < k) (g : Fin k → ℚ) :
    (∀ i, vmin g ≤ g i) ∧ ∃ i, vmin g = g i := by
  unfold vmin
  rw [dif_pos hk]
  constructor
  · intro i
    exact Finset.min'_le _ _ (Finset.mem_image_of_mem _ (Finset.mem_univ i))
  · have := Finset.min'_mem (Finset.univ.image g)
      (Finset.image_nonempty.mpr ⟨⟨0, hk⟩, Finset.mem_univ _⟩)
    obtain ⟨i, _, hi⟩ := Finset.mem_image.mp this
    exact ⟨i, hi.symm⟩

theorem vmax_spec {k : Nat} (hk : 0 < k) (g : Fin k → ℚ) :
    (∀ i, g i ≤ vmax g) ∧ ∃ i, vmax g = g i := by
  unfold vmax
  rw [dif_pos hk]
  constructor
  · intro i
    exact Finset.le_max' _ _ (Finset.mem_image_of_mem _ (Finset.mem_univ i))
  · have := Finset.max'_mem (Finset.univ.image g)
      (Finset.image_nonempty.mpr ⟨⟨0, hk⟩, Finset.mem_univ _⟩)
    obtain ⟨i, _, hi⟩ := Finset.mem_image.mp this
    exact ⟨i, hi.symm⟩

theorem vmin_unique {k : Nat} (hk : 0 < k) (g : Fin k → ℚ) (q : ℚ)
    (h1 : ∀ i, q ≤ g i) (h2 : ∃ i, q = g i) : q = vmin g := by
  obtain ⟨s1, i1, s2⟩ := vmin_spec hk g
  obtain ⟨i2, e2⟩ := h2
  apply le_antisymm
  · rw [s2]; exact h1 i1
  · rw [e2]; exact s1 i2

theorem vmax_unique {k : Nat} (hk : 0 < k) (g : Fin k → ℚ) (q : ℚ)
    (h1 : ∀ i, g i ≤ q) (h2 : ∃ i, q = g i) : q = vmax g := by
  obtain ⟨s1, i1, s2⟩ := vmax_spec hk g
  obtain ⟨i2, e2⟩ := h2
  apply le_antisymm
  · rw [e2]; exact s1 i2
  · rw [s2]; exact h1 i1

theorem vmin_const {k : Nat} (hk : 0 < k) (c : ℚ) : vmin (fun _ : Fin k => c) = c := by
  obtain ⟨i, e⟩ := (vmin_spec hk (fun _ : Fin k => c)).2
  exact e

theorem vmax_const {k : Nat} (hk : 0 < k) (c : ℚ) : vmax (fun _ : Fin k => c) = c := by
  obtain ⟨i, e⟩ := (vmax_spec hk (fun _ : Fin k => c)).2
  exact e

theorem reduceMin_vmin {k : Nat} (hk : 0 < k) (g : Fin k → ℚ) :
    Tab.reduceMin (liftT g : Tab (XQ f) k) = XQ.fin (vmin g) := by
  obtain ⟨q, h1, h2, h3⟩ := reduceMin_liftT (f := f) g hk
  rw [h1, vmin_unique hk g q h2 h3]

theorem reduceMax_vmax {k : Nat} (hk : 0 < k) (g : Fin k → ℚ) :
    Tab.reduceMax (liftT g : Tab (XQ f) k) = XQ.fin (vmax g) := by
  obtain ⟨q, h1, h2, h3⟩ := reduceMax_liftT (f := f) g hk
  rw [h1, vmax_unique hk g q h2 h3]

theorem reduceMin_ofFn_fin {k : Nat} (hk : 0 < k) (g : Fin k → ℚ) :
    Tab.reduceMin (Vector.ofFn fun i => (XQ.fin (g i) : XQ f)) = XQ.fin (vmin g) :=
  reduceMin_vmin hk g

theorem reduceMax_ofFn_fin {k : Nat} (hk : 0 < k) (g : Fin k → ℚ) :
    Tab.reduceMax (Vector.ofFn fun i => (XQ.fin (g i) : XQ f)) = XQ.fin (vmax g) :=
  reduceMax_vmax hk g

theorem all_finRange_decide {k : Nat} (p : Fin k → Prop) [DecidablePred p] :
    ((List.finRange k).all fun x => decide (p x)) = decide (∀ x, p x) := by
  rw [Bool.eq_iff_iff]
  simp [List.all_eq_true]

theorem replicate_fin {k : Nat} (c : ℚ) :
    (Vector.replicate k (XQ.fin c : XQ f)) = liftT (fun _ => c) := by
  apply Vector.ext; intro i hi; simp [liftT]

/-! ### `reduce(min).unwrap_or(d)` over a list -/

/-- `reduce(min).unwrap_or(d)` over a list of rationals -/
def minL (l : List ℚ) (d : ℚ) : ℚ :=
  match l with
  | [] => d
  | a :: as => as.foldl Min.min a

theorem foldl_min_spec (as : List ℚ) (a : ℚ) :
    as.foldl Min.min a ≤ a ∧ (∀ q ∈ as, as.foldl Min.min a ≤ q) ∧
      (as.foldl Min.min a = a ∨ as.foldl Min.min a ∈ as) := by
  induction as generalizing a with
  | nil => simp
  | cons b bs ih =>
    obtain ⟨h1, h2, h3⟩ := ih (min a b)
    simp only [List.foldl_cons]
    refine ⟨le_trans h1 (min_le_left _ _), ?_, ?_⟩
    · intro q hq
      rcases List.mem_cons.mp hq with e | e
      · rw [e]; exact le_trans h1 (min_le_right _ _)
      · exact h2 q e
    · rcases h3 with e | e
      · rcases min_choice a b with hc | hc
        · left; rw [e, hc]
        · right; rw [e, hc]; simp
      · right; simp [e]

theorem minL_spec (l : List ℚ) (d : ℚ) :
    (l = [] ∧ minL l d = d) ∨ (minL l d ∈ l ∧ ∀ q ∈ l, minL l d ≤ q) := by
  cases l with
  | nil => left; exact ⟨rfl, rfl⟩
  | cons a as =>
    right
    obtain ⟨h1, h2, h3⟩ := foldl_min_spec as a
    show as.foldl Min.min a ∈ a :: as ∧ ∀ q ∈ a :: as, as.foldl Min.min a ≤ q
    constructor
    · rcases h3 with e | e
      · rw [e]; simp
      · simp [e]
    · intro q hq
      rcases List.mem_cons.mp hq with e | e
      · rw [e]; exact h1
      · exact h2 q e

theorem foldl_min_map_fin (as : List ℚ) (a : ℚ) :
    (as.map (XQ.fin (f := f))).foldl Scalar.min (XQ.fin a) = XQ.fin (as.foldl Min.min a) := by
  induction as generalizing a with
  | nil => rfl
  | cons b bs ih => simp only [List.map_cons, List.foldl_cons, XQ.min_fin, ih]

theorem reduceL_min_fin (l : List ℚ) (d : ℚ) :
    Tab.reduceL Scalar.min (l.map (XQ.fin (f := f))) (XQ.fin d) = XQ.fin (minL l d) := by
  cases l with
  | nil => rfl
  | cons a as => exact foldl_min_map_fin as a

/-! ### rational data -/

/-- well-formedness of the rational inputs of an inversion: well-formed conditionals, strictly positive
    base rate on `X`, base rate on `Y` (zeros allowed: the model skips values of `Y` whose base rate is
    within ε of zero) -/
structure InvHyp (cb : Fin n → Fin m → ℚ) (cu : Fin n → ℚ) (ax : Fin n → ℚ) (ay : Fin m → ℚ) :
    Prop where
  hcb : ∀ x y, 0 ≤ cb x y
  hcu : ∀ x, 0 ≤ cu x
  hcs : ∀ x, ∑ y, cb x y + cu x = 1
  hax0 : ∀ x, 0 < ax x
  hax : ∑ x, ax x = 1
  hay0 : ∀ y, 0 ≤ ay y
  hay : ∑ y, ay y = 1

section defs
variable (f : Fmt) (cb : Fin n → Fin m → ℚ) (cu : Fin n → ℚ) (ax : Fin n → ℚ) (ay : Fin m → ℚ)

/-- `u_yx[x]`: the model's `max_uncertainty` of the conditional for `x` under `ay` (C09's closed form) -/
def uyx (x : Fin n) : ℚ := Props.C09.uhat f (cb x) ay (cu x)

/-- the model's column test: every `P(y|x)` is within ε of zero -/
def zcol (y : Fin m) : Prop := ∀ x, |Pc cb cu ay x y| ≤ f.eps

instance (y : Fin m) : Decidable (zcol f cb cu ay y) := by unfold zcol; infer_instance

/-- evidence `Σ_x a(x) P(y|x)` -/
def qy (y : Fin m) : ℚ := ∑ x, ax x * Pc cb cu ay x y

/-- `temp[y][x]`: likelihood ratio `P(y|x) / Σ_x' a(x') P(y|x')` (1 on a zero column) -/
def temp (y : Fin m) (x : Fin n) : ℚ :=
  if zcol f cb cu ay y then 1 else Pc cb cu ay x y / qy cb cu ax ay y

/-- `p_xy[y][x]`: the Bayes posterior (`a(x)` on a zero column) -/
def post (y : Fin m) (x : Fin n) : ℚ := temp f cb cu ax ay y x * ax x

/-- irrelevance of `y` to `X`: `1 - max_x P(y|x) + min_x P(y|x)` -/
def irrel (y : Fin m) : ℚ :=
  1 - vmax (fun x => Pc cb cu ay x y) + vmin (fun x => Pc cb cu ay x y)

/-- `max_u_xy[y] = min_x temp[y][x]`: the largest uncertainty compatible with the posterior -/
def maxUxy (y : Fin m) : ℚ := vmin (temp f cb cu ax ay y)

def uyxSum : ℚ := ∑ x, uyx f cb cu ay x

def weights (x : Fin n) : ℚ :=
  if uyxSum f cb cu ay = 0 then 0 else uyx f cb cu ay x / uyxSum f cb cu ay

/-- the values of `Y` whose base rate is outside the zero-tolerance band -/
def ysupp : List (Fin m) := (List.finRange m).filter fun y => !decide (|ay y| ≤ f.eps)

/-- `max_u_yx[x]`: the least `P(y|x) / a(y)` over the values with `|a(y)| > ε` (1 when there is none) -/
def maxUyx (x : Fin n) : ℚ := minL ((ysupp f ay).map fun y => Pc cb cu ay x y / ay y) 1

def weightedU (x : Fin n) : ℚ :=
  if |maxUyx f cb cu ay x| ≤ f.eps then 0
  else weights f cb cu ay x * uyx f cb cu ay x / maxUyx f cb cu ay x

/-- weighted proportional uncertainty of the conditionals -/
def wprop : ℚ := ∑ x, weightedU f cb cu ay x

/-- scaling factor `wprop ⊔ irrel` (probabilistic sum) -/
def phi (y : Fin m) : ℚ :=
  wprop f cb cu ay + irrel cb cu ay y - wprop f cb cu ay * irrel cb cu ay y

/-- uncertainty of the inverted conditional for `y` -/
def uI (y : Fin m) : ℚ := maxUxy f cb cu ax ay y * phi f cb cu ay y

/-- belief masses of the inverted conditional for `y` -/
def bI (y : Fin m) (x : Fin n) : ℚ := post f cb cu ax ay y x - uI f cb cu ax ay y * ax x

end defs

variable {cb : Fin n → Fin m → ℚ} {cu : Fin n → ℚ} {ax : Fin n → ℚ} {ay : Fin m → ℚ}

theorem InvHyp.wfc (h : InvHyp cb cu ax ay) (x : Fin n) : WF (cb x) (cu x) ay :=
  ⟨h.hcb x, h.hcu x, h.hcs x, h.hay0, h.hay⟩

theorem InvHyp.npos (h : InvHyp cb cu ax ay) : 0 < n := by
  rcases Nat.eq_zero_or_pos n with h0 | hpos
  · subst h0
    have := h.hax
    simp at this
  · exact hpos

theorem InvHyp.mpos (h : InvHyp cb cu ax ay) : 0 < m := by
  rcases Nat.eq_zero_or_pos m with h0 | hpos
  · subst h0
    have := h.hay
    simp at this
  · exact hpos

/-! ### algebra -/

theorem Pc_nonneg (h : InvHyp cb cu ax ay) (x : Fin n) (y : Fin m) : 0 ≤ Pc cb cu ay x y :=
  add_nonneg (h.hcb x y) (mul_nonneg (h.hay0 y) (h.hcu x))

theorem sum_Pc (h : InvHyp cb cu ax ay) (x : Fin n) : ∑ y, Pc cb cu ay x y = 1 :=
  sum_proj (h.wfc x)

theorem Pc_le_one (h : InvHyp cb cu ax ay) (x : Fin n) (y : Fin m) : Pc cb cu ay x y ≤ 1 := by
  rw [← sum_Pc h x]
  exact Finset.single_le_sum (f := fun y => Pc cb cu ay x y) (fun y _ => Pc_nonneg h x y)
    (Finset.mem_univ y)

theorem qy_nonneg (h : InvHyp cb cu ax ay) (y : Fin m) : 0 ≤ qy cb cu ax ay y :=
  Finset.sum_nonneg fun x _ => mul_nonneg (le_of_lt (h.hax0 x)) (Pc_nonneg h x y)

/-- a column that fails the zero test has positive evidence -/
theorem qy_pos (h : InvHyp cb cu ax ay) (y : Fin m) (hz : ¬ zcol f cb cu ay y) :
    0 < qy cb cu ax ay y := by
  unfold zcol at hz
  rw [not_forall] at hz
  obtain ⟨x, hx⟩ := hz
  rw [abs_of_nonneg (Pc_nonneg h x y), not_le] at hx
  have hp : 0 < Pc cb cu ay x y := lt_trans (XQ.eps_pos f) hx
  have h1 : ax x * Pc cb cu ay x y ≤ qy cb cu ax ay y :=
    Finset.single_le_sum (f := fun x => ax x * Pc cb cu ay x y)
      (fun x _ => mul_nonneg (le_of_lt (h.hax0 x)) (Pc_nonneg h x y)) (Finset.mem_univ x)
  have := mul_pos (h.hax0 x) hp
  linarith

theorem qy_pos_of_exists (h : InvHyp cb cu ax ay) (y : Fin m) (hx : ∃ x, 0 < Pc cb cu ay x y) :
    0 < qy cb cu ax ay y := by
  obtain ⟨x, hp⟩ := hx
  have h1 : ax x * Pc cb cu ay x y ≤ qy cb cu ax ay y :=
    Finset.single_le_sum (f := fun x => ax x * Pc cb cu ay x y)
      (fun x _ => mul_nonneg (le_of_lt (h.hax0 x)) (Pc_nonneg h x y)) (Finset.mem_univ x)
  have := mul_pos (h.hax0 x) hp
  linarith

theorem temp_nonneg (h : InvHyp cb cu ax ay) (y : Fin m) (x : Fin n) :
    0 ≤ temp f cb cu ax ay y x := by
  unfold temp
  split
  · exact zero_le_one
  · exact div_nonneg (Pc_nonneg h x y) (qy_nonneg h y)

/-- the posterior is a distribution over `X` in both column cases -/
theorem sum_post (h : InvHyp cb cu ax ay) (y : Fin m) : ∑ x, post f cb cu ax ay y x = 1 := by
  unfold post temp
  by_cases hz : zcol f cb cu ay y
  · simp only [if_pos hz, one_mul]; exact h.hax
  · simp only [if_neg hz]
    have hq := qy_pos h y hz
    have e : ∀ x, Pc cb cu ay x y / qy cb cu ax ay y * ax x
        = (ax x * Pc cb cu ay x y) / qy cb cu ax ay y := by
      intro x; ring
    simp only [e, ← Finset.sum_div]
    exact div_self (ne_of_gt hq)

theorem post_nonneg (h : InvHyp cb cu ax ay) (y : Fin m) (x : Fin n) :
    0 ≤ post f cb cu ax ay y x :=
  mul_nonneg (temp_nonneg h y x) (le_of_lt (h.hax0 x))

theorem maxUxy_spec (h : InvHyp cb cu ax ay) (y : Fin m) :
    (∀ x, maxUxy f cb cu ax ay y ≤ temp f cb cu ax ay y x) ∧
    ∃ x, maxUxy f cb cu ax ay y = temp f cb cu ax ay y x :=
  vmin_spec h.npos _

theorem maxUxy_nonneg (h : InvHyp cb cu ax ay) (y : Fin m) : 0 ≤ maxUxy f cb cu ax ay y := by
  obtain ⟨x, e⟩ := (maxUxy_spec (f := f) h y).2
  rw [e]; exact temp_nonneg h y x

theorem maxUxy_le_one (h : InvHyp cb cu ax ay) (y : Fin m) : maxUxy f cb cu ax ay y ≤ 1 := by
  have h1 : ∑ x, maxUxy f cb cu ax ay y * ax x ≤ ∑ x, post f cb cu ax ay y x := by
    apply Finset.sum_le_sum
    intro x _
    exact mul_le_mul_of_nonneg_right ((maxUxy_spec h y).1 x) (le_of_lt (h.hax0 x))
  rw [← Finset.mul_sum, h.hax, mul_one, sum_post h] at h1
  exact h1

theorem irrel_nonneg (h : InvHyp cb cu ax ay) (y : Fin m) : 0 ≤ irrel cb cu ay y := by
  unfold irrel
  obtain ⟨x1, e1⟩ := (vmax_spec h.npos (fun x => Pc cb cu ay x y)).2
  obtain ⟨x2, e2⟩ := (vmin_spec h.npos (fun x => Pc cb cu ay x y)).2
  rw [e1, e2]
  linarith [Pc_le_one h x1 y, Pc_nonneg h x2 y]

theorem irrel_le_one (h : InvHyp cb cu ax ay) (y : Fin m) : irrel cb cu ay y ≤ 1 := by
  unfold irrel
  obtain ⟨x2, e2⟩ := (vmin_spec h.npos (fun x => Pc cb cu ay x y)).2
  have := (vmax_spec h.npos (fun x => Pc cb cu ay x y)).1 x2
  rw [e2]
  linarith

theorem mem_ysupp (y : Fin m) : y ∈ ysupp f ay ↔ ¬ |ay y| ≤ f.eps := by
  unfold ysupp
  simp

/-- `maxUyx x` is the least `P(y|x)/a(y)` over the values of `Y` outside the band, 1 if there is none -/
theorem maxUyx_spec (x : Fin n) :
    (∀ y, ¬ |ay y| ≤ f.eps → maxUyx f cb cu ay x ≤ Pc cb cu ay x y / ay y) ∧
    (((∀ y, |ay y| ≤ f.eps) ∧ maxUyx f cb cu ay x = 1) ∨
      ∃ y, ¬ |ay y| ≤ f.eps ∧ maxUyx f cb cu ay x = Pc cb cu ay x y / ay y) := by
  unfold maxUyx
  rcases minL_spec ((ysupp f ay).map fun y => Pc cb cu ay x y / ay y) 1 with ⟨he, hv⟩ | ⟨hm, hl⟩
  · have hall : ∀ y, |ay y| ≤ f.eps := by
      intro y
      by_contra hy
      have : y ∈ ysupp f ay := (mem_ysupp y).mpr hy
      rw [List.map_eq_nil_iff] at he
      rw [he] at this
      simp at this
    exact ⟨fun y hy => absurd (hall y) hy, Or.inl ⟨hall, hv⟩⟩
  · constructor
    · intro y hy
      exact hl _ (List.mem_map.mpr ⟨y, (mem_ysupp y).mpr hy, rfl⟩)
    · right
      obtain ⟨y, hy, e⟩ := List.mem_map.mp hm
      exact ⟨y, (mem_ysupp y).mp hy, e.symm⟩

theorem maxUyx_nonneg (h : InvHyp cb cu ax ay) (x : Fin n) : 0 ≤ maxUyx f cb cu ay x := by
  rcases (maxUyx_spec (f := f) (cb := cb) (cu := cu) (ay := ay) x).2 with ⟨_, e⟩ | ⟨y, _, e⟩
  · rw [e]; exact zero_le_one
  · rw [e]; exact div_nonneg (Pc_nonneg h x y) (h.hay0 y)

/-- the model's `max_uncertainty` of the conditional never exceeds `max_u_yx` (both skip the same values
    of `Y`; `max_uncertainty` additionally starts from 1) -/
theorem uyx_le_maxUyx (x : Fin n) : uyx f cb cu ay x ≤ maxUyx f cb cu ay x := by
  obtain ⟨s1, s2, _⟩ := foldMin_spec (cand f (cb x) ay (cu x)) 1
  rcases (maxUyx_spec (f := f) (cb := cb) (cu := cu) (ay := ay) x).2 with ⟨_, e⟩ | ⟨y, hy, e⟩
  · rw [e]; exact s1
  · rw [e]
    have := s2 y
    unfold cand at this
    rw [if_neg hy] at this
    exact this

/-- `u_yx[x] = min(1, max_u_yx[x])` -/
theorem uyx_eq_min (x : Fin n) : uyx f cb cu ay x = min 1 (maxUyx f cb cu ay x) := by
  apply le_antisymm
  · exact le_min (uhat_le_one _ _ _) (uyx_le_maxUyx x)
  · rcases (foldMin_spec (cand f (cb x) ay (cu x)) 1).2.2 with e | ⟨y, e⟩
    · show _ ≤ foldMin (cand f (cb x) ay (cu x)) 1
      rw [e]; exact min_le_left _ _
    · show _ ≤ foldMin (cand f (cb x) ay (cu x)) 1
      rw [e]
      unfold cand
      by_cases hy : |ay y| ≤ f.eps
      · rw [if_pos hy]; exact min_le_left _ _
      · rw [if_neg hy]
        exact le_trans (min_le_right _ _) ((maxUyx_spec x).1 y hy)

/-- with every `a(y)` above the band, `min_y P(y|x)/a(y) ≤ 1`, because both `P(·|x)` and `a` sum to one -/
theorem maxUyx_le_one (h : InvHyp cb cu ax ay) (hay : ∀ y, f.eps < ay y) (x : Fin n) :
    maxUyx f cb cu ay x ≤ 1 := by
  have hs : ∀ y, maxUyx f cb cu ay x ≤ Pc cb cu ay x y / ay y := fun y =>
    (maxUyx_spec x).1 y (by
      rw [abs_of_pos (lt_trans (XQ.eps_pos f) (hay y))]; exact not_le.mpr (hay y))
  have h1 : ∑ y, maxUyx f cb cu ay x * ay y ≤ ∑ y, Pc cb cu ay x y := by
    apply Finset.sum_le_sum
    intro y _
    have := hs y
    rw [le_div_iff₀ (lt_trans (XQ.eps_pos f) (hay y))] at this
    exact this
  rw [← Finset.mul_sum, h.hay, mul_one, sum_Pc h] at h1
  exact h1

theorem uyx_eq_maxUyx (h : InvHyp cb cu ax ay) (hay : ∀ y, f.eps < ay y) (x : Fin n) :
    uyx f cb cu ay x = maxUyx f cb cu ay x := by
  rw [uyx_eq_min, min_eq_right (maxUyx_le_one h hay x)]

theorem uyx_nonneg (h : InvHyp cb cu ax ay) (x : Fin n) : 0 ≤ uyx f cb cu ay x :=
  le_trans (h.wfc x).hu (C09_max_u_ge (h.wfc x))

theorem weights_nonneg (h : InvHyp cb cu ax ay) (x : Fin n) : 0 ≤ weights f cb cu ay x := by
  unfold weights
  split
  · exact le_refl _
  · exact div_nonneg (uyx_nonneg h x) (Finset.sum_nonneg fun x _ => uyx_nonneg h x)

theorem sum_weights_le_one : ∑ x, weights f cb cu ay x ≤ 1 := by
  unfold weights
  by_cases hz : uyxSum f cb cu ay = 0
  · simp [hz]
  · simp only [if_neg hz, ← Finset.sum_div]
    exact le_of_eq (div_self hz)

theorem weightedU_bounds (h : InvHyp cb cu ax ay) (x : Fin n) :
    0 ≤ weightedU f cb cu ay x ∧ weightedU f cb cu ay x ≤ weights f cb cu ay x := by
  unfold weightedU
  split
  · exact ⟨le_refl _, weights_nonneg h x⟩
  · rename_i hne
    have hM : 0 < maxUyx f cb cu ay x := by
      rcases lt_or_eq_of_le (maxUyx_nonneg (f := f) h x) with hlt | heq
      · exact hlt
      · exfalso; apply hne; rw [← heq]; simpa using le_of_lt (XQ.eps_pos f)
    constructor
    · exact div_nonneg (mul_nonneg (weights_nonneg h x) (uyx_nonneg h x)) (le_of_lt hM)
    · rw [div_le_iff₀ hM]
      exact mul_le_mul_of_nonneg_left (uyx_le_maxUyx x) (weights_nonneg h x)

theorem wprop_nonneg (h : InvHyp cb cu ax ay) :
    0 ≤ wprop f cb cu ay :=
  Finset.sum_nonneg fun x _ => (weightedU_bounds h x).1

theorem wprop_le_one (h : InvHyp cb cu ax ay) :
    wprop f cb cu ay ≤ 1 :=
  le_trans (Finset.sum_le_sum fun x _ => (weightedU_bounds h x).2) sum_weights_le_one

theorem phi_eq (y : Fin m) :
    phi f cb cu ay y = 1 - (1 - wprop f cb cu ay) * (1 - irrel cb cu ay y) := by
  unfold phi; ring

theorem phi_nonneg (h : InvHyp cb cu ax ay) (y : Fin m) :
    0 ≤ phi f cb cu ay y := by
  unfold phi
  nlinarith [wprop_nonneg (f := f) h, wprop_le_one (f := f) h, irrel_nonneg h y, irrel_le_one h y]

theorem phi_le_one (h : InvHyp cb cu ax ay) (y : Fin m) :
    phi f cb cu ay y ≤ 1 := by
  rw [phi_eq]
  nlinarith [wprop_nonneg (f := f) h, wprop_le_one (f := f) h, irrel_nonneg h y, irrel_le_one h y,
    mul_nonneg (sub_nonneg.mpr (wprop_le_one (f := f) h)) (sub_nonneg.mpr (irrel_le_one h y))]

theorem uI_nonneg (h : InvHyp cb cu ax ay) (y : Fin m) :
    0 ≤ uI f cb cu ax ay y :=
  mul_nonneg (maxUxy_nonneg h y) (phi_nonneg h y)

theorem uI_le_maxUxy (h : InvHyp cb cu ax ay) (y : Fin m) :
    uI f cb cu ax ay y ≤ maxUxy f cb cu ax ay y := by
  unfold uI
  have := mul_le_mul_of_nonneg_left (phi_le_one (f := f) h y) (maxUxy_nonneg (f := f) h y)
  linarith

theorem uI_le_one (h : InvHyp cb cu ax ay) (y : Fin m) :
    uI f cb cu ax ay y ≤ 1 :=
  le_trans (uI_le_maxUxy h y) (maxUxy_le_one h y)

theorem bI_nonneg (h : InvHyp cb cu ax ay) (y : Fin m) (x : Fin n) :
    0 ≤ bI f cb cu ax ay y x := by
  unfold bI post
  have h1 := le_trans (uI_le_maxUxy (f := f) h y) ((maxUxy_spec h y).1 x)
  have := mul_le_mul_of_nonneg_right h1 (le_of_lt (h.hax0 x))
  linarith

/-- the normaliser of the inverted conditional is exactly one (needs no tolerance-band hypothesis) -/
theorem sum_bI (h : InvHyp cb cu ax ay) (y : Fin m) :
    ∑ x, bI f cb cu ax ay y x + uI f cb cu ax ay y = 1 := by
  unfold bI
  rw [Finset.sum_sub_distrib, sum_post h, ← Finset.mul_sum, h.hax]; ring

/-! ### staged lift of `inverse` -/

/-- (i) the conditional projections -/
theorem pyx_get (h : InvHyp cb cu ax ay) (x : Fin n) :
    ((condTab cb cu f).map fun c => c.projection (liftT ay))[x] = liftT (Pc cb cu ay x) := by
  rw [Fin.getElem_fin, Vector.getElem_map, ← Fin.getElem_fin, condTab_get]
  exact C09_projection (h.wfc x)

/-- (ii) `u_yx` -/
theorem uyx_lift (h : InvHyp cb cu ax ay) :
    (Vector.ofFn fun x : Fin n => ((condTab cb cu f)[x]).maxUncertainty (liftT ay))
      = liftT (uyx f cb cu ay) := by
  apply Vector.ext; intro i hi
  simp only [Vector.getElem_ofFn, condTab_get, maxUncertainty_lift (h.wfc _), liftT_getElem', uyx]

/-- (iii) the likelihood-ratio rows `temp[y]` -/
theorem temp_lift (h : InvHyp cb cu ax ay) (y : Fin m) :
    (if ((List.finRange n).all fun x => Scalar.isZero (XQ.fin (Pc cb cu ay x y) : XQ f)) = true then
        Vector.replicate n (Scalar.one : XQ f)
      else Vector.ofFn fun x => XQ.fin (Pc cb cu ay x y) /
        Tab.sumIter (Vector.ofFn fun x : Fin n => (XQ.fin (ax x) : XQ f) * XQ.fin (Pc cb cu ay x y)))
      = liftT (temp f cb cu ax ay y) := by
  simp only [XQ.isZero_fin, all_finRange_decide, XQ.mul_fin, sumIter_ofFn_fin, decide_eq_true_eq,
    XQ.one_def]
  by_cases hz : zcol f cb cu ay y
  · rw [if_pos (show ∀ x, |Pc cb cu ay x y| ≤ f.eps from hz), replicate_fin]
    congr 1; funext x; unfold temp; rw [if_pos hz]
  · rw [if_neg (show ¬ ∀ x, |Pc cb cu ay x y| ≤ f.eps from hz)]
    have hq : (∑ x, ax x * Pc cb cu ay x y) ≠ 0 := ne_of_gt (qy_pos h y hz)
    simp only [XQ.div_fin _ _ hq]
    show liftT _ = _
    congr 1; funext x; unfold temp; rw [if_neg hz]; rfl

/-- (iv) the weights -/
theorem weights_lift :
    (if Scalar.eq (Tab.sumIter (liftT (uyx f cb cu ay) : Tab (XQ f) n)) Scalar.zero = true then
        Vector.replicate n (Scalar.zero : XQ f)
      else Vector.ofFn fun x => XQ.fin (uyx f cb cu ay x) /
        Tab.sumIter (liftT (uyx f cb cu ay) : Tab (XQ f) n))
      = liftT (weights f cb cu ay) := by
  simp only [sumIter_liftT, XQ.zero_def, XQ.eq_fin, decide_eq_true_eq]
  by_cases hz : uyxSum f cb cu ay = 0
  · rw [if_pos (show ∑ x, uyx f cb cu ay x = 0 from hz), replicate_fin]
    congr 1; funext x; unfold weights; rw [if_pos hz]
  · rw [if_neg (show ¬ ∑ x, uyx f cb cu ay x = 0 from hz)]
    have hq : (∑ x, uyx f cb cu ay x) ≠ 0 := hz
    simp only [XQ.div_fin _ _ hq]
    show liftT _ = _
    congr 1; funext x; unfold weights; rw [if_neg hz]; rfl

/-- (v) `max_u_yx` (values of `Y` whose base rate passes `is_zero` are filtered out, so every remaining
    division has a non-zero denominator; `unwrap_or(1)` when nothing remains) -/
theorem maxUyx_lift :
    (Vector.ofFn fun x : Fin n => Tab.reduceL Scalar.min
        (((List.finRange m).filter fun y => !Scalar.isZero (XQ.fin (ay y) : XQ f)).map fun y =>
          (XQ.fin (Pc cb cu ay x y) : XQ f) / XQ.fin (ay y)) Scalar.one)
      = liftT (maxUyx f cb cu ay) := by
  have hl : ∀ x : Fin n,
      (((List.finRange m).filter fun y => !Scalar.isZero (XQ.fin (ay y) : XQ f)).map fun y =>
          (XQ.fin (Pc cb cu ay x y) : XQ f) / XQ.fin (ay y))
        = ((ysupp f ay).map fun y => Pc cb cu ay x y / ay y).map (XQ.fin (f := f)) := by
    intro x
    simp only [XQ.isZero_fin, List.map_map]
    apply List.map_congr_left
    intro y hy
    have hy' : ¬ |ay y| ≤ f.eps := (mem_ysupp y).mp hy
    have hne : ay y ≠ 0 := by
      intro h0; apply hy'; rw [h0]; simpa using le_of_lt (XQ.eps_pos f)
    simp [XQ.div_fin _ _ hne]
  simp only [hl, XQ.one_def, reduceL_min_fin]
  rfl

/-- (vi) one entry of `weighted_u_yx` -/
theorem wU_entry (M w u : ℚ) :
    (if Scalar.isZero (XQ.fin M : XQ f) = true then (Scalar.zero : XQ f)
      else XQ.fin w * XQ.fin u / XQ.fin M)
      = XQ.fin (if |M| ≤ f.eps then 0 else w * u / M) := by
  simp only [XQ.isZero_fin, decide_eq_true_eq, XQ.zero_def, XQ.mul_fin]
  by_cases hz : |M| ≤ f.eps
  · rw [if_pos hz, if_pos hz]
  · have hne : M ≠ 0 := by
      intro h0; apply hz; rw [h0]; simpa using le_of_lt (XQ.eps_pos f)
    rw [if_neg hz, if_neg hz, XQ.div_fin _ _ hne]

theorem inverse_lift (h : InvHyp cb cu ax ay) :
    inverse (condTab cb cu f) (liftT ax) (liftT ay)
      = condTab (bI f cb cu ax ay) (uI f cb cu ax ay) f := by
  have hn := h.npos
  have hm := h.mpos
  unfold inverse
  simp only [uyx_lift h, pyx_get h, liftT_getElem]
  simp only [temp_lift h, weights_lift, maxUyx_lift]
  simp only [Fin.getElem_fin, Vector.getElem_ofFn, liftT_getElem', Fin.eta]
  simp only [wU_entry]
  simp only [XQ.mul_fin, reduceMin_vmin hn, reduceMax_ofFn_fin hn,
    reduceMin_ofFn_fin hn, XQ.one_def, XQ.sub_fin, XQ.add_fin, sumIter_ofFn_fin]
  -- repair 9ec2d8b: the clamp of every belief mass is the identity, `bI y x ≥ 0`
  simp only [XQ.clamp_fin]
  show (Vector.ofFn fun y : Fin m => Simplex.normalized
    (Vector.ofFn fun x : Fin n => (XQ.fin (max (bI f cb cu ax ay y x) 0) : XQ f))
    (XQ.fin (uI f cb cu ax ay y))) = _
  simp only [max_eq_left (bI_nonneg h _ _)]
  show (Vector.ofFn fun y : Fin m => Simplex.normalized (liftT (bI f cb cu ax ay y))
    (XQ.fin (uI f cb cu ax ay y))) = _
  unfold Simplex.normalized condTab
  simp only [sumIter_liftT, XQ.add_fin, sum_bI h, XQ.div_fin_one]
  congr 1; funext y
  rw [liftT_map _ _ (fun q => q) (by intro q; simp)]

/-! ### Bayes, irrelevance, hand-over to C04 -/

theorem not_zcol_of_exists (h : InvHyp cb cu ax ay) (y : Fin m) (hx : ∃ x, f.eps < Pc cb cu ay x y) :
    ¬ zcol f cb cu ay y := by
  obtain ⟨x, hx⟩ := hx
  intro hz
  have := hz x
  rw [abs_of_nonneg (Pc_nonneg h x y)] at this
  exact absurd hx (not_lt.mpr this)

theorem post_of_not_zcol (y : Fin m) (hz : ¬ zcol f cb cu ay y) (x : Fin n) :
    post f cb cu ax ay y x = ax x * Pc cb cu ay x y / ∑ x', ax x' * Pc cb cu ay x' y := by
  unfold post temp
  rw [if_neg hz]
  unfold qy
  ring

theorem post_of_zcol (y : Fin m) (hz : zcol f cb cu ay y) (x : Fin n) :
    post f cb cu ax ay y x = ax x := by
  unfold post temp
  rw [if_pos hz, one_mul]

theorem proj_bI (y : Fin m) (x : Fin n) :
    bI f cb cu ax ay y x + ax x * uI f cb cu ax ay y = post f cb cu ax ay y x := by
  unfold bI; ring

/-- an outcome that is equally likely under every `x`: every likelihood ratio is 1 -/
theorem temp_irrelevant (h : InvHyp cb cu ax ay) (y : Fin m)
    (hc : ∀ x x', Pc cb cu ay x y = Pc cb cu ay x' y) (x : Fin n) :
    temp f cb cu ax ay y x = 1 := by
  unfold temp
  by_cases hz : zcol f cb cu ay y
  · rw [if_pos hz]
  · rw [if_neg hz]
    have hq := qy_pos h y hz
    have e : qy cb cu ax ay y = Pc cb cu ay x y := by
      unfold qy
      rw [Finset.sum_congr rfl (fun x' _ => by rw [hc x' x]), ← Finset.sum_mul, h.hax, one_mul]
    rw [← e]
    exact div_self (ne_of_gt hq)

theorem irrel_irrelevant (h : InvHyp cb cu ax ay) (y : Fin m)
    (hc : ∀ x x', Pc cb cu ay x y = Pc cb cu ay x' y) : irrel cb cu ay y = 1 := by
  unfold irrel
  obtain ⟨x1, e1⟩ := (vmax_spec h.npos (fun x => Pc cb cu ay x y)).2
  obtain ⟨x2, e2⟩ := (vmin_spec h.npos (fun x => Pc cb cu ay x y)).2
  rw [e1, e2]
  show 1 - Pc cb cu ay x1 y + Pc cb cu ay x2 y = 1
  rw [hc x1 x2]; ring

theorem uI_irrelevant (h : InvHyp cb cu ax ay) (y : Fin m)
    (hc : ∀ x x', Pc cb cu ay x y = Pc cb cu ay x' y) : uI f cb cu ax ay y = 1 := by
  unfold uI maxUxy
  have e : temp f cb cu ax ay y = fun _ => 1 := funext (temp_irrelevant h y hc)
  rw [e, vmin_const h.npos, phi_eq, irrel_irrelevant h y hc]
  ring

theorem bI_irrelevant (h : InvHyp cb cu ax ay) (y : Fin m)
    (hc : ∀ x x', Pc cb cu ay x y = Pc cb cu ay x' y) (x : Fin n) : bI f cb cu ax ay y x = 0 := by
  unfold bI post
  rw [uI_irrelevant h y hc, temp_irrelevant h y hc x]; ring

/-- the inverted table together with a well-formed opinion on `Y` satisfies C04's hypotheses (with the
    roles of the two domains exchanged) -/
theorem toC04 (h : InvHyp cb cu ax ay) {by_ : Fin m → ℚ} {uy : ℚ}
    (hw : WF by_ uy ay) :
    SLV.C04.Hyp by_ ay uy (bI f cb cu ax ay) (uI f cb cu ax ay) ax :=
  ⟨hw.hb, hw.hu, hw.hs, hw.ha0, hw.ha, bI_nonneg h, uI_nonneg h, sum_bI h,
    fun x => le_of_lt (h.hax0 x), h.hax⟩

/-- with every `a(y)` above the guard band and every `min_y P(y|x)/a(y)` above it too, the weighted
    proportional uncertainty is 1 whatever the uncertainties of the conditionals are -/
theorem wprop_eq_one (h : InvHyp cb cu ax ay) (hay : ∀ y, f.eps < ay y)
    (hall : ∀ x, f.eps < maxUyx f cb cu ay x) : wprop f cb cu ay = 1 := by
  have hpos : ∀ x, 0 < uyx f cb cu ay x := fun x => by
    rw [uyx_eq_maxUyx h hay x]; exact lt_trans (XQ.eps_pos f) (hall x)
  have hS : 0 < uyxSum f cb cu ay :=
    Finset.sum_pos (fun x _ => hpos x) ⟨⟨0, h.npos⟩, Finset.mem_univ _⟩
  have hw : ∀ x, weightedU f cb cu ay x = uyx f cb cu ay x / uyxSum f cb cu ay := by
    intro x
    have hM : 0 < maxUyx f cb cu ay x := lt_trans (XQ.eps_pos f) (hall x)
    unfold weightedU weights
    rw [if_neg (by rw [abs_of_pos hM]; exact not_le.mpr (hall x)), if_neg (ne_of_gt hS),
      uyx_eq_maxUyx h hay x, mul_div_assoc, div_self (ne_of_gt hM), mul_one]
  unfold wprop
  simp only [hw, ← Finset.sum_div]
  exact div_self (ne_of_gt hS)

/-- … and 0 when every conditional has `min_y P(y|x)/a(y)` within ε of zero -/
theorem wprop_eq_zero (hall : ∀ x, |maxUyx f cb cu ay x| ≤ f.eps) : wprop f cb cu ay = 0 := by
  unfold wprop weightedU
  simp [hall]

theorem eps_lt_quarter (f : Fmt) : f.eps < 1 / 4 := by
  cases f <;> norm_num [Fmt.eps, Fmt.mant]

end SLV.C05

/-! ### witness data: a base rate on `Y` inside the guard band (`0 < ay y₀ = 2⁻²⁴ ≤ ε` at `f32`); the model before
    fix e624e49 returned a non-well-formed inverted opinion here (SLV/Props/PinnedC05.lean) -/

namespace SLV.C05.Witness
open SLV Scalar SLV.Props.C09 SLV.C05
open SLV.C04 (Pc condTab condTab_get)

def cb : Fin 2 → Fin 2 → ℚ := ![![0, 1/2], ![3/4, 1/4]]
def cu : Fin 2 → ℚ := ![1/2, 0]
def ax : Fin 2 → ℚ := ![1/2, 1/2]
def ay : Fin 2 → ℚ := ![1/16777216, 16777215/16777216]

theorem hyp : InvHyp cb cu ax ay := by
  constructor <;> simp [cb, cu, ax, ay, Fin.sum_univ_two, Fin.forall_fin_succ] <;> norm_num

end SLV.C05.Witness
