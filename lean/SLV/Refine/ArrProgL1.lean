/-
  C17 programs: the labelled rank-1 kind (usize or newtype index) refines the flat specification.
-/
import SLV.Refine.ArrProg3

namespace SLV.MArr

def RL1 (d0 : Nat) (a : MArrD1 Nat) (fl : List Nat) : Prop := Shape1 d0 a.toU ∧ flat1 a.toU = fl

theorem L1.asRef_ok {V : Type} {d0 : Nat} {a : MArrD1 V} (h : Shape1 d0 a.toU) : a.asRef d0 = some a := by
  obtain ⟨s, hs, _⟩ := sliceLL.complete a.iter trivial (a.inner.length + 1) (by simp [MArrD1.iter])
  have hl : a.inner.length = d0 := h
  unfold MArrD1.asRef
  rw [hs]
  simp [MArrD1.fromIter, MArrD1.new, MArrD1.iter, hl]

theorem L1.conv_eq {V : Type} (a : MArrD1 V) : a.clone.conv = a := rfl

theorem L1.new_ref (d0 : Nat) (v : List Nat) :
    OutR (RL1 d0) (Out.ofOpt (MArrD1.new d0 v))
      (if v.length = d0 then .ok v else .panic) := by
  by_cases h : v.length = d0
  · rw [if_pos h]
    exact OutR.ofOpt_some (a := MArrD1.mk v) (by simp [MArrD1.new, h]) ⟨h, rfl⟩
  · rw [if_neg h]
    exact OutR.ofOpt_none (by simp [MArrD1.new, h])

theorem refinesL1 (nt : Bool) (d0 : Nat) : Refines (kindL1 nt d0) (kindSpec true nt [d0]) (RL1 d0) where
  labelled := rfl
  newtype := rfl
  dims := rfl
  zeros := by
    obtain ⟨a, h1, h2, h3⟩ := L1.zeros_ok (0 : Nat) d0
    exact OutR.ofOpt_some h1 ⟨h2, by rw [h3]; simp [prodDims]⟩
  dflt := by
    obtain ⟨a, h1, h2, h3⟩ := L1.zeros_ok (0 : Nat) d0
    exact OutR.ofOpt_some h1 ⟨h2, by rw [h3]; simp [prodDims]⟩
  fromFn f := by
    obtain ⟨a, h1, h2, h3⟩ := L1.fromFn_ok d0 (fn1 f)
    exact OutR.ofOpt_some h1 ⟨h2, by rw [h3, fn1_map]⟩
  fromIter v _ := by
    have hS : (kindSpec true nt [d0]).fromIter v = if v.length = d0 then .ok v else .panic := by
      simp [kindSpec, prodDims]
    rw [hS]
    exact L1.new_ref d0 v
  fromNested t _ := by
    cases t with
    | n2 v => simp [kindSpec, kindL1, Nested.rank, OutR]
    | n3 v => simp [kindSpec, kindL1, Nested.rank, OutR]
    | n1 v =>
      have hS : (kindSpec true nt [d0]).fromNested (.n1 v) = if v.length = d0 then .ok v else .panic := by
        simp [kindSpec, Nested.rank, Nested.shapeOk, Nested.outerOk, Nested.innerOk, Nested.flat]
      rw [hS]
      exact L1.new_ref d0 v
  index a fl idx h := by
    obtain ⟨hs, hf⟩ := h
    match idx with
    | [] => simp [kindSpec, kindL1]
    | _ :: _ :: _ => simp [kindSpec, kindL1]
    | [i] =>
      by_cases hi : i < d0
      · have : a.index i = fl[i]? := by rw [← hf]; rfl
        simp [kindSpec, kindL1, inShape, hi, this]
      · have := (L1.oob hs i hi 0).1
        have hsh : inShape [d0] [i] = false := by simp [inShape]; omega
        simp [kindSpec, kindL1, this, hsh, Out.ofOpt]
  indexMut a fl idx v h := by
    obtain ⟨hs, hf⟩ := h
    match idx with
    | [] => simp [kindSpec, kindL1, OutR]
    | _ :: _ :: _ => simp [kindSpec, kindL1, OutR]
    | [i] =>
      by_cases hi : i < d0
      · obtain ⟨a', h1, h2, h3⟩ := L1.write hs i hi v
        have hS : (kindSpec true nt [d0]).indexMut fl [i] v = .ok (fl.set i v) := by
          simp [kindSpec, inShape, hi]
        rw [hS]
        exact OutR.ofOpt_some h1 ⟨h2, by rw [h3, hf]⟩
      · have hsh : inShape [d0] [i] = false := by simp [inShape]; omega
        have hS : (kindSpec true nt [d0]).indexMut fl [i] v = .panic := by simp [kindSpec, hsh]
        rw [hS]
        exact OutR.ofOpt_none (L1.oob hs i hi v).2
  dump a fl h := by rw [← h.2]; exact L1.dump_eq h.1
  iterMutAdd a fl c h := by
    obtain ⟨h1, h2⟩ := L1.iterMutApply_ok (imaddFn c) h.1
    exact ⟨h1, by rw [h2, h.2]⟩
  downDump a fl i _ := by simp [kindSpec, kindL1]
  downMutSet a fl i idx v _ := by simp [kindSpec, kindL1, OutR]
  downMutFn a fl i f _ := by simp [kindSpec, kindL1, OutR]
  beq a fl b fl' ha hb := by
    show (a == b) = (fl == fl')
    rw [Bool.eq_iff_iff, beq_iff_eq, beq_iff_eq, ← ha.2, ← hb.2]
    exact ⟨fun h => h ▸ rfl, fun h => toU1_inj h⟩
  clone a fl h := by show RL1 d0 a.clone fl; rw [L1.clone_eq]; exact h
  conv a fl h := by
    show Out.ok (L1.dump d0 a.clone.conv) = _
    rw [L1.conv_eq, L1.dump_eq h.1, h.2]
    simp [kindSpec]
  asRef a fl h := by
    show (Out.ofOpt (a.asRef d0)).map (L1.dump d0) = _
    rw [L1.asRef_ok h.1]
    simp [kindSpec, Out.ofOpt, Out.map, L1.dump_eq h.1, h.2]
  product ws := by simp [kindSpec, kindL1, specProduct, OutR]
  productIter ws := by simp [kindSpec, kindL1, specProduct]
  tryFrom t := by
    cases t with
    | n2 v => simp [kindSpec, kindL1, Nested.rank]
    | n3 v => simp [kindSpec, kindL1, Nested.rank]
    | n1 v =>
      have hS : (kindSpec true nt [d0]).tryFrom (.n1 v) =
          (tresOut (MArrD1.tryFrom cvEven d0 v)).map (·.inner) := by
        simp [kindSpec, Nested.rank, specTryLabelled]
      rw [hS]
      show (tresOut (MArrD1.tryFrom cvEven d0 v)).map (fun a => (L1.dump d0 a).it) = _
      cases ht : MArrD1.tryFrom cvEven d0 v with
      | err e => rfl
      | panic => rfl
      | ok a => simp [tresOut, Out.map, L1.dump_it (L1.tryFrom_ok_shape ht)]
  iterWith a fl h := by
    obtain ⟨hs, hf⟩ := h
    have hl : (lexList [d0]).length = (flat1 a.toU).length := by rw [flat1_length hs]; simp [lexList_length]
    have := iterWith_of _ _ _ hl (U1.idx_lex hs)
    simp [kindL1, kindSpec, mkIterWith, idx1_eq, L1.idx_eq, L1.idx'_toU, this, Out.ofOpt, hf]
  indexes := by simp [kindL1, kindSpec, idx1_eq]
  keys := by simp [kindL1, kindSpec, idx1_eq]
  len := rfl
  resumeIdx := by simp [kindL1, kindSpec, idx1_eq, listResume_eq]
  resumeKeys := by simp [kindL1, kindSpec, idx1_eq, listResume_eq]

end SLV.MArr
