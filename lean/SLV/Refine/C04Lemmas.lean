/-
  Helper lemmas for C04 (deduction, `deduceOf`): rational closed forms (conditional projections,
  the apex uncertainty `uhat`), their algebra, and the staged lift of the model's `let` chain.
  No property statements here.
-/
import SLV.Refine.Lift
import SLV.Refine.ClampLemmas
import SLV.Refine.MinLemmas
import SLV.Model.Cond
import SLV.Props.C09
import Mathlib.Data.Finset.Max
import Mathlib.Data.Finset.Image
import Mathlib.Algebra.Order.Field.Basic

namespace SLV.C04
open SLV Scalar SLV.Props.C09

variable {f : Fmt} {n m : Nat}

/-! ### rational data -/

/-- well-formedness of the rational inputs of a deduction -/
structure Hyp (bx ax : Fin n → ℚ) (ux : ℚ) (cb : Fin n → Fin m → ℚ) (cu : Fin n → ℚ)
    (ay : Fin m → ℚ) : Prop where
  hbx : ∀ x, 0 ≤ bx x
  hux : 0 ≤ ux
  hsx : ∑ x, bx x + ux = 1
  hax0 : ∀ x, 0 ≤ ax x
  hax : ∑ x, ax x = 1
  hcb : ∀ x y, 0 ≤ cb x y
  hcu : ∀ x, 0 ≤ cu x
  hcs : ∀ x, ∑ y, cb x y + cu x = 1
  hay0 : ∀ y, 0 ≤ ay y
  hay : ∑ y, ay y = 1

section defs
variable (bx ax : Fin n → ℚ) (ux : ℚ) (cb : Fin n → Fin m → ℚ) (cu : Fin n → ℚ) (ay : Fin m → ℚ)

/-- projected probability of the conditional for `x`: `P(y|x) = b_{y|x} + a_y u_{Y|x}` -/
def Pc (x : Fin n) (y : Fin m) : ℚ := cb x y + ay y * cu x

/-- projected probability of the antecedent -/
def Px (x : Fin n) : ℚ := bx x + ax x * ux

/-- `P(y ‖ X̂) = Σ_x a_x P(y|x)` -/
def pyhx (y : Fin m) : ℚ := ∑ x, ax x * Pc cb cu ay x y

/-- `P(y ‖ X) = Σ_x P(x) P(y|x)` -/
def ptot (y : Fin m) : ℚ := ∑ x, Px bx ax ux x * Pc cb cu ay x y

/-- smallest conditional belief mass on `y` -/
def bmin (y : Fin m) : ℚ :=
  if h : 0 < n then
    (Finset.univ.image fun x : Fin n => cb x y).min'
      (Finset.image_nonempty.mpr ⟨⟨0, h⟩, Finset.mem_univ _⟩)
  else 0

/-- candidate for the apex uncertainty contributed by `y` -/
def ucand (y : Fin m) : ℚ := (pyhx ax cb cu ay y - bmin cb y) / ay y

/-- the values of `Y` with a positive base rate -/
def supp : Finset (Fin m) := Finset.univ.filter fun y => 0 < ay y

/-- apex uncertainty: the least candidate over values with positive base rate -/
def uhat : ℚ :=
  if h : (supp ay).Nonempty then ((supp ay).image (ucand ax cb cu ay)).min' (h.image _) else 0

/-- uncertainty mass of the deduced opinion -/
def uRes : ℚ := uhat ax cb cu ay * ux + ∑ x, bx x * cu x

/-- belief mass of the deduced opinion -/
def bRes (y : Fin m) : ℚ := ptot bx ax ux cb cu ay y - ay y * uRes bx ax ux cb cu ay

/-- the lifted conditional table -/
def condTab (f : Fmt) : CondTab (XQ f) n m :=
  Vector.ofFn fun x => (⟨liftT (cb x), XQ.fin (cu x)⟩ : Simplex (XQ f) m)

end defs

variable {bx ax : Fin n → ℚ} {ux : ℚ} {cb : Fin n → Fin m → ℚ} {cu : Fin n → ℚ} {ay : Fin m → ℚ}

theorem Hyp.wfx (h : Hyp bx ax ux cb cu ay) : WF bx ux ax :=
  ⟨h.hbx, h.hux, h.hsx, h.hax0, h.hax⟩

theorem Hyp.wfc (h : Hyp bx ax ux cb cu ay) (x : Fin n) : WF (cb x) (cu x) ay :=
  ⟨h.hcb x, h.hcu x, h.hcs x, h.hay0, h.hay⟩

theorem bmin_spec (hn : 0 < n) (cb : Fin n → Fin m → ℚ) (y : Fin m) :
    (∀ x, bmin cb y ≤ cb x y) ∧ ∃ x, bmin cb y = cb x y := by
  unfold bmin
  rw [dif_pos hn]
  constructor
  · intro x
    exact Finset.min'_le _ _ (Finset.mem_image_of_mem _ (Finset.mem_univ x))
  · have := Finset.min'_mem (Finset.univ.image fun x : Fin n => cb x y)
      (Finset.image_nonempty.mpr ⟨⟨0, hn⟩, Finset.mem_univ _⟩)
    obtain ⟨x, _, hx⟩ := Finset.mem_image.mp this
    exact ⟨x, hx.symm⟩

theorem bmin_unique (hn : 0 < n) (cb : Fin n → Fin m → ℚ) (y : Fin m) (q : ℚ)
    (h1 : ∀ x, q ≤ cb x y) (h2 : ∃ x, q = cb x y) : q = bmin cb y := by
  obtain ⟨s1, x1, s2⟩ := bmin_spec hn cb y
  obtain ⟨x2, e2⟩ := h2
  apply le_antisymm
  · rw [s2]; exact h1 x1
  · rw [e2]; exact s1 x2

theorem supp_nonempty (h : Hyp bx ax ux cb cu ay) : (supp ay).Nonempty := by
  by_contra hne
  rw [Finset.not_nonempty_iff_eq_empty] at hne
  have : ∑ y, ay y = 0 := by
    apply Finset.sum_eq_zero
    intro y _
    have hy : y ∉ supp ay := by rw [hne]; exact Finset.notMem_empty y
    unfold supp at hy
    simp only [Finset.mem_filter, Finset.mem_univ, true_and, not_lt] at hy
    exact le_antisymm hy (h.hay0 y)
  rw [h.hay] at this
  exact one_ne_zero this

theorem uhat_spec (h : Hyp bx ax ux cb cu ay) :
    (∀ y, 0 < ay y → uhat ax cb cu ay ≤ ucand ax cb cu ay y) ∧
    ∃ y, 0 < ay y ∧ uhat ax cb cu ay = ucand ax cb cu ay y := by
  have hne := supp_nonempty h
  unfold uhat
  rw [dif_pos hne]
  constructor
  · intro y hy
    apply Finset.min'_le
    apply Finset.mem_image_of_mem
    simp [supp, hy]
  · have := Finset.min'_mem ((supp ay).image (ucand ax cb cu ay)) (hne.image _)
    obtain ⟨y, hy, e⟩ := Finset.mem_image.mp this
    refine ⟨y, ?_, e.symm⟩
    simpa [supp] using hy

theorem uhat_unique (h : Hyp bx ax ux cb cu ay) (q : ℚ)
    (h1 : ∀ y, 0 < ay y → q ≤ ucand ax cb cu ay y)
    (h2 : ∃ y, 0 < ay y ∧ q = ucand ax cb cu ay y) : q = uhat ax cb cu ay := by
  obtain ⟨s1, y1, p1, s2⟩ := uhat_spec h
  obtain ⟨y2, p2, e2⟩ := h2
  apply le_antisymm
  · rw [s2]; exact h1 y1 p1
  · rw [e2]; exact s1 y2 p2

/-! ### algebra -/

theorem sum_Pc (h : Hyp bx ax ux cb cu ay) (x : Fin n) : ∑ y, Pc cb cu ay x y = 1 :=
  sum_proj (h.wfc x)

theorem sum_Px (h : Hyp bx ax ux cb cu ay) : ∑ x, Px bx ax ux x = 1 :=
  sum_proj h.wfx

theorem Pc_nonneg (h : Hyp bx ax ux cb cu ay) (x : Fin n) (y : Fin m) : 0 ≤ Pc cb cu ay x y :=
  add_nonneg (h.hcb x y) (mul_nonneg (h.hay0 y) (h.hcu x))

theorem sum_pyhx (h : Hyp bx ax ux cb cu ay) : ∑ y, pyhx ax cb cu ay y = 1 := by
  unfold pyhx
  rw [Finset.sum_comm]
  simp only [← Finset.mul_sum, sum_Pc h, mul_one, h.hax]

theorem sum_ptot (h : Hyp bx ax ux cb cu ay) : ∑ y, ptot bx ax ux cb cu ay y = 1 := by
  unfold ptot
  rw [Finset.sum_comm]
  simp only [← Finset.mul_sum, sum_Pc h, mul_one, sum_Px h]

theorem bmin_nonneg (hn : 0 < n) (h : Hyp bx ax ux cb cu ay) (y : Fin m) : 0 ≤ bmin cb y := by
  obtain ⟨x, e⟩ := (bmin_spec hn cb y).2
  rw [e]; exact h.hcb x y

/-- (a) the numerator of every candidate is non-negative -/
theorem bmin_le_pyhx (hn : 0 < n) (h : Hyp bx ax ux cb cu ay) (y : Fin m) :
    bmin cb y ≤ pyhx ax cb cu ay y := by
  have h1 : ∑ x, ax x * bmin cb y ≤ ∑ x, ax x * Pc cb cu ay x y := by
    apply Finset.sum_le_sum
    intro x _
    apply mul_le_mul_of_nonneg_left _ (h.hax0 x)
    unfold Pc
    have := (bmin_spec hn cb y).1 x
    have := mul_nonneg (h.hay0 y) (h.hcu x)
    linarith
  rw [← Finset.sum_mul, h.hax, one_mul] at h1
  exact h1

/-- every belief mass of the apex opinion is at least the smallest conditional belief mass -/
theorem apex_ge (hn : 0 < n) (h : Hyp bx ax ux cb cu ay) (y : Fin m) :
    bmin cb y ≤ pyhx ax cb cu ay y - ay y * uhat ax cb cu ay := by
  rcases lt_or_eq_of_le (h.hay0 y) with hpos | hz
  · have := (uhat_spec h).1 y hpos
    unfold ucand at this
    rw [le_div_iff₀ hpos] at this
    linarith
  · rw [← hz, zero_mul, sub_zero]
    exact bmin_le_pyhx hn h y

theorem uhat_nonneg (hn : 0 < n) (h : Hyp bx ax ux cb cu ay) : 0 ≤ uhat ax cb cu ay := by
  obtain ⟨y, hy, e⟩ := (uhat_spec h).2
  rw [e]
  unfold ucand
  apply div_nonneg _ (le_of_lt hy)
  linarith [bmin_le_pyhx hn h y]

theorem uhat_le_one (hn : 0 < n) (h : Hyp bx ax ux cb cu ay) : uhat ax cb cu ay ≤ 1 := by
  have h1 : ∑ y, ay y * uhat ax cb cu ay ≤ ∑ y, pyhx ax cb cu ay y := by
    apply Finset.sum_le_sum
    intro y _
    linarith [apex_ge hn h y, bmin_nonneg hn h y]
  rw [← Finset.sum_mul, h.hay, one_mul, sum_pyhx h] at h1
  exact h1

theorem cu_le_one (h : Hyp bx ax ux cb cu ay) (x : Fin n) : cu x ≤ 1 := by
  have := Finset.sum_nonneg (fun y (_ : y ∈ Finset.univ) => h.hcb x y)
  linarith [h.hcs x]

/-- (c) the model's expression for the uncertainty -/
theorem uRes_eq (h : Hyp bx ax ux cb cu ay) (q : ℚ) :
    q - ∑ x, (q - cu x) * bx x = q * ux + ∑ x, bx x * cu x := by
  have e : ∑ x, (q - cu x) * bx x = q * ∑ x, bx x - ∑ x, bx x * cu x := by
    rw [Finset.mul_sum, ← Finset.sum_sub_distrib]
    apply Finset.sum_congr rfl; intro x _; ring
  rw [e]
  have := h.hsx
  have e2 : ∑ x, bx x = 1 - ux := by linarith
  rw [e2]; ring

theorem uRes_nonneg (hn : 0 < n) (h : Hyp bx ax ux cb cu ay) : 0 ≤ uRes bx ax ux cb cu ay := by
  unfold uRes
  apply add_nonneg (mul_nonneg (uhat_nonneg hn h) h.hux)
  exact Finset.sum_nonneg fun x _ => mul_nonneg (h.hbx x) (h.hcu x)

theorem uRes_le_one (hn : 0 < n) (h : Hyp bx ax ux cb cu ay) : uRes bx ax ux cb cu ay ≤ 1 := by
  unfold uRes
  have h1 : uhat ax cb cu ay * ux ≤ ux := by
    have := mul_le_mul_of_nonneg_right (uhat_le_one hn h) h.hux
    linarith
  have h2 : ∑ x, bx x * cu x ≤ ∑ x, bx x := by
    apply Finset.sum_le_sum; intro x _
    have := mul_le_mul_of_nonneg_left (cu_le_one h x) (h.hbx x)
    linarith
  linarith [h.hsx]

theorem sum_bRes (h : Hyp bx ax ux cb cu ay) :
    ∑ y, bRes bx ax ux cb cu ay y + uRes bx ax ux cb cu ay = 1 := by
  unfold bRes
  rw [Finset.sum_sub_distrib, sum_ptot h, ← Finset.sum_mul, h.hay]; ring

/-- the mixture form of the belief masses -/
theorem bRes_mixture (bx ax : Fin n → ℚ) (ux : ℚ) (cb : Fin n → Fin m → ℚ) (cu : Fin n → ℚ)
    (ay : Fin m → ℚ) (y : Fin m) :
    bRes bx ax ux cb cu ay y
      = ∑ x, bx x * cb x y + ux * (pyhx ax cb cu ay y - ay y * uhat ax cb cu ay) := by
  unfold bRes ptot uRes pyhx Px Pc
  have e : ∀ x, (bx x + ax x * ux) * (cb x y + ay y * cu x)
      = bx x * cb x y + ux * (ax x * (cb x y + ay y * cu x)) + ay y * (bx x * cu x) := by
    intro x; ring
  simp only [e, Finset.sum_add_distrib, ← Finset.mul_sum]
  ring

theorem bRes_nonneg (hn : 0 < n) (h : Hyp bx ax ux cb cu ay) (y : Fin m) :
    0 ≤ bRes bx ax ux cb cu ay y := by
  rw [bRes_mixture]
  apply add_nonneg
  · exact Finset.sum_nonneg fun x _ => mul_nonneg (h.hbx x) (h.hcb x y)
  · apply mul_nonneg h.hux
    linarith [apex_ge hn h y, bmin_nonneg hn h y]

theorem Hyp.npos (h : Hyp bx ax ux cb cu ay) : 0 < n := by
  rcases Nat.eq_zero_or_pos n with h0 | hpos
  · subst h0
    have := h.hax
    simp at this
  · exact hpos

theorem Hyp.mpos (h : Hyp bx ax ux cb cu ay) : 0 < m := by
  obtain ⟨y, _⟩ := supp_nonempty h
  exact y.pos

/-- an absolute antecedent: all mass on `x0` -/
theorem absolute_bx (h : Hyp bx ax ux cb cu ay) (x0 : Fin n) (h1 : bx x0 = 1) :
    ux = 0 ∧ ∀ x, x ≠ x0 → bx x = 0 := by
  have hs := h.hsx
  rw [← Finset.add_sum_erase _ _ (Finset.mem_univ x0), h1] at hs
  have hnn : 0 ≤ ∑ x ∈ Finset.univ.erase x0, bx x := Finset.sum_nonneg fun x _ => h.hbx x
  have hz : ∑ x ∈ Finset.univ.erase x0, bx x = 0 := by linarith [h.hux]
  refine ⟨by linarith [h.hux], ?_⟩
  intro x hx
  exact (Finset.sum_eq_zero_iff_of_nonneg fun x _ => h.hbx x).mp hz x
    (Finset.mem_erase.mpr ⟨hx, Finset.mem_univ x⟩)

theorem vacuous_bx (h : Hyp bx ax ux cb cu ay) (h1 : ux = 1) : ∀ x, bx x = 0 := by
  have hs := h.hsx
  have hz : ∑ x, bx x = 0 := by linarith
  intro x
  exact (Finset.sum_eq_zero_iff_of_nonneg fun x _ => h.hbx x).mp hz x (Finset.mem_univ x)

theorem bRes_absolute (h : Hyp bx ax ux cb cu ay) (x0 : Fin n) (h1 : bx x0 = 1) (y : Fin m) :
    bRes bx ax ux cb cu ay y = cb x0 y := by
  obtain ⟨hu, hb⟩ := absolute_bx h x0 h1
  rw [bRes_mixture, hu, zero_mul, add_zero,
    Finset.sum_eq_single x0 (fun x _ hx => by rw [hb x hx, zero_mul])
      (fun hx => absurd (Finset.mem_univ x0) hx), h1, one_mul]

theorem uRes_absolute (h : Hyp bx ax ux cb cu ay) (x0 : Fin n) (h1 : bx x0 = 1) :
    uRes bx ax ux cb cu ay = cu x0 := by
  obtain ⟨hu, hb⟩ := absolute_bx h x0 h1
  unfold uRes
  rw [hu, mul_zero, zero_add,
    Finset.sum_eq_single x0 (fun x _ hx => by rw [hb x hx, zero_mul])
      (fun hx => absurd (Finset.mem_univ x0) hx), h1, one_mul]

theorem bRes_vacuous (h : Hyp bx ax ux cb cu ay) (h1 : ux = 1) (y : Fin m) :
    bRes bx ax ux cb cu ay y = pyhx ax cb cu ay y - ay y * uhat ax cb cu ay := by
  have hb := vacuous_bx h h1
  rw [bRes_mixture, h1, one_mul, Finset.sum_eq_zero (fun x _ => by rw [hb x, zero_mul]), zero_add]

theorem uRes_vacuous (h : Hyp bx ax ux cb cu ay) (h1 : ux = 1) :
    uRes bx ax ux cb cu ay = uhat ax cb cu ay := by
  have hb := vacuous_bx h h1
  unfold uRes
  rw [h1, mul_one, Finset.sum_eq_zero (fun x _ => by rw [hb x, zero_mul]), add_zero]

/-! ### staged lift of `deduceOf` -/

theorem condTab_get (x : Fin n) :
    (condTab cb cu f)[x] = (⟨liftT (cb x), XQ.fin (cu x)⟩ : Simplex (XQ f) m) := by
  simp [condTab]

/-- (i) the conditional projections -/
theorem condP_get (h : Hyp bx ax ux cb cu ay) (x : Fin n) :
    (projections (condTab cb cu f) (liftT ay))[x] = liftT (Pc cb cu ay x) := by
  unfold projections
  rw [Fin.getElem_fin, Vector.getElem_map, ← Fin.getElem_fin, condTab_get]
  exact C09_projection (h.wfc x)

/-- (ii) the vector `P(y ‖ X̂)` -/
theorem pyhx_lift (h : Hyp bx ax ux cb cu ay) :
    (Vector.ofFn fun y : Fin m => Tab.sumIter (Vector.ofFn fun x : Fin n =>
        (liftT ax : Tab (XQ f) n)[x] * ((projections (condTab cb cu f) (liftT ay))[x])[y]))
      = liftT (pyhx ax cb cu ay) := by
  apply Vector.ext; intro i hi
  simp only [Vector.getElem_ofFn, liftT_getElem', condP_get h, liftT_getElem, XQ.mul_fin,
    sumIter_ofFn_fin, pyhx]

/-- (iii) the inner minimum -/
theorem inner_min (hn : 0 < n) (y : Fin m) :
    Tab.reduceMin (Vector.ofFn fun x : Fin n => ((condTab cb cu f)[x]).b[y]) = XQ.fin (bmin cb y) := by
  have e : (Vector.ofFn fun x : Fin n => ((condTab cb cu f)[x]).b[y])
      = liftT (fun x => cb x y) := by
    apply Vector.ext; intro i hi
    simp only [Vector.getElem_ofFn, condTab_get, liftT_getElem, liftT_getElem']
  rw [e]
  obtain ⟨q, h1, h2, h3⟩ := reduceMin_liftT (f := f) (fun x => cb x y) hn
  rw [h1, bmin_unique hn cb y q h2 h3]

/-- (iv) the candidate entries -/
theorem cand_entry (hn : 0 < n) (h : Hyp bx ax ux cb cu ay) (y : Fin m) :
    (0 < ay y → (XQ.fin (pyhx ax cb cu ay y) - XQ.fin (bmin cb y)) / (XQ.fin (ay y) : XQ f)
        = XQ.fin (ucand ax cb cu ay y)) ∧
    (ay y = 0 → (XQ.fin (pyhx ax cb cu ay y) - XQ.fin (bmin cb y)) / (XQ.fin (ay y) : XQ f) = XQ.pinf
      ∨ (XQ.fin (pyhx ax cb cu ay y) - XQ.fin (bmin cb y)) / (XQ.fin (ay y) : XQ f) = XQ.nan) := by
  constructor
  · intro hpos
    rw [XQ.sub_fin, XQ.div_fin _ _ (ne_of_gt hpos)]; rfl
  · intro hz
    rw [XQ.sub_fin, hz]
    have hnum := bmin_le_pyhx hn h y
    show XQ.div _ _ = _ ∨ XQ.div _ _ = _
    rcases lt_or_eq_of_le hnum with hlt | heq
    · left
      have : 0 < pyhx ax cb cu ay y - bmin cb y := by linarith
      simp [XQ.div, this, ne_of_gt this]
    · right
      simp [XQ.div, heq]

/-- (iv)+(v) the apex uncertainty -/
theorem uyhx_lift (hn : 0 < n) (h : Hyp bx ax ux cb cu ay) :
    Tab.reduceMin (Vector.ofFn fun y : Fin m =>
        (XQ.fin (pyhx ax cb cu ay y) - XQ.fin (bmin cb y)) / (XQ.fin (ay y) : XQ f))
      = XQ.fin (uhat ax cb cu ay) := by
  set v : Tab (XQ f) m := Vector.ofFn fun y : Fin m =>
        (XQ.fin (pyhx ax cb cu ay y) - XQ.fin (bmin cb y)) / (XQ.fin (ay y) : XQ f) with hv
  have hget : ∀ y : Fin m, v[y] =
      (XQ.fin (pyhx ax cb cu ay y) - XQ.fin (bmin cb y)) / (XQ.fin (ay y) : XQ f) := by
    intro y; simp [hv]
  have hcls : ∀ y : Fin m, Skippable v[y] := by
    intro y
    rw [hget]
    rcases lt_or_eq_of_le (h.hay0 y) with hpos | hz
    · rw [(cand_entry hn h y).1 hpos]; exact Skippable.fin _
    · rcases (cand_entry (f := f) hn h y).2 hz.symm with e | e
      · rw [e]; exact Or.inr (Or.inl rfl)
      · rw [e]; exact Or.inr (Or.inr rfl)
  have hfin : ∀ (y : Fin m) q, v[y] = XQ.fin q → 0 < ay y ∧ q = ucand ax cb cu ay y := by
    intro y q hq
    rw [hget] at hq
    rcases lt_or_eq_of_le (h.hay0 y) with hpos | hz
    · rw [(cand_entry hn h y).1 hpos] at hq
      cases hq; exact ⟨hpos, rfl⟩
    · rcases (cand_entry (f := f) hn h y).2 hz.symm with e | e <;> rw [e] at hq <;> cases hq
  obtain ⟨y0, hy0, _⟩ := (uhat_spec h).2
  obtain ⟨q, r1, r2, ⟨y1, r3⟩⟩ := reduceMin_skip v hcls
    ⟨y0, _, by rw [hget, (cand_entry hn h y0).1 hy0]⟩
  rw [r1]
  congr 1
  apply uhat_unique h
  · intro y hy
    exact r2 y _ (by rw [hget, (cand_entry hn h y).1 hy])
  · exact ⟨y1, hfin y1 q r3⟩

theorem deduceOf_lift (hn : 0 < n) (h : Hyp bx ax ux cb cu ay) :
    deduceOf (⟨liftT bx, XQ.fin ux, liftT ax⟩ : Opinion (XQ f) n) (condTab cb cu f) (liftT ay)
      = ⟨liftT (bRes bx ax ux cb cu ay), XQ.fin (uRes bx ax ux cb cu ay), liftT ay⟩ := by
  unfold deduceOf
  simp only [pyhx_lift h]
  simp only [inner_min hn, liftT_getElem]
  simp only [uyhx_lift hn h]
  simp only [condTab_get, XQ.sub_fin, XQ.mul_fin, sumIter_ofFn_fin, uRes_eq h, Opinion.projection,
    C09_projection h.wfx, condP_get h, liftT_getElem]
  -- repair 9ec2d8b: the clamps are the identity, `uRes ≥ 0` and every `bRes y ≥ 0`
  have hu : max (uhat ax cb cu ay * ux + ∑ x, bx x * cu x) 0 = uRes bx ax ux cb cu ay :=
    max_eq_left (uRes_nonneg hn h)
  have hb : ∀ y : Fin m, max (∑ i, (bx i + ax i * ux) * Pc cb cu ay i y - ay y * uRes bx ax ux cb cu ay) 0
      = bRes bx ax ux cb cu ay y := fun y => max_eq_left (bRes_nonneg hn h y)
  simp only [XQ.clamp_fin, hu, XQ.sub_fin, XQ.mul_fin, hb]
  show Opinion.mk' (Simplex.normalized (liftT (bRes bx ax ux cb cu ay))
    (XQ.fin (uRes bx ax ux cb cu ay))) (liftT ay) = _
  unfold Simplex.normalized Opinion.mk'
  simp only [sumIter_liftT, XQ.add_fin, sum_bRes h, XQ.div_fin_one]
  rw [liftT_map _ _ (fun q => q) (by intro q; simp)]

end SLV.C04
