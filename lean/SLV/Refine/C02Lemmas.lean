/-
  Helper lemmas for the C02 / C03 witnesses: evaluation of the value-level `ulps_eq!` (`XQ.ulpsEq`, `ulpIdx`)
  at a few concrete f32 values.  No property statements here.
-/
import SLV.Refine.FuseLemmas
import Mathlib.Data.Fin.VecNotation

namespace SLV
open FuseQ


theorem log2_vals : Nat.log2 1 = 0 ∧ Nat.log2 2 = 1 ∧ Nat.log2 8388607 = 22 ∧ Nat.log2 16777216 = 24 := by decide

theorem pow2_neg (k : Nat) (hk : 0 < k) : Fmt.pow2 (-(k : ℤ)) = 1 / (2 : ℚ) ^ k := by
  unfold Fmt.pow2
  have : ¬ (-(k : ℤ) ≥ 0) := by omega
  rw [if_neg this]
  simp

theorem ilog2_half : ilog2 (1/2 : ℚ) = -1 := by
  unfold ilog2
  have h1 : (1/2 : ℚ).num = 1 := by simp
  have h2 : (1/2 : ℚ).den = 2 := by simp
  simp only [h1, h2]
  have : (1:ℤ).toNat = 1 := rfl
  simp only [this, log2_vals.1, log2_vals.2.1]
  have e1 : ((0:ℕ):ℤ) - ((1:ℕ):ℤ) = -((1:ℕ):ℤ) := by norm_num
  have e2 : -((1:ℕ):ℤ) + 1 = 0 := by norm_num
  rw [e1, e2, pow2_neg 1 one_pos]
  norm_num [Fmt.pow2]

theorem ilog2_a : ilog2 (8388607/16777216 : ℚ) = -2 := by
  unfold ilog2
  have h1 : (8388607/16777216 : ℚ).num = 8388607 := by
    have := Rat.num_div_eq_of_coprime (a := 8388607) (b := 16777216) (by norm_num) (by decide)
    simpa using this
  have h2 : (8388607/16777216 : ℚ).den = 16777216 := by
    have := Rat.den_div_eq_of_coprime (a := 8388607) (b := 16777216) (by norm_num) (by decide)
    have h : (((8388607/16777216 : ℚ).den : ℕ) : ℤ) = ((16777216 : ℕ) : ℤ) := by simpa using this
    exact Int.natCast_inj.mp h
  simp only [h1, h2]
  have : (8388607:ℤ).toNat = 8388607 := rfl
  simp only [this, log2_vals.2.2.1, log2_vals.2.2.2]
  have e1 : ((22:ℕ):ℤ) - ((24:ℕ):ℤ) = -((2:ℕ):ℤ) := by norm_num
  have e2 : -((2:ℕ):ℤ) + 1 = -((1:ℕ):ℤ) := by norm_num
  rw [e1, e2, pow2_neg 1 one_pos, pow2_neg 2 two_pos]
  norm_num

theorem ulpIdx_normal (f : Fmt) (q : ℚ) (e : ℤ) (hq : 0 ≤ q) (hn : ¬ q < Fmt.pow2 f.emin)
    (he : ilog2 q = e) :
    ulpIdx f q = (((e - f.emin + 1 : ℤ) : ℚ)) * ((2 ^ f.mant : Nat) : ℚ)
      + (q / Fmt.pow2 e - 1) * ((2 ^ f.mant : Nat) : ℚ) := by
  unfold ulpIdx
  simp only [not_lt.mpr hq, if_false, hn, he]

theorem idx_zero : ulpIdx .f32 0 = 0 := by
  unfold ulpIdx
  have : (0:ℚ) < Fmt.pow2 (Fmt.f32).emin := by
    show (0:ℚ) < Fmt.pow2 (-((126:ℕ):ℤ))
    rw [pow2_neg 126 (by norm_num)]; positivity
  simp [this]

theorem emin32 : Fmt.pow2 (Fmt.f32).emin = 1 / (2:ℚ)^126 := by
  show Fmt.pow2 (-((126:ℕ):ℤ)) = _
  exact pow2_neg 126 (by norm_num)

theorem idx_half : ulpIdx .f32 (1/2) = 1056964608 := by
  rw [ulpIdx_normal .f32 (1/2) (-1) (by norm_num) (by rw [emin32]; norm_num) ilog2_half]
  have : Fmt.pow2 (-1) = 1 / (2:ℚ)^1 := pow2_neg 1 one_pos
  rw [this]
  norm_num [Fmt.emin, Fmt.mant]

theorem idx_a : ulpIdx .f32 (8388607/16777216) = 1056964606 := by
  rw [ulpIdx_normal .f32 _ (-2) (by norm_num) (by rw [emin32]; norm_num) ilog2_a]
  have : Fmt.pow2 (-2) = 1 / (2:ℚ)^2 := pow2_neg 2 two_pos
  rw [this]
  norm_num [Fmt.emin, Fmt.mant]

/-- `ulps_eq!` at f32: `1/2` and `0` are not equal (either order) -/
theorem ulpsEq32_half_zero :
    XQ.ulpsEq (XQ.fin (1/2) : XQ .f32) (XQ.fin 0) = false ∧
    XQ.ulpsEq (XQ.fin 0 : XQ .f32) (XQ.fin (1/2)) = false := by
  constructor
  · show (decide (XQ.absQ ((1/2 : ℚ) - 0) ≤ Fmt.f32.eps) ||
      (decide ((0 ≤ (1/2 : ℚ)) ↔ (0 ≤ (0 : ℚ))) &&
        decide (XQ.absQ (ulpIdx .f32 (1/2) - ulpIdx .f32 0) ≤ 4))) = false
    rw [idx_zero, idx_half]
    norm_num [XQ.absQ, Fmt.eps, Fmt.mant]
  · show (decide (XQ.absQ ((0 : ℚ) - 1/2) ≤ Fmt.f32.eps) ||
      (decide ((0 ≤ (0 : ℚ)) ↔ (0 ≤ (1/2 : ℚ))) &&
        decide (XQ.absQ (ulpIdx .f32 0 - ulpIdx .f32 (1/2)) ≤ 4))) = false
    rw [idx_zero, idx_half]
    norm_num [XQ.absQ, Fmt.eps, Fmt.mant]

/-- `1/2 - ε/2` and `0` are not `ulps_eq!` at f32 -/
theorem ulpsEq32_a_zero :
    XQ.ulpsEq (XQ.fin (8388607/16777216) : XQ .f32) (XQ.fin 0) = false := by
  show (decide (XQ.absQ ((8388607/16777216 : ℚ) - 0) ≤ Fmt.f32.eps) ||
    (decide ((0 ≤ (8388607/16777216 : ℚ)) ↔ (0 ≤ (0 : ℚ))) &&
      decide (XQ.absQ (ulpIdx .f32 (8388607/16777216) - ulpIdx .f32 0) ≤ 4))) = false
  rw [idx_zero, idx_a]
  norm_num [XQ.absQ, Fmt.eps, Fmt.mant]

/-- `1/2 + ε/2` and `1/2` ARE `ulps_eq!` at f32 (they differ by `ε/2 ≤ ε`) -/
theorem ulpsEq32_b_half :
    XQ.ulpsEq (XQ.fin (8388609/16777216) : XQ .f32) (XQ.fin (1/2)) = true := by
  show (decide (XQ.absQ ((8388609/16777216 : ℚ) - 1/2) ≤ Fmt.f32.eps) ||
    (decide ((0 ≤ (8388609/16777216 : ℚ)) ↔ (0 ≤ (1/2 : ℚ))) &&
      decide (XQ.absQ (ulpIdx .f32 (8388609/16777216) - ulpIdx .f32 (1/2)) ≤ 4))) = true
  have : decide (XQ.absQ ((8388609/16777216 : ℚ) - 1/2) ≤ Fmt.f32.eps) = true := by
    norm_num [XQ.absQ, Fmt.eps, Fmt.mant]
  rw [this, Bool.true_or]

/-- two different f32 base rates: the shortcut is only taken where they agree (true of ANY two base rates since repair
    c8a7116, `FuseQ.hsc`; with the `ulps_eq!` shortcut this needed the two lemmas above) -/
theorem hsc32_witness : ∀ i, sc Fmt.f32 (n := 3) ![1/2, 1/2, 0] ![1/2, 0, 1/2] i = true →
    (![1/2, 1/2, 0] : Fin 3 → ℚ) i = (![1/2, 0, 1/2] : Fin 3 → ℚ) i := FuseQ.hsc _ _

end SLV
