/-
  Helper lemmas for C12 (binomial multiplication / comultiplication):
  * commutativity of the exact `XQ` addition and multiplication (all values, also `±inf`, `nan`);
  * the rational closed forms `mulB/mulD/mulU`, `comulB/comulD/comulU` and their algebra
    (non-negativity, sum one, projection, duality under negation);
  * the "lift" of `BOp.mul` / `BOp.comul` on finite operands to `BOp.tryNew` of the closed forms.  Since repair d46c983 both
    operators divide `(b, d, u)` by `s = b + d + u` before the checked constructor: the closed forms add up to
    `(b₁+u₁)(b₂+u₂) + d₁ + d₂ - d₁d₂` resp. `(d₁+u₁)(d₂+u₂) + b₁ + b₂ - b₁b₂` (`mul_sum_gen`, `comul_sum_gen`), which is 1 as
    soon as both operands add up to 1 (`mul_sum`, `comul_sum`), so on such operands the division changes nothing (one lifting
    step `BOp.norm_one`, as for the fusions); for arbitrary finite operands with a non-zero sum the lift carries the
    quotient (`mul_fin_gen`, `comul_fin_gen`).
  No property statements here.
-/
import SLV.Refine.Lift
import SLV.Refine.C10Lemmas
import SLV.Refine.C19Lemmas
import SLV.Props.C10
import SLV.Model.Bi

namespace SLV
open Scalar
open SLV.Props.C10 (BWF)

variable {f : Fmt}

/-! ### commutativity of the exact arithmetic (every value) -/

namespace XQ

theorem add_comm' (a b : XQ f) : (a + b : XQ f) = b + a := by
  show XQ.add a b = XQ.add b a
  cases a <;> cases b <;> simp [XQ.add, add_comm]

theorem mul_comm' (a b : XQ f) : (a * b : XQ f) = b * a := by
  show XQ.mul a b = XQ.mul b a
  cases a <;> cases b <;> simp [XQ.mul, mul_comm, XQ.nonneg, XQ.isZeroFin]

theorem div_fin_zero_zero {a b : ℚ} (ha : a = 0) (hb : b = 0) :
    ((fin a : XQ f) / fin b) = nan := by
  show XQ.div (fin a) (fin b) = nan
  simp [XQ.div, ha, hb]

theorem fin_add_nan (a : ℚ) : ((fin a : XQ f) + nan) = nan := rfl

theorem nan_add (a : XQ f) : ((nan : XQ f) + a) = nan := by
  show XQ.add nan a = nan
  simp [XQ.add]

theorem nan_div (a : XQ f) : ((nan : XQ f) / a) = nan := by
  show XQ.div nan a = nan
  cases a <;> simp [XQ.div]

theorem nan_mul (a : XQ f) : ((nan : XQ f) * a) = nan := by
  show XQ.mul nan a = nan
  simp [XQ.mul]

theorem fin_div_nan (a : ℚ) : ((fin a : XQ f) / nan) = nan := by
  show XQ.div (fin a) nan = nan
  simp [XQ.div]

end XQ

namespace C12

/-! ### closed forms over ℚ -/

/-- belief of the product -/
def mulB (b₁ u₁ a₁ b₂ u₂ a₂ : ℚ) : ℚ :=
  b₁ * b₂ + ((1 - a₁) * a₂ * b₁ * u₂ + (1 - a₂) * a₁ * b₂ * u₁) / (1 - a₁ * a₂)

/-- disbelief of the product -/
def mulD (d₁ d₂ : ℚ) : ℚ := d₁ + d₂ - d₁ * d₂

/-- uncertainty of the product -/
def mulU (b₁ u₁ a₁ b₂ u₂ a₂ : ℚ) : ℚ :=
  u₁ * u₂ + ((1 - a₂) * b₁ * u₂ + (1 - a₁) * b₂ * u₁) / (1 - a₁ * a₂)

/-- base rate of the coproduct -/
def comulA (a₁ a₂ : ℚ) : ℚ := a₁ + a₂ - a₁ * a₂

/-- belief of the coproduct -/
def comulB (b₁ b₂ : ℚ) : ℚ := b₁ + b₂ - b₁ * b₂

/-- disbelief of the coproduct -/
def comulD (d₁ u₁ a₁ d₂ u₂ a₂ : ℚ) : ℚ :=
  d₁ * d₂ + (a₁ * (1 - a₂) * d₁ * u₂ + a₂ * (1 - a₁) * d₂ * u₁) / (a₁ + a₂ - a₁ * a₂)

/-- uncertainty of the coproduct -/
def comulU (d₁ u₁ a₁ d₂ u₂ a₂ : ℚ) : ℚ :=
  u₁ * u₂ + (a₂ * d₁ * u₂ + a₁ * d₂ * u₁) / (a₁ + a₂ - a₁ * a₂)

/-- the evaluation order of the code since repair a66cfd4 (weights `a₁ / a`, `a₂ / a` formed first) is the closed form -/
theorem comulD_weights (d₁ u₁ a₁ d₂ u₂ a₂ : ℚ) :
    d₁ * d₂ + (a₁ / (a₁ + a₂ - a₁ * a₂) * (1 - a₂) * d₁ * u₂ + a₂ / (a₁ + a₂ - a₁ * a₂) * (1 - a₁) * d₂ * u₁)
      = comulD d₁ u₁ a₁ d₂ u₂ a₂ := by
  unfold comulD; ring

theorem comulU_weights (d₁ u₁ a₁ d₂ u₂ a₂ : ℚ) :
    u₁ * u₂ + (a₂ / (a₁ + a₂ - a₁ * a₂) * d₁ * u₂ + a₁ / (a₁ + a₂ - a₁ * a₂) * d₂ * u₁)
      = comulU d₁ u₁ a₁ d₂ u₂ a₂ := by
  unfold comulU; ring

/-! ### the denominators -/

theorem mul_le_one_of_unit {a₁ a₂ : ℚ} (_h10 : 0 ≤ a₁) (h11 : a₁ ≤ 1) (h20 : 0 ≤ a₂) (h21 : a₂ ≤ 1) :
    a₁ * a₂ ≤ 1 := by
  nlinarith [mul_nonneg (sub_nonneg.mpr h11) h20]

theorem mul_den_pos {a₁ a₂ : ℚ} (h10 : 0 ≤ a₁) (h11 : a₁ ≤ 1) (h20 : 0 ≤ a₂) (h21 : a₂ ≤ 1)
    (hne : a₁ * a₂ ≠ 1) : 0 < 1 - a₁ * a₂ := by
  have := mul_le_one_of_unit h10 h11 h20 h21
  have : a₁ * a₂ < 1 := lt_of_le_of_ne this hne
  linarith

theorem comul_den_nonneg {a₁ a₂ : ℚ} (_h10 : 0 ≤ a₁) (h11 : a₁ ≤ 1) (h20 : 0 ≤ a₂) :
    0 ≤ a₁ + a₂ - a₁ * a₂ := by
  nlinarith [mul_nonneg (sub_nonneg.mpr h11) h20]

theorem comul_den_pos {a₁ a₂ : ℚ} (h10 : 0 ≤ a₁) (h11 : a₁ ≤ 1) (h20 : 0 ≤ a₂)
    (hne : a₁ + a₂ - a₁ * a₂ ≠ 0) : 0 < a₁ + a₂ - a₁ * a₂ :=
  lt_of_le_of_ne (comul_den_nonneg h10 h11 h20) (Ne.symm hne)

theorem comul_den_le_one {a₁ a₂ : ℚ} (h11 : a₁ ≤ 1) (h21 : a₂ ≤ 1) :
    a₁ + a₂ - a₁ * a₂ ≤ 1 := by
  nlinarith [mul_nonneg (sub_nonneg.mpr h11) (sub_nonneg.mpr h21)]

/-- for base rates in [0,1]: `a₁ a₂ = 1` iff both are 1 -/
theorem mul_eq_one_iff {a₁ a₂ : ℚ} (h10 : 0 ≤ a₁) (h11 : a₁ ≤ 1) (h20 : 0 ≤ a₂) (h21 : a₂ ≤ 1) :
    a₁ * a₂ = 1 ↔ a₁ = 1 ∧ a₂ = 1 := by
  constructor
  · intro h
    have h1 : a₁ * a₂ ≤ a₁ := by nlinarith [mul_nonneg h10 (sub_nonneg.mpr h21)]
    have h2 : a₁ * a₂ ≤ a₂ := by nlinarith [mul_nonneg (sub_nonneg.mpr h11) h20]
    exact ⟨le_antisymm h11 (by linarith), le_antisymm h21 (by linarith)⟩
  · rintro ⟨rfl, rfl⟩; norm_num

/-- for base rates in [0,1]: `a₁ + a₂ - a₁ a₂ = 0` iff both are 0 -/
theorem comul_eq_zero_iff {a₁ a₂ : ℚ} (h10 : 0 ≤ a₁) (h11 : a₁ ≤ 1) (h20 : 0 ≤ a₂) (h21 : a₂ ≤ 1) :
    a₁ + a₂ - a₁ * a₂ = 0 ↔ a₁ = 0 ∧ a₂ = 0 := by
  constructor
  · intro h
    have h1 : a₁ ≤ a₁ + a₂ - a₁ * a₂ := by nlinarith [mul_nonneg (sub_nonneg.mpr h11) h20]
    have h2 : a₂ ≤ a₁ + a₂ - a₁ * a₂ := by nlinarith [mul_nonneg h10 (sub_nonneg.mpr h21)]
    exact ⟨le_antisymm (by linarith) h10, le_antisymm (by linarith) h20⟩
  · rintro ⟨rfl, rfl⟩; norm_num

/-! ### algebra of the product -/

theorem mulD_eq (d₁ d₂ : ℚ) : mulD d₁ d₂ = 1 - (1 - d₁) * (1 - d₂) := by
  unfold mulD; ring

/-- `b + d + u` of the product, for ANY rationals with a non-zero denominator:
    `(b₁+u₁)(b₂+u₂) + d₁ + d₂ - d₁ d₂` -/
theorem mul_sum_gen {b₁ d₁ u₁ a₁ b₂ d₂ u₂ a₂ : ℚ} (hk : 1 - a₁ * a₂ ≠ 0) :
    mulB b₁ u₁ a₁ b₂ u₂ a₂ + mulD d₁ d₂ + mulU b₁ u₁ a₁ b₂ u₂ a₂
      = (b₁ + u₁) * (b₂ + u₂) + d₁ + d₂ - d₁ * d₂ := by
  unfold mulB mulD mulU
  field_simp
  ring

/-- the closed-form product of operands that add up to 1 (no sign condition) adds up to 1 -/
theorem mul_sum {b₁ d₁ u₁ a₁ b₂ d₂ u₂ a₂ : ℚ} (hs₁ : b₁ + d₁ + u₁ = 1) (hs₂ : b₂ + d₂ + u₂ = 1)
    (hk : 1 - a₁ * a₂ ≠ 0) :
    mulB b₁ u₁ a₁ b₂ u₂ a₂ + mulD d₁ d₂ + mulU b₁ u₁ a₁ b₂ u₂ a₂ = 1 := by
  rw [mul_sum_gen hk]
  have e₁ : b₁ + u₁ = 1 - d₁ := by linarith
  have e₂ : b₂ + u₂ = 1 - d₂ := by linarith
  rw [e₁, e₂]; ring

/-- projection of the product, for ANY rationals with a non-zero denominator -/
theorem mul_proj_gen {b₁ u₁ a₁ b₂ u₂ a₂ : ℚ} (hk : 1 - a₁ * a₂ ≠ 0) :
    mulB b₁ u₁ a₁ b₂ u₂ a₂ + a₁ * a₂ * mulU b₁ u₁ a₁ b₂ u₂ a₂
      = (b₁ + a₁ * u₁) * (b₂ + a₂ * u₂) := by
  unfold mulB mulU
  field_simp
  ring

theorem mul_bwf {b₁ d₁ u₁ a₁ b₂ d₂ u₂ a₂ : ℚ} (h₁ : BWF b₁ d₁ u₁ a₁) (h₂ : BWF b₂ d₂ u₂ a₂)
    (hne : a₁ * a₂ ≠ 1) :
    BWF (mulB b₁ u₁ a₁ b₂ u₂ a₂) (mulD d₁ d₂) (mulU b₁ u₁ a₁ b₂ u₂ a₂) (a₁ * a₂) := by
  have hk := mul_den_pos h₁.ha0 h₁.ha1 h₂.ha0 h₂.ha1 hne
  have hd₁ : d₁ ≤ 1 := by linarith [h₁.hs, h₁.hb, h₁.hu]
  have hd₂ : d₂ ≤ 1 := by linarith [h₂.hs, h₂.hb, h₂.hu]
  have ha₁ := sub_nonneg.mpr h₁.ha1
  have ha₂ := sub_nonneg.mpr h₂.ha1
  refine ⟨?_, ?_, ?_, ?_, mul_nonneg h₁.ha0 h₂.ha0, mul_le_one_of_unit h₁.ha0 h₁.ha1 h₂.ha0 h₂.ha1⟩
  · unfold mulB
    have hb₁ := h₁.hb; have hb₂ := h₂.hb; have hu₁ := h₁.hu; have hu₂ := h₂.hu
    have h10 := h₁.ha0; have h20 := h₂.ha0
    positivity
  · unfold mulD
    nlinarith [mul_nonneg h₁.hd (sub_nonneg.mpr hd₂), h₂.hd]
  · unfold mulU
    have hb₁ := h₁.hb; have hb₂ := h₂.hb; have hu₁ := h₁.hu; have hu₂ := h₂.hu
    positivity
  · rw [mul_sum_gen hk.ne']
    have e₁ : b₁ + u₁ = 1 - d₁ := by linarith [h₁.hs]
    have e₂ : b₂ + u₂ = 1 - d₂ := by linarith [h₂.hs]
    rw [e₁, e₂]; ring

/-! ### negation duality of the closed forms -/

theorem bwf_neg {b d u a : ℚ} (h : BWF b d u a) : BWF d b u (1 - a) :=
  ⟨h.hd, h.hb, h.hu, by linarith [h.hs], by linarith [h.ha1], by linarith [h.ha0]⟩

theorem comulA_neg (a₁ a₂ : ℚ) : comulA (1 - a₁) (1 - a₂) = 1 - a₁ * a₂ := by
  unfold comulA; ring

theorem comulA_eq (a₁ a₂ : ℚ) : comulA a₁ a₂ = 1 - (1 - a₁) * (1 - a₂) := by
  unfold comulA; ring

theorem comulB_eq_mulD (b₁ b₂ : ℚ) : comulB b₁ b₂ = mulD b₁ b₂ := rfl

/-- `comul.d (¬x, ¬y) = mul.b (x, y)` as rational functions -/
theorem comulD_neg (b₁ u₁ a₁ b₂ u₂ a₂ : ℚ) :
    comulD b₁ u₁ (1 - a₁) b₂ u₂ (1 - a₂) = mulB b₁ u₁ a₁ b₂ u₂ a₂ := by
  unfold comulD mulB
  have e : (1 - a₁) + (1 - a₂) - (1 - a₁) * (1 - a₂) = 1 - a₁ * a₂ := by ring
  rw [e]; ring

theorem comulU_neg (b₁ u₁ a₁ b₂ u₂ a₂ : ℚ) :
    comulU b₁ u₁ (1 - a₁) b₂ u₂ (1 - a₂) = mulU b₁ u₁ a₁ b₂ u₂ a₂ := by
  unfold comulU mulU
  have e : (1 - a₁) + (1 - a₂) - (1 - a₁) * (1 - a₂) = 1 - a₁ * a₂ := by ring
  rw [e]

/-- `mul.b (¬x, ¬y) = comul.d (x, y)` -/
theorem mulB_neg (d₁ u₁ a₁ d₂ u₂ a₂ : ℚ) :
    mulB d₁ u₁ (1 - a₁) d₂ u₂ (1 - a₂) = comulD d₁ u₁ a₁ d₂ u₂ a₂ := by
  unfold comulD mulB
  have e : 1 - (1 - a₁) * (1 - a₂) = a₁ + a₂ - a₁ * a₂ := by ring
  rw [e]; ring

theorem mulU_neg (d₁ u₁ a₁ d₂ u₂ a₂ : ℚ) :
    mulU d₁ u₁ (1 - a₁) d₂ u₂ (1 - a₂) = comulU d₁ u₁ a₁ d₂ u₂ a₂ := by
  unfold comulU mulU
  have e : 1 - (1 - a₁) * (1 - a₂) = a₁ + a₂ - a₁ * a₂ := by ring
  rw [e]; ring

/-! ### algebra of the coproduct (through duality) -/

theorem comul_bwf {b₁ d₁ u₁ a₁ b₂ d₂ u₂ a₂ : ℚ} (h₁ : BWF b₁ d₁ u₁ a₁) (h₂ : BWF b₂ d₂ u₂ a₂)
    (hne : a₁ + a₂ - a₁ * a₂ ≠ 0) :
    BWF (comulB b₁ b₂) (comulD d₁ u₁ a₁ d₂ u₂ a₂) (comulU d₁ u₁ a₁ d₂ u₂ a₂) (comulA a₁ a₂) := by
  have hne' : (1 - a₁) * (1 - a₂) ≠ 1 := by
    intro h
    have e : (1 - a₁) * (1 - a₂) = 1 - (a₁ + a₂ - a₁ * a₂) := by ring
    apply hne; linarith
  have := bwf_neg (mul_bwf (bwf_neg h₁) (bwf_neg h₂) hne')
  rw [mulB_neg, mulU_neg, ← comulA_eq] at this
  exact this

/-- `b + d + u` of the coproduct, for ANY rationals with a non-zero denominator:
    `(d₁+u₁)(d₂+u₂) + b₁ + b₂ - b₁ b₂` -/
theorem comul_sum_gen {b₁ d₁ u₁ a₁ b₂ d₂ u₂ a₂ : ℚ} (hk : a₁ + a₂ - a₁ * a₂ ≠ 0) :
    comulB b₁ b₂ + comulD d₁ u₁ a₁ d₂ u₂ a₂ + comulU d₁ u₁ a₁ d₂ u₂ a₂
      = (d₁ + u₁) * (d₂ + u₂) + b₁ + b₂ - b₁ * b₂ := by
  unfold comulB comulD comulU
  field_simp
  ring

/-- the closed-form coproduct of operands that add up to 1 (no sign condition) adds up to 1 -/
theorem comul_sum {b₁ d₁ u₁ a₁ b₂ d₂ u₂ a₂ : ℚ} (hs₁ : b₁ + d₁ + u₁ = 1) (hs₂ : b₂ + d₂ + u₂ = 1)
    (hk : a₁ + a₂ - a₁ * a₂ ≠ 0) :
    comulB b₁ b₂ + comulD d₁ u₁ a₁ d₂ u₂ a₂ + comulU d₁ u₁ a₁ d₂ u₂ a₂ = 1 := by
  rw [comul_sum_gen hk]
  have e₁ : d₁ + u₁ = 1 - b₁ := by linarith
  have e₂ : d₂ + u₂ = 1 - b₂ := by linarith
  rw [e₁, e₂]; ring

/-- projection of the coproduct, for ANY rationals with a non-zero denominator, provided the two
    simplex sums are 1 -/
theorem comul_proj_gen {b₁ d₁ u₁ a₁ b₂ d₂ u₂ a₂ : ℚ} (hs₁ : b₁ + d₁ + u₁ = 1)
    (hs₂ : b₂ + d₂ + u₂ = 1) (hk : a₁ + a₂ - a₁ * a₂ ≠ 0) :
    comulB b₁ b₂ + comulA a₁ a₂ * comulU d₁ u₁ a₁ d₂ u₂ a₂
      = (b₁ + a₁ * u₁) + (b₂ + a₂ * u₂) - (b₁ + a₁ * u₁) * (b₂ + a₂ * u₂) := by
  have e₁ : d₁ = 1 - b₁ - u₁ := by linarith
  have e₂ : d₂ = 1 - b₂ - u₂ := by linarith
  subst e₁ e₂
  unfold comulB comulA comulU
  field_simp
  ring

/-! ### associativity cores -/

/-- two well-formed results with the same disbelief, base rate `A ≠ 1` and projection are equal -/
theorem assoc_core_mul {bL uL bR uR d A P : ℚ} (hA : A ≠ 1) (hpL : bL + A * uL = P)
    (hpR : bR + A * uR = P) (hsL : bL + d + uL = 1) (hsR : bR + d + uR = 1) :
    bL = bR ∧ uL = uR := by
  have h0 : (1 - A) * (uL - uR) = 0 := by
    have : (1 - A) * (uL - uR) = (bL + d + uL) - (bR + d + uR) - ((bL + A * uL) - (bR + A * uR)) := by
      ring
    rw [this, hpL, hpR, hsL, hsR]; ring
  have hu : uL = uR := by
    rcases mul_eq_zero.mp h0 with h | h
    · exact absurd (by linarith) hA
    · linarith
  subst hu
  exact ⟨by linarith, rfl⟩

/-- two well-formed results with the same belief, base rate `A ≠ 0` and projection are equal -/
theorem assoc_core_comul {b dL uL dR uR A P : ℚ} (hA : A ≠ 0) (hpL : b + A * uL = P)
    (hpR : b + A * uR = P) (hsL : b + dL + uL = 1) (hsR : b + dR + uR = 1) :
    dL = dR ∧ uL = uR := by
  have h0 : A * (uL - uR) = 0 := by
    have : A * (uL - uR) = (b + A * uL) - (b + A * uR) := by ring
    rw [this, hpL, hpR]; ring
  have hu : uL = uR := by
    rcases mul_eq_zero.mp h0 with h | h
    · exact absurd h hA
    · linarith
  subst hu
  exact ⟨by linarith, rfl⟩

end C12

/-! ### lifting `BOp.mul` / `BOp.comul` on finite operands -/

namespace BOp

/-- the renormalisation step on finite masses with a non-zero sum -/
theorem norm_fin {b d u : ℚ} (hs : b + d + u ≠ 0) (a : XQ f) :
    BOp.tryNew ((XQ.fin b : XQ f) / (XQ.fin b + XQ.fin d + XQ.fin u)) (XQ.fin d / (XQ.fin b + XQ.fin d + XQ.fin u))
        (XQ.fin u / (XQ.fin b + XQ.fin d + XQ.fin u)) a
      = BOp.tryNew (XQ.fin (b / (b + d + u))) (XQ.fin (d / (b + d + u))) (XQ.fin (u / (b + d + u))) a := by
  simp only [XQ.add_fin, XQ.div_fin _ _ hs]

/-- `mul` on finite operands with `a₁ a₂ ≠ 1`, before the renormalisation is resolved: the checked constructor applied to
    the closed forms divided (in `XQ`) by their sum -/
theorem mul_fin_raw {b₁ d₁ u₁ a₁ b₂ d₂ u₂ a₂ : ℚ} (hne : a₁ * a₂ ≠ 1) :
    BOp.mul (⟨XQ.fin b₁, XQ.fin d₁, XQ.fin u₁, XQ.fin a₁⟩ : BOp (XQ f))
        ⟨XQ.fin b₂, XQ.fin d₂, XQ.fin u₂, XQ.fin a₂⟩
      = BOp.tryNew
          ((XQ.fin (C12.mulB b₁ u₁ a₁ b₂ u₂ a₂) : XQ f)
            / (XQ.fin (C12.mulB b₁ u₁ a₁ b₂ u₂ a₂) + XQ.fin (C12.mulD d₁ d₂) + XQ.fin (C12.mulU b₁ u₁ a₁ b₂ u₂ a₂)))
          (XQ.fin (C12.mulD d₁ d₂)
            / (XQ.fin (C12.mulB b₁ u₁ a₁ b₂ u₂ a₂) + XQ.fin (C12.mulD d₁ d₂) + XQ.fin (C12.mulU b₁ u₁ a₁ b₂ u₂ a₂)))
          (XQ.fin (C12.mulU b₁ u₁ a₁ b₂ u₂ a₂)
            / (XQ.fin (C12.mulB b₁ u₁ a₁ b₂ u₂ a₂) + XQ.fin (C12.mulD d₁ d₂) + XQ.fin (C12.mulU b₁ u₁ a₁ b₂ u₂ a₂)))
          (XQ.fin (a₁ * a₂)) := by
  have hk : (1 : ℚ) - a₁ * a₂ ≠ 0 := fun h => hne (by linarith)
  -- the code evaluates the divisor as the coproduct of the complements (no cancellation); over ℚ it is `1 - a₁ a₂`
  have hna : (1 - a₁) + (1 - a₂) - (1 - a₁) * (1 - a₂) = 1 - a₁ * a₂ := by ring
  have hk' : (1 - a₁) + (1 - a₂) - (1 - a₁) * (1 - a₂) ≠ 0 := by rw [hna]; exact hk
  unfold BOp.mul
  simp only [XQ.one_def, XQ.mul_fin, XQ.sub_fin, XQ.add_fin, XQ.div_fin _ _ hk']
  unfold C12.mulB C12.mulU C12.mulD
  rw [hna]

/-- `mul` on finite operands with `a₁ a₂ ≠ 1` whose closed forms add up to 1 (e.g. both operands add up to 1,
    `C12.mul_sum`; no sign condition): the checked constructor applied to the closed forms -/
theorem mul_fin {b₁ d₁ u₁ a₁ b₂ d₂ u₂ a₂ : ℚ} (hne : a₁ * a₂ ≠ 1)
    (hs : C12.mulB b₁ u₁ a₁ b₂ u₂ a₂ + C12.mulD d₁ d₂ + C12.mulU b₁ u₁ a₁ b₂ u₂ a₂ = 1) :
    BOp.mul (⟨XQ.fin b₁, XQ.fin d₁, XQ.fin u₁, XQ.fin a₁⟩ : BOp (XQ f))
        ⟨XQ.fin b₂, XQ.fin d₂, XQ.fin u₂, XQ.fin a₂⟩
      = BOp.tryNew (XQ.fin (C12.mulB b₁ u₁ a₁ b₂ u₂ a₂)) (XQ.fin (C12.mulD d₁ d₂))
          (XQ.fin (C12.mulU b₁ u₁ a₁ b₂ u₂ a₂)) (XQ.fin (a₁ * a₂)) := by
  rw [mul_fin_raw hne, norm_one hs]

/-- `mul` on ANY finite operands with `a₁ a₂ ≠ 1` and a non-zero sum `S = (b₁+u₁)(b₂+u₂) + d₁ + d₂ - d₁d₂` of the closed
    forms: the checked constructor applied to the closed forms divided by `S` (no well-formedness needed) -/
theorem mul_fin_gen {b₁ d₁ u₁ a₁ b₂ d₂ u₂ a₂ : ℚ} (hne : a₁ * a₂ ≠ 1)
    (hS : (b₁ + u₁) * (b₂ + u₂) + d₁ + d₂ - d₁ * d₂ ≠ 0) :
    BOp.mul (⟨XQ.fin b₁, XQ.fin d₁, XQ.fin u₁, XQ.fin a₁⟩ : BOp (XQ f))
        ⟨XQ.fin b₂, XQ.fin d₂, XQ.fin u₂, XQ.fin a₂⟩
      = BOp.tryNew (XQ.fin (C12.mulB b₁ u₁ a₁ b₂ u₂ a₂ / ((b₁ + u₁) * (b₂ + u₂) + d₁ + d₂ - d₁ * d₂)))
          (XQ.fin (C12.mulD d₁ d₂ / ((b₁ + u₁) * (b₂ + u₂) + d₁ + d₂ - d₁ * d₂)))
          (XQ.fin (C12.mulU b₁ u₁ a₁ b₂ u₂ a₂ / ((b₁ + u₁) * (b₂ + u₂) + d₁ + d₂ - d₁ * d₂))) (XQ.fin (a₁ * a₂)) := by
  have hk : (1 : ℚ) - a₁ * a₂ ≠ 0 := fun h => hne (by linarith)
  have e := C12.mul_sum_gen (b₁ := b₁) (d₁ := d₁) (u₁ := u₁) (b₂ := b₂) (d₂ := d₂) (u₂ := u₂) hk
  rw [mul_fin_raw hne, norm_fin (by rw [e]; exact hS), e]

/-- `comul` on finite operands with `a₁ + a₂ - a₁ a₂ ≠ 0`, before the renormalisation is resolved -/
theorem comul_fin_raw {b₁ d₁ u₁ a₁ b₂ d₂ u₂ a₂ : ℚ} (hne : a₁ + a₂ - a₁ * a₂ ≠ 0) :
    BOp.comul (⟨XQ.fin b₁, XQ.fin d₁, XQ.fin u₁, XQ.fin a₁⟩ : BOp (XQ f))
        ⟨XQ.fin b₂, XQ.fin d₂, XQ.fin u₂, XQ.fin a₂⟩
      = BOp.tryNew
          ((XQ.fin (C12.comulB b₁ b₂) : XQ f)
            / (XQ.fin (C12.comulB b₁ b₂) + XQ.fin (C12.comulD d₁ u₁ a₁ d₂ u₂ a₂) + XQ.fin (C12.comulU d₁ u₁ a₁ d₂ u₂ a₂)))
          (XQ.fin (C12.comulD d₁ u₁ a₁ d₂ u₂ a₂)
            / (XQ.fin (C12.comulB b₁ b₂) + XQ.fin (C12.comulD d₁ u₁ a₁ d₂ u₂ a₂) + XQ.fin (C12.comulU d₁ u₁ a₁ d₂ u₂ a₂)))
          (XQ.fin (C12.comulU d₁ u₁ a₁ d₂ u₂ a₂)
            / (XQ.fin (C12.comulB b₁ b₂) + XQ.fin (C12.comulD d₁ u₁ a₁ d₂ u₂ a₂) + XQ.fin (C12.comulU d₁ u₁ a₁ d₂ u₂ a₂)))
          (XQ.fin (C12.comulA a₁ a₂)) := by
  unfold BOp.comul
  simp only [XQ.one_def, XQ.mul_fin, XQ.sub_fin, XQ.add_fin, XQ.div_fin _ _ hne]
  -- repair a66cfd4: the code forms the weights `a₁ / a`, `a₂ / a` first; over ℚ this is the closed form (field identity)
  rw [C12.comulD_weights, C12.comulU_weights]
  rfl

/-- `comul` on finite operands with `a₁ + a₂ - a₁ a₂ ≠ 0` whose closed forms add up to 1 (`C12.comul_sum`) -/
theorem comul_fin {b₁ d₁ u₁ a₁ b₂ d₂ u₂ a₂ : ℚ} (hne : a₁ + a₂ - a₁ * a₂ ≠ 0)
    (hs : C12.comulB b₁ b₂ + C12.comulD d₁ u₁ a₁ d₂ u₂ a₂ + C12.comulU d₁ u₁ a₁ d₂ u₂ a₂ = 1) :
    BOp.comul (⟨XQ.fin b₁, XQ.fin d₁, XQ.fin u₁, XQ.fin a₁⟩ : BOp (XQ f))
        ⟨XQ.fin b₂, XQ.fin d₂, XQ.fin u₂, XQ.fin a₂⟩
      = BOp.tryNew (XQ.fin (C12.comulB b₁ b₂)) (XQ.fin (C12.comulD d₁ u₁ a₁ d₂ u₂ a₂))
          (XQ.fin (C12.comulU d₁ u₁ a₁ d₂ u₂ a₂)) (XQ.fin (C12.comulA a₁ a₂)) := by
  rw [comul_fin_raw hne, norm_one hs]

/-- `comul` on ANY finite operands with `a₁ + a₂ - a₁ a₂ ≠ 0` and a non-zero sum `S = (d₁+u₁)(d₂+u₂) + b₁ + b₂ - b₁b₂` -/
theorem comul_fin_gen {b₁ d₁ u₁ a₁ b₂ d₂ u₂ a₂ : ℚ} (hne : a₁ + a₂ - a₁ * a₂ ≠ 0)
    (hS : (d₁ + u₁) * (d₂ + u₂) + b₁ + b₂ - b₁ * b₂ ≠ 0) :
    BOp.comul (⟨XQ.fin b₁, XQ.fin d₁, XQ.fin u₁, XQ.fin a₁⟩ : BOp (XQ f))
        ⟨XQ.fin b₂, XQ.fin d₂, XQ.fin u₂, XQ.fin a₂⟩
      = BOp.tryNew (XQ.fin (C12.comulB b₁ b₂ / ((d₁ + u₁) * (d₂ + u₂) + b₁ + b₂ - b₁ * b₂)))
          (XQ.fin (C12.comulD d₁ u₁ a₁ d₂ u₂ a₂ / ((d₁ + u₁) * (d₂ + u₂) + b₁ + b₂ - b₁ * b₂)))
          (XQ.fin (C12.comulU d₁ u₁ a₁ d₂ u₂ a₂ / ((d₁ + u₁) * (d₂ + u₂) + b₁ + b₂ - b₁ * b₂)))
          (XQ.fin (C12.comulA a₁ a₂)) := by
  have e := C12.comul_sum_gen (b₁ := b₁) (d₁ := d₁) (u₁ := u₁) (b₂ := b₂) (d₂ := d₂) (u₂ := u₂) hne
  rw [comul_fin_raw hne, norm_fin (by rw [e]; exact hS), e]

theorem neg_fin (b d u a : ℚ) :
    BOp.neg (⟨XQ.fin b, XQ.fin d, XQ.fin u, XQ.fin a⟩ : BOp (XQ f))
      = ⟨XQ.fin d, XQ.fin b, XQ.fin u, XQ.fin (1 - a)⟩ := by
  unfold BOp.neg
  simp only [XQ.one_def, XQ.sub_fin]

/-- `mul` of well-formed operands with `a₁ a₂ ≠ 1` is accepted, with the closed forms -/
theorem mul_fin_ok {b₁ d₁ u₁ a₁ b₂ d₂ u₂ a₂ : ℚ} (h₁ : BWF b₁ d₁ u₁ a₁) (h₂ : BWF b₂ d₂ u₂ a₂)
    (hne : a₁ * a₂ ≠ 1) :
    BOp.mul (⟨XQ.fin b₁, XQ.fin d₁, XQ.fin u₁, XQ.fin a₁⟩ : BOp (XQ f))
        ⟨XQ.fin b₂, XQ.fin d₂, XQ.fin u₂, XQ.fin a₂⟩
      = .ok ⟨XQ.fin (C12.mulB b₁ u₁ a₁ b₂ u₂ a₂), XQ.fin (C12.mulD d₁ d₂),
          XQ.fin (C12.mulU b₁ u₁ a₁ b₂ u₂ a₂), XQ.fin (a₁ * a₂)⟩ := by
  have h := C12.mul_bwf h₁ h₂ hne
  rw [mul_fin hne h.hs]
  exact tryNew_fin_ok h.hb h.hd h.hu h.hs h.ha0 h.ha1

theorem comul_fin_ok {b₁ d₁ u₁ a₁ b₂ d₂ u₂ a₂ : ℚ} (h₁ : BWF b₁ d₁ u₁ a₁) (h₂ : BWF b₂ d₂ u₂ a₂)
    (hne : a₁ + a₂ - a₁ * a₂ ≠ 0) :
    BOp.comul (⟨XQ.fin b₁, XQ.fin d₁, XQ.fin u₁, XQ.fin a₁⟩ : BOp (XQ f))
        ⟨XQ.fin b₂, XQ.fin d₂, XQ.fin u₂, XQ.fin a₂⟩
      = .ok ⟨XQ.fin (C12.comulB b₁ b₂), XQ.fin (C12.comulD d₁ u₁ a₁ d₂ u₂ a₂),
          XQ.fin (C12.comulU d₁ u₁ a₁ d₂ u₂ a₂), XQ.fin (C12.comulA a₁ a₂)⟩ := by
  have h := C12.comul_bwf h₁ h₂ hne
  rw [comul_fin hne h.hs]
  exact tryNew_fin_ok h.hb h.hd h.hu h.hs h.ha0 h.ha1

/-- a `nan` belief (or disbelief) is rejected by the simplex sum check once the base rate passes -/
theorem tryNew_nan_b (d u : XQ f) {a : ℚ} (h0 : 0 ≤ a) (h1 : a ≤ 1) :
    BOp.tryNew (XQ.nan : XQ f) d u (XQ.fin a) = .error .bdu := by
  unfold BOp.tryNew BOp.checkSimplex
  rw [checkUnit_fin_ok' _ h0 h1]
  have : ((XQ.nan : XQ f) + d + u) = XQ.nan := by
    show XQ.add (XQ.add XQ.nan d) u = XQ.nan
    simp [XQ.add]
  simp only [this]
  rfl

theorem tryNew_nan_d (b u : XQ f) {a : ℚ} (h0 : 0 ≤ a) (h1 : a ≤ 1) :
    BOp.tryNew b (XQ.nan : XQ f) u (XQ.fin a) = .error .bdu := by
  unfold BOp.tryNew BOp.checkSimplex
  rw [checkUnit_fin_ok' _ h0 h1]
  have : (b + (XQ.nan : XQ f) + u) = XQ.nan := by
    show XQ.add (XQ.add b XQ.nan) u = XQ.nan
    cases b <;> simp [XQ.add]
  simp only [this]
  rfl

end BOp
end SLV
