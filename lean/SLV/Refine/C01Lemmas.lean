/-
  Helper lemmas for property C01 (checked constructors): the tolerance bands, the value-level meaning of
  `inUnit` / `isOne` / `isZero` on `XQ f`, and the outcome of the checking loops of
  `SLV/Model/Basic.lean` and `SLV/Model/Bi.lean` as a decision tree over rational data.
-/
import SLV.Refine.Lift
import SLV.Model.Bi

namespace SLV.Props.C01
open SLV Scalar

variable {f : Fmt} {n : Nat}

/-- the acceptance band of `in_unit_interval`: `[-ε, 1+4ε]` -/
def band (f : Fmt) (q : ℚ) : Prop := -f.eps ≤ q ∧ q ≤ 1 + 4 * f.eps

/-- the acceptance band of `is_one`: `[1-2ε, 1+4ε]` -/
def oneBand (f : Fmt) (q : ℚ) : Prop := 1 - 2 * f.eps ≤ q ∧ q ≤ 1 + 4 * f.eps

/-- an extended value that is finite and in the unit band -/
def inBand (x : XQ f) : Prop := ∃ q, x = XQ.fin q ∧ band f q

/-- an extended value that is finite and in the one band -/
def inOneBand (x : XQ f) : Prop := ∃ q, x = XQ.fin q ∧ oneBand f q

theorem eps_le (f : Fmt) : f.eps ≤ 1 / 4 := by
  cases f <;> (unfold Fmt.eps Fmt.mant; norm_num)

theorem oneBand_band {q : ℚ} (h : oneBand f q) : band f q := by
  have := eps_le f
  have := XQ.eps_pos f
  exact ⟨by linarith [h.1], h.2⟩

/-! ### scalar predicates -/

theorem inUnit_fin (q : ℚ) : Scalar.inUnit (XQ.fin q : XQ f) = true ↔ band f q := by
  have hp := XQ.eps_pos f
  unfold Scalar.inUnit Scalar.ge band
  simp only [XQ.zero_def, XQ.one_def, XQ.le_fin, XQ.isZero_fin, XQ.isOne_fin, Bool.or_eq_true,
    Bool.and_eq_true, decide_eq_true_eq, abs_le]
  constructor
  · rintro ((⟨h0, h1⟩ | ⟨h0, h1⟩) | ⟨h0, h1⟩)
    · exact ⟨by linarith, by linarith⟩
    · exact ⟨h0, by linarith⟩
    · exact ⟨by linarith [eps_le f], h1⟩
  · rintro ⟨h0, h1⟩
    by_cases hq0 : 0 ≤ q
    · by_cases hq1 : q ≤ 1
      · exact Or.inl (Or.inl ⟨hq0, hq1⟩)
      · exact Or.inr ⟨by linarith, h1⟩
    · exact Or.inl (Or.inr ⟨h0, by linarith⟩)

theorem inUnit_iff (x : XQ f) : Scalar.inUnit x = true ↔ inBand x := by
  cases x with
  | fin q =>
    rw [inUnit_fin]
    exact ⟨fun h => ⟨q, rfl, h⟩, fun ⟨q', e, h⟩ => by cases e; exact h⟩
  | pinf => exact ⟨fun h => (by cases h), fun ⟨_, e, _⟩ => (by cases e)⟩
  | ninf => exact ⟨fun h => (by cases h), fun ⟨_, e, _⟩ => (by cases e)⟩
  | nan => exact ⟨fun h => (by cases h), fun ⟨_, e, _⟩ => (by cases e)⟩

theorem isOne_iff (x : XQ f) : Scalar.isOne x = true ↔ inOneBand x := by
  cases x with
  | fin q =>
    rw [XQ.isOne_fin, decide_eq_true_eq]
    exact ⟨fun h => ⟨q, rfl, h⟩, fun ⟨q', e, h⟩ => by cases e; exact h⟩
  | pinf => exact ⟨fun h => (by cases h), fun ⟨_, e, _⟩ => (by cases e)⟩
  | ninf => exact ⟨fun h => (by cases h), fun ⟨_, e, _⟩ => (by cases e)⟩
  | nan => exact ⟨fun h => (by cases h), fun ⟨_, e, _⟩ => (by cases e)⟩

theorem isZero_iff (x : XQ f) : Scalar.isZero x = true ↔ ∃ q, x = XQ.fin q ∧ |q| ≤ f.eps := by
  cases x with
  | fin q =>
    rw [XQ.isZero_fin, decide_eq_true_eq]
    exact ⟨fun h => ⟨q, rfl, h⟩, fun ⟨q', e, h⟩ => by cases e; exact h⟩
  | pinf => exact ⟨fun h => (by cases h), fun ⟨_, e, _⟩ => (by cases e)⟩
  | ninf => exact ⟨fun h => (by cases h), fun ⟨_, e, _⟩ => (by cases e)⟩
  | nan => exact ⟨fun h => (by cases h), fun ⟨_, e, _⟩ => (by cases e)⟩

theorem inBand_fin {q : ℚ} : inBand (XQ.fin q : XQ f) ↔ band f q :=
  ⟨fun ⟨_, e, h⟩ => by cases e; exact h, fun h => ⟨q, rfl, h⟩⟩

theorem inOneBand_fin {q : ℚ} : inOneBand (XQ.fin q : XQ f) ↔ oneBand f q :=
  ⟨fun ⟨_, e, h⟩ => by cases e; exact h, fun h => ⟨q, rfl, h⟩⟩

theorem not_inBand_nan : ¬ inBand (XQ.nan : XQ f) := fun ⟨_, e, _⟩ => by cases e
theorem not_inBand_pinf : ¬ inBand (XQ.pinf : XQ f) := fun ⟨_, e, _⟩ => by cases e
theorem not_inBand_ninf : ¬ inBand (XQ.ninf : XQ f) := fun ⟨_, e, _⟩ => by cases e

/-- a sum is finite only if both operands are -/
theorem add_eq_fin {x y : XQ f} {q : ℚ} (h : Scalar.add x y = XQ.fin q) :
    ∃ a b, x = XQ.fin a ∧ y = XQ.fin b ∧ q = a + b := by
  change XQ.add x y = XQ.fin q at h
  cases x <;> cases y <;> simp [XQ.add] at h
  exact ⟨_, _, rfl, rfl, h.symm⟩

/-! ### the accumulate-and-check loop -/

theorem checkUnit_eq (v : XQ f) (l : Label) :
    checkUnit v l = if Scalar.inUnit v = true then .ok () else .error l := rfl

theorem checkEntries_eq {α : Type} [Scalar α] (l : Label) (xs : List α) (acc : α) :
    checkEntries l xs acc =
      if xs.all Scalar.inUnit = true then .ok (xs.foldl Scalar.add acc) else .error l := by
  induction xs generalizing acc with
  | nil => simp [checkEntries]
  | cons x xs ih =>
    by_cases hx : Scalar.inUnit x = true
    · simp [checkEntries, hx, ih]
    · simp [checkEntries, hx]

theorem liftT_injective {g h : Fin n → ℚ} (e : (liftT g : Tab (XQ f) n) = liftT h) : g = h := by
  funext i
  have := congrArg (fun v : Tab (XQ f) n => v[i]) e
  simpa using this

theorem all_inBand_iff (b : Tab (XQ f) n) :
    (∀ i : Fin n, inBand b[i]) ↔ ∃ bq : Fin n → ℚ, b = liftT bq ∧ ∀ i, band f (bq i) := by
  constructor
  · intro h
    choose bq hbq using h
    refine ⟨bq, ?_, fun i => (hbq i).2⟩
    apply Vector.ext
    intro i hi
    rw [liftT_getElem']
    exact (hbq ⟨i, hi⟩).1
  · rintro ⟨bq, rfl, hb⟩ i
    exact ⟨bq i, liftT_getElem _ _, hb i⟩

theorem all_inUnit_iff (b : Tab (XQ f) n) :
    b.toList.all Scalar.inUnit = true ↔ ∀ i : Fin n, inBand b[i] := by
  rw [List.all_eq_true]
  constructor
  · intro h i
    exact (inUnit_iff _).1 (h _ (by simp))
  · intro h x hx
    rw [Vector.mem_toList_iff, Vector.mem_iff_getElem] at hx
    obtain ⟨i, hi, rfl⟩ := hx
    exact (inUnit_iff _).2 (h ⟨i, hi⟩)

theorem foldl_toList_liftT (g : Fin n → ℚ) (c : ℚ) :
    (liftT g : Tab (XQ f) n).toList.foldl Scalar.add (XQ.fin c) = XQ.fin (c + ∑ i, g i) := by
  unfold liftT
  rw [Vector.toList_ofFn]
  exact foldl_add_fin g c

/-- outcome of the loop: first range error, or the exact sum -/
theorem checkEntries_bad (l : Label) (b : Tab (XQ f) n) (h : ¬ ∀ i : Fin n, inBand b[i]) :
    checkEntries l b.toList (Scalar.zero : XQ f) = .error l := by
  rw [checkEntries_eq, if_neg]
  rwa [all_inUnit_iff]

theorem checkEntries_good (l : Label) (bq : Fin n → ℚ) (h : ∀ i, band f (bq i)) :
    checkEntries l (liftT bq : Tab (XQ f) n).toList (Scalar.zero : XQ f) = .ok (XQ.fin (∑ i, bq i)) := by
  rw [checkEntries_eq, if_pos]
  · rw [XQ.zero_def, foldl_toList_liftT, zero_add]
  · rw [all_inUnit_iff]
    exact (all_inBand_iff _).2 ⟨bq, rfl, h⟩

/-! ### `check_simplex` / `check_base_rate` as decision trees -/

theorem checkSimplex_b (b : Tab (XQ f) n) (u : XQ f) (h : ¬ ∀ i : Fin n, inBand b[i]) :
    checkSimplex b u = .error .b := by
  unfold checkSimplex
  rw [checkEntries_bad _ _ h]

theorem checkSimplex_u (bq : Fin n → ℚ) (u : XQ f) (hb : ∀ i, band f (bq i)) (hu : ¬ inBand u) :
    checkSimplex (liftT bq) u = .error .u := by
  unfold checkSimplex
  rw [checkEntries_good _ _ hb]
  have : Scalar.inUnit u ≠ true := fun h => hu ((inUnit_iff _).1 h)
  simp [checkUnit, this]

theorem checkSimplex_sum (bq : Fin n → ℚ) (uq : ℚ) (hb : ∀ i, band f (bq i)) (hu : band f uq)
    (hs : ¬ oneBand f (∑ i, bq i + uq)) :
    checkSimplex (liftT bq) (XQ.fin uq : XQ f) = .error .sumBU := by
  unfold checkSimplex
  rw [checkEntries_good _ _ hb]
  have h1 : Scalar.inUnit (XQ.fin uq : XQ f) = true := (inUnit_fin _).2 hu
  have h2 : Scalar.isOne (XQ.fin (∑ i, bq i + uq) : XQ f) = false := by
    rw [XQ.isOne_fin]; exact decide_eq_false hs
  simp only [checkUnit, checkOne, h1, XQ.sadd_fin, h2, if_true, Bool.false_eq_true, if_false]

theorem checkSimplex_ok (bq : Fin n → ℚ) (uq : ℚ) (hb : ∀ i, band f (bq i)) (hu : band f uq)
    (hs : oneBand f (∑ i, bq i + uq)) :
    checkSimplex (liftT bq) (XQ.fin uq : XQ f) = .ok () := by
  unfold checkSimplex
  rw [checkEntries_good _ _ hb]
  have h1 : Scalar.inUnit (XQ.fin uq : XQ f) = true := (inUnit_fin _).2 hu
  have h2 : Scalar.isOne (XQ.fin (∑ i, bq i + uq) : XQ f) = true := by
    rw [XQ.isOne_fin]; exact decide_eq_true hs
  simp only [checkUnit, checkOne, h1, XQ.sadd_fin, h2, if_true]

/-- rational data accepted by `check_simplex` -/
def SimplexOK (f : Fmt) (bq : Fin n → ℚ) (uq : ℚ) : Prop :=
  (∀ i, band f (bq i)) ∧ band f uq ∧ oneBand f (∑ i, bq i + uq)

/-- rational data accepted by `check_base_rate` -/
def BaseRateOK (f : Fmt) (aq : Fin n → ℚ) : Prop :=
  (∀ i, band f (aq i)) ∧ oneBand f (∑ i, aq i)

theorem checkSimplex_ok_iff (b : Tab (XQ f) n) (u : XQ f) :
    checkSimplex b u = .ok () ↔
      ∃ (bq : Fin n → ℚ) (uq : ℚ), b = liftT bq ∧ u = XQ.fin uq ∧ SimplexOK f bq uq := by
  constructor
  · intro h
    by_cases hb : ∀ i : Fin n, inBand b[i]
    · obtain ⟨bq, rfl, hbq⟩ := (all_inBand_iff b).1 hb
      by_cases hu : inBand u
      · obtain ⟨uq, rfl, huq⟩ := hu
        by_cases hs : oneBand f (∑ i, bq i + uq)
        · exact ⟨bq, uq, rfl, rfl, hbq, huq, hs⟩
        · rw [checkSimplex_sum bq uq hbq huq hs] at h; cases h
      · rw [checkSimplex_u bq u hbq hu] at h; cases h
    · rw [checkSimplex_b b u hb] at h; cases h
  · rintro ⟨bq, uq, rfl, rfl, hb, hu, hs⟩
    exact checkSimplex_ok bq uq hb hu hs

theorem checkSimplex_label (b : Tab (XQ f) n) (u : XQ f) (l : Label) (h : checkSimplex b u = .error l) :
    l = .b ∨ l = .u ∨ l = .sumBU := by
  by_cases hb : ∀ i : Fin n, inBand b[i]
  · obtain ⟨bq, rfl, hbq⟩ := (all_inBand_iff b).1 hb
    by_cases hu : inBand u
    · obtain ⟨uq, rfl, huq⟩ := hu
      by_cases hs : oneBand f (∑ i, bq i + uq)
      · rw [checkSimplex_ok bq uq hbq huq hs] at h; cases h
      · rw [checkSimplex_sum bq uq hbq huq hs] at h; cases h; simp
    · rw [checkSimplex_u bq u hbq hu] at h; cases h; simp
  · rw [checkSimplex_b b u hb] at h; cases h; simp

theorem checkBaseRate_a (a : Tab (XQ f) n) (h : ¬ ∀ i : Fin n, inBand a[i]) :
    checkBaseRate a = .error .a := by
  unfold checkBaseRate
  rw [checkEntries_bad _ _ h]

theorem checkBaseRate_sum (aq : Fin n → ℚ) (ha : ∀ i, band f (aq i)) (hs : ¬ oneBand f (∑ i, aq i)) :
    checkBaseRate (liftT aq : Tab (XQ f) n) = .error .sumA := by
  unfold checkBaseRate
  rw [checkEntries_good _ _ ha]
  have h2 : Scalar.isOne (XQ.fin (∑ i, aq i) : XQ f) = false := by
    rw [XQ.isOne_fin]; exact decide_eq_false hs
  simp only [checkOne, h2, Bool.false_eq_true, if_false]

theorem checkBaseRate_ok (aq : Fin n → ℚ) (ha : ∀ i, band f (aq i)) (hs : oneBand f (∑ i, aq i)) :
    checkBaseRate (liftT aq : Tab (XQ f) n) = .ok () := by
  unfold checkBaseRate
  rw [checkEntries_good _ _ ha]
  have h2 : Scalar.isOne (XQ.fin (∑ i, aq i) : XQ f) = true := by
    rw [XQ.isOne_fin]; exact decide_eq_true hs
  simp only [checkOne, h2, if_true]

theorem checkBaseRate_ok_iff (a : Tab (XQ f) n) :
    checkBaseRate a = .ok () ↔ ∃ aq : Fin n → ℚ, a = liftT aq ∧ BaseRateOK f aq := by
  constructor
  · intro h
    by_cases ha : ∀ i : Fin n, inBand a[i]
    · obtain ⟨aq, rfl, haq⟩ := (all_inBand_iff a).1 ha
      by_cases hs : oneBand f (∑ i, aq i)
      · exact ⟨aq, rfl, haq, hs⟩
      · rw [checkBaseRate_sum aq haq hs] at h; cases h
    · rw [checkBaseRate_a a ha] at h; cases h
  · rintro ⟨aq, rfl, ha, hs⟩
    exact checkBaseRate_ok aq ha hs

theorem checkBaseRate_label (a : Tab (XQ f) n) (l : Label) (h : checkBaseRate a = .error l) :
    l = .a ∨ l = .sumA := by
  by_cases ha : ∀ i : Fin n, inBand a[i]
  · obtain ⟨aq, rfl, haq⟩ := (all_inBand_iff a).1 ha
    by_cases hs : oneBand f (∑ i, aq i)
    · rw [checkBaseRate_ok aq haq hs] at h; cases h
    · rw [checkBaseRate_sum aq haq hs] at h; cases h; simp
  · rw [checkBaseRate_a a ha] at h; cases h; simp

/-- `Except Label Unit` is `.ok ()` or an error -/
theorem unit_ok_or_error (r : Except Label Unit) : r = .ok () ∨ ∃ l, r = .error l := by
  cases r with
  | ok v => exact Or.inl rfl
  | error l => exact Or.inr ⟨l, rfl⟩

/-! ### binomial `check_simplex` -/

/-- `b + d + u` is finite and within the `is_one` band -/
def sumOne3 (b d u : XQ f) : Prop :=
  ∃ bq dq uq, b = XQ.fin bq ∧ d = XQ.fin dq ∧ u = XQ.fin uq ∧ oneBand f (bq + dq + uq)

theorem isOne_add3_iff (b d u : XQ f) :
    Scalar.isOne (b + d + u) = true ↔ sumOne3 b d u := by
  rw [isOne_iff]
  constructor
  · rintro ⟨q, e, h⟩
    change Scalar.add (Scalar.add b d) u = XQ.fin q at e
    obtain ⟨s, uq, e1, rfl, rfl⟩ := add_eq_fin e
    obtain ⟨bq, dq, rfl, rfl, rfl⟩ := add_eq_fin e1
    exact ⟨bq, dq, uq, rfl, rfl, rfl, h⟩
  · rintro ⟨bq, dq, uq, rfl, rfl, rfl, h⟩
    exact ⟨bq + dq + uq, rfl, h⟩

theorem bcheckSimplex_eq (b d u : XQ f) :
    BOp.checkSimplex b d u =
      if Scalar.isOne (b + d + u) = true then
        if Scalar.inUnit b = true then
          if Scalar.inUnit d = true then
            if Scalar.inUnit u = true then .ok () else .error .u
          else .error .dd
        else .error .bb
      else .error .bdu := by
  unfold BOp.checkSimplex checkOne checkUnit
  by_cases h1 : Scalar.isOne (b + d + u) = true
  · by_cases h2 : Scalar.inUnit b = true
    · by_cases h3 : Scalar.inUnit d = true
      · by_cases h4 : Scalar.inUnit u = true <;> simp [h1, h2, h3, h4]
      · simp [h1, h2, h3]
    · simp [h1, h2]
  · simp [h1]


/-! ### the constructors in terms of the checks -/

theorem simplexTryNew_err {b : Tab (XQ f) n} {u : XQ f} {l : Label} (h : checkSimplex b u = .error l) :
    Simplex.tryNew b u = .error l := by
  unfold Simplex.tryNew; rw [h]

theorem simplexTryNew_ok {b : Tab (XQ f) n} {u : XQ f} (h : checkSimplex b u = .ok ()) :
    Simplex.tryNew b u = .ok ⟨b, u⟩ := by
  unfold Simplex.tryNew; rw [h]

theorem opinionTryNew_err1 {b a : Tab (XQ f) n} {u : XQ f} {l : Label} (h : checkSimplex b u = .error l) :
    Opinion.tryNew b u a = .error l := by
  unfold Opinion.tryNew; rw [h]

theorem opinionTryNew_err2 {b a : Tab (XQ f) n} {u : XQ f} {l : Label} (h1 : checkSimplex b u = .ok ())
    (h2 : checkBaseRate a = .error l) : Opinion.tryNew b u a = .error l := by
  unfold Opinion.tryNew; rw [h1, h2]

theorem opinionTryNew_ok {b a : Tab (XQ f) n} {u : XQ f} (h1 : checkSimplex b u = .ok ())
    (h2 : checkBaseRate a = .ok ()) : Opinion.tryNew b u a = .ok ⟨b, u, a⟩ := by
  unfold Opinion.tryNew; rw [h1, h2]

theorem intoOpinion_err {s : Simplex (XQ f) n} {a : Tab (XQ f) n} {l : Label}
    (h : checkBaseRate a = .error l) : Simplex.intoOpinion s a = .error l := by
  unfold Simplex.intoOpinion; rw [h]

theorem intoOpinion_ok {s : Simplex (XQ f) n} {a : Tab (XQ f) n}
    (h : checkBaseRate a = .ok ()) : Simplex.intoOpinion s a = .ok ⟨s.b, s.u, a⟩ := by
  unfold Simplex.intoOpinion; rw [h]

theorem bsimplexTryNew_err {b d u : XQ f} {l : Label} (h : BOp.checkSimplex b d u = .error l) :
    BOp.simplexTryNew b d u = .error l := by
  unfold BOp.simplexTryNew; rw [h]

theorem bsimplexTryNew_ok {b d u : XQ f} (h : BOp.checkSimplex b d u = .ok ()) :
    BOp.simplexTryNew b d u = .ok (b, d, u) := by
  unfold BOp.simplexTryNew; rw [h]

theorem bopTryNew_eq (b d u a : XQ f) :
    BOp.tryNew b d u a =
      if Scalar.inUnit a = true then
        match BOp.checkSimplex b d u with
        | .error e => .error e
        | .ok _ => .ok ⟨b, d, u, a⟩
      else .error .ba := by
  unfold BOp.tryNew checkUnit
  by_cases h : Scalar.inUnit a = true
  · simp only [h, if_true]
    cases BOp.checkSimplex b d u <;> rfl
  · simp [h]

theorem bopTryNew_ba {b d u a : XQ f} (h : ¬ inBand a) : BOp.tryNew b d u a = .error .ba := by
  rw [bopTryNew_eq, if_neg]
  rwa [inUnit_iff]

theorem bopTryNew_err {b d u a : XQ f} {l : Label} (ha : inBand a) (h : BOp.checkSimplex b d u = .error l) :
    BOp.tryNew b d u a = .error l := by
  rw [bopTryNew_eq, if_pos ((inUnit_iff _).2 ha), h]

theorem bopTryNew_ok {b d u a : XQ f} (ha : inBand a) (h : BOp.checkSimplex b d u = .ok ()) :
    BOp.tryNew b d u a = .ok ⟨b, d, u, a⟩ := by
  rw [bopTryNew_eq, if_pos ((inUnit_iff _).2 ha), h]

/-- the binomial simplex check as a decision tree -/
theorem bcheck_bdu {b d u : XQ f} (h : ¬ sumOne3 b d u) : BOp.checkSimplex b d u = .error .bdu := by
  rw [bcheckSimplex_eq, if_neg]
  rwa [isOne_add3_iff]

theorem bcheck_bb {b d u : XQ f} (h : sumOne3 b d u) (hb : ¬ inBand b) :
    BOp.checkSimplex b d u = .error .bb := by
  rw [bcheckSimplex_eq, if_pos ((isOne_add3_iff _ _ _).2 h), if_neg]
  rwa [inUnit_iff]

theorem bcheck_dd {b d u : XQ f} (h : sumOne3 b d u) (hb : inBand b) (hd : ¬ inBand d) :
    BOp.checkSimplex b d u = .error .dd := by
  rw [bcheckSimplex_eq, if_pos ((isOne_add3_iff _ _ _).2 h), if_pos ((inUnit_iff _).2 hb), if_neg]
  rwa [inUnit_iff]

theorem bcheck_u {b d u : XQ f} (h : sumOne3 b d u) (hb : inBand b) (hd : inBand d) (hu : ¬ inBand u) :
    BOp.checkSimplex b d u = .error .u := by
  rw [bcheckSimplex_eq, if_pos ((isOne_add3_iff _ _ _).2 h), if_pos ((inUnit_iff _).2 hb),
    if_pos ((inUnit_iff _).2 hd), if_neg]
  rwa [inUnit_iff]

theorem bcheck_ok {b d u : XQ f} (h : sumOne3 b d u) (hb : inBand b) (hd : inBand d) (hu : inBand u) :
    BOp.checkSimplex b d u = .ok () := by
  rw [bcheckSimplex_eq, if_pos ((isOne_add3_iff _ _ _).2 h), if_pos ((inUnit_iff _).2 hb),
    if_pos ((inUnit_iff _).2 hd), if_pos ((inUnit_iff _).2 hu)]

theorem bcheck_ok_iff (b d u : XQ f) :
    BOp.checkSimplex b d u = .ok () ↔ sumOne3 b d u ∧ inBand b ∧ inBand d ∧ inBand u := by
  constructor
  · intro h
    by_cases h1 : sumOne3 b d u
    · by_cases h2 : inBand b
      · by_cases h3 : inBand d
        · by_cases h4 : inBand u
          · exact ⟨h1, h2, h3, h4⟩
          · rw [bcheck_u h1 h2 h3 h4] at h; cases h
        · rw [bcheck_dd h1 h2 h3] at h; cases h
      · rw [bcheck_bb h1 h2] at h; cases h
    · rw [bcheck_bdu h1] at h; cases h
  · rintro ⟨h1, h2, h3, h4⟩
    exact bcheck_ok h1 h2 h3 h4

theorem bcheck_label {b d u : XQ f} {l : Label} (h : BOp.checkSimplex b d u = .error l) :
    l = .bdu ∨ l = .bb ∨ l = .dd ∨ l = .u := by
  by_cases h1 : sumOne3 b d u
  · by_cases h2 : inBand b
    · by_cases h3 : inBand d
      · by_cases h4 : inBand u
        · rw [bcheck_ok h1 h2 h3 h4] at h; cases h
        · rw [bcheck_u h1 h2 h3 h4] at h; cases h; simp
      · rw [bcheck_dd h1 h2 h3] at h; cases h; simp
    · rw [bcheck_bb h1 h2] at h; cases h; simp
  · rw [bcheck_bdu h1] at h; cases h; simp

end SLV.Props.C01
