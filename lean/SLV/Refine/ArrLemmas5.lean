/-
  Helper lemmas for C17 (part 5): from_fn, zeros, equality, products, fallible conversion, labelled constructors.
-/
import SLV.Refine.ArrLemmas4

namespace SLV.MArr

variable {V : Type}

/-! ### from_fn -/

theorem U2.fromFn_ok (k0 k1 : Nat) (f : List Nat → V) :
    ∃ a, MArr2.fromFn k0 k1 f = some a ∧ Shape2 k0 k1 a ∧ flat2 a = (lexList [k0, k1]).map f := by
  have hl : ((lexList [k0, k1]).map f).length = k0 * k1 := by simp [lexList_length]
  obtain ⟨a, h1, h2, h3⟩ := U2.fromIter_ok k0 k1 ((lexList [k0, k1]).map f) (by omega)
  exact ⟨a, by rw [MArr2.fromFn, toList_eq_lexList, h1], h2, by rw [h3, ← hl, List.take_length]⟩

theorem U3.fromFn_ok (k0 k1 k2 : Nat) (f : List Nat → V) :
    ∃ a, MArr3.fromFn k0 k1 k2 f = some a ∧ Shape3 k0 k1 k2 a ∧ flat3 a = (lexList [k0, k1, k2]).map f := by
  have hl : ((lexList [k0, k1, k2]).map f).length = k0 * k1 * k2 := by simp [lexList_length, Nat.mul_assoc]
  obtain ⟨a, h1, h2, h3⟩ := U3.fromIter_ok k0 k1 k2 ((lexList [k0, k1, k2]).map f) (by omega)
  exact ⟨a, by rw [MArr3.fromFn, toList_eq_lexList, h1], h2, by rw [h3, ← hl, List.take_length]⟩

theorem L1.fromFn_ok (d0 : Nat) (f : Nat → V) :
    ∃ a, MArrD1.fromFn d0 f = some a ∧ Shape1 d0 a.toU ∧ flat1 a.toU = (keys d0).map f :=
  ⟨⟨(keys d0).map f⟩, by simp [MArrD1.fromFn, MArrD1.fromIter, MArrD1.new, keys], by simp [Shape1, MArrD1.toU, keys], rfl⟩

theorem keysD2_length (d0 d1 : Nat) : (keysD2 d0 d1).length = d0 * d1 := by
  have := congrArg List.length (keys_lex d0 d1 0).2.1
  simpa [lexList_length] using this

theorem keysD3_length (d0 d1 d2 : Nat) : (keysD3 d0 d1 d2).length = d0 * d1 * d2 := by
  have := congrArg List.length (keys_lex d0 d1 d2).2.2
  simpa [lexList_length, Nat.mul_assoc] using this

theorem L2.fromFn_ok (d0 d1 : Nat) (f : Nat × Nat → V) :
    ∃ a, MArrD2.fromFn d0 d1 f = some a ∧ Shape2 d0 d1 a.toU ∧ flat2 a.toU = (keysD2 d0 d1).map f := by
  have hl : ((keysD2 d0 d1).map f).length = d0 * d1 := by simp [keysD2_length]
  obtain ⟨a, h1, h2, h3⟩ := L2.fromIter_ok d0 d1 ((keysD2 d0 d1).map f) (by omega)
  exact ⟨a, by rw [MArrD2.fromFn, h1], h2, by rw [h3, ← hl, List.take_length]⟩

theorem L3.fromFn_ok (d0 d1 d2 : Nat) (f : Nat × Nat × Nat → V) :
    ∃ a, MArrD3.fromFn d0 d1 d2 f = some a ∧ Shape3 d0 d1 d2 a.toU ∧ flat3 a.toU = (keysD3 d0 d1 d2).map f := by
  have hl : ((keysD3 d0 d1 d2).map f).length = d0 * d1 * d2 := by simp [keysD3_length]
  obtain ⟨a, h1, h2, h3⟩ := L3.fromIter_ok d0 d1 d2 ((keysD3 d0 d1 d2).map f) (by omega)
  exact ⟨a, by rw [MArrD3.fromFn, h1], h2, by rw [h3, ← hl, List.take_length]⟩

/-! ### zeros / default -/

theorem U1.zeros_ok (z : V) (k0 : Nat) :
    Shape1 k0 (MArr1.zeros z k0) ∧ flat1 (MArr1.zeros z k0) = List.replicate k0 z := by
  simp [MArr1.zeros, Shape1, flat1]

theorem U2.zeros_ok (z : V) (k0 k1 : Nat) :
    Shape2 k0 k1 (MArr2.zeros z k0 k1) ∧ flat2 (MArr2.zeros z k0 k1) = List.replicate (k0 * k1) z := by
  refine ⟨⟨by simp [MArr2.zeros], fun r hr => ?_⟩, by simp [MArr2.zeros, MArr1.zeros, flat2]⟩
  rw [(List.mem_replicate.mp hr).2]; simp [MArr1.zeros]

theorem U3.zeros_ok (z : V) (k0 k1 k2 : Nat) :
    Shape3 k0 k1 k2 (MArr3.zeros z k0 k1 k2) ∧
      flat3 (MArr3.zeros z k0 k1 k2) = List.replicate (k0 * k1 * k2) z := by
  refine ⟨⟨by simp [MArr3.zeros], fun p hp => ?_⟩, ?_⟩
  · rw [(List.mem_replicate.mp hp).2]; exact (U2.zeros_ok z k1 k2).1
  · simp [MArr3.zeros, MArr2.zeros, MArr1.zeros, flat3, Nat.mul_assoc]

theorem L1.zeros_ok (z : V) (d0 : Nat) :
    ∃ a, MArrD1.zeros z d0 = some a ∧ Shape1 d0 a.toU ∧ flat1 a.toU = List.replicate d0 z := by
  obtain ⟨a, h1, h2, h3⟩ := L1.fromFn_ok d0 (fun _ => z)
  exact ⟨a, h1, h2, by rw [h3, List.map_const']; simp [keys]⟩

theorem L2.zeros_ok (z : V) (d0 d1 : Nat) :
    ∃ a, MArrD2.zeros z d0 d1 = some a ∧ Shape2 d0 d1 a.toU ∧ flat2 a.toU = List.replicate (d0 * d1) z := by
  obtain ⟨a, h1, h2, h3⟩ := L2.fromFn_ok d0 d1 (fun _ => z)
  exact ⟨a, h1, h2, by rw [h3, List.map_const', keysD2_length]⟩

theorem L3.zeros_ok (z : V) (d0 d1 d2 : Nat) :
    ∃ a, MArrD3.zeros z d0 d1 d2 = some a ∧ Shape3 d0 d1 d2 a.toU ∧
      flat3 a.toU = List.replicate (d0 * d1 * d2) z := by
  obtain ⟨a, h1, h2, h3⟩ := L3.fromFn_ok d0 d1 d2 (fun _ => z)
  exact ⟨a, h1, h2, by rw [h3, List.map_const', keysD3_length]⟩

/-! ### clone / equality -/

theorem map_eq_self {α : Type} (f : α → α) (h : ∀ x, f x = x) (l : List α) : l.map f = l := by
  induction l with
  | nil => rfl
  | cons a l ih => simp [h, ih]

theorem L1.clone_eq (a : MArrD1 V) : a.clone = a := rfl
theorem L2.clone_eq (a : MArrD2 V) : a.clone = a := by
  cases a with | mk ia => cases ia with | mk rows =>
    simp only [MArrD2.clone]
    congr 2
    exact map_eq_self _ (fun r => rfl) rows

theorem L3.clone_eq (a : MArrD3 V) : a.clone = a := by
  cases a with | mk ia => cases ia with | mk planes =>
    simp only [MArrD3.clone]
    congr 2
    exact map_eq_self _ (fun r => L2.clone_eq r) planes

instance [BEq V] [LawfulBEq V] : LawfulBEq (MArrD1 V) where
  rfl {a} := by show (a.inner == a.inner) = true; simp
  eq_of_beq {a b} h := by
    cases a with | mk ia => cases b with | mk ib =>
      have : (ia == ib) = true := h
      rw [eq_of_beq this]

instance [BEq V] [LawfulBEq V] : LawfulBEq (MArrD2 V) where
  rfl {a} := by show (a.inner == a.inner) = true; simp
  eq_of_beq {a b} h := by
    cases a with | mk ia => cases b with | mk ib =>
      have : (ia == ib) = true := h
      rw [eq_of_beq this]

instance [BEq V] [LawfulBEq V] : LawfulBEq (MArrD3 V) where
  rfl {a} := by show (a.inner == a.inner) = true; simp
  eq_of_beq {a b} h := by
    cases a with | mk ia => cases b with | mk ib =>
      have : (ia == ib) = true := h
      rw [eq_of_beq this]

/-! ### outer products -/

theorem map_getD_range (l : List V) (z : V) : (List.range l.length).map (fun i => l.getD i z) = l := by
  apply List.ext_getElem (by simp)
  intro i h1 h2
  simp at h1
  simp [List.getD_eq_getElem?_getD, List.getElem?_eq_getElem h1]

theorem lex2_map (k0 k1 : Nat) (g : List Nat → V) :
    (lexList [k0, k1]).map g = (List.range k0).flatMap fun i => (List.range k1).map fun j => g [i, j] := by
  simp [lexList, List.map_flatMap, flatMap_singleton_map, Function.comp_def]

theorem lex3_map (k0 k1 k2 : Nat) (g : List Nat → V) :
    (lexList [k0, k1, k2]).map g =
      (List.range k0).flatMap fun i => (List.range k1).flatMap fun j => (List.range k2).map fun k => g [i, j, k] := by
  simp [lexList, List.map_flatMap, flatMap_singleton_map, Function.comp_def]

theorem U2.product_ok (mul : V → V → V) (z : V) (w0 w1 : List V) :
    ∃ a, MArr2.product2 mul z w0 w1 = some a ∧ Shape2 w0.length w1.length a ∧
      flat2 a = w0.flatMap fun x => w1.map fun y => mul x y := by
  obtain ⟨a, h1, h2, h3⟩ := U2.fromFn_ok w0.length w1.length
    (fun d => mul (w0.getD (d.getD 0 0) z) (w1.getD (d.getD 1 0) z))
  refine ⟨a, h1, h2, ?_⟩
  rw [h3, lex2_map]
  conv_rhs => rw [← map_getD_range w0 z, List.flatMap_map]
  congr 1; funext i
  conv_rhs => rw [← map_getD_range w1 z, List.map_map]
  rfl

theorem U3.product_ok (mul : V → V → V) (z : V) (w0 w1 w2 : List V) :
    ∃ a, MArr3.product3 mul z w0 w1 w2 = some a ∧ Shape3 w0.length w1.length w2.length a ∧
      flat3 a = w0.flatMap fun x => w1.flatMap fun y => w2.map fun t => mul (mul x y) t := by
  obtain ⟨a, h1, h2, h3⟩ := U3.fromFn_ok w0.length w1.length w2.length
    (fun d => mul (mul (w0.getD (d.getD 0 0) z) (w1.getD (d.getD 1 0) z)) (w2.getD (d.getD 2 0) z))
  refine ⟨a, h1, h2, ?_⟩
  rw [h3, lex3_map]
  conv_rhs => rw [← map_getD_range w0 z, List.flatMap_map]
  congr 1; funext i
  conv_rhs => rw [← map_getD_range w1 z, List.flatMap_map]
  congr 1; funext j
  conv_rhs => rw [← map_getD_range w2 z, List.map_map]
  rfl

theorem product2Iter_eq (mul : V → V → V) (w0 w1 : MArrD1 V) :
    product2Iter mul w0 w1 = w0.inner.flatMap fun x => w1.inner.map fun y => mul x y := by
  simp [product2Iter, iproduct2, MArrD1.iter, List.map_flatMap, Function.comp_def]

theorem product3Iter_eq (mul : V → V → V) (w0 w1 w2 : MArrD1 V) :
    product3Iter mul w0 w1 w2 =
      w0.inner.flatMap fun x => w1.inner.flatMap fun y => w2.inner.map fun t => mul (mul x y) t := by
  simp [product3Iter, iproduct3, MArrD1.iter, List.map_flatMap, Function.comp_def]

theorem outer2_length (mul : V → V → V) (w0 w1 : List V) :
    (w0.flatMap fun x => w1.map fun y => mul x y).length = w0.length * w1.length :=
  length_flatMap_const _ _ (by simp) w0

theorem outer3_length (mul : V → V → V) (w0 w1 w2 : List V) :
    (w0.flatMap fun x => w1.flatMap fun y => w2.map fun t => mul (mul x y) t).length
      = w0.length * w1.length * w2.length := by
  rw [length_flatMap_const _ (w1.length * w2.length) (fun x => length_flatMap_const _ _ (by simp) w1) w0,
    Nat.mul_assoc]

theorem L2.product_ok (mul : V → V → V) {d0 d1 : Nat} (w0 w1 : MArrD1 V)
    (h0 : Shape1 d0 w0.toU) (h1 : Shape1 d1 w1.toU) :
    ∃ a, MArrD2.product2 mul d0 d1 w0 w1 = some a ∧ Shape2 d0 d1 a.toU ∧
      flat2 a.toU = w0.inner.flatMap fun x => w1.inner.map fun y => mul x y := by
  have hl : (product2Iter mul w0 w1).length = d0 * d1 := by
    rw [product2Iter_eq, outer2_length]; rw [← h0, ← h1]; rfl
  obtain ⟨a, g1, g2, g3⟩ := L2.fromIter_ok d0 d1 (product2Iter mul w0 w1) (by omega)
  exact ⟨a, g1, g2, by rw [g3, ← hl, List.take_length, product2Iter_eq]⟩

theorem L3.product_ok (mul : V → V → V) {d0 d1 d2 : Nat} (w0 w1 w2 : MArrD1 V)
    (h0 : Shape1 d0 w0.toU) (h1 : Shape1 d1 w1.toU) (h2 : Shape1 d2 w2.toU) :
    ∃ a, MArrD3.product3 mul d0 d1 d2 w0 w1 w2 = some a ∧ Shape3 d0 d1 d2 a.toU ∧
      flat3 a.toU = w0.inner.flatMap fun x => w1.inner.flatMap fun y => w2.inner.map fun t => mul (mul x y) t := by
  have hl : (product3Iter mul w0 w1 w2).length = d0 * d1 * d2 := by
    rw [product3Iter_eq, outer3_length]; rw [← h0, ← h1, ← h2]; rfl
  obtain ⟨a, g1, g2, g3⟩ := L3.fromIter_ok d0 d1 d2 (product3Iter mul w0 w1 w2) (by omega)
  exact ⟨a, g1, g2, by rw [g3, ← hl, List.take_length, product3Iter_eq]⟩

end SLV.MArr
