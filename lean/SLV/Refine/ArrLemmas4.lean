/-
  Helper lemmas for C17 (part 4): row-major positions, sub-arrays, equality, the remaining operations.
-/
import SLV.Refine.ArrLemmas3
import SLV.Model.MArrProg

namespace SLV.MArr

variable {V : Type}

/-- index by a coordinate list (generic cell type; `U1.idx` etc. of MArrProg are the `Nat` instances) -/
def U1.idx' (a : MArr1 V) : List Nat → Option V | [i] => MArr1.index a i | _ => none
def U2.idx' (a : MArr2 V) : List Nat → Option V | [i, j] => MArr2.index a i j | _ => none
def U3.idx' (a : MArr3 V) : List Nat → Option V | [i, j, k] => MArr3.index a i j k | _ => none

@[simp] theorem pos1 (k0 i : Nat) : pos [k0] [i] = i := by simp [pos]
@[simp] theorem pos2 (k0 k1 i j : Nat) : pos [k0, k1] [i, j] = i * k1 + j := by simp [pos]
@[simp] theorem pos3 (k0 k1 k2 i j k : Nat) : pos [k0, k1, k2] [i, j, k] = (i * k1 + j) * k2 + k := by simp [pos]

theorem pos2_lt {k0 k1 i j : Nat} (hi : i < k0) (hj : j < k1) : i * k1 + j < k0 * k1 := by
  calc i * k1 + j < i * k1 + k1 := by omega
    _ = (i + 1) * k1 := by ring
    _ ≤ k0 * k1 := Nat.mul_le_mul_right _ hi

theorem pos3_lt {k0 k1 k2 i j k : Nat} (hi : i < k0) (hj : j < k1) (hk : k < k2) :
    (i * k1 + j) * k2 + k < k0 * k1 * k2 := pos2_lt (pos2_lt hi hj) hk

/-! ### positions in `lexList` -/

theorem lexList_cons_getElem? (s : Nat) (ss : List Nat) (p : Nat) (hp : p < s * ss.prod) :
    (lexList (s :: ss))[p]? = ((lexList ss)[p % ss.prod]?).map ((p / ss.prod) :: ·) := by
  have hP : 0 < ss.prod := by
    rcases Nat.eq_zero_or_pos ss.prod with h | h
    · rw [h] at hp; simp at hp
    · exact h
  have hrows : ∀ r ∈ (List.range s).map (fun i => (lexList ss).map (i :: ·)), r.length = ss.prod := by
    intro r hr
    obtain ⟨i, _, rfl⟩ := List.mem_map.mp hr
    simp [lexList_length]
  have hdiv : p / ss.prod < s := (Nat.div_lt_iff_lt_mul hP).mpr hp
  have := flatten_getElem? ss.prod _ hrows (p / ss.prod) (p % ss.prod) (Nat.mod_lt _ hP)
  rw [Nat.div_add_mod'] at this
  simp only [lexList, List.flatMap_def]
  rw [this]
  simp [List.getElem?_range hdiv]

theorem lexList1_getElem? (k j : Nat) (hj : j < k) : (lexList [k])[j]? = some [j] := by
  rw [← (keys_lex k 0 0).1]; simp [keys, List.getElem?_range hj]

theorem lexList2_getElem? (k0 k1 p : Nat) (hp : p < k0 * k1) :
    (lexList [k0, k1])[p]? = some [p / k1, p % k1] := by
  have hk1 : 0 < k1 := by
    rcases Nat.eq_zero_or_pos k1 with h | h
    · rw [h] at hp; simp at hp
    · exact h
  rw [lexList_cons_getElem? k0 [k1] p (by simpa using hp)]
  simp [lexList1_getElem? k1 (p % k1) (Nat.mod_lt _ hk1)]

theorem lexList3_getElem? (k0 k1 k2 p : Nat) (hp : p < k0 * k1 * k2) :
    (lexList [k0, k1, k2])[p]? = some [p / (k1 * k2), p % (k1 * k2) / k2, p % (k1 * k2) % k2] := by
  have hP : 0 < k1 * k2 := by
    rcases Nat.eq_zero_or_pos (k1 * k2) with h | h
    · rw [Nat.mul_assoc, h] at hp; simp at hp
    · exact h
  rw [lexList_cons_getElem? k0 [k1, k2] p (by simpa [Nat.mul_assoc] using hp)]
  simp [lexList2_getElem? k1 k2 (p % (k1 * k2)) (Nat.mod_lt _ hP)]

/-! ### reading all cells through the index enumeration -/

theorem mapM_getElem {K W : Type} : ∀ (idxs : List K) (fl : List W) (g : K → Option W),
    idxs.length = fl.length → (∀ p (hp : p < idxs.length), g idxs[p] = fl[p]?) → idxs.mapM g = some fl := by
  intro idxs
  induction idxs with
  | nil => intro fl g hl _; cases fl with | nil => rfl | cons _ _ => simp at hl
  | cons k ks ih =>
    intro fl g hl h
    cases fl with
    | nil => simp at hl
    | cons y ys =>
      have h0 := h 0 (by simp)
      simp at h0
      have := ih ys g (by simpa using hl) (fun p hp => by
        have := h (p + 1) (by simp; omega)
        simpa [List.getElem_cons_succ] using this)
      simp [List.mapM_cons, h0, this]

theorem U1.idx_lex {k0 : Nat} {a : MArr1 V} (_h : Shape1 k0 a) :
    ∀ p (hp : p < (lexList [k0]).length), U1.idx' a (lexList [k0])[p] = (flat1 a)[p]? := by
  intro p hp
  have hp' : p < k0 := by simpa [lexList_length] using hp
  have := lexList1_getElem? k0 p hp'
  rw [List.getElem?_eq_getElem hp] at this
  rw [Option.some.inj this]; rfl

theorem U2.idx_lex {k0 k1 : Nat} {a : MArr2 V} (h : Shape2 k0 k1 a) :
    ∀ p (hp : p < (lexList [k0, k1]).length), U2.idx' a (lexList [k0, k1])[p] = (flat2 a)[p]? := by
  intro p hp
  have hp' : p < k0 * k1 := by simpa [lexList_length] using hp
  have hk1 : 0 < k1 := by
    rcases Nat.eq_zero_or_pos k1 with h | h
    · rw [h] at hp'; simp at hp'
    · exact h
  have := lexList2_getElem? k0 k1 p hp'
  rw [List.getElem?_eq_getElem hp] at this
  rw [Option.some.inj this]
  show MArr2.index a (p / k1) (p % k1) = _
  rw [U2.index_eq h _ _ (Nat.mod_lt _ hk1), Nat.div_add_mod']

theorem U3.idx_lex {k0 k1 k2 : Nat} {a : MArr3 V} (h : Shape3 k0 k1 k2 a) :
    ∀ p (hp : p < (lexList [k0, k1, k2]).length), U3.idx' a (lexList [k0, k1, k2])[p] = (flat3 a)[p]? := by
  intro p hp
  have hp' : p < k0 * k1 * k2 := by simpa [lexList_length, Nat.mul_assoc] using hp
  have hP : 0 < k1 * k2 := by
    rcases Nat.eq_zero_or_pos (k1 * k2) with h | h
    · rw [Nat.mul_assoc, h] at hp'; simp at hp'
    · exact h
  have hk2 : 0 < k2 := Nat.pos_of_mul_pos_left hP
  have hk1 : 0 < k1 := Nat.pos_of_mul_pos_right hP
  have := lexList3_getElem? k0 k1 k2 p hp'
  rw [List.getElem?_eq_getElem hp] at this
  rw [Option.some.inj this]
  show MArr3.index a (p / (k1 * k2)) (p % (k1 * k2) / k2) (p % (k1 * k2) % k2) = _
  rw [U3.index_eq h _ _ _ ((Nat.div_lt_iff_lt_mul hk2).mpr (Nat.mod_lt _ hP)) (Nat.mod_lt _ hk2)]
  congr 1
  have e1 : p % (k1 * k2) / k2 * k2 + p % (k1 * k2) % k2 = p % (k1 * k2) := Nat.div_add_mod' _ _
  have e2 : p / (k1 * k2) * (k1 * k2) + p % (k1 * k2) = p := Nat.div_add_mod' _ _
  calc (p / (k1 * k2) * k1 + p % (k1 * k2) / k2) * k2 + p % (k1 * k2) % k2
      = p / (k1 * k2) * (k1 * k2) + (p % (k1 * k2) / k2 * k2 + p % (k1 * k2) % k2) := by ring
    _ = p := by rw [e1, e2]

/-! ### sub-arrays are slices of the flat list -/

theorem flatten_slice (n : Nat) : ∀ rows : List (List V), (∀ r ∈ rows, r.length = n) →
    ∀ i r, rows[i]? = some r → (rows.flatten.drop (i * n)).take n = r := by
  intro rows
  induction rows with
  | nil => intro _ i r hr; simp at hr
  | cons r0 rs ih =>
    intro h i r hr
    have hr0 : r0.length = n := h r0 (by simp)
    cases i with
    | zero =>
      simp at hr; subst hr
      simp [List.take_left' hr0]
    | succ i =>
      simp at hr
      rw [List.flatten_cons, show (i + 1) * n = n + i * n by ring, ← List.drop_drop, List.drop_left' hr0]
      exact ih (fun r hr => h r (List.mem_cons_of_mem _ hr)) i r hr

theorem flatten_set_row (n : Nat) : ∀ rows : List (List V), (∀ r ∈ rows, r.length = n) →
    ∀ i r', i < rows.length →
    (rows.set i r').flatten = rows.flatten.take (i * n) ++ r' ++ rows.flatten.drop ((i + 1) * n) := by
  intro rows
  induction rows with
  | nil => intro _ i r' hi; simp at hi
  | cons r0 rs ih =>
    intro h i r' hi
    have hr0 : r0.length = n := h r0 (by simp)
    cases i with
    | zero => simp [List.drop_left' hr0]
    | succ i =>
      have hi' : i < rs.length := by simpa using hi
      simp only [List.set_cons_succ, List.flatten_cons]
      rw [ih (fun r hr => h r (List.mem_cons_of_mem _ hr)) i r' hi']
      have hT : (r0 ++ rs.flatten).take ((i + 1) * n) = r0 ++ rs.flatten.take (i * n) := by
        rw [show (i + 1) * n = n + i * n by ring, List.take_add, List.take_left' hr0, List.drop_left' hr0]
      have hD : (r0 ++ rs.flatten).drop ((i + 1 + 1) * n) = rs.flatten.drop ((i + 1) * n) := by
        rw [show (i + 1 + 1) * n = n + (i + 1) * n by ring, ← List.drop_drop, List.drop_left' hr0]
      rw [hT, hD]
      simp [List.append_assoc]

theorem flatten_inj_uniform (n : Nat) : ∀ rows1 rows2 : List (List V),
    (∀ r ∈ rows1, r.length = n) → (∀ r ∈ rows2, r.length = n) → rows1.length = rows2.length →
    rows1.flatten = rows2.flatten → rows1 = rows2 := by
  intro rows1
  induction rows1 with
  | nil => intro rows2 _ _ hl _; cases rows2 with | nil => rfl | cons _ _ => simp at hl
  | cons r1 rs1 ih =>
    intro rows2 h1 h2 hl hf
    cases rows2 with
    | nil => simp at hl
    | cons r2 rs2 =>
      simp only [List.flatten_cons] at hf
      have := List.append_inj hf (by rw [h1 r1 (by simp), h2 r2 (by simp)])
      rw [this.1, ih rs2 (fun r hr => h1 r (List.mem_cons_of_mem _ hr))
        (fun r hr => h2 r (List.mem_cons_of_mem _ hr)) (by simpa using hl) this.2]

theorem Shape2.eq_of_flat {k0 k1 : Nat} {a b : MArr2 V} (ha : Shape2 k0 k1 a) (hb : Shape2 k0 k1 b)
    (h : flat2 a = flat2 b) : a = b :=
  flatten_inj_uniform k1 a b ha.2 hb.2 (by rw [ha.1, hb.1]) h

theorem Shape3.eq_of_flat {k0 k1 k2 : Nat} {a b : MArr3 V} (ha : Shape3 k0 k1 k2 a) (hb : Shape3 k0 k1 k2 b)
    (h : flat3 a = flat3 b) : a = b := by
  rw [flat3_eq, flat3_eq] at h
  have h2 := Shape2.eq_of_flat ha.flatten hb.flatten h
  exact flatten_inj_uniform k1 a b (fun p hp => (ha.2 p hp).1) (fun p hp => (hb.2 p hp).1)
    (by rw [ha.1, hb.1]) h2

theorem toU1_inj : Function.Injective (MArrD1.toU (V := V)) := by
  intro a b h; cases a; cases b; simp_all [MArrD1.toU]
theorem toU2_inj : Function.Injective (MArrD2.toU (V := V)) := by
  intro a b h
  have := (List.map_injective_iff.mpr toU1_inj) h
  cases a with | mk ia => cases b with | mk ib => cases ia; cases ib; simp_all
theorem toU3_inj : Function.Injective (MArrD3.toU (V := V)) := by
  intro a b h
  have := (List.map_injective_iff.mpr toU2_inj) h
  cases a with | mk ia => cases b with | mk ib => cases ia; cases ib; simp_all

end SLV.MArr
