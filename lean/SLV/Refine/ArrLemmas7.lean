/-
  Helper lemmas for C17 (part 7): index-paired iteration, labelled coordinate readers, mutable iteration.
-/
import SLV.Refine.ArrLemmas6

namespace SLV.MArr

variable {V : Type}

def L1.idx' (a : MArrD1 V) : List Nat → Option V | [i] => a.index i | _ => none
def L2.idx' (a : MArrD2 V) : List Nat → Option V | [i, j] => a.index i j | _ => none
def L3.idx' (a : MArrD3 V) : List Nat → Option V | [i, j, k] => a.index i j k | _ => none

theorem L1.idx'_toU (a : MArrD1 V) : L1.idx' a = U1.idx' a.toU := by
  funext k
  match k with
  | [] => rfl
  | [_] => rfl
  | _ :: _ :: _ => rfl
theorem L2.idx'_toU (a : MArrD2 V) : L2.idx' a = U2.idx' a.toU := by
  funext k
  match k with
  | [] => rfl
  | [_] => rfl
  | [i, j] => exact L2.index_toU a i j
  | _ :: _ :: _ :: _ => rfl
theorem L3.idx'_toU (a : MArrD3 V) : L3.idx' a = U3.idx' a.toU := by
  funext k
  match k with
  | [] => rfl
  | [_] => rfl
  | [_, _] => rfl
  | [i, j, k] => exact L3.index_toU a i j k
  | _ :: _ :: _ :: _ :: _ => rfl

/-- `indexes().map(|i| (i.clone(), &self[i]))` pairs every index with its cell -/
theorem iterWith_of {K W : Type} : ∀ (idxs : List K) (fl : List W) (g : K → Option W),
    idxs.length = fl.length → (∀ p (hp : p < idxs.length), g idxs[p] = fl[p]?) →
    idxs.mapM (fun k => (g k).map fun v => (k, v)) = some (idxs.zip fl) := by
  intro idxs
  induction idxs with
  | nil => intro fl g hl _; cases fl with | nil => rfl | cons _ _ => simp at hl
  | cons k ks ih =>
    intro fl g hl h
    cases fl with
    | nil => simp at hl
    | cons y ys =>
      have h0 := h 0 (by simp)
      simp at h0
      have := ih ys g (by simpa using hl) (fun p hp => by
        have := h (p + 1) (by simp; omega)
        simpa [List.getElem_cons_succ] using this)
      simp [List.mapM_cons, h0, this]

end SLV.MArr
