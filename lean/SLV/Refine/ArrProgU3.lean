/-
  C17 programs: the unlabelled rank-3 kind refines the flat specification.
-/
import SLV.Refine.ArrProg2

namespace SLV.MArr

def RU3 (k0 k1 k2 : Nat) (a : MArr3 Nat) (fl : List Nat) : Prop := Shape3 k0 k1 k2 a ∧ flat3 a = fl

theorem cells2_eq' {k0 k1 : Nat} {a : MArr2 Nat} (h : Shape2 k0 k1 a) : cells2 a = k0 * k1 := by
  rw [cells2, ← List.length_flatten]; exact flat2_length h

theorem cells3_eq {k0 k1 k2 : Nat} {a : MArr3 Nat} (h : Shape3 k0 k1 k2 a) : cells3 a = k0 * k1 * k2 := by
  rw [cells3, List.map_congr_left (fun p hp => cells2_eq' (h.2 p hp)), List.map_const', List.sum_replicate_nat,
    h.1, Nat.mul_assoc]

theorem U3.dump_eq {k0 k1 k2 : Nat} {a : MArr3 Nat} {fl : List Nat} (h : RU3 k0 k1 k2 a fl) :
    (kindU3 k0 k1 k2).dump a = specDump fl := by
  obtain ⟨hs, hf⟩ := h
  obtain ⟨hg, hc⟩ := U3.iter_init hs
  have hl : (lexList [k0, k1, k2]).length = (flat3 a).length := by
    rw [flat3_length hs]; simp [lexList_length, Nat.mul_assoc]
  refine mkDump_eq (U3.LL k1 k2) hg (hc.trans hf) (by rw [← hf, flat3_length hs, cells3_eq hs]) ?_
  rw [toList_eq_lexList, U3.idx_eq, ← hf]
  exact mapM_getElem _ _ _ hl (U3.idx_lex hs)

theorem shape3_of_all {k0 k1 k2 : Nat} {v : List (List (List Nat))} (h0 : v.length = k0)
    (h1 : (v.all fun p => p.length == k1) = true)
    (h2 : (v.all fun p => p.all fun r => r.length == k2) = true) : Shape3 k0 k1 k2 v :=
  ⟨h0, fun p hp => ⟨by simpa using List.all_eq_true.mp h1 p hp,
    fun r hr => by simpa using List.all_eq_true.mp (List.all_eq_true.mp h2 p hp) r hr⟩⟩

theorem flatten3_eq (v : List (List (List Nat))) : flatten3 v = flat3 v := by
  rw [flat3_eq, flat2, flatten3]

theorem refinesU3 (k0 k1 k2 : Nat) :
    Refines (kindU3 k0 k1 k2) (kindSpec false false [k0, k1, k2]) (RU3 k0 k1 k2) where
  labelled := rfl
  newtype := rfl
  dims := rfl
  zeros := ⟨(U3.zeros_ok 0 k0 k1 k2).1, by rw [(U3.zeros_ok 0 k0 k1 k2).2]; simp [prodDims]⟩
  dflt := ⟨(U3.zeros_ok 0 k0 k1 k2).1, by rw [(U3.zeros_ok 0 k0 k1 k2).2]; simp [prodDims]⟩
  fromFn f := by
    obtain ⟨a, h1, h2, h3⟩ := U3.fromFn_ok k0 k1 k2 f
    exact OutR.ofOpt_some h1 ⟨h2, h3⟩
  fromIter v _ := by
    have hS : (kindSpec false false [k0, k1, k2]).fromIter v =
        if k0 * k1 * k2 ≤ v.length then .ok (v.take (k0 * k1 * k2)) else .panic := by simp [kindSpec, prodDims]
    rw [hS]
    by_cases h : k0 * k1 * k2 ≤ v.length
    · obtain ⟨a, h1, h2, h3⟩ := U3.fromIter_ok k0 k1 k2 v h
      rw [if_pos h]; exact OutR.ofOpt_some h1 ⟨h2, h3⟩
    · rw [if_neg h]; exact OutR.ofOpt_none (U3.fromIter_short k0 k1 k2 v (by omega))
  fromNested t hne := by
    cases t with
    | n1 v => simp [kindSpec, kindU3, Nested.rank, OutR]
    | n2 v => simp [kindSpec, kindU3, Nested.rank, OutR]
    | n3 planes =>
      by_cases h0 : planes.length = k0 ∧ (planes.all fun p => p.length == k1) = true
      · by_cases h2 : (planes.all fun p => p.all fun r => r.length == k2) = true
        · have hS : (kindSpec false false [k0, k1, k2]).fromNested (.n3 planes) = .ok (flatten3 planes) := by
            have h01 := h0.2
            simp only [List.all_eq_true, beq_iff_eq] at h01 h2
            simp [kindSpec, Nested.rank, Nested.outerOk, Nested.innerOk, h0.1, Nested.flat]
            rw [if_neg (fun ⟨x, hx, hc⟩ => hc (h01 x hx)), if_pos h2]
          rw [hS]
          simp only [kindU3, h0, and_self, if_true]
          rw [show (planes.map fun p => p.map MArr1.fromIter) = planes from
            map_eq_self _ (fun p => map_eq_self _ (fun _ => rfl) p) planes]
          exact ⟨shape3_of_all h0.1 h0.2 h2, (flatten3_eq planes).symm⟩
        · exfalso; apply hne
          have h01 := h0.2
          simp only [List.all_eq_true, beq_iff_eq] at h01
          simp [kindSpec, Nested.rank, Nested.outerOk, Nested.innerOk, h0.1]
          rw [if_neg (fun ⟨x, hx, hc⟩ => hc (h01 x hx)), if_neg (fun h => h2 (by simpa using h))]
      · have hS : (kindSpec false false [k0, k1, k2]).fromNested (.n3 planes) = .na := by
          simp [kindSpec, Nested.rank, Nested.outerOk]
          intro ha hb; exact absurd ⟨ha, by simpa using hb⟩ h0
        rw [hS]
        simp only [kindU3, h0, if_false]
        trivial
  index a fl idx h := by
    obtain ⟨hs, hf⟩ := h
    match idx with
    | [] => simp [kindSpec, kindU3]
    | [_] => simp [kindSpec, kindU3]
    | [_, _] => simp [kindSpec, kindU3]
    | _ :: _ :: _ :: _ :: _ => simp [kindSpec, kindU3]
    | [i, j, k] =>
      by_cases hij : i < k0 ∧ j < k1 ∧ k < k2
      · simp [kindSpec, kindU3, inShape, hij.1, hij.2.1, hij.2.2, U3.index_eq hs i j k hij.2.1 hij.2.2, hf]
      · have := (U3.oob hs i j k hij 0).1
        have hsh : inShape [k0, k1, k2] [i, j, k] = false := by
          simp [inShape]; omega
        simp [kindSpec, kindU3, this, hsh, Out.ofOpt]
  indexMut a fl idx v h := by
    obtain ⟨hs, hf⟩ := h
    match idx with
    | [] => simp [kindSpec, kindU3, OutR]
    | [_] => simp [kindSpec, kindU3, OutR]
    | [_, _] => simp [kindSpec, kindU3, OutR]
    | _ :: _ :: _ :: _ :: _ => simp [kindSpec, kindU3, OutR]
    | [i, j, k] =>
      by_cases hij : i < k0 ∧ j < k1 ∧ k < k2
      · obtain ⟨a', h1, h2, h3⟩ := U3.write hs i j k hij.1 hij.2.1 hij.2.2 v
        have hS : (kindSpec false false [k0, k1, k2]).indexMut fl [i, j, k] v =
            .ok (fl.set ((i * k1 + j) * k2 + k) v) := by
          simp [kindSpec, inShape, hij.1, hij.2.1, hij.2.2]
        rw [hS]
        exact OutR.ofOpt_some h1 ⟨h2, by rw [h3, hf]⟩
      · have := (U3.oob hs i j k hij v).2
        have hsh : inShape [k0, k1, k2] [i, j, k] = false := by
          simp [inShape]; omega
        have hS : (kindSpec false false [k0, k1, k2]).indexMut fl [i, j, k] v = .panic := by
          simp [kindSpec, hsh]
        rw [hS]
        exact OutR.ofOpt_none this
  dump a fl h := U3.dump_eq h
  iterMutAdd a fl c _ := by simp [kindSpec, kindU3, OutR]
  downDump a fl i _ := by simp [kindSpec, kindU3]
  downMutSet a fl i idx v _ := by simp [kindSpec, kindU3, OutR]
  downMutFn a fl i f _ := by simp [kindSpec, kindU3, OutR]
  beq a fl b fl' ha hb := by
    show (a == b) = (fl == fl')
    rw [Bool.eq_iff_iff, beq_iff_eq, beq_iff_eq, ← ha.2, ← hb.2]
    exact ⟨fun h => h ▸ rfl, ha.1.eq_of_flat hb.1⟩
  clone a fl h := h
  conv a fl _ := by simp [kindSpec, kindU3]
  asRef a fl _ := by simp [kindSpec, kindU3]
  product ws := by
    match ws with
    | [] => simp [kindSpec, kindU3, specProduct, OutR]
    | [_] => simp [kindSpec, kindU3, specProduct, OutR]
    | [_, _] => simp [kindSpec, kindU3, specProduct, OutR]
    | _ :: _ :: _ :: _ :: _ => simp [kindSpec, kindU3, specProduct, OutR]
    | [w0, w1, w2] =>
      by_cases hl : w0.length = k0 ∧ w1.length = k1 ∧ w2.length = k2
      · obtain ⟨a, h1, h2, h3⟩ := U3.product_ok mulU 0 w0 w1 w2
        have hS : (kindSpec false false [k0, k1, k2]).product [w0, w1, w2] = .ok (outerList [w0, w1, w2]) := by
          simp [kindSpec, specProduct, hl.1, hl.2.1, hl.2.2]
        rw [hS]
        simp only [kindU3, hl, and_self, if_true]
        rw [hl.1, hl.2.1, hl.2.2] at h2
        exact OutR.ofOpt_some h1 ⟨h2, by rw [h3]; rfl⟩
      · have hS : (kindSpec false false [k0, k1, k2]).product [w0, w1, w2] = .na := by
          simp [kindSpec, specProduct]; intro h0 h1 h2; exact hl ⟨h0, h1, h2⟩
        rw [hS]
        simp [kindU3, hl, OutR]
  productIter ws := by simp [kindSpec, kindU3]
  tryFrom t := by
    cases t with
    | n1 v => simp [kindSpec, kindU3, Nested.rank]
    | n2 v => simp [kindSpec, kindU3, Nested.rank]
    | n3 v =>
      by_cases hsh : v.length = k0 ∧ ∀ p ∈ v, p.length = k1 ∧ ∀ r ∈ p, r.length = k2
      · have hb : (v.all fun p => p.length == k1 && p.all (fun r => r.length == k2)) = true := by
          simpa using hsh.2
        have hshape : Shape3 k0 k1 k2 v := hsh
        have hS : (kindSpec false false [k0, k1, k2]).tryFrom (.n3 v) = firstErr (flat3 v) := by
          simp [kindSpec, Nested.rank, Nested.shapeOk, Nested.outerOk, Nested.innerOk, hsh.1, Nested.flat,
            flatten3_eq]
          intro h1; obtain ⟨x, hx, r, hr, hc⟩ := h1 (fun x hx => (hsh.2 x hx).1); exact absurd ((hsh.2 x hx).2 r hr) hc
        rw [hS, firstErr_eq]
        simp only [kindU3, hsh.1, hb, and_self, if_true, tryFrom3_even]
        cases hfe : firstErrE (flat3 v) with
        | error e => rfl
        | ok l =>
          obtain ⟨hg, hc⟩ := U3.iter_init hshape
          obtain ⟨s', h1, _⟩ := (U3.LL k1 k2).drain (cells3 v + 1) (MArr3.iter v) hg
            (by rw [hc, flat3_length hshape, cells3_eq hshape]; omega)
          have hl : l = flat3 v := by
            unfold firstErrE at hfe
            cases hfind : (flat3 v).find? (fun v => v % 2 == 1) with
            | some x => simp [hfind] at hfe
            | none => simp [hfind] at hfe; exact hfe.symm
          simp [onOk, exceptOut, Out.map, h1, hc, hl]
      · have hS : (kindSpec false false [k0, k1, k2]).tryFrom (.n3 v) = .na := by
          simp [kindSpec, Nested.rank, Nested.shapeOk, Nested.outerOk, Nested.innerOk]
          intro h0 h1 h2; exact absurd ⟨h0, fun p hp => ⟨h1 p hp, h2 p hp⟩⟩ hsh
        rw [hS]
        simp [kindU3]
        intro h0 h1; exact absurd ⟨h0, h1⟩ hsh
  iterWith a fl h := by
    obtain ⟨hs, hf⟩ := h
    have hl : (lexList [k0, k1, k2]).length = (flat3 a).length := by
      rw [flat3_length hs]; simp [lexList_length, Nat.mul_assoc]
    have := iterWith_of _ _ _ hl (U3.idx_lex hs)
    simp [kindU3, kindSpec, mkIterWith, toList_eq_lexList, U3.idx_eq, this, Out.ofOpt, hf]
  indexes := mrEnum_eq _
  keys := rfl
  len := by simp [kindU3, kindSpec, prodDims]
  resumeIdx := mrResume_eq _
  resumeKeys := rfl

end SLV.MArr
