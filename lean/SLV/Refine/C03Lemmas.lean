/-
  Helper lemmas for C03 (fusion agrees with the evidence-space specification SLV/Oracle/Fuse.lean):
  `List.ofFn` plumbing, and the specification evaluated on `List.ofFn` tables of well-formed operands
  = the ideal closed forms `FuseQ.idealS` / `FuseQ.idealA` of SLV/Refine/FuseLemmas.lean.
  No property statements here.
-/
import SLV.Refine.FuseLemmas
import SLV.Oracle.Fuse

namespace SLV
open Scalar FuseQ
open SLV.Props.C09 (WF uhat bmax cand)

variable {f : Fmt} {n : Nat}

/-- the model's operator tag as the specification's -/
def toOp : FuseOp → Oracle.Op
  | .acm => .acm | .ecm => .ecm | .avg => .avg | .wgh => .wgh

/-! ### lists -/

theorem foldl_add_ofFn (g : Fin n → ℚ) (c : ℚ) :
    (List.ofFn g).foldl (· + ·) c = c + ∑ i, g i := by
  induction n generalizing c with
  | zero => simp
  | succ n ih =>
    rw [List.ofFn_succ, List.foldl_cons, ih, Fin.sum_univ_succ]; ring

theorem sumQ_ofFn (g : Fin n → ℚ) : Oracle.sumQ (List.ofFn g) = ∑ i, g i := by
  unfold Oracle.sumQ; rw [foldl_add_ofFn]; ring

theorem zipWith_ofFn {α β γ : Type} (h : α → β → γ) (g1 : Fin n → α) (g2 : Fin n → β) :
    List.zipWith h (List.ofFn g1) (List.ofFn g2) = List.ofFn fun i => h (g1 i) (g2 i) := by
  induction n with
  | zero => simp
  | succ n ih => simp [List.ofFn_succ, ih]

theorem map_ofFn' {α β : Type} (h : α → β) (g : Fin n → α) :
    (List.ofFn g).map h = List.ofFn fun i => h (g i) := by
  rw [List.map_ofFn]; rfl

theorem evidence_ofFn (b : Fin n → ℚ) (u : ℚ) :
    Oracle.evidence (List.ofFn b) u = List.ofFn fun i => 2 * b i / u := by
  unfold Oracle.evidence Oracle.W; exact map_ofFn' _ _

theorem ofEvidence_ofFn (r : Fin n → ℚ) :
    Oracle.ofEvidence (List.ofFn r)
      = (List.ofFn fun i => r i / (2 + ∑ j, r j), 2 / (2 + ∑ j, r j)) := by
  unfold Oracle.ofEvidence Oracle.W
  simp only [sumQ_ofFn, map_ofFn']

theorem zipAdd_ofFn (x y : Fin n → ℚ) :
    Oracle.zipAdd (List.ofFn x) (List.ofFn y) = List.ofFn fun i => x i + y i := zipWith_ofFn _ _ _

theorem scale_ofFn (c : ℚ) (x : Fin n → ℚ) :
    Oracle.scale c (List.ofFn x) = List.ofFn fun i => c * x i := map_ofFn' _ _

theorem meanL_ofFn (x y : Fin n → ℚ) :
    Oracle.meanL (List.ofFn x) (List.ofFn y) = List.ofFn (meanA x y) := zipWith_ofFn _ _ _

theorem projQ_ofFn (b a : Fin n → ℚ) (u : ℚ) :
    Oracle.projQ (List.ofFn b) u (List.ofFn a) = List.ofFn fun i => b i + a i * u := zipWith_ofFn _ _ _

/-! ### evidence algebra -/

theorem sum_evidence {b : Fin n → ℚ} {u : ℚ} (h : SWF b u) : ∑ i, 2 * b i / u = 2 * (1 - u) / u := by
  rw [← Finset.sum_div, ← Finset.mul_sum, h.sum_b]

theorem acm_alg (x y : ℚ) {u1 u2 : ℚ} (z1 : u1 ≠ 0) (z2 : u2 ≠ 0) (ht : u1 + u2 - u1 * u2 ≠ 0) :
    (2 * x / u1 + 2 * y / u2) / (2 + (2 * (1 - u1) / u1 + 2 * (1 - u2) / u2))
        = (x * u2 + y * u1) / (u1 + u2 - u1 * u2) ∧
    2 / (2 + (2 * (1 - u1) / u1 + 2 * (1 - u2) / u2)) = u1 * u2 / (u1 + u2 - u1 * u2) := by
  have key : 2 + (2 * (1 - u1) / u1 + 2 * (1 - u2) / u2) = 2 * (u1 + u2 - u1 * u2) / (u1 * u2) := by
    field_simp; ring
  rw [key]
  constructor <;> (field_simp; try ring)

theorem avg_alg (x y : ℚ) {u1 u2 : ℚ} (z1 : u1 ≠ 0) (z2 : u2 ≠ 0) (ht : u1 + u2 ≠ 0) :
    (1 / 2 * (2 * x / u1 + 2 * y / u2)) / (2 + 1 / 2 * (2 * (1 - u1) / u1 + 2 * (1 - u2) / u2))
        = (x * u2 + y * u1) / (u1 + u2) ∧
    2 / (2 + 1 / 2 * (2 * (1 - u1) / u1 + 2 * (1 - u2) / u2)) = 2 * u1 * u2 / (u1 + u2) := by
  have key : 2 + 1 / 2 * (2 * (1 - u1) / u1 + 2 * (1 - u2) / u2) = (u1 + u2) / (u1 * u2) := by
    field_simp; ring
  rw [key]
  constructor <;> (field_simp; try ring)

theorem wgh_alg (x y : ℚ) {u1 u2 : ℚ} (z1 : u1 ≠ 0) (z2 : u2 ≠ 0) (hc : (1 - u1) + (1 - u2) ≠ 0)
    (ht : u2 * (1 - u1) + u1 * (1 - u2) ≠ 0) :
    (1 / ((1 - u1) + (1 - u2)) * ((1 - u1) * (2 * x / u1) + (1 - u2) * (2 * y / u2)))
        / (2 + 1 / ((1 - u1) + (1 - u2)) *
            ((1 - u1) * (2 * (1 - u1) / u1) + (1 - u2) * (2 * (1 - u2) / u2)))
        = (x * (1 - u1) * u2 + y * (1 - u2) * u1) / (u2 * (1 - u1) + u1 * (1 - u2)) ∧
    2 / (2 + 1 / ((1 - u1) + (1 - u2)) *
            ((1 - u1) * (2 * (1 - u1) / u1) + (1 - u2) * (2 * (1 - u2) / u2)))
        = ((1 - u1) + (1 - u2)) * u1 * u2 / (u2 * (1 - u1) + u1 * (1 - u2)) := by
  have key : 2 + 1 / ((1 - u1) + (1 - u2)) *
        ((1 - u1) * (2 * (1 - u1) / u1) + (1 - u2) * (2 * (1 - u2) / u2))
      = 2 * (u2 * (1 - u1) + u1 * (1 - u2)) / (((1 - u1) + (1 - u2)) * (u1 * u2)) := by
    field_simp; ring
  rw [key]
  constructor <;> (field_simp; try ring)

end SLV
