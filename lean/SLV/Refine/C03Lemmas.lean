/-
  Helper lemmas for C03 (fusion agrees with the evidence-space specification SLV/Oracle/Fuse.lean):
  `List.ofFn` plumbing, and the specification evaluated on `List.ofFn` tables of well-formed operands
  = the ideal closed forms `FuseQ.idealS` / `FuseQ.idealA` of SLV/Refine/FuseLemmas.lean.
  No property statements here.
-/
import SLV.Refine.FuseLemmas
import SLV.Oracle.Fuse
import Mathlib.Data.List.FinRange

namespace SLV
open Scalar FuseQ
open SLV.Props.C09 (WF uhat bmax cand)

variable {f : Fmt} {n : Nat}

/-- the model's operator tag as the specification's -/
def toOp : FuseOp → Oracle.Op
  | .acm => .acm | .ecm => .ecm | .avg => .avg | .wgh => .wgh

/-! ### lists -/

theorem foldl_add_ofFn (g : Fin n → ℚ) (c : ℚ) :
    (List.ofFn g).foldl (· + ·) c = c + ∑ i, g i := by
  induction n generalizing c with
  | zero => simp
  | succ n ih =>
    rw [List.ofFn_succ, List.foldl_cons, ih, Fin.sum_univ_succ]; ring

theorem sumQ_ofFn (g : Fin n → ℚ) : Oracle.sumQ (List.ofFn g) = ∑ i, g i := by
  unfold Oracle.sumQ; rw [foldl_add_ofFn]; ring

theorem zipWith_ofFn {α β γ : Type} (h : α → β → γ) (g1 : Fin n → α) (g2 : Fin n → β) :
    List.zipWith h (List.ofFn g1) (List.ofFn g2) = List.ofFn fun i => h (g1 i) (g2 i) := by
  induction n with
  | zero => simp
  | succ n ih => simp [List.ofFn_succ, ih]

theorem map_ofFn' {α β : Type} (h : α → β) (g : Fin n → α) :
    (List.ofFn g).map h = List.ofFn fun i => h (g i) := by
  rw [List.map_ofFn]; rfl

theorem evidence_ofFn (b : Fin n → ℚ) (u : ℚ) :
    Oracle.evidence (List.ofFn b) u = List.ofFn fun i => 2 * b i / u := by
  unfold Oracle.evidence Oracle.W; exact map_ofFn' _ _

theorem ofEvidence_ofFn (r : Fin n → ℚ) :
    Oracle.ofEvidence (List.ofFn r)
      = (List.ofFn fun i => r i / (2 + ∑ j, r j), 2 / (2 + ∑ j, r j)) := by
  unfold Oracle.ofEvidence Oracle.W
  simp only [sumQ_ofFn, map_ofFn']

theorem zipAdd_ofFn (x y : Fin n → ℚ) :
    Oracle.zipAdd (List.ofFn x) (List.ofFn y) = List.ofFn fun i => x i + y i := zipWith_ofFn _ _ _

theorem scale_ofFn (c : ℚ) (x : Fin n → ℚ) :
    Oracle.scale c (List.ofFn x) = List.ofFn fun i => c * x i := map_ofFn' _ _

theorem meanL_ofFn (x y : Fin n → ℚ) :
    Oracle.meanL (List.ofFn x) (List.ofFn y) = List.ofFn (meanA x y) := zipWith_ofFn _ _ _

theorem projQ_ofFn (b a : Fin n → ℚ) (u : ℚ) :
    Oracle.projQ (List.ofFn b) u (List.ofFn a) = List.ofFn fun i => b i + a i * u := zipWith_ofFn _ _ _

/-! ### evidence algebra -/

theorem sum_evidence {b : Fin n → ℚ} {u : ℚ} (h : SWF b u) : ∑ i, 2 * b i / u = 2 * (1 - u) / u := by
  rw [← Finset.sum_div, ← Finset.mul_sum, h.sum_b]

theorem acm_alg (x y : ℚ) {u1 u2 : ℚ} (z1 : u1 ≠ 0) (z2 : u2 ≠ 0) (ht : u1 + u2 - u1 * u2 ≠ 0) :
    (2 * x / u1 + 2 * y / u2) / (2 + (2 * (1 - u1) / u1 + 2 * (1 - u2) / u2))
        = (x * u2 + y * u1) / (u1 + u2 - u1 * u2) ∧
    2 / (2 + (2 * (1 - u1) / u1 + 2 * (1 - u2) / u2)) = u1 * u2 / (u1 + u2 - u1 * u2) := by
  have key : 2 + (2 * (1 - u1) / u1 + 2 * (1 - u2) / u2) = 2 * (u1 + u2 - u1 * u2) / (u1 * u2) := by
    field_simp; ring
  rw [key]
  constructor <;> (field_simp; try ring)

theorem avg_alg (x y : ℚ) {u1 u2 : ℚ} (z1 : u1 ≠ 0) (z2 : u2 ≠ 0) (ht : u1 + u2 ≠ 0) :
    (1 / 2 * (2 * x / u1 + 2 * y / u2)) / (2 + 1 / 2 * (2 * (1 - u1) / u1 + 2 * (1 - u2) / u2))
        = (x * u2 + y * u1) / (u1 + u2) ∧
    2 / (2 + 1 / 2 * (2 * (1 - u1) / u1 + 2 * (1 - u2) / u2)) = 2 * u1 * u2 / (u1 + u2) := by
  have key : 2 + 1 / 2 * (2 * (1 - u1) / u1 + 2 * (1 - u2) / u2) = (u1 + u2) / (u1 * u2) := by
    field_simp; ring
  rw [key]
  constructor <;> (field_simp; try ring)

theorem wgh_alg (x y : ℚ) {u1 u2 : ℚ} (z1 : u1 ≠ 0) (z2 : u2 ≠ 0) (hc : (1 - u1) + (1 - u2) ≠ 0)
    (ht : u2 * (1 - u1) + u1 * (1 - u2) ≠ 0) :
    (1 / ((1 - u1) + (1 - u2)) * ((1 - u1) * (2 * x / u1) + (1 - u2) * (2 * y / u2)))
        / (2 + 1 / ((1 - u1) + (1 - u2)) *
            ((1 - u1) * (2 * (1 - u1) / u1) + (1 - u2) * (2 * (1 - u2) / u2)))
        = (x * (1 - u1) * u2 + y * (1 - u2) * u1) / (u2 * (1 - u1) + u1 * (1 - u2)) ∧
    2 / (2 + 1 / ((1 - u1) + (1 - u2)) *
            ((1 - u1) * (2 * (1 - u1) / u1) + (1 - u2) * (2 * (1 - u2) / u2)))
        = ((1 - u1) + (1 - u2)) * u1 * u2 / (u2 * (1 - u1) + u1 * (1 - u2)) := by
  have key : 2 + 1 / ((1 - u1) + (1 - u2)) *
        ((1 - u1) * (2 * (1 - u1) / u1) + (1 - u2) * (2 * (1 - u2) / u2))
      = 2 * (u2 * (1 - u1) + u1 * (1 - u2)) / (((1 - u1) + (1 - u2)) * (u1 * u2)) := by
    field_simp; ring
  rw [key]
  constructor <;> (field_simp; try ring)

/-! ### the specification on `List.ofFn` tables -/

/-- belief part of the specification on well-formed operands = the ideal closed form -/
theorem fuseSimplexSpec_ofFn (op : FuseOp) {b1 b2 : Fin n → ℚ} {u1 u2 : ℚ} (h1 : SWF b1 u1)
    (h2 : SWF b2 u2) :
    Oracle.fuseSimplexSpec (toOp op) (List.ofFn b1) u1 (List.ofFn b2) u2
      = (List.ofFn (idealS op b1 u1 b2 u2).1, (idealS op b1 u1 b2 u2).2) := by
  unfold Oracle.fuseSimplexSpec idealS
  by_cases hd : u1 = 0 ∧ u2 = 0
  · rw [if_pos hd, if_pos hd, meanL_ofFn]
  rw [if_neg hd, if_neg hd]
  by_cases z1 : u1 = 0
  · rw [if_pos z1, if_pos z1]
  rw [if_neg z1, if_neg z1]
  by_cases z2 : u2 = 0
  · rw [if_pos z2, if_pos z2]
  rw [if_neg z2, if_neg z2]
  have p1 : 0 < u1 := lt_of_le_of_ne h1.hu (Ne.symm z1)
  have p2 : 0 < u2 := lt_of_le_of_ne h2.hu (Ne.symm z2)
  simp only [evidence_ofFn, zipAdd_ofFn, scale_ofFn]
  cases op
  case acm =>
    have ht : u1 + u2 - u1 * u2 ≠ 0 := ne_of_gt (acm_temp_pos p1 h1.u_le_one h2.hu)
    simp only [toOp, ofEvidence_ofFn, Finset.sum_add_distrib, sum_evidence h1, sum_evidence h2]
    refine Prod.ext ?_ (acm_alg 0 0 z1 z2 ht).2
    exact congrArg List.ofFn (funext fun i => (acm_alg (b1 i) (b2 i) z1 z2 ht).1)
  case ecm =>
    have ht : u1 + u2 - u1 * u2 ≠ 0 := ne_of_gt (acm_temp_pos p1 h1.u_le_one h2.hu)
    simp only [toOp, ofEvidence_ofFn, Finset.sum_add_distrib, sum_evidence h1, sum_evidence h2]
    refine Prod.ext ?_ (acm_alg 0 0 z1 z2 ht).2
    exact congrArg List.ofFn (funext fun i => (acm_alg (b1 i) (b2 i) z1 z2 ht).1)
  case avg =>
    have ht : u1 + u2 ≠ 0 := ne_of_gt (by linarith)
    simp only [toOp, ofEvidence_ofFn, ← Finset.mul_sum, Finset.sum_add_distrib, sum_evidence h1,
      sum_evidence h2]
    refine Prod.ext ?_ (avg_alg 0 0 z1 z2 ht).2
    exact congrArg List.ofFn (funext fun i => (avg_alg (b1 i) (b2 i) z1 z2 ht).1)
  case wgh =>
    simp only [toOp]
    by_cases hv : u1 = 1 ∧ u2 = 1
    · rw [if_pos hv, if_pos hv, map_ofFn']
    rw [if_neg hv, if_neg hv]
    have c1 := sub_nonneg.mpr h1.u_le_one
    have c2 := sub_nonneg.mpr h2.u_le_one
    have hc : (1 - u1) + (1 - u2) ≠ 0 := by
      intro h
      exact hv ⟨by linarith, by linarith⟩
    have ht : u2 * (1 - u1) + u1 * (1 - u2) ≠ 0 := by
      have hcpos : 0 < (1 - u1) + (1 - u2) := lt_of_le_of_ne (add_nonneg c1 c2) (Ne.symm hc)
      apply ne_of_gt
      rcases lt_or_eq_of_le c1 with q | q
      · have := mul_pos p2 q; have := mul_nonneg p1.le c2; linarith
      · have q2 : 0 < 1 - u2 := by linarith
        have := mul_pos p1 q2; have := mul_nonneg p2.le c1; linarith
    simp only [ofEvidence_ofFn, ← Finset.mul_sum, Finset.sum_add_distrib, sum_evidence h1,
      sum_evidence h2]
    refine Prod.ext ?_ (wgh_alg 0 0 z1 z2 hc ht).2
    exact congrArg List.ofFn (funext fun i => (wgh_alg (b1 i) (b2 i) z1 z2 hc ht).1)

/-- base-rate part of the specification = the ideal closed form (no hypotheses) -/
theorem fuseBaseRateSpec_ofFn (op : FuseOp) (a1 a2 : Fin n → ℚ) (u1 u2 : ℚ) :
    Oracle.fuseBaseRateSpec (toOp op) (List.ofFn a1) u1 (List.ofFn a2) u2
      = List.ofFn (idealA op a1 u1 a2 u2) := by
  unfold Oracle.fuseBaseRateSpec idealA
  by_cases hd : u1 = 0 ∧ u2 = 0
  · rw [if_pos hd, if_pos hd, meanL_ofFn]
  rw [if_neg hd, if_neg hd]
  cases op
  case avg => simp only [toOp, meanL_ofFn]
  case wgh =>
    simp only [toOp]
    split_ifs
    · exact meanL_ofFn _ _
    · exact zipWith_ofFn _ _ _
  all_goals
    simp only [toOp]
    split_ifs
    · exact meanL_ofFn _ _
    · rw [zipWith_ofFn]
      exact congrArg List.ofFn (funext fun i => (acmA_eq a1 a2 u1 u2 i).symm)

/-! ### uncertainty maximisation -/

theorem minQ_eq_min (a b : ℚ) : Oracle.minQ a b = min a b := by
  unfold Oracle.minQ; split
  · rw [min_eq_left ‹_›]
  · rw [min_eq_right (le_of_lt (not_le.mp ‹_›))]

/-- the specification's `maxUQ` (skip entries with `a i ≤ 0`) agrees with the model's closed form `uhat`
    (skip entries with `|a i| ≤ ε`) when no base-rate entry lies in the guard band (0, ε] -/
theorem maxUQ_ofFn (b a : Fin n → ℚ) (u : ℚ) (ha : ∀ i, a i = 0 ∨ f.eps < a i) :
    Oracle.maxUQ (List.ofFn b) u (List.ofFn a) = uhat f b a u := by
  have he := XQ.eps_pos f
  unfold Oracle.maxUQ uhat foldMin
  rw [projQ_ofFn]
  show List.foldl _ 1 (List.zipWith Prod.mk (List.ofFn _) (List.ofFn a)) = _
  rw [zipWith_ofFn, List.ofFn_eq_map, List.foldl_map]
  have key : ∀ (l : List (Fin n)) (acc : ℚ), acc ≤ 1 →
      l.foldl (fun acc i => if (b i + a i * u, a i).2 > 0 then
          Oracle.minQ acc ((b i + a i * u, a i).1 / (b i + a i * u, a i).2) else acc) acc
        = l.foldl (fun acc i => min acc (cand f b a u i)) acc := by
    intro l
    induction l with
    | nil => intro acc _; rfl
    | cons i l ih =>
      intro acc hacc
      rw [List.foldl_cons, List.foldl_cons]
      have step : (if (b i + a i * u, a i).2 > 0 then
          Oracle.minQ acc ((b i + a i * u, a i).1 / (b i + a i * u, a i).2) else acc)
            = min acc (cand f b a u i) := by
        unfold cand
        rcases ha i with h0 | hpos
        · simp only [h0, gt_iff_lt, lt_self_iff_false, if_false, abs_zero, he.le, if_true]
          exact (min_eq_left hacc).symm
        · have hp : 0 < a i := lt_trans he hpos
          rw [if_pos hp, if_neg (by rw [abs_of_pos hp]; exact not_le.mpr hpos), minQ_eq_min]
      rw [step]
      exact ih _ (le_trans (min_le_left _ _) hacc)
  exact key _ 1 (le_refl _)

theorem umaxSpec_ofFn (b a : Fin n → ℚ) (u : ℚ) (ha : ∀ i, a i = 0 ∨ f.eps < a i) :
    Oracle.umaxSpec (List.ofFn b) u (List.ofFn a) = (List.ofFn (bmax f b a u), uhat f b a u) := by
  unfold Oracle.umaxSpec
  simp only [maxUQ_ofFn (f := f) b a u ha, projQ_ofFn, zipWith_ofFn]
  rfl

/-! ### the complete specification -/

theorem toOp_eq_ecm (op : FuseOp) : toOp op = .ecm ↔ op = .ecm := by cases op <;> simp [toOp]

theorem specA_ofFn (op : FuseOp) (same : Bool) (a1 a2 : Fin n → ℚ) (u1 u2 : ℚ) :
    (if same = true then List.ofFn a1
      else Oracle.fuseBaseRateSpec (toOp op) (List.ofFn a1) u1 (List.ofFn a2) u2)
      = List.ofFn (if same = true then a1 else idealA op a1 u1 a2 u2) := by
  rw [fuseBaseRateSpec_ofFn]; split <;> rfl

theorem fuseSpec_ofFn_of_ne_ecm {op : FuseOp} (hop : op ≠ .ecm) (same : Bool) {b1 b2 : Fin n → ℚ}
    {u1 u2 : ℚ} (h1 : SWF b1 u1) (h2 : SWF b2 u2) (a1 a2 : Fin n → ℚ) :
    Oracle.fuseSpec (toOp op) same (List.ofFn b1) u1 (List.ofFn a1) (List.ofFn b2) u2 (List.ofFn a2)
      = (List.ofFn (idealS op b1 u1 b2 u2).1, (idealS op b1 u1 b2 u2).2,
          List.ofFn (if same = true then a1 else idealA op a1 u1 a2 u2)) := by
  have hne : ¬ toOp op = .ecm := fun h => hop ((toOp_eq_ecm op).mp h)
  unfold Oracle.fuseSpec
  simp only [specA_ofFn, fuseSimplexSpec_ofFn op h1 h2, if_neg hne]

theorem fuseSpec_ofFn_ecm (same : Bool) {b1 b2 : Fin n → ℚ}
    {u1 u2 : ℚ} (h1 : SWF b1 u1) (h2 : SWF b2 u2) (a1 a2 : Fin n → ℚ)
    (hband : ∀ i, (if same = true then a1 else idealA .ecm a1 u1 a2 u2) i = 0 ∨
      f.eps < (if same = true then a1 else idealA .ecm a1 u1 a2 u2) i) :
    Oracle.fuseSpec (toOp .ecm) same (List.ofFn b1) u1 (List.ofFn a1) (List.ofFn b2) u2 (List.ofFn a2)
      = (List.ofFn (bmax f (idealS .ecm b1 u1 b2 u2).1
            (if same = true then a1 else idealA .ecm a1 u1 a2 u2) (idealS .ecm b1 u1 b2 u2).2),
          uhat f (idealS .ecm b1 u1 b2 u2).1
            (if same = true then a1 else idealA .ecm a1 u1 a2 u2) (idealS .ecm b1 u1 b2 u2).2,
          List.ofFn (if same = true then a1 else idealA .ecm a1 u1 a2 u2)) := by
  have he : toOp .ecm = Oracle.Op.ecm := rfl
  unfold Oracle.fuseSpec
  simp only [specA_ofFn, fuseSimplexSpec_ofFn .ecm h1 h2, if_pos he,
    umaxSpec_ofFn (f := f) _ _ _ hband]

end SLV
