/-
  Helper lemmas for the multi-array properties C17 / C18 (model: SLV/Model/MArr.lean).
  Part 1: the `MultiRange` odometer enumerates `lexList`.
-/
import SLV.Model.MArr
import Mathlib.Data.List.Nodup
import Mathlib.Data.List.GetD
import Mathlib.Data.List.Forall2
import Mathlib.Tactic.Ring
import Mathlib.Tactic.Linarith

namespace SLV.MArr

/-! ### the odometer on reversed digit lists (least significant digit first) -/

/-- increment of a mixed-radix number whose digits are listed least significant first; `none` = overflow -/
def incR : List Nat → List Nat → Option (List Nat)
  | s :: ss, x :: xs => if x + 1 < s then some ((x + 1) :: xs) else (incR ss xs).map (0 :: ·)
  | _, _ => none

@[simp] theorem incR_nil_left (k : List Nat) : incR [] k = none := by cases k <;> rfl
@[simp] theorem incR_nil_right (s : List Nat) : incR s [] = none := by cases s <;> rfl

/-- the `for i in (0..N).rev()` loop is `incR` on the reversed prefixes -/
theorem loop_eq_incR : ∀ (rp rs post spost : List Nat), rs.length = rp.length →
    MultiRange.loop (rs.reverse ++ spost) rp.length (rp.reverse ++ post) none
      = (incR rs rp).map (fun r => r.reverse ++ post) := by
  intro rp
  induction rp with
  | nil => intro rs post spost _; simp [MultiRange.loop]
  | cons x rp ih =>
    intro rs post spost hlen
    cases rs with
    | nil => simp at hlen
    | cons s rs =>
      have hl : rs.length = rp.length := by simpa using hlen
      have hk : (rp.reverse ++ [x] ++ post).getD rp.length 0 = x := by
        rw [List.append_assoc, List.getD_append_right _ _ _ _ (by simp)]; simp
      have hs : (rs.reverse ++ [s] ++ spost).getD rp.length 0 = s := by
        rw [List.append_assoc, List.getD_append_right _ _ _ _ (by simp [hl])]; simp [hl]
      have hset : ∀ v, (rp.reverse ++ [x] ++ post).set rp.length v = rp.reverse ++ v :: post := by
        intro v; rw [List.append_assoc, List.set_append]; simp
      simp only [List.reverse_cons, List.length_cons, MultiRange.loop, hk, hs, hset, incR]
      by_cases h1 : x + 1 < s
      · simp [h1]
      · simp only [h1, if_false]
        by_cases h0 : 0 < rp.length
        · simp only [h0, if_true]
          have := ih rs (0 :: post) (s :: spost) hl
          simp only [List.append_assoc, List.singleton_append] at this ⊢
          rw [this]
          cases incR rs rp <;> simp
        · have hnil : rp = [] := by
            cases rp with | nil => rfl | cons _ _ => simp at h0
          subst hnil
          simp [MultiRange.loop]

/-- successor of an index tuple (most significant coordinate first) -/
def nxt (size k : List Nat) : Option (List Nat) := (incR size.reverse k.reverse).map List.reverse

theorem loop_eq_nxt (size k : List Nat) (h : k.length = size.length) :
    MultiRange.loop size size.length k none = nxt size k := by
  have := loop_eq_incR k.reverse size.reverse [] [] (by simp [h])
  simp only [List.reverse_reverse, List.append_nil, List.length_reverse] at this
  rw [← h, this, nxt]

theorem incR_append : ∀ (a b : List Nat) (s x : Nat), a.length = b.length →
    incR (a ++ [s]) (b ++ [x]) =
      match incR a b with
      | some r => some (r ++ [x])
      | none => if x + 1 < s then some (List.replicate a.length 0 ++ [x + 1]) else none := by
  intro a
  induction a with
  | nil =>
    intro b s x h
    have : b = [] := by cases b with | nil => rfl | cons _ _ => simp at h
    subst this
    simp [incR]
  | cons t a ih =>
    intro b s x h
    cases b with
    | nil => simp at h
    | cons y b =>
      have hl : a.length = b.length := by simpa using h
      simp only [List.cons_append, incR, List.length_cons]
      by_cases h1 : y + 1 < t
      · simp [h1]
      · simp only [h1, if_false]
        rw [ih b s x hl]
        cases incR a b with
        | some r => simp
        | none =>
          by_cases h2 : x + 1 < s <;> simp [h2, List.replicate_succ]

/-- head-recursive characterisation of the successor -/
theorem nxt_cons (s x : Nat) (ss xs : List Nat) (h : xs.length = ss.length) :
    nxt (s :: ss) (x :: xs) =
      match nxt ss xs with
      | some xs' => some (x :: xs')
      | none => if x + 1 < s then some ((x + 1) :: List.replicate ss.length 0) else none := by
  unfold nxt
  simp only [List.reverse_cons]
  rw [incR_append _ _ _ _ (by simp [h])]
  cases incR ss.reverse xs.reverse with
  | some r => simp
  | none => by_cases h2 : x + 1 < s <;> simp [h2]

@[simp] theorem nxt_nil : nxt [] [] = none := by simp [nxt]

/-! ### successor chains -/

/-- `a :: l` is a chain of successors and the successor of its last element is `e` -/
def ChainTo {α : Type} (nx : α → Option α) : α → List α → Option α → Prop
  | a, [], e => nx a = e
  | a, b :: l, e => nx a = some b ∧ ChainTo nx b l e

theorem ChainTo.append {α : Type} {nx : α → Option α} {b : α} {l' : List α} {e : Option α} :
    ∀ {a : α} {l : List α}, ChainTo nx a l (some b) → ChainTo nx b l' e → ChainTo nx a (l ++ b :: l') e := by
  intro a l
  induction l generalizing a with
  | nil => intro h1 h2; exact ⟨h1, h2⟩
  | cons c l ih => intro h1 h2; exact ⟨h1.1, ih h1.2 h2⟩

theorem ChainTo.map {α β : Type} {nx : α → Option α} {nx' : β → Option β} (f : α → β) (e' : Option β) :
    ∀ {a : α} {l : List α},
      (∀ x ∈ a :: l, nx' (f x) = match nx x with | some y => some (f y) | none => e') →
      ChainTo nx a l none → ChainTo nx' (f a) (l.map f) e' := by
  intro a l
  induction l generalizing a with
  | nil =>
    intro h hc
    have := h a (by simp)
    simp only [ChainTo] at hc
    rw [hc] at this
    exact this
  | cons c l ih =>
    intro h hc
    have h1 := h a (by simp)
    rw [hc.1] at h1
    exact ⟨h1, ih (fun x hx => h x (List.mem_cons_of_mem _ hx)) hc.2⟩

/-! ### `lexList` -/

theorem lexList_length_mem : ∀ (size k : List Nat), k ∈ lexList size → k.length = size.length := by
  intro size
  induction size with
  | nil => intro k h; simp [lexList] at h; simp [h]
  | cons s ss ih =>
    intro k h
    simp only [lexList, List.mem_flatMap, List.mem_map] at h
    obtain ⟨i, _, k', hk', rfl⟩ := h
    simp [ih k' hk']

theorem length_flatMap_const {α β : Type} (f : α → List β) (c : Nat) (h : ∀ a, (f a).length = c) :
    ∀ l : List α, (l.flatMap f).length = l.length * c := by
  intro l
  induction l with
  | nil => simp
  | cons a l ih => simp [List.flatMap_cons, ih, h, Nat.add_mul, Nat.add_comm]

theorem lexList_length (size : List Nat) : (lexList size).length = size.prod := by
  induction size with
  | nil => simp [lexList]
  | cons s ss ih =>
    simp only [lexList, List.prod_cons]
    rw [length_flatMap_const _ ss.prod (by intro a; simp [ih])]
    simp

theorem lexList_eq_nil_of_zero : ∀ size : List Nat, 0 ∈ size → lexList size = [] := by
  intro size
  induction size with
  | nil => intro h; simp at h
  | cons s ss ih =>
    intro h
    simp only [lexList]
    rcases List.mem_cons.mp h with h0 | h0
    · subst h0; simp
    · simp [ih h0]

theorem mem_lexList_iff : ∀ (size k : List Nat), k ∈ lexList size ↔ List.Forall₂ (· < ·) k size := by
  intro size
  induction size with
  | nil => intro k; simp [lexList]
  | cons s ss ih =>
    intro k
    simp only [lexList, List.mem_flatMap, List.mem_range, List.mem_map]
    constructor
    · rintro ⟨i, hi, k', hk', rfl⟩
      exact List.Forall₂.cons hi ((ih k').mp hk')
    · intro h
      cases h with
      | cons hi hr => exact ⟨_, hi, _, (ih _).mpr hr, rfl⟩

theorem lexList_nodup : ∀ size : List Nat, (lexList size).Nodup := by
  intro size
  induction size with
  | nil => simp [lexList]
  | cons s ss ih =>
    simp only [lexList]
    rw [List.nodup_flatMap]
    refine ⟨fun i _ => ih.map (fun a b h => by simpa using h), ?_⟩
    refine List.Nodup.pairwise_of_forall_ne List.nodup_range ?_
    intro i _ j _ hij
    simp only [Function.onFun, List.disjoint_left, List.mem_map]
    rintro k ⟨k1, _, rfl⟩ ⟨k2, _, h2⟩
    exact hij (by simpa using (List.cons.inj h2).1.symm)

/-- when all sizes are positive `lexList size` is a complete successor chain starting at `[0,..,0]` -/
theorem lexList_chain : ∀ size : List Nat, (∀ s ∈ size, 0 < s) →
    ∃ rest, lexList size = List.replicate size.length 0 :: rest ∧
      ChainTo (nxt size) (List.replicate size.length 0) rest none := by
  intro size
  induction size with
  | nil => intro _; exact ⟨[], by simp [lexList], by simp [ChainTo]⟩
  | cons s ss ih =>
    intro hpos
    obtain ⟨rest, hlex, hch⟩ := ih (fun t ht => hpos t (List.mem_cons_of_mem _ ht))
    have hs : 0 < s := hpos s (by simp)
    set Z := List.replicate ss.length 0 with hZ
    -- every block is a chain ending in the head of the next block
    have hblock : ∀ i, ChainTo (nxt (s :: ss)) (i :: Z) (rest.map (i :: ·))
        (if i + 1 < s then some ((i + 1) :: Z) else none) := by
      intro i
      refine ChainTo.map (nx := nxt ss) (fun k => i :: k) _ ?_ hch
      intro x hx
      have hxl : x.length = ss.length := lexList_length_mem ss x (by rw [hlex]; exact hx)
      rw [nxt_cons s i ss x hxl]
      cases nxt ss x <;> rfl
    have key : ∀ d i, i + d + 1 = s →
        ChainTo (nxt (s :: ss)) (i :: Z)
          (rest.map (i :: ·) ++ (List.range' (i + 1) d).flatMap fun j => (lexList ss).map (j :: ·)) none := by
      intro d
      induction d with
      | zero =>
        intro i hi
        have := hblock i
        simp only [show ¬ (i + 1 < s) by omega, if_false] at this
        simpa using this
      | succ d ihd =>
        intro i hi
        have hb := hblock i
        simp only [show i + 1 < s by omega, if_true] at hb
        have hn := ihd (i + 1) (by omega)
        have := ChainTo.append hb hn
        simpa [List.range'_succ, List.flatMap_cons, hlex] using this
    refine ⟨rest.map (0 :: ·) ++ (List.range' 1 (s - 1)).flatMap fun j => (lexList ss).map (j :: ·), ?_, ?_⟩
    · obtain ⟨s', rfl⟩ : ∃ s', s = s' + 1 := ⟨s - 1, by omega⟩
      simp [lexList, List.range_eq_range', List.range'_succ, List.flatMap_cons, hlex, List.replicate_succ, hZ]
    · have := key (s - 1) 0 (by omega)
      simpa [List.replicate_succ, hZ] using this

/-! ### running the iterator along a chain -/

theorem nextN_none (size : List Nat) : ∀ n,
    nextN MultiRange.next n ⟨none, size⟩ = (List.replicate n none, ⟨none, size⟩) := by
  intro n
  induction n with
  | zero => rfl
  | succ n ih => simp [nextN, MultiRange.next, ih, List.replicate_succ]

theorem next_some (size k : List Nat) (h : k.length = size.length) :
    MultiRange.next ⟨some k, size⟩ = (some k, ⟨nxt size k, size⟩) := by
  simp [MultiRange.next, loop_eq_nxt size k h]

theorem nextN_chain (size : List Nat) : ∀ (l : List (List Nat)) (a : List Nat),
    (∀ x ∈ a :: l, x.length = size.length) → ChainTo (nxt size) a l none →
    nextN MultiRange.next (l.length + 1) ⟨some a, size⟩ = ((a :: l).map some, ⟨none, size⟩) := by
  intro l
  induction l with
  | nil =>
    intro a hl hc
    simp only [ChainTo] at hc
    simp [nextN, next_some size a (hl a (by simp)), hc]
  | cons b l ih =>
    intro a hl hc
    have := ih b (fun x hx => hl x (List.mem_cons_of_mem _ hx)) hc.2
    rw [nextN, next_some size a (hl a (by simp)), hc.1]
    simp only [List.length_cons] at this ⊢
    rw [this]
    simp

theorem drain_chain (size : List Nat) : ∀ (l : List (List Nat)) (a : List Nat) (fuel : Nat),
    (∀ x ∈ a :: l, x.length = size.length) → ChainTo (nxt size) a l none → l.length + 2 ≤ fuel →
    drain MultiRange.next fuel ⟨some a, size⟩ = (a :: l, ⟨none, size⟩) := by
  intro l
  induction l with
  | nil =>
    intro a fuel hl hc hf
    simp only [ChainTo] at hc
    obtain ⟨f, rfl⟩ : ∃ f, fuel = f + 2 := ⟨fuel - 2, by simp at hf; omega⟩
    rw [drain, next_some size a (hl a (by simp)), hc]
    simp [drain, MultiRange.next]
  | cons b l ih =>
    intro a fuel hl hc hf
    obtain ⟨f, rfl⟩ : ∃ f, fuel = f + 1 := ⟨fuel - 1, by simp at hf; omega⟩
    have := ih b f (fun x hx => hl x (List.mem_cons_of_mem _ hx)) hc.2 (by simp at hf ⊢; omega)
    rw [drain, next_some size a (hl a (by simp)), hc.1]
    simp [this]

theorem new_pos (size : List Nat) (h : ∀ s ∈ size, 0 < s) :
    MultiRange.new size = ⟨some (List.replicate size.length 0), size⟩ := by
  simp only [MultiRange.new]
  rw [if_pos]
  simpa using h

theorem new_zero (size : List Nat) (h : 0 ∈ size) : MultiRange.new size = ⟨none, size⟩ := by
  simp only [MultiRange.new]
  rw [if_neg]
  simp only [List.all_eq_true, decide_eq_true_eq, not_forall]
  exact ⟨0, h, by simp⟩

theorem pos_or_zero (size : List Nat) : (∀ s ∈ size, 0 < s) ∨ 0 ∈ size := by
  by_cases h : 0 ∈ size
  · exact Or.inr h
  · refine Or.inl fun s hs => Nat.pos_of_ne_zero ?_
    rintro rfl; exact h hs

/-- `indexes()` as a consumer sees it is `lexList` -/
theorem toList_eq_lexList (size : List Nat) : MultiRange.toList size = lexList size := by
  unfold MultiRange.toList
  rcases pos_or_zero size with h | h
  · obtain ⟨rest, hlex, hch⟩ := lexList_chain size h
    have hlen : ∀ x ∈ List.replicate size.length 0 :: rest, x.length = size.length := by
      intro x hx; exact lexList_length_mem size x (by rw [hlex]; exact hx)
    have hl := lexList_length size
    rw [hlex] at hl
    rw [new_pos size h, drain_chain size rest _ _ hlen hch
      (by rw [← List.prod_eq_foldl_nat]; simp at hl; omega), hlex]
  · rw [new_zero size h, lexList_eq_nil_of_zero size h]
    have : ∀ f, drain MultiRange.next (f + 1) ⟨none, size⟩ = ([], ⟨none, size⟩) := by
      intro f; simp [drain, MultiRange.next]
    rw [this]

theorem flatMap_singleton_map {α β : Type} (f : α → β) (l : List α) : l.flatMap (fun a => [f a]) = l.map f := by
  induction l with
  | nil => rfl
  | cons a l ih => simp [List.flatMap_cons, ih]

/-- the labelled enumerations (`iproduct!` of the axis keys) are `lexList` -/
theorem keys_lex (d0 d1 d2 : Nat) :
    (keys d0).map (fun i => [i]) = lexList [d0] ∧
    (keysD2 d0 d1).map (fun p => [p.1, p.2]) = lexList [d0, d1] ∧
    (keysD3 d0 d1 d2).map (fun p => [p.1, p.2.1, p.2.2]) = lexList [d0, d1, d2] := by
  refine ⟨?_, ?_, ?_⟩
  · simp [keys, lexList, flatMap_singleton_map]
  · simp [keysD2, iproduct2, keys, lexList, List.map_flatMap, Function.comp_def, flatMap_singleton_map]
  · simp [keysD3, iproduct3, keys, lexList, List.map_flatMap, Function.comp_def, flatMap_singleton_map]

end SLV.MArr
