/-
  Helper lemmas for the fusion operators (src/mul.rs:488-737; SLV/Model/Fuse.lean):
  arm-by-arm closed forms of `computeSimplex`, `computeBaseRate` and `fuse` on lifted rational inputs.
  No property statements here (those are in SLV/Props/C02.lean, C03.lean, …).
-/
import SLV.Refine.Lift
import SLV.Refine.C10Lemmas
import SLV.Model.Fuse
import SLV.Props.C09
import Mathlib.Algebra.Order.Ring.Abs

namespace SLV
open Scalar

variable {f : Fmt} {n : Nat}

theorem XQ.eps_lt (f : Fmt) : f.eps < 1 / 16 := by
  cases f <;> norm_num [Fmt.eps, Fmt.mant]

example : True := trivial

end SLV
