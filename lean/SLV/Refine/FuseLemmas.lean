/-
  Helper lemmas for the fusion operators (src/mul.rs:488-737; SLV/Model/Fuse.lean):
  arm-by-arm closed forms of `computeSimplex`, `computeBaseRate` and `fuse` on lifted rational inputs.
  No property statements here (those are in SLV/Props/C02.lean, C03.lean, …).
-/
import SLV.Refine.Lift
import SLV.Refine.C10Lemmas
import SLV.Model.Fuse
import SLV.Props.C09
import Mathlib.Algebra.Order.Ring.Abs
import Mathlib.Algebra.BigOperators.Field

namespace SLV
open Scalar
open SLV.Props.C09 (WF)

variable {f : Fmt} {n : Nat}

theorem XQ.eps_lt (f : Fmt) : f.eps < 1 / 16 := by
  cases f <;> norm_num [Fmt.eps, Fmt.mant]

/-! ### guards -/

/-- value-level `is_dogmatic()` = `ulps_eq!(u, 0)` : `|u| ≤ ε` -/
def GDog (f : Fmt) (u : ℚ) : Prop := |u| ≤ f.eps
/-- value-level `is_vacuous()` = `ulps_eq!(u, 1)` : `1-2ε ≤ u ≤ 1+4ε` -/
def GVac (f : Fmt) (u : ℚ) : Prop := 1 - 2 * f.eps ≤ u ∧ u ≤ 1 + 4 * f.eps

instance (u : ℚ) : Decidable (GDog f u) := by unfold GDog; infer_instance
instance (u : ℚ) : Decidable (GVac f u) := by unfold GVac; infer_instance

@[simp] theorem Simplex.isDogmatic_lift (b : Tab (XQ f) n) (u : ℚ) :
    (⟨b, XQ.fin u⟩ : Simplex (XQ f) n).isDogmatic = decide (GDog f u) := by
  simp [Simplex.isDogmatic, GDog]
@[simp] theorem Simplex.isVacuous_lift (b : Tab (XQ f) n) (u : ℚ) :
    (⟨b, XQ.fin u⟩ : Simplex (XQ f) n).isVacuous = decide (GVac f u) := by
  simp [Simplex.isVacuous, GVac]
@[simp] theorem Opinion.isDogmatic_lift (b a : Tab (XQ f) n) (u : ℚ) :
    (⟨b, XQ.fin u, a⟩ : Opinion (XQ f) n).isDogmatic = decide (GDog f u) := by
  simp [Opinion.isDogmatic, GDog]
@[simp] theorem Opinion.isVacuous_lift (b a : Tab (XQ f) n) (u : ℚ) :
    (⟨b, XQ.fin u, a⟩ : Opinion (XQ f) n).isVacuous = decide (GVac f u) := by
  simp [Opinion.isVacuous, GVac]

theorem GDog_zero : GDog f 0 := by simpa [GDog] using (XQ.eps_pos f).le
theorem GVac_one : GVac f 1 := by
  have := XQ.eps_pos f; constructor <;> linarith
theorem not_GVac_zero : ¬ GVac f 0 := by
  have := XQ.eps_lt f; rintro ⟨h, _⟩; linarith
theorem not_GDog_one : ¬ GDog f 1 := by
  have := XQ.eps_lt f; unfold GDog; rw [abs_one]; linarith

theorem GDog_iff {u : ℚ} (h0 : 0 ≤ u) : GDog f u ↔ u ≤ f.eps := by
  unfold GDog; rw [abs_of_nonneg h0]
theorem GVac_iff {u : ℚ} (h1 : u ≤ 1) : GVac f u ↔ 1 - 2 * f.eps ≤ u := by
  have := XQ.eps_pos f
  unfold GVac; constructor
  · exact fun h => h.1
  · exact fun h => ⟨h, by linarith⟩

/-- a guard-dogmatic value in `[0,1]` is not guard-vacuous -/
theorem GDog.not_GVac {u : ℚ} (h : GDog f u) : ¬ GVac f u := by
  have := XQ.eps_lt f
  rintro ⟨h1, _⟩
  have := (abs_le.mp h).2
  linarith

/-- `u` is outside the two tolerance bands `(0, ε]` and `[1-2ε, 1)` -/
def Plain (f : Fmt) (u : ℚ) : Prop := u = 0 ∨ u = 1 ∨ (f.eps < u ∧ u < 1 - 2 * f.eps)

theorem Plain.GDog_iff {u : ℚ} (h : Plain f u) : GDog f u ↔ u = 0 := by
  have he := XQ.eps_pos f
  have := XQ.eps_lt f
  constructor
  · intro hd
    rcases h with h | h | ⟨h, _⟩
    · exact h
    · subst h; exact absurd hd not_GDog_one
    · exfalso; have := (abs_le.mp hd).2; linarith
  · rintro rfl; exact GDog_zero

theorem Plain.GVac_iff {u : ℚ} (h : Plain f u) : GVac f u ↔ u = 1 := by
  have he := XQ.eps_pos f
  have := XQ.eps_lt f
  constructor
  · rintro ⟨h1, h2⟩
    rcases h with h | h | ⟨_, h⟩
    · subst h; linarith
    · exact h
    · linarith
  · rintro rfl; exact GVac_one

/-! ### well-formed simplexes -/

/-- well-formed rational simplex -/
structure SWF (b : Fin n → ℚ) (u : ℚ) : Prop where
  hb : ∀ i, 0 ≤ b i
  hu : 0 ≤ u
  hs : ∑ i, b i + u = 1

theorem _root_.SLV.Props.C09.WF.swf {b a : Fin n → ℚ} {u : ℚ} (h : WF b u a) : SWF b u :=
  ⟨h.hb, h.hu, h.hs⟩

theorem SWF.u_le_one {b : Fin n → ℚ} {u : ℚ} (h : SWF b u) : u ≤ 1 := by
  have := Finset.sum_nonneg (fun i (_ : i ∈ Finset.univ) => h.hb i)
  linarith [h.hs]

theorem SWF.sum_b {b : Fin n → ℚ} {u : ℚ} (h : SWF b u) : ∑ i, b i = 1 - u := by
  linarith [h.hs]

theorem SWF.b_le {b : Fin n → ℚ} {u : ℚ} (h : SWF b u) (i : Fin n) : b i ≤ 1 - u := by
  have := Finset.single_le_sum (f := b) (fun j _ => h.hb j) (Finset.mem_univ i)
  linarith [h.hs]

/-- a well-formed simplex with `u = 1` has all masses zero -/
theorem SWF.b_eq_zero {b : Fin n → ℚ} (h : SWF b 1) (i : Fin n) : b i = 0 :=
  le_antisymm (by simpa using h.b_le i) (h.hb i)

theorem SWF.toWF {b a : Fin n → ℚ} {u : ℚ} (h : SWF b u) (ha0 : ∀ i, 0 ≤ a i) (ha : ∑ i, a i = 1) :
    WF b u a := ⟨h.hb, h.hu, h.hs, ha0, ha⟩

theorem SWF.vacuous : SWF (fun _ : Fin n => (0 : ℚ)) 1 := ⟨fun _ => le_refl _, zero_le_one, by simp⟩

/-! ### `Simplex::normalized` -/

theorem normalized_liftT (g : Fin n → ℚ) (u : ℚ) (hs : ∑ i, g i + u ≠ 0) :
    Simplex.normalized (liftT g : Tab (XQ f) n) (XQ.fin u)
      = ⟨liftT (fun i => g i / (∑ i, g i + u)), XQ.fin (u / (∑ i, g i + u))⟩ := by
  unfold Simplex.normalized
  simp only [sumIter_liftT, XQ.add_fin, XQ.div_fin _ _ hs]
  rw [liftT_map g _ (fun q => q / (∑ i, g i + u)) (fun q => XQ.div_fin _ _ hs)]

/-- a table whose entries sum with `u` to exactly one is returned unchanged -/
theorem normalized_liftT_one (g : Fin n → ℚ) (u : ℚ) (hs : ∑ i, g i + u = 1) :
    Simplex.normalized (liftT g : Tab (XQ f) n) (XQ.fin u) = ⟨liftT g, XQ.fin u⟩ := by
  rw [normalized_liftT g u (by rw [hs]; exact one_ne_zero), hs]
  simp

/-! ### closed forms of the belief part -/

namespace FuseQ

/-- both operands guard-dogmatic: normalised arithmetic mean; the normaliser is `(2 - u1 - u2)/2` -/
def dogB (b1 : Fin n → ℚ) (u1 : ℚ) (b2 : Fin n → ℚ) (u2 : ℚ) (i : Fin n) : ℚ :=
  ((b1 i + b2 i) / 2) / ((2 - u1 - u2) / 2)

/-- aleatory / epistemic cumulative fusion, formula arm -/
def acmB (b1 : Fin n → ℚ) (u1 : ℚ) (b2 : Fin n → ℚ) (u2 : ℚ) (i : Fin n) : ℚ :=
  (b1 i * u2 + b2 i * u1) / (u1 + u2 - u1 * u2)
def acmU (u1 u2 : ℚ) : ℚ := u1 * u2 / (u1 + u2 - u1 * u2)

/-- averaging fusion, formula arm -/
def avgB (b1 : Fin n → ℚ) (u1 : ℚ) (b2 : Fin n → ℚ) (u2 : ℚ) (i : Fin n) : ℚ :=
  (b1 i * u2 + b2 i * u1) / (u1 + u2)
def avgU (u1 u2 : ℚ) : ℚ := 2 * u1 * u2 / (u1 + u2)

/-- weighted fusion, formula arm -/
def wghB (b1 : Fin n → ℚ) (u1 : ℚ) (b2 : Fin n → ℚ) (u2 : ℚ) (i : Fin n) : ℚ :=
  (b1 i * (1 - u1) * u2 + b2 i * (1 - u2) * u1) / (u2 * (1 - u1) + u1 * (1 - u2))
def wghU (u1 u2 : ℚ) : ℚ := ((1 - u1) + (1 - u2)) * u1 * u2 / (u2 * (1 - u1) + u1 * (1 - u2))

/-- the guard ladder of `compute_simlex` on rational data (`ε = f.eps`) -/
def simplexQ (f : Fmt) (op : FuseOp) (b1 : Fin n → ℚ) (u1 : ℚ) (b2 : Fin n → ℚ) (u2 : ℚ) :
    (Fin n → ℚ) × ℚ :=
  if GDog f u1 ∧ GDog f u2 then (dogB b1 u1 b2 u2, 0)
  else match op with
    | .acm | .ecm =>
      if GVac f u1 ∧ GVac f u2 then (fun _ => 0, 1)
      else if GVac f u1 ∨ GDog f u2 then (b2, u2)
      else if GVac f u2 ∨ GDog f u1 then (b1, u1)
      else (acmB b1 u1 b2 u2, acmU u1 u2)
    | .avg =>
      if GDog f u1 then (b1, u1)
      else if GDog f u2 then (b2, u2)
      else (avgB b1 u1 b2 u2, avgU u1 u2)
    | .wgh =>
      if GVac f u1 ∧ GVac f u2 then (fun _ => 0, 1)
      else if GVac f u1 ∨ GDog f u2 then (b2, u2)
      else if GVac f u2 ∨ GDog f u1 then (b1, u1)
      else (wghB b1 u1 b2 u2, wghU u1 u2)

end FuseQ
open FuseQ

/-! ### the formula arms: the normaliser is exactly one -/

theorem acm_temp_pos {u1 u2 : ℚ} (h1 : 0 < u1) (h1' : u1 ≤ 1) (h2 : 0 ≤ u2) :
    0 < u1 + u2 - u1 * u2 := by nlinarith [mul_nonneg h2 (sub_nonneg.mpr h1')]

theorem wgh_temp_pos {u1 u2 : ℚ} (h1 : u1 < 1) (h1' : 0 ≤ u1) (h2 : 0 < u2) (h2' : u2 ≤ 1) :
    0 < u2 * (1 - u1) + u1 * (1 - u2) := by
  nlinarith [mul_pos h2 (sub_pos.mpr h1), mul_nonneg h1' (sub_nonneg.mpr h2')]

theorem acm_sum {b1 b2 : Fin n → ℚ} {u1 u2 : ℚ} (h1 : SWF b1 u1) (h2 : SWF b2 u2)
    (ht : u1 + u2 - u1 * u2 ≠ 0) : ∑ i, acmB b1 u1 b2 u2 i + acmU u1 u2 = 1 := by
  unfold acmB acmU
  rw [← Finset.sum_div, Finset.sum_add_distrib, ← Finset.sum_mul, ← Finset.sum_mul, h1.sum_b, h2.sum_b,
    ← add_div, div_eq_one_iff_eq ht]
  ring

theorem avg_sum {b1 b2 : Fin n → ℚ} {u1 u2 : ℚ} (h1 : SWF b1 u1) (h2 : SWF b2 u2)
    (ht : u1 + u2 ≠ 0) : ∑ i, avgB b1 u1 b2 u2 i + avgU u1 u2 = 1 := by
  unfold avgB avgU
  rw [← Finset.sum_div, Finset.sum_add_distrib, ← Finset.sum_mul, ← Finset.sum_mul, h1.sum_b, h2.sum_b,
    ← add_div, div_eq_one_iff_eq ht]
  ring

theorem wgh_sum {b1 b2 : Fin n → ℚ} {u1 u2 : ℚ} (h1 : SWF b1 u1) (h2 : SWF b2 u2)
    (ht : u2 * (1 - u1) + u1 * (1 - u2) ≠ 0) : ∑ i, wghB b1 u1 b2 u2 i + wghU u1 u2 = 1 := by
  unfold wghB wghU
  rw [← Finset.sum_div, Finset.sum_add_distrib, ← Finset.sum_mul, ← Finset.sum_mul, ← Finset.sum_mul,
    ← Finset.sum_mul, h1.sum_b, h2.sum_b, ← add_div, div_eq_one_iff_eq ht]
  ring

theorem dog_sum {b1 b2 : Fin n → ℚ} {u1 u2 : ℚ} (h1 : SWF b1 u1) (h2 : SWF b2 u2) :
    ∑ i, (b1 i + b2 i) / 2 + 0 = (2 - u1 - u2) / 2 := by
  rw [← Finset.sum_div, Finset.sum_add_distrib, h1.sum_b, h2.sum_b]; ring

/-- `compute_simlex`, both operands guard-dogmatic (every operator): normalised mean.
    For exactly dogmatic operands the normaliser is 1. -/
theorem computeSimplex_both_dog (op : FuseOp) {b1 b2 : Fin n → ℚ} {u1 u2 : ℚ} (h1 : SWF b1 u1)
    (h2 : SWF b2 u2) (d1 : GDog f u1) (d2 : GDog f u2) :
    computeSimplex op (⟨liftT b1, XQ.fin u1⟩ : Simplex (XQ f) n) ⟨liftT b2, XQ.fin u2⟩
      = ⟨liftT (dogB b1 u1 b2 u2), XQ.fin 0⟩ := by
  have he := XQ.eps_lt f
  have hs := dog_sum h1 h2
  have hpos : (2 - u1 - u2) / 2 ≠ 0 := by
    have := (abs_le.mp d1).2; have := (abs_le.mp d2).2
    apply ne_of_gt; linarith
  unfold computeSimplex
  simp only [Simplex.isDogmatic_lift, d1, d2, decide_true, Bool.and_self, if_true]
  have e : (Vector.ofFn fun i : Fin n => ((liftT b1 : Tab (XQ f) n)[i] + (liftT b2 : Tab (XQ f) n)[i]) / two)
      = liftT (fun i => (b1 i + b2 i) / 2) := by
    apply Vector.ext; intro i hi; simp [liftT, XQ.div_fin _ _ (two_ne_zero)]
  rw [e, XQ.zero_def, normalized_liftT _ _ (by rw [hs]; exact hpos), hs]
  simp only [zero_div]
  rfl

theorem pos_of_not_GDog {u : ℚ} (h0 : 0 ≤ u) (h : ¬ GDog f u) : f.eps < u := by
  rw [GDog_iff h0] at h; exact not_le.mp h

theorem lt_of_not_GVac {u : ℚ} (h1 : u ≤ 1) (h : ¬ GVac f u) : u < 1 - 2 * f.eps := by
  rw [GVac_iff h1] at h; exact not_le.mp h

/-- `compute_simlex`, ACm / ECm formula arm (neither operand guard-vacuous nor guard-dogmatic):
    the raw formula; the normaliser `Σb + u` is exactly 1 -/
theorem computeSimplex_acm_formula {op : FuseOp} (hop : op = .acm ∨ op = .ecm) {b1 b2 : Fin n → ℚ}
    {u1 u2 : ℚ} (h1 : SWF b1 u1) (h2 : SWF b2 u2) (nd1 : ¬ GDog f u1) (nd2 : ¬ GDog f u2)
    (nv1 : ¬ GVac f u1) (nv2 : ¬ GVac f u2) :
    computeSimplex op (⟨liftT b1, XQ.fin u1⟩ : Simplex (XQ f) n) ⟨liftT b2, XQ.fin u2⟩
      = ⟨liftT (acmB b1 u1 b2 u2), XQ.fin (acmU u1 u2)⟩ := by
  have he := XQ.eps_pos f
  have p1 := pos_of_not_GDog h1.hu nd1
  have ht : u1 + u2 - u1 * u2 ≠ 0 := ne_of_gt (acm_temp_pos (by linarith) h1.u_le_one h2.hu)
  have e : (Vector.ofFn fun i : Fin n =>
      XQ.fin ((b1 i * u2 + b2 i * u1) / (u1 + u2 - u1 * u2)) : Tab (XQ f) n) = liftT (acmB b1 u1 b2 u2) := rfl
  rcases hop with rfl | rfl <;>
  · unfold computeSimplex
    simp only [Simplex.isDogmatic_lift, Simplex.isVacuous_lift, nd1, nd2, nv1, nv2, decide_false,
      Bool.and_false, Bool.or_false, Bool.false_eq_true, if_false, liftT_getElem, XQ.add_fin,
      XQ.sub_fin, XQ.mul_fin, XQ.div_fin _ _ ht, e]
    exact normalized_liftT_one _ _ (acm_sum h1 h2 ht)

/-- `compute_simlex`, Avg formula arm (neither operand guard-dogmatic; vacuous operands included) -/
theorem computeSimplex_avg_formula {b1 b2 : Fin n → ℚ}
    {u1 u2 : ℚ} (h1 : SWF b1 u1) (h2 : SWF b2 u2) (nd1 : ¬ GDog f u1) (nd2 : ¬ GDog f u2) :
    computeSimplex .avg (⟨liftT b1, XQ.fin u1⟩ : Simplex (XQ f) n) ⟨liftT b2, XQ.fin u2⟩
      = ⟨liftT (avgB b1 u1 b2 u2), XQ.fin (avgU u1 u2)⟩ := by
  have he := XQ.eps_pos f
  have p1 := pos_of_not_GDog h1.hu nd1
  have ht : u1 + u2 ≠ 0 := ne_of_gt (by linarith [h2.hu])
  have e : (Vector.ofFn fun i : Fin n =>
      XQ.fin ((b1 i * u2 + b2 i * u1) / (u1 + u2)) : Tab (XQ f) n) = liftT (avgB b1 u1 b2 u2) := rfl
  unfold computeSimplex
  simp only [Simplex.isDogmatic_lift, nd1, nd2, decide_false,
    Bool.and_false, Bool.false_eq_true, if_false, liftT_getElem, XQ.add_fin, XQ.two_def,
    XQ.mul_fin, XQ.div_fin _ _ ht, e]
  exact normalized_liftT_one _ _ (avg_sum h1 h2 ht)

/-- `compute_simlex`, Wgh formula arm (neither operand guard-vacuous nor guard-dogmatic) -/
theorem computeSimplex_wgh_formula {b1 b2 : Fin n → ℚ}
    {u1 u2 : ℚ} (h1 : SWF b1 u1) (h2 : SWF b2 u2) (nd1 : ¬ GDog f u1) (nd2 : ¬ GDog f u2)
    (nv1 : ¬ GVac f u1) (nv2 : ¬ GVac f u2) :
    computeSimplex .wgh (⟨liftT b1, XQ.fin u1⟩ : Simplex (XQ f) n) ⟨liftT b2, XQ.fin u2⟩
      = ⟨liftT (wghB b1 u1 b2 u2), XQ.fin (wghU u1 u2)⟩ := by
  have he := XQ.eps_pos f
  have p2 := pos_of_not_GDog h2.hu nd2
  have l1 := lt_of_not_GVac h1.u_le_one nv1
  have ht : u2 * (1 - u1) + u1 * (1 - u2) ≠ 0 :=
    ne_of_gt (wgh_temp_pos (by linarith) h1.hu (by linarith) h2.u_le_one)
  have e : (Vector.ofFn fun i : Fin n =>
      XQ.fin ((b1 i * (1 - u1) * u2 + b2 i * (1 - u2) * u1) / (u2 * (1 - u1) + u1 * (1 - u2))) :
        Tab (XQ f) n) = liftT (wghB b1 u1 b2 u2) := rfl
  unfold computeSimplex
  simp only [Simplex.isDogmatic_lift, Simplex.isVacuous_lift, nd1, nd2, nv1, nv2, decide_false,
    Bool.and_false, Bool.or_false, Bool.false_eq_true, if_false, liftT_getElem, XQ.add_fin,
    XQ.sub_fin, XQ.one_def, XQ.mul_fin, XQ.div_fin _ _ ht, e]
  exact normalized_liftT_one _ _ (wgh_sum h1 h2 ht)

/-! clone arms (no well-formedness needed; `bl`, `br` are arbitrary tables) -/

/-- ACm / ECm / Wgh, both guard-vacuous: `Simplex::vacuous()` -/
theorem computeSimplex_both_vac {op : FuseOp} (hop : op ≠ .avg) (bl br : Tab (XQ f) n) {u1 u2 : ℚ}
    (v1 : GVac f u1) (v2 : GVac f u2) :
    computeSimplex op (⟨bl, XQ.fin u1⟩ : Simplex (XQ f) n) ⟨br, XQ.fin u2⟩
      = ⟨liftT (fun _ => (0 : ℚ)), XQ.fin 1⟩ := by
  have nd1 : ¬ GDog f u1 := fun d => d.not_GVac v1
  cases op <;> first | exact absurd rfl hop | skip
  all_goals
    unfold computeSimplex
    simp only [Simplex.isDogmatic_lift, Simplex.isVacuous_lift, nd1, v1, v2, decide_false, decide_true,
      Bool.false_and, Bool.and_self, Bool.false_eq_true, if_false, if_true]
    exact vacuous_eq_liftT n

/-- ACm / ECm / Wgh, left guard-vacuous or right guard-dogmatic (and not both dogmatic / both vacuous):
    the right operand -/
theorem computeSimplex_right {op : FuseOp} (hop : op ≠ .avg) (bl br : Tab (XQ f) n) {u1 u2 : ℚ}
    (hnd : ¬ (GDog f u1 ∧ GDog f u2)) (hnv : ¬ (GVac f u1 ∧ GVac f u2)) (h : GVac f u1 ∨ GDog f u2) :
    computeSimplex op (⟨bl, XQ.fin u1⟩ : Simplex (XQ f) n) ⟨br, XQ.fin u2⟩ = ⟨br, XQ.fin u2⟩ := by
  cases op <;> first | exact absurd rfl hop | skip
  all_goals
    unfold computeSimplex
    simp only [Simplex.isDogmatic_lift, Simplex.isVacuous_lift, ← Bool.decide_and, ← Bool.decide_or,
      hnd, hnv, h, decide_false, decide_true, Bool.false_eq_true, if_false, if_true]

/-- ACm / ECm / Wgh, right guard-vacuous or left guard-dogmatic (previous arms not taken):
    the left operand -/
theorem computeSimplex_left {op : FuseOp} (hop : op ≠ .avg) (bl br : Tab (XQ f) n) {u1 u2 : ℚ}
    (hnd : ¬ (GDog f u1 ∧ GDog f u2)) (hnv : ¬ (GVac f u1 ∧ GVac f u2))
    (hnr : ¬ (GVac f u1 ∨ GDog f u2)) (h : GVac f u2 ∨ GDog f u1) :
    computeSimplex op (⟨bl, XQ.fin u1⟩ : Simplex (XQ f) n) ⟨br, XQ.fin u2⟩ = ⟨bl, XQ.fin u1⟩ := by
  cases op <;> first | exact absurd rfl hop | skip
  all_goals
    unfold computeSimplex
    simp only [Simplex.isDogmatic_lift, Simplex.isVacuous_lift, ← Bool.decide_and, ← Bool.decide_or,
      hnd, hnv, hnr, h, decide_false, decide_true, Bool.false_eq_true, if_false, if_true]

/-- Avg, left guard-dogmatic (right not): the left operand -/
theorem computeSimplex_avg_left (bl br : Tab (XQ f) n) {u1 u2 : ℚ}
    (d1 : GDog f u1) (nd2 : ¬ GDog f u2) :
    computeSimplex .avg (⟨bl, XQ.fin u1⟩ : Simplex (XQ f) n) ⟨br, XQ.fin u2⟩ = ⟨bl, XQ.fin u1⟩ := by
  unfold computeSimplex
  simp only [Simplex.isDogmatic_lift, d1, nd2, decide_false, decide_true, Bool.and_false,
    Bool.false_eq_true, if_false, if_true]

/-- Avg, right guard-dogmatic (left not): the right operand -/
theorem computeSimplex_avg_right (bl br : Tab (XQ f) n) {u1 u2 : ℚ}
    (nd1 : ¬ GDog f u1) (d2 : GDog f u2) :
    computeSimplex .avg (⟨bl, XQ.fin u1⟩ : Simplex (XQ f) n) ⟨br, XQ.fin u2⟩ = ⟨br, XQ.fin u2⟩ := by
  unfold computeSimplex
  simp only [Simplex.isDogmatic_lift, d2, nd1, decide_false, decide_true, Bool.false_and,
    Bool.false_eq_true, if_false, if_true]

/-- `compute_simlex` on well-formed lifted operands, all arms at once: the rational guard ladder
    `FuseQ.simplexQ`.  In particular every component of the result is finite. -/
theorem computeSimplex_lift (op : FuseOp) {b1 b2 : Fin n → ℚ} {u1 u2 : ℚ} (h1 : SWF b1 u1)
    (h2 : SWF b2 u2) :
    computeSimplex op (⟨liftT b1, XQ.fin u1⟩ : Simplex (XQ f) n) ⟨liftT b2, XQ.fin u2⟩
      = ⟨liftT (simplexQ f op b1 u1 b2 u2).1, XQ.fin (simplexQ f op b1 u1 b2 u2).2⟩ := by
  unfold simplexQ
  by_cases hd : GDog f u1 ∧ GDog f u2
  · rw [if_pos hd]; exact computeSimplex_both_dog op h1 h2 hd.1 hd.2
  rw [if_neg hd]
  have cum : ∀ op : FuseOp, op ≠ .avg → ∀ (F : (Fin n → ℚ) × ℚ),
      (¬ GDog f u1 → ¬ GDog f u2 → ¬ GVac f u1 → ¬ GVac f u2 →
        computeSimplex op (⟨liftT b1, XQ.fin u1⟩ : Simplex (XQ f) n) ⟨liftT b2, XQ.fin u2⟩
          = ⟨liftT F.1, XQ.fin F.2⟩) →
      computeSimplex op (⟨liftT b1, XQ.fin u1⟩ : Simplex (XQ f) n) ⟨liftT b2, XQ.fin u2⟩
        = ⟨liftT (if GVac f u1 ∧ GVac f u2 then ((fun _ => 0 : Fin n → ℚ), (1 : ℚ))
            else if GVac f u1 ∨ GDog f u2 then (b2, u2)
            else if GVac f u2 ∨ GDog f u1 then (b1, u1) else F).1,
           XQ.fin (if GVac f u1 ∧ GVac f u2 then ((fun _ => 0 : Fin n → ℚ), (1 : ℚ))
            else if GVac f u1 ∨ GDog f u2 then (b2, u2)
            else if GVac f u2 ∨ GDog f u1 then (b1, u1) else F).2⟩ := by
    intro op hop F hF
    by_cases hv : GVac f u1 ∧ GVac f u2
    · rw [if_pos hv]; exact computeSimplex_both_vac hop _ _ hv.1 hv.2
    rw [if_neg hv]
    by_cases hr : GVac f u1 ∨ GDog f u2
    · rw [if_pos hr]; exact computeSimplex_right hop _ _ hd hv hr
    rw [if_neg hr]
    by_cases hl : GVac f u2 ∨ GDog f u1
    · rw [if_pos hl]; exact computeSimplex_left hop _ _ hd hv hr hl
    rw [if_neg hl]
    exact hF (fun h => hl (Or.inr h)) (fun h => hr (Or.inr h)) (fun h => hr (Or.inl h))
      (fun h => hl (Or.inl h))
  cases op
  · exact cum .acm (by decide) _ (computeSimplex_acm_formula (Or.inl rfl) h1 h2)
  · exact cum .ecm (by decide) _ (computeSimplex_acm_formula (Or.inr rfl) h1 h2)
  · show _ = (⟨liftT (if GDog f u1 then (b1, u1) else if GDog f u2 then (b2, u2)
        else (avgB b1 u1 b2 u2, avgU u1 u2)).1, XQ.fin (if GDog f u1 then (b1, u1)
        else if GDog f u2 then (b2, u2) else (avgB b1 u1 b2 u2, avgU u1 u2)).2⟩ : Simplex (XQ f) n)
    by_cases d1 : GDog f u1
    · rw [if_pos d1]; exact computeSimplex_avg_left _ _ d1 (fun d2 => hd ⟨d1, d2⟩)
    rw [if_neg d1]
    by_cases d2 : GDog f u2
    · rw [if_pos d2]; exact computeSimplex_avg_right _ _ d1 d2
    rw [if_neg d2]
    exact computeSimplex_avg_formula h1 h2 d1 d2
  · exact cum .wgh (by decide) _ (computeSimplex_wgh_formula h1 h2)

/-! ### closed forms of the base rate -/

namespace FuseQ

/-- arithmetic mean of two tables -/
def meanA (a1 a2 : Fin n → ℚ) (i : Fin n) : ℚ := (a1 i + a2 i) / 2

/-- ACm / ECm base-rate formula: weights `u2 (1-u1)` and `u1 (1-u2)` -/
def acmA (a1 : Fin n → ℚ) (u1 : ℚ) (a2 : Fin n → ℚ) (u2 : ℚ) (i : Fin n) : ℚ :=
  (a1 i * u2 * (1 - u1) + a2 i * u1 * (1 - u2)) / (u2 * (1 - u1) + u1 * (1 - u2))

/-- Wgh base-rate formula: weights `1-u1` and `1-u2` -/
def wghA (a1 : Fin n → ℚ) (u1 : ℚ) (a2 : Fin n → ℚ) (u2 : ℚ) (i : Fin n) : ℚ :=
  (a1 i * (1 - u1) + a2 i * (1 - u2)) / ((1 - u1) + (1 - u2))

/-- entry `i` takes the `ulps_eq!` shortcut of `compute_base_rate` (treated as an opaque Boolean) -/
def sc (f : Fmt) (a1 a2 : Fin n → ℚ) (i : Fin n) : Bool :=
  XQ.ulpsEq (XQ.fin (a1 i) : XQ f) (XQ.fin (a2 i))

/-- per-entry shortcut: the left entry where `ulps_eq!` holds, the formula `g` elsewhere -/
def short (f : Fmt) (a1 a2 g : Fin n → ℚ) (i : Fin n) : ℚ := if sc f a1 a2 i then a1 i else g i

/-- the guard ladder of `compute_base_rate` on rational data -/
def baseRateQ (f : Fmt) (op : FuseOp) (same : Bool) (a1 : Fin n → ℚ) (u1 : ℚ) (a2 : Fin n → ℚ)
    (u2 : ℚ) : Fin n → ℚ :=
  if same then a1
  else if GDog f u1 ∧ GDog f u2 then meanA a1 a2
  else match op with
    | .acm | .ecm =>
      if GVac f u1 ∧ GVac f u2 then short f a1 a2 (meanA a1 a2)
      else if GVac f u1 ∨ GDog f u2 then a2
      else if GVac f u2 ∨ GDog f u1 then a1
      else short f a1 a2 (acmA a1 u1 a2 u2)
    | .avg => short f a1 a2 (meanA a1 a2)
    | .wgh =>
      if GVac f u1 ∧ GVac f u2 then short f a1 a2 (meanA a1 a2)
      else if GVac f u1 then a2
      else if GVac f u2 then a1
      else short f a1 a2 (wghA a1 u1 a2 u2)

end FuseQ

/-- `ulps_eq!` is reflexive on finite values -/
theorem XQ.ulpsEq_refl (x : ℚ) : XQ.ulpsEq (XQ.fin x : XQ f) (XQ.fin x) = true := by
  have := XQ.eps_pos f
  simp [XQ.ulpsEq, XQ.absQ, this.le]

theorem FuseQ.sc_of_eq {a1 a2 : Fin n → ℚ} {i : Fin n} (h : a1 i = a2 i) : sc f a1 a2 i = true := by
  unfold sc; rw [h]; exact XQ.ulpsEq_refl _

theorem FuseQ.sc_self (a : Fin n → ℚ) (i : Fin n) : sc f a a i = true := sc_of_eq rfl

/-- equal entries are returned unchanged by the shortcut, whatever the formula -/
theorem FuseQ.short_of_eq {a1 a2 : Fin n → ℚ} (g : Fin n → ℚ) {i : Fin n} (h : a1 i = a2 i) :
    short f a1 a2 g i = a1 i := by
  unfold short; rw [sc_of_eq h, if_pos rfl]

theorem brEntry_fin (x y z : ℚ) :
    brEntry (XQ.fin x : XQ f) (XQ.fin y) (XQ.fin z)
      = XQ.fin (if XQ.ulpsEq (XQ.fin x : XQ f) (XQ.fin y) then x else z) := by
  unfold brEntry
  show (if XQ.ulpsEq (XQ.fin x : XQ f) (XQ.fin y) = true then _ else _) = _
  split <;> rfl

theorem brEntry_liftT (a1 a2 g : Fin n → ℚ) :
    (Vector.ofFn fun i : Fin n => brEntry (XQ.fin (a1 i) : XQ f) (XQ.fin (a2 i)) (XQ.fin (g i)))
      = liftT (short f a1 a2 g) := by
  apply Vector.ext; intro i hi
  rw [Vector.getElem_ofFn, liftT_getElem', brEntry_fin]; rfl

/-! ### `compute_base_rate`, arm by arm (`bl`, `br` arbitrary belief tables) -/

/-- shared base-rate object: returned unchanged -/
theorem computeBaseRate_same (op : FuseOp) (l r : Opinion (XQ f) n) :
    computeBaseRate op true l r = l.a := by
  unfold computeBaseRate; simp

/-- both guard-dogmatic (every operator): plain arithmetic mean, no `ulps_eq!` shortcut -/
theorem computeBaseRate_both_dog (op : FuseOp) (bl br : Tab (XQ f) n) (a1 a2 : Fin n → ℚ) {u1 u2 : ℚ}
    (d1 : GDog f u1) (d2 : GDog f u2) :
    computeBaseRate op false (⟨bl, XQ.fin u1, liftT a1⟩ : Opinion (XQ f) n) ⟨br, XQ.fin u2, liftT a2⟩
      = liftT (meanA a1 a2) := by
  unfold computeBaseRate
  simp only [Opinion.isDogmatic_lift, d1, d2, decide_true, Bool.and_self, if_true, Bool.false_eq_true,
    if_false, liftT_getElem, XQ.add_fin, XQ.two_def, XQ.div_fin _ _ (two_ne_zero)]
  rfl

/-- the mean arm with shortcut: Avg (not both dogmatic) -/
theorem computeBaseRate_avg (bl br : Tab (XQ f) n) (a1 a2 : Fin n → ℚ) {u1 u2 : ℚ}
    (hnd : ¬ (GDog f u1 ∧ GDog f u2)) :
    computeBaseRate .avg false (⟨bl, XQ.fin u1, liftT a1⟩ : Opinion (XQ f) n) ⟨br, XQ.fin u2, liftT a2⟩
      = liftT (short f a1 a2 (meanA a1 a2)) := by
  unfold computeBaseRate
  simp only [Opinion.isDogmatic_lift, ← Bool.decide_and, hnd, decide_false, Bool.false_eq_true,
    if_false, liftT_getElem, XQ.add_fin, XQ.two_def, XQ.div_fin _ _ (two_ne_zero)]
  exact brEntry_liftT a1 a2 (meanA a1 a2)

/-- ACm / ECm / Wgh, both guard-vacuous: mean with shortcut -/
theorem computeBaseRate_both_vac {op : FuseOp} (hop : op ≠ .avg) (bl br : Tab (XQ f) n)
    (a1 a2 : Fin n → ℚ) {u1 u2 : ℚ} (v1 : GVac f u1) (v2 : GVac f u2) :
    computeBaseRate op false (⟨bl, XQ.fin u1, liftT a1⟩ : Opinion (XQ f) n) ⟨br, XQ.fin u2, liftT a2⟩
      = liftT (short f a1 a2 (meanA a1 a2)) := by
  have nd1 : ¬ GDog f u1 := fun d => d.not_GVac v1
  cases op <;> first | exact absurd rfl hop | skip
  all_goals
    unfold computeBaseRate
    simp only [Opinion.isDogmatic_lift, Opinion.isVacuous_lift, nd1, v1, v2, decide_false, decide_true,
      Bool.false_and, Bool.and_self, Bool.false_eq_true, if_false, if_true,
      liftT_getElem, XQ.add_fin, XQ.two_def, XQ.div_fin _ _ (two_ne_zero)]
    exact brEntry_liftT a1 a2 (meanA a1 a2)

/-- ACm / ECm, left guard-vacuous or right guard-dogmatic: the right base rate -/
theorem computeBaseRate_acm_right {op : FuseOp} (hop : op = .acm ∨ op = .ecm) (bl br : Tab (XQ f) n)
    (al ar : Tab (XQ f) n) {u1 u2 : ℚ}
    (hnd : ¬ (GDog f u1 ∧ GDog f u2)) (hnv : ¬ (GVac f u1 ∧ GVac f u2)) (h : GVac f u1 ∨ GDog f u2) :
    computeBaseRate op false (⟨bl, XQ.fin u1, al⟩ : Opinion (XQ f) n) ⟨br, XQ.fin u2, ar⟩ = ar := by
  rcases hop with rfl | rfl <;>
  · unfold computeBaseRate
    simp only [Opinion.isDogmatic_lift, Opinion.isVacuous_lift, ← Bool.decide_and, ← Bool.decide_or,
      hnd, hnv, h, decide_false, decide_true, Bool.false_eq_true, if_false, if_true]

/-- ACm / ECm, right guard-vacuous or left guard-dogmatic (previous arms not taken): the left base rate -/
theorem computeBaseRate_acm_left {op : FuseOp} (hop : op = .acm ∨ op = .ecm) (bl br : Tab (XQ f) n)
    (al ar : Tab (XQ f) n) {u1 u2 : ℚ}
    (hnd : ¬ (GDog f u1 ∧ GDog f u2)) (hnv : ¬ (GVac f u1 ∧ GVac f u2))
    (hnr : ¬ (GVac f u1 ∨ GDog f u2)) (h : GVac f u2 ∨ GDog f u1) :
    computeBaseRate op false (⟨bl, XQ.fin u1, al⟩ : Opinion (XQ f) n) ⟨br, XQ.fin u2, ar⟩ = al := by
  rcases hop with rfl | rfl <;>
  · unfold computeBaseRate
    simp only [Opinion.isDogmatic_lift, Opinion.isVacuous_lift, ← Bool.decide_and, ← Bool.decide_or,
      hnd, hnv, hnr, h, decide_false, decide_true, Bool.false_eq_true, if_false, if_true]

/-- ACm / ECm formula arm (neither operand guard-vacuous nor guard-dogmatic), with the shortcut -/
theorem computeBaseRate_acm_formula {op : FuseOp} (hop : op = .acm ∨ op = .ecm) (bl br : Tab (XQ f) n)
    (a1 a2 : Fin n → ℚ) {u1 u2 : ℚ} (h10 : 0 ≤ u1) (h11 : u1 ≤ 1) (h20 : 0 ≤ u2) (h21 : u2 ≤ 1)
    (nd1 : ¬ GDog f u1) (nd2 : ¬ GDog f u2) (nv1 : ¬ GVac f u1) (nv2 : ¬ GVac f u2) :
    computeBaseRate op false (⟨bl, XQ.fin u1, liftT a1⟩ : Opinion (XQ f) n) ⟨br, XQ.fin u2, liftT a2⟩
      = liftT (short f a1 a2 (acmA a1 u1 a2 u2)) := by
  have he := XQ.eps_pos f
  have p2 := pos_of_not_GDog h20 nd2
  have l1 := lt_of_not_GVac h11 nv1
  have ht : u2 * (1 - u1) + u1 * (1 - u2) ≠ 0 :=
    ne_of_gt (wgh_temp_pos (by linarith) h10 (by linarith) h21)
  rcases hop with rfl | rfl <;>
  · unfold computeBaseRate
    simp only [Opinion.isDogmatic_lift, Opinion.isVacuous_lift, nd1, nd2, nv1, nv2, decide_false,
      Bool.and_false, Bool.or_false, Bool.false_eq_true, if_false, liftT_getElem, XQ.add_fin,
      XQ.sub_fin, XQ.one_def, XQ.mul_fin, XQ.div_fin _ _ ht]
    exact brEntry_liftT a1 a2 (acmA a1 u1 a2 u2)

/-- Wgh, left guard-vacuous (right not): the right base rate -/
theorem computeBaseRate_wgh_right (bl br : Tab (XQ f) n) (al ar : Tab (XQ f) n) {u1 u2 : ℚ}
    (hnd : ¬ (GDog f u1 ∧ GDog f u2)) (v1 : GVac f u1) (nv2 : ¬ GVac f u2) :
    computeBaseRate .wgh false (⟨bl, XQ.fin u1, al⟩ : Opinion (XQ f) n) ⟨br, XQ.fin u2, ar⟩ = ar := by
  unfold computeBaseRate
  simp only [Opinion.isDogmatic_lift, Opinion.isVacuous_lift, ← Bool.decide_and,
    hnd, v1, nv2, Bool.and_false, decide_false, decide_true, Bool.false_eq_true, if_false, if_true]

/-- Wgh, right guard-vacuous (left not): the left base rate -/
theorem computeBaseRate_wgh_left (bl br : Tab (XQ f) n) (al ar : Tab (XQ f) n) {u1 u2 : ℚ}
    (hnd : ¬ (GDog f u1 ∧ GDog f u2)) (nv1 : ¬ GVac f u1) (v2 : GVac f u2) :
    computeBaseRate .wgh false (⟨bl, XQ.fin u1, al⟩ : Opinion (XQ f) n) ⟨br, XQ.fin u2, ar⟩ = al := by
  unfold computeBaseRate
  simp only [Opinion.isDogmatic_lift, Opinion.isVacuous_lift, ← Bool.decide_and,
    hnd, nv1, v2, Bool.false_and, decide_false, decide_true, Bool.false_eq_true, if_false, if_true]

/-- Wgh formula arm (not both guard-dogmatic, neither guard-vacuous; ONE dogmatic operand lands here) -/
theorem computeBaseRate_wgh_formula (bl br : Tab (XQ f) n)
    (a1 a2 : Fin n → ℚ) {u1 u2 : ℚ} (h11 : u1 ≤ 1) (h21 : u2 ≤ 1)
    (hnd : ¬ (GDog f u1 ∧ GDog f u2)) (nv1 : ¬ GVac f u1) (nv2 : ¬ GVac f u2) :
    computeBaseRate .wgh false (⟨bl, XQ.fin u1, liftT a1⟩ : Opinion (XQ f) n) ⟨br, XQ.fin u2, liftT a2⟩
      = liftT (short f a1 a2 (wghA a1 u1 a2 u2)) := by
  have he := XQ.eps_pos f
  have l1 := lt_of_not_GVac h11 nv1
  have l2 := lt_of_not_GVac h21 nv2
  have ht : (1 - u1) + (1 - u2) ≠ 0 := ne_of_gt (by linarith)
  unfold computeBaseRate
  simp only [Opinion.isDogmatic_lift, Opinion.isVacuous_lift, ← Bool.decide_and, hnd, nv1, nv2,
    Bool.and_false, decide_false,
    Bool.false_eq_true, if_false, liftT_getElem, XQ.add_fin,
    XQ.sub_fin, XQ.one_def, XQ.mul_fin, XQ.div_fin _ _ ht]
  exact brEntry_liftT a1 a2 (wghA a1 u1 a2 u2)

/-- `compute_base_rate` on lifted operands with `u1, u2 ∈ [0,1]`, all arms at once: the rational guard
    ladder `FuseQ.baseRateQ`.  Every entry of the result is finite. -/
theorem computeBaseRate_lift (op : FuseOp) (same : Bool) (bl br : Tab (XQ f) n) (a1 a2 : Fin n → ℚ)
    {u1 u2 : ℚ} (h10 : 0 ≤ u1) (h11 : u1 ≤ 1) (h20 : 0 ≤ u2) (h21 : u2 ≤ 1) :
    computeBaseRate op same (⟨bl, XQ.fin u1, liftT a1⟩ : Opinion (XQ f) n) ⟨br, XQ.fin u2, liftT a2⟩
      = liftT (baseRateQ f op same a1 u1 a2 u2) := by
  unfold baseRateQ
  cases same
  · simp only [Bool.false_eq_true, if_false]
    by_cases hd : GDog f u1 ∧ GDog f u2
    · rw [if_pos hd]; exact computeBaseRate_both_dog op _ _ a1 a2 hd.1 hd.2
    rw [if_neg hd]
    have cum : ∀ op : FuseOp, (op = .acm ∨ op = .ecm) →
        computeBaseRate op false (⟨bl, XQ.fin u1, liftT a1⟩ : Opinion (XQ f) n)
            ⟨br, XQ.fin u2, liftT a2⟩
          = liftT (if GVac f u1 ∧ GVac f u2 then short f a1 a2 (meanA a1 a2)
              else if GVac f u1 ∨ GDog f u2 then a2
              else if GVac f u2 ∨ GDog f u1 then a1
              else short f a1 a2 (acmA a1 u1 a2 u2)) := by
      intro op hop
      have hop' : op ≠ .avg := by rcases hop with rfl | rfl <;> decide
      by_cases hv : GVac f u1 ∧ GVac f u2
      · rw [if_pos hv]; exact computeBaseRate_both_vac hop' _ _ a1 a2 hv.1 hv.2
      rw [if_neg hv]
      by_cases hr : GVac f u1 ∨ GDog f u2
      · rw [if_pos hr]; exact computeBaseRate_acm_right hop _ _ _ _ hd hv hr
      rw [if_neg hr]
      by_cases hl : GVac f u2 ∨ GDog f u1
      · rw [if_pos hl]; exact computeBaseRate_acm_left hop _ _ _ _ hd hv hr hl
      rw [if_neg hl]
      exact computeBaseRate_acm_formula hop _ _ a1 a2 h10 h11 h20 h21 (fun h => hl (Or.inr h))
        (fun h => hr (Or.inr h)) (fun h => hr (Or.inl h)) (fun h => hl (Or.inl h))
    cases op
    · exact cum .acm (Or.inl rfl)
    · exact cum .ecm (Or.inr rfl)
    · exact computeBaseRate_avg _ _ a1 a2 hd
    · show _ = liftT (if GVac f u1 ∧ GVac f u2 then short f a1 a2 (meanA a1 a2)
              else if GVac f u1 then a2 else if GVac f u2 then a1
              else short f a1 a2 (wghA a1 u1 a2 u2))
      by_cases hv : GVac f u1 ∧ GVac f u2
      · rw [if_pos hv]; exact computeBaseRate_both_vac (by decide) _ _ a1 a2 hv.1 hv.2
      rw [if_neg hv]
      by_cases v1 : GVac f u1
      · rw [if_pos v1]; exact computeBaseRate_wgh_right _ _ _ _ hd v1 (fun v2 => hv ⟨v1, v2⟩)
      rw [if_neg v1]
      by_cases v2 : GVac f u2
      · rw [if_pos v2]; exact computeBaseRate_wgh_left _ _ _ _ hd v1 v2
      rw [if_neg v2]
      exact computeBaseRate_wgh_formula _ _ a1 a2 h11 h21 hd v1 v2
  · simp only [if_true]; exact computeBaseRate_same op _ _

end SLV
