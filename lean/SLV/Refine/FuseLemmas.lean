/-
  Helper lemmas for the fusion operators (src/mul.rs:488-737; SLV/Model/Fuse.lean):
  arm-by-arm closed forms of `computeSimplex`, `computeBaseRate` and `fuse` on lifted rational inputs.
  No property statements here (those are in SLV/Props/C02.lean, C03.lean, …).   ε = f.eps.

  INDEX
  guards        `GDog f u` (|u| ≤ ε), `GVac f u` (1-2ε ≤ u ≤ 1+4ε), `Plain f u` (u = 0 ∨ u = 1 ∨ ε < u < 1-2ε),
                `PlainD f u` (u = 0 ∨ ε < u); `Plain.GDog_iff`, `Plain.GVac_iff`, `GDog_iff`, `GVac_iff`.
  simplexes     `SWF b u` (b ≥ 0, u ≥ 0, Σb + u = 1), `WF.swf`, `SWF.toWF`, `normalized_liftT(_one)`.
  closed forms  `FuseQ.dogB`, `acmB/acmU`, `avgB/avgU`, `wghB/wghU`, `meanA`, `acmA`, `wghA`,
                `sc` (per-entry shortcut test: exact equality since repair c8a7116; `FuseQ.hsc`), `short`, and the guard ladders
                `FuseQ.simplexQ`, `FuseQ.baseRateQ`, `FuseQ.fuseQ` (all operators, all arms).
  arms          `computeSimplex_both_dog / _acm_formula / _avg_formula / _wgh_formula / _both_vac / _right /
                _left / _avg_left / _avg_right`;  `computeBaseRate_same / _both_dog / _avg / _both_vac /
                _acm_right / _acm_left / _acm_formula / _wgh_right / _wgh_left / _wgh_formula`; `brEntry_fin`.
  total lifts   `computeSimplex_lift`, `computeBaseRate_lift`, `fuse_lift` (op ≠ ECm), `fuse_ecm_lift`
                (fused base rate a distribution), `fuse_ecm_lift_gen`, `fuse_lift_all` (= `fuseQ`, always).
  algebra       `acm_sum/avg_sum/wgh_sum` (normaliser = 1), `acm_swf/avg_swf/wgh_swf/dog_swf`, `simplexQ_swf`;
                `IsMix`, `Weights`, `baseRateQ_shape/_between/_of_eq/_sum/_sum_bound/_nonneg/_sum_pos/_dist/_same`.
  plain inputs  `simplexQ0`, `baseRateQ0`, `simplexQ_plain`, `baseRateQ_plain`; the short ideal forms
                `FuseQ.idealS`, `FuseQ.idealA`, `simplexQ_plain_ideal`, `baseRateQ_plain_ideal`, `fuse_plain`,
                `fuse_plain_ecm`, `idealS_swf`, `ideal_dist`.
  bands         `simplexQ_vac_left/right`, `baseRateQ_vac_left/right`, `fuseQ_vac_left/right`,
                `simplexQ_avg_plainD`, `baseRateQ_avg_plainD`.
-/
import SLV.Refine.Lift
import SLV.Refine.C10Lemmas
import SLV.Model.Fuse
import SLV.Props.C09
import Mathlib.Algebra.Order.Ring.Abs
import Mathlib.Algebra.BigOperators.Field

namespace SLV
open Scalar
open SLV.Props.C09 (WF)

variable {f : Fmt} {n : Nat}

theorem XQ.eps_lt (f : Fmt) : f.eps < 1 / 16 := by
  cases f <;> norm_num [Fmt.eps, Fmt.mant]

/-! ### guards -/

/-- value-level `is_dogmatic()` = `ulps_eq!(u, 0)` : `|u| ≤ ε` -/
def GDog (f : Fmt) (u : ℚ) : Prop := |u| ≤ f.eps
/-- value-level `is_vacuous()` = `ulps_eq!(u, 1)` : `1-2ε ≤ u ≤ 1+4ε` -/
def GVac (f : Fmt) (u : ℚ) : Prop := 1 - 2 * f.eps ≤ u ∧ u ≤ 1 + 4 * f.eps

instance (u : ℚ) : Decidable (GDog f u) := by unfold GDog; infer_instance
instance (u : ℚ) : Decidable (GVac f u) := by unfold GVac; infer_instance

@[simp] theorem Simplex.isDogmatic_lift (b : Tab (XQ f) n) (u : ℚ) :
    (⟨b, XQ.fin u⟩ : Simplex (XQ f) n).isDogmatic = decide (GDog f u) := by
  simp [Simplex.isDogmatic, GDog]
@[simp] theorem Simplex.isVacuous_lift (b : Tab (XQ f) n) (u : ℚ) :
    (⟨b, XQ.fin u⟩ : Simplex (XQ f) n).isVacuous = decide (GVac f u) := by
  simp [Simplex.isVacuous, GVac]
@[simp] theorem Opinion.isDogmatic_lift (b a : Tab (XQ f) n) (u : ℚ) :
    (⟨b, XQ.fin u, a⟩ : Opinion (XQ f) n).isDogmatic = decide (GDog f u) := by
  simp [Opinion.isDogmatic, GDog]
@[simp] theorem Opinion.isVacuous_lift (b a : Tab (XQ f) n) (u : ℚ) :
    (⟨b, XQ.fin u, a⟩ : Opinion (XQ f) n).isVacuous = decide (GVac f u) := by
  simp [Opinion.isVacuous, GVac]

theorem GDog_zero : GDog f 0 := by simpa [GDog] using (XQ.eps_pos f).le
theorem GVac_one : GVac f 1 := by
  have := XQ.eps_pos f; constructor <;> linarith
theorem not_GVac_zero : ¬ GVac f 0 := by
  have := XQ.eps_lt f; rintro ⟨h, _⟩; linarith
theorem not_GDog_one : ¬ GDog f 1 := by
  have := XQ.eps_lt f; unfold GDog; rw [abs_one]; linarith

theorem GDog_iff {u : ℚ} (h0 : 0 ≤ u) : GDog f u ↔ u ≤ f.eps := by
  unfold GDog; rw [abs_of_nonneg h0]
theorem GVac_iff {u : ℚ} (h1 : u ≤ 1) : GVac f u ↔ 1 - 2 * f.eps ≤ u := by
  have := XQ.eps_pos f
  unfold GVac; constructor
  · exact fun h => h.1
  · exact fun h => ⟨h, by linarith⟩

/-- a guard-dogmatic value in `[0,1]` is not guard-vacuous -/
theorem GDog.not_GVac {u : ℚ} (h : GDog f u) : ¬ GVac f u := by
  have := XQ.eps_lt f
  rintro ⟨h1, _⟩
  have := (abs_le.mp h).2
  linarith

/-- `u` is outside the two tolerance bands `(0, ε]` and `[1-2ε, 1)` -/
def Plain (f : Fmt) (u : ℚ) : Prop := u = 0 ∨ u = 1 ∨ (f.eps < u ∧ u < 1 - 2 * f.eps)

theorem Plain.GDog_iff {u : ℚ} (h : Plain f u) : GDog f u ↔ u = 0 := by
  have he := XQ.eps_pos f
  have := XQ.eps_lt f
  constructor
  · intro hd
    rcases h with h | h | ⟨h, _⟩
    · exact h
    · subst h; exact absurd hd not_GDog_one
    · exfalso; have := (abs_le.mp hd).2; linarith
  · rintro rfl; exact GDog_zero

theorem Plain.GVac_iff {u : ℚ} (h : Plain f u) : GVac f u ↔ u = 1 := by
  have he := XQ.eps_pos f
  have := XQ.eps_lt f
  constructor
  · rintro ⟨h1, h2⟩
    rcases h with h | h | ⟨_, h⟩
    · subst h; linarith
    · exact h
    · linarith
  · rintro rfl; exact GVac_one

/-! ### well-formed simplexes -/

/-- well-formed rational simplex -/
structure SWF (b : Fin n → ℚ) (u : ℚ) : Prop where
  hb : ∀ i, 0 ≤ b i
  hu : 0 ≤ u
  hs : ∑ i, b i + u = 1

theorem _root_.SLV.Props.C09.WF.swf {b a : Fin n → ℚ} {u : ℚ} (h : WF b u a) : SWF b u :=
  ⟨h.hb, h.hu, h.hs⟩

theorem SWF.u_le_one {b : Fin n → ℚ} {u : ℚ} (h : SWF b u) : u ≤ 1 := by
  have := Finset.sum_nonneg (fun i (_ : i ∈ Finset.univ) => h.hb i)
  linarith [h.hs]

theorem SWF.sum_b {b : Fin n → ℚ} {u : ℚ} (h : SWF b u) : ∑ i, b i = 1 - u := by
  linarith [h.hs]

theorem SWF.b_le {b : Fin n → ℚ} {u : ℚ} (h : SWF b u) (i : Fin n) : b i ≤ 1 - u := by
  have := Finset.single_le_sum (f := b) (fun j _ => h.hb j) (Finset.mem_univ i)
  linarith [h.hs]

/-- a well-formed simplex with `u = 1` has all masses zero -/
theorem SWF.b_eq_zero {b : Fin n → ℚ} (h : SWF b 1) (i : Fin n) : b i = 0 :=
  le_antisymm (by simpa using h.b_le i) (h.hb i)

theorem SWF.toWF {b a : Fin n → ℚ} {u : ℚ} (h : SWF b u) (ha0 : ∀ i, 0 ≤ a i) (ha : ∑ i, a i = 1) :
    WF b u a := ⟨h.hb, h.hu, h.hs, ha0, ha⟩

theorem SWF.vacuous : SWF (fun _ : Fin n => (0 : ℚ)) 1 := ⟨fun _ => le_refl _, zero_le_one, by simp⟩

/-! ### `Simplex::normalized` -/

theorem normalized_liftT (g : Fin n → ℚ) (u : ℚ) (hs : ∑ i, g i + u ≠ 0) :
    Simplex.normalized (liftT g : Tab (XQ f) n) (XQ.fin u)
      = ⟨liftT (fun i => g i / (∑ i, g i + u)), XQ.fin (u / (∑ i, g i + u))⟩ := by
  unfold Simplex.normalized
  simp only [sumIter_liftT, XQ.add_fin, XQ.div_fin _ _ hs]
  rw [liftT_map g _ (fun q => q / (∑ i, g i + u)) (fun q => XQ.div_fin _ _ hs)]

/-- a table whose entries sum with `u` to exactly one is returned unchanged -/
theorem normalized_liftT_one (g : Fin n → ℚ) (u : ℚ) (hs : ∑ i, g i + u = 1) :
    Simplex.normalized (liftT g : Tab (XQ f) n) (XQ.fin u) = ⟨liftT g, XQ.fin u⟩ := by
  rw [normalized_liftT g u (by rw [hs]; exact one_ne_zero), hs]
  simp

/-! ### closed forms of the belief part -/

namespace FuseQ

/-- both operands guard-dogmatic: normalised arithmetic mean; the normaliser is `(2 - u1 - u2)/2` -/
def dogB (b1 : Fin n → ℚ) (u1 : ℚ) (b2 : Fin n → ℚ) (u2 : ℚ) (i : Fin n) : ℚ :=
  ((b1 i + b2 i) / 2) / ((2 - u1 - u2) / 2)

/-- aleatory / epistemic cumulative fusion, formula arm -/
def acmB (b1 : Fin n → ℚ) (u1 : ℚ) (b2 : Fin n → ℚ) (u2 : ℚ) (i : Fin n) : ℚ :=
  (b1 i * u2 + b2 i * u1) / (u1 + u2 - u1 * u2)
def acmU (u1 u2 : ℚ) : ℚ := u1 * u2 / (u1 + u2 - u1 * u2)

/-- averaging fusion, formula arm -/
def avgB (b1 : Fin n → ℚ) (u1 : ℚ) (b2 : Fin n → ℚ) (u2 : ℚ) (i : Fin n) : ℚ :=
  (b1 i * u2 + b2 i * u1) / (u1 + u2)
def avgU (u1 u2 : ℚ) : ℚ := 2 * u1 * u2 / (u1 + u2)

/-- weighted fusion, formula arm -/
def wghB (b1 : Fin n → ℚ) (u1 : ℚ) (b2 : Fin n → ℚ) (u2 : ℚ) (i : Fin n) : ℚ :=
  (b1 i * (1 - u1) * u2 + b2 i * (1 - u2) * u1) / (u2 * (1 - u1) + u1 * (1 - u2))
def wghU (u1 u2 : ℚ) : ℚ := ((1 - u1) + (1 - u2)) * u1 * u2 / (u2 * (1 - u1) + u1 * (1 - u2))

/-- the guard ladder of `compute_simlex` on rational data (`ε = f.eps`) -/
def simplexQ (f : Fmt) (op : FuseOp) (b1 : Fin n → ℚ) (u1 : ℚ) (b2 : Fin n → ℚ) (u2 : ℚ) :
    (Fin n → ℚ) × ℚ :=
  if GDog f u1 ∧ GDog f u2 then (dogB b1 u1 b2 u2, 0)
  else match op with
    | .acm | .ecm =>
      if GVac f u1 ∧ GVac f u2 then (fun _ => 0, 1)
      else if GVac f u1 ∨ GDog f u2 then (b2, u2)
      else if GVac f u2 ∨ GDog f u1 then (b1, u1)
      else (acmB b1 u1 b2 u2, acmU u1 u2)
    | .avg =>
      if GDog f u1 then (b1, u1)
      else if GDog f u2 then (b2, u2)
      else (avgB b1 u1 b2 u2, avgU u1 u2)
    | .wgh =>
      if GVac f u1 ∧ GVac f u2 then (fun _ => 0, 1)
      else if GVac f u1 ∨ GDog f u2 then (b2, u2)
      else if GVac f u2 ∨ GDog f u1 then (b1, u1)
      else (wghB b1 u1 b2 u2, wghU u1 u2)

end FuseQ
open FuseQ

/-! ### the formula arms: the normaliser is exactly one -/

theorem acm_temp_pos {u1 u2 : ℚ} (h1 : 0 < u1) (h1' : u1 ≤ 1) (h2 : 0 ≤ u2) :
    0 < u1 + u2 - u1 * u2 := by nlinarith [mul_nonneg h2 (sub_nonneg.mpr h1')]

theorem wgh_temp_pos {u1 u2 : ℚ} (h1 : u1 < 1) (h1' : 0 ≤ u1) (h2 : 0 < u2) (h2' : u2 ≤ 1) :
    0 < u2 * (1 - u1) + u1 * (1 - u2) := by
  nlinarith [mul_pos h2 (sub_pos.mpr h1), mul_nonneg h1' (sub_nonneg.mpr h2')]

theorem acm_sum {b1 b2 : Fin n → ℚ} {u1 u2 : ℚ} (h1 : SWF b1 u1) (h2 : SWF b2 u2)
    (ht : u1 + u2 - u1 * u2 ≠ 0) : ∑ i, acmB b1 u1 b2 u2 i + acmU u1 u2 = 1 := by
  unfold acmB acmU
  rw [← Finset.sum_div, Finset.sum_add_distrib, ← Finset.sum_mul, ← Finset.sum_mul, h1.sum_b, h2.sum_b,
    ← add_div, div_eq_one_iff_eq ht]
  ring

theorem avg_sum {b1 b2 : Fin n → ℚ} {u1 u2 : ℚ} (h1 : SWF b1 u1) (h2 : SWF b2 u2)
    (ht : u1 + u2 ≠ 0) : ∑ i, avgB b1 u1 b2 u2 i + avgU u1 u2 = 1 := by
  unfold avgB avgU
  rw [← Finset.sum_div, Finset.sum_add_distrib, ← Finset.sum_mul, ← Finset.sum_mul, h1.sum_b, h2.sum_b,
    ← add_div, div_eq_one_iff_eq ht]
  ring

theorem wgh_sum {b1 b2 : Fin n → ℚ} {u1 u2 : ℚ} (h1 : SWF b1 u1) (h2 : SWF b2 u2)
    (ht : u2 * (1 - u1) + u1 * (1 - u2) ≠ 0) : ∑ i, wghB b1 u1 b2 u2 i + wghU u1 u2 = 1 := by
  unfold wghB wghU
  rw [← Finset.sum_div, Finset.sum_add_distrib, ← Finset.sum_mul, ← Finset.sum_mul, ← Finset.sum_mul,
    ← Finset.sum_mul, h1.sum_b, h2.sum_b, ← add_div, div_eq_one_iff_eq ht]
  ring

theorem dog_sum {b1 b2 : Fin n → ℚ} {u1 u2 : ℚ} (h1 : SWF b1 u1) (h2 : SWF b2 u2) :
    ∑ i, (b1 i + b2 i) / 2 + 0 = (2 - u1 - u2) / 2 := by
  rw [← Finset.sum_div, Finset.sum_add_distrib, h1.sum_b, h2.sum_b]; ring

/-- `compute_simlex`, both operands guard-dogmatic (every operator): normalised mean.
    For exactly dogmatic operands the normaliser is 1. -/
theorem computeSimplex_both_dog (op : FuseOp) {b1 b2 : Fin n → ℚ} {u1 u2 : ℚ} (h1 : SWF b1 u1)
    (h2 : SWF b2 u2) (d1 : GDog f u1) (d2 : GDog f u2) :
    computeSimplex op (⟨liftT b1, XQ.fin u1⟩ : Simplex (XQ f) n) ⟨liftT b2, XQ.fin u2⟩
      = ⟨liftT (dogB b1 u1 b2 u2), XQ.fin 0⟩ := by
  have he := XQ.eps_lt f
  have hs := dog_sum h1 h2
  have hpos : (2 - u1 - u2) / 2 ≠ 0 := by
    have := (abs_le.mp d1).2; have := (abs_le.mp d2).2
    apply ne_of_gt; linarith
  unfold computeSimplex
  simp only [Simplex.isDogmatic_lift, d1, d2, decide_true, Bool.and_self, if_true]
  have e : (Vector.ofFn fun i : Fin n => ((liftT b1 : Tab (XQ f) n)[i] + (liftT b2 : Tab (XQ f) n)[i]) / two)
      = liftT (fun i => (b1 i + b2 i) / 2) := by
    apply Vector.ext; intro i hi; simp [liftT, XQ.div_fin _ _ (two_ne_zero)]
  rw [e, XQ.zero_def, normalized_liftT _ _ (by rw [hs]; exact hpos), hs]
  simp only [zero_div]
  rfl

theorem pos_of_not_GDog {u : ℚ} (h0 : 0 ≤ u) (h : ¬ GDog f u) : f.eps < u := by
  rw [GDog_iff h0] at h; exact not_le.mp h

theorem lt_of_not_GVac {u : ℚ} (h1 : u ≤ 1) (h : ¬ GVac f u) : u < 1 - 2 * f.eps := by
  rw [GVac_iff h1] at h; exact not_le.mp h

/-- `compute_simlex`, ACm / ECm formula arm (neither operand guard-vacuous nor guard-dogmatic):
    the raw formula; the normaliser `Σb + u` is exactly 1 -/
theorem computeSimplex_acm_formula {op : FuseOp} (hop : op = .acm ∨ op = .ecm) {b1 b2 : Fin n → ℚ}
    {u1 u2 : ℚ} (h1 : SWF b1 u1) (h2 : SWF b2 u2) (nd1 : ¬ GDog f u1) (nd2 : ¬ GDog f u2)
    (nv1 : ¬ GVac f u1) (nv2 : ¬ GVac f u2) :
    computeSimplex op (⟨liftT b1, XQ.fin u1⟩ : Simplex (XQ f) n) ⟨liftT b2, XQ.fin u2⟩
      = ⟨liftT (acmB b1 u1 b2 u2), XQ.fin (acmU u1 u2)⟩ := by
  have he := XQ.eps_pos f
  have p1 := pos_of_not_GDog h1.hu nd1
  have ht : u1 + u2 - u1 * u2 ≠ 0 := ne_of_gt (acm_temp_pos (by linarith) h1.u_le_one h2.hu)
  have e : (Vector.ofFn fun i : Fin n =>
      XQ.fin ((b1 i * u2 + b2 i * u1) / (u1 + u2 - u1 * u2)) : Tab (XQ f) n) = liftT (acmB b1 u1 b2 u2) := rfl
  rcases hop with rfl | rfl <;>
  · unfold computeSimplex
    simp only [Simplex.isDogmatic_lift, Simplex.isVacuous_lift, nd1, nd2, nv1, nv2, decide_false,
      Bool.and_false, Bool.or_false, Bool.false_eq_true, if_false, liftT_getElem, XQ.add_fin,
      XQ.sub_fin, XQ.mul_fin, XQ.div_fin _ _ ht, e]
    exact normalized_liftT_one _ _ (acm_sum h1 h2 ht)

/-- `compute_simlex`, Avg formula arm (neither operand guard-dogmatic; vacuous operands included) -/
theorem computeSimplex_avg_formula {b1 b2 : Fin n → ℚ}
    {u1 u2 : ℚ} (h1 : SWF b1 u1) (h2 : SWF b2 u2) (nd1 : ¬ GDog f u1) (nd2 : ¬ GDog f u2) :
    computeSimplex .avg (⟨liftT b1, XQ.fin u1⟩ : Simplex (XQ f) n) ⟨liftT b2, XQ.fin u2⟩
      = ⟨liftT (avgB b1 u1 b2 u2), XQ.fin (avgU u1 u2)⟩ := by
  have he := XQ.eps_pos f
  have p1 := pos_of_not_GDog h1.hu nd1
  have ht : u1 + u2 ≠ 0 := ne_of_gt (by linarith [h2.hu])
  have e : (Vector.ofFn fun i : Fin n =>
      XQ.fin ((b1 i * u2 + b2 i * u1) / (u1 + u2)) : Tab (XQ f) n) = liftT (avgB b1 u1 b2 u2) := rfl
  unfold computeSimplex
  simp only [Simplex.isDogmatic_lift, nd1, nd2, decide_false,
    Bool.and_false, Bool.false_eq_true, if_false, liftT_getElem, XQ.add_fin, XQ.two_def,
    XQ.mul_fin, XQ.div_fin _ _ ht, e]
  exact normalized_liftT_one _ _ (avg_sum h1 h2 ht)

/-- `compute_simlex`, Wgh formula arm (neither operand guard-vacuous nor guard-dogmatic) -/
theorem computeSimplex_wgh_formula {b1 b2 : Fin n → ℚ}
    {u1 u2 : ℚ} (h1 : SWF b1 u1) (h2 : SWF b2 u2) (nd1 : ¬ GDog f u1) (nd2 : ¬ GDog f u2)
    (nv1 : ¬ GVac f u1) (nv2 : ¬ GVac f u2) :
    computeSimplex .wgh (⟨liftT b1, XQ.fin u1⟩ : Simplex (XQ f) n) ⟨liftT b2, XQ.fin u2⟩
      = ⟨liftT (wghB b1 u1 b2 u2), XQ.fin (wghU u1 u2)⟩ := by
  have he := XQ.eps_pos f
  have p2 := pos_of_not_GDog h2.hu nd2
  have l1 := lt_of_not_GVac h1.u_le_one nv1
  have ht : u2 * (1 - u1) + u1 * (1 - u2) ≠ 0 :=
    ne_of_gt (wgh_temp_pos (by linarith) h1.hu (by linarith) h2.u_le_one)
  have e : (Vector.ofFn fun i : Fin n =>
      XQ.fin ((b1 i * (1 - u1) * u2 + b2 i * (1 - u2) * u1) / (u2 * (1 - u1) + u1 * (1 - u2))) :
        Tab (XQ f) n) = liftT (wghB b1 u1 b2 u2) := rfl
  unfold computeSimplex
  simp only [Simplex.isDogmatic_lift, Simplex.isVacuous_lift, nd1, nd2, nv1, nv2, decide_false,
    Bool.and_false, Bool.or_false, Bool.false_eq_true, if_false, liftT_getElem, XQ.add_fin,
    XQ.sub_fin, XQ.one_def, XQ.mul_fin, XQ.div_fin _ _ ht, e]
  exact normalized_liftT_one _ _ (wgh_sum h1 h2 ht)

/-! clone arms (no well-formedness needed; `bl`, `br` are arbitrary tables) -/

/-- ACm / ECm / Wgh, both guard-vacuous: `Simplex::vacuous()` -/
theorem computeSimplex_both_vac {op : FuseOp} (hop : op ≠ .avg) (bl br : Tab (XQ f) n) {u1 u2 : ℚ}
    (v1 : GVac f u1) (v2 : GVac f u2) :
    computeSimplex op (⟨bl, XQ.fin u1⟩ : Simplex (XQ f) n) ⟨br, XQ.fin u2⟩
      = ⟨liftT (fun _ => (0 : ℚ)), XQ.fin 1⟩ := by
  have nd1 : ¬ GDog f u1 := fun d => d.not_GVac v1
  cases op <;> first | exact absurd rfl hop | skip
  all_goals
    unfold computeSimplex
    simp only [Simplex.isDogmatic_lift, Simplex.isVacuous_lift, nd1, v1, v2, decide_false, decide_true,
      Bool.false_and, Bool.and_self, Bool.false_eq_true, if_false, if_true]
    exact vacuous_eq_liftT n

/-- ACm / ECm / Wgh, left guard-vacuous or right guard-dogmatic (and not both dogmatic / both vacuous):
    the right operand -/
theorem computeSimplex_right {op : FuseOp} (hop : op ≠ .avg) (bl br : Tab (XQ f) n) {u1 u2 : ℚ}
    (hnd : ¬ (GDog f u1 ∧ GDog f u2)) (hnv : ¬ (GVac f u1 ∧ GVac f u2)) (h : GVac f u1 ∨ GDog f u2) :
    computeSimplex op (⟨bl, XQ.fin u1⟩ : Simplex (XQ f) n) ⟨br, XQ.fin u2⟩ = ⟨br, XQ.fin u2⟩ := by
  cases op <;> first | exact absurd rfl hop | skip
  all_goals
    unfold computeSimplex
    simp only [Simplex.isDogmatic_lift, Simplex.isVacuous_lift, ← Bool.decide_and, ← Bool.decide_or,
      hnd, hnv, h, decide_false, decide_true, Bool.false_eq_true, if_false, if_true]

/-- ACm / ECm / Wgh, right guard-vacuous or left guard-dogmatic (previous arms not taken):
    the left operand -/
theorem computeSimplex_left {op : FuseOp} (hop : op ≠ .avg) (bl br : Tab (XQ f) n) {u1 u2 : ℚ}
    (hnd : ¬ (GDog f u1 ∧ GDog f u2)) (hnv : ¬ (GVac f u1 ∧ GVac f u2))
    (hnr : ¬ (GVac f u1 ∨ GDog f u2)) (h : GVac f u2 ∨ GDog f u1) :
    computeSimplex op (⟨bl, XQ.fin u1⟩ : Simplex (XQ f) n) ⟨br, XQ.fin u2⟩ = ⟨bl, XQ.fin u1⟩ := by
  cases op <;> first | exact absurd rfl hop | skip
  all_goals
    unfold computeSimplex
    simp only [Simplex.isDogmatic_lift, Simplex.isVacuous_lift, ← Bool.decide_and, ← Bool.decide_or,
      hnd, hnv, hnr, h, decide_false, decide_true, Bool.false_eq_true, if_false, if_true]

/-- Avg, left guard-dogmatic (right not): the left operand -/
theorem computeSimplex_avg_left (bl br : Tab (XQ f) n) {u1 u2 : ℚ}
    (d1 : GDog f u1) (nd2 : ¬ GDog f u2) :
    computeSimplex .avg (⟨bl, XQ.fin u1⟩ : Simplex (XQ f) n) ⟨br, XQ.fin u2⟩ = ⟨bl, XQ.fin u1⟩ := by
  unfold computeSimplex
  simp only [Simplex.isDogmatic_lift, d1, nd2, decide_false, decide_true, Bool.and_false,
    Bool.false_eq_true, if_false, if_true]

/-- Avg, right guard-dogmatic (left not): the right operand -/
theorem computeSimplex_avg_right (bl br : Tab (XQ f) n) {u1 u2 : ℚ}
    (nd1 : ¬ GDog f u1) (d2 : GDog f u2) :
    computeSimplex .avg (⟨bl, XQ.fin u1⟩ : Simplex (XQ f) n) ⟨br, XQ.fin u2⟩ = ⟨br, XQ.fin u2⟩ := by
  unfold computeSimplex
  simp only [Simplex.isDogmatic_lift, d2, nd1, decide_false, decide_true, Bool.false_and,
    Bool.false_eq_true, if_false, if_true]

/-- `compute_simlex` on well-formed lifted operands, all arms at once: the rational guard ladder
    `FuseQ.simplexQ`.  In particular every component of the result is finite. -/
theorem computeSimplex_lift (op : FuseOp) {b1 b2 : Fin n → ℚ} {u1 u2 : ℚ} (h1 : SWF b1 u1)
    (h2 : SWF b2 u2) :
    computeSimplex op (⟨liftT b1, XQ.fin u1⟩ : Simplex (XQ f) n) ⟨liftT b2, XQ.fin u2⟩
      = ⟨liftT (simplexQ f op b1 u1 b2 u2).1, XQ.fin (simplexQ f op b1 u1 b2 u2).2⟩ := by
  unfold simplexQ
  by_cases hd : GDog f u1 ∧ GDog f u2
  · rw [if_pos hd]; exact computeSimplex_both_dog op h1 h2 hd.1 hd.2
  rw [if_neg hd]
  have cum : ∀ op : FuseOp, op ≠ .avg → ∀ (F : (Fin n → ℚ) × ℚ),
      (¬ GDog f u1 → ¬ GDog f u2 → ¬ GVac f u1 → ¬ GVac f u2 →
        computeSimplex op (⟨liftT b1, XQ.fin u1⟩ : Simplex (XQ f) n) ⟨liftT b2, XQ.fin u2⟩
          = ⟨liftT F.1, XQ.fin F.2⟩) →
      computeSimplex op (⟨liftT b1, XQ.fin u1⟩ : Simplex (XQ f) n) ⟨liftT b2, XQ.fin u2⟩
        = ⟨liftT (if GVac f u1 ∧ GVac f u2 then ((fun _ => 0 : Fin n → ℚ), (1 : ℚ))
            else if GVac f u1 ∨ GDog f u2 then (b2, u2)
            else if GVac f u2 ∨ GDog f u1 then (b1, u1) else F).1,
           XQ.fin (if GVac f u1 ∧ GVac f u2 then ((fun _ => 0 : Fin n → ℚ), (1 : ℚ))
            else if GVac f u1 ∨ GDog f u2 then (b2, u2)
            else if GVac f u2 ∨ GDog f u1 then (b1, u1) else F).2⟩ := by
    intro op hop F hF
    by_cases hv : GVac f u1 ∧ GVac f u2
    · rw [if_pos hv]; exact computeSimplex_both_vac hop _ _ hv.1 hv.2
    rw [if_neg hv]
    by_cases hr : GVac f u1 ∨ GDog f u2
    · rw [if_pos hr]; exact computeSimplex_right hop _ _ hd hv hr
    rw [if_neg hr]
    by_cases hl : GVac f u2 ∨ GDog f u1
    · rw [if_pos hl]; exact computeSimplex_left hop _ _ hd hv hr hl
    rw [if_neg hl]
    exact hF (fun h => hl (Or.inr h)) (fun h => hr (Or.inr h)) (fun h => hr (Or.inl h))
      (fun h => hl (Or.inl h))
  cases op
  · exact cum .acm (by decide) _ (computeSimplex_acm_formula (Or.inl rfl) h1 h2)
  · exact cum .ecm (by decide) _ (computeSimplex_acm_formula (Or.inr rfl) h1 h2)
  · show _ = (⟨liftT (if GDog f u1 then (b1, u1) else if GDog f u2 then (b2, u2)
        else (avgB b1 u1 b2 u2, avgU u1 u2)).1, XQ.fin (if GDog f u1 then (b1, u1)
        else if GDog f u2 then (b2, u2) else (avgB b1 u1 b2 u2, avgU u1 u2)).2⟩ : Simplex (XQ f) n)
    by_cases d1 : GDog f u1
    · rw [if_pos d1]; exact computeSimplex_avg_left _ _ d1 (fun d2 => hd ⟨d1, d2⟩)
    rw [if_neg d1]
    by_cases d2 : GDog f u2
    · rw [if_pos d2]; exact computeSimplex_avg_right _ _ d1 d2
    rw [if_neg d2]
    exact computeSimplex_avg_formula h1 h2 d1 d2
  · exact cum .wgh (by decide) _ (computeSimplex_wgh_formula h1 h2)

/-! ### closed forms of the base rate -/

namespace FuseQ

/-- arithmetic mean of two tables -/
def meanA (a1 a2 : Fin n → ℚ) (i : Fin n) : ℚ := (a1 i + a2 i) / 2

/-- ACm / ECm base-rate formula: weights `u2 (1-u1)` and `u1 (1-u2)` -/
def acmA (a1 : Fin n → ℚ) (u1 : ℚ) (a2 : Fin n → ℚ) (u2 : ℚ) (i : Fin n) : ℚ :=
  (a1 i * u2 * (1 - u1) + a2 i * u1 * (1 - u2)) / (u2 * (1 - u1) + u1 * (1 - u2))

/-- Wgh base-rate formula: weights `1-u1` and `1-u2` -/
def wghA (a1 : Fin n → ℚ) (u1 : ℚ) (a2 : Fin n → ℚ) (u2 : ℚ) (i : Fin n) : ℚ :=
  (a1 i * (1 - u1) + a2 i * (1 - u2)) / ((1 - u1) + (1 - u2))

/-- entry `i` takes the per-entry shortcut of `compute_base_rate`: since repair c8a7116 the exact test
    `lhs.base_rate[i] == rhs.base_rate[i]` (before: `ulps_eq!`, true for any two entries at most ε apart).
    The format argument is kept for the signatures of the lemmas below; the test does not depend on it. -/
def sc (_f : Fmt) (a1 a2 : Fin n → ℚ) (i : Fin n) : Bool := decide (a1 i = a2 i)

/-- per-entry shortcut: the (common) entry where the two entries are equal, the formula `g` elsewhere -/
def short (f : Fmt) (a1 a2 g : Fin n → ℚ) (i : Fin n) : ℚ := if sc f a1 a2 i then a1 i else g i

/-- the guard ladder of `compute_base_rate` on rational data -/
def baseRateQ (f : Fmt) (op : FuseOp) (same : Bool) (a1 : Fin n → ℚ) (u1 : ℚ) (a2 : Fin n → ℚ)
    (u2 : ℚ) : Fin n → ℚ :=
  if same then a1
  else if GDog f u1 ∧ GDog f u2 then meanA a1 a2
  else match op with
    | .acm | .ecm =>
      if GVac f u1 ∧ GVac f u2 then short f a1 a2 (meanA a1 a2)
      else if GVac f u1 ∨ GDog f u2 then a2
      else if GVac f u2 ∨ GDog f u1 then a1
      else short f a1 a2 (acmA a1 u1 a2 u2)
    | .avg => short f a1 a2 (meanA a1 a2)
    | .wgh =>
      if GVac f u1 ∧ GVac f u2 then short f a1 a2 (meanA a1 a2)
      else if GVac f u1 then a2
      else if GVac f u2 then a1
      else short f a1 a2 (wghA a1 u1 a2 u2)

end FuseQ

/-- `ulps_eq!` is reflexive on finite values -/
theorem XQ.ulpsEq_refl (x : ℚ) : XQ.ulpsEq (XQ.fin x : XQ f) (XQ.fin x) = true := by
  have := XQ.eps_pos f
  simp [XQ.ulpsEq, XQ.absQ, this.le]

theorem FuseQ.sc_iff {a1 a2 : Fin n → ℚ} {i : Fin n} : sc f a1 a2 i = true ↔ a1 i = a2 i := by
  unfold sc; exact decide_eq_true_iff

/-- THE SHORTCUT IS ONLY TAKEN AT EQUAL ENTRIES (since repair c8a7116, by construction; with `ulps_eq!` this was a
    hypothesis of the sum / commutativity / evidence-space theorems) -/
theorem FuseQ.hsc (a1 a2 : Fin n → ℚ) : ∀ i, sc f a1 a2 i = true → a1 i = a2 i := fun _ => sc_iff.mp

theorem FuseQ.sc_of_eq {a1 a2 : Fin n → ℚ} {i : Fin n} (h : a1 i = a2 i) : sc f a1 a2 i = true := sc_iff.mpr h

theorem FuseQ.sc_self (a : Fin n → ℚ) (i : Fin n) : sc f a a i = true := sc_of_eq rfl

/-- equal entries are returned unchanged by the shortcut, whatever the formula -/
theorem FuseQ.short_of_eq {a1 a2 : Fin n → ℚ} (g : Fin n → ℚ) {i : Fin n} (h : a1 i = a2 i) :
    short f a1 a2 g i = a1 i := by
  unfold short; rw [sc_of_eq h, if_pos rfl]

theorem brEntry_fin (x y z : ℚ) :
    brEntry (XQ.fin x : XQ f) (XQ.fin y) (XQ.fin z) = XQ.fin (if decide (x = y) then x else z) := by
  unfold brEntry
  rw [XQ.eq_fin]
  split <;> rfl

theorem brEntry_liftT (a1 a2 g : Fin n → ℚ) :
    (Vector.ofFn fun i : Fin n => brEntry (XQ.fin (a1 i) : XQ f) (XQ.fin (a2 i)) (XQ.fin (g i)))
      = liftT (short f a1 a2 g) := by
  apply Vector.ext; intro i hi
  rw [Vector.getElem_ofFn, liftT_getElem', brEntry_fin]; rfl

/-! ### `compute_base_rate`, arm by arm (`bl`, `br` arbitrary belief tables) -/

/-- shared base-rate object: returned unchanged -/
theorem computeBaseRate_same {α : Type} [Scalar α] (op : FuseOp) (l r : Opinion α n) :
    computeBaseRate op true l r = l.a := by
  unfold computeBaseRate; simp

/-- both guard-dogmatic (every operator): plain arithmetic mean, no `ulps_eq!` shortcut -/
theorem computeBaseRate_both_dog (op : FuseOp) (bl br : Tab (XQ f) n) (a1 a2 : Fin n → ℚ) {u1 u2 : ℚ}
    (d1 : GDog f u1) (d2 : GDog f u2) :
    computeBaseRate op false (⟨bl, XQ.fin u1, liftT a1⟩ : Opinion (XQ f) n) ⟨br, XQ.fin u2, liftT a2⟩
      = liftT (meanA a1 a2) := by
  unfold computeBaseRate
  simp only [Opinion.isDogmatic_lift, d1, d2, decide_true, Bool.and_self, if_true, Bool.false_eq_true,
    if_false, liftT_getElem, XQ.add_fin, XQ.two_def, XQ.div_fin _ _ (two_ne_zero)]
  rfl

/-- the mean arm with shortcut: Avg (not both dogmatic) -/
theorem computeBaseRate_avg (bl br : Tab (XQ f) n) (a1 a2 : Fin n → ℚ) {u1 u2 : ℚ}
    (hnd : ¬ (GDog f u1 ∧ GDog f u2)) :
    computeBaseRate .avg false (⟨bl, XQ.fin u1, liftT a1⟩ : Opinion (XQ f) n) ⟨br, XQ.fin u2, liftT a2⟩
      = liftT (short f a1 a2 (meanA a1 a2)) := by
  unfold computeBaseRate
  simp only [Opinion.isDogmatic_lift, ← Bool.decide_and, hnd, decide_false, Bool.false_eq_true,
    if_false, liftT_getElem, XQ.add_fin, XQ.two_def, XQ.div_fin _ _ (two_ne_zero)]
  exact brEntry_liftT a1 a2 (meanA a1 a2)

/-- ACm / ECm / Wgh, both guard-vacuous: mean with shortcut -/
theorem computeBaseRate_both_vac {op : FuseOp} (hop : op ≠ .avg) (bl br : Tab (XQ f) n)
    (a1 a2 : Fin n → ℚ) {u1 u2 : ℚ} (v1 : GVac f u1) (v2 : GVac f u2) :
    computeBaseRate op false (⟨bl, XQ.fin u1, liftT a1⟩ : Opinion (XQ f) n) ⟨br, XQ.fin u2, liftT a2⟩
      = liftT (short f a1 a2 (meanA a1 a2)) := by
  have nd1 : ¬ GDog f u1 := fun d => d.not_GVac v1
  cases op <;> first | exact absurd rfl hop | skip
  all_goals
    unfold computeBaseRate
    simp only [Opinion.isDogmatic_lift, Opinion.isVacuous_lift, nd1, v1, v2, decide_false, decide_true,
      Bool.false_and, Bool.and_self, Bool.false_eq_true, if_false, if_true,
      liftT_getElem, XQ.add_fin, XQ.two_def, XQ.div_fin _ _ (two_ne_zero)]
    exact brEntry_liftT a1 a2 (meanA a1 a2)

/-- ACm / ECm, left guard-vacuous or right guard-dogmatic: the right base rate -/
theorem computeBaseRate_acm_right {op : FuseOp} (hop : op = .acm ∨ op = .ecm) (bl br : Tab (XQ f) n)
    (al ar : Tab (XQ f) n) {u1 u2 : ℚ}
    (hnd : ¬ (GDog f u1 ∧ GDog f u2)) (hnv : ¬ (GVac f u1 ∧ GVac f u2)) (h : GVac f u1 ∨ GDog f u2) :
    computeBaseRate op false (⟨bl, XQ.fin u1, al⟩ : Opinion (XQ f) n) ⟨br, XQ.fin u2, ar⟩ = ar := by
  rcases hop with rfl | rfl <;>
  · unfold computeBaseRate
    simp only [Opinion.isDogmatic_lift, Opinion.isVacuous_lift, ← Bool.decide_and, ← Bool.decide_or,
      hnd, hnv, h, decide_false, decide_true, Bool.false_eq_true, if_false, if_true]

/-- ACm / ECm, right guard-vacuous or left guard-dogmatic (previous arms not taken): the left base rate -/
theorem computeBaseRate_acm_left {op : FuseOp} (hop : op = .acm ∨ op = .ecm) (bl br : Tab (XQ f) n)
    (al ar : Tab (XQ f) n) {u1 u2 : ℚ}
    (hnd : ¬ (GDog f u1 ∧ GDog f u2)) (hnv : ¬ (GVac f u1 ∧ GVac f u2))
    (hnr : ¬ (GVac f u1 ∨ GDog f u2)) (h : GVac f u2 ∨ GDog f u1) :
    computeBaseRate op false (⟨bl, XQ.fin u1, al⟩ : Opinion (XQ f) n) ⟨br, XQ.fin u2, ar⟩ = al := by
  rcases hop with rfl | rfl <;>
  · unfold computeBaseRate
    simp only [Opinion.isDogmatic_lift, Opinion.isVacuous_lift, ← Bool.decide_and, ← Bool.decide_or,
      hnd, hnv, hnr, h, decide_false, decide_true, Bool.false_eq_true, if_false, if_true]

/-- ACm / ECm formula arm (neither operand guard-vacuous nor guard-dogmatic), with the shortcut -/
theorem computeBaseRate_acm_formula {op : FuseOp} (hop : op = .acm ∨ op = .ecm) (bl br : Tab (XQ f) n)
    (a1 a2 : Fin n → ℚ) {u1 u2 : ℚ} (h10 : 0 ≤ u1) (h11 : u1 ≤ 1) (h20 : 0 ≤ u2) (h21 : u2 ≤ 1)
    (nd1 : ¬ GDog f u1) (nd2 : ¬ GDog f u2) (nv1 : ¬ GVac f u1) (nv2 : ¬ GVac f u2) :
    computeBaseRate op false (⟨bl, XQ.fin u1, liftT a1⟩ : Opinion (XQ f) n) ⟨br, XQ.fin u2, liftT a2⟩
      = liftT (short f a1 a2 (acmA a1 u1 a2 u2)) := by
  have he := XQ.eps_pos f
  have p2 := pos_of_not_GDog h20 nd2
  have l1 := lt_of_not_GVac h11 nv1
  have ht : u2 * (1 - u1) + u1 * (1 - u2) ≠ 0 :=
    ne_of_gt (wgh_temp_pos (by linarith) h10 (by linarith) h21)
  rcases hop with rfl | rfl <;>
  · unfold computeBaseRate
    simp only [Opinion.isDogmatic_lift, Opinion.isVacuous_lift, nd1, nd2, nv1, nv2, decide_false,
      Bool.and_false, Bool.or_false, Bool.false_eq_true, if_false, liftT_getElem, XQ.add_fin,
      XQ.sub_fin, XQ.one_def, XQ.mul_fin, XQ.div_fin _ _ ht]
    exact brEntry_liftT a1 a2 (acmA a1 u1 a2 u2)

/-- Wgh, left guard-vacuous (right not): the right base rate -/
theorem computeBaseRate_wgh_right (bl br : Tab (XQ f) n) (al ar : Tab (XQ f) n) {u1 u2 : ℚ}
    (hnd : ¬ (GDog f u1 ∧ GDog f u2)) (v1 : GVac f u1) (nv2 : ¬ GVac f u2) :
    computeBaseRate .wgh false (⟨bl, XQ.fin u1, al⟩ : Opinion (XQ f) n) ⟨br, XQ.fin u2, ar⟩ = ar := by
  unfold computeBaseRate
  simp only [Opinion.isDogmatic_lift, Opinion.isVacuous_lift, ← Bool.decide_and,
    hnd, v1, nv2, Bool.and_false, decide_false, decide_true, Bool.false_eq_true, if_false, if_true]

/-- Wgh, right guard-vacuous (left not): the left base rate -/
theorem computeBaseRate_wgh_left (bl br : Tab (XQ f) n) (al ar : Tab (XQ f) n) {u1 u2 : ℚ}
    (hnd : ¬ (GDog f u1 ∧ GDog f u2)) (nv1 : ¬ GVac f u1) (v2 : GVac f u2) :
    computeBaseRate .wgh false (⟨bl, XQ.fin u1, al⟩ : Opinion (XQ f) n) ⟨br, XQ.fin u2, ar⟩ = al := by
  unfold computeBaseRate
  simp only [Opinion.isDogmatic_lift, Opinion.isVacuous_lift, ← Bool.decide_and,
    hnd, nv1, v2, Bool.false_and, decide_false, decide_true, Bool.false_eq_true, if_false, if_true]

/-- Wgh formula arm (not both guard-dogmatic, neither guard-vacuous; ONE dogmatic operand lands here) -/
theorem computeBaseRate_wgh_formula (bl br : Tab (XQ f) n)
    (a1 a2 : Fin n → ℚ) {u1 u2 : ℚ} (h11 : u1 ≤ 1) (h21 : u2 ≤ 1)
    (hnd : ¬ (GDog f u1 ∧ GDog f u2)) (nv1 : ¬ GVac f u1) (nv2 : ¬ GVac f u2) :
    computeBaseRate .wgh false (⟨bl, XQ.fin u1, liftT a1⟩ : Opinion (XQ f) n) ⟨br, XQ.fin u2, liftT a2⟩
      = liftT (short f a1 a2 (wghA a1 u1 a2 u2)) := by
  have he := XQ.eps_pos f
  have l1 := lt_of_not_GVac h11 nv1
  have l2 := lt_of_not_GVac h21 nv2
  have ht : (1 - u1) + (1 - u2) ≠ 0 := ne_of_gt (by linarith)
  unfold computeBaseRate
  simp only [Opinion.isDogmatic_lift, Opinion.isVacuous_lift, ← Bool.decide_and, hnd, nv1, nv2,
    Bool.and_false, decide_false,
    Bool.false_eq_true, if_false, liftT_getElem, XQ.add_fin,
    XQ.sub_fin, XQ.one_def, XQ.mul_fin, XQ.div_fin _ _ ht]
  exact brEntry_liftT a1 a2 (wghA a1 u1 a2 u2)

/-- `compute_base_rate` on lifted operands with `u1, u2 ∈ [0,1]`, all arms at once: the rational guard
    ladder `FuseQ.baseRateQ`.  Every entry of the result is finite. -/
theorem computeBaseRate_lift (op : FuseOp) (same : Bool) (bl br : Tab (XQ f) n) (a1 a2 : Fin n → ℚ)
    {u1 u2 : ℚ} (h10 : 0 ≤ u1) (h11 : u1 ≤ 1) (h20 : 0 ≤ u2) (h21 : u2 ≤ 1) :
    computeBaseRate op same (⟨bl, XQ.fin u1, liftT a1⟩ : Opinion (XQ f) n) ⟨br, XQ.fin u2, liftT a2⟩
      = liftT (baseRateQ f op same a1 u1 a2 u2) := by
  unfold baseRateQ
  cases same
  · simp only [Bool.false_eq_true, if_false]
    by_cases hd : GDog f u1 ∧ GDog f u2
    · rw [if_pos hd]; exact computeBaseRate_both_dog op _ _ a1 a2 hd.1 hd.2
    rw [if_neg hd]
    have cum : ∀ op : FuseOp, (op = .acm ∨ op = .ecm) →
        computeBaseRate op false (⟨bl, XQ.fin u1, liftT a1⟩ : Opinion (XQ f) n)
            ⟨br, XQ.fin u2, liftT a2⟩
          = liftT (if GVac f u1 ∧ GVac f u2 then short f a1 a2 (meanA a1 a2)
              else if GVac f u1 ∨ GDog f u2 then a2
              else if GVac f u2 ∨ GDog f u1 then a1
              else short f a1 a2 (acmA a1 u1 a2 u2)) := by
      intro op hop
      have hop' : op ≠ .avg := by rcases hop with rfl | rfl <;> decide
      by_cases hv : GVac f u1 ∧ GVac f u2
      · rw [if_pos hv]; exact computeBaseRate_both_vac hop' _ _ a1 a2 hv.1 hv.2
      rw [if_neg hv]
      by_cases hr : GVac f u1 ∨ GDog f u2
      · rw [if_pos hr]; exact computeBaseRate_acm_right hop _ _ _ _ hd hv hr
      rw [if_neg hr]
      by_cases hl : GVac f u2 ∨ GDog f u1
      · rw [if_pos hl]; exact computeBaseRate_acm_left hop _ _ _ _ hd hv hr hl
      rw [if_neg hl]
      exact computeBaseRate_acm_formula hop _ _ a1 a2 h10 h11 h20 h21 (fun h => hl (Or.inr h))
        (fun h => hr (Or.inr h)) (fun h => hr (Or.inl h)) (fun h => hl (Or.inl h))
    cases op
    · exact cum .acm (Or.inl rfl)
    · exact cum .ecm (Or.inr rfl)
    · exact computeBaseRate_avg _ _ a1 a2 hd
    · show _ = liftT (if GVac f u1 ∧ GVac f u2 then short f a1 a2 (meanA a1 a2)
              else if GVac f u1 then a2 else if GVac f u2 then a1
              else short f a1 a2 (wghA a1 u1 a2 u2))
      by_cases hv : GVac f u1 ∧ GVac f u2
      · rw [if_pos hv]; exact computeBaseRate_both_vac (by decide) _ _ a1 a2 hv.1 hv.2
      rw [if_neg hv]
      by_cases v1 : GVac f u1
      · rw [if_pos v1]; exact computeBaseRate_wgh_right _ _ _ _ hd v1 (fun v2 => hv ⟨v1, v2⟩)
      rw [if_neg v1]
      by_cases v2 : GVac f u2
      · rw [if_pos v2]; exact computeBaseRate_wgh_left _ _ _ _ hd v1 v2
      rw [if_neg v2]
      exact computeBaseRate_wgh_formula _ _ a1 a2 h11 h21 hd v1 v2
  · simp only [if_true]; exact computeBaseRate_same op _ _

/-! ### algebra of the belief closed forms -/

theorem dog_swf {b1 b2 : Fin n → ℚ} {u1 u2 : ℚ} (h1 : SWF b1 u1) (h2 : SWF b2 u2)
    (hs : 0 < (2 - u1 - u2) / 2) : SWF (dogB b1 u1 b2 u2) 0 := by
  refine ⟨fun i => ?_, le_refl _, ?_⟩
  · unfold dogB
    exact div_nonneg (div_nonneg (add_nonneg (h1.hb i) (h2.hb i)) (by norm_num)) hs.le
  · unfold dogB
    rw [← Finset.sum_div, add_zero, ← add_zero (∑ i, (b1 i + b2 i) / 2), dog_sum h1 h2]
    exact div_self (ne_of_gt hs)

theorem acm_swf {b1 b2 : Fin n → ℚ} {u1 u2 : ℚ} (h1 : SWF b1 u1) (h2 : SWF b2 u2)
    (ht : 0 < u1 + u2 - u1 * u2) : SWF (acmB b1 u1 b2 u2) (acmU u1 u2) :=
  ⟨fun i => div_nonneg (add_nonneg (mul_nonneg (h1.hb i) h2.hu) (mul_nonneg (h2.hb i) h1.hu)) ht.le,
    div_nonneg (mul_nonneg h1.hu h2.hu) ht.le, acm_sum h1 h2 (ne_of_gt ht)⟩

theorem avg_swf {b1 b2 : Fin n → ℚ} {u1 u2 : ℚ} (h1 : SWF b1 u1) (h2 : SWF b2 u2)
    (ht : 0 < u1 + u2) : SWF (avgB b1 u1 b2 u2) (avgU u1 u2) :=
  ⟨fun i => div_nonneg (add_nonneg (mul_nonneg (h1.hb i) h2.hu) (mul_nonneg (h2.hb i) h1.hu)) ht.le,
    div_nonneg (mul_nonneg (mul_nonneg (by norm_num) h1.hu) h2.hu) ht.le, avg_sum h1 h2 (ne_of_gt ht)⟩

theorem wgh_swf {b1 b2 : Fin n → ℚ} {u1 u2 : ℚ} (h1 : SWF b1 u1) (h2 : SWF b2 u2)
    (ht : 0 < u2 * (1 - u1) + u1 * (1 - u2)) : SWF (wghB b1 u1 b2 u2) (wghU u1 u2) := by
  have c1 := sub_nonneg.mpr h1.u_le_one
  have c2 := sub_nonneg.mpr h2.u_le_one
  exact ⟨fun i => div_nonneg (add_nonneg (mul_nonneg (mul_nonneg (h1.hb i) c1) h2.hu)
      (mul_nonneg (mul_nonneg (h2.hb i) c2) h1.hu)) ht.le,
    div_nonneg (mul_nonneg (mul_nonneg (add_nonneg c1 c2) h1.hu) h2.hu) ht.le,
    wgh_sum h1 h2 (ne_of_gt ht)⟩

/-- the rational ladder of `compute_simlex` maps well-formed simplexes to a well-formed simplex,
    in every arm (tolerance bands included) -/
theorem simplexQ_swf (f : Fmt) (op : FuseOp) {b1 b2 : Fin n → ℚ} {u1 u2 : ℚ} (h1 : SWF b1 u1)
    (h2 : SWF b2 u2) : SWF (simplexQ f op b1 u1 b2 u2).1 (simplexQ f op b1 u1 b2 u2).2 := by
  have he := XQ.eps_pos f
  have he' := XQ.eps_lt f
  unfold simplexQ
  by_cases hd : GDog f u1 ∧ GDog f u2
  · rw [if_pos hd]
    have := (abs_le.mp hd.1).2; have := (abs_le.mp hd.2).2
    exact dog_swf h1 h2 (by linarith)
  rw [if_neg hd]
  have cum : ∀ F : (Fin n → ℚ) × ℚ,
      (¬ GDog f u1 → ¬ GDog f u2 → ¬ GVac f u1 → ¬ GVac f u2 → SWF F.1 F.2) →
      SWF (if GVac f u1 ∧ GVac f u2 then ((fun _ => 0 : Fin n → ℚ), (1 : ℚ))
            else if GVac f u1 ∨ GDog f u2 then (b2, u2)
            else if GVac f u2 ∨ GDog f u1 then (b1, u1) else F).1
          (if GVac f u1 ∧ GVac f u2 then ((fun _ => 0 : Fin n → ℚ), (1 : ℚ))
            else if GVac f u1 ∨ GDog f u2 then (b2, u2)
            else if GVac f u2 ∨ GDog f u1 then (b1, u1) else F).2 := by
    intro F hF
    split_ifs with hv hr hl
    · exact SWF.vacuous
    · exact h2
    · exact h1
    · exact hF (fun h => hl (Or.inr h)) (fun h => hr (Or.inr h)) (fun h => hr (Or.inl h))
        (fun h => hl (Or.inl h))
  cases op
  · exact cum _ fun nd1 _ _ _ => acm_swf h1 h2
      (acm_temp_pos (by linarith [pos_of_not_GDog h1.hu nd1]) h1.u_le_one h2.hu)
  · exact cum _ fun nd1 _ _ _ => acm_swf h1 h2
      (acm_temp_pos (by linarith [pos_of_not_GDog h1.hu nd1]) h1.u_le_one h2.hu)
  · show SWF (if GDog f u1 then (b1, u1) else if GDog f u2 then (b2, u2)
        else (avgB b1 u1 b2 u2, avgU u1 u2)).1 (if GDog f u1 then (b1, u1)
        else if GDog f u2 then (b2, u2) else (avgB b1 u1 b2 u2, avgU u1 u2)).2
    split_ifs with d1 d2
    · exact h1
    · exact h2
    · exact avg_swf h1 h2 (by linarith [pos_of_not_GDog h1.hu d1, h2.hu])
  · exact cum _ fun _ nd2 nv1 _ => wgh_swf h1 h2
      (wgh_temp_pos (by linarith [lt_of_not_GVac h1.u_le_one nv1]) h1.hu
        (by linarith [pos_of_not_GDog h2.hu nd2]) h2.u_le_one)

/-! ### algebra of the base-rate closed forms -/

/-- a convex combination lies between its arguments -/
theorem convex_between {x y w1 w2 : ℚ} (h1 : 0 ≤ w1) (h2 : 0 ≤ w2) (h : 0 < w1 + w2) :
    min x y ≤ (x * w1 + y * w2) / (w1 + w2) ∧ (x * w1 + y * w2) / (w1 + w2) ≤ max x y := by
  constructor
  · rw [le_div_iff₀ h]
    nlinarith [mul_le_mul_of_nonneg_right (min_le_left x y) h1,
      mul_le_mul_of_nonneg_right (min_le_right x y) h2]
  · rw [div_le_iff₀ h]
    nlinarith [mul_le_mul_of_nonneg_right (le_max_left x y) h1,
      mul_le_mul_of_nonneg_right (le_max_right x y) h2]

theorem meanA_eq (a1 a2 : Fin n → ℚ) (i : Fin n) :
    meanA a1 a2 i = (a1 i * 1 + a2 i * 1) / (1 + 1) := by unfold meanA; ring

theorem acmA_eq (a1 a2 : Fin n → ℚ) (u1 u2 : ℚ) (i : Fin n) :
    acmA a1 u1 a2 u2 i
      = (a1 i * (u2 * (1 - u1)) + a2 i * (u1 * (1 - u2))) / (u2 * (1 - u1) + u1 * (1 - u2)) := by
  unfold acmA; ring

/-- weights of the three base-rate formulas: non-negative with positive sum -/
structure Weights (w1 w2 : ℚ) : Prop where
  h1 : 0 ≤ w1
  h2 : 0 ≤ w2
  hs : 0 < w1 + w2

/-- `g` is entrywise the convex combination of `a1`, `a2` with weights `w1`, `w2` -/
def IsMix (a1 a2 g : Fin n → ℚ) (w1 w2 : ℚ) : Prop :=
  ∀ i, g i = (a1 i * w1 + a2 i * w2) / (w1 + w2)

theorem isMix_mean (a1 a2 : Fin n → ℚ) : IsMix a1 a2 (meanA a1 a2) 1 1 := meanA_eq a1 a2
theorem isMix_acm (a1 a2 : Fin n → ℚ) (u1 u2 : ℚ) :
    IsMix a1 a2 (acmA a1 u1 a2 u2) (u2 * (1 - u1)) (u1 * (1 - u2)) := acmA_eq a1 a2 u1 u2
theorem isMix_wgh (a1 a2 : Fin n → ℚ) (u1 u2 : ℚ) :
    IsMix a1 a2 (wghA a1 u1 a2 u2) (1 - u1) (1 - u2) := fun _ => rfl

theorem weights_mean : Weights 1 1 := ⟨zero_le_one, zero_le_one, by norm_num⟩

theorem IsMix.between {a1 a2 g : Fin n → ℚ} {w1 w2 : ℚ} (hm : IsMix a1 a2 g w1 w2)
    (hw : Weights w1 w2) (i : Fin n) : min (a1 i) (a2 i) ≤ g i ∧ g i ≤ max (a1 i) (a2 i) := by
  rw [hm i]; exact convex_between hw.h1 hw.h2 hw.hs

theorem IsMix.of_eq {a1 a2 g : Fin n → ℚ} {w1 w2 : ℚ} (hm : IsMix a1 a2 g w1 w2)
    (hw : Weights w1 w2) {i : Fin n} (h : a1 i = a2 i) : g i = a1 i := by
  rw [hm i, ← h, ← mul_add, mul_div_assoc, div_self (ne_of_gt hw.hs), mul_one]

theorem IsMix.sum {a1 a2 g : Fin n → ℚ} {w1 w2 : ℚ} (hm : IsMix a1 a2 g w1 w2)
    (hw : Weights w1 w2) (s1 : ∑ i, a1 i = 1) (s2 : ∑ i, a2 i = 1) : ∑ i, g i = 1 := by
  have : g = fun i => (a1 i * w1 + a2 i * w2) / (w1 + w2) := funext hm
  rw [this, ← Finset.sum_div, Finset.sum_add_distrib, ← Finset.sum_mul, ← Finset.sum_mul, s1, s2,
    one_mul, one_mul, div_self (ne_of_gt hw.hs)]

theorem short_between {a1 a2 g : Fin n → ℚ}
    (hg : ∀ i, min (a1 i) (a2 i) ≤ g i ∧ g i ≤ max (a1 i) (a2 i)) (i : Fin n) :
    min (a1 i) (a2 i) ≤ short f a1 a2 g i ∧ short f a1 a2 g i ≤ max (a1 i) (a2 i) := by
  unfold short; split
  · exact ⟨min_le_left _ _, le_max_left _ _⟩
  · exact hg i

/-- if the shortcut is only taken at equal entries (and the formula returns equal entries unchanged),
    it is invisible -/
theorem short_eq_of_agree {a1 a2 g : Fin n → ℚ} (hsc : ∀ i, sc f a1 a2 i = true → a1 i = a2 i)
    (hg : ∀ i, a1 i = a2 i → g i = a1 i) : short f a1 a2 g = g := by
  funext i; unfold short; split
  · exact (hg i (hsc i ‹_›)).symm
  · rfl

/-- the shortcut is invisible whenever the formula returns equal entries unchanged (every weighted mean does) -/
theorem short_eq {a1 a2 g : Fin n → ℚ} (hg : ∀ i, a1 i = a2 i → g i = a1 i) : short f a1 a2 g = g :=
  short_eq_of_agree (FuseQ.hsc a1 a2) hg

/-- each shortcut entry replaces a value between `a1 i` and `a2 i` by `a1 i` -/
theorem short_sum_bound {a1 a2 g : Fin n → ℚ}
    (hg : ∀ i, min (a1 i) (a2 i) ≤ g i ∧ g i ≤ max (a1 i) (a2 i)) (hs : ∑ i, g i = 1) :
    |∑ i, short f a1 a2 g i - 1| ≤ ∑ i, if sc f a1 a2 i then |a1 i - a2 i| else 0 := by
  rw [← hs, ← Finset.sum_sub_distrib]
  refine le_trans (Finset.abs_sum_le_sum_abs _ _) (Finset.sum_le_sum fun i _ => ?_)
  unfold short; split
  · obtain ⟨l, r⟩ := hg i
    rw [abs_le]
    rcases le_total (a1 i) (a2 i) with h | h
    · rw [min_eq_left h] at l; rw [max_eq_right h] at r
      rw [abs_of_nonpos (sub_nonpos.mpr h)]; constructor <;> linarith
    · rw [min_eq_right h] at l; rw [max_eq_left h] at r
      rw [abs_of_nonneg (sub_nonneg.mpr h)]; constructor <;> linarith
  · simp

theorem baseRateQ_same (f : Fmt) (op : FuseOp) (a1 a2 : Fin n → ℚ) (u1 u2 : ℚ) :
    baseRateQ f op true a1 u1 a2 u2 = a1 := by
  unfold baseRateQ; simp only [if_true]

theorem isMix_left (a1 a2 : Fin n → ℚ) : IsMix a1 a2 a1 1 0 := fun i => by simp
theorem isMix_right (a1 a2 : Fin n → ℚ) : IsMix a1 a2 a2 0 1 := fun i => by simp
theorem weights_left : Weights 1 0 := ⟨zero_le_one, le_refl _, by norm_num⟩
theorem weights_right : Weights 0 1 := ⟨le_refl _, zero_le_one, by norm_num⟩

/-- shape of the fused base rate, all arms: a convex mixture `g` of the operands' base rates with
    non-negative weights (clones are the weights (1,0) / (0,1)), possibly with the per-entry shortcut -/
theorem baseRateQ_shape (f : Fmt) (op : FuseOp) (same : Bool) (a1 a2 : Fin n → ℚ) {u1 u2 : ℚ}
    (h10 : 0 ≤ u1) (h11 : u1 ≤ 1) (h20 : 0 ≤ u2) (h21 : u2 ≤ 1) :
    ∃ (g : Fin n → ℚ) (w1 w2 : ℚ), IsMix a1 a2 g w1 w2 ∧ Weights w1 w2 ∧
      (baseRateQ f op same a1 u1 a2 u2 = g ∨
        (baseRateQ f op same a1 u1 a2 u2 = short f a1 a2 g ∧ 0 < w1)) := by
  have he := XQ.eps_pos f
  have L : ∃ (g : Fin n → ℚ) (w1 w2 : ℚ), IsMix a1 a2 g w1 w2 ∧ Weights w1 w2 ∧
      (a1 = g ∨ (a1 = short f a1 a2 g ∧ 0 < w1)) := ⟨a1, 1, 0, isMix_left a1 a2, weights_left, Or.inl rfl⟩
  have R : ∃ (g : Fin n → ℚ) (w1 w2 : ℚ), IsMix a1 a2 g w1 w2 ∧ Weights w1 w2 ∧
      (a2 = g ∨ (a2 = short f a1 a2 g ∧ 0 < w1)) := ⟨a2, 0, 1, isMix_right a1 a2, weights_right, Or.inl rfl⟩
  have M : ∃ (g : Fin n → ℚ) (w1 w2 : ℚ), IsMix a1 a2 g w1 w2 ∧ Weights w1 w2 ∧
      (short f a1 a2 (meanA a1 a2) = g ∨
        (short f a1 a2 (meanA a1 a2) = short f a1 a2 g ∧ 0 < w1)) :=
    ⟨_, 1, 1, isMix_mean a1 a2, weights_mean, Or.inr ⟨rfl, one_pos⟩⟩
  have A : ¬ GDog f u1 → ¬ GDog f u2 → ¬ GVac f u1 → ¬ GVac f u2 →
      ∃ (g : Fin n → ℚ) (w1 w2 : ℚ), IsMix a1 a2 g w1 w2 ∧ Weights w1 w2 ∧
      (short f a1 a2 (acmA a1 u1 a2 u2) = g ∨
        (short f a1 a2 (acmA a1 u1 a2 u2) = short f a1 a2 g ∧ 0 < w1)) := by
    intro _ nd2 nv1 _
    have p2 := pos_of_not_GDog h20 nd2
    have l1 := lt_of_not_GVac h11 nv1
    exact ⟨_, _, _, isMix_acm a1 a2 u1 u2,
      ⟨mul_nonneg h20 (sub_nonneg.mpr h11), mul_nonneg h10 (sub_nonneg.mpr h21),
        wgh_temp_pos (by linarith) h10 (by linarith) h21⟩,
      Or.inr ⟨rfl, mul_pos (by linarith) (by linarith)⟩⟩
  unfold baseRateQ
  cases same
  · simp only [Bool.false_eq_true, if_false]
    by_cases hd : GDog f u1 ∧ GDog f u2
    · rw [if_pos hd]; exact ⟨_, 1, 1, isMix_mean a1 a2, weights_mean, Or.inl rfl⟩
    rw [if_neg hd]
    cases op
    · dsimp only
      split_ifs with hv hr hl
      · exact M
      · exact R
      · exact L
      · exact A (fun h => hl (Or.inr h)) (fun h => hr (Or.inr h)) (fun h => hr (Or.inl h))
          (fun h => hl (Or.inl h))
    · dsimp only
      split_ifs with hv hr hl
      · exact M
      · exact R
      · exact L
      · exact A (fun h => hl (Or.inr h)) (fun h => hr (Or.inr h)) (fun h => hr (Or.inl h))
          (fun h => hl (Or.inl h))
    · exact M
    · dsimp only
      split_ifs with hv v1 v2
      · exact M
      · exact R
      · exact L
      · have l1 := lt_of_not_GVac h11 v1
        have l2 := lt_of_not_GVac h21 v2
        exact ⟨_, _, _, isMix_wgh a1 a2 u1 u2, ⟨by linarith, by linarith, by linarith⟩,
          Or.inr ⟨rfl, by linarith⟩⟩
  · simp only [if_true]; exact L

/-- every fused base-rate entry lies between the operands' entries (all arms) -/
theorem baseRateQ_between (f : Fmt) (op : FuseOp) (same : Bool) (a1 a2 : Fin n → ℚ) {u1 u2 : ℚ}
    (h10 : 0 ≤ u1) (h11 : u1 ≤ 1) (h20 : 0 ≤ u2) (h21 : u2 ≤ 1) (i : Fin n) :
    min (a1 i) (a2 i) ≤ baseRateQ f op same a1 u1 a2 u2 i ∧
      baseRateQ f op same a1 u1 a2 u2 i ≤ max (a1 i) (a2 i) := by
  obtain ⟨g, w1, w2, hm, hw, h | ⟨h, _⟩⟩ := baseRateQ_shape f op same a1 a2 h10 h11 h20 h21 <;> rw [h]
  · exact hm.between hw i
  · exact short_between (hm.between hw) i

/-- an entry on which the operands agree is returned unchanged (all arms) -/
theorem baseRateQ_of_eq (f : Fmt) (op : FuseOp) (same : Bool) (a1 a2 : Fin n → ℚ) {u1 u2 : ℚ}
    (h10 : 0 ≤ u1) (h11 : u1 ≤ 1) (h20 : 0 ≤ u2) (h21 : u2 ≤ 1) {i : Fin n} (h : a1 i = a2 i) :
    baseRateQ f op same a1 u1 a2 u2 i = a1 i := by
  have := baseRateQ_between f op same a1 a2 h10 h11 h20 h21 i
  rw [← h, min_self, max_self] at this
  exact le_antisymm this.2 this.1

/-- the fused base rate sums to one (the shortcut is only taken at equal entries, where the weighted mean returns the
    common entry as well) -/
theorem baseRateQ_sum (f : Fmt) (op : FuseOp) (same : Bool) {a1 a2 : Fin n → ℚ} {u1 u2 : ℚ}
    (h10 : 0 ≤ u1) (h11 : u1 ≤ 1) (h20 : 0 ≤ u2) (h21 : u2 ≤ 1)
    (s1 : ∑ i, a1 i = 1) (s2 : ∑ i, a2 i = 1) :
    ∑ i, baseRateQ f op same a1 u1 a2 u2 i = 1 := by
  obtain ⟨g, w1, w2, hm, hw, h | ⟨h, _⟩⟩ := baseRateQ_shape f op same a1 a2 h10 h11 h20 h21 <;> rw [h]
  · exact hm.sum hw s1 s2
  · rw [short_eq (fun i => hm.of_eq hw)]; exact hm.sum hw s1 s2

/-- (kept from the `ulps_eq!` shortcut; now a consequence of `baseRateQ_sum`, the right-hand side being zero) the sum
    deviates from one by at most the total gap of the shortcut entries -/
theorem baseRateQ_sum_bound (f : Fmt) (op : FuseOp) (same : Bool) {a1 a2 : Fin n → ℚ} {u1 u2 : ℚ}
    (h10 : 0 ≤ u1) (h11 : u1 ≤ 1) (h20 : 0 ≤ u2) (h21 : u2 ≤ 1)
    (s1 : ∑ i, a1 i = 1) (s2 : ∑ i, a2 i = 1) :
    |∑ i, baseRateQ f op same a1 u1 a2 u2 i - 1| ≤ ∑ i, if sc f a1 a2 i then |a1 i - a2 i| else 0 := by
  obtain ⟨g, w1, w2, hm, hw, h | ⟨h, _⟩⟩ := baseRateQ_shape f op same a1 a2 h10 h11 h20 h21 <;> rw [h]
  · rw [hm.sum hw s1 s2, sub_self, abs_zero]
    exact Finset.sum_nonneg fun i _ => by split <;> simp
  · exact short_sum_bound (hm.between hw) (hm.sum hw s1 s2)

/-- entries of the fused base rate are non-negative when the operands' are -/
theorem baseRateQ_nonneg (f : Fmt) (op : FuseOp) (same : Bool) {a1 a2 : Fin n → ℚ} {u1 u2 : ℚ}
    (h10 : 0 ≤ u1) (h11 : u1 ≤ 1) (h20 : 0 ≤ u2) (h21 : u2 ≤ 1)
    (p1 : ∀ i, 0 ≤ a1 i) (p2 : ∀ i, 0 ≤ a2 i) (i : Fin n) : 0 ≤ baseRateQ f op same a1 u1 a2 u2 i :=
  le_trans (le_min (p1 i) (p2 i)) (baseRateQ_between f op same a1 a2 h10 h11 h20 h21 i).1

/-! ### `fuse` -/

theorem fuse_eq_of_ne_ecm {α : Type} [Scalar α] {op : FuseOp} (hop : op ≠ .ecm) (same : Bool)
    (l r : Opinion α n) :
    fuse op same l r = Opinion.mk' (computeSimplex op l.simplex r.simplex) (computeBaseRate op same l r) := by
  unfold fuse; simp only [if_neg hop]

theorem fuse_ecm_eq {α : Type} [Scalar α] (same : Bool) (l r : Opinion α n) :
    fuse .ecm same l r
      = Opinion.mk' ((computeSimplex .ecm l.simplex r.simplex).uncertaintyMaximized
          (computeBaseRate .ecm same l r)) (computeBaseRate .ecm same l r) := by
  unfold fuse; simp only [if_true]

/-- ACm / Avg / Wgh fusion of well-formed lifted opinions, all arms: the rational ladders.
    (The base rates `a1`, `a2` are arbitrary rational tables.) -/
theorem fuse_lift {op : FuseOp} (hop : op ≠ .ecm) (same : Bool) {b1 b2 : Fin n → ℚ} {u1 u2 : ℚ}
    (h1 : SWF b1 u1) (h2 : SWF b2 u2) (a1 a2 : Fin n → ℚ) :
    fuse op same (⟨liftT b1, XQ.fin u1, liftT a1⟩ : Opinion (XQ f) n) ⟨liftT b2, XQ.fin u2, liftT a2⟩
      = ⟨liftT (simplexQ f op b1 u1 b2 u2).1, XQ.fin (simplexQ f op b1 u1 b2 u2).2,
          liftT (baseRateQ f op same a1 u1 a2 u2)⟩ := by
  rw [fuse_eq_of_ne_ecm hop]
  unfold Opinion.simplex Opinion.mk'
  simp only [computeSimplex_lift op h1 h2,
    computeBaseRate_lift op same _ _ a1 a2 h1.hu h1.u_le_one h2.hu h2.u_le_one]

/-- the normalised projection `(b + a u) / Σ(b + a u)` -/
def FuseQ.projN (b a : Fin n → ℚ) (u : ℚ) (i : Fin n) : ℚ := (b i + a i * u) / ∑ j, (b j + a j * u)

/-- `max_uncertainty` over a base rate that need not sum to one -/
def FuseQ.uhatN (f : Fmt) (b a : Fin n → ℚ) (u : ℚ) : ℚ :=
  foldMin (fun i => if |a i| ≤ f.eps then 1 else projN b a u i / a i) 1

theorem projection_liftT_gen (b a : Fin n → ℚ) (u : ℚ) (hs : ∑ j, (b j + a j * u) ≠ 0) :
    SLV.projection (liftT b : Tab (XQ f) n) (XQ.fin u) (liftT a) = liftT (projN b a u) := by
  unfold SLV.projection normalizeProbDist
  have e : (Vector.ofFn fun i : Fin n => (liftT b : Tab (XQ f) n)[i] + (liftT a : Tab (XQ f) n)[i] * XQ.fin u)
      = liftT (fun i => b i + a i * u) := by
    apply Vector.ext; intro i hi; simp [liftT]
  rw [e, sumLoop_liftT]
  rw [liftT_map _ _ (fun q => q / ∑ j, (b j + a j * u)) (fun q => XQ.div_fin _ _ hs)]
  rfl

/-- the final normaliser of `uncertainty_maximized` (repairs f029db5, 8520ade): the masses `p - a û` clamped at
    zero, summed with `û`; `= 1 + û (1 - Σa)` when the clamp is idle, larger otherwise -/
def FuseQ.normN (f : Fmt) (b a : Fin n → ℚ) (u : ℚ) : ℚ :=
  ∑ i, max (projN b a u i - a i * uhatN f b a u) 0 + uhatN f b a u

theorem normN_ge {b a : Fin n → ℚ} {u : ℚ} (hs : ∑ j, (b j + a j * u) ≠ 0) :
    1 + uhatN f b a u * (1 - ∑ i, a i) ≤ normN f b a u :=
  SLV.Props.C09.normG_ge hs

theorem normN_eq {b a : Fin n → ℚ} {u : ℚ} (hs : ∑ j, (b j + a j * u) ≠ 0)
    (hnn : ∀ i, 0 ≤ projN b a u i - a i * uhatN f b a u) :
    normN f b a u = 1 + uhatN f b a u * (1 - ∑ i, a i) :=
  SLV.Props.C09.normG_eq hs hnn

theorem uhatN_le_normN (b a : Fin n → ℚ) (u : ℚ) : uhatN f b a u ≤ normN f b a u :=
  SLV.Props.C09.uhatG_le_normG b a u

/-- `uncertainty_maximized` on lifted data whose two normalisers (of the projection, and the final one) are
    non-zero: finite result -/
theorem uncertaintyMaximized_liftT_gen (b a : Fin n → ℚ) (u : ℚ) (hs : ∑ j, (b j + a j * u) ≠ 0)
    (hS : normN f b a u ≠ 0) :
    Simplex.uncertaintyMaximized (⟨liftT b, XQ.fin u⟩ : Simplex (XQ f) n) (liftT a)
      = ⟨liftT (fun i => max (projN b a u i - a i * uhatN f b a u) 0 / normN f b a u),
          XQ.fin (uhatN f b a u / normN f b a u)⟩ :=
  SLV.Props.C09.max_lift_gen b a u hs hS

/-- ECm fusion when the fused base rate is a probability distribution: the ACm ladder followed by the
    closed form of `uncertainty_maximized` (`C09.bmax`, `C09.uhat`) -/
theorem fuse_ecm_lift (same : Bool) {b1 b2 a1 a2 : Fin n → ℚ} {u1 u2 : ℚ}
    (h1 : SWF b1 u1) (h2 : SWF b2 u2)
    (hA0 : ∀ i, 0 ≤ baseRateQ f .ecm same a1 u1 a2 u2 i)
    (hA : ∑ i, baseRateQ f .ecm same a1 u1 a2 u2 i = 1)
    (hnn : ∀ i, 0 ≤ SLV.Props.C09.bmax f (simplexQ f .ecm b1 u1 b2 u2).1 (baseRateQ f .ecm same a1 u1 a2 u2)
      (simplexQ f .ecm b1 u1 b2 u2).2 i) :
    fuse .ecm same (⟨liftT b1, XQ.fin u1, liftT a1⟩ : Opinion (XQ f) n) ⟨liftT b2, XQ.fin u2, liftT a2⟩
      = ⟨liftT (SLV.Props.C09.bmax f (simplexQ f .ecm b1 u1 b2 u2).1 (baseRateQ f .ecm same a1 u1 a2 u2)
            (simplexQ f .ecm b1 u1 b2 u2).2),
          XQ.fin (SLV.Props.C09.uhat f (simplexQ f .ecm b1 u1 b2 u2).1 (baseRateQ f .ecm same a1 u1 a2 u2)
            (simplexQ f .ecm b1 u1 b2 u2).2),
          liftT (baseRateQ f .ecm same a1 u1 a2 u2)⟩ := by
  rw [fuse_ecm_eq]
  unfold Opinion.simplex Opinion.mk'
  simp only [computeSimplex_lift .ecm h1 h2,
    computeBaseRate_lift .ecm same _ _ a1 a2 h1.hu h1.u_le_one h2.hu h2.u_le_one,
    SLV.Props.C09.C09_max_lift ((simplexQ_swf f .ecm h1 h2).toWF hA0 hA) hnn]

/-- the fused base rate never vanishes entirely (operands' base rates are distributions) -/
theorem baseRateQ_sum_pos (f : Fmt) (op : FuseOp) (same : Bool) {a1 a2 : Fin n → ℚ} {u1 u2 : ℚ}
    (h10 : 0 ≤ u1) (h11 : u1 ≤ 1) (h20 : 0 ≤ u2) (h21 : u2 ≤ 1)
    (p1 : ∀ i, 0 ≤ a1 i) (p2 : ∀ i, 0 ≤ a2 i) (s1 : ∑ i, a1 i = 1) (s2 : ∑ i, a2 i = 1) :
    0 < ∑ i, baseRateQ f op same a1 u1 a2 u2 i := by
  obtain ⟨g, w1, w2, hm, hw, h | ⟨h, hw1⟩⟩ := baseRateQ_shape f op same a1 a2 h10 h11 h20 h21
  · rw [h, hm.sum hw s1 s2]; exact one_pos
  · have hnn := baseRateQ_nonneg f op same h10 h11 h20 h21 p1 p2
    obtain ⟨i, hi⟩ : ∃ i, 0 < a1 i := by
      by_contra hc
      simp only [not_exists, not_lt] at hc
      have : ∑ i, a1 i = 0 := Finset.sum_eq_zero fun i _ => le_antisymm (hc i) (p1 i)
      rw [s1] at this; exact one_ne_zero this
    apply Finset.sum_pos' (fun i _ => hnn i) ⟨i, Finset.mem_univ i, ?_⟩
    rw [h]; unfold short; split
    · exact hi
    · rw [hm i]
      exact div_pos (add_pos_of_pos_of_nonneg (mul_pos hi hw1) (mul_nonneg (p2 i) hw.h2)) hw.hs

/-- the projection normaliser of the ACm result under the fused base rate is positive -/
theorem ecm_norm_pos (f : Fmt) (same : Bool) {b1 b2 a1 a2 : Fin n → ℚ} {u1 u2 : ℚ}
    (h1 : WF b1 u1 a1) (h2 : WF b2 u2 a2) :
    0 < ∑ j, ((simplexQ f .ecm b1 u1 b2 u2).1 j
        + baseRateQ f .ecm same a1 u1 a2 u2 j * (simplexQ f .ecm b1 u1 b2 u2).2) := by
  have hS := simplexQ_swf f .ecm h1.swf h2.swf
  have hp := baseRateQ_sum_pos f .ecm same h1.hu h1.swf.u_le_one h2.hu h2.swf.u_le_one
    h1.ha0 h2.ha0 h1.ha h2.ha
  rw [Finset.sum_add_distrib, ← Finset.sum_mul, hS.sum_b]
  rcases lt_or_eq_of_le hS.u_le_one with hlt | heq
  · nlinarith [mul_nonneg hp.le hS.hu]
  · rw [heq]; linarith

/-- the fused base rate sums to less than two, whatever the per-entry shortcut does: a shortcut entry returns
    `a1 i`, any other entry the mixture `t a1 i + (1-t) a2 i` with `t > 0`, so `Σa ≤ 1 + (1-t) < 2` -/
theorem baseRateQ_sum_lt_two (f : Fmt) (op : FuseOp) (same : Bool) {a1 a2 : Fin n → ℚ} {u1 u2 : ℚ}
    (h10 : 0 ≤ u1) (h11 : u1 ≤ 1) (h20 : 0 ≤ u2) (h21 : u2 ≤ 1)
    (p1 : ∀ i, 0 ≤ a1 i) (p2 : ∀ i, 0 ≤ a2 i) (s1 : ∑ i, a1 i = 1) (s2 : ∑ i, a2 i = 1) :
    ∑ i, baseRateQ f op same a1 u1 a2 u2 i < 2 := by
  obtain ⟨g, w1, w2, hm, hw, h | ⟨h, hw1⟩⟩ := baseRateQ_shape f op same a1 a2 h10 h11 h20 h21
  · rw [h, hm.sum hw s1 s2]; norm_num
  · rw [h]
    have hs := hw.hs
    have ht0 : 0 ≤ w2 / (w1 + w2) := div_nonneg hw.h2 hs.le
    have ht1 : w2 / (w1 + w2) < 1 := by rw [div_lt_one hs]; linarith
    have key : ∀ i, short f a1 a2 g i ≤ a1 i + a2 i * (w2 / (w1 + w2)) := by
      intro i; unfold short; split
      · have := mul_nonneg (p2 i) ht0; linarith
      · have e : a1 i + a2 i * (w2 / (w1 + w2)) = (a1 i * (w1 + w2) + a2 i * w2) / (w1 + w2) := by
          field_simp
        rw [hm i, e]
        apply div_le_div_of_nonneg_right _ hs.le
        nlinarith [mul_nonneg (p1 i) hw.h2]
    have hsum := Finset.sum_le_sum (fun i (_ : i ∈ Finset.univ) => key i)
    rw [Finset.sum_add_distrib, ← Finset.sum_mul, s1, s2] at hsum
    linarith

/-- the final normaliser of the maximisation of the ACm result under the fused base rate is positive -/
theorem ecm_norm2_pos (f : Fmt) (same : Bool) {b1 b2 a1 a2 : Fin n → ℚ} {u1 u2 : ℚ}
    (h1 : WF b1 u1 a1) (h2 : WF b2 u2 a2) :
    0 < normN f (simplexQ f .ecm b1 u1 b2 u2).1 (baseRateQ f .ecm same a1 u1 a2 u2)
      (simplexQ f .ecm b1 u1 b2 u2).2 := by
  have hS := simplexQ_swf f .ecm h1.swf h2.swf
  exact SLV.Props.C09.normG_pos_of_sum_lt_two hS.hb hS.hu
    (baseRateQ_nonneg f .ecm same h1.hu h1.swf.u_le_one h2.hu h2.swf.u_le_one h1.ha0 h2.ha0)
    (ecm_norm_pos f same h1 h2)
    (baseRateQ_sum_lt_two f .ecm same h1.hu h1.swf.u_le_one h2.hu h2.swf.u_le_one h1.ha0 h2.ha0 h1.ha h2.ha)

/-- ECm fusion of well-formed lifted opinions is finite in EVERY arm, also when the `ulps_eq!` shortcut
    makes the fused base rate sum to something other than one (the projection is then renormalised, and so
    is the maximised simplex since repair f029db5) -/
theorem fuse_ecm_lift_gen (same : Bool) {b1 b2 a1 a2 : Fin n → ℚ} {u1 u2 : ℚ}
    (h1 : WF b1 u1 a1) (h2 : WF b2 u2 a2) :
    fuse .ecm same (⟨liftT b1, XQ.fin u1, liftT a1⟩ : Opinion (XQ f) n) ⟨liftT b2, XQ.fin u2, liftT a2⟩
      = ⟨liftT (fun i => max (projN (simplexQ f .ecm b1 u1 b2 u2).1 (baseRateQ f .ecm same a1 u1 a2 u2)
              (simplexQ f .ecm b1 u1 b2 u2).2 i
            - baseRateQ f .ecm same a1 u1 a2 u2 i *
              uhatN f (simplexQ f .ecm b1 u1 b2 u2).1 (baseRateQ f .ecm same a1 u1 a2 u2)
                (simplexQ f .ecm b1 u1 b2 u2).2) 0
            / normN f (simplexQ f .ecm b1 u1 b2 u2).1 (baseRateQ f .ecm same a1 u1 a2 u2)
                (simplexQ f .ecm b1 u1 b2 u2).2),
          XQ.fin (uhatN f (simplexQ f .ecm b1 u1 b2 u2).1 (baseRateQ f .ecm same a1 u1 a2 u2)
              (simplexQ f .ecm b1 u1 b2 u2).2
            / normN f (simplexQ f .ecm b1 u1 b2 u2).1 (baseRateQ f .ecm same a1 u1 a2 u2)
                (simplexQ f .ecm b1 u1 b2 u2).2),
          liftT (baseRateQ f .ecm same a1 u1 a2 u2)⟩ := by
  rw [fuse_ecm_eq]
  unfold Opinion.simplex Opinion.mk'
  simp only [computeSimplex_lift .ecm h1.swf h2.swf,
    computeBaseRate_lift .ecm same _ _ a1 a2 h1.hu h1.swf.u_le_one h2.hu h2.swf.u_le_one,
    uncertaintyMaximized_liftT_gen _ _ _ (ne_of_gt (ecm_norm_pos f same h1 h2))
      (ne_of_gt (ecm_norm2_pos f same h1 h2))]

/-! ### operands outside the tolerance bands: the guards are the exact tests `u = 0`, `u = 1` -/

namespace FuseQ

/-- `simplexQ` with exact tests instead of tolerance guards (no dependence on the format) -/
def simplexQ0 (op : FuseOp) (b1 : Fin n → ℚ) (u1 : ℚ) (b2 : Fin n → ℚ) (u2 : ℚ) :
    (Fin n → ℚ) × ℚ :=
  if u1 = 0 ∧ u2 = 0 then (dogB b1 u1 b2 u2, 0)
  else match op with
    | .acm | .ecm =>
      if u1 = 1 ∧ u2 = 1 then (fun _ => 0, 1)
      else if u1 = 1 ∨ u2 = 0 then (b2, u2)
      else if u2 = 1 ∨ u1 = 0 then (b1, u1)
      else (acmB b1 u1 b2 u2, acmU u1 u2)
    | .avg =>
      if u1 = 0 then (b1, u1)
      else if u2 = 0 then (b2, u2)
      else (avgB b1 u1 b2 u2, avgU u1 u2)
    | .wgh =>
      if u1 = 1 ∧ u2 = 1 then (fun _ => 0, 1)
      else if u1 = 1 ∨ u2 = 0 then (b2, u2)
      else if u2 = 1 ∨ u1 = 0 then (b1, u1)
      else (wghB b1 u1 b2 u2, wghU u1 u2)

/-- `baseRateQ` with exact tests instead of tolerance guards (the per-entry shortcut stays) -/
def baseRateQ0 (f : Fmt) (op : FuseOp) (same : Bool) (a1 : Fin n → ℚ) (u1 : ℚ) (a2 : Fin n → ℚ)
    (u2 : ℚ) : Fin n → ℚ :=
  if same then a1
  else if u1 = 0 ∧ u2 = 0 then meanA a1 a2
  else match op with
    | .acm | .ecm =>
      if u1 = 1 ∧ u2 = 1 then short f a1 a2 (meanA a1 a2)
      else if u1 = 1 ∨ u2 = 0 then a2
      else if u2 = 1 ∨ u1 = 0 then a1
      else short f a1 a2 (acmA a1 u1 a2 u2)
    | .avg => short f a1 a2 (meanA a1 a2)
    | .wgh =>
      if u1 = 1 ∧ u2 = 1 then short f a1 a2 (meanA a1 a2)
      else if u1 = 1 then a2
      else if u2 = 1 then a1
      else short f a1 a2 (wghA a1 u1 a2 u2)

end FuseQ

theorem simplexQ_plain (op : FuseOp) (b1 b2 : Fin n → ℚ) {u1 u2 : ℚ} (p1 : Plain f u1) (p2 : Plain f u2) :
    simplexQ f op b1 u1 b2 u2 = simplexQ0 op b1 u1 b2 u2 := by
  unfold simplexQ simplexQ0
  simp only [p1.GDog_iff, p1.GVac_iff, p2.GDog_iff, p2.GVac_iff]

theorem baseRateQ_plain (op : FuseOp) (same : Bool) (a1 a2 : Fin n → ℚ) {u1 u2 : ℚ}
    (p1 : Plain f u1) (p2 : Plain f u2) :
    baseRateQ f op same a1 u1 a2 u2 = baseRateQ0 f op same a1 u1 a2 u2 := by
  unfold baseRateQ baseRateQ0
  simp only [p1.GDog_iff, p1.GVac_iff, p2.GDog_iff, p2.GVac_iff]

/-- exactly dogmatic operands: the normaliser is 1 and the result is the plain arithmetic mean -/
theorem dogB_zero (b1 b2 : Fin n → ℚ) : dogB b1 0 b2 0 = meanA b1 b2 := by
  funext i; unfold dogB meanA; norm_num

/-! ### the complete closed form of `fuse` -/

/-- closed form of `fuse` on rational data, every operator and every arm:
    `(b, u, a)` with `a = baseRateQ`, and `(b, u) = simplexQ` — for ECm post-processed by the
    (clamping, renormalising) uncertainty maximisation under `a` -/
def FuseQ.fuseQ (f : Fmt) (op : FuseOp) (same : Bool) (b1 : Fin n → ℚ) (u1 : ℚ) (a1 : Fin n → ℚ)
    (b2 : Fin n → ℚ) (u2 : ℚ) (a2 : Fin n → ℚ) : (Fin n → ℚ) × ℚ × (Fin n → ℚ) :=
  let S := simplexQ f op b1 u1 b2 u2
  let A := baseRateQ f op same a1 u1 a2 u2
  if op = .ecm then
    (fun i => max (projN S.1 A S.2 i - A i * uhatN f S.1 A S.2) 0 / normN f S.1 A S.2,
      uhatN f S.1 A S.2 / normN f S.1 A S.2, A)
  else (S.1, S.2, A)

theorem fuseQ_a (f : Fmt) (op : FuseOp) (same : Bool) (b1 : Fin n → ℚ) (u1 : ℚ) (a1 : Fin n → ℚ)
    (b2 : Fin n → ℚ) (u2 : ℚ) (a2 : Fin n → ℚ) :
    (fuseQ f op same b1 u1 a1 b2 u2 a2).2.2 = baseRateQ f op same a1 u1 a2 u2 := by
  unfold fuseQ; dsimp only; split <;> rfl

theorem fuseQ_of_ne_ecm {op : FuseOp} (hop : op ≠ .ecm) (f : Fmt) (same : Bool) (b1 : Fin n → ℚ) (u1 : ℚ)
    (a1 : Fin n → ℚ) (b2 : Fin n → ℚ) (u2 : ℚ) (a2 : Fin n → ℚ) :
    fuseQ f op same b1 u1 a1 b2 u2 a2
      = ((simplexQ f op b1 u1 b2 u2).1, (simplexQ f op b1 u1 b2 u2).2, baseRateQ f op same a1 u1 a2 u2) := by
  unfold fuseQ; simp only [if_neg hop]

/-- when the base rate sums to one (and the simplex is well-formed) there is no renormalisation -/
theorem projN_of_wf {b a : Fin n → ℚ} {u : ℚ} (h : WF b u a) : projN b a u = fun i => b i + a i * u := by
  funext i; unfold projN; rw [SLV.Props.C09.sum_proj h, div_one]

theorem uhatN_of_wf {b a : Fin n → ℚ} {u : ℚ} (h : WF b u a) :
    uhatN f b a u = SLV.Props.C09.uhat f b a u := by
  unfold uhatN SLV.Props.C09.uhat
  congr 1; funext i
  unfold SLV.Props.C09.cand; rw [projN_of_wf h]

/-- the masses before the clamp are `C09.bmax` -/
theorem rawN_of_wf {b a : Fin n → ℚ} {u : ℚ} (h : WF b u a) (i : Fin n) :
    projN b a u i - a i * uhatN f b a u = SLV.Props.C09.bmax f b a u i := by
  rw [uhatN_of_wf h, projN_of_wf h]; rfl

/-- … the clamped masses and the final normaliser are `C09.bmaxC`, `C09.normC` -/
theorem normN_of_wf_clamped {b a : Fin n → ℚ} {u : ℚ} (h : WF b u a) :
    normN f b a u = SLV.Props.C09.normC f b a u := by
  unfold normN SLV.Props.C09.normC SLV.Props.C09.bmaxC
  simp only [rawN_of_wf h]
  rw [uhatN_of_wf h]

/-- … and the final normaliser is one as well when no mass `p - a û` is negative (the clamp of repair 8520ade is idle) -/
theorem normN_of_wf {b a : Fin n → ℚ} {u : ℚ} (h : WF b u a) (hnn : ∀ i, 0 ≤ SLV.Props.C09.bmax f b a u i) :
    normN f b a u = 1 := by
  rw [normN_of_wf_clamped h]; exact (SLV.Props.C09.normC_of_nonneg h hnn).2

/-- ECm closed form when the fused base rate is a distribution, all entries (guard band included): the clamped,
    renormalised `C09.bmaxC / C09.normC`, `C09.uhat / C09.normC` of the ACm result -/
theorem fuseQ_ecm_of_dist_clamped (same : Bool) {b1 b2 a1 a2 : Fin n → ℚ} {u1 u2 : ℚ}
    (h1 : SWF b1 u1) (h2 : SWF b2 u2)
    (hA0 : ∀ i, 0 ≤ baseRateQ f .ecm same a1 u1 a2 u2 i)
    (hA : ∑ i, baseRateQ f .ecm same a1 u1 a2 u2 i = 1) :
    fuseQ f .ecm same b1 u1 a1 b2 u2 a2
      = (fun i => SLV.Props.C09.bmaxC f (simplexQ f .ecm b1 u1 b2 u2).1 (baseRateQ f .ecm same a1 u1 a2 u2)
              (simplexQ f .ecm b1 u1 b2 u2).2 i
            / SLV.Props.C09.normC f (simplexQ f .ecm b1 u1 b2 u2).1 (baseRateQ f .ecm same a1 u1 a2 u2)
              (simplexQ f .ecm b1 u1 b2 u2).2,
          SLV.Props.C09.uhat f (simplexQ f .ecm b1 u1 b2 u2).1 (baseRateQ f .ecm same a1 u1 a2 u2)
              (simplexQ f .ecm b1 u1 b2 u2).2
            / SLV.Props.C09.normC f (simplexQ f .ecm b1 u1 b2 u2).1 (baseRateQ f .ecm same a1 u1 a2 u2)
              (simplexQ f .ecm b1 u1 b2 u2).2,
          baseRateQ f .ecm same a1 u1 a2 u2) := by
  have hw := (simplexQ_swf f .ecm h1 h2).toWF hA0 hA
  unfold fuseQ
  simp only [if_true, normN_of_wf_clamped (f := f) hw, rawN_of_wf hw]
  rw [uhatN_of_wf hw]
  rfl

/-- ECm closed form when the fused base rate is a distribution and no mass `p - a û` is negative (always when no
    fused base-rate entry lies in the guard band `(0, ε]`): `C09.bmax` / `C09.uhat` of the ACm result -/
theorem fuseQ_ecm_of_dist (same : Bool) {b1 b2 a1 a2 : Fin n → ℚ} {u1 u2 : ℚ}
    (h1 : SWF b1 u1) (h2 : SWF b2 u2)
    (hA0 : ∀ i, 0 ≤ baseRateQ f .ecm same a1 u1 a2 u2 i)
    (hA : ∑ i, baseRateQ f .ecm same a1 u1 a2 u2 i = 1)
    (hnn : ∀ i, 0 ≤ SLV.Props.C09.bmax f (simplexQ f .ecm b1 u1 b2 u2).1 (baseRateQ f .ecm same a1 u1 a2 u2)
      (simplexQ f .ecm b1 u1 b2 u2).2 i) :
    fuseQ f .ecm same b1 u1 a1 b2 u2 a2
      = (SLV.Props.C09.bmax f (simplexQ f .ecm b1 u1 b2 u2).1 (baseRateQ f .ecm same a1 u1 a2 u2)
            (simplexQ f .ecm b1 u1 b2 u2).2,
          SLV.Props.C09.uhat f (simplexQ f .ecm b1 u1 b2 u2).1 (baseRateQ f .ecm same a1 u1 a2 u2)
            (simplexQ f .ecm b1 u1 b2 u2).2,
          baseRateQ f .ecm same a1 u1 a2 u2) := by
  have hw := (simplexQ_swf f .ecm h1 h2).toWF hA0 hA
  obtain ⟨e1, e2⟩ := SLV.Props.C09.normC_of_nonneg (f := f) hw hnn
  rw [fuseQ_ecm_of_dist_clamped same h1 h2 hA0 hA, e1, e2]
  simp only [div_one]

/-- `fuse` on well-formed lifted opinions, every operator, every arm, shared base rate or not:
    the result is the lifted rational closed form `fuseQ`; in particular all components are finite
    (no division by zero is reached) -/
theorem fuse_lift_all (op : FuseOp) (same : Bool) {b1 b2 a1 a2 : Fin n → ℚ} {u1 u2 : ℚ}
    (h1 : WF b1 u1 a1) (h2 : WF b2 u2 a2) :
    fuse op same (⟨liftT b1, XQ.fin u1, liftT a1⟩ : Opinion (XQ f) n) ⟨liftT b2, XQ.fin u2, liftT a2⟩
      = ⟨liftT (fuseQ f op same b1 u1 a1 b2 u2 a2).1, XQ.fin (fuseQ f op same b1 u1 a1 b2 u2 a2).2.1,
          liftT (fuseQ f op same b1 u1 a1 b2 u2 a2).2.2⟩ := by
  by_cases hop : op = .ecm
  · subst hop
    rw [fuse_ecm_lift_gen same h1 h2]; rfl
  · rw [fuse_lift hop same h1.swf h2.swf, fuseQ_of_ne_ecm hop]

/-! ### ideal closed forms (operands outside the tolerance bands)

For plain well-formed operands the clone arms of the ladders are special cases of the formulas, so the
result is described by a much shorter case distinction. -/

namespace FuseQ

/-- belief part for plain operands: two dogmatic → mean; one dogmatic → that operand; otherwise the
    operator's formula (the vacuous clone arms are instances of it), except Wgh on two vacuous operands -/
def idealS (op : FuseOp) (b1 : Fin n → ℚ) (u1 : ℚ) (b2 : Fin n → ℚ) (u2 : ℚ) : (Fin n → ℚ) × ℚ :=
  if u1 = 0 ∧ u2 = 0 then (meanA b1 b2, 0)
  else if u1 = 0 then (b1, 0)
  else if u2 = 0 then (b2, 0)
  else match op with
    | .acm | .ecm => (acmB b1 u1 b2 u2, acmU u1 u2)
    | .avg => (avgB b1 u1 b2 u2, avgU u1 u2)
    | .wgh => if u1 = 1 ∧ u2 = 1 then (fun _ => 0, 1) else (wghB b1 u1 b2 u2, wghU u1 u2)

/-- base rate for plain operands when the shortcut is invisible: mean for two dogmatic / two vacuous
    operands and for Avg, otherwise the weighted formula (clone arms are instances of it) -/
def idealA (op : FuseOp) (a1 : Fin n → ℚ) (u1 : ℚ) (a2 : Fin n → ℚ) (u2 : ℚ) : Fin n → ℚ :=
  if u1 = 0 ∧ u2 = 0 then meanA a1 a2
  else match op with
    | .avg => meanA a1 a2
    | .acm | .ecm => if u1 = 1 ∧ u2 = 1 then meanA a1 a2 else acmA a1 u1 a2 u2
    | .wgh => if u1 = 1 ∧ u2 = 1 then meanA a1 a2 else wghA a1 u1 a2 u2

end FuseQ

theorem acmB_vac_left {b1 b2 : Fin n → ℚ} {u2 : ℚ} (h1 : SWF b1 1) :
    acmB b1 1 b2 u2 = b2 ∧ acmU 1 u2 = u2 := by
  constructor
  · funext i; unfold acmB; rw [h1.b_eq_zero i]; simp
  · unfold acmU; simp

theorem acmB_vac_right {b1 b2 : Fin n → ℚ} {u1 : ℚ} (h2 : SWF b2 1) :
    acmB b1 u1 b2 1 = b1 ∧ acmU u1 1 = u1 := by
  constructor
  · funext i; unfold acmB; rw [h2.b_eq_zero i]; simp
  · unfold acmU; simp

theorem wghB_vac_left (b1 b2 : Fin n → ℚ) {u2 : ℚ} (h : u2 ≠ 1) :
    wghB b1 1 b2 u2 = b2 ∧ wghU 1 u2 = u2 := by
  have : (1 : ℚ) - u2 ≠ 0 := sub_ne_zero.mpr (Ne.symm h)
  have hden : u2 * (1 - 1) + 1 * (1 - u2) = 1 - u2 := by ring
  constructor
  · funext i; unfold wghB; rw [hden, div_eq_iff this]; ring
  · unfold wghU; rw [hden, div_eq_iff this]; ring

theorem wghB_vac_right (b1 b2 : Fin n → ℚ) {u1 : ℚ} (h : u1 ≠ 1) :
    wghB b1 u1 b2 1 = b1 ∧ wghU u1 1 = u1 := by
  have : (1 : ℚ) - u1 ≠ 0 := sub_ne_zero.mpr (Ne.symm h)
  have hden : 1 * (1 - u1) + u1 * (1 - 1) = 1 - u1 := by ring
  constructor
  · funext i; unfold wghB; rw [hden, div_eq_iff this]; ring
  · unfold wghU; rw [hden, div_eq_iff this]; ring

/-- the exact-test ladder of the belief part coincides with the ideal closed form on well-formed operands -/
theorem simplexQ0_eq_ideal (op : FuseOp) {b1 b2 : Fin n → ℚ} {u1 u2 : ℚ} (h1 : SWF b1 u1) (h2 : SWF b2 u2) :
    simplexQ0 op b1 u1 b2 u2 = idealS op b1 u1 b2 u2 := by
  unfold simplexQ0 idealS
  by_cases hd : u1 = 0 ∧ u2 = 0
  · rw [if_pos hd, if_pos hd]; obtain ⟨rfl, rfl⟩ := hd; rw [dogB_zero]
  rw [if_neg hd, if_neg hd]
  by_cases z1 : u1 = 0
  · subst z1
    have z2 : u2 ≠ 0 := fun h => hd ⟨rfl, h⟩
    cases op <;> simp [z2]
  by_cases z2 : u2 = 0
  · subst z2
    cases op <;> simp [z1]
  have cum : ∀ F : (Fin n → ℚ) × ℚ,
      (u1 = 1 → u2 = 1 → F = ((fun _ => 0 : Fin n → ℚ), (1 : ℚ))) →
      (u1 = 1 → u2 ≠ 1 → F = (b2, u2)) → (u2 = 1 → u1 ≠ 1 → F = (b1, u1)) →
      (if u1 = 1 ∧ u2 = 1 then ((fun _ => 0 : Fin n → ℚ), (1 : ℚ))
        else if u1 = 1 ∨ u2 = 0 then (b2, u2) else if u2 = 1 ∨ u1 = 0 then (b1, u1) else F) = F := by
    intro F hvv hv1 hv2
    split_ifs with hv hr hl
    · exact (hvv hv.1 hv.2).symm
    · rcases hr with hr | hr
      · exact (hv1 hr (fun h => hv ⟨hr, h⟩)).symm
      · exact absurd hr z2
    · rcases hl with hl | hl
      · exact (hv2 hl (fun h => hr (Or.inl h))).symm
      · exact absurd hl z1
    · rfl
  have hacm : (if u1 = 1 ∧ u2 = 1 then ((fun _ => 0 : Fin n → ℚ), (1 : ℚ))
        else if u1 = 1 ∨ u2 = 0 then (b2, u2) else if u2 = 1 ∨ u1 = 0 then (b1, u1)
        else (acmB b1 u1 b2 u2, acmU u1 u2)) = (acmB b1 u1 b2 u2, acmU u1 u2) := by
    refine cum _ ?_ ?_ ?_
    · rintro rfl rfl
      rw [(acmB_vac_left h1).1, (acmB_vac_left (b2 := b2) h1).2]
      congr 1; funext i; exact h2.b_eq_zero i
    · rintro rfl _; rw [(acmB_vac_left h1).1, (acmB_vac_left (b2 := b2) h1).2]
    · rintro rfl _; rw [(acmB_vac_right h2).1, (acmB_vac_right (b1 := b1) h2).2]
  cases op
  · dsimp only; conv_rhs => rw [if_neg z1, if_neg z2]
    exact hacm
  · dsimp only; conv_rhs => rw [if_neg z1, if_neg z2]
    exact hacm
  · dsimp only; simp only [if_neg z1, if_neg z2]
  · dsimp only; conv_rhs => rw [if_neg z1, if_neg z2]
    by_cases hv : u1 = 1 ∧ u2 = 1
    · rw [if_pos hv, if_pos hv]
    have := cum (wghB b1 u1 b2 u2, wghU u1 u2) (fun a b => absurd ⟨a, b⟩ hv)
      (by rintro rfl h; rw [(wghB_vac_left b1 b2 h).1, (wghB_vac_left (n := n) b1 b2 h).2])
      (by rintro rfl h; rw [(wghB_vac_right b1 b2 h).1, (wghB_vac_right (n := n) b1 b2 h).2])
    rw [this, if_neg hv]

/-- the exact-test ladder of the base rate coincides with the ideal closed form (the shortcut is only taken at equal
    entries) -/
theorem baseRateQ0_eq_ideal (op : FuseOp) {a1 a2 : Fin n → ℚ} {u1 u2 : ℚ}
    (h10 : 0 ≤ u1) (h11 : u1 ≤ 1) (h20 : 0 ≤ u2) (h21 : u2 ≤ 1) :
    baseRateQ0 f op false a1 u1 a2 u2 = idealA op a1 u1 a2 u2 := by
  have hsc := FuseQ.hsc (f := f) a1 a2
  have hmean : short f a1 a2 (meanA a1 a2) = meanA a1 a2 :=
    short_eq_of_agree hsc (fun i => (isMix_mean a1 a2).of_eq weights_mean)
  unfold baseRateQ0 idealA
  simp only [Bool.false_eq_true, if_false]
  by_cases hd : u1 = 0 ∧ u2 = 0
  · rw [if_pos hd, if_pos hd]
  rw [if_neg hd, if_neg hd]
  have c1 := sub_nonneg.mpr h11
  have c2 := sub_nonneg.mpr h21
  cases op
  case avg => exact hmean
  case wgh =>
    dsimp only
    by_cases hv : u1 = 1 ∧ u2 = 1
    · rw [if_pos hv, if_pos hv, hmean]
    rw [if_neg hv, if_neg hv]
    have hw : Weights (1 - u1) (1 - u2) := by
      refine ⟨c1, c2, ?_⟩
      rcases lt_or_eq_of_le h11 with h | h
      · linarith
      · rcases lt_or_eq_of_le h21 with h' | h'
        · linarith
        · exact absurd ⟨h, h'⟩ hv
    split_ifs with v1 v2
    · subst v1; funext i; unfold wghA
      have : (1 : ℚ) - u2 ≠ 0 := fun h => hv ⟨rfl, by linarith⟩
      field_simp; ring
    · subst v2; funext i; unfold wghA
      have : (1 : ℚ) - u1 ≠ 0 := fun h => v1 (by linarith)
      field_simp; ring
    · exact short_eq_of_agree hsc (fun i => (isMix_wgh a1 a2 u1 u2).of_eq hw)
  all_goals
    dsimp only
    by_cases hv : u1 = 1 ∧ u2 = 1
    · rw [if_pos hv, if_pos hv, hmean]
    rw [if_neg hv, if_neg hv]
    have hw : Weights (u2 * (1 - u1)) (u1 * (1 - u2)) := by
      refine ⟨mul_nonneg h20 c1, mul_nonneg h10 c2, ?_⟩
      rcases lt_or_eq_of_le h10 with p1 | p1
      · rcases lt_or_eq_of_le h21 with q2 | q2
        · have := mul_pos p1 (sub_pos.mpr q2); have := mul_nonneg h20 c1; linarith
        · subst q2
          have q1 : u1 < 1 := lt_of_le_of_ne h11 (fun h => hv ⟨h, rfl⟩)
          have := mul_pos one_pos (sub_pos.mpr q1); simp only [sub_self, mul_zero, add_zero]; linarith
      · subst p1
        have p2 : 0 < u2 := lt_of_le_of_ne h20 (fun h => hd ⟨rfl, h.symm⟩)
        simp only [sub_zero, mul_one, zero_mul, add_zero]; exact p2
    split_ifs with hr hl
    · funext i
      rw [(isMix_acm a1 a2 u1 u2) i]
      have hs := ne_of_gt hw.hs
      rcases hr with rfl | rfl <;> (rw [eq_div_iff hs]; ring)
    · funext i
      rw [(isMix_acm a1 a2 u1 u2) i]
      have hs := ne_of_gt hw.hs
      rcases hl with rfl | rfl <;> (rw [eq_div_iff hs]; ring)
    · exact short_eq_of_agree hsc (fun i => (isMix_acm a1 a2 u1 u2).of_eq hw)

/-- belief ladder on plain well-formed operands = ideal closed form -/
theorem simplexQ_plain_ideal (op : FuseOp) {b1 b2 : Fin n → ℚ} {u1 u2 : ℚ} (h1 : SWF b1 u1) (h2 : SWF b2 u2)
    (p1 : Plain f u1) (p2 : Plain f u2) :
    simplexQ f op b1 u1 b2 u2 = idealS op b1 u1 b2 u2 := by
  rw [simplexQ_plain op b1 b2 p1 p2, simplexQ0_eq_ideal op h1 h2]

/-- base-rate ladder on plain operands = ideal closed form -/
theorem baseRateQ_plain_ideal (op : FuseOp) (same : Bool) {a1 a2 : Fin n → ℚ} {u1 u2 : ℚ}
    (h10 : 0 ≤ u1) (h11 : u1 ≤ 1) (h20 : 0 ≤ u2) (h21 : u2 ≤ 1) (p1 : Plain f u1) (p2 : Plain f u2) :
    baseRateQ f op same a1 u1 a2 u2 = if same then a1 else idealA op a1 u1 a2 u2 := by
  cases same
  · rw [baseRateQ_plain op false a1 a2 p1 p2, baseRateQ0_eq_ideal op h10 h11 h20 h21]
    simp
  · rw [baseRateQ_same]; simp

/-- ACm / Avg / Wgh fusion of plain well-formed opinions: the ideal closed forms -/
theorem fuse_plain {op : FuseOp} (hop : op ≠ .ecm) (same : Bool) {b1 b2 a1 a2 : Fin n → ℚ} {u1 u2 : ℚ}
    (h1 : SWF b1 u1) (h2 : SWF b2 u2) (p1 : Plain f u1) (p2 : Plain f u2) :
    fuse op same (⟨liftT b1, XQ.fin u1, liftT a1⟩ : Opinion (XQ f) n) ⟨liftT b2, XQ.fin u2, liftT a2⟩
      = ⟨liftT (idealS op b1 u1 b2 u2).1, XQ.fin (idealS op b1 u1 b2 u2).2,
          liftT (if same then a1 else idealA op a1 u1 a2 u2)⟩ := by
  rw [fuse_lift hop same h1 h2, simplexQ_plain_ideal op h1 h2 p1 p2,
    baseRateQ_plain_ideal op same h1.hu h1.u_le_one h2.hu h2.u_le_one p1 p2]

/-- the fused base rate is a probability distribution -/
theorem baseRateQ_dist (op : FuseOp) (same : Bool) {b1 b2 a1 a2 : Fin n → ℚ} {u1 u2 : ℚ}
    (h1 : WF b1 u1 a1) (h2 : WF b2 u2 a2) :
    (∀ i, 0 ≤ baseRateQ f op same a1 u1 a2 u2 i) ∧ ∑ i, baseRateQ f op same a1 u1 a2 u2 i = 1 := by
  refine ⟨baseRateQ_nonneg f op same h1.hu h1.swf.u_le_one h2.hu h2.swf.u_le_one h1.ha0 h2.ha0, ?_⟩
  cases same
  · exact baseRateQ_sum f op false h1.hu h1.swf.u_le_one h2.hu h2.swf.u_le_one h1.ha h2.ha
  · rw [baseRateQ_same]; exact h1.ha

/-- ECm fusion of plain well-formed opinions: uncertainty maximisation
    (`C09.bmax`, `C09.uhat`) of the ideal ACm simplex under the ideal fused base rate -/
theorem fuse_plain_ecm (same : Bool) {b1 b2 a1 a2 : Fin n → ℚ} {u1 u2 : ℚ}
    (h1 : WF b1 u1 a1) (h2 : WF b2 u2 a2) (p1 : Plain f u1) (p2 : Plain f u2)
    (hnn : ∀ i, 0 ≤ SLV.Props.C09.bmax f (idealS .ecm b1 u1 b2 u2).1
      (if same then a1 else idealA .ecm a1 u1 a2 u2) (idealS .ecm b1 u1 b2 u2).2 i) :
    fuse .ecm same (⟨liftT b1, XQ.fin u1, liftT a1⟩ : Opinion (XQ f) n) ⟨liftT b2, XQ.fin u2, liftT a2⟩
      = ⟨liftT (SLV.Props.C09.bmax f (idealS .ecm b1 u1 b2 u2).1
            (if same then a1 else idealA .ecm a1 u1 a2 u2) (idealS .ecm b1 u1 b2 u2).2),
          XQ.fin (SLV.Props.C09.uhat f (idealS .ecm b1 u1 b2 u2).1
            (if same then a1 else idealA .ecm a1 u1 a2 u2) (idealS .ecm b1 u1 b2 u2).2),
          liftT (if same then a1 else idealA .ecm a1 u1 a2 u2)⟩ := by
  obtain ⟨hA0, hA⟩ := baseRateQ_dist (f := f) .ecm same h1 h2
  have hS := simplexQ_plain_ideal (f := f) .ecm h1.swf h2.swf p1 p2
  have hB := baseRateQ_plain_ideal (f := f) .ecm same h1.hu h1.swf.u_le_one h2.hu h2.swf.u_le_one p1 p2 (a1 := a1) (a2 := a2)
  rw [fuse_ecm_lift same h1.swf h2.swf hA0 hA (by rw [hS, hB]; exact hnn), hS, hB]

/-- the ideal fused base rate is a distribution (plain operands) -/
theorem ideal_dist (op : FuseOp) (same : Bool) {b1 b2 a1 a2 : Fin n → ℚ} {u1 u2 : ℚ}
    (h1 : WF b1 u1 a1) (h2 : WF b2 u2 a2) (p1 : Plain f u1) (p2 : Plain f u2) :
    (∀ i, 0 ≤ (if same then a1 else idealA op a1 u1 a2 u2) i) ∧
      ∑ i, (if same then a1 else idealA op a1 u1 a2 u2) i = 1 := by
  rw [← baseRateQ_plain_ideal op same h1.hu h1.swf.u_le_one h2.hu h2.swf.u_le_one p1 p2]
  exact baseRateQ_dist op same h1 h2

/-- the ideal fused simplex is well-formed -/
theorem idealS_swf (f : Fmt) (op : FuseOp) {b1 b2 : Fin n → ℚ} {u1 u2 : ℚ} (h1 : SWF b1 u1)
    (h2 : SWF b2 u2) (p1 : Plain f u1) (p2 : Plain f u2) :
    SWF (idealS op b1 u1 b2 u2).1 (idealS op b1 u1 b2 u2).2 := by
  rw [← simplexQ_plain_ideal op h1 h2 p1 p2]; exact simplexQ_swf f op h1 h2

/-- ECm fusion of plain well-formed opinions whose ideal fused base rate has no entry in the guard band `(0, ε]`: no
    mass `p - a û` is negative (`C09.max_WF`), the clamp of repair 8520ade is idle -/
theorem fuse_plain_ecm_of_band (same : Bool) {b1 b2 a1 a2 : Fin n → ℚ} {u1 u2 : ℚ}
    (h1 : WF b1 u1 a1) (h2 : WF b2 u2 a2) (p1 : Plain f u1) (p2 : Plain f u2)
    (hband : ∀ i, (if same then a1 else idealA .ecm a1 u1 a2 u2) i = 0 ∨
      f.eps < (if same then a1 else idealA .ecm a1 u1 a2 u2) i) :
    fuse .ecm same (⟨liftT b1, XQ.fin u1, liftT a1⟩ : Opinion (XQ f) n) ⟨liftT b2, XQ.fin u2, liftT a2⟩
      = ⟨liftT (SLV.Props.C09.bmax f (idealS .ecm b1 u1 b2 u2).1
            (if same then a1 else idealA .ecm a1 u1 a2 u2) (idealS .ecm b1 u1 b2 u2).2),
          XQ.fin (SLV.Props.C09.uhat f (idealS .ecm b1 u1 b2 u2).1
            (if same then a1 else idealA .ecm a1 u1 a2 u2) (idealS .ecm b1 u1 b2 u2).2),
          liftT (if same then a1 else idealA .ecm a1 u1 a2 u2)⟩ := by
  have hd := ideal_dist (f := f) .ecm same h1 h2 p1 p2
  have hw := (idealS_swf f .ecm h1.swf h2.swf p1 p2).toWF hd.1 hd.2
  exact fuse_plain_ecm same h1 h2 p1 p2 (SLV.Props.C09.max_WF hw hband).hb

/-! ### operands inside the tolerance bands are treated as exactly vacuous / dogmatic -/

/-- ACm / ECm / Wgh: a guard-vacuous left operand is handled exactly like the vacuous opinion -/
theorem simplexQ_vac_left {op : FuseOp} (hop : op ≠ .avg) (b1 b2 : Fin n → ℚ) {u1 : ℚ} (u2 : ℚ)
    (v1 : GVac f u1) : simplexQ f op b1 u1 b2 u2 = simplexQ f op (fun _ => 0) 1 b2 u2 := by
  have nd : ¬ GDog f u1 := fun d => d.not_GVac v1
  have nd1 : ¬ GDog f 1 := not_GDog_one
  have vv : GVac f 1 := GVac_one
  unfold simplexQ
  cases op <;> first | exact absurd rfl hop | simp [nd, nd1, v1, vv]

theorem simplexQ_vac_right {op : FuseOp} (hop : op ≠ .avg) (b1 b2 : Fin n → ℚ) (u1 : ℚ) {u2 : ℚ}
    (v2 : GVac f u2) : simplexQ f op b1 u1 b2 u2 = simplexQ f op b1 u1 (fun _ => 0) 1 := by
  have nd : ¬ GDog f u2 := fun d => d.not_GVac v2
  have nd1 : ¬ GDog f 1 := not_GDog_one
  have vv : GVac f 1 := GVac_one
  unfold simplexQ
  cases op <;> first | exact absurd rfl hop | (simp [nd, nd1, v2, vv]; split_ifs <;> rfl)

theorem baseRateQ_vac_left {op : FuseOp} (hop : op ≠ .avg) (same : Bool) (a1 a2 : Fin n → ℚ) {u1 : ℚ}
    (u2 : ℚ) (v1 : GVac f u1) : baseRateQ f op same a1 u1 a2 u2 = baseRateQ f op same a1 1 a2 u2 := by
  have nd : ¬ GDog f u1 := fun d => d.not_GVac v1
  have nd1 : ¬ GDog f 1 := not_GDog_one
  have vv : GVac f 1 := GVac_one
  unfold baseRateQ
  cases op <;> first | exact absurd rfl hop | simp [nd, nd1, v1, vv]

theorem baseRateQ_vac_right {op : FuseOp} (hop : op ≠ .avg) (same : Bool) (a1 a2 : Fin n → ℚ) (u1 : ℚ)
    {u2 : ℚ} (v2 : GVac f u2) : baseRateQ f op same a1 u1 a2 u2 = baseRateQ f op same a1 u1 a2 1 := by
  have nd : ¬ GDog f u2 := fun d => d.not_GVac v2
  have nd1 : ¬ GDog f 1 := not_GDog_one
  have vv : GVac f 1 := GVac_one
  unfold baseRateQ
  cases op <;> first | exact absurd rfl hop | simp [nd, nd1, v2, vv]

theorem fuseQ_vac_left {op : FuseOp} (hop : op ≠ .avg) (same : Bool) (b1 a1 b2 a2 : Fin n → ℚ) {u1 : ℚ}
    (u2 : ℚ) (v1 : GVac f u1) :
    fuseQ f op same b1 u1 a1 b2 u2 a2 = fuseQ f op same (fun _ => 0) 1 a1 b2 u2 a2 := by
  unfold fuseQ
  rw [simplexQ_vac_left hop b1 b2 u2 v1, baseRateQ_vac_left hop same a1 a2 u2 v1]

theorem fuseQ_vac_right {op : FuseOp} (hop : op ≠ .avg) (same : Bool) (b1 a1 b2 a2 : Fin n → ℚ) (u1 : ℚ)
    {u2 : ℚ} (v2 : GVac f u2) :
    fuseQ f op same b1 u1 a1 b2 u2 a2 = fuseQ f op same b1 u1 a1 (fun _ => 0) 1 a2 := by
  unfold fuseQ
  rw [simplexQ_vac_right hop b1 b2 u1 v2, baseRateQ_vac_right hop same a1 a2 u1 v2]

/-- Avg only tests `is_dogmatic`: for Avg "plain" can be weakened to `u = 0 ∨ ε < u` -/
def PlainD (f : Fmt) (u : ℚ) : Prop := u = 0 ∨ f.eps < u

theorem Plain.plainD {u : ℚ} (h : Plain f u) : PlainD f u := by
  have := XQ.eps_lt f
  rcases h with h | h | h
  · exact Or.inl h
  · exact Or.inr (by rw [h]; linarith)
  · exact Or.inr h.1

theorem PlainD.GDog_iff {u : ℚ} (h : PlainD f u) : GDog f u ↔ u = 0 := by
  have he := XQ.eps_pos f
  constructor
  · intro hd
    rcases h with h | h
    · exact h
    · exfalso; have := (abs_le.mp hd).2; linarith
  · rintro rfl; exact GDog_zero

theorem simplexQ_avg_plainD {b1 b2 : Fin n → ℚ} {u1 u2 : ℚ} (h1 : SWF b1 u1) (h2 : SWF b2 u2)
    (p1 : PlainD f u1) (p2 : PlainD f u2) :
    simplexQ f .avg b1 u1 b2 u2 = idealS .avg b1 u1 b2 u2 := by
  rw [← simplexQ0_eq_ideal .avg h1 h2]
  unfold simplexQ simplexQ0
  simp only [p1.GDog_iff, p2.GDog_iff]

theorem baseRateQ_avg_plainD (same : Bool) {a1 a2 : Fin n → ℚ} {u1 u2 : ℚ}
    (h10 : 0 ≤ u1) (h11 : u1 ≤ 1) (h20 : 0 ≤ u2) (h21 : u2 ≤ 1)
    (p1 : PlainD f u1) (p2 : PlainD f u2) :
    baseRateQ f .avg same a1 u1 a2 u2 = if same then a1 else idealA .avg a1 u1 a2 u2 := by
  cases same
  · rw [← baseRateQ0_eq_ideal (f := f) .avg h10 h11 h20 h21]
    unfold baseRateQ baseRateQ0
    simp only [p1.GDog_iff, p2.GDog_iff]
    simp
  · rw [baseRateQ_same]; simp

end SLV
