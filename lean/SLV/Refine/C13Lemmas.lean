/-
  Helper lemmas for C13 (binomial ↔ binary multinomial): the conversions on lifted data, the pointwise
  form of the base-rate ladder (only entry 0 is read back by `BOp.ofOpinion`), and the rational
  identities between the ideal closed forms of the multinomial `fuse` (FuseLemmas: `idealS`, `idealA`)
  and the closed forms of the binomial `cfuse` / `afuse` / `wfuse` (C19Lemmas: `cfB`, `cfU`, `cfA`, `afB`,
  `afU`, `gmix`, `wfB`, `wfU`, `wfA`).   No property statements here.
-/
import SLV.Refine.Lift
import SLV.Refine.FuseLemmas
import SLV.Refine.C19Lemmas

namespace SLV
open Scalar FuseQ
open SLV.Props.C10 (BWF)
open SLV.Props.C09 (WF)

variable {f : Fmt}

namespace C13
open C19

/-! ### conversions -/

/-- `From<Opinion1d<_,2>> for BOpinion` on lifted data: entries 0, 1 of the masses, entry 0 of the base rate -/
theorem ofOpinion_lift (b a : Fin 2 → ℚ) (u : ℚ) :
    BOp.ofOpinion (⟨liftT b, XQ.fin u, liftT a⟩ : Opinion (XQ f) 2)
      = ⟨XQ.fin (b 0), XQ.fin (b 1), XQ.fin u, XQ.fin (a 0)⟩ := by
  unfold BOp.ofOpinion
  simp only [liftT_getElem']
  rfl

/-- the masses table of a well-formed binomial opinion is a well-formed binary simplex -/
theorem swf2 {b d u a : ℚ} (h : BWF b d u a) : SWF (n := 2) ![b, d] u := h.toWF.swf

/-! ### the guards of the two families coincide -/

theorem GV_eq (u : ℚ) : C19.GV f u = GVac f u := rfl
theorem GD_eq (u : ℚ) : C19.GD f u = GDog f u := rfl

theorem GV_iff_plain {u : ℚ} (p : Plain f u) : C19.GV f u ↔ u = 1 := p.GVac_iff
theorem GD_iff_plain {u : ℚ} (p : Plain f u) : C19.GD f u ↔ u = 0 := p.GDog_iff
theorem GD_iff_plainD {u : ℚ} (p : PlainD f u) : C19.GD f u ↔ u = 0 := p.GDog_iff

/-! ### the base-rate ladder is pointwise -/

theorem baseRateQ0_congr_at {n : Nat} (op : FuseOp) (same : Bool) {a1 a2 a1' a2' : Fin n → ℚ}
    (u1 u2 : ℚ) (i : Fin n) (e1 : a1 i = a1' i) (e2 : a2 i = a2' i) :
    baseRateQ0 f op same a1 u1 a2 u2 i = baseRateQ0 f op same a1' u1 a2' u2 i := by
  unfold baseRateQ0
  cases same <;> cases op <;> dsimp only <;> split_ifs <;>
    simp only [short, sc, meanA, acmA, wghA, e1, e2] <;> rfl

theorem idealA_congr_at {n : Nat} (op : FuseOp) {a1 a2 a1' a2' : Fin n → ℚ}
    (u1 u2 : ℚ) (i : Fin n) (e1 : a1 i = a1' i) (e2 : a2 i = a2' i) :
    idealA op a1 u1 a2 u2 i = idealA op a1' u1 a2' u2 i := by
  unfold idealA
  cases op <;> dsimp only <;> split_ifs <;> simp only [meanA, acmA, wghA, e1, e2]

/-- pointwise version of `baseRateQ0_eq_ideal` (which needed the shortcut hypothesis at the entry read while the
    shortcut test was `ulps_eq!`; since repair c8a7116 it needs none) -/
theorem baseRateQ0_eq_ideal_at {n : Nat} (op : FuseOp) {a1 a2 : Fin n → ℚ} {u1 u2 : ℚ}
    (h10 : 0 ≤ u1) (h11 : u1 ≤ 1) (h20 : 0 ≤ u2) (h21 : u2 ≤ 1) (i : Fin n) :
    baseRateQ0 f op false a1 u1 a2 u2 i = idealA op a1 u1 a2 u2 i := by
  have e2 : a2 i = (fun j => if j = i then a2 i else a1 j) i := by simp
  rw [baseRateQ0_congr_at (a1' := a1) (a2' := fun j => if j = i then a2 i else a1 j) op false u1 u2 i rfl e2,
    baseRateQ0_eq_ideal op h10 h11 h20 h21,
    ← idealA_congr_at (a1' := a1) (a2' := fun j => if j = i then a2 i else a1 j) op u1 u2 i rfl e2]

/-! ### the multinomial fusion of converted operands, read back -/

variable {b₁ d₁ u₁ a₁ b₂ d₂ u₂ a₂ γ : ℚ}

/-- ACm / Avg / Wgh (distinct base-rate objects) of two converted well-formed binomial opinions, read
    back with `ofOpinion`: entries 0, 1 of the belief ladder, entry 0 of the base-rate ladder; every
    component is finite -/
theorem ofOpinion_fuse {op : FuseOp} (hop : op ≠ .ecm) (h₁ : BWF b₁ d₁ u₁ a₁) (h₂ : BWF b₂ d₂ u₂ a₂) :
    BOp.ofOpinion (fuse op false
        (BOp.toOpinion (⟨XQ.fin b₁, XQ.fin d₁, XQ.fin u₁, XQ.fin a₁⟩ : BOp (XQ f)))
        (BOp.toOpinion (⟨XQ.fin b₂, XQ.fin d₂, XQ.fin u₂, XQ.fin a₂⟩ : BOp (XQ f))))
      = ⟨XQ.fin ((simplexQ f op ![b₁, d₁] u₁ ![b₂, d₂] u₂).1 0),
         XQ.fin ((simplexQ f op ![b₁, d₁] u₁ ![b₂, d₂] u₂).1 1),
         XQ.fin (simplexQ f op ![b₁, d₁] u₁ ![b₂, d₂] u₂).2,
         XQ.fin (baseRateQ f op false ![a₁, 1 - a₁] u₁ ![a₂, 1 - a₂] u₂ 0)⟩ := by
  rw [BOp.toOpinion_fin, BOp.toOpinion_fin, fuse_lift hop false (swf2 h₁) (swf2 h₂), ofOpinion_lift]

/-- plain operands: the ideal closed forms -/
theorem ofOpinion_fuse_plain {op : FuseOp} (hop : op ≠ .ecm) (h₁ : BWF b₁ d₁ u₁ a₁) (h₂ : BWF b₂ d₂ u₂ a₂)
    (p₁ : Plain f u₁) (p₂ : Plain f u₂) :
    BOp.ofOpinion (fuse op false
        (BOp.toOpinion (⟨XQ.fin b₁, XQ.fin d₁, XQ.fin u₁, XQ.fin a₁⟩ : BOp (XQ f)))
        (BOp.toOpinion (⟨XQ.fin b₂, XQ.fin d₂, XQ.fin u₂, XQ.fin a₂⟩ : BOp (XQ f))))
      = ⟨XQ.fin ((idealS op ![b₁, d₁] u₁ ![b₂, d₂] u₂).1 0),
         XQ.fin ((idealS op ![b₁, d₁] u₁ ![b₂, d₂] u₂).1 1),
         XQ.fin (idealS op ![b₁, d₁] u₁ ![b₂, d₂] u₂).2,
         XQ.fin (idealA op ![a₁, 1 - a₁] u₁ ![a₂, 1 - a₂] u₂ 0)⟩ := by
  rw [ofOpinion_fuse hop h₁ h₂, simplexQ_plain_ideal op (swf2 h₁) (swf2 h₂) p₁ p₂,
    baseRateQ_plain op false _ _ p₁ p₂,
    baseRateQ0_eq_ideal_at op h₁.hu (BWF.u_le_one h₁) h₂.hu (BWF.u_le_one h₂) 0]

/-- Avg only tests `is_dogmatic`: `u = 0 ∨ ε < u` suffices (the vacuous band is included) -/
theorem ofOpinion_fuse_avg_plainD (h₁ : BWF b₁ d₁ u₁ a₁) (h₂ : BWF b₂ d₂ u₂ a₂)
    (p₁ : PlainD f u₁) (p₂ : PlainD f u₂) :
    BOp.ofOpinion (fuse .avg false
        (BOp.toOpinion (⟨XQ.fin b₁, XQ.fin d₁, XQ.fin u₁, XQ.fin a₁⟩ : BOp (XQ f)))
        (BOp.toOpinion (⟨XQ.fin b₂, XQ.fin d₂, XQ.fin u₂, XQ.fin a₂⟩ : BOp (XQ f))))
      = ⟨XQ.fin ((idealS .avg ![b₁, d₁] u₁ ![b₂, d₂] u₂).1 0),
         XQ.fin ((idealS .avg ![b₁, d₁] u₁ ![b₂, d₂] u₂).1 1),
         XQ.fin (idealS .avg ![b₁, d₁] u₁ ![b₂, d₂] u₂).2,
         XQ.fin (idealA .avg ![a₁, 1 - a₁] u₁ ![a₂, 1 - a₂] u₂ 0)⟩ := by
  have e : baseRateQ f .avg false (![a₁, 1 - a₁] : Fin 2 → ℚ) u₁ ![a₂, 1 - a₂] u₂
      = baseRateQ0 f .avg false ![a₁, 1 - a₁] u₁ ![a₂, 1 - a₂] u₂ := by
    unfold baseRateQ baseRateQ0
    simp only [p₁.GDog_iff, p₂.GDog_iff]
  rw [ofOpinion_fuse (by decide) h₁ h₂, simplexQ_avg_plainD (swf2 h₁) (swf2 h₂) p₁ p₂, e,
    baseRateQ0_eq_ideal_at .avg h₁.hu (BWF.u_le_one h₁) h₂.hu (BWF.u_le_one h₂) 0]

/-! ### rational identities: ideal multinomial closed forms = binomial closed forms -/

section algebra
variable {n : Nat}

/-- ACm, not both dogmatic: the clone arms (one dogmatic, one vacuous) are instances of the formula -/
theorem idealS_acm (B1 B2 : Fin n → ℚ) {u1 u2 : ℚ} (hnd : ¬ (u1 = 0 ∧ u2 = 0)) :
    idealS .acm B1 u1 B2 u2 = (acmB B1 u1 B2 u2, acmU u1 u2) := by
  unfold idealS
  rw [if_neg hnd]
  by_cases z1 : u1 = 0
  · subst z1
    have z2 : u2 ≠ 0 := fun h => hnd ⟨rfl, h⟩
    rw [if_pos rfl]
    refine Prod.ext (funext fun i => ?_) ?_
    · simp [acmB, z2]
    · simp [acmU]
  rw [if_neg z1]
  by_cases z2 : u2 = 0
  · subst z2
    rw [if_pos rfl]
    refine Prod.ext (funext fun i => ?_) ?_
    · simp [acmB, z1]
    · simp [acmU]
  rw [if_neg z2]

/-- Avg, not both dogmatic -/
theorem idealS_avg (B1 B2 : Fin n → ℚ) {u1 u2 : ℚ} (hnd : ¬ (u1 = 0 ∧ u2 = 0)) :
    idealS .avg B1 u1 B2 u2 = (avgB B1 u1 B2 u2, avgU u1 u2) := by
  unfold idealS
  rw [if_neg hnd]
  by_cases z1 : u1 = 0
  · subst z1
    have z2 : u2 ≠ 0 := fun h => hnd ⟨rfl, h⟩
    rw [if_pos rfl]
    refine Prod.ext (funext fun i => ?_) ?_
    · simp [avgB, z2]
    · simp [avgU]
  rw [if_neg z1]
  by_cases z2 : u2 = 0
  · subst z2
    rw [if_pos rfl]
    refine Prod.ext (funext fun i => ?_) ?_
    · simp [avgB, z1]
    · simp [avgU]
  rw [if_neg z2]

/-- Wgh, not both dogmatic, not both vacuous -/
theorem idealS_wgh (B1 B2 : Fin n → ℚ) {u1 u2 : ℚ} (hnd : ¬ (u1 = 0 ∧ u2 = 0)) (hnv : ¬ (u1 = 1 ∧ u2 = 1)) :
    idealS .wgh B1 u1 B2 u2 = (wghB B1 u1 B2 u2, wghU u1 u2) := by
  unfold idealS
  rw [if_neg hnd]
  by_cases z1 : u1 = 0
  · subst z1
    have z2 : u2 ≠ 0 := fun h => hnd ⟨rfl, h⟩
    rw [if_pos rfl]
    refine Prod.ext (funext fun i => ?_) ?_
    · simp [wghB, z2]
    · simp [wghU]
  rw [if_neg z1]
  by_cases z2 : u2 = 0
  · subst z2
    rw [if_pos rfl]
    refine Prod.ext (funext fun i => ?_) ?_
    · simp [wghB, z1]
    · simp [wghU]
  rw [if_neg z2]
  dsimp only
  rw [if_neg hnv]

/-- both dogmatic, every operator: the mean -/
theorem idealS_dog (op : FuseOp) (B1 B2 : Fin n → ℚ) : idealS op B1 0 B2 0 = (meanA B1 B2, 0) := by
  unfold idealS; rw [if_pos ⟨rfl, rfl⟩]

theorem idealA_dog (op : FuseOp) (A1 A2 : Fin n → ℚ) : idealA op A1 0 A2 0 = meanA A1 A2 := by
  unfold idealA; rw [if_pos ⟨rfl, rfl⟩]

/-- Wgh, both vacuous -/
theorem idealS_wgh_vac (B1 B2 : Fin n → ℚ) : idealS .wgh B1 1 B2 1 = (fun _ => 0, 1) := by
  unfold idealS; simp

end algebra

/-! ### base rates -/

section baserate
variable {n : Nat} {u₁ u₂ : ℚ}

/-- ACm on plain operands, not both dogmatic: the binomial `cfA` (its `is_one ∧ is_one` guard is the exact
    test `u₁ = 1 ∧ u₂ = 1` on plain operands) -/
theorem idealA_acm_cfA (p₁ : Plain f u₁) (p₂ : Plain f u₂) (hnd : ¬ (u₁ = 0 ∧ u₂ = 0))
    (A1 A2 : Fin n → ℚ) (i : Fin n) :
    idealA .acm A1 u₁ A2 u₂ i = cfA f u₁ (A1 i) u₂ (A2 i) := by
  unfold idealA cfA
  rw [if_neg hnd]
  dsimp only
  simp only [GV_iff_plain p₁, GV_iff_plain p₂]
  split_ifs <;> rfl

theorem idealA_avg (A1 A2 : Fin n → ℚ) (u1 u2 : ℚ) : idealA .avg A1 u1 A2 u2 = meanA A1 A2 := by
  unfold idealA; split_ifs <;> rfl

theorem idealA_wgh_vac (A1 A2 : Fin n → ℚ) : idealA .wgh A1 1 A2 1 = meanA A1 A2 := by
  unfold idealA; simp

theorem idealA_wgh (A1 A2 : Fin n → ℚ) {u1 u2 : ℚ} (hnd : ¬ (u1 = 0 ∧ u2 = 0)) (hnv : ¬ (u1 = 1 ∧ u2 = 1)) :
    idealA .wgh A1 u1 A2 u2 = wghA A1 u1 A2 u2 := by
  unfold idealA; rw [if_neg hnd]; dsimp only; rw [if_neg hnv]

end baserate

/-! ### degenerate values of the binomial cumulative closed forms -/

section cfarms
variable {x y u a₁ a₂ : ℚ}

theorem cfB_vac_left : cfB 0 1 x u = x := by
  unfold cfB kap; have : (1 : ℚ) + u - 1 * u = 1 := by ring
  rw [this]; simp
theorem cfU_vac_left : cfU 1 u = u := by
  unfold cfU kap; have : (1 : ℚ) + u - 1 * u = 1 := by ring
  rw [this]; simp
theorem cfB_vac_right : cfB x u 0 1 = x := by
  unfold cfB kap; have : u + 1 - u * 1 = 1 := by ring
  rw [this]; simp
theorem cfU_vac_right : cfU u 1 = u := by
  unfold cfU kap; have : u + 1 - u * 1 = 1 := by ring
  rw [this]; simp
theorem cfB_dog_left (hu : u ≠ 0) : cfB x 0 y u = x := by
  unfold cfB kap; simp [hu]
theorem cfU_dog_left : cfU 0 u = 0 := by unfold cfU; simp
theorem cfB_dog_right (hu : u ≠ 0) : cfB x u y 0 = y := by
  unfold cfB kap; simp [hu]
theorem cfU_dog_right : cfU u 0 = 0 := by unfold cfU; simp

theorem cfA_vac_left (hg : ¬ GV f u) (hu : u ≠ 1) : cfA f 1 a₁ u a₂ = a₂ := by
  have : (1 : ℚ) - u ≠ 0 := sub_ne_zero.mpr (Ne.symm hu)
  unfold cfA; rw [if_neg (fun h => hg h.2), div_eq_iff (by intro h; apply this; linarith)]; ring
theorem cfA_vac_right (hg : ¬ GV f u) (hu : u ≠ 1) : cfA f u a₁ 1 a₂ = a₁ := by
  have : (1 : ℚ) - u ≠ 0 := sub_ne_zero.mpr (Ne.symm hu)
  unfold cfA; rw [if_neg (fun h => hg h.1), div_eq_iff (by intro h; apply this; linarith)]; ring
theorem cfA_dog_left (hu : u ≠ 0) : cfA f 0 a₁ u a₂ = a₁ := by
  unfold cfA; rw [if_neg (fun h => not_GV_zero h.1), div_eq_iff (by intro h; apply hu; linarith)]; ring
theorem cfA_dog_right (hu : u ≠ 0) : cfA f u a₁ 0 a₂ = a₂ := by
  unfold cfA; rw [if_neg (fun h => not_GV_zero h.2), div_eq_iff (by intro h; apply hu; linarith)]; ring
theorem cfA_vac_vac : cfA f 1 a₁ 1 a₂ = (a₁ + a₂) / 2 := by
  unfold cfA; rw [if_pos ⟨GV_one, GV_one⟩]

end cfarms

/-! ### weighted closed forms -/

section wf
variable {n : Nat}

theorem wghB_eq_wfB (B1 B2 : Fin n → ℚ) (u1 u2 : ℚ) (i : Fin n) :
    wghB B1 u1 B2 u2 i = wfB (B1 i) u1 (B2 i) u2 := by
  unfold wghB wfB; rw [wfDen_eq]

theorem wghU_eq_wfU (u1 u2 : ℚ) : wghU u1 u2 = wfU u1 u2 := by
  unfold wghU wfU; rw [wfDen_eq]

theorem wghA_eq_wfA (A1 A2 : Fin n → ℚ) (u1 u2 : ℚ) (i : Fin n) :
    wghA A1 u1 A2 u2 i = wfA u1 (A1 i) u2 (A2 i) := rfl

theorem gmix_half (x y : ℚ) : gmix (1 / 2) x y = (x + y) / 2 := by unfold gmix; ring

end wf

/-! ### the vacuous band: the binomial formulas stay within `2ε` / `4ε` of the multinomial clone arms -/

section band
variable {b₁ d₁ u₁ a₁ b₂ d₂ u₂ a₂ : ℚ}

theorem cfB_comm (x₁ u₁ x₂ u₂ : ℚ) : cfB x₁ u₁ x₂ u₂ = cfB x₂ u₂ x₁ u₁ := by
  unfold cfB kap; congr 1 <;> ring
theorem cfU_comm (u₁ u₂ : ℚ) : cfU u₁ u₂ = cfU u₂ u₁ := by
  unfold cfU kap; congr 1 <;> ring

/-- left operand in the vacuous band `[1-2ε, 1]`, ANY well-formed right operand: the binomial cumulative
    masses and uncertainty are within `1 - u₁ ≤ 2ε` of the right operand's -/
theorem band_bound_clone (h₁ : BWF b₁ d₁ u₁ a₁) (h₂ : BWF b₂ d₂ u₂ a₂) (hv : 1 - 2 * f.eps ≤ u₁) :
    |cfB b₁ u₁ b₂ u₂ - b₂| ≤ 2 * f.eps ∧ |cfB d₁ u₁ d₂ u₂ - d₂| ≤ 2 * f.eps ∧
    |cfU u₁ u₂ - u₂| ≤ 2 * f.eps := by
  have he := XQ.eps_pos f
  have hl := eps_lt f
  have hu1 := BWF.u_le_one h₁
  have hu2 := BWF.u_le_one h₂
  have hd0 : 0 ≤ 1 - u₁ := sub_nonneg.mpr hu1
  have p1 : 0 < u₁ := by linarith
  have ht : 0 < kap u₁ u₂ := kap_pos h₁ h₂ (fun h => by linarith [h.1])
  have htne := ht.ne'
  have hu2t : u₂ ≤ kap u₁ u₂ := by
    unfold kap; nlinarith [mul_nonneg h₁.hu (sub_nonneg.mpr hu2)]
  have hd2 : 1 - u₁ ≤ 2 * f.eps := by linarith
  have bound : ∀ w : ℚ, |w| ≤ 1 - u₁ → |u₂ * w / kap u₁ u₂| ≤ 2 * f.eps := by
    intro w hw
    rw [abs_div, abs_of_pos ht, div_le_iff₀ ht, abs_mul, abs_of_nonneg h₂.hu]
    calc u₂ * |w| ≤ u₂ * (1 - u₁) := mul_le_mul_of_nonneg_left hw h₂.hu
      _ ≤ kap u₁ u₂ * (1 - u₁) := mul_le_mul_of_nonneg_right hu2t hd0
      _ ≤ kap u₁ u₂ * (2 * f.eps) := mul_le_mul_of_nonneg_left hd2 ht.le
      _ = 2 * f.eps * kap u₁ u₂ := by ring
  have mass : ∀ x₁ x₂ : ℚ, 0 ≤ x₁ → x₁ ≤ 1 - u₁ → 0 ≤ x₂ → x₂ ≤ 1 →
      |cfB x₁ u₁ x₂ u₂ - x₂| ≤ 2 * f.eps := by
    intro x₁ x₂ h10 h11 h20 h21
    have key : cfB x₁ u₁ x₂ u₂ - x₂ = u₂ * (x₁ - x₂ * (1 - u₁)) / kap u₁ u₂ := by
      unfold cfB; rw [eq_div_iff htne, sub_mul, div_mul_cancel₀ _ htne]; unfold kap; ring
    rw [key]
    apply bound
    rw [abs_le]; constructor
    · nlinarith [mul_nonneg (sub_nonneg.mpr h21) hd0]
    · nlinarith [mul_nonneg h20 hd0]
  refine ⟨mass b₁ b₂ h₁.hb (by linarith [h₁.hs, h₁.hd]) h₂.hb (by linarith [h₂.hs, h₂.hd, h₂.hu]),
    mass d₁ d₂ h₁.hd (by linarith [h₁.hs, h₁.hb]) h₂.hd (by linarith [h₂.hs, h₂.hb, h₂.hu]), ?_⟩
  have key : cfU u₁ u₂ - u₂ = u₂ * (-(u₂ * (1 - u₁))) / kap u₁ u₂ := by
    unfold cfU; rw [eq_div_iff htne, sub_mul, div_mul_cancel₀ _ htne]; unfold kap; ring
  rw [key]
  apply bound
  rw [abs_neg, abs_of_nonneg (mul_nonneg h₂.hu hd0)]
  nlinarith [mul_nonneg (sub_nonneg.mpr hu2) hd0]

/-- both operands in the vacuous band: the binomial cumulative result is within `4ε` of the vacuous
    simplex `(0, 0, 1)` -/
theorem band_bound_vac (h₁ : BWF b₁ d₁ u₁ a₁) (h₂ : BWF b₂ d₂ u₂ a₂) (hv₁ : 1 - 2 * f.eps ≤ u₁)
    (hv₂ : 1 - 2 * f.eps ≤ u₂) :
    |cfB b₁ u₁ b₂ u₂ - 0| ≤ 4 * f.eps ∧ |cfB d₁ u₁ d₂ u₂ - 0| ≤ 4 * f.eps ∧
    |cfU u₁ u₂ - 1| ≤ 4 * f.eps := by
  have he := XQ.eps_pos f
  have hl := eps_lt f
  have hu1 := BWF.u_le_one h₁
  have hu2 := BWF.u_le_one h₂
  have e1 : 0 ≤ 1 - u₁ := sub_nonneg.mpr hu1
  have e2 : 0 ≤ 1 - u₂ := sub_nonneg.mpr hu2
  have ht : 0 < kap u₁ u₂ := kap_pos h₁ h₂ (fun h => by linarith [h.1])
  have htne := ht.ne'
  -- the common numerator `(1-u₁)u₂ + (1-u₂)u₁` is at most `4ε κ`
  have num : (1 - u₁) * u₂ + (1 - u₂) * u₁ ≤ 4 * f.eps * kap u₁ u₂ := by
    have key : 4 * f.eps * kap u₁ u₂ - ((1 - u₁) * u₂ + (1 - u₂) * u₁)
        = (4 * f.eps - (1 - u₁) - (1 - u₂)) + (1 - u₁) * (1 - u₂) * (2 - 4 * f.eps) := by
      unfold kap; ring
    have : 0 ≤ (1 - u₁) * (1 - u₂) * (2 - 4 * f.eps) :=
      mul_nonneg (mul_nonneg e1 e2) (by linarith)
    linarith
  have mass : ∀ x₁ x₂ : ℚ, 0 ≤ x₁ → x₁ ≤ 1 - u₁ → 0 ≤ x₂ → x₂ ≤ 1 - u₂ →
      |cfB x₁ u₁ x₂ u₂ - 0| ≤ 4 * f.eps := by
    intro x₁ x₂ h10 h11 h20 h21
    have nn : 0 ≤ cfB x₁ u₁ x₂ u₂ :=
      div_nonneg (add_nonneg (mul_nonneg h10 h₂.hu) (mul_nonneg h20 h₁.hu)) ht.le
    rw [sub_zero, abs_of_nonneg nn]
    unfold cfB
    rw [div_le_iff₀ ht]
    nlinarith [mul_le_mul_of_nonneg_right h11 h₂.hu, mul_le_mul_of_nonneg_right h21 h₁.hu]
  refine ⟨mass b₁ b₂ h₁.hb (by linarith [h₁.hs, h₁.hd]) h₂.hb (by linarith [h₂.hs, h₂.hd]),
    mass d₁ d₂ h₁.hd (by linarith [h₁.hs, h₁.hb]) h₂.hd (by linarith [h₂.hs, h₂.hb]), ?_⟩
  have key : cfU u₁ u₂ - 1 = -(((1 - u₁) * u₂ + (1 - u₂) * u₁) / kap u₁ u₂) := by
    unfold cfU; rw [eq_neg_iff_add_eq_zero]
    have : u₁ * u₂ / kap u₁ u₂ - 1 + ((1 - u₁) * u₂ + (1 - u₂) * u₁) / kap u₁ u₂
        = (u₁ * u₂ + ((1 - u₁) * u₂ + (1 - u₂) * u₁) - kap u₁ u₂) / kap u₁ u₂ := by
      field_simp
      ring
    rw [this, div_eq_zero_iff]; left; unfold kap; ring
  rw [key, abs_neg, abs_of_nonneg (div_nonneg (add_nonneg (mul_nonneg e1 h₂.hu) (mul_nonneg e2 h₁.hu)) ht.le),
    div_le_iff₀ ht]
  exact num

end band

/-! ### the multinomial ACm ladder when one operand is guard-vacuous -/

section ladder
variable {n : Nat}

theorem simplexQ_acm_vac_left (B1 B2 : Fin n → ℚ) {u1 : ℚ} (u2 : ℚ) (v1 : GVac f u1) :
    simplexQ f .acm B1 u1 B2 u2 = if GVac f u2 then (fun _ => 0, 1) else (B2, u2) := by
  have nd : ¬ GDog f u1 := fun d => d.not_GVac v1
  unfold simplexQ
  simp [nd, v1]

theorem baseRateQ_acm_vac_left (A1 A2 : Fin n → ℚ) {u1 : ℚ} (u2 : ℚ) (v1 : GVac f u1) :
    baseRateQ f .acm false A1 u1 A2 u2 = if GVac f u2 then short f A1 A2 (meanA A1 A2) else A2 := by
  have nd : ¬ GDog f u1 := fun d => d.not_GVac v1
  unfold baseRateQ
  simp [nd, v1]

theorem simplexQ_acm_vac_right (B1 B2 : Fin n → ℚ) (u1 : ℚ) {u2 : ℚ} (v2 : GVac f u2) :
    simplexQ f .acm B1 u1 B2 u2 = if GVac f u1 then (fun _ => 0, 1) else (B1, u1) := by
  have nd : ¬ GDog f u2 := fun d => d.not_GVac v2
  unfold simplexQ
  by_cases v1 : GVac f u1
  · have nd1 : ¬ GDog f u1 := fun d => d.not_GVac v1
    simp [nd, nd1, v1, v2]
  · simp [nd, v1, v2]

theorem baseRateQ_acm_vac_right (A1 A2 : Fin n → ℚ) (u1 : ℚ) {u2 : ℚ} (v2 : GVac f u2) :
    baseRateQ f .acm false A1 u1 A2 u2 = if GVac f u1 then short f A1 A2 (meanA A1 A2) else A1 := by
  have nd : ¬ GDog f u2 := fun d => d.not_GVac v2
  unfold baseRateQ
  by_cases v1 : GVac f u1
  · have nd1 : ¬ GDog f u1 := fun d => d.not_GVac v1
    simp [nd, nd1, v1, v2]
  · simp [nd, v1, v2]

end ladder

end C13
end SLV
