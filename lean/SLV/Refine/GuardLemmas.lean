/-
  Guard lemmas: the closed forms of the tolerance guards of the exact semantics (`XQ.isZero`, `XQ.isOne`)
  agree with the generic value-level `ulps_eq!` (`XQ.ulpsEq`, defined through `ulpIdx`), for both formats.
  Contents: `Fmt.pow2` as a `zpow`, the specification of `ilog2`, a binade description of `ulpIdx`
  (`InBin`, `ulpIdx_bin`), strict monotonicity and a lower Lipschitz bound of `ulpIdx` on `[0,2)`.
  No property statements here (those are in SLV/Props/Guards.lean).
-/
import SLV.Refine.Lift
import Mathlib.Algebra.Order.Field.Power
import Mathlib.Algebra.Order.Ring.Abs
import Mathlib.Tactic.NormNum
import Mathlib.Tactic.Zify
import Mathlib.Tactic.LinearCombination
import Mathlib.Data.Rat.Lemmas

namespace SLV
namespace Guard

/-! ### `Fmt.pow2` -/

theorem pow2_eq_zpow (e : ℤ) : Fmt.pow2 e = (2 : ℚ) ^ e := by
  unfold Fmt.pow2
  split
  · rename_i h
    have : e = ((e.toNat : ℕ) : ℤ) := (Int.toNat_of_nonneg h).symm
    conv_rhs => rw [this]
    rw [zpow_natCast]; push_cast; rfl
  · rename_i h
    have h' : 0 ≤ -e := by omega
    have : e = -(((-e).toNat : ℕ) : ℤ) := by rw [Int.toNat_of_nonneg h']; ring
    conv_rhs => rw [this]
    rw [zpow_neg, zpow_natCast]; push_cast; rw [one_div]

theorem pow2_pos (e : ℤ) : 0 < Fmt.pow2 e := by rw [pow2_eq_zpow]; positivity

theorem pow2_add (a b : ℤ) : Fmt.pow2 (a + b) = Fmt.pow2 a * Fmt.pow2 b := by
  simp only [pow2_eq_zpow]; exact zpow_add₀ (by norm_num) a b

theorem pow2_zero : Fmt.pow2 0 = 1 := by rw [pow2_eq_zpow]; simp

theorem pow2_one : Fmt.pow2 1 = 2 := by rw [pow2_eq_zpow]; simp

theorem pow2_succ (e : ℤ) : Fmt.pow2 (e + 1) = 2 * Fmt.pow2 e := by
  rw [pow2_add, pow2_one, mul_comm]

theorem pow2_neg (e : ℤ) : Fmt.pow2 (-e) = (Fmt.pow2 e)⁻¹ := by
  simp only [pow2_eq_zpow]; exact zpow_neg 2 e

theorem pow2_sub (a b : ℤ) : Fmt.pow2 (a - b) = Fmt.pow2 a / Fmt.pow2 b := by
  rw [sub_eq_add_neg, pow2_add, pow2_neg, div_eq_mul_inv]

theorem pow2_le_pow2 {a b : ℤ} : Fmt.pow2 a ≤ Fmt.pow2 b ↔ a ≤ b := by
  simp only [pow2_eq_zpow]; exact zpow_le_zpow_iff_right₀ (by norm_num)

theorem pow2_lt_pow2 {a b : ℤ} : Fmt.pow2 a < Fmt.pow2 b ↔ a < b := by
  simp only [pow2_eq_zpow]; exact zpow_lt_zpow_iff_right₀ (by norm_num)

theorem pow2_mono {a b : ℤ} (h : a ≤ b) : Fmt.pow2 a ≤ Fmt.pow2 b := pow2_le_pow2.2 h

theorem pow2_natCast (k : ℕ) : Fmt.pow2 (k : ℤ) = (2 : ℚ) ^ k := by
  rw [pow2_eq_zpow, zpow_natCast]

theorem pow2_le_one {e : ℤ} (h : e ≤ 0) : Fmt.pow2 e ≤ 1 := by
  rw [← pow2_zero]; exact pow2_mono h

theorem one_le_pow2 {e : ℤ} (h : 0 ≤ e) : 1 ≤ Fmt.pow2 e := by
  rw [← pow2_zero]; exact pow2_mono h

/-- the integer function `k ↦ k - 2^k` is monotone on `k ≤ 0` -/
theorem sub_pow2_mono {j k : ℤ} (hjk : j ≤ k) (hk : k ≤ 0) :
    (j : ℚ) - Fmt.pow2 j ≤ (k : ℚ) - Fmt.pow2 k := by
  rcases eq_or_lt_of_le hjk with rfl | hlt
  · exact le_rfl
  · have h1 : (j : ℚ) + 1 ≤ k := by exact_mod_cast hlt
    have h2 := pow2_le_one hk
    have h3 := pow2_pos j
    linarith

/-! ### `ilog2` -/

/-- `ilog2 q = ⌊log₂ q⌋` for every positive rational -/
theorem ilog2_spec (q : ℚ) (hq : 0 < q) :
    Fmt.pow2 (ilog2 q) ≤ q ∧ q < Fmt.pow2 (ilog2 q + 1) := by
  have hnum : 0 < q.num := Rat.num_pos.mpr hq
  have hn0 : q.num.toNat ≠ 0 := by omega
  have hd0 : q.den ≠ 0 := q.den_nz
  have hncast : ((q.num.toNat : ℕ) : ℚ) = (q.num : ℚ) := by
    have : ((q.num.toNat : ℕ) : ℤ) = q.num := Int.toNat_of_nonneg hnum.le
    exact_mod_cast this
  -- bounds on numerator and denominator
  have n1 : (2 : ℚ) ^ (Nat.log2 q.num.toNat) ≤ (q.num.toNat : ℚ) := by
    exact_mod_cast Nat.log2_self_le hn0
  have n2 : (q.num.toNat : ℚ) < (2 : ℚ) ^ (Nat.log2 q.num.toNat + 1) := by
    exact_mod_cast (Nat.lt_log2_self (n := q.num.toNat))
  have d1 : (2 : ℚ) ^ (Nat.log2 q.den) ≤ (q.den : ℚ) := by
    exact_mod_cast Nat.log2_self_le hd0
  have d2 : (q.den : ℚ) < (2 : ℚ) ^ (Nat.log2 q.den + 1) := by
    exact_mod_cast (Nat.lt_log2_self (n := q.den))
  have hdpos : (0 : ℚ) < q.den := by exact_mod_cast Nat.pos_of_ne_zero hd0
  have hqeq : q = (q.num.toNat : ℚ) / (q.den : ℚ) := by rw [hncast]; exact (Rat.num_div_den q).symm
  set ln := Nat.log2 q.num.toNat with hln
  set ld := Nat.log2 q.den with hld
  set N : ℚ := (q.num.toNat : ℚ) with hN
  set D : ℚ := (q.den : ℚ) with hD
  -- q lies strictly between 2^(e0-1) and 2^(e0+1)
  have lo : Fmt.pow2 ((ln : ℤ) - (ld : ℤ) - 1) < q := by
    have e : Fmt.pow2 ((ln : ℤ) - (ld : ℤ) - 1) = (2 : ℚ) ^ ln / (2 : ℚ) ^ (ld + 1) := by
      have : (ln : ℤ) - (ld : ℤ) - 1 = (ln : ℤ) - ((ld + 1 : ℕ) : ℤ) := by push_cast; ring
      rw [this, pow2_sub, pow2_natCast, pow2_natCast]
    rw [e, hqeq, div_lt_div_iff₀ (by positivity) hdpos]
    calc (2 : ℚ) ^ ln * D ≤ N * D := by exact mul_le_mul_of_nonneg_right n1 hdpos.le
      _ < N * (2 : ℚ) ^ (ld + 1) := by
        apply mul_lt_mul_of_pos_left d2
        exact lt_of_lt_of_le (by positivity) n1
  have hi : q < Fmt.pow2 ((ln : ℤ) - (ld : ℤ) + 1) := by
    have e : Fmt.pow2 ((ln : ℤ) - (ld : ℤ) + 1) = (2 : ℚ) ^ (ln + 1) / (2 : ℚ) ^ ld := by
      have : (ln : ℤ) - (ld : ℤ) + 1 = ((ln + 1 : ℕ) : ℤ) - (ld : ℤ) := by push_cast; ring
      rw [this, pow2_sub, pow2_natCast, pow2_natCast]
    rw [e, hqeq, div_lt_div_iff₀ hdpos (by positivity)]
    calc N * (2 : ℚ) ^ ld ≤ N * D := by
          apply mul_le_mul_of_nonneg_left d1
          exact le_trans (by positivity) n1
      _ < (2 : ℚ) ^ (ln + 1) * D := by exact mul_lt_mul_of_pos_right n2 hdpos
  unfold ilog2
  simp only [← hln, ← hld]
  split
  · split
    · rename_i h1 h2
      exact absurd hi (not_lt.mpr h2)
    · rename_i h1 h2
      exact ⟨h1, not_le.mp h2⟩
  · rename_i h1
    refine ⟨lo.le, ?_⟩
    have : (ln : ℤ) - (ld : ℤ) - 1 + 1 = (ln : ℤ) - (ld : ℤ) := by ring
    rw [this]
    exact not_le.mp h1

/-- the binade index is unique -/
theorem ilog2_unique {q : ℚ} {e : ℤ} (h1 : Fmt.pow2 e ≤ q) (h2 : q < Fmt.pow2 (e + 1)) :
    ilog2 q = e := by
  have hq : 0 < q := lt_of_lt_of_le (pow2_pos e) h1
  obtain ⟨s1, s2⟩ := ilog2_spec q hq
  have a : e < ilog2 q + 1 := pow2_lt_pow2.1 (lt_of_le_of_lt h1 s2)
  have b : ilog2 q < e + 1 := pow2_lt_pow2.1 (lt_of_le_of_lt s1 h2)
  omega

/-! ### format constants -/

/-- `2^mant` -/
def P (f : Fmt) : ℚ := ((2 ^ f.mant : ℕ) : ℚ)

theorem P_eq (f : Fmt) : P f = (2 : ℚ) ^ f.mant := by unfold P; push_cast; rfl
theorem P_pos (f : Fmt) : 0 < P f := by rw [P_eq]; positivity
theorem P_ge (f : Fmt) : 8 ≤ P f := by cases f <;> (rw [P_eq]; norm_num [Fmt.mant])
theorem eps_eq (f : Fmt) : f.eps = 1 / P f := rfl
theorem eps_mul_P (f : Fmt) : f.eps * P f = 1 := by
  rw [eps_eq]; exact div_mul_cancel₀ 1 (P_pos f).ne'
theorem eps_le_eighth (f : Fmt) : f.eps ≤ 1 / 8 := by
  rw [eps_eq]; exact one_div_le_one_div_of_le (by norm_num) (P_ge f)
theorem emin_le (f : Fmt) : f.emin ≤ -2 := by cases f <;> decide
theorem pow2_mant (f : Fmt) : Fmt.pow2 (f.mant : ℤ) = P f := by rw [pow2_natCast, P_eq]

/-! ### `ulpIdx` by binades -/

/-- `x ≥ 0` lies in binade `e ≥ emin`, the subnormal range being merged into binade `emin`
    (where the two branches of `ulpIdx` are given by the same formula) -/
structure InBin (f : Fmt) (e : ℤ) (x : ℚ) : Prop where
  he : f.emin ≤ e
  lo : Fmt.pow2 e ≤ x ∨ e = f.emin
  nn : 0 ≤ x
  hi : x < Fmt.pow2 (e + 1)

variable {f : Fmt}

theorem ulpIdx_bin {e : ℤ} {x : ℚ} (h : InBin f e x) :
    ulpIdx f x = (((e - f.emin : ℤ) : ℚ) + x / Fmt.pow2 e) * P f := by
  have hx : ¬ x < 0 := not_lt.mpr h.nn
  have hP := P_pos f
  unfold ulpIdx
  simp only [hx, if_false]
  split
  · rename_i hsub
    have he : e = f.emin := by
      rcases h.lo with h1 | h1
      · exact absurd (lt_of_le_of_lt (le_trans (pow2_mono h.he) h1) hsub) (lt_irrefl _)
      · exact h1
    subst he
    rw [pow2_sub, pow2_mant]
    have := pow2_pos f.emin
    simp only [sub_self, Int.cast_zero, zero_add]
    field_simp
  · rename_i hnorm
    have hlo : Fmt.pow2 e ≤ x := by
      rcases h.lo with h1 | h1
      · exact h1
      · rw [h1]; exact not_lt.mp hnorm
    rw [ilog2_unique hlo h.hi]
    show (((e - f.emin + 1 : ℤ) : ℚ)) * P f + (x / Fmt.pow2 e - 1) * P f = _
    push_cast; ring

theorem exists_bin (f : Fmt) {x : ℚ} (hx : 0 ≤ x) : ∃ e, InBin f e x := by
  by_cases hsub : x < Fmt.pow2 f.emin
  · exact ⟨f.emin, le_rfl, Or.inr rfl, hx, lt_of_lt_of_le hsub (pow2_mono (by omega))⟩
  · have hle := not_lt.mp hsub
    have hpos : 0 < x := lt_of_lt_of_le (pow2_pos _) hle
    obtain ⟨s1, s2⟩ := ilog2_spec x hpos
    refine ⟨ilog2 x, ?_, Or.inl s1, hx, s2⟩
    have := pow2_lt_pow2.1 (lt_of_le_of_lt hle s2)
    omega

theorem ulpIdx_abs (f : Fmt) (q : ℚ) : ulpIdx f q = ulpIdx f |q| := by
  have h1 : (if q < 0 then -q else q) = |q| := by
    split
    · rw [abs_of_neg ‹_›]
    · rw [abs_of_nonneg (not_lt.mp ‹_›)]
  have h2 : ¬ |q| < 0 := not_lt.mpr (abs_nonneg q)
  unfold ulpIdx
  simp only [h1, h2, if_false]

theorem ulpIdx_neg (f : Fmt) (q : ℚ) : ulpIdx f (-q) = ulpIdx f q := by
  rw [ulpIdx_abs f (-q), ulpIdx_abs f q, abs_neg]

theorem ulpIdx_zero (f : Fmt) : ulpIdx f 0 = 0 := by
  have h : InBin f f.emin 0 := ⟨le_rfl, Or.inr rfl, le_rfl, pow2_pos _⟩
  rw [ulpIdx_bin h]; simp

theorem bin_one (f : Fmt) : InBin f 0 1 :=
  ⟨by have := emin_le f; omega, Or.inl (by rw [pow2_zero]), zero_le_one,
    by rw [zero_add, pow2_one]; norm_num⟩

theorem ulpIdx_one (f : Fmt) : ulpIdx f 1 = (1 - (f.emin : ℚ)) * P f := by
  rw [ulpIdx_bin (bin_one f), pow2_zero]; push_cast; ring

theorem ulpIdx_nonneg (f : Fmt) (q : ℚ) : 0 ≤ ulpIdx f q := by
  rw [ulpIdx_abs]
  obtain ⟨e, h⟩ := exists_bin f (abs_nonneg q)
  rw [ulpIdx_bin h]
  have h1 : (0 : ℚ) ≤ ((e - f.emin : ℤ) : ℚ) := by exact_mod_cast (by have := h.he; omega : (0 : ℤ) ≤ e - f.emin)
  have h2 : 0 ≤ |q| / Fmt.pow2 e := div_nonneg (abs_nonneg q) (pow2_pos e).le
  exact mul_nonneg (add_nonneg h1 h2) (P_pos f).le

/-- `ulpIdx` is strictly increasing on the non-negative rationals -/
theorem ulpIdx_lt {a b : ℚ} (ha : 0 ≤ a) (hab : a < b) : ulpIdx f a < ulpIdx f b := by
  obtain ⟨ea, Ha⟩ := exists_bin f ha
  obtain ⟨eb, Hb⟩ := exists_bin f (le_trans ha hab.le)
  have hP := P_pos f
  have hle : ea ≤ eb := by
    rcases Ha.lo with h | h
    · have := pow2_lt_pow2.1 (lt_of_le_of_lt h (lt_trans hab Hb.hi)); omega
    · rw [h]; exact Hb.he
  rw [ulpIdx_bin Ha, ulpIdx_bin Hb]
  apply mul_lt_mul_of_pos_right _ hP
  rcases eq_or_lt_of_le hle with rfl | hlt
  · have := div_lt_div_of_pos_right hab (pow2_pos ea); linarith
  · have hb1 : Fmt.pow2 eb ≤ b := by
      rcases Hb.lo with h | h
      · exact h
      · have := Ha.he; omega
    have h1 : a / Fmt.pow2 ea < 2 := by
      rw [div_lt_iff₀ (pow2_pos ea), ← pow2_succ]; exact Ha.hi
    have h2 : 1 ≤ b / Fmt.pow2 eb := by rw [le_div_iff₀ (pow2_pos eb), one_mul]; exact hb1
    have h3 : ((ea - f.emin : ℤ) : ℚ) + 1 ≤ ((eb - f.emin : ℤ) : ℚ) := by
      exact_mod_cast (by omega : ea - f.emin + 1 ≤ eb - f.emin)
    linarith

theorem ulpIdx_le_iff {a b : ℚ} (ha : 0 ≤ a) (hb : 0 ≤ b) : ulpIdx f a ≤ ulpIdx f b ↔ a ≤ b := by
  constructor
  · intro h
    by_contra hc
    exact absurd (ulpIdx_lt (f := f) hb (not_le.mp hc)) (not_lt.mpr h)
  · intro h
    rcases eq_or_lt_of_le h with rfl | hlt
    · exact le_rfl
    · exact (ulpIdx_lt ha hlt).le

/-- below 2 consecutive representable values are at most `ε` apart: `ulpIdx` has slope `≥ 2^mant` there -/
theorem ulpIdx_sub_ge {a b : ℚ} (ha : 0 ≤ a) (hab : a ≤ b) (hb : b < 2) :
    P f * (b - a) ≤ ulpIdx f b - ulpIdx f a := by
  obtain ⟨ea, Ha⟩ := exists_bin f ha
  obtain ⟨eb, Hb⟩ := exists_bin f (le_trans ha hab)
  have hP := P_pos f
  have hemin := emin_le f
  have heb0 : eb ≤ 0 := by
    rcases Hb.lo with h | h
    · have := pow2_lt_pow2.1 (lt_of_le_of_lt h (by rw [pow2_one]; exact hb)); omega
    · omega
  have hle : ea ≤ eb := by
    rcases Ha.lo with h | h
    · have := pow2_lt_pow2.1 (lt_of_le_of_lt h (lt_of_le_of_lt hab Hb.hi)); omega
    · rw [h]; exact Hb.he
  rw [ulpIdx_bin Ha, ulpIdx_bin Hb]
  have key : (b - a) ≤ (((eb - f.emin : ℤ) : ℚ) + b / Fmt.pow2 eb)
      - (((ea - f.emin : ℤ) : ℚ) + a / Fmt.pow2 ea) := by
    rcases eq_or_lt_of_le hle with rfl | hlt
    · have hr : 1 ≤ (Fmt.pow2 ea)⁻¹ := (one_le_inv₀ (pow2_pos ea)).2 (pow2_le_one heb0)
      have : (b - a) * 1 ≤ (b - a) * (Fmt.pow2 ea)⁻¹ :=
        mul_le_mul_of_nonneg_left hr (sub_nonneg.mpr hab)
      rw [div_eq_mul_inv, div_eq_mul_inv]
      linarith
    · have hb1 : Fmt.pow2 eb ≤ b := by
        rcases Hb.lo with h | h
        · exact h
        · have := Ha.he; omega
      have hra : 1 ≤ (Fmt.pow2 ea)⁻¹ := (one_le_inv₀ (pow2_pos ea)).2 (pow2_le_one (by omega))
      have hrb : 1 ≤ (Fmt.pow2 eb)⁻¹ := (one_le_inv₀ (pow2_pos eb)).2 (pow2_le_one heb0)
      -- b (r_b - 1) ≥ 2^eb (r_b - 1) = 1 - 2^eb
      have t1 : Fmt.pow2 eb * ((Fmt.pow2 eb)⁻¹ - 1) ≤ b * ((Fmt.pow2 eb)⁻¹ - 1) :=
        mul_le_mul_of_nonneg_right hb1 (by linarith)
      have t1' : Fmt.pow2 eb * ((Fmt.pow2 eb)⁻¹ - 1) = 1 - Fmt.pow2 eb := by
        rw [mul_sub, mul_inv_cancel₀ (pow2_pos eb).ne', mul_one]
      -- a (r_a - 1) ≤ 2^(ea+1) (r_a - 1) = 2 - 2^(ea+1)
      have t2 : a * ((Fmt.pow2 ea)⁻¹ - 1) ≤ Fmt.pow2 (ea + 1) * ((Fmt.pow2 ea)⁻¹ - 1) :=
        mul_le_mul_of_nonneg_right Ha.hi.le (by linarith)
      have t2' : Fmt.pow2 (ea + 1) * ((Fmt.pow2 ea)⁻¹ - 1) = 2 - Fmt.pow2 (ea + 1) := by
        rw [mul_sub, mul_one, pow2_succ, mul_assoc, mul_inv_cancel₀ (pow2_pos ea).ne', mul_one]
      have t3 := sub_pow2_mono (j := ea + 1) (k := eb) (by omega) heb0
      push_cast at t3 ⊢
      rw [div_eq_mul_inv, div_eq_mul_inv]
      linarith
  calc P f * (b - a) ≤ P f * ((((eb - f.emin : ℤ) : ℚ) + b / Fmt.pow2 eb)
        - (((ea - f.emin : ℤ) : ℚ) + a / Fmt.pow2 ea)) := mul_le_mul_of_nonneg_left key hP.le
    _ = _ := by ring

/-! ### the tolerance guards: closed forms = generic `ulps_eq!` -/

theorem bin_hi (f : Fmt) : InBin f 0 (1 + 4 * f.eps) := by
  have h0 := XQ.eps_pos f
  have h1 := eps_le_eighth f
  have := emin_le f
  refine ⟨by omega, Or.inl (by rw [pow2_zero]; linarith), by linarith, ?_⟩
  rw [zero_add, pow2_one]; linarith

theorem bin_lo (f : Fmt) : InBin f (-1) (1 - 2 * f.eps) := by
  have h0 := XQ.eps_pos f
  have h1 := eps_le_eighth f
  have := emin_le f
  have e : Fmt.pow2 (-1) = 1 / 2 := by rw [pow2_neg, pow2_one]; norm_num
  refine ⟨by omega, Or.inl (by rw [e]; linarith), by linarith, ?_⟩
  rw [show (-1 : ℤ) + 1 = 0 from rfl, pow2_zero]; linarith

theorem ulpIdx_hi (f : Fmt) : ulpIdx f (1 + 4 * f.eps) = ulpIdx f 1 + 4 := by
  rw [ulpIdx_bin (bin_hi f), ulpIdx_one, pow2_zero]
  have := eps_mul_P f
  push_cast
  linear_combination 4 * this

theorem ulpIdx_lo (f : Fmt) : ulpIdx f (1 - 2 * f.eps) = ulpIdx f 1 - 4 := by
  have e : Fmt.pow2 (-1) = 1 / 2 := by rw [pow2_neg, pow2_one]; norm_num
  rw [ulpIdx_bin (bin_lo f), ulpIdx_one, e]
  have := eps_mul_P f
  push_cast
  linear_combination (-4) * this

theorem bin_four (f : Fmt) : InBin f f.emin (4 * Fmt.pow2 f.emin * f.eps) := by
  have h0 := XQ.eps_pos f
  have h1 := eps_le_eighth f
  have hp := pow2_pos f.emin
  refine ⟨le_rfl, Or.inr rfl, by positivity, ?_⟩
  rw [pow2_succ]
  nlinarith

theorem ulpIdx_four (f : Fmt) : ulpIdx f (4 * Fmt.pow2 f.emin * f.eps) = 4 := by
  rw [ulpIdx_bin (bin_four f)]
  have := eps_mul_P f
  have hp := (pow2_pos f.emin).ne'
  simp only [sub_self, Int.cast_zero, zero_add]
  rw [mul_comm 4 (Fmt.pow2 f.emin), mul_assoc, mul_div_cancel_left₀ _ hp]
  linear_combination 4 * this

/-- at most four steps above zero means at most `4·2^(emin-mant)`, far below `ε` -/
theorem le_eps_of_ulpIdx_le_four {a : ℚ} (ha : 0 ≤ a) (h : ulpIdx f a ≤ 4) : a ≤ f.eps := by
  have h0 := XQ.eps_pos f
  have hp := pow2_pos f.emin
  have hx0 : 0 ≤ 4 * Fmt.pow2 f.emin * f.eps := by positivity
  rw [← ulpIdx_four f, ulpIdx_le_iff ha hx0] at h
  have h4 : Fmt.pow2 f.emin ≤ 1 / 4 := by
    have : Fmt.pow2 (-2) = 1 / 4 := by
      rw [pow2_neg, show (2 : ℤ) = ((2 : ℕ) : ℤ) from rfl, pow2_natCast]; norm_num
    rw [← this]; exact pow2_mono (emin_le f)
  have : 4 * Fmt.pow2 f.emin * f.eps ≤ 1 * f.eps :=
    mul_le_mul_of_nonneg_right (by linarith) h0.le
  linarith

/-- value-level `is_zero` is `ulps_eq!(v, 0.0)` -/
theorem isZero_eq_ulpsEq (a : ℚ) :
    XQ.isZero (XQ.fin a : XQ f) = XQ.ulpsEq (XQ.fin a : XQ f) (XQ.fin 0) := by
  rw [Bool.eq_iff_iff]
  simp only [XQ.isZero, XQ.ulpsEq, XQ.absQ_eq_abs, Bool.or_eq_true, Bool.and_eq_true,
    decide_eq_true_eq, sub_zero, ulpIdx_zero, le_refl, iff_true]
  constructor
  · exact Or.inl
  · rintro (h | ⟨h0, h4⟩)
    · exact h
    · rw [abs_of_nonneg h0]
      rw [abs_of_nonneg (ulpIdx_nonneg f a)] at h4
      exact le_eps_of_ulpIdx_le_four h0 h4

/-- for a non-negative value: within 4 steps of 1.0 iff in `[1-2ε, 1+4ε]` -/
theorem ulpIdx_near_one {a : ℚ} (ha : 0 ≤ a) :
    |ulpIdx f a - ulpIdx f 1| ≤ 4 ↔ 1 - 2 * f.eps ≤ a ∧ a ≤ 1 + 4 * f.eps := by
  have h0 := XQ.eps_pos f
  have h1 := eps_le_eighth f
  rw [abs_le, ← ulpIdx_le_iff (f := f) (by linarith : (0:ℚ) ≤ 1 - 2 * f.eps) ha,
    ← ulpIdx_le_iff (f := f) ha (by linarith : (0:ℚ) ≤ 1 + 4 * f.eps), ulpIdx_hi, ulpIdx_lo]
  constructor
  · rintro ⟨l, r⟩; exact ⟨by linarith, by linarith⟩
  · rintro ⟨l, r⟩; exact ⟨by linarith, by linarith⟩

/-- value-level `is_one` is `ulps_eq!(v, 1.0)` -/
theorem isOne_eq_ulpsEq (a : ℚ) :
    XQ.isOne (XQ.fin a : XQ f) = XQ.ulpsEq (XQ.fin a : XQ f) (XQ.fin 1) := by
  have h0 := XQ.eps_pos f
  have h1 := eps_le_eighth f
  rw [Bool.eq_iff_iff]
  simp only [XQ.isOne, XQ.ulpsEq, XQ.absQ_eq_abs, Bool.or_eq_true, Bool.and_eq_true,
    decide_eq_true_eq, zero_le_one, iff_true]
  by_cases ha : 0 ≤ a
  · rw [ulpIdx_near_one ha]
    constructor
    · intro h; exact Or.inr ⟨ha, h⟩
    · rintro (h | ⟨_, h⟩)
      · rw [abs_le] at h; exact ⟨by linarith, by linarith⟩
      · exact h
  · have ha' : a < 0 := not_le.mp ha
    constructor
    · rintro ⟨l, _⟩; linarith
    · rintro (h | ⟨h, _⟩)
      · rw [abs_le] at h; linarith
      · exact absurd h ha

/-- `in_unit_interval(v)` as the model writes it (with `is_zero` / `is_one`) is the crate's
    `is_in_range(v, 0, 1)` (with `ulps_eq!`) -/
theorem inUnit_eq_isInRange (a : ℚ) :
    Scalar.inUnit (XQ.fin a : XQ f) = Scalar.isInRange (XQ.fin a) (XQ.fin 0 : XQ f) (XQ.fin 1) := by
  unfold Scalar.inUnit Scalar.isInRange
  show (_ || XQ.isZero (XQ.fin a : XQ f) || XQ.isOne (XQ.fin a : XQ f)) =
    (_ || XQ.ulpsEq (XQ.fin a : XQ f) (XQ.fin 0) || XQ.ulpsEq (XQ.fin a : XQ f) (XQ.fin 1))
  rw [isZero_eq_ulpsEq, isOne_eq_ulpsEq]
  rfl

/-- two values in `[0,2)` at most 4 steps apart differ by at most `4ε` -/
theorem sub_le_of_ulpIdx_near {a b : ℚ} (ha : 0 ≤ a) (ha2 : a < 2) (hb : 0 ≤ b) (hb2 : b < 2)
    (h : |ulpIdx f a - ulpIdx f b| ≤ 4) : |a - b| ≤ 4 * f.eps := by
  have hP := P_pos f
  rw [abs_le] at h
  have key : ∀ x y : ℚ, 0 ≤ x → x ≤ y → y < 2 → ulpIdx f y - ulpIdx f x ≤ 4 → y - x ≤ 4 * f.eps := by
    intro x y hx hxy hy hd
    have := ulpIdx_sub_ge (f := f) hx hxy hy
    have h4 : P f * (y - x) ≤ 4 := le_trans this hd
    have : P f * (y - x) ≤ P f * (4 * f.eps) := by
      have := eps_mul_P f
      calc P f * (y - x) ≤ 4 := h4
        _ = P f * (4 * f.eps) := by linear_combination (-4) * this
    exact le_of_mul_le_mul_left this hP
  rcases le_total a b with hab | hab
  · rw [abs_sub_comm, abs_of_nonneg (sub_nonneg.mpr hab)]
    exact key a b ha hab hb2 (by linarith)
  · rw [abs_of_nonneg (sub_nonneg.mpr hab)]
    exact key b a hb hab ha2 (by linarith)

/-- two values in `(-2,2)` that are `ulps_eq!` differ by at most `4ε` -/
theorem ulpsEq_bound {a b : ℚ} (ha : |a| < 2) (hb : |b| < 2)
    (h : XQ.ulpsEq (XQ.fin a : XQ f) (XQ.fin b) = true) : |a - b| ≤ 4 * f.eps := by
  have h0 := XQ.eps_pos f
  simp only [XQ.ulpsEq, XQ.absQ_eq_abs, Bool.or_eq_true, Bool.and_eq_true, decide_eq_true_eq] at h
  rcases h with h | ⟨hs, h⟩
  · linarith
  · rw [abs_lt] at ha hb
    by_cases ha0 : 0 ≤ a
    · exact sub_le_of_ulpIdx_near ha0 ha.2 (hs.1 ha0) hb.2 h
    · have hb0 : ¬ 0 ≤ b := fun hb0 => ha0 (hs.2 hb0)
      rw [← ulpIdx_neg f a, ← ulpIdx_neg f b] at h
      have := sub_le_of_ulpIdx_near (f := f) (a := -a) (b := -b) (by linarith) (by linarith)
        (by linarith) (by linarith) h
      rwa [neg_sub_neg, abs_sub_comm] at this

end Guard
end SLV
