/-
  Helper lemmas for C10 (trust discounting): tolerance checks on finite values, the checked binomial
  constructor on finite well-formed data, and the lifted shape of `BOp.toOpinion`.
  No property statements here.
-/
import SLV.Refine.Lift
import SLV.Model.Bi
import Mathlib.Data.Fin.VecNotation
import Mathlib.Algebra.Order.Ring.Abs

namespace SLV
open Scalar

variable {f : Fmt}

/-- the all-zero table of `Simplex::vacuous` is the lifted zero function -/
theorem replicate_zero_eq_liftT (n : Nat) :
    (Vector.replicate n (XQ.fin 0) : Tab (XQ f) n) = liftT (fun _ => (0 : ℚ)) := by
  apply Vector.ext; intro i hi; simp [liftT]

theorem vacuous_eq_liftT (n : Nat) :
    (Simplex.vacuous : Simplex (XQ f) n) = ⟨liftT (fun _ => (0 : ℚ)), XQ.fin 1⟩ := by
  unfold Simplex.vacuous
  rw [XQ.zero_def, XQ.one_def, replicate_zero_eq_liftT]

theorem liftT_congr {n : Nat} {g h : Fin n → ℚ} (e : ∀ i, g i = h i) :
    (liftT g : Tab (XQ f) n) = liftT h := by
  have : g = h := funext e
  rw [this]

namespace XQ

theorem eps_le_one (f : Fmt) : f.eps ≤ 1 := by
  unfold Fmt.eps
  rw [div_le_one (by positivity)]
  exact_mod_cast Nat.one_le_two_pow

/-- `in_unit_interval` on a finite value: exactly the band `[-ε, 1+4ε]` -/
theorem inUnit_fin (q : ℚ) :
    Scalar.inUnit (fin q : XQ f) = decide (-f.eps ≤ q ∧ q ≤ 1 + 4 * f.eps) := by
  have he := XQ.eps_pos f
  have he1 := eps_le_one f
  unfold Scalar.inUnit Scalar.ge
  rw [zero_def, one_def, le_fin, le_fin, isZero_fin, isOne_fin, Bool.eq_iff_iff]
  simp only [Bool.or_eq_true, Bool.and_eq_true, decide_eq_true_eq, abs_le]
  constructor
  · rintro ((⟨h0, h1⟩ | ⟨h0, h1⟩) | ⟨h0, h1⟩) <;> constructor <;> linarith
  · rintro ⟨h0, h1⟩
    by_cases hq : 0 ≤ q
    · by_cases hq1 : q ≤ 1
      · exact Or.inl (Or.inl ⟨hq, hq1⟩)
      · exact Or.inr ⟨by linarith, h1⟩
    · exact Or.inl (Or.inr ⟨h0, by linarith⟩)

theorem inUnit_fin_of_unit {q : ℚ} (h0 : 0 ≤ q) (h1 : q ≤ 1) :
    Scalar.inUnit (fin q : XQ f) = true := by
  have he := XQ.eps_pos f
  rw [inUnit_fin, decide_eq_true_eq]
  constructor <;> linarith

theorem isOne_fin_one : Scalar.isOne (fin 1 : XQ f) = true := by
  have he := XQ.eps_pos f
  rw [isOne_fin, decide_eq_true_eq]
  constructor <;> linarith

theorem inUnit_pinf : Scalar.inUnit (pinf : XQ f) = false := rfl
theorem inUnit_ninf : Scalar.inUnit (ninf : XQ f) = false := rfl
theorem inUnit_nan : Scalar.inUnit (nan : XQ f) = false := rfl

end XQ

theorem checkUnit_fin_ok {q : ℚ} (l : Label) (h0 : -f.eps ≤ q) (h1 : q ≤ 1 + 4 * f.eps) :
    checkUnit (XQ.fin q : XQ f) l = .ok () := by
  unfold checkUnit
  rw [XQ.inUnit_fin, if_pos (by rw [decide_eq_true_eq]; exact ⟨h0, h1⟩)]

theorem checkUnit_fin_ok' {q : ℚ} (l : Label) (h0 : 0 ≤ q) (h1 : q ≤ 1) :
    checkUnit (XQ.fin q : XQ f) l = .ok () := by
  have he := XQ.eps_pos f
  exact checkUnit_fin_ok l (by linarith) (by linarith)

theorem checkUnit_fin_error {q : ℚ} (l : Label) (h : q < -f.eps ∨ 1 + 4 * f.eps < q) :
    checkUnit (XQ.fin q : XQ f) l = .error l := by
  unfold checkUnit
  rw [XQ.inUnit_fin, if_neg]
  rw [decide_eq_true_eq]
  rintro ⟨h0, h1⟩
  rcases h with h | h <;> linarith

namespace BOp

/-- the checked binomial constructor accepts finite well-formed data -/
theorem tryNew_fin_ok {b d u a : ℚ} (hb : 0 ≤ b) (hd : 0 ≤ d) (hu : 0 ≤ u) (hs : b + d + u = 1)
    (ha0 : 0 ≤ a) (ha1 : a ≤ 1) :
    BOp.tryNew (XQ.fin b : XQ f) (XQ.fin d) (XQ.fin u) (XQ.fin a)
      = .ok ⟨XQ.fin b, XQ.fin d, XQ.fin u, XQ.fin a⟩ := by
  unfold BOp.tryNew BOp.checkSimplex
  rw [checkUnit_fin_ok' _ ha0 ha1]
  simp only [XQ.add_fin, hs]
  unfold checkOne
  rw [XQ.isOne_fin_one, if_pos rfl]
  rw [checkUnit_fin_ok' _ hb (by linarith), checkUnit_fin_ok' _ hd (by linarith),
    checkUnit_fin_ok' _ hu (by linarith)]

/-- `From<BOpinion> for Opinion1d<_,2>` on finite data, in lifted form -/
theorem toOpinion_fin (b d u a : ℚ) :
    BOp.toOpinion (⟨XQ.fin b, XQ.fin d, XQ.fin u, XQ.fin a⟩ : BOp (XQ f))
      = ⟨liftT ![b, d], XQ.fin u, liftT ![a, 1 - a]⟩ := by
  unfold BOp.toOpinion
  simp only [XQ.one_def, XQ.sub_fin]
  congr 1

end BOp
end SLV
