/-
  Helper lemmas for SLV/Props/OracleSpec.lean: `List.range` / `List.ofFn` / `getD` plumbing, running
  minima over lists (`foldl minQ`, and the optional running minimum restricted to selected entries)
  related to `Finset.min'`, and the row-major `flatMap` step of `Oracle.outerSpec`.
  No property statements here.  Reuses the `List.ofFn` lemmas of SLV/Refine/C03Lemmas.lean.
-/
import SLV.Refine.C03Lemmas
import SLV.Refine.C04Lemmas
import SLV.Refine.C06Lemmas
import SLV.Refine.C08Lemmas
import SLV.Oracle.Spec
import Mathlib.Data.List.OfFn
import Mathlib.Data.List.FinRange

namespace SLV.OracleSpec
open SLV

/-! ### lists -/

/-- a map over `List.range m` of a function that agrees with `g` on `Fin m` is `List.ofFn g` -/
theorem range_map_eq_ofFn {α : Type} {m : Nat} (h : Nat → α) (g : Fin m → α)
    (hh : ∀ y : Fin m, h y.val = g y) : (List.range m).map h = List.ofFn g := by
  apply List.ext_getElem
  · simp
  · intro i h1 h2
    simp only [List.getElem_map, List.getElem_range, List.getElem_ofFn]
    exact hh ⟨i, by simpa using h2⟩

theorem getD_ofFn {m : Nat} (g : Fin m → ℚ) (y : Fin m) : (List.ofFn g).getD y.val 0 = g y := by
  simp [List.getD_eq_getElem?_getD]

theorem range_eq_finRange_map (m : Nat) : List.range m = (List.finRange m).map Fin.val := by
  apply List.ext_getElem
  · simp
  · intro i h1 h2
    simp

/-- a left fold over `List.range m` is a left fold over `List.finRange m` -/
theorem foldl_range {β : Type} {m : Nat} (step : β → Nat → β) (c : β) :
    (List.range m).foldl step c = (List.finRange m).foldl (fun acc (y : Fin m) => step acc y.val) c := by
  rw [range_eq_finRange_map, List.foldl_map]

/-- the conditional table handed to the oracles, from rational data -/
def csOf {n m : Nat} (cb : Fin n → Fin m → ℚ) (cu : Fin n → ℚ) : Oracle.QCond :=
  List.ofFn fun x => (List.ofFn (cb x), cu x)

/-- a `sumQ (zipWith …)` of a table over X against the conditional table, entry `y` -/
theorem sumQ_zip_cs {n m : Nat} (w : Fin n → ℚ) (cb : Fin n → Fin m → ℚ) (cu : Fin n → ℚ)
    (F : ℚ → List ℚ × ℚ → ℚ) :
    Oracle.sumQ (List.zipWith F (List.ofFn w) (csOf cb cu))
      = ∑ x, F (w x) (List.ofFn (cb x), cu x) := by
  unfold csOf
  rw [zipWith_ofFn, sumQ_ofFn]

/-! ### running minimum -/

theorem foldl_minQ_spec (l : List ℚ) (c : ℚ) :
    l.foldl Oracle.minQ c ≤ c ∧ (∀ x ∈ l, l.foldl Oracle.minQ c ≤ x) ∧
      (l.foldl Oracle.minQ c = c ∨ l.foldl Oracle.minQ c ∈ l) := by
  induction l generalizing c with
  | nil => simp
  | cons a l ih =>
    rw [List.foldl_cons, minQ_eq_min]
    obtain ⟨h1, h2, h3⟩ := ih (min c a)
    refine ⟨le_trans h1 (min_le_left _ _), ?_, ?_⟩
    · intro x hx
      rcases List.mem_cons.mp hx with e | e
      · rw [e]; exact le_trans h1 (min_le_right _ _)
      · exact h2 x e
    · rcases h3 with h | h
      · rcases min_choice c a with hc | hc
        · left; rw [h, hc]
        · right; rw [h, hc]; exact List.mem_cons_self
      · right; exact List.mem_cons_of_mem _ h

/-- one step of the optional running minimum over selected entries (as written in the oracles) -/
def optStep {ι : Type} (sel : ι → Prop) [DecidablePred sel] (v : ι → ℚ) (acc : Option ℚ) (y : ι) :
    Option ℚ :=
  if sel y then
    match acc with
    | none => some (v y)
    | some mm => some (Oracle.minQ mm (v y))
  else acc

theorem optFold_spec {ι : Type} (sel : ι → Prop) [DecidablePred sel] (v : ι → ℚ) (l : List ι)
    (acc : Option ℚ) :
    (l.foldl (optStep sel v) acc = none ↔ acc = none ∧ ∀ y ∈ l, ¬ sel y) ∧
    ∀ q, l.foldl (optStep sel v) acc = some q →
      (∀ a, acc = some a → q ≤ a) ∧ (∀ y ∈ l, sel y → q ≤ v y) ∧
      (acc = some q ∨ ∃ y ∈ l, sel y ∧ q = v y) := by
  induction l generalizing acc with
  | nil =>
    refine ⟨by simp, ?_⟩
    intro q hq
    simp only [List.foldl_nil] at hq
    refine ⟨?_, by simp, Or.inl hq⟩
    intro a ha; rw [hq] at ha; cases ha; exact le_refl _
  | cons i l ih =>
    rw [List.foldl_cons]
    obtain ⟨ih1, ih2⟩ := ih (optStep sel v acc i)
    by_cases hs : sel i
    · -- selected: the accumulator becomes `some`
      have hstep : ∃ r, optStep sel v acc i = some r ∧ r ≤ v i ∧ (∀ a, acc = some a → r ≤ a) ∧
          ((acc = none ∧ r = v i) ∨ acc = some r ∨ r = v i) := by
        unfold optStep
        rw [if_pos hs]
        cases acc with
        | none => exact ⟨v i, rfl, le_refl _, by simp, Or.inl ⟨rfl, rfl⟩⟩
        | some a =>
          refine ⟨Oracle.minQ a (v i), rfl, ?_, ?_, ?_⟩
          · rw [minQ_eq_min]; exact min_le_right _ _
          · intro a' ha'; cases ha'; rw [minQ_eq_min]; exact min_le_left _ _
          · rw [minQ_eq_min]
            rcases min_choice a (v i) with hc | hc
            · right; left; rw [hc]
            · right; right; exact hc
      obtain ⟨r, hr, hrv, hra, hrc⟩ := hstep
      rw [hr] at ih1 ih2 ⊢
      constructor
      · constructor
        · intro h; exact absurd (ih1.mp h).1 (by simp)
        · rintro ⟨_, h⟩; exact absurd hs (h i List.mem_cons_self)
      · intro q hq
        obtain ⟨k1, k2, k3⟩ := ih2 q hq
        have hqr : q ≤ r := k1 r rfl
        refine ⟨fun a ha => le_trans hqr (hra a ha), ?_, ?_⟩
        · intro y hy hsy
          rcases List.mem_cons.mp hy with e | e
          · rw [e]; exact le_trans hqr hrv
          · exact k2 y e hsy
        · rcases k3 with e | ⟨y, hy, hsy, e⟩
          · have e' : r = q := by cases e; rfl
            rcases hrc with ⟨_, h⟩ | h | h
            · right; exact ⟨i, List.mem_cons_self, hs, by rw [← e', h]⟩
            · left; rw [h, e']
            · right; exact ⟨i, List.mem_cons_self, hs, by rw [← e', h]⟩
          · right; exact ⟨y, List.mem_cons_of_mem _ hy, hsy, e⟩
    · have hstep : optStep sel v acc i = acc := by unfold optStep; rw [if_neg hs]
      rw [hstep] at ih1 ih2 ⊢
      constructor
      · rw [ih1]
        constructor
        · rintro ⟨h1, h2⟩
          refine ⟨h1, ?_⟩
          intro y hy
          rcases List.mem_cons.mp hy with e | e
          · rw [e]; exact hs
          · exact h2 y e
        · rintro ⟨h1, h2⟩
          exact ⟨h1, fun y hy => h2 y (List.mem_cons_of_mem _ hy)⟩
      · intro q hq
        obtain ⟨k1, k2, k3⟩ := ih2 q hq
        refine ⟨k1, ?_, ?_⟩
        · intro y hy hsy
          rcases List.mem_cons.mp hy with e | e
          · rw [e] at hsy; exact absurd hsy hs
          · exact k2 y e hsy
        · rcases k3 with e | ⟨y, hy, hsy, e⟩
          · left; exact e
          · right; exact ⟨y, List.mem_cons_of_mem _ hy, hsy, e⟩

/-- the optional running minimum over the selected entries of `Fin N`, started at `none`, is the
    `Finset.min'` of the selected values (and `none` when nothing is selected) -/
theorem optFold_finRange_eq_min' {N : Nat} (sel : Fin N → Prop) [DecidablePred sel] (v : Fin N → ℚ) :
    (List.finRange N).foldl (optStep sel v) none
      = if h : (Finset.univ.filter sel).Nonempty
        then some (((Finset.univ.filter sel).image v).min' (h.image _)) else none := by
  obtain ⟨s1, s2⟩ := optFold_spec sel v (List.finRange N) none
  by_cases h : (Finset.univ.filter sel).Nonempty
  · rw [dif_pos h]
    cases hr : (List.finRange N).foldl (optStep sel v) none with
    | none =>
      obtain ⟨k, hk⟩ := h
      have := (s1.mp hr).2 k (List.mem_finRange k)
      simp only [Finset.mem_filter, Finset.mem_univ, true_and] at hk
      exact absurd hk this
    | some q =>
      obtain ⟨_, k2, k3⟩ := s2 q hr
      congr 1
      apply le_antisymm
      · apply Finset.le_min'
        intro z hz
        obtain ⟨k, hk, rfl⟩ := Finset.mem_image.mp hz
        simp only [Finset.mem_filter, Finset.mem_univ, true_and] at hk
        exact k2 k (List.mem_finRange k) hk
      · rcases k3 with e | ⟨k, _, hk, e⟩
        · cases e
        · rw [e]
          apply Finset.min'_le
          apply Finset.mem_image_of_mem
          simp [hk]
  · rw [dif_neg h]
    apply s1.mpr
    refine ⟨rfl, ?_⟩
    intro k _ hk
    exact h ⟨k, by simp [hk]⟩

/-! ### row-major outer product -/

/-- one step of `Oracle.outerSpec`: `flatMap` of a table over `Fin N` with a table over `Fin n` is the
    row-major outer product over `Fin (N * n)` -/
theorem outer_step {N n : Nat} (g : Fin N → ℚ) (v : Fin n → ℚ) :
    (List.ofFn g).flatMap (fun x => (List.ofFn v).map fun y => x * y)
      = List.ofFn fun k : Fin (N * n) => g (idx2 k).1 * v (idx2 k).2 := by
  rw [List.flatMap_def, map_ofFn', List.ofFn_mul]
  congr 1
  apply congrArg List.ofFn
  funext i
  rw [map_ofFn']
  apply congrArg List.ofFn
  funext j
  have e : (⟨i.val * n + j.val, by
      calc i.val * n + j.val < i.val * n + n := Nat.add_lt_add_left j.isLt _
        _ = (i.val + 1) * n := by ring
        _ ≤ N * n := Nat.mul_le_mul_right _ i.isLt⟩ : Fin (N * n)) = C06.flat2 i j :=
    Fin.ext (C06.flat2_val i j).symm
  show g i * v j = g (idx2 _).1 * v (idx2 _).2
  rw [e, C06.idx2_flat2]

theorem outer_init {n : Nat} (v : Fin n → ℚ) :
    ([1] : List ℚ).flatMap (fun x => (List.ofFn v).map fun y => x * y) = List.ofFn v := by
  rw [List.flatMap_cons, List.flatMap_nil, List.append_nil, map_ofFn']
  simp only [one_mul]

end SLV.OracleSpec
