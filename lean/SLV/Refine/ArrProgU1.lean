/-
  C17 programs: the unlabelled rank-1 kind refines the flat specification.
-/
import SLV.Refine.ArrProg2

namespace SLV.MArr

def RU1 (k0 : Nat) (a : MArr1 Nat) (fl : List Nat) : Prop := Shape1 k0 a ∧ flat1 a = fl

theorem U1.dump_eq {k0 : Nat} {a : MArr1 Nat} {fl : List Nat} (h : RU1 k0 a fl) :
    (kindU1 k0).dump a = specDump fl := by
  obtain ⟨hs, hf⟩ := h
  have hl : (lexList [k0]).length = (flat1 a).length := by rw [flat1_length hs]; simp [lexList_length]
  refine mkDump_eq (content := id) sliceLL trivial hf (by rw [← hf]; exact Nat.le_refl _) ?_
  rw [toList_eq_lexList, U1.idx_eq, ← hf]
  exact mapM_getElem _ _ _ hl (U1.idx_lex hs)

theorem U1.fromFn_ok (k0 : Nat) (f : List Nat → Nat) :
    Shape1 k0 (MArr1.fromFn k0 f) ∧ flat1 (MArr1.fromFn k0 f) = (lexList [k0]).map f := by
  simp [MArr1.fromFn, MArr1.fromIter, Shape1, flat1, toList_eq_lexList, lexList_length]

theorem refinesU1 (k0 : Nat) : Refines (kindU1 k0) (kindSpec false false [k0]) (RU1 k0) where
  labelled := rfl
  newtype := rfl
  dims := rfl
  zeros := ⟨(U1.zeros_ok 0 k0).1, by rw [(U1.zeros_ok 0 k0).2]; simp [prodDims]⟩
  dflt := ⟨(U1.zeros_ok 0 k0).1, by rw [(U1.zeros_ok 0 k0).2]; simp [prodDims]⟩
  fromFn f := U1.fromFn_ok k0 f
  fromIter v hne := by
    by_cases h : v.length = k0
    · have hS : (kindSpec false false [k0]).fromIter v = .ok v := by simp [kindSpec, prodDims, h]
      rw [hS]
      exact ⟨h, rfl⟩
    · exfalso; apply hne
      simp [kindSpec, prodDims, h]
  fromNested t hne := by
    cases t with
    | n2 v => simp [kindSpec, kindU1, Nested.rank, OutR]
    | n3 v => simp [kindSpec, kindU1, Nested.rank, OutR]
    | n1 v =>
      by_cases h : v.length = k0
      · have hS : (kindSpec false false [k0]).fromNested (.n1 v) = .ok v := by
          simp [kindSpec, Nested.rank, Nested.outerOk, Nested.innerOk, h, Nested.flat]
        rw [hS]
        exact ⟨h, rfl⟩
      · exfalso; apply hne
        simp [kindSpec, Nested.rank, Nested.outerOk, Nested.innerOk, h]
  index a fl idx h := by
    obtain ⟨hs, hf⟩ := h
    match idx with
    | [] => simp [kindSpec, kindU1]
    | _ :: _ :: _ => simp [kindSpec, kindU1]
    | [i] =>
      by_cases hi : i < k0
      · simp [kindSpec, kindU1, inShape, hi, U1.index_eq a i, hf]
      · have := (U1.oob hs i hi 0).1
        have hsh : inShape [k0] [i] = false := by
          simp [inShape]; omega
        simp [kindSpec, kindU1, this, hsh, Out.ofOpt]
  indexMut a fl idx v h := by
    obtain ⟨hs, hf⟩ := h
    match idx with
    | [] => simp [kindSpec, kindU1, OutR]
    | _ :: _ :: _ => simp [kindSpec, kindU1, OutR]
    | [i] =>
      by_cases hi : i < k0
      · obtain ⟨a', h1, h2, h3⟩ := U1.write hs i hi v
        have hS : (kindSpec false false [k0]).indexMut fl [i] v = .ok (fl.set i v) := by
          simp [kindSpec, inShape, hi]
        rw [hS]
        exact OutR.ofOpt_some h1 ⟨h2, by rw [h3, hf]⟩
      · have := (U1.oob hs i hi v).2
        have hsh : inShape [k0] [i] = false := by
          simp [inShape]; omega
        have hS : (kindSpec false false [k0]).indexMut fl [i] v = .panic := by
          simp [kindSpec, hsh]
        rw [hS]
        exact OutR.ofOpt_none this
  dump a fl h := U1.dump_eq h
  iterMutAdd a fl c _ := by simp [kindSpec, kindU1, OutR]
  downDump a fl i _ := by simp [kindSpec, kindU1]
  downMutSet a fl i idx v _ := by simp [kindSpec, kindU1, OutR]
  downMutFn a fl i f _ := by simp [kindSpec, kindU1, OutR]
  beq a fl b fl' ha hb := by
    show (a == b) = (fl == fl')
    rw [← ha.2, ← hb.2]; rfl
  clone a fl h := h
  conv a fl _ := by simp [kindSpec, kindU1]
  asRef a fl _ := by simp [kindSpec, kindU1]
  product ws := by simp [kindSpec, kindU1, specProduct, OutR]
  productIter ws := by simp [kindSpec, kindU1]
  tryFrom t := by
    cases t with
    | n2 v => simp [kindSpec, kindU1, Nested.rank]
    | n3 v => simp [kindSpec, kindU1, Nested.rank]
    | n1 v =>
      by_cases hsh : v.length = k0
      · have hS : (kindSpec false false [k0]).tryFrom (.n1 v) = firstErr (flat1 v) := by
          simp [kindSpec, Nested.rank, Nested.shapeOk, Nested.outerOk, Nested.innerOk, hsh, Nested.flat, flat1]
        rw [hS, firstErr_eq]
        simp only [kindU1, hsh, if_true, tryFrom1_even]
        cases hfe : firstErrE (flat1 v) with
        | error e => rfl
        | ok l =>
          obtain ⟨s', h1, _⟩ := (sliceLL (V := Nat)).drain (v.length + 1) (MArr1.iter v) trivial
            (by show v.length < v.length + 1; omega)
          have hl : l = flat1 v := by
            unfold firstErrE at hfe
            cases hfind : (flat1 v).find? (fun v => v % 2 == 1) with
            | some x => simp [hfind] at hfe
            | none => simp [hfind] at hfe; exact hfe.symm
          simp only [MArr1.iter, id] at h1
          simp [onOk, exceptOut, Out.map, MArr1.iter, h1, hl, flat1]
      · have hS : (kindSpec false false [k0]).tryFrom (.n1 v) = .na := by
          simp [kindSpec, Nested.rank, Nested.shapeOk, Nested.outerOk, Nested.innerOk, hsh]
        rw [hS]
        simp [kindU1, hsh]
  iterWith a fl h := by
    obtain ⟨hs, hf⟩ := h
    have hl : (lexList [k0]).length = (flat1 a).length := by rw [flat1_length hs]; simp [lexList_length]
    have := iterWith_of _ _ _ hl (U1.idx_lex hs)
    simp [kindU1, kindSpec, mkIterWith, toList_eq_lexList, U1.idx_eq, this, Out.ofOpt, hf]
  indexes := mrEnum_eq _
  keys := rfl
  len := by simp [kindU1, kindSpec, prodDims]
  resumeIdx := mrResume_eq _
  resumeKeys := rfl

end SLV.MArr
