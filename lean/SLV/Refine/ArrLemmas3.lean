/-
  Helper lemmas for C17 (part 3): the flattening `Iter` adaptor is a complete, fused iterator over the cells
  in row-major order — under the invariant that all rows have the same length.
-/
import SLV.Refine.ArrLemmas2

namespace SLV.MArr

variable {V I S : Type}

/-- an iterator state machine that behaves like a list: `content` is what is still to come -/
structure ListLike (nx : I → Option V × I) (content : I → List V) (Good : I → Prop) : Prop where
  nil : ∀ i, Good i → content i = [] → (nx i).1 = none ∧ Good (nx i).2 ∧ content (nx i).2 = []
  cons : ∀ i x xs, Good i → content i = x :: xs → (nx i).1 = some x ∧ Good (nx i).2 ∧ content (nx i).2 = xs

theorem ListLike.drain {nx : I → Option V × I} {content : I → List V} {Good : I → Prop}
    (h : ListLike nx content Good) : ∀ (fuel : Nat) (s : I), Good s → (content s).length < fuel →
    ∃ s', SLV.MArr.drain nx fuel s = (content s, s') ∧ Good s' ∧ content s' = [] := by
  intro fuel
  induction fuel with
  | zero => intro s _ hl; simp at hl
  | succ fuel ih =>
    intro s hg hl
    cases hc : content s with
    | nil =>
      obtain ⟨h1, h2, h3⟩ := h.nil s hg hc
      refine ⟨(nx s).2, ?_, h2, h3⟩
      rcases hq : nx s with ⟨o, s'⟩
      rw [hq] at h1; simp at h1; subst h1
      simp [SLV.MArr.drain, hq]
    | cons x xs =>
      obtain ⟨h1, h2, h3⟩ := h.cons s x xs hg hc
      rcases hq : nx s with ⟨o, s1⟩
      rw [hq] at h1 h2 h3; simp at h1 h2 h3; subst h1
      obtain ⟨s', g1, g2, g3⟩ := ih s1 h2 (by rw [h3]; rw [hc] at hl; simp at hl; omega)
      exact ⟨s', by simp [SLV.MArr.drain, hq, g1, h3], g2, g3⟩

theorem ListLike.nextN_nil {nx : I → Option V × I} {content : I → List V} {Good : I → Prop}
    (h : ListLike nx content Good) : ∀ (m : Nat) (s : I), Good s → content s = [] →
    (nextN nx m s).1 = List.replicate m none := by
  intro m
  induction m with
  | zero => intro s _ _; rfl
  | succ m ih =>
    intro s hg hc
    obtain ⟨h1, h2, h3⟩ := h.nil s hg hc
    simp [nextN, h1, ih _ h2 h3, List.replicate_succ]

theorem sliceLL : ListLike (V := V) SliceIter.next id (fun _ => True) := by
  refine ⟨fun i _ hc => ?_, fun i x xs _ hc => ?_⟩
  · simp only [id] at hc; subst hc; simp [SliceIter.next]
  · simp only [id] at hc; subst hc; simp [SliceIter.next]

/-- what an `Iter` state still has to yield -/
def Iter.rem (content : I → List V) (fl : S → List V) (it : Iter S I) : List V :=
  (match it.iter with | some i => content i | none => []) ++ (it.iters.map fl).flatten

/-- invariant of the `Iter` states reachable from `Iter.new` on rows of equal length `n` -/
def Iter.Inv (content : I → List V) (Good : I → Prop) (RowOk : S → Prop) (n : Nat) (it : Iter S I) : Prop :=
  (∀ r ∈ it.iters, RowOk r) ∧
  (match it.iter with | none => it.iters = [] | some i => Good i ∧ (n = 0 → content i = []))

theorem flatten_nil_of_len0 (fl : S → List V) (rows : List S) (h : ∀ r ∈ rows, (fl r).length = 0) :
    (rows.map fl).flatten = [] := by
  induction rows with
  | nil => rfl
  | cons r rs ih =>
    have h0 : fl r = [] := List.eq_nil_of_length_eq_zero (h r (by simp))
    simp [h0, ih (fun r hr => h r (List.mem_cons_of_mem _ hr))]

theorem iterLL {into : S → I} {nx : I → Option V × I} {content : I → List V} {Good : I → Prop}
    {fl : S → List V} {RowOk : S → Prop} {n : Nat}
    (hLL : ListLike nx content Good)
    (hrow : ∀ r, RowOk r → Good (into r) ∧ content (into r) = fl r ∧ (fl r).length = n) :
    ListLike (Iter.next into nx) (Iter.rem content fl) (Iter.Inv content Good RowOk n) := by
  have main : ∀ it : Iter S I, Iter.Inv content Good RowOk n it →
      (∀ (hc : Iter.rem content fl it = []),
        (Iter.next into nx it).1 = none ∧ Iter.Inv content Good RowOk n (Iter.next into nx it).2 ∧
          Iter.rem content fl (Iter.next into nx it).2 = []) ∧
      (∀ x xs (hc : Iter.rem content fl it = x :: xs),
        (Iter.next into nx it).1 = some x ∧ Iter.Inv content Good RowOk n (Iter.next into nx it).2 ∧
          Iter.rem content fl (Iter.next into nx it).2 = xs) := by
    rintro ⟨iters, iter⟩ ⟨hrows, hcur⟩
    cases iter with
    | none =>
      simp only at hcur; subst hcur
      refine ⟨fun _ => ?_, fun x xs hc => ?_⟩
      · simp [Iter.next, Iter.Inv, Iter.rem]
      · simp [Iter.rem] at hc
    | some i =>
      obtain ⟨hg, hn0⟩ := hcur
      cases hci : content i with
      | cons y ys =>
        obtain ⟨h1, h2, h3⟩ := hLL.cons i y ys hg hci
        rcases hq : nx i with ⟨o, i'⟩
        rw [hq] at h1 h2 h3; simp at h1 h2 h3; subst h1
        have hne : n ≠ 0 := fun h0 => by simp [hn0 h0] at hci
        refine ⟨fun hc => ?_, fun x xs hc => ?_⟩
        · simp [Iter.rem, hci] at hc
        · simp only [Iter.rem, hci, List.cons_append, List.cons.injEq] at hc
          obtain ⟨rfl, rfl⟩ := hc
          simp [Iter.next, hq, Iter.Inv, Iter.rem, h2, h3, hne]
          exact hrows
      | nil =>
        obtain ⟨h1, _, _⟩ := hLL.nil i hg hci
        rcases hq : nx i with ⟨o, i'⟩
        rw [hq] at h1; simp at h1; subst h1
        cases iters with
        | nil =>
          refine ⟨fun _ => ?_, fun x xs hc => ?_⟩
          · simp [Iter.next, hq, Iter.Inv, Iter.rem]
          · simp [Iter.rem, hci] at hc
        | cons r rs =>
          obtain ⟨g1, g2, g3⟩ := hrow r (hrows r (by simp))
          have hrs : ∀ r ∈ rs, RowOk r := fun r hr => hrows r (List.mem_cons_of_mem _ hr)
          cases hfr : fl r with
          | nil =>
            have hn : n = 0 := by rw [← g3, hfr]; rfl
            obtain ⟨k1, k2, k3⟩ := hLL.nil (into r) g1 (by rw [g2, hfr])
            have hrest : (rs.map fl).flatten = [] :=
              flatten_nil_of_len0 fl rs (fun r hr => by rw [(hrow r (hrs r hr)).2.2, hn])
            refine ⟨fun _ => ?_, fun x xs hc => ?_⟩
            · simp [Iter.next, hq, Iter.Inv, Iter.rem, k1, k2, k3, hrest]
              exact hrs
            · simp [Iter.rem, hci, hfr, hrest] at hc
          | cons y ys =>
            obtain ⟨k1, k2, k3⟩ := hLL.cons (into r) y ys g1 (by rw [g2, hfr])
            have hne : n ≠ 0 := fun h0 => by rw [← g3, hfr] at h0; simp at h0
            refine ⟨fun hc => ?_, fun x xs hc => ?_⟩
            · simp [Iter.rem, hci, hfr] at hc
            · simp only [Iter.rem, hci, List.nil_append, List.map_cons, List.flatten_cons, hfr,
                List.cons_append, List.cons.injEq] at hc
              obtain ⟨rfl, rfl⟩ := hc
              simp [Iter.next, hq, Iter.Inv, Iter.rem, k1, k2, k3, hne]
              exact hrs
  exact ⟨fun it hi hc => (main it hi).1 hc, fun it x xs hi hc => (main it hi).2 x xs hc⟩

theorem Iter.new_inv {into : S → I} {content : I → List V} {Good : I → Prop}
    {fl : S → List V} {RowOk : S → Prop} {n : Nat}
    (hrow : ∀ r, RowOk r → Good (into r) ∧ content (into r) = fl r ∧ (fl r).length = n)
    (rows : List S) (h : ∀ r ∈ rows, RowOk r) :
    Iter.Inv content Good RowOk n (Iter.new into rows) ∧
      Iter.rem content fl (Iter.new into rows) = (rows.map fl).flatten := by
  cases rows with
  | nil => simp [Iter.new, Iter.Inv, Iter.rem]
  | cons r rs =>
    obtain ⟨g1, g2, g3⟩ := hrow r (h r (by simp))
    refine ⟨⟨fun x hx => h x (List.mem_cons_of_mem _ hx), g1, fun h0 => ?_⟩, by simp [Iter.new, Iter.rem, g2]⟩
    rw [g2]; exact List.eq_nil_of_length_eq_zero (by rw [g3, h0])

theorem ListLike.complete {nx : I → Option V × I} {content : I → List V} {Good : I → Prop}
    (h : ListLike nx content Good) (s : I) (hg : Good s) (fuel : Nat) (hf : (content s).length < fuel) :
    ∃ s', SLV.MArr.drain nx fuel s = (content s, s') ∧ ∀ m, (nextN nx m s').1 = List.replicate m none := by
  obtain ⟨s', h1, h2, h3⟩ := h.drain fuel s hg hf
  exact ⟨s', h1, fun m => h.nextN_nil m s' h2 h3⟩

/-! instances: rank 2 and 3, both families -/

abbrev U2.Good (k1 : Nat) : MArr2.It V → Prop :=
  Iter.Inv (S := MArr1 V) id (fun _ => True) (fun r => r.length = k1) k1
abbrev U2.content : MArr2.It V → List V := Iter.rem (S := MArr1 V) id id

theorem U2.LL (k1 : Nat) : ListLike (V := V) MArr2.itNext U2.content (U2.Good k1) :=
  iterLL (into := MArr1.iter) sliceLL (fun _ hr => ⟨trivial, rfl, hr⟩)

theorem U2.iter_init {k0 k1 : Nat} {a : MArr2 V} (h : Shape2 k0 k1 a) :
    U2.Good k1 (MArr2.iter a) ∧ U2.content (MArr2.iter a) = flat2 a := by
  have := Iter.new_inv (into := MArr1.iter) (content := id) (Good := fun _ => True) (fl := id)
    (RowOk := fun r : MArr1 V => r.length = k1) (n := k1) (fun _ hr => ⟨trivial, rfl, hr⟩) a h.2
  exact ⟨this.1, this.2.trans (by simp [flat2])⟩

abbrev U3.Good (k1 k2 : Nat) : MArr3.It V → Prop :=
  Iter.Inv (S := MArr2 V) U2.content (U2.Good k2) (Shape2 k1 k2) (k1 * k2)
abbrev U3.content : MArr3.It V → List V := Iter.rem (S := MArr2 V) U2.content flat2

theorem U3.hrow (k1 k2 : Nat) (p : MArr2 V) (hp : Shape2 k1 k2 p) :
    U2.Good k2 (MArr2.iter p) ∧ U2.content (MArr2.iter p) = flat2 p ∧ (flat2 p).length = k1 * k2 :=
  ⟨(U2.iter_init hp).1, (U2.iter_init hp).2, flat2_length hp⟩

theorem U3.LL (k1 k2 : Nat) : ListLike (V := V) MArr3.itNext U3.content (U3.Good k1 k2) :=
  iterLL (into := MArr2.iter) (U2.LL k2) (U3.hrow k1 k2)

theorem U3.iter_init {k0 k1 k2 : Nat} {a : MArr3 V} (h : Shape3 k0 k1 k2 a) :
    U3.Good k1 k2 (MArr3.iter a) ∧ U3.content (MArr3.iter a) = flat3 a := by
  have := Iter.new_inv (into := MArr2.iter) (U3.hrow (V := V) k1 k2) a h.2
  exact ⟨this.1, this.2.trans rfl⟩

abbrev L2.Good (d1 : Nat) : MArrD2.It V → Prop :=
  Iter.Inv (S := MArrD1 V) id (fun _ => True) (fun r => Shape1 d1 r.toU) d1
abbrev L2.content : MArrD2.It V → List V := Iter.rem (S := MArrD1 V) id (fun r => flat1 r.toU)

theorem L2.LL (d1 : Nat) : ListLike (V := V) MArrD2.itNext L2.content (L2.Good d1) :=
  iterLL (into := MArrD1.iter) sliceLL (fun _ hr => ⟨trivial, rfl, hr⟩)

theorem L2.iter_init {d0 d1 : Nat} {a : MArrD2 V} (h : Shape2 d0 d1 a.toU) :
    L2.Good d1 (MArrD2.iter a) ∧ L2.content (MArrD2.iter a) = flat2 a.toU := by
  have hr : ∀ r ∈ a.inner.inner, Shape1 d1 r.toU := fun r hr => h.2 _ (List.mem_map_of_mem hr)
  have := Iter.new_inv (into := MArrD1.iter) (content := id) (Good := fun _ => True)
    (fl := fun r : MArrD1 V => flat1 r.toU) (RowOk := fun r : MArrD1 V => Shape1 d1 r.toU) (n := d1)
    (fun _ hr => ⟨trivial, rfl, hr⟩) a.inner.inner hr
  exact ⟨this.1, this.2.trans rfl⟩

abbrev L3.Good (d1 d2 : Nat) : MArrD3.It V → Prop :=
  Iter.Inv (S := MArrD2 V) L2.content (L2.Good d2) (fun p => Shape2 d1 d2 p.toU) (d1 * d2)
abbrev L3.content : MArrD3.It V → List V := Iter.rem (S := MArrD2 V) L2.content (fun p => flat2 p.toU)

theorem L3.hrow (d1 d2 : Nat) (p : MArrD2 V) (hp : Shape2 d1 d2 p.toU) :
    L2.Good d2 (MArrD2.iter p) ∧ L2.content (MArrD2.iter p) = flat2 p.toU ∧ (flat2 p.toU).length = d1 * d2 :=
  ⟨(L2.iter_init hp).1, (L2.iter_init hp).2, flat2_length hp⟩

theorem L3.LL (d1 d2 : Nat) : ListLike (V := V) MArrD3.itNext L3.content (L3.Good d1 d2) :=
  iterLL (into := MArrD2.iter) (L2.LL d2) (L3.hrow d1 d2)

theorem L3.iter_init {d0 d1 d2 : Nat} {a : MArrD3 V} (h : Shape3 d0 d1 d2 a.toU) :
    L3.Good d1 d2 (MArrD3.iter a) ∧ L3.content (MArrD3.iter a) = flat3 a.toU := by
  have hr : ∀ p ∈ a.inner.inner, Shape2 d1 d2 p.toU := fun p hp => h.2 _ (List.mem_map_of_mem hp)
  have := Iter.new_inv (into := MArrD2.iter) (L3.hrow (V := V) d1 d2) a.inner.inner hr
  exact ⟨this.1, this.2.trans (by simp [flat3, flat2, MArrD3.toU, Function.comp_def])⟩

/-! ### labelled operations commute with erasure -/

theorem L1.index_toU (a : MArrD1 V) (i : Nat) : a.index i = MArr1.index a.toU i := rfl

theorem L2.index_toU (a : MArrD2 V) (i j : Nat) : a.index i j = MArr2.index a.toU i j := by
  simp only [MArrD2.index, MArr2.index, MArrD1.index, MArrD2.toU, List.getElem?_map]
  cases a.inner.inner[i]? <;> rfl

theorem L3.index_toU (a : MArrD3 V) (i j k : Nat) : a.index i j k = MArr3.index a.toU i j k := by
  simp only [MArrD3.index, MArr3.index, MArrD1.index, MArrD3.toU, List.getElem?_map]
  cases a.inner.inner[i]? with
  | none => rfl
  | some p => exact L2.index_toU p j k

theorem L1.indexMut_toU (a : MArrD1 V) (i : Nat) (v : V) :
    (a.indexMut i v).map MArrD1.toU = MArr1.indexMut a.toU i v := by
  simp only [MArrD1.indexMut, MArr1.indexMut, MArrD1.toU]
  by_cases h : i < a.inner.length <;> simp [h, MArrD1.toU]

theorem L2.indexMut_toU (a : MArrD2 V) (i j : Nat) (v : V) :
    (a.indexMut i j v).map MArrD2.toU = MArr2.indexMut a.toU i j v := by
  simp only [MArrD2.indexMut, MArr2.indexMut, MArrD1.index, MArrD2.toU, List.getElem?_map]
  cases hr : a.inner.inner[i]? with
  | none => rfl
  | some r =>
    have hi : i < a.inner.inner.length := by
      by_contra hc; rw [List.getElem?_eq_none (by omega)] at hr; cases hr
    simp only [Option.map_some]
    rw [← L1.indexMut_toU r j v]
    cases r.indexMut j v with
    | none => rfl
    | some r' =>
      simp only [MArrD1.indexMut, hi, if_true, Option.map_some]
      show some ((a.inner.inner.set i r').map MArrD1.toU) = _
      rw [List.map_set]

theorem L3.indexMut_toU (a : MArrD3 V) (i j k : Nat) (v : V) :
    (a.indexMut i j k v).map MArrD3.toU = MArr3.indexMut a.toU i j k v := by
  simp only [MArrD3.indexMut, MArr3.indexMut, MArrD1.index, MArrD3.toU, List.getElem?_map]
  cases hr : a.inner.inner[i]? with
  | none => rfl
  | some r =>
    have hi : i < a.inner.inner.length := by
      by_contra hc; rw [List.getElem?_eq_none (by omega)] at hr; cases hr
    simp only [Option.map_some]
    rw [← L2.indexMut_toU r j k v]
    cases r.indexMut j k v with
    | none => rfl
    | some r' =>
      simp only [MArrD1.indexMut, hi, if_true, Option.map_some]
      show some ((a.inner.inner.set i r').map MArrD2.toU) = _
      rw [List.map_set]

end SLV.MArr
