/-
  `Tab.reduceMin` / `Tab.reduceMax` at the exact semantics: IEEE-style skipping of NaN and
  the behaviour of +inf, as the Rust `reduce(f64::min)` computes them.
-/
import SLV.Refine.Lift

namespace SLV
open Scalar

variable {f : Fmt}

namespace XQ

@[simp] theorem min_nan_left (x : XQ f) : Scalar.min (nan : XQ f) x = x := by
  unfold Scalar.min; rfl
@[simp] theorem min_nan_right (x : XQ f) : Scalar.min x (nan : XQ f) = x := by
  unfold Scalar.min
  cases x <;> rfl
@[simp] theorem min_pinf_fin (q : ℚ) : Scalar.min (pinf : XQ f) (fin q) = fin q := by
  unfold Scalar.min; rfl
@[simp] theorem min_fin_pinf (q : ℚ) : Scalar.min (fin q : XQ f) pinf = fin q := by
  unfold Scalar.min; rfl
@[simp] theorem min_pinf_pinf : Scalar.min (pinf : XQ f) pinf = pinf := by
  unfold Scalar.min; rfl

end XQ

/-- an entry a `min`-reduction may meet: a finite value, or one that is skipped (+inf, NaN) -/
def Skippable (x : XQ f) : Prop := (∃ q, x = XQ.fin q) ∨ x = XQ.pinf ∨ x = XQ.nan

theorem Skippable.fin (q : ℚ) : Skippable (XQ.fin q : XQ f) := Or.inl ⟨q, rfl⟩

/-- state of a running min over skippable entries: either nothing finite seen yet (acc is +inf or NaN)
    or the minimum of the finite ones seen -/
theorem foldl_min_skip (l : List (XQ f)) (hl : ∀ x ∈ l, Skippable x) (acc : XQ f) (hacc : Skippable acc) :
    let r := l.foldl Scalar.min acc
    Skippable r ∧
    (∀ q, acc = XQ.fin q → ∃ m, r = XQ.fin m ∧ m ≤ q) ∧
    (∀ q, XQ.fin q ∈ l → ∃ m, r = XQ.fin m ∧ m ≤ q) ∧
    (∀ m, r = XQ.fin m → acc = XQ.fin m ∨ XQ.fin m ∈ l) := by
  induction l generalizing acc with
  | nil =>
    simp only [List.foldl_nil]
    refine ⟨hacc, ?_, ?_, ?_⟩
    · intro q hq; exact ⟨q, hq, le_refl _⟩
    · intro q hq; simp at hq
    · intro m hm; left; exact hm
  | cons x xs ih =>
    have hx : Skippable x := hl x (by simp)
    have hxs : ∀ y ∈ xs, Skippable y := fun y hy => hl y (by simp [hy])
    -- classify the new accumulator
    have hstep : Skippable (Scalar.min acc x) ∧
        (∀ q, acc = XQ.fin q → ∃ m, Scalar.min acc x = XQ.fin m ∧ m ≤ q) ∧
        (∀ q, x = XQ.fin q → ∃ m, Scalar.min acc x = XQ.fin m ∧ m ≤ q) ∧
        (∀ m, Scalar.min acc x = XQ.fin m → acc = XQ.fin m ∨ x = XQ.fin m) := by
      rcases hacc with ⟨a, rfl⟩ | rfl | rfl <;> rcases hx with ⟨b, rfl⟩ | rfl | rfl
      · refine ⟨by rw [XQ.min_fin]; exact Skippable.fin _, ?_, ?_, ?_⟩
        · intro q hq; cases hq; exact ⟨_, XQ.min_fin a b, min_le_left _ _⟩
        · intro q hq; cases hq; exact ⟨_, XQ.min_fin a b, min_le_right _ _⟩
        · intro m hm; rw [XQ.min_fin] at hm; cases hm
          rcases min_choice a b with h | h
          · left; rw [h]
          · right; rw [h]
      · refine ⟨by simp; exact Skippable.fin _, ?_, ?_, ?_⟩
        · intro q hq; cases hq; exact ⟨a, by simp, le_refl _⟩
        · intro q hq; cases hq
        · intro m hm; simp at hm; left; rw [hm]
      · refine ⟨by simp; exact Skippable.fin _, ?_, ?_, ?_⟩
        · intro q hq; cases hq; exact ⟨a, by simp, le_refl _⟩
        · intro q hq; cases hq
        · intro m hm; simp at hm; left; rw [hm]
      · refine ⟨by simp; exact Skippable.fin _, ?_, ?_, ?_⟩
        · intro q hq; cases hq
        · intro q hq; cases hq; exact ⟨b, by simp, le_refl _⟩
        · intro m hm; simp at hm; right; rw [hm]
      · refine ⟨by simp; exact Or.inr (Or.inl rfl), ?_, ?_, ?_⟩
        · intro q hq; cases hq
        · intro q hq; cases hq
        · intro m hm; simp at hm
      · refine ⟨by simp; exact Or.inr (Or.inl rfl), ?_, ?_, ?_⟩
        · intro q hq; cases hq
        · intro q hq; cases hq
        · intro m hm; simp at hm
      · refine ⟨by simp; exact Skippable.fin _, ?_, ?_, ?_⟩
        · intro q hq; cases hq
        · intro q hq; cases hq; exact ⟨b, by simp, le_refl _⟩
        · intro m hm; simp at hm; right; rw [hm]
      · refine ⟨by simp; exact Or.inr (Or.inl rfl), ?_, ?_, ?_⟩
        · intro q hq; cases hq
        · intro q hq; cases hq
        · intro m hm; simp at hm
      · refine ⟨by simp; exact Or.inr (Or.inr rfl), ?_, ?_, ?_⟩
        · intro q hq; cases hq
        · intro q hq; cases hq
        · intro m hm; simp at hm
    obtain ⟨s1, s2, s3, s4⟩ := hstep
    obtain ⟨i1, i2, i3, i4⟩ := ih hxs (Scalar.min acc x) s1
    simp only [List.foldl_cons]
    refine ⟨i1, ?_, ?_, ?_⟩
    · intro q hq
      obtain ⟨m1, hm1, hle1⟩ := s2 q hq
      obtain ⟨m2, hm2, hle2⟩ := i2 m1 hm1
      exact ⟨m2, hm2, le_trans hle2 hle1⟩
    · intro q hq
      rcases List.mem_cons.mp hq with h | h
      · obtain ⟨m1, hm1, hle1⟩ := s3 q h.symm
        obtain ⟨m2, hm2, hle2⟩ := i2 m1 hm1
        exact ⟨m2, hm2, le_trans hle2 hle1⟩
      · exact i3 q h
    · intro m hm
      rcases i4 m hm with h | h
      · rcases s4 m h with h' | h'
        · left; exact h'
        · right; rw [h']; simp
      · right; simp [h]

/-- `reduce(min)` over entries that are finite, +inf or NaN, at least one of them finite:
    the result is the least finite entry. -/
theorem reduceMin_skip {n : Nat} (v : Tab (XQ f) n)
    (hcls : ∀ i : Fin n, Skippable v[i])
    (hex : ∃ i : Fin n, ∃ q, v[i] = XQ.fin q) :
    ∃ m, Tab.reduceMin v = XQ.fin m ∧ (∀ (i : Fin n) q, v[i] = XQ.fin q → m ≤ q) ∧
      (∃ i : Fin n, v[i] = XQ.fin m) := by
  obtain ⟨i0, q0, hq0⟩ := hex
  have hn : 0 < n := i0.pos
  unfold Tab.reduceMin Tab.reduce
  rw [dif_pos hn]
  have hmem : ∀ x, x ∈ v.toList → ∃ i : Fin n, v[i] = x := by
    intro x hx
    rw [Vector.mem_toList_iff] at hx
    obtain ⟨i, hi, rfl⟩ := Vector.getElem_of_mem hx
    exact ⟨⟨i, hi⟩, rfl⟩
  have hl : v.toList = v[0] :: v.toList.tail := by
    have hne : v.toList ≠ [] := by
      intro h; have := congrArg List.length h; simp at this; omega
    rw [← List.cons_head_tail hne]
    simp [List.head_eq_getElem]
  have htail : ∀ x ∈ v.toList.tail, Skippable x := by
    intro x hx
    obtain ⟨i, rfl⟩ := hmem x (List.mem_of_mem_tail hx)
    exact hcls i
  obtain ⟨r1, r2, r3, r4⟩ := foldl_min_skip v.toList.tail htail v[0] (hcls ⟨0, hn⟩)
  -- some finite entry is either the head or in the tail
  have hin : XQ.fin q0 ∈ v.toList := by
    rw [← hq0, Vector.mem_toList_iff]; exact Vector.getElem_mem _
  rw [hl] at hin
  have hfin : ∃ m, List.foldl Scalar.min v[0] v.toList.tail = XQ.fin m := by
    rcases List.mem_cons.mp hin with h | h
    · obtain ⟨m, hm, _⟩ := r2 q0 h.symm; exact ⟨m, hm⟩
    · obtain ⟨m, hm, _⟩ := r3 q0 h; exact ⟨m, hm⟩
  obtain ⟨m, hm⟩ := hfin
  refine ⟨m, hm, ?_, ?_⟩
  · intro i q hq
    have hin' : XQ.fin q ∈ v.toList := by
      rw [← hq, Vector.mem_toList_iff]; exact Vector.getElem_mem _
    rw [hl] at hin'
    rcases List.mem_cons.mp hin' with h | h
    · obtain ⟨m', hm', hle⟩ := r2 q h.symm
      rw [hm] at hm'; cases hm'; exact hle
    · obtain ⟨m', hm', hle⟩ := r3 q h
      rw [hm] at hm'; cases hm'; exact hle
  · rcases r4 m hm with h | h
    · exact ⟨⟨0, hn⟩, h⟩
    · exact hmem _ (List.mem_of_mem_tail h)

/-- all entries finite: `reduce(min)` is the least entry -/
theorem reduceMin_liftT {n : Nat} (g : Fin n → ℚ) (hn : 0 < n) :
    ∃ m, Tab.reduceMin (liftT g : Tab (XQ f) n) = XQ.fin m ∧ (∀ i, m ≤ g i) ∧ (∃ i, m = g i) := by
  obtain ⟨m, h1, h2, ⟨i, h3⟩⟩ := reduceMin_skip (f := f) (liftT g)
    (fun i => by rw [liftT_getElem]; exact Skippable.fin _)
    ⟨⟨0, hn⟩, g ⟨0, hn⟩, by rw [liftT_getElem]⟩
  refine ⟨m, h1, ?_, ?_⟩
  · intro j; exact h2 j (g j) (by rw [liftT_getElem])
  · refine ⟨i, ?_⟩
    rw [liftT_getElem] at h3; cases h3; rfl


theorem foldl_max_fin_list (l : List ℚ) (c : ℚ) :
    ∃ m, (l.map (XQ.fin (f := f))).foldl Scalar.max (XQ.fin c) = XQ.fin m ∧ c ≤ m ∧ (∀ q ∈ l, q ≤ m) ∧
      (m = c ∨ m ∈ l) := by
  induction l generalizing c with
  | nil => exact ⟨c, rfl, le_refl _, by simp, Or.inl rfl⟩
  | cons x xs ih =>
    obtain ⟨m, h1, h2, h3, h4⟩ := ih (max c x)
    refine ⟨m, ?_, le_trans (le_max_left _ _) h2, ?_, ?_⟩
    · simpa [List.foldl_cons, XQ.max_fin] using h1
    · intro q hq
      rcases List.mem_cons.mp hq with h | h
      · rw [h]; exact le_trans (le_max_right _ _) h2
      · exact h3 q h
    · rcases h4 with h | h
      · rcases max_choice c x with hc | hc
        · left; rw [h, hc]
        · right; rw [h, hc]; simp
      · right; simp [h]

/-- all entries finite: `reduce(max)` is the greatest entry -/
theorem reduceMax_liftT {n : Nat} (g : Fin n → ℚ) (hn : 0 < n) :
    ∃ m, Tab.reduceMax (liftT g : Tab (XQ f) n) = XQ.fin m ∧ (∀ i, g i ≤ m) ∧ (∃ i, m = g i) := by
  unfold Tab.reduceMax Tab.reduce
  rw [dif_pos hn]
  have hl : (liftT g : Tab (XQ f) n).toList = (List.ofFn g).map XQ.fin := by
    simp [liftT, Vector.toList_ofFn, List.map_ofFn]; rfl
  have h0 : (liftT g : Tab (XQ f) n)[0]'hn = XQ.fin (g ⟨0, hn⟩) := by simp
  rw [h0, hl, ← List.map_tail]
  obtain ⟨m, h1, h2, h3, h4⟩ := foldl_max_fin_list (f := f) (List.ofFn g).tail (g ⟨0, hn⟩)
  refine ⟨m, h1, ?_, ?_⟩
  · intro i
    have : g i ∈ List.ofFn g := by simp [List.mem_ofFn]
    obtain ⟨k, rfl⟩ : ∃ k, n = k + 1 := ⟨n - 1, by omega⟩
    rw [List.ofFn_succ] at this
    rcases List.mem_cons.mp this with h | h
    · rw [h]; exact h2
    · apply h3; rw [List.ofFn_succ]; simpa using h
  · rcases h4 with h | h
    · exact ⟨⟨0, hn⟩, h⟩
    · have : m ∈ List.ofFn g := List.mem_of_mem_tail h
      rw [List.mem_ofFn] at this
      obtain ⟨i, hi⟩ := this
      exact ⟨i, hi.symm⟩

end SLV
